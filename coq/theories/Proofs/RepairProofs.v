(* C07, clause 2 at TOKEN level: a document that lost one closer is rejected
   by strict parsing and accepted by tolerant parsing.

   Stage 1  tolerant parsing is total on `plain` token lists
            (tolerant_total);
   Stage 2  a strict success means every `{` token was matched
            (strict_success_braces_matched), hence a brace-matched list that
            lost one `}` is rejected strictly (lost_brace_strict_fails) and
            accepted tolerantly (lost_brace_repaired);
   Stage 3  an environment body closes only at an Escape+`end` pair, a
            bracket argument only at a `]` (local statements, lifted to a
            construct that follows text at the top level);
   Stage 3+ a strict success means every `\begin` was matched by an `\end`
            (strict_success_envs_matched, by counting as in Stage 2), hence a
            lost `\end{name}` is rejected strictly wherever it is nested
            (lost_end_repaired_count);
   Sec. 7   Stage 2 again with the escape-aware counter `bscan`, without the
            side condition esc_ok (strict_success_braces_matched_general).

   All statements are about `parse_tokens` / the reader functions on
   ARBITRARY token lists (not only tokenizer outputs, not only grammar
   documents), under decidable side conditions on the token list. *)
From Coq Require Import List NArith ZArith Bool Lia Arith.
From TexModel Require Import Base Tables Chars Tokenizer Tree Reader.
From TexProofs Require Import TokProofs ReaderLen ReaderTotal ReaderCons AttachProofs.
Import ListNotations.

(* ====================================================================== *)
(* 0. side conditions on token lists (all boolean, all suffix-closed)     *)
(* ====================================================================== *)

(* the token's category opens no math region ($ $$ \( \[) *)
Definition no_math (t : token) : bool :=
  match math_kind_of_begin (tcat t) with Some _ => false | None => true end.

Definition nomath (toks : list token) : bool := forallb no_math toks.

(* a condition on the token `n` after every Escape token and on what follows it *)
Fixpoint esc_cond (P : token -> list token -> bool) (toks : list token) : bool :=
  match toks with
  | e :: ((n :: rest) as toks') =>
    (if is_tc TEscape e then P n rest else true) && esc_cond P toks'
  | _ => true
  end.

(* no `\item` *)
Definition noitem : list token -> bool :=
  esc_cond (fun n _ => negb (str_eqb (ttext n) s_item)).

(* what follows an Escape+`begin`: after the optional spacer a `{` or `[`
   opens (so the argument list is not empty); and, when there are skip
   (verbatim-like) names at all, the group is `{` Text `}` with an unpadded
   name that is not a skip name *)
Definition begin_ok (SK : list str) (rest : list token) : bool :=
  match after_spacer rest with
  | o :: l =>
    is_opener o &&
    match SK with
    | [] => true
    | _ :: _ => simple_name_group (o :: l) &&
                match l with n :: _ => negb (mem_str (strip (ttext n)) SK) | [] => false end
    end
  | [] => false
  end.

Definition begins_ok (SK : list str) : list token -> bool :=
  esc_cond (fun n rest => if str_eqb (ttext n) s_begin then begin_ok SK rest else true).

(* the token after an Escape token (the command name) is not a brace token;
   true of every tokenizer output, where `\{` and `\}` are single tokens *)
Definition is_brace (t : token) : bool := is_tc TGroupBegin t || is_tc TGroupEnd t.
Definition esc_ok : list token -> bool := esc_cond (fun n _ => negb (is_brace n)).

(* Stage 1 side condition: no math switch token, no `\item`, every `\begin`
   opens a (non-skip) name group *)
Definition plain (SK : list str) (toks : list token) : bool :=
  nomath toks && noitem toks && begins_ok SK toks.

Lemma esc_cond_suffix P a b : esc_cond P (a ++ b) = true -> esc_cond P b = true.
Proof.
  induction a as [|x a IH]; simpl; auto.
  destruct (a ++ b) eqn:E.
  - destruct a; simpl in E; [subst; reflexivity | discriminate].
  - intro H. apply andb_true_iff in H. apply IH. tauto.
Qed.

Lemma esc_cond_head P e n rest :
  esc_cond P (e :: n :: rest) = true -> is_tc TEscape e = true -> P n rest = true.
Proof.
  cbn [esc_cond]. intros H He. rewrite He in H. apply andb_true_iff in H. tauto.
Qed.

Lemma plain_parts SK toks :
  plain SK toks = true <-> nomath toks = true /\ noitem toks = true /\ begins_ok SK toks = true.
Proof. unfold plain. rewrite !andb_true_iff. tauto. Qed.

Lemma plain_suffix SK rest toks : suffix rest toks -> plain SK toks = true -> plain SK rest = true.
Proof.
  intros [pre ->] H. apply plain_parts in H. destruct H as (H1 & H2 & H3).
  apply plain_parts. repeat split.
  - unfold nomath in *. rewrite forallb_app in H1. apply andb_true_iff in H1. tauto.
  - eapply esc_cond_suffix; exact H2.
  - eapply esc_cond_suffix; exact H3.
Qed.

Lemma plain_head_nomath SK c src : plain SK (c :: src) = true -> math_kind_of_begin (tcat c) = None.
Proof.
  intro H. apply plain_parts in H. destruct H as (H & _). simpl in H.
  apply andb_true_iff in H. destruct H as [H _]. unfold no_math in H.
  destruct (math_kind_of_begin (tcat c)); [discriminate | reflexivity].
Qed.

(* the suffix facts of AttachProofs, one function at a time *)
Lemma sufx_expr f skip strict m toks e rest :
  read_expr f skip strict m toks = Ok (e, rest) -> suffix rest toks.
Proof. apply (suf_all_holds f). Qed.
Lemma sufx_command f nreq nopt sk strict m toks name args rest :
  read_command f nreq nopt sk strict m toks = Ok ((name, args), rest) -> suffix rest (skipn sk toks).
Proof. apply (suf_all_holds f). Qed.
Lemma sufx_args f nreq nopt strict m toks args rest :
  read_args f nreq nopt strict m toks = Ok (args, rest) -> suffix rest toks.
Proof. apply (suf_all_holds f). Qed.
Lemma sufx_opt f args nopt strict m toks args' n' rest :
  read_arg_optional f args nopt strict m toks = Ok ((args', n'), rest) -> suffix rest toks.
Proof. apply (suf_all_holds f). Qed.
Lemma sufx_req f args nreq strict m toks args' n' rest :
  read_arg_required f args nreq strict m toks = Ok ((args', n'), rest) -> suffix rest toks.
Proof. apply (suf_all_holds f). Qed.
Lemma sufx_arg f c strict m toks e rest :
  read_arg f c strict m toks = Ok (e, rest) -> suffix rest toks.
Proof. apply (suf_all_holds f). Qed.

Lemma suffix_tail (t : token) l : suffix l (t :: l).
Proof. apply suffix_cons, suffix_refl. Qed.

Lemma suffix_after_spacer toks b c src : read_spacer toks = (b, c :: src) -> suffix src toks.
Proof.
  intro H. apply read_spacer_suffix in H.
  eapply suffix_trans; [apply suffix_tail | exact H].
Qed.

(* ====================================================================== *)
(* 1. what read_command returns                                           *)
(* ====================================================================== *)

Lemma read_command_nil f nreq nopt strict m name args rest :
  read_command f nreq nopt 0 strict m [] = Ok ((name, args), rest) ->
  name = [] /\ args = [] /\ rest = [].
Proof. destruct f as [|f]; [discriminate|]. simpl. intro H. inversion H. auto. Qed.

(* one layer of read_command on `\begin`/`\end`: the arguments are those of
   read_args with unlimited counts *)
Lemma read_command_beginend f sk strict m toks n rest0 name args src1 :
  skipn sk toks = n :: rest0 -> is_beginend n = true ->
  read_command f (-1) (-1) sk strict m toks = Ok ((name, args), src1) ->
  name = ttext n /\ exists f1, f = S f1 /\ read_args f1 (-1) (-1) strict m rest0 = Ok (args, src1).
Proof.
  intros Hs Hbe H. destruct f as [|f1]; [discriminate|]. cbn [read_command] in H.
  destruct (length toks <? sk)%nat; [discriminate|]. rewrite Hs in H.
  destruct (beginend_plain n Hbe) as [Hsig Hspec]. rewrite Hsig, Hspec in H.
  replace ((-1 <? 0)%Z && (-1 <? 0)%Z) with true in H by reflexivity.
  apply bind_ok in H. destruct H as ([pargs psrc] & Hargs & H). inversion H; subst.
  split; [reflexivity|]. exists f1. auto.
Qed.

(* the first two passes of read_args; everything later only appends *)
Lemma read_args_first_passes f nreq nopt strict m toks args rest :
  (nreq =? 0)%Z && (nopt =? 0)%Z = false ->
  read_args (S f) nreq nopt strict m toks = Ok (args, rest) ->
  exists args1 n1 src1 args2 n2 src2 more,
    read_arg_optional f [] nopt strict m toks = Ok ((args1, n1), src1) /\
    read_arg_required f args1 nreq strict m src1 = Ok ((args2, n2), src2) /\
    args = args2 ++ more.
Proof.
  intros Hz H. cbn [read_args] in H. rewrite Hz in H.
  apply bind_ok in H. destruct H as ([[args1 n1] src1] & H1 & H).
  apply bind_ok in H. destruct H as ([[args2 n2] src2] & H2 & H).
  apply bind_ok in H. destruct H as ([[args3 n3] src3] & H3 & H).
  apply bind_ok in H. destruct H as ([[args4 n4] src4] & H4 & H).
  inversion H; subst args4 src4. clear H.
  assert (E3 : exists m3, args3 = args2 ++ m3).
  { destruct src2 as [|t2 ts2]; [inversion H3; exists []; symmetry; apply app_nil_r|].
    destruct (is_tc TBracketBegin t2); [|inversion H3; exists []; symmetry; apply app_nil_r].
    eapply opt_extends; exact H3. }
  destruct E3 as (m3 & ->).
  assert (E4 : exists m4, args = (args2 ++ m3) ++ m4).
  { destruct src3 as [|t3 ts3]; [inversion H4; exists []; symmetry; apply app_nil_r|].
    destruct (is_tc TGroupBegin t3); [|inversion H4; exists []; symmetry; apply app_nil_r].
    eapply req_extends; exact H4. }
  destruct E4 as (m4 & ->).
  exists args1, n1, src1, args2, n2, src2, (m3 ++ m4). rewrite <- app_assoc. auto.
Qed.

(* a group opens after the optional spacer: the argument list is not empty *)
Lemma args_opens_nonempty f strict m toks o l args rest :
  after_spacer toks = o :: l -> is_opener o = true ->
  read_args f (-1) (-1) strict m toks = Ok (args, rest) -> args <> [].
Proof.
  intros Has Ho H. destruct f as [|f]; [discriminate|].
  apply read_args_first_passes in H; [|reflexivity].
  destruct H as (args1 & n1 & src1 & args2 & n2 & src2 & more & H1 & H2 & ->).
  unfold after_spacer in Has. destruct (read_spacer toks) as [b s1] eqn:Esp. cbn [snd] in Has. subst s1.
  pose proof (req_extends _ _ _ _ _ _ _ _ _ H2) as (m2 & E2).
  destruct (is_tc TBracketBegin o) eqn:Eb.
  - (* the optional pass takes it *)
    destruct f as [|f']; [discriminate|]. cbn [read_arg_optional] in H1.
    replace (-1 =? 0)%Z with false in H1 by reflexivity. rewrite Esp, Eb in H1.
    apply bind_ok in H1. destruct H1 as ([g s3] & _ & H1).
    apply opt_extends in H1. destruct H1 as (m1 & ->). subst args2.
    simpl. discriminate.
  - (* the required pass takes it *)
    assert (Hg : is_tc TGroupBegin o = true).
    { unfold is_opener in Ho. rewrite Eb, orb_false_r in Ho. exact Ho. }
    destruct f as [|f']; [discriminate|]. cbn [read_arg_optional] in H1.
    replace (-1 =? 0)%Z with false in H1 by reflexivity. rewrite Esp, Eb in H1.
    inversion H1; subst args1 n1 src1. clear H1.
    cbn [read_arg_required] in H2. replace (-1 =? 0)%Z with false in H2 by reflexivity.
    destruct toks as [|t0 ts0]; [unfold read_spacer in Esp; inversion Esp|].
    rewrite Esp, Hg in H2.
    apply bind_ok in H2. destruct H2 as ([g s3] & _ & H2).
    apply req_extends in H2. destruct H2 as (m1 & ->).
    simpl. discriminate.
Qed.

(* `\begin` under begin_ok: the argument list is non-empty and its first
   argument does not name a skip environment *)
Lemma begin_args SK f strict m n rest0 name args src1 skip :
  str_eqb (ttext n) s_begin = true -> begin_ok SK rest0 = true -> sub_skip SK skip ->
  read_command f (-1) (-1) 0 strict m (n :: rest0) = Ok ((name, args), src1) ->
  exists a0 args', args = a0 :: args' /\ mem_str (strip (arg_string a0)) skip = false.
Proof.
  intros Hb Hok Hsk H.
  assert (Hbe : is_beginend n = true) by (unfold is_beginend; rewrite Hb; reflexivity).
  apply (read_command_beginend f 0 strict m (n :: rest0) n rest0) in H; [|reflexivity | exact Hbe].
  destruct H as (_ & f1 & _ & Hargs).
  unfold begin_ok in Hok. destruct (after_spacer rest0) as [|o l] eqn:Has; [discriminate|].
  apply andb_true_iff in Hok. destruct Hok as [Ho Hname].
  pose proof (args_opens_nonempty _ _ _ _ _ _ _ _ Has Ho Hargs) as Hne.
  destruct args as [|a0 args']; [congruence|]. exists a0, args'. split; [reflexivity|].
  destruct (mem_str (strip (arg_string a0)) skip) eqn:Em; [|reflexivity]. exfalso.
  apply Hsk in Em. destruct SK as [|s0 SK']; [discriminate Em|].
  apply andb_true_iff in Hname. destruct Hname as [Hs Hn].
  destruct l as [|n' [|cl l']]; try discriminate Hs.
  destruct (args_simple_name f1 strict _ rest0 o n' cl l' _ _ Has Hs Hargs) as (args'' & Ea).
  inversion Ea; subst a0 args''.
  assert (Has' : arg_string (EGroup GBrace [EText n'] (tpos o)) = ttext n').
  { unfold arg_string, estr_list. simpl. apply app_nil_r. }
  rewrite Has' in Em. rewrite Em in Hn. discriminate Hn.
Qed.

(* ====================================================================== *)
(* 2. Stage 1: tolerant parsing never fails on plain token lists          *)
(* ====================================================================== *)

Section WithSK.
Variable SK : list str.

(* tolerant: a tree (or out of fuel), none of the reader's errors;
   strict: additionally the two "unclosed" errors EOFError / TypeError *)
Definition noerrS {A} (strict : bool) (r : res A) : Prop :=
  match r with
  | Ok _ => True
  | Err OutOfFuel => True
  | Err EOFError | Err TypeError => strict = true
  | Err _ => False
  end.
Notation noerr := (noerrS false).

Lemma noerr_bind {A B} strict (r : res A) (k : A -> res B) :
  noerrS strict r -> (forall a, r = Ok a -> noerrS strict (k a)) -> noerrS strict (bind r k).
Proof. destruct r as [a|e]; simpl; auto. Qed.

Lemma noerr_diag_ok {A} (r : res A) : noerr r -> diag r -> exists a, r = Ok a.
Proof. destruct r as [a|e]; [eauto|]. destruct e; simpl; try tauto; discriminate. Qed.

Lemma noerrS_if {A} strict (e : err) (v : A) :
  e = EOFError \/ e = TypeError -> noerrS strict (if strict then Err e else Ok v).
Proof. destruct strict; simpl; [|auto]. intros [-> | ->]; reflexivity. Qed.

Notation plainS := (plain SK).

Definition tl_expr f := forall strict skip m toks,
  sub_skip SK skip -> plainS toks = true -> toks <> [] -> noerrS strict (read_expr f skip strict m toks).
Definition tl_env f := forall strict name args pos skip m acc toks,
  sub_skip SK skip -> plainS toks = true ->
  noerrS strict (read_env_loop f name args pos skip strict m acc toks).
Definition tl_command f := forall strict nreq nopt sk m toks,
  (sk <= length toks)%nat -> plainS toks = true -> noerrS strict (read_command f nreq nopt sk strict m toks).
Definition tl_args f := forall strict nreq nopt m toks,
  plainS toks = true -> noerrS strict (read_args f nreq nopt strict m toks).
Definition tl_opt f := forall strict args nopt m toks,
  plainS toks = true -> noerrS strict (read_arg_optional f args nopt strict m toks).
Definition tl_req f := forall strict args nreq m toks,
  plainS toks = true -> noerrS strict (read_arg_required f args nreq strict m toks).
Definition tl_arg f := forall strict c m toks,
  group_kind_of_begin (tcat c) <> None -> plainS toks = true -> noerrS strict (read_arg f c strict m toks).
Definition tl_argloop f := forall strict k pos m acc toks,
  plainS toks = true -> noerrS strict (read_arg_loop f k pos strict m acc toks).

Definition tl_all f :=
  tl_expr f /\ tl_env f /\ tl_command f /\ tl_args f /\ tl_opt f /\ tl_req f /\ tl_arg f /\
  tl_argloop f.

Lemma no_skip' : sub_skip SK [].
Proof. intros n Hn. discriminate. Qed.

Lemma tl_all_holds : forall f, tl_all f.
Proof.
  induction f as [|f IH].
  { unfold tl_all, tl_expr, tl_env, tl_command, tl_args, tl_opt, tl_req, tl_arg, tl_argloop.
    repeat match goal with |- _ /\ _ => split end; intros; exact I. }
  destruct IH as (Te & Tv & Tc & Ta & To & Tr & Tg & Tl).
  unfold tl_all.
  assert (Hargloop : tl_argloop (S f)).
  { unfold tl_argloop. intros strict k pos m acc toks Hp. cbn [read_arg_loop].
    destruct toks as [|t src]; [apply noerrS_if; auto|].
    destruct (is_group_end k t); [exact I|].
    apply noerr_bind; [apply Te; [exact no_skip' | exact Hp | discriminate]|].
    intros [e src1] He. apply Tl.
    eapply plain_suffix; [eapply sufx_expr; exact He | exact Hp]. }
  assert (Harg : tl_arg (S f)).
  { unfold tl_arg. intros strict c m toks Hc Hp. cbn [read_arg].
    destruct (group_kind_of_begin (tcat c)) as [k|]; [|congruence]. apply Tl. exact Hp. }
  assert (Hopt : tl_opt (S f)).
  { unfold tl_opt. intros strict args nopt m toks Hp. cbn [read_arg_optional].
    destruct (nopt =? 0)%Z; [exact I|].
    destruct (read_spacer toks) as [b src1] eqn:Es.
    destruct src1 as [|c src2]; [exact I|].
    destruct (is_tc TBracketBegin c) eqn:Ec; [|exact I].
    assert (Hp2 : plainS src2 = true).
    { eapply plain_suffix; [eapply suffix_after_spacer; exact Es | exact Hp]. }
    apply noerr_bind; [apply Tg; [apply group_begin_bracket; exact Ec | exact Hp2]|].
    intros [g src3] Hg. apply To.
    eapply plain_suffix; [eapply sufx_arg; exact Hg | exact Hp2]. }
  assert (Hreq : tl_req (S f)).
  { unfold tl_req. intros strict args nreq m toks Hp. cbn [read_arg_required].
    destruct (nreq =? 0)%Z; [exact I|].
    destruct toks as [|t0 ts0]; [exact I|].
    destruct (read_spacer (t0 :: ts0)) as [b src1] eqn:Es.
    destruct src1 as [|c src2]; [exact I|].
    assert (Hp2 : plainS src2 = true).
    { eapply plain_suffix; [eapply suffix_after_spacer; exact Es | exact Hp]. }
    destruct (is_tc TGroupBegin c) eqn:Ec.
    - apply noerr_bind; [apply Tg; [apply group_begin_brace; exact Ec | exact Hp2]|].
      intros [g src3] Hg. apply Tr.
      eapply plain_suffix; [eapply sufx_arg; exact Hg | exact Hp2].
    - destruct (0 <? nreq)%Z; [|exact I].
      destruct (is_tc TEscape c).
      + apply noerr_bind; [apply Tc; [simpl; lia | exact Hp2]|].
        intros [[cname cargs] src3] Hc. apply Tr.
        eapply plain_suffix; [eapply sufx_command; exact Hc | exact Hp2].
      + apply Tr. exact Hp2. }
  assert (Hargs : tl_args (S f)).
  { unfold tl_args. intros strict nreq nopt m toks Hp. cbn [read_args].
    destruct ((nreq =? 0)%Z && (nopt =? 0)%Z); [exact I|].
    apply noerr_bind; [apply To; exact Hp|]. intros [[a1 n1] s1] H1.
    assert (Hp1 : plainS s1 = true).
    { eapply plain_suffix; [eapply sufx_opt; exact H1 | exact Hp]. }
    apply noerr_bind; [apply Tr; exact Hp1|]. intros [[a2 n2] s2] H2.
    assert (Hp2 : plainS s2 = true).
    { eapply plain_suffix; [eapply sufx_req; exact H2 | exact Hp1]. }
    apply noerr_bind.
    { destruct s2 as [|t ts]; [exact I|].
      destruct (is_tc TBracketBegin t); [apply To; exact Hp2 | exact I]. }
    intros [[a3 n3] s3] H3.
    assert (Hp3 : plainS s3 = true).
    { destruct s2 as [|t ts]; [inversion H3; subst; exact Hp2|].
      destruct (is_tc TBracketBegin t); [|inversion H3; subst; exact Hp2].
      eapply plain_suffix; [eapply sufx_opt; exact H3 | exact Hp2]. }
    apply noerr_bind.
    { destruct s3 as [|t ts]; [exact I|].
      destruct (is_tc TGroupBegin t); [apply Tr; exact Hp3 | exact I]. }
    intros [[a4 n4] s4] _. exact I. }
  assert (Hcmd : tl_command (S f)).
  { unfold tl_command. intros strict nreq nopt sk m toks Hsk Hp. cbn [read_command].
    destruct (length toks <? sk)%nat eqn:E; [apply Nat.ltb_lt in E; lia|].
    destruct (skipn sk toks) as [|name src] eqn:Es; [exact I|].
    destruct (if (nreq <? 0)%Z && (nopt <? 0)%Z then signature_of (ttext name) else (nreq, nopt))
      as [nr no].
    apply noerr_bind.
    - apply Ta. eapply plain_suffix; [|exact Hp].
      eapply suffix_trans; [apply suffix_tail|]. rewrite <- Es. apply suffix_skipn.
    - intros [args src1] _. exact I. }
  assert (Henv : tl_env (S f)).
  { unfold tl_env. intros strict name args pos skip m acc toks Hsk Hp. cbn [read_env_loop].
    assert (Hstep : noerrS strict (bind (read_expr f skip strict m toks) (fun '(e, src1) =>
                      read_env_loop f name args pos skip strict m (acc ++ [e]) src1)) \/ toks = []).
    { destruct toks as [|t l]; [right; reflexivity|]. left.
      apply noerr_bind; [apply Te; [exact Hsk | exact Hp | discriminate]|].
      intros [e src1] He. apply Tv; [exact Hsk|].
      eapply plain_suffix; [eapply sufx_expr; exact He | exact Hp]. }
    destruct toks as [|t l]; [apply noerrS_if; auto|].
    destruct Hstep as [Hstep|]; [|discriminate].
    destruct (is_tc TEscape t) eqn:Et; [|exact Hstep].
    apply noerr_bind; [apply Tc; [simpl; lia | exact Hp]|].
    intros [[cname cargs] crest] Hpeek.
    destruct (str_eqb cname s_end) eqn:Eend; [|exact Hstep].
    destruct cargs as [|a0 cargs]; [apply noerrS_if; auto|].
    destruct (negb (str_eqb (arg_string a0) name)); [apply noerrS_if; auto|].
    destruct (read_spacer (skipn 2 (t :: l))) as [b src2] eqn:Esp.
    pose proof (end_peek_opens _ _ _ _ _ _ _ _ _ Hpeek Eend) as (c0 & Hc0 & Hk0).
    unfold head_after_spacer in Hc0. rewrite Esp in Hc0. cbn [snd] in Hc0.
    destruct src2 as [|c src3]; [discriminate Hc0|]. inversion Hc0; subst c0.
    apply noerr_bind.
    - apply Tg; [exact Hk0|]. eapply plain_suffix; [|exact Hp].
      eapply suffix_trans; [eapply suffix_after_spacer; exact Esp | apply suffix_skipn].
    - intros [g rest] _. exact I. }
  assert (Hexpr : tl_expr (S f)).
  { unfold tl_expr. intros strict skip m toks Hsk Hp Hne. cbn [read_expr].
    destruct toks as [|c src]; [congruence|].
    rewrite (plain_head_nomath _ _ _ Hp).
    assert (Hps : plainS src = true).
    { eapply plain_suffix; [apply suffix_tail | exact Hp]. }
    destruct (is_tc TEscape c) eqn:Ec.
    2:{ destruct (is_tc TGroupBegin c) eqn:Eg; [|exact I].
        apply Tg; [apply group_begin_brace; exact Eg | exact Hps]. }
    apply noerr_bind; [apply Tc; [simpl; lia | exact Hps]|].
    intros [[name args] src1] Hcm.
    destruct src as [|n rest0].
    { apply read_command_nil in Hcm. destruct Hcm as (-> & -> & ->).
      replace (str_eqb [] s_item) with false by reflexivity.
      replace (str_eqb [] s_begin) with false by reflexivity. exact I. }
    pose proof (read_command_name _ _ _ _ _ _ _ _ _ _ Hcm) as En. subst name.
    apply plain_parts in Hp. destruct Hp as (_ & Hitem & Hbeg).
    pose proof (esc_cond_head _ _ _ _ Hitem Ec) as Hi. cbv beta in Hi.
    apply negb_true_iff in Hi. rewrite Hi.
    destruct (str_eqb (ttext n) s_begin && negb (mode_is_special m)) eqn:Eb; [|exact I].
    apply andb_true_iff in Eb. destruct Eb as [Eb _].
    pose proof (esc_cond_head _ _ _ _ Hbeg Ec) as Hbo. cbv beta in Hbo. rewrite Eb in Hbo.
    destruct (begin_args SK _ _ _ _ _ _ _ _ skip Eb Hbo Hsk Hcm) as (a0 & args' & -> & Hns).
    rewrite Hns. apply Tv; [exact Hsk|].
    eapply plain_suffix; [|exact Hps].
    apply sufx_command in Hcm. exact Hcm. }
  repeat split; assumption.
Qed.

Lemma read_tex_loop_noerr fuel efuel skip strict : forall acc toks,
  sub_skip SK skip -> plainS toks = true ->
  noerrS strict (read_tex_loop fuel efuel skip strict acc toks).
Proof.
  induction fuel as [|fu IH]; intros acc toks Hsk Hp; [exact I|].
  cbn [read_tex_loop]. destruct toks as [|t ts]; [exact I|].
  apply noerr_bind.
  - apply (tl_all_holds efuel); [exact Hsk | exact Hp | discriminate].
  - intros [e rest] He. apply IH; [exact Hsk|].
    eapply plain_suffix; [eapply sufx_expr; exact He | exact Hp].
Qed.

End WithSK.

(* Stage 1, main theorem: tolerant parsing of a plain token list succeeds
   (with the fuel parse_tokens uses) *)
Theorem tolerant_total toks user :
  plain (Tables.skip_env_names ++ user) toks = true ->
  exists t, parse_tokens toks false user = Ok t.
Proof.
  intro Hp. apply noerr_diag_ok; [|apply parse_tokens_total].
  unfold parse_tokens. apply noerr_bind; [|intros; exact I].
  apply (read_tex_loop_noerr (Tables.skip_env_names ++ user)); [|exact Hp].
  intros n Hn. exact Hn.
Qed.

(* the reader-level form, without skip environments: only `{`/`[` has to
   follow a `\begin` *)
Theorem tolerant_total_noskip toks :
  plain [] toks = true ->
  forall acc, exists body,
    read_tex_loop (S (length toks)) (fuel_for toks) [] false acc toks = Ok body.
Proof.
  intros Hp acc. apply noerr_diag_ok.
  - apply (read_tex_loop_noerr []); [intros n Hn; exact Hn | exact Hp].
  - apply read_tex_loop_diag; unfold fuel_for; lia.
Qed.

(* strict parsing of a plain token list: a tree, or one of the two "unclosed"
   errors - never AssertionError *)
Theorem plain_strict_cases toks user :
  plain (Tables.skip_env_names ++ user) toks = true ->
  (exists t, parse_tokens toks true user = Ok t) \/
  parse_tokens toks true user = Err EOFError \/ parse_tokens toks true user = Err TypeError.
Proof.
  intro Hp.
  assert (N : noerrS true (parse_tokens toks true user)).
  { unfold parse_tokens. apply noerr_bind; [|intros; exact I].
    apply (read_tex_loop_noerr (Tables.skip_env_names ++ user)); [|exact Hp].
    intros n Hn. exact Hn. }
  pose proof (parse_tokens_total toks true user) as D.
  destruct (parse_tokens toks true user) as [t|e]; [left; eauto|].
  destruct e; simpl in N, D; try contradiction; try discriminate; auto.
Qed.

(* ====================================================================== *)
(* 3. Stage 2: a strict success matched every `{` token                   *)
(* ====================================================================== *)

(* the stack-free brace counter: scanning left to right, a GroupBegin token
   increments the depth, a GroupEnd token decrements it when positive (a free
   `}` at depth 0 is ordinary text and is ignored) *)
Fixpoint depth_after (toks : list token) (d : nat) : nat :=
  match toks with
  | [] => d
  | t :: r => if is_tc TGroupBegin t then depth_after r (S d)
              else if is_tc TGroupEnd t then depth_after r (pred d)
              else depth_after r d
  end.

(* no `}` is met at depth 0 *)
Fixpoint no_free_close (toks : list token) (d : nat) : bool :=
  match toks with
  | [] => true
  | t :: r => if is_tc TGroupBegin t then no_free_close r (S d)
              else if is_tc TGroupEnd t
                   then match d with O => false | S d' => no_free_close r d' end
                   else no_free_close r d
  end.

Definition brace_matched (toks : list token) : Prop := depth_after toks 0 = 0%nat.

Lemma depth_app a b d : depth_after (a ++ b) d = depth_after b (depth_after a d).
Proof.
  revert d; induction a as [|t a IH]; intro d; simpl; [reflexivity|].
  destruct (is_tc TGroupBegin t); [apply IH|]. destruct (is_tc TGroupEnd t); apply IH.
Qed.

Lemma depth_mono l : forall d d', (d <= d')%nat -> (depth_after l d <= depth_after l d')%nat.
Proof.
  induction l as [|t l IH]; intros d d' H; simpl; [exact H|].
  destruct (is_tc TGroupBegin t); [apply IH; lia|].
  destruct (is_tc TGroupEnd t); apply IH; lia.
Qed.

(* a segment never raises the depth / lowers it by one level *)
Definition NI (used : list token) : Prop := forall d, (depth_after used d <= d)%nat.
Definition CL (used : list token) : Prop := forall d, (depth_after used (S d) <= d)%nat.
Definition closes (k : groupkind) (used : list token) : Prop :=
  match k with GBrace => CL used | GBracket => NI used end.

Lemma NI_nil : NI [].
Proof. intro d. simpl. lia. Qed.

Lemma NI_app a b : NI a -> NI b -> NI (a ++ b).
Proof. intros Ha Hb d. rewrite depth_app. specialize (Hb (depth_after a d)). specialize (Ha d). lia. Qed.

Lemma NI_single t : is_tc TGroupBegin t = false -> NI [t].
Proof. intros H d. simpl. rewrite H. destruct (is_tc TGroupEnd t); lia. Qed.

Lemma brace_split t : is_brace t = false -> is_tc TGroupBegin t = false /\ is_tc TGroupEnd t = false.
Proof. unfold is_brace. intro H. apply orb_false_iff in H. exact H. Qed.

Lemma NI_cons t u : is_tc TGroupBegin t = false -> NI u -> NI (t :: u).
Proof. intros Ht Hu. apply (NI_app [t] u); [apply NI_single; exact Ht | exact Hu]. Qed.

Lemma CL_close t : is_tc TGroupEnd t = true -> CL [t].
Proof.
  intros H d. simpl. rewrite H.
  destruct (is_tc TGroupBegin t) eqn:E; [|simpl; lia].
  apply is_tc_true in H. apply is_tc_true in E. congruence.
Qed.

Lemma CL_app a b : NI a -> CL b -> CL (a ++ b).
Proof.
  intros Ha Hb d. rewrite depth_app.
  pose proof (depth_mono b _ _ (Ha (S d))). specialize (Hb d). lia.
Qed.

Lemma closes_app k a b : NI a -> closes k b -> closes k (a ++ b).
Proof. destruct k; simpl; [apply CL_app | apply NI_app]. Qed.

Lemma closes_end k t : is_group_end k t = true -> closes k [t].
Proof.
  destruct k; simpl; intro H.
  - apply CL_close. apply is_tc_true. apply is_group_end_brace. exact H.
  - apply NI_single. apply is_group_end_bracket in H. apply is_tc_false. congruence.
Qed.

Lemma opener_closes c k used :
  group_kind_of_begin (tcat c) = Some k -> closes k used -> NI (c :: used).
Proof.
  intros Hk Hc d. simpl. unfold is_tc.
  destruct (tcat c); vm_compute in Hk; try discriminate Hk; inversion Hk; subst k; simpl.
  - apply Hc.
  - apply Hc.
Qed.

Lemma math_end_not_begin k t : is_math_end k t = true -> is_tc TGroupBegin t = false.
Proof.
  intro H. apply is_math_end_iff in H. apply is_tc_false. intro E. rewrite E in H.
  destruct k; vm_compute in H; discriminate H.
Qed.

Lemma math_begin_not_begin c k : math_kind_of_begin (tcat c) = Some k -> is_tc TGroupBegin c = false.
Proof.
  intro H. apply is_tc_false. intro E. rewrite E in H. vm_compute in H. discriminate H.
Qed.

Lemma escape_not_begin c : is_tc TEscape c = true -> is_tc TGroupBegin c = false.
Proof. intro H. apply (is_tc_excl _ _ _ H). discriminate. Qed.

Lemma spacer_not_begin c : is_tc TMergedSpacer c = true -> is_tc TGroupBegin c = false.
Proof. intro H. apply (is_tc_excl _ _ _ H). discriminate. Qed.

(* what a reader call consumed: toks = used ++ rest, with P used *)
Definition Seg (P : list token -> Prop) (toks rest : list token) : Prop :=
  exists used, toks = used ++ rest /\ P used.

Lemma Seg_refl toks : Seg NI toks toks.
Proof. exists []. split; [reflexivity | exact NI_nil]. Qed.

Lemma Seg_trans a b c : Seg NI a b -> Seg NI b c -> Seg NI a c.
Proof.
  intros (u & -> & Hu) (v & -> & Hv). exists (u ++ v).
  split; [rewrite app_assoc; reflexivity | apply NI_app; assumption].
Qed.

Lemma Seg_cons t a b : is_tc TGroupBegin t = false -> Seg NI a b -> Seg NI (t :: a) b.
Proof.
  intros Ht (u & -> & Hu). exists (t :: u). split; [reflexivity | apply NI_cons; assumption].
Qed.

Lemma Seg_spacer toks b src1 rest :
  read_spacer toks = (b, src1) -> Seg NI src1 rest -> Seg NI toks rest.
Proof.
  intros Hs H. apply read_spacer_cases in Hs. destruct Hs as [->|(sp & -> & Hsp)]; [exact H|].
  apply Seg_cons; [apply spacer_not_begin; exact Hsp | exact H].
Qed.

Lemma Seg_suffix a b : Seg NI a b -> suffix b a.
Proof. intros (u & -> & _). exists u. reflexivity. Qed.

(* Stage 2 side condition: command names are not brace tokens, and no
   `\begin` opens a skip environment *)
Definition tidy (SK : list str) (toks : list token) : bool := esc_ok toks && begins_ok SK toks.

Lemma tidy_suffix SK rest toks : suffix rest toks -> tidy SK toks = true -> tidy SK rest = true.
Proof.
  intros [pre ->] H. unfold tidy in *. apply andb_true_iff in H. destruct H as [H1 H2].
  apply andb_true_iff. split; eapply esc_cond_suffix; eassumption.
Qed.

Definition head_not_brace (toks : list token) : Prop :=
  match toks with n :: _ => is_brace n = false | [] => True end.

Lemma tidy_name SK c src : tidy SK (c :: src) = true -> is_tc TEscape c = true -> head_not_brace src.
Proof.
  intros H Hc. destruct src as [|n rest]; [exact I|]. simpl.
  unfold tidy in H. apply andb_true_iff in H. destruct H as [H _].
  pose proof (esc_cond_head _ _ _ _ H Hc) as Hn. cbv beta in Hn. apply negb_true_iff in Hn. exact Hn.
Qed.

(* the peek of read_env / read_item: the command name is the second token *)
Lemma peek_shape f nreq nopt strict m t l cname cargs crest :
  read_command f nreq nopt 1 strict m (t :: l) = Ok ((cname, cargs), crest) ->
  (l = [] /\ cname = []) \/ exists nm src, l = nm :: src /\ cname = ttext nm.
Proof.
  destruct f as [|f]; [discriminate|]. cbn [read_command].
  destruct (length (t :: l) <? 1)%nat; [discriminate|].
  change (skipn 1 (t :: l)) with l.
  destruct l as [|nm src]; [intro H; inversion H; auto|].
  destruct (if (nreq <? 0)%Z && (nopt <? 0)%Z then signature_of (ttext nm) else (nreq, nopt))
    as [nr no].
  intro H. apply bind_ok in H. destruct H as ([a s1] & _ & H). inversion H. right. eauto.
Qed.

Section Balance.
Variable SK : list str.
Notation tidyS := (tidy SK).

Definition bal_expr f := forall skip m toks e rest,
  sub_skip SK skip -> tidyS toks = true ->
  read_expr f skip true m toks = Ok (e, rest) -> Seg NI toks rest.
Definition bal_item f := forall acc toks es rest,
  tidyS toks = true -> read_item_loop f acc toks = Ok (es, rest) -> Seg NI toks rest.
Definition bal_math f := forall k pos acc toks e rest,
  tidyS toks = true -> read_math_loop f k pos true acc toks = Ok (e, rest) -> Seg NI toks rest.
Definition bal_env f := forall name args pos skip m acc toks e rest,
  sub_skip SK skip -> tidyS toks = true ->
  read_env_loop f name args pos skip true m acc toks = Ok (e, rest) -> Seg NI toks rest.
Definition bal_command f := forall nreq nopt m toks name args rest,
  tidyS toks = true -> head_not_brace toks ->
  read_command f nreq nopt 0 true m toks = Ok ((name, args), rest) -> Seg NI toks rest.
Definition bal_args f := forall nreq nopt m toks args rest,
  tidyS toks = true -> read_args f nreq nopt true m toks = Ok (args, rest) -> Seg NI toks rest.
Definition bal_opt f := forall args nopt m toks args' n' rest,
  tidyS toks = true ->
  read_arg_optional f args nopt true m toks = Ok ((args', n'), rest) -> Seg NI toks rest.
Definition bal_req f := forall args nreq m toks args' n' rest,
  tidyS toks = true ->
  read_arg_required f args nreq true m toks = Ok ((args', n'), rest) -> Seg NI toks rest.
Definition bal_arg f := forall c m toks e rest,
  tidyS toks = true -> read_arg f c true m toks = Ok (e, rest) ->
  exists used, toks = used ++ rest /\ NI (c :: used).
Definition bal_argloop f := forall k pos m acc toks e rest,
  tidyS toks = true -> read_arg_loop f k pos true m acc toks = Ok (e, rest) ->
  exists used, toks = used ++ rest /\ closes k used.

Definition bal_all f :=
  bal_expr f /\ bal_item f /\ bal_math f /\ bal_env f /\ bal_command f /\ bal_args f /\
  bal_opt f /\ bal_req f /\ bal_arg f /\ bal_argloop f.

Lemma Seg_tidy a b : Seg NI a b -> tidyS a = true -> tidyS b = true.
Proof. intros H. apply tidy_suffix. apply Seg_suffix. exact H. Qed.

(* an attached group after the optional spacer *)
Lemma Seg_group toks b c src2 ug src3 :
  read_spacer toks = (b, c :: src2) -> src2 = ug ++ src3 -> NI (c :: ug) -> Seg NI toks src3.
Proof.
  intros Es -> Hn. eapply Seg_spacer; [exact Es|].
  exists (c :: ug). split; [reflexivity | exact Hn].
Qed.

Lemma bal_all_holds : forall f, bal_all f.
Proof.
  induction f as [|f IH].
  { unfold bal_all, bal_expr, bal_item, bal_math, bal_env, bal_command, bal_args, bal_opt,
      bal_req, bal_arg, bal_argloop.
    repeat match goal with |- _ /\ _ => split end; intros; simpl in *; discriminate. }
  destruct IH as (Be & Bi & Bm & Bv & Bc & Ba & Bo & Br & Bg & Bl).
  unfold bal_all.
  assert (Hargloop : bal_argloop (S f)).
  { unfold bal_argloop. intros k pos m acc toks e rest Hy H. cbn [read_arg_loop] in H.
    destruct toks as [|t src]; [discriminate|].
    destruct (is_group_end k t) eqn:Eend.
    - inversion H; subst. exists [t]. split; [reflexivity | apply closes_end; exact Eend].
    - apply bind_ok in H. destruct H as ([e1 src1] & He & H).
      apply Be in He; [|exact (no_skip' SK) | exact Hy].
      pose proof (Seg_tidy _ _ He Hy) as Hy1. destruct He as (u1 & Eu1 & N1).
      apply Bl in H; [|exact Hy1]. destruct H as (u2 & Eu2 & C2).
      exists (u1 ++ u2). split; [rewrite Eu1, Eu2, <- app_assoc; reflexivity|].
      apply closes_app; assumption. }
  assert (Harg : bal_arg (S f)).
  { unfold bal_arg. intros c m toks e rest Hy H. cbn [read_arg] in H.
    destruct (group_kind_of_begin (tcat c)) as [k|] eqn:Ek; [|discriminate].
    apply Bl in H; [|exact Hy]. destruct H as (used & Eu & C).
    exists used. split; [exact Eu | eapply opener_closes; eassumption]. }
  assert (Hmath : bal_math (S f)).
  { unfold bal_math. intros k pos acc toks e rest Hy H. cbn [read_math_loop] in H.
    destruct toks as [|t src]; [discriminate|].
    destruct (is_math_end k t) eqn:Eend.
    - inversion H; subst. exists [t]. split; [reflexivity|].
      apply NI_single. eapply math_end_not_begin; exact Eend.
    - apply bind_ok in H. destruct H as ([e1 src1] & He & H).
      apply Be in He; [|exact (no_skip' SK) | exact Hy].
      pose proof (Seg_tidy _ _ He Hy) as Hy1.
      apply Bm in H; [|exact Hy1]. eapply Seg_trans; eassumption. }
  assert (Hitem : bal_item (S f)).
  { unfold bal_item. intros acc toks es rest Hy H. cbn [read_item_loop] in H.
    assert (Hstep : forall es rest,
      bind (read_expr f [] true MNonMath toks)
           (fun '(e, src1) => read_item_loop f (acc ++ [e]) src1) = Ok (es, rest) ->
      Seg NI toks rest).
    { intros es' rest' H'. apply bind_ok in H'. destruct H' as ([e1 src1] & He & H').
      apply Be in He; [|exact (no_skip' SK) | exact Hy].
      pose proof (Seg_tidy _ _ He Hy) as Hy1.
      apply Bi in H'; [|exact Hy1]. eapply Seg_trans; eassumption. }
    assert (Hstop : forall es rest, Ok (acc, toks) = Ok (es, rest) -> Seg NI toks rest).
    { intros es' rest' H'. inversion H'; subst. apply Seg_refl. }
    destruct toks as [|t src]; [eapply Hstop; exact H|].
    destruct (is_tc TEscape t).
    - apply bind_ok in H. destruct H as ([[cname cargs] crest] & _ & H).
      destruct (str_eqb cname s_end || str_eqb cname s_item); [eapply Hstop | eapply Hstep]; exact H.
    - destruct (is_tc TGroupEnd t); [eapply Hstop | eapply Hstep]; exact H. }
  assert (Hopt : bal_opt (S f)).
  { unfold bal_opt. intros args nopt m toks args' n' rest Hy H. cbn [read_arg_optional] in H.
    assert (Hstop : forall a' k' r', Ok (args, nopt, toks) = Ok (a', k', r') -> Seg NI toks r').
    { intros a' k' r' H'. inversion H'; subst. apply Seg_refl. }
    destruct (nopt =? 0)%Z; [exact (Hstop _ _ _ H)|].
    destruct (read_spacer toks) as [b src1] eqn:Esp.
    destruct src1 as [|c src2]; [exact (Hstop _ _ _ H)|].
    destruct (is_tc TBracketBegin c) eqn:Ec; [|exact (Hstop _ _ _ H)].
    apply bind_ok in H. destruct H as ([g src3] & Hg & H).
    assert (Hy2 : tidyS src2 = true).
    { eapply tidy_suffix; [eapply suffix_after_spacer; exact Esp | exact Hy]. }
    apply Bg in Hg; [|exact Hy2]. destruct Hg as (ug & Eug & Ng).
    pose proof (Seg_group _ _ _ _ _ _ Esp Eug Ng) as S1.
    apply Bo in H; [|exact (Seg_tidy _ _ S1 Hy)]. eapply Seg_trans; eassumption. }
  assert (Hreq : bal_req (S f)).
  { unfold bal_req. intros args nreq m toks args' n' rest Hy H. cbn [read_arg_required] in H.
    assert (Hstop : forall a' k' r', Ok (args, nreq, toks) = Ok (a', k', r') -> Seg NI toks r').
    { intros a' k' r' H'. inversion H'; subst. apply Seg_refl. }
    destruct (nreq =? 0)%Z; [exact (Hstop _ _ _ H)|].
    destruct toks as [|t0 ts0]; [exact (Hstop _ _ _ H)|].
    destruct (read_spacer (t0 :: ts0)) as [b src1] eqn:Esp.
    destruct src1 as [|c src2]; [exact (Hstop _ _ _ H)|].
    assert (Hy1 : tidyS (c :: src2) = true).
    { eapply tidy_suffix; [eapply read_spacer_suffix; exact Esp | exact Hy]. }
    assert (Hy2 : tidyS src2 = true).
    { eapply tidy_suffix; [apply suffix_tail | exact Hy1]. }
    destruct (is_tc TGroupBegin c) eqn:Ec.
    - apply bind_ok in H. destruct H as ([g src3] & Hg & H).
      apply Bg in Hg; [|exact Hy2]. destruct Hg as (ug & Eug & Ng).
      pose proof (Seg_group _ _ _ _ _ _ Esp Eug Ng) as S1.
      apply Br in H; [|exact (Seg_tidy _ _ S1 Hy)]. eapply Seg_trans; eassumption.
    - destruct (0 <? nreq)%Z; [|exact (Hstop _ _ _ H)].
      destruct (is_tc TEscape c) eqn:Ee.
      + apply bind_ok in H. destruct H as ([[cname cargs] src3] & Hc & H).
        apply Bc in Hc; [|exact Hy2 | eapply tidy_name; eassumption].
        assert (S1 : Seg NI (t0 :: ts0) src3).
        { eapply Seg_spacer; [exact Esp|]. apply Seg_cons; [exact Ec | exact Hc]. }
        apply Br in H; [|exact (Seg_tidy _ _ S1 Hy)]. eapply Seg_trans; eassumption.
      + assert (S1 : Seg NI (t0 :: ts0) src2).
        { eapply Seg_spacer; [exact Esp|]. apply Seg_cons; [exact Ec | apply Seg_refl]. }
        apply Br in H; [|exact Hy2]. eapply Seg_trans; eassumption. }
  assert (Hargs : bal_args (S f)).
  { unfold bal_args. intros nreq nopt m toks args rest Hy H. cbn [read_args] in H.
    destruct ((nreq =? 0)%Z && (nopt =? 0)%Z).
    { inversion H; subst. apply Seg_refl. }
    apply bind_ok in H. destruct H as ([[args1 nopt1] src1] & H1 & H).
    apply Bo in H1; [|exact Hy]. pose proof (Seg_tidy _ _ H1 Hy) as Hy1.
    apply bind_ok in H. destruct H as ([[args2 nreq1] src2] & H2 & H).
    apply Br in H2; [|exact Hy1]. pose proof (Seg_tidy _ _ H2 Hy1) as Hy2.
    apply bind_ok in H. destruct H as ([[args3 n3] src3] & H3 & H).
    assert (S3 : Seg NI src2 src3).
    { destruct src2 as [|t2 ts2]; [inversion H3; subst; apply Seg_refl|].
      destruct (is_tc TBracketBegin t2); [|inversion H3; subst; apply Seg_refl].
      apply Bo in H3; [exact H3 | exact Hy2]. }
    pose proof (Seg_tidy _ _ S3 Hy2) as Hy3.
    apply bind_ok in H. destruct H as ([[args4 n4] src4] & H4 & H).
    inversion H; subst args4 src4. clear H.
    assert (S4 : Seg NI src3 rest).
    { destruct src3 as [|t3 ts3]; [inversion H4; subst; apply Seg_refl|].
      destruct (is_tc TGroupBegin t3); [|inversion H4; subst; apply Seg_refl].
      apply Br in H4; [exact H4 | exact Hy3]. }
    eapply Seg_trans; [exact H1|]. eapply Seg_trans; [exact H2|].
    eapply Seg_trans; [exact S3 | exact S4]. }
  assert (Hcmd : bal_command (S f)).
  { unfold bal_command. intros nreq nopt m toks name args rest Hy Hh H.
    cbn [read_command] in H. change (skipn 0 toks) with toks in H.
    replace (length toks <? 0)%nat with false in H by (symmetry; apply Nat.ltb_ge; lia).
    destruct toks as [|nt src]; [inversion H; subst; apply Seg_refl|].
    destruct (if (nreq <? 0)%Z && (nopt <? 0)%Z then signature_of (ttext nt) else (nreq, nopt))
      as [nr no].
    apply bind_ok in H. destruct H as ([args1 src1] & Ha & H). inversion H; subst.
    apply Ba in Ha; [|eapply tidy_suffix; [apply suffix_tail | exact Hy]].
    apply Seg_cons; [|exact Ha]. simpl in Hh. apply brace_split in Hh. tauto. }
  assert (Henv : bal_env (S f)).
  { unfold bal_env. intros name args pos skip m acc toks e rest Hsk Hy H.
    cbn [read_env_loop] in H.
    assert (Hstep : forall e rest,
      bind (read_expr f skip true m toks)
           (fun '(e0, src1) => read_env_loop f name args pos skip true m (acc ++ [e0]) src1)
        = Ok (e, rest) -> Seg NI toks rest).
    { intros e' rest' H'. apply bind_ok in H'. destruct H' as ([e1 src1] & He & H').
      apply Be in He; [|exact Hsk | exact Hy].
      pose proof (Seg_tidy _ _ He Hy) as Hy1.
      apply Bv in H'; [|exact Hsk | exact Hy1]. eapply Seg_trans; eassumption. }
    destruct toks as [|t l]; [discriminate|].
    destruct (is_tc TEscape t) eqn:Et; [|exact (Hstep _ _ H)].
    apply bind_ok in H. destruct H as ([[cname cargs] crest] & Hpeek & H).
    destruct (str_eqb cname s_end) eqn:Eend; [|exact (Hstep _ _ H)].
    destruct cargs as [|a0 cargs]; [discriminate|].
    destruct (negb (str_eqb (arg_string a0) name)); [discriminate|].
    destruct (read_spacer (skipn 2 (t :: l))) as [b src2] eqn:Esp.
    destruct src2 as [|c src3]; [discriminate|].
    apply bind_ok in H. destruct H as ([g grest] & Harg' & H). inversion H; subst.
    apply peek_shape in Hpeek. destruct Hpeek as [[_ ->]|(nm & src & -> & _)].
    { apply str_eqb_eq in Eend. discriminate Eend. }
    change (skipn 2 (t :: nm :: src)) with src in Esp.
    pose proof (tidy_name _ _ _ Hy Et) as Hnm. simpl in Hnm. apply brace_split in Hnm.
    assert (Hy3 : tidyS src3 = true).
    { eapply tidy_suffix; [|exact Hy].
      eapply suffix_trans; [eapply suffix_after_spacer; exact Esp|].
      apply suffix_cons, suffix_tail. }
    apply Bg in Harg'; [|exact Hy3]. destruct Harg' as (ug & Eug & Ng).
    apply Seg_cons; [apply escape_not_begin; exact Et|].
    apply Seg_cons; [tauto|].
    eapply Seg_group; eassumption. }
  assert (Hexpr : bal_expr (S f)).
  { unfold bal_expr. intros skip m toks e rest Hsk Hy H. cbn [read_expr] in H.
    destruct toks as [|c src]; [discriminate|].
    assert (Hys : tidyS src = true) by (eapply tidy_suffix; [apply suffix_tail | exact Hy]).
    destruct (math_kind_of_begin (tcat c)) as [k|] eqn:Ek.
    { apply Bm in H; [|exact Hys].
      apply Seg_cons; [eapply math_begin_not_begin; exact Ek | exact H]. }
    destruct (is_tc TEscape c) eqn:Ec.
    2:{ destruct (is_tc TGroupBegin c) eqn:Eg.
        - apply Bg in H; [|exact Hys]. destruct H as (used & Eu & N).
          exists (c :: used). split; [rewrite Eu; reflexivity | exact N].
        - inversion H; subst. apply Seg_cons; [exact Eg | apply Seg_refl]. }
    apply bind_ok in H. destruct H as ([[name args] src1] & Hcm & H).
    pose proof Hcm as Hcm2.
    apply Bc in Hcm; [|exact Hys | eapply tidy_name; eassumption].
    pose proof (Seg_tidy _ _ Hcm Hys) as Hy1.
    apply Seg_cons; [apply escape_not_begin; exact Ec|].
    destruct (str_eqb name s_item) eqn:Eitem.
    { destruct (mode_is_math m); [discriminate|].
      apply bind_ok in H. destruct H as ([contents src2] & Hit & H). inversion H; subst.
      apply Bi in Hit; [|exact Hy1]. eapply Seg_trans; eassumption. }
    destruct (str_eqb name s_begin && negb (mode_is_special m)) eqn:Ebegin.
    2:{ inversion H; subst. exact Hcm. }
    apply andb_true_iff in Ebegin. destruct Ebegin as [Ebegin _].
    destruct src as [|n rest0].
    { apply read_command_nil in Hcm2. destruct Hcm2 as (-> & _). discriminate Ebegin. }
    pose proof (read_command_name _ _ _ _ _ _ _ _ _ _ Hcm2) as En. subst name.
    assert (Hbo : begin_ok SK rest0 = true).
    { unfold tidy in Hy. apply andb_true_iff in Hy. destruct Hy as [_ Hb].
      pose proof (esc_cond_head _ _ _ _ Hb Ec) as Hbo. cbv beta in Hbo.
      rewrite Ebegin in Hbo. exact Hbo. }
    destruct (begin_args SK _ _ _ _ _ _ _ _ skip Ebegin Hbo Hsk Hcm2) as (a0 & args' & -> & Hns).
    rewrite Hns in H.
    apply Bv in H; [|exact Hsk | exact Hy1]. eapply Seg_trans; eassumption. }
  repeat split; assumption.
Qed.

Lemma read_tex_loop_balanced fuel efuel skip : forall acc toks body,
  sub_skip SK skip -> tidyS toks = true ->
  read_tex_loop fuel efuel skip true acc toks = Ok body -> NI toks.
Proof.
  induction fuel as [|fu IH]; intros acc toks body Hsk Hy H; [discriminate|].
  cbn [read_tex_loop] in H. destruct toks as [|t ts]; [exact NI_nil|].
  apply bind_ok in H. destruct H as ([e rest] & He & H).
  apply (proj1 (bal_all_holds efuel)) in He; [|exact Hsk | exact Hy].
  pose proof (Seg_tidy _ _ He Hy) as Hy1. destruct He as (u & -> & Nu).
  apply NI_app; [exact Nu|]. eapply IH; eassumption.
Qed.

End Balance.

(* Stage 2, main theorem: if strict parsing succeeds, the brace counter ends
   at depth 0 - every `{` token has a later matching `}` token *)
Theorem strict_success_braces_matched toks user t :
  tidy (Tables.skip_env_names ++ user) toks = true ->
  parse_tokens toks true user = Ok t -> brace_matched toks.
Proof.
  intros Hy H. unfold parse_tokens in H. apply bind_ok in H. destruct H as (body & Hb & _).
  apply (read_tex_loop_balanced (Tables.skip_env_names ++ user)) in Hb;
    [|intros n Hn; exact Hn | exact Hy].
  unfold brace_matched. specialize (Hb 0%nat). lia.
Qed.

(* counting after the loss of one closing brace *)
Lemma depth_shift l : forall d, no_free_close l d = true ->
  forall j, depth_after l (d + j) = (depth_after l d + j)%nat.
Proof.
  induction l as [|t l IH]; intros d H j; simpl in *; [reflexivity|].
  destruct (is_tc TGroupBegin t); [exact (IH (S d) H j)|].
  destruct (is_tc TGroupEnd t); [|exact (IH d H j)].
  destruct d as [|d']; [discriminate|]. simpl. exact (IH d' H j).
Qed.

Lemma no_free_app a b d :
  no_free_close (a ++ b) d = true ->
  no_free_close a d = true /\ no_free_close b (depth_after a d) = true.
Proof.
  revert d; induction a as [|t a IH]; intros d H; simpl in *; [auto|].
  destruct (is_tc TGroupBegin t); [exact (IH _ H)|].
  destruct (is_tc TGroupEnd t); [|exact (IH _ H)].
  destruct d as [|d']; [discriminate|]. simpl. exact (IH _ H).
Qed.

Lemma lost_brace_depth a c b :
  is_tc TGroupEnd c = true ->
  brace_matched (a ++ c :: b) -> no_free_close (a ++ c :: b) 0 = true ->
  depth_after (a ++ b) 0 = 1%nat.
Proof.
  unfold brace_matched. intros Hc Hm Hf.
  assert (Hb : is_tc TGroupBegin c = false).
  { apply (is_tc_excl _ _ _ Hc). discriminate. }
  apply no_free_app in Hf. destruct Hf as [_ Hf].
  rewrite depth_app in Hm |- *. simpl in Hm, Hf. rewrite Hb, Hc in Hm, Hf.
  destruct (depth_after a 0) as [|k]; [discriminate Hf|]. simpl in Hm.
  replace (S k) with (k + 1)%nat by lia. rewrite (depth_shift b k Hf 1). lia.
Qed.

(* clause 2 for a lost closing brace, strict half: a brace-matched token list
   without free `}` that lost one GroupEnd token is NOT accepted by strict
   parsing; the result is one of the three diagnostic errors *)
Theorem lost_brace_strict_fails a c b user :
  is_tc TGroupEnd c = true ->
  brace_matched (a ++ c :: b) -> no_free_close (a ++ c :: b) 0 = true ->
  tidy (Tables.skip_env_names ++ user) (a ++ b) = true ->
  parse_tokens (a ++ b) true user = Err EOFError \/
  parse_tokens (a ++ b) true user = Err TypeError \/
  parse_tokens (a ++ b) true user = Err AssertionError.
Proof.
  intros Hc Hm Hf Hy.
  pose proof (lost_brace_depth a c b Hc Hm Hf) as Hd.
  pose proof (parse_tokens_total (a ++ b) true user) as Hdiag.
  destruct (parse_tokens (a ++ b) true user) as [t|e] eqn:E.
  - apply strict_success_braces_matched in E; [|exact Hy]. unfold brace_matched in E. lia.
  - destruct e; simpl in Hdiag; try contradiction; auto.
Qed.

(* clause 2 for a lost closing brace, both halves: strict parsing reports an
   "unclosed" error, tolerant parsing succeeds *)
Theorem lost_brace_repaired a c b user :
  is_tc TGroupEnd c = true ->
  brace_matched (a ++ c :: b) -> no_free_close (a ++ c :: b) 0 = true ->
  plain (Tables.skip_env_names ++ user) (a ++ b) = true -> esc_ok (a ++ b) = true ->
  (parse_tokens (a ++ b) true user = Err EOFError \/
   parse_tokens (a ++ b) true user = Err TypeError) /\
  exists t, parse_tokens (a ++ b) false user = Ok t.
Proof.
  intros Hc Hm Hf Hp He. split.
  - assert (Hy : tidy (Tables.skip_env_names ++ user) (a ++ b) = true).
    { unfold tidy. rewrite He. apply plain_parts in Hp. destruct Hp as (_ & _ & ->). reflexivity. }
    destruct (plain_strict_cases _ _ Hp) as [(t & E)|H]; [|exact H]. exfalso.
    apply strict_success_braces_matched in E; [|exact Hy].
    pose proof (lost_brace_depth a c b Hc Hm Hf) as Hd. unfold brace_matched in E. lia.
  - apply tolerant_total. exact Hp.
Qed.

(* ====================================================================== *)
(* 4. Stage 3: a lost `\end{name}`, a lost `]`                            *)
(* ====================================================================== *)

(* an Escape token directly followed by a token with text `end` *)
Fixpoint has_end (toks : list token) : bool :=
  match toks with
  | t :: ((n :: _) as r) => (is_tc TEscape t && str_eqb (ttext n) s_end) || has_end r
  | _ => false
  end.

Lemma has_end_suffix a b : has_end (a ++ b) = false -> has_end b = false.
Proof.
  induction a as [|x a IH]; simpl; auto.
  destruct (a ++ b) eqn:E.
  - destruct a; simpl in E; [subst; reflexivity | discriminate].
  - intro H. apply orb_false_iff in H. apply IH. tauto.
Qed.

Lemma has_end_found pre t n post :
  is_tc TEscape t = true -> ttext n = s_end -> has_end (pre ++ t :: n :: post) = true.
Proof.
  intros Ht Hn. induction pre as [|x pre IH].
  - simpl. rewrite Ht, Hn. reflexivity.
  - change ((x :: pre) ++ t :: n :: post) with (x :: (pre ++ t :: n :: post)).
    destruct (pre ++ t :: n :: post) as [|y r] eqn:E; [discriminate IH|].
    change (has_end (x :: y :: r))
      with ((is_tc TEscape x && str_eqb (ttext y) s_end) || has_end (y :: r)).
    rewrite IH. apply orb_true_r.
Qed.

(* a strict environment body ends AT an Escape+`end` pair (both modes would
   need the tolerant alternative "or at the end of the input") *)
Theorem env_ends_at_end f : forall name args pos skip m acc toks e rest,
  read_env_loop f name args pos skip true m acc toks = Ok (e, rest) ->
  exists pre t n post, toks = pre ++ t :: n :: post /\ is_tc TEscape t = true /\ ttext n = s_end.
Proof.
  induction f as [|f IH]; intros name args pos skip m acc toks e rest H; [discriminate|].
  cbn [read_env_loop] in H.
  assert (Hstep : forall e rest,
    bind (read_expr f skip true m toks)
         (fun '(e0, src1) => read_env_loop f name args pos skip true m (acc ++ [e0]) src1)
      = Ok (e, rest) ->
    exists pre t n post, toks = pre ++ t :: n :: post /\ is_tc TEscape t = true /\ ttext n = s_end).
  { intros e' rest' H'. apply bind_ok in H'. destruct H' as ([e1 src1] & He & H').
    apply sufx_expr in He. destruct He as [p ->].
    apply IH in H'. destruct H' as (pre & t & n & post & -> & Ht & Hn).
    exists (p ++ pre), t, n, post. rewrite <- app_assoc. auto. }
  destruct toks as [|t l]; [discriminate|].
  destruct (is_tc TEscape t) eqn:Et; [|exact (Hstep _ _ H)].
  apply bind_ok in H. destruct H as ([[cname cargs] crest] & Hpeek & H).
  destruct (str_eqb cname s_end) eqn:Eend; [|exact (Hstep _ _ H)].
  apply peek_shape in Hpeek. destruct Hpeek as [[_ ->]|(nm & src & -> & ->)].
  { apply str_eqb_eq in Eend. discriminate Eend. }
  exists [], t, nm, src. apply str_eqb_eq in Eend. auto.
Qed.

(* no Escape+`end` pair among the remaining tokens: the environment is not
   read strictly, whatever the fuel *)
Theorem unclosed_env_fails f name args pos skip m acc toks r :
  has_end toks = false -> read_env_loop f name args pos skip true m acc toks <> Ok r.
Proof.
  intros Hno H. destruct r as [e rest]. apply env_ends_at_end in H.
  destruct H as (pre & t & n & post & -> & Ht & Hn).
  rewrite (has_end_found pre t n post Ht Hn) in Hno. discriminate.
Qed.

(* hence: `\begin{name}` with no `\end` after it is rejected strictly *)
Theorem begin_without_end_fails SK f skip m c n body r :
  sub_skip SK skip ->
  is_tc TEscape c = true -> str_eqb (ttext n) s_begin = true -> m <> MSpecial ->
  begin_ok SK body = true -> has_end body = false ->
  read_expr f skip true m (c :: n :: body) <> Ok r.
Proof.
  intros Hsk Hc Hn Hm Hbo Hno H. destruct f as [|f]; [discriminate|].
  cbn [read_expr] in H. rewrite (escape_not_math_begin c Hc), Hc in H.
  apply bind_ok in H. destruct H as ([[name args] src1] & Hcm & H).
  pose proof (read_command_name _ _ _ _ _ _ _ _ _ _ Hcm) as En. subst name.
  assert (Hi : str_eqb (ttext n) s_item = false).
  { apply str_eqb_eq in Hn. rewrite Hn. reflexivity. }
  rewrite Hi, Hn in H.
  replace (negb (mode_is_special m)) with true in H by (destruct m; try reflexivity; congruence).
  cbn [andb] in H.
  destruct (begin_args SK _ _ _ _ _ _ _ _ skip Hn Hbo Hsk Hcm) as (a0 & args' & -> & Hns).
  rewrite Hns in H.
  assert (Hbe : is_beginend n = true) by (unfold is_beginend; rewrite Hn; reflexivity).
  apply (read_command_beginend f 0 true m (n :: body) n body) in Hcm; [|reflexivity | exact Hbe].
  destruct Hcm as (_ & f1 & _ & Hargs). apply sufx_args in Hargs. destruct Hargs as [p ->].
  destruct r as [e rest]. revert H. apply unclosed_env_fails.
  eapply has_end_suffix. exact Hno.
Qed.

(* a `[` attached as an optional argument with no `]` after it: the argument
   is not read strictly (from C09_unclosed_group_fails) *)
Theorem unclosed_bracket_arg_fails f args nopt m toks c src2 r :
  (nopt <> 0)%Z -> after_spacer toks = c :: src2 -> is_tc TBracketBegin c = true ->
  (forall t, In t src2 -> is_tc TBracketEnd t = false) ->
  read_arg_optional f args nopt true m toks <> Ok r.
Proof.
  intros Hn Has Hc Hno H. destruct f as [|f]; [discriminate|].
  rewrite (C09_attach_step_opt_bind f args nopt true m toks c src2 Hn Has Hc) in H.
  apply bind_ok in H. destruct H as ([g src3] & Hg & _).
  destruct f as [|f]; [discriminate|]. cbn [read_arg] in Hg.
  rewrite (group_kind_bracket c Hc) in Hg. revert Hg. apply C09_unclosed_group_fails.
  intros t Ht. destruct (is_group_end GBracket t) eqn:E; [|reflexivity].
  apply is_group_end_bracket in E. apply Hno in Ht. apply is_tc_false in Ht. contradiction.
Qed.

(* the command that owns it is then not read strictly either *)
Theorem command_unclosed_bracket_fails f skip m c n rest o src2 r :
  is_tc TEscape c = true -> snd (signature_of (ttext n)) <> 0%Z ->
  after_spacer rest = o :: src2 -> is_tc TBracketBegin o = true ->
  (forall t, In t src2 -> is_tc TBracketEnd t = false) ->
  read_expr f skip true m (c :: n :: rest) <> Ok r.
Proof.
  intros Hc Hsig Has Ho Hno H. destruct f as [|f]; [discriminate|].
  cbn [read_expr] in H. rewrite (escape_not_math_begin c Hc), Hc in H.
  apply bind_ok in H. destruct H as ([[name args] src1] & Hcm & _).
  destruct f as [|f]; [discriminate|]. cbn [read_command] in Hcm.
  change (skipn 0 (n :: rest)) with (n :: rest) in Hcm. cbv beta iota in Hcm.
  replace (length (n :: rest) <? 0)%nat with false in Hcm by reflexivity.
  replace ((-1 <? 0)%Z && (-1 <? 0)%Z) with true in Hcm by reflexivity.
  destruct (signature_of (ttext n)) as [nr no]. cbn [snd] in Hsig.
  apply bind_ok in Hcm. destruct Hcm as ([args1 s1] & Ha & _).
  destruct f as [|f]; [discriminate|]. cbn [read_args] in Ha.
  replace ((nr =? 0)%Z && (no =? 0)%Z) with false in Ha.
  2:{ destruct (no =? 0)%Z eqn:E; [apply Z.eqb_eq in E; contradiction | symmetry; apply andb_false_r]. }
  apply bind_ok in Ha. destruct Ha as ([[a1 n1] s2] & Hopt & _).
  revert Hopt. eapply unclosed_bracket_arg_fails; eassumption.
Qed.

(* ---------------------------------------------------------------------- *)
(* lifting to parse_tokens: the damaged construct follows a prefix of      *)
(* text-leaf tokens at the top level                                       *)

Definition leaf_tok (t : token) : Prop := leaf_cat (tcat t) = true.

Lemma tex_loop_leaf_prefix skip strict efuel X : forall pre fuel acc,
  Forall leaf_tok pre ->
  read_tex_loop (length pre + fuel) (S efuel) skip strict acc (pre ++ X) =
  read_tex_loop fuel (S efuel) skip strict (acc ++ map EText pre) X.
Proof.
  induction pre as [|p pre IH]; intros fuel acc Hp.
  - simpl. rewrite app_nil_r. reflexivity.
  - inversion Hp as [|? ? Hl Hp']; subst.
    change (length (p :: pre) + fuel)%nat with (S (length pre + fuel)).
    change ((p :: pre) ++ X) with (p :: (pre ++ X)). cbn [read_tex_loop].
    rewrite (read_expr_leaf efuel skip strict MNonMath p (pre ++ X) Hl). cbn [bind].
    rewrite (IH fuel (acc ++ [EText p]) Hp'). rewrite <- app_assoc. reflexivity.
Qed.

(* the top-level loop reaches X: if the document parses, so does the
   expression at the head of X *)
Lemma parse_tokens_reaches pre X strict user t :
  Forall leaf_tok pre -> X <> [] -> parse_tokens (pre ++ X) strict user = Ok t ->
  exists r, read_expr (fuel_for (pre ++ X)) (Tables.skip_env_names ++ user) strict MNonMath X = Ok r.
Proof.
  intros Hp Hne H. unfold parse_tokens in H. apply bind_ok in H. destruct H as (body & Hb & _).
  replace (S (length (pre ++ X))) with (length pre + S (length X))%nat in Hb
    by (rewrite app_length; lia).
  replace (fuel_for (pre ++ X)) with (S (4 * length (pre ++ X) + 7)) in * by (unfold fuel_for; lia).
  rewrite (tex_loop_leaf_prefix _ _ _ X pre _ _ Hp) in Hb.
  destruct X as [|x X']; [congruence|]. cbn [read_tex_loop] in Hb.
  apply bind_ok in Hb. destruct Hb as (r & Hr & _). eauto.
Qed.

Lemma not_ok_diag toks strict user :
  (forall t, parse_tokens toks strict user <> Ok t) ->
  parse_tokens toks strict user = Err EOFError \/
  parse_tokens toks strict user = Err TypeError \/
  parse_tokens toks strict user = Err AssertionError.
Proof.
  intro H. pose proof (parse_tokens_total toks strict user) as D.
  destruct (parse_tokens toks strict user) as [t|e]; [exfalso; eapply H; reflexivity|].
  destruct e; simpl in D; try contradiction; auto.
Qed.

(* clause 2 for a lost `\end{name}`, strict half: text, then `\begin` + a
   (non-skip) name group, and no Escape+`end` pair at all after it *)
Theorem lost_end_strict_fails pre c n body user :
  Forall leaf_tok pre ->
  is_tc TEscape c = true -> str_eqb (ttext n) s_begin = true ->
  begin_ok (Tables.skip_env_names ++ user) body = true -> has_end body = false ->
  parse_tokens (pre ++ c :: n :: body) true user = Err EOFError \/
  parse_tokens (pre ++ c :: n :: body) true user = Err TypeError \/
  parse_tokens (pre ++ c :: n :: body) true user = Err AssertionError.
Proof.
  intros Hp Hc Hn Hbo Hno. apply not_ok_diag. intros t H.
  apply parse_tokens_reaches in H; [|exact Hp | discriminate]. destruct H as (r & Hr).
  revert Hr. eapply (begin_without_end_fails (Tables.skip_env_names ++ user)); try eassumption.
  - intros x Hx. exact Hx.
  - discriminate.
Qed.

(* clause 2 for a lost `]` of an optional argument, strict half: text, then a
   command whose name takes optional arguments, `[`, and no `]` after it *)
Theorem lost_bracket_strict_fails pre c n rest o src2 user :
  Forall leaf_tok pre ->
  is_tc TEscape c = true -> snd (signature_of (ttext n)) <> 0%Z ->
  after_spacer rest = o :: src2 -> is_tc TBracketBegin o = true ->
  (forall t, In t src2 -> is_tc TBracketEnd t = false) ->
  parse_tokens (pre ++ c :: n :: rest) true user = Err EOFError \/
  parse_tokens (pre ++ c :: n :: rest) true user = Err TypeError \/
  parse_tokens (pre ++ c :: n :: rest) true user = Err AssertionError.
Proof.
  intros Hp Hc Hsig Has Ho Hno. apply not_ok_diag. intros t H.
  apply parse_tokens_reaches in H; [|exact Hp | discriminate]. destruct H as (r & Hr).
  revert Hr. eapply command_unclosed_bracket_fails; eassumption.
Qed.

(* both halves, for plain documents *)
Theorem lost_end_repaired pre c n body user :
  Forall leaf_tok pre ->
  is_tc TEscape c = true -> str_eqb (ttext n) s_begin = true -> has_end body = false ->
  plain (Tables.skip_env_names ++ user) (pre ++ c :: n :: body) = true ->
  (parse_tokens (pre ++ c :: n :: body) true user = Err EOFError \/
   parse_tokens (pre ++ c :: n :: body) true user = Err TypeError) /\
  exists t, parse_tokens (pre ++ c :: n :: body) false user = Ok t.
Proof.
  intros Hp Hc Hn Hno Hpl. split; [|apply tolerant_total; exact Hpl].
  assert (Hbo : begin_ok (Tables.skip_env_names ++ user) body = true).
  { pose proof (plain_suffix _ _ _ (ex_intro _ pre eq_refl) Hpl) as Hs.
    apply plain_parts in Hs. destruct Hs as (_ & _ & Hb).
    pose proof (esc_cond_head _ _ _ _ Hb Hc) as Hbo. cbv beta in Hbo. rewrite Hn in Hbo. exact Hbo. }
  destruct (plain_strict_cases _ _ Hpl) as [(t & E)|H]; [|exact H]. exfalso.
  destruct (lost_end_strict_fails pre c n body user Hp Hc Hn Hbo Hno) as [H|[H|H]];
    rewrite H in E; discriminate E.
Qed.

Theorem lost_bracket_repaired pre c n rest o src2 user :
  Forall leaf_tok pre ->
  is_tc TEscape c = true -> snd (signature_of (ttext n)) <> 0%Z ->
  after_spacer rest = o :: src2 -> is_tc TBracketBegin o = true ->
  (forall t, In t src2 -> is_tc TBracketEnd t = false) ->
  plain (Tables.skip_env_names ++ user) (pre ++ c :: n :: rest) = true ->
  (parse_tokens (pre ++ c :: n :: rest) true user = Err EOFError \/
   parse_tokens (pre ++ c :: n :: rest) true user = Err TypeError) /\
  exists t, parse_tokens (pre ++ c :: n :: rest) false user = Ok t.
Proof.
  intros Hp Hc Hsig Has Ho Hno Hpl. split; [|apply tolerant_total; exact Hpl].
  destruct (plain_strict_cases _ _ Hpl) as [(t & E)|H]; [|exact H]. exfalso.
  destruct (lost_bracket_strict_fails pre c n rest o src2 user Hp Hc Hsig Has Ho Hno) as [H|[H|H]];
    rewrite H in E; discriminate E.
Qed.

(* ====================================================================== *)
(* 4b. the general contrapositive, and the string level                   *)
(* ====================================================================== *)

(* Stage 2 read backwards: some `{` token without a matching `}` - strict
   parsing reports an error (whatever was lost, wherever) *)
Theorem unmatched_brace_strict_fails toks user :
  tidy (Tables.skip_env_names ++ user) toks = true -> depth_after toks 0 <> 0%nat ->
  parse_tokens toks true user = Err EOFError \/
  parse_tokens toks true user = Err TypeError \/
  parse_tokens toks true user = Err AssertionError.
Proof.
  intros Hy Hd. apply not_ok_diag. intros t H.
  apply strict_success_braces_matched in H; [|exact Hy]. contradiction.
Qed.

(* `parse` is `parse_tokens` on the tokenizer's output (the tokenizer is total) *)
Lemma parse_is_parse_tokens (s : str) strict user :
  parse s strict user = parse_tokens (toks_of s) strict user.
Proof.
  unfold parse, toks_of. destruct (tokenize_partition s) as (toks & E & _). rewrite E. reflexivity.
Qed.

Theorem tolerant_total_string (s : str) user :
  plain (Tables.skip_env_names ++ user) (toks_of s) = true -> exists t, parse s false user = Ok t.
Proof. intro H. rewrite parse_is_parse_tokens. apply tolerant_total. exact H. Qed.

Theorem strict_success_braces_matched_string (s : str) user t :
  tidy (Tables.skip_env_names ++ user) (toks_of s) = true ->
  parse s true user = Ok t -> brace_matched (toks_of s).
Proof. intros Hy H. rewrite parse_is_parse_tokens in H. eapply strict_success_braces_matched; eassumption. Qed.

(* clause 2 for a string s' whose tokens are a brace-matched list (without
   free `}`) minus one GroupEnd token *)
Theorem lost_brace_repaired_string (s' : str) a c b user :
  toks_of s' = a ++ b -> is_tc TGroupEnd c = true ->
  brace_matched (a ++ c :: b) -> no_free_close (a ++ c :: b) 0 = true ->
  plain (Tables.skip_env_names ++ user) (toks_of s') = true -> esc_ok (toks_of s') = true ->
  (parse s' true user = Err EOFError \/ parse s' true user = Err TypeError) /\
  exists t, parse s' false user = Ok t.
Proof.
  intros E Hc Hm Hf Hp He. rewrite !parse_is_parse_tokens. rewrite E in *.
  apply (lost_brace_repaired a c b user); assumption.
Qed.

(* ====================================================================== *)
(* 5. non-vacuity, and what the side conditions exclude                   *)
(* ====================================================================== *)

(* every document below was replayed on the real code with
   impl.canon_parse(s, 0 / 1): same verdicts, same output strings *)

Definition SK0 : list str := Tables.skip_env_names ++ [].
Definition del (n : nat) (l : list token) : list token := firstn n l ++ skipn (S n) l.
Definition shown (r : res expr) : str + err := match r with Ok t => inl (estr t) | Err e => inr e end.
Definition dflt : token := mk_tok [] 0%Z TText.

Definition doc_nest : str := [92; 97; 123; 120; 32; 92; 98; 123; 121; 125; 32; 122; 125; 32; 119]%N.   (* \a{x \b{y} z} w *)
Definition doc_nest_a : str := [92; 97; 123; 120; 32; 92; 98; 123; 121; 32; 122; 125; 32; 119]%N.   (* \a{x \b{y z} w   (first } lost) *)
Definition doc_nest_b : str := [92; 97; 123; 120; 32; 92; 98; 123; 121; 125; 32; 122; 32; 119]%N.   (* \a{x \b{y} z w   (second } lost) *)
Definition doc_nest_a_fixed : str := [92; 97; 123; 120; 32; 92; 98; 123; 121; 32; 122; 125; 32; 119; 125]%N.   (* \a{x \b{y z} w} *)
Definition doc_nest_b_fixed : str := [92; 97; 123; 120; 32; 92; 98; 123; 121; 125; 32; 122; 32; 119; 125]%N.   (* \a{x \b{y} z w} *)
Definition doc_env : str := [112; 32; 92; 98; 101; 103; 105; 110; 123; 101; 125; 91; 111; 93; 123; 114; 125; 32; 116; 32; 92; 101; 110; 100; 123; 101; 125]%N.   (* p \begin{e}[o]{r} t \end{e} *)
Definition doc_env_lost : str := [112; 32; 92; 98; 101; 103; 105; 110; 123; 101; 125; 91; 111; 93; 123; 114; 125; 32; 116; 32]%N.   (* p \begin{e}[o]{r} t    (\end{e} lost) *)
Definition doc_opt : str := [120; 32; 92; 97; 91; 111; 93; 123; 114; 125; 32; 121]%N.   (* x \a[o]{r} y *)
Definition doc_opt_lost : str := [120; 32; 92; 97; 91; 111; 123; 114; 125; 32; 121]%N.   (* x \a[o{r} y   (] lost) *)
Definition doc_opt_fixed : str := [120; 32; 92; 97; 91; 111; 123; 114; 125; 32; 121; 93]%N.   (* x \a[o{r} y] *)
Definition doc_free_brace : str := [92; 97; 123; 120; 125; 32; 121; 125]%N.   (* \a{x} y} *)
Definition doc_free_brace_lost : str := [92; 97; 123; 120; 32; 121; 125]%N.   (* \a{x y} *)
Definition doc_free_bracket : str := [92; 97; 91; 120; 93; 32; 121; 93]%N.   (* \a[x] y] *)
Definition doc_free_bracket_lost : str := [92; 97; 91; 120; 32; 121; 93]%N.   (* \a[x y] *)
Definition doc_free_end : str := [92; 98; 101; 103; 105; 110; 123; 101; 125; 32; 120; 32; 92; 101; 110; 100; 123; 101; 125; 32; 121; 32; 92; 101; 110; 100; 123; 101; 125]%N.   (* \begin{e} x \end{e} y \end{e} *)
Definition doc_free_end_lost : str := [92; 98; 101; 103; 105; 110; 123; 101; 125; 32; 120; 32; 32; 121; 32; 92; 101; 110; 100; 123; 101; 125]%N.   (* \begin{e} x  y \end{e} *)
Definition doc_nul : str := [92; 0; 123]%N.   (* \ NUL { *)
Definition doc_verb : str := [92; 98; 101; 103; 105; 110; 123; 118; 101; 114; 98; 97; 116; 105; 109; 125; 32; 120; 32; 123; 32; 92; 101; 110; 100; 123; 118; 101; 114; 98; 97; 116; 105; 109; 125]%N.   (* \begin{verbatim} x { \end{verbatim} *)
Definition doc_math : str := [36; 120]%N.   (* $x *)
Definition doc_begin_bare : str := [92; 98; 101; 103; 105; 110; 32; 120]%N.   (* \begin x *)
Definition doc_verb_open : str := [92; 98; 101; 103; 105; 110; 123; 118; 101; 114; 98; 97; 116; 105; 109; 125; 32; 120]%N.   (* \begin{verbatim} x *)
Definition doc_item_math : str := [92; 98; 101; 103; 105; 110; 123; 101; 113; 117; 97; 116; 105; 111; 110; 125; 92; 105; 116; 101; 109; 92; 101; 110; 100; 123; 101; 113; 117; 97; 116; 105; 111; 110; 125]%N.   (* \begin{equation}\item\end{equation} *)
Definition doc_item_strict : str := [92; 105; 116; 101; 109; 32; 120; 32; 123]%N.   (* \item x { *)

Lemma forallb_In {A} (p : A -> bool) l : forallb p l = true -> forall x, In x l -> p x = true.
Proof. intro H. apply forallb_forall. exact H. Qed.

(* --- Stage 1 *)
Example tolerant_total_ex :
  plain SK0 (toks_of doc_nest_a) = true /\ plain SK0 (toks_of doc_env_lost) = true /\
  plain SK0 (toks_of doc_opt_lost) = true /\
  shown (parse_tokens (toks_of doc_nest_a) false []) = inl doc_nest_a_fixed /\
  shown (parse_tokens (toks_of doc_env_lost) false []) = inl doc_env /\
  shown (parse_tokens (toks_of doc_opt_lost) false []) = inl doc_opt_fixed.
Proof. vm_compute. repeat split. Qed.

(* each conjunct of `plain` is needed: tolerant parsing fails on a math
   switch, a `\begin` without group, an unclosed verbatim-like environment,
   `\item` in a math environment, and inside an `\item` body (read strictly) *)
Example tolerant_total_needs_side_conditions :
  (nomath (toks_of doc_math) = false /\ parse_tokens (toks_of doc_math) false [] = Err EOFError) /\
  (begins_ok SK0 (toks_of doc_begin_bare) = false /\
   parse_tokens (toks_of doc_begin_bare) false [] = Err AssertionError) /\
  (begins_ok SK0 (toks_of doc_verb_open) = false /\
   parse_tokens (toks_of doc_verb_open) false [] = Err EOFError) /\
  (noitem (toks_of doc_item_math) = false /\
   parse_tokens (toks_of doc_item_math) false [] = Err AssertionError) /\
  (noitem (toks_of doc_item_strict) = false /\
   parse_tokens (toks_of doc_item_strict) false [] = Err TypeError).
Proof. vm_compute. repeat split. Qed.

(* --- Stage 2: \a{x \b{y} z} w with each `}` deleted in turn *)
Example strict_success_braces_matched_ex :
  tidy SK0 (toks_of doc_nest) = true /\
  (exists t, parse_tokens (toks_of doc_nest) true [] = Ok t) /\ brace_matched (toks_of doc_nest).
Proof. split; [vm_compute; reflexivity|]. split; [eexists; vm_compute; reflexivity|]. vm_compute. reflexivity. Qed.

Example lost_brace_ex_first :
  let toks := toks_of doc_nest in
  let a := firstn 8 toks in let c := nth 8 toks dflt in let b := skipn 9 toks in
  toks = a ++ c :: b /\ texts (a ++ b) = doc_nest_a /\
  is_tc TGroupEnd c = true /\ brace_matched (a ++ c :: b) /\
  no_free_close (a ++ c :: b) 0 = true /\ plain SK0 (a ++ b) = true /\ esc_ok (a ++ b) = true /\
  parse_tokens (a ++ b) true [] = Err TypeError /\
  shown (parse_tokens (a ++ b) false []) = inl doc_nest_a_fixed.
Proof. vm_compute. repeat split. Qed.

Example lost_brace_ex_second :
  let toks := toks_of doc_nest in
  let a := firstn 10 toks in let c := nth 10 toks dflt in let b := skipn 11 toks in
  toks = a ++ c :: b /\ texts (a ++ b) = doc_nest_b /\
  is_tc TGroupEnd c = true /\ brace_matched (a ++ c :: b) /\
  no_free_close (a ++ c :: b) 0 = true /\ plain SK0 (a ++ b) = true /\ esc_ok (a ++ b) = true /\
  parse_tokens (a ++ b) true [] = Err TypeError /\
  shown (parse_tokens (a ++ b) false []) = inl doc_nest_b_fixed.
Proof. vm_compute. repeat split. Qed.

(* the token lists above are the original tokens minus one (two adjacent Text
   tokens remain); the tokenizer outputs of the damaged STRINGS give the same
   verdicts *)
Example lost_brace_ex_strings :
  parse_tokens (toks_of doc_nest_a) true [] = Err TypeError /\
  shown (parse_tokens (toks_of doc_nest_a) false []) = inl doc_nest_a_fixed /\
  parse_tokens (toks_of doc_nest_b) true [] = Err TypeError /\
  shown (parse_tokens (toks_of doc_nest_b) false []) = inl doc_nest_b_fixed.
Proof. vm_compute. repeat split. Qed.

Example lost_brace_repaired_string_ex :
  let d := toks_of doc_nest_a in
  let a := firstn 8 d in let b := skipn 8 d in let c := nth 8 (toks_of doc_nest) dflt in
  d = a ++ b /\ is_tc TGroupEnd c = true /\
  brace_matched (a ++ c :: b) /\ no_free_close (a ++ c :: b) 0 = true /\
  plain SK0 d = true /\ esc_ok d = true /\ depth_after d 0 = 1%nat.
Proof. vm_compute. repeat split. Qed.

(* the hypothesis "no free `}`" cannot be dropped: in \a{x} y} the lost `}`
   is compensated by the later free one, strict parsing succeeds with another
   reading.  (The statement of lost_brace_strict_fails without it is refuted.) *)
Theorem lost_brace_without_no_free_close_refuted :
  exists a c b user,
    is_tc TGroupEnd c = true /\ brace_matched (a ++ c :: b) /\
    tidy (Tables.skip_env_names ++ user) (a ++ b) = true /\
    plain (Tables.skip_env_names ++ user) (a ++ b) = true /\
    (exists t, parse_tokens (a ++ c :: b) true user = Ok t) /\
    (exists t, parse_tokens (a ++ b) true user = Ok t).
Proof.
  exists (firstn 4 (toks_of doc_free_brace)), (nth 4 (toks_of doc_free_brace) dflt),
         (skipn 5 (toks_of doc_free_brace)), [].
  repeat split; try (vm_compute; reflexivity); eexists; vm_compute; reflexivity.
Qed.

Example lost_brace_compensated_texts :
  texts (del 4 (toks_of doc_free_brace)) = doc_free_brace_lost /\
  no_free_close (toks_of doc_free_brace) 0 = false.
Proof. vm_compute. split; reflexivity. Qed.

(* `tidy` cannot be dropped from strict_success_braces_matched: a command
   name that is a brace token (\ NUL { tokenizes to Escape, GroupBegin), and a
   verbatim-like body, are accepted strictly with an unmatched `{` *)
Theorem braces_matched_without_tidy_refuted :
  (exists toks t, esc_ok toks = false /\ begins_ok SK0 toks = true /\
                  parse_tokens toks true [] = Ok t /\ depth_after toks 0 = 1%nat) /\
  (exists toks t, esc_ok toks = true /\ begins_ok SK0 toks = false /\
                  parse_tokens toks true [] = Ok t /\ depth_after toks 0 = 1%nat).
Proof.
  split.
  - exists (toks_of doc_nul). eexists. repeat split; vm_compute; reflexivity.
  - exists (toks_of doc_verb). eexists. repeat split; vm_compute; reflexivity.
Qed.

(* --- Stage 3 *)
Example lost_end_ex :
  let toks := toks_of doc_env_lost in
  let pre := firstn 1 toks in let c := nth 1 toks dflt in let n := nth 2 toks dflt in
  let body := skipn 3 toks in
  toks = pre ++ c :: n :: body /\ toks = firstn 13 (toks_of doc_env) /\
  Forall leaf_tok pre /\ is_tc TEscape c = true /\ str_eqb (ttext n) s_begin = true /\
  has_end body = false /\ plain SK0 (pre ++ c :: n :: body) = true /\
  parse_tokens toks true [] = Err EOFError /\
  shown (parse_tokens toks false []) = inl doc_env.
Proof.
  cbv zeta. repeat split; try (vm_compute; reflexivity).
  vm_compute. constructor; [reflexivity | constructor].
Qed.

Example lost_bracket_ex :
  let toks := toks_of doc_opt_lost in
  let pre := firstn 1 toks in let c := nth 1 toks dflt in let n := nth 2 toks dflt in
  let rest := skipn 3 toks in let o := nth 3 toks dflt in let src2 := skipn 4 toks in
  toks = pre ++ c :: n :: rest /\ texts toks = texts (del 5 (toks_of doc_opt)) /\
  Forall leaf_tok pre /\ is_tc TEscape c = true /\ snd (signature_of (ttext n)) <> 0%Z /\
  after_spacer rest = o :: src2 /\ is_tc TBracketBegin o = true /\
  (forall t, In t src2 -> is_tc TBracketEnd t = false) /\
  plain SK0 (pre ++ c :: n :: rest) = true /\
  parse_tokens toks true [] = Err TypeError /\
  shown (parse_tokens toks false []) = inl doc_opt_fixed.
Proof.
  cbv zeta. repeat split; try (vm_compute; reflexivity).
  - vm_compute. constructor; [reflexivity | constructor].
  - vm_compute. discriminate.
  - intros t Ht. apply negb_true_iff. revert t Ht.
    apply (forallb_In (fun t => negb (is_tc TBracketEnd t))). vm_compute. reflexivity.
Qed.

(* the subtlety recorded in the property text: a closer whose loss IS
   compensated.  \a[x] y] that lost its first `]` is \a[x y]: the later free `]`
   closes the argument; \begin{e} x \end{e} y \end{e} that lost its first
   \end{e} is closed by the second one.  Strict parsing succeeds on both
   damaged documents - "deleting a closer makes strict parsing fail" is false
   without the hypotheses "no `]` follows" / "no \end follows" *)
Theorem lost_closer_compensated_refuted :
  (exists toks i t t', is_tc TBracketEnd (nth i toks dflt) = true /\
     parse_tokens toks true [] = Ok t /\ parse_tokens (del i toks) true [] = Ok t') /\
  (exists toks t t', has_end (skipn 7 toks) = true /\
     parse_tokens toks true [] = Ok t /\
     parse_tokens (firstn 6 toks ++ skipn 11 toks) true [] = Ok t').
Proof.
  split.
  - exists (toks_of doc_free_bracket), 4%nat. do 2 eexists. repeat split; vm_compute; reflexivity.
  - exists (toks_of doc_free_end). do 2 eexists. repeat split; vm_compute; reflexivity.
Qed.

Example lost_closer_compensated_texts :
  texts (del 4 (toks_of doc_free_bracket)) = doc_free_bracket_lost /\
  texts (firstn 6 (toks_of doc_free_end) ++ skipn 11 (toks_of doc_free_end)) = doc_free_end_lost.
Proof. vm_compute. split; reflexivity. Qed.

(* ====================================================================== *)
(* 6. Stage 3+: a strict success matched every `\begin` (counting)        *)
(* ====================================================================== *)

(* the environment counter: scanning left to right, the token after an
   Escape token is a command name; a name `begin` increments the depth, a name
   `end` decrements it when positive (a free \end at depth 0 is an ordinary
   command); all other tokens are neutral.  `p` = "the previous token was an
   Escape whose name is still to come" *)
Definition is_b (n : token) : bool := str_eqb (ttext n) s_begin.
Definition is_e (n : token) : bool := str_eqb (ttext n) s_end.
Definition ebump (n : token) (d : nat) : nat :=
  if is_b n then S d else if is_e n then pred d else d.

Fixpoint escan_st (p : bool) (toks : list token) (d : nat) : nat :=
  match toks with
  | [] => d
  | t :: r => if p then escan_st false r (ebump t d)
              else if is_tc TEscape t then escan_st true r d else escan_st false r d
  end.
Definition escan : list token -> nat -> nat := escan_st false.

Lemma ebump_mono n d d' : (d <= d')%nat -> (ebump n d <= ebump n d')%nat.
Proof. unfold ebump. destruct (is_b n); [lia|]. destruct (is_e n); lia. Qed.

Lemma escan_st_mono l : forall p d d', (d <= d')%nat -> (escan_st p l d <= escan_st p l d')%nat.
Proof.
  induction l as [|t l IH]; intros p d d' H; simpl; [exact H|].
  destruct p; [apply IH, ebump_mono; exact H|].
  destruct (is_tc TEscape t); apply IH; exact H.
Qed.

Lemma escan_other c src d : is_tc TEscape c = false -> escan (c :: src) d = escan src d.
Proof. intro H. unfold escan. simpl. rewrite H. reflexivity. Qed.

Lemma escan_cmd c n src d : is_tc TEscape c = true -> escan (c :: n :: src) d = escan src (ebump n d).
Proof. intro H. unfold escan. simpl. rewrite H. reflexivity. Qed.

(* what a reader call consumed never raises the depth / lowers it one level *)
Definition ESeg (toks rest : list token) : Prop := forall d, (escan toks d <= escan rest d)%nat.
Definition ECl (toks rest : list token) : Prop := forall d, (escan toks (S d) <= escan rest d)%nat.

Lemma ESeg_refl l : ESeg l l.
Proof. intro d. lia. Qed.
Lemma ESeg_trans a b c : ESeg a b -> ESeg b c -> ESeg a c.
Proof. intros H1 H2 d. specialize (H1 d). specialize (H2 d). lia. Qed.
Lemma ESeg_ECl a b c : ESeg a b -> ECl b c -> ECl a c.
Proof. intros H1 H2 d. specialize (H1 (S d)). specialize (H2 d). lia. Qed.
Lemma ESeg_cons t a b : is_tc TEscape t = false -> ESeg a b -> ESeg (t :: a) b.
Proof. intros Ht H d. rewrite (escan_other t a d Ht). apply H. Qed.

Lemma ESeg_spacer toks b src1 rest : read_spacer toks = (b, src1) -> ESeg src1 rest -> ESeg toks rest.
Proof.
  intros Hs H. apply read_spacer_cases in Hs. destruct Hs as [->|(sp & -> & Hsp)]; [exact H|].
  apply ESeg_cons; [apply (is_tc_excl _ _ _ Hsp); discriminate | exact H].
Qed.

Lemma opener_not_escape c : group_kind_of_begin (tcat c) <> None -> is_tc TEscape c = false.
Proof.
  intro H. apply is_tc_false. intro E. rewrite E in H. apply H. vm_compute. reflexivity.
Qed.

Lemma group_end_not_escape k t : is_group_end k t = true -> is_tc TEscape t = false.
Proof.
  intro H. apply is_tc_false. intro E. destruct k.
  - apply is_group_end_brace in H. congruence.
  - apply is_group_end_bracket in H. congruence.
Qed.

Lemma math_end_not_escape k t : is_math_end k t = true -> is_tc TEscape t = false.
Proof.
  intro H. apply is_math_end_iff in H. apply is_tc_false. intro E. rewrite E in H.
  destruct k; vm_compute in H; discriminate H.
Qed.

(* side conditions of the environment counter *)
Definition nospecial : list token -> bool :=
  esc_cond (fun n _ => negb (mem_str (ttext n) Tables.special_commands)).

(* a required-argument count that never reaches the bare-token branch of
   read_arg_required: unlimited/zero, or one with its `{` in place *)
Definition argcond (nreq : Z) (toks : list token) : Prop :=
  (nreq <= 0)%Z \/
  (nreq = 1%Z /\ exists c l, after_spacer toks = c :: l /\ is_tc TGroupBegin c = true).
Definition argcondb (nreq : Z) (toks : list token) : bool :=
  (nreq <=? 0)%Z ||
  ((nreq =? 1)%Z && match after_spacer toks with c :: _ => is_tc TGroupBegin c | [] => false end).

Lemma argcondb_spec nreq toks : argcondb nreq toks = true -> argcond nreq toks.
Proof.
  unfold argcondb, argcond. intro H. apply orb_true_iff in H. destruct H as [H|H].
  - left. apply Z.leb_le. exact H.
  - right. apply andb_true_iff in H. destruct H as [H1 H2]. apply Z.eqb_eq in H1.
    split; [exact H1|]. destruct (after_spacer toks) as [|c l]; [discriminate|]. eauto.
Qed.

Definition sig_ok : list token -> bool :=
  esc_cond (fun n rest => argcondb (fst (signature_of (ttext n))) rest).

(* no \newcommand-style command (its arguments are read in special mode, where
   \begin is a plain command); no command of the fixed-signature table with
   required arguments unless it is \name{..} with one required argument; no
   skip environment *)
Definition envtidy (SK : list str) (toks : list token) : bool :=
  nospecial toks && sig_ok toks && begins_ok SK toks.

Lemma envtidy_suffix SK rest toks :
  suffix rest toks -> envtidy SK toks = true -> envtidy SK rest = true.
Proof.
  intros [pre ->] H. unfold envtidy in *.
  apply andb_true_iff in H. destruct H as [H H3]. apply andb_true_iff in H. destruct H as [H1 H2].
  apply andb_true_iff. split; [apply andb_true_iff; split|]; eapply esc_cond_suffix; eassumption.
Qed.

Lemma envtidy_head SK c n rest :
  envtidy SK (c :: n :: rest) = true -> is_tc TEscape c = true ->
  mem_str (ttext n) Tables.special_commands = false /\
  argcond (fst (signature_of (ttext n))) rest /\
  (str_eqb (ttext n) s_begin = true -> begin_ok SK rest = true).
Proof.
  intros H Hc. unfold envtidy in H.
  apply andb_true_iff in H. destruct H as [H H3]. apply andb_true_iff in H. destruct H as [H1 H2].
  pose proof (esc_cond_head _ _ _ _ H1 Hc) as A1. cbv beta in A1. apply negb_true_iff in A1.
  pose proof (esc_cond_head _ _ _ _ H2 Hc) as A2. cbv beta in A2. apply argcondb_spec in A2.
  pose proof (esc_cond_head _ _ _ _ H3 Hc) as A3. cbv beta in A3.
  repeat split; try assumption. intro Hb. rewrite Hb in A3. exact A3.
Qed.

Lemma item_neutral n d : str_eqb (ttext n) s_item = true -> ebump n d = d.
Proof. intro H. apply str_eqb_eq in H. unfold ebump, is_b, is_e. rewrite H. reflexivity. Qed.

Lemma ebump_nonbegin n d : is_b n = false -> (ebump n d <= d)%nat.
Proof. unfold ebump. intros ->. destruct (is_e n); lia. Qed.

Section EnvBalance.
Variable SK : list str.
Notation HH := (envtidy SK).

Definition eb_expr f := forall skip m toks e rest,
  sub_skip SK skip -> HH toks = true -> m <> MSpecial ->
  read_expr f skip true m toks = Ok (e, rest) -> ESeg toks rest.
Definition eb_item f := forall acc toks es rest,
  HH toks = true -> read_item_loop f acc toks = Ok (es, rest) -> ESeg toks rest.
Definition eb_math f := forall k pos acc toks e rest,
  HH toks = true -> read_math_loop f k pos true acc toks = Ok (e, rest) -> ESeg toks rest.
Definition eb_env f := forall name args pos skip m acc toks e rest,
  sub_skip SK skip -> HH toks = true -> m <> MSpecial ->
  read_env_loop f name args pos skip true m acc toks = Ok (e, rest) -> ECl toks rest.
Definition eb_command f := forall nreq nopt m c toks name args rest,
  HH (c :: toks) = true -> is_tc TEscape c = true -> m <> MSpecial ->
  ((nreq <? 0)%Z && (nopt <? 0)%Z = true \/ nreq = 0%Z) ->
  read_command f nreq nopt 0 true m toks = Ok ((name, args), rest) ->
  match toks with [] => rest = [] | _ :: src => ESeg src rest end.
Definition eb_args f := forall nreq nopt m toks args rest,
  HH toks = true -> m <> MSpecial -> argcond nreq toks ->
  read_args f nreq nopt true m toks = Ok (args, rest) -> ESeg toks rest.
Definition eb_opt f := forall args nopt m toks args' n' rest,
  HH toks = true -> m <> MSpecial ->
  read_arg_optional f args nopt true m toks = Ok ((args', n'), rest) -> ESeg toks rest.
Definition eb_req f := forall args nreq m toks args' n' rest,
  HH toks = true -> m <> MSpecial -> argcond nreq toks ->
  read_arg_required f args nreq true m toks = Ok ((args', n'), rest) ->
  ESeg toks rest /\ (n' <= 0)%Z.
Definition eb_arg f := forall c m toks e rest,
  HH toks = true -> m <> MSpecial -> read_arg f c true m toks = Ok (e, rest) -> ESeg toks rest.
Definition eb_argloop f := forall k pos m acc toks e rest,
  HH toks = true -> m <> MSpecial ->
  read_arg_loop f k pos true m acc toks = Ok (e, rest) -> ESeg toks rest.

Definition eb_all f :=
  eb_expr f /\ eb_item f /\ eb_math f /\ eb_env f /\ eb_command f /\ eb_args f /\
  eb_opt f /\ eb_req f /\ eb_arg f /\ eb_argloop f.

Lemma eb_all_holds : forall f, eb_all f.
Proof.
  induction f as [|f IH].
  { unfold eb_all, eb_expr, eb_item, eb_math, eb_env, eb_command, eb_args, eb_opt,
      eb_req, eb_arg, eb_argloop.
    repeat match goal with |- _ /\ _ => split end; intros; simpl in *; discriminate. }
  destruct IH as (Be & Bi & Bm & Bv & Bc & Ba & Bo & Br & Bg & Bl).
  unfold eb_all.
  assert (Hargloop : eb_argloop (S f)).
  { unfold eb_argloop. intros k pos m acc toks e rest Hy Hm H. cbn [read_arg_loop] in H.
    destruct toks as [|t src]; [discriminate|].
    destruct (is_group_end k t) eqn:Eend.
    - inversion H; subst. apply ESeg_cons; [eapply group_end_not_escape; exact Eend | apply ESeg_refl].
    - apply bind_ok in H. destruct H as ([e1 src1] & He & H).
      pose proof (sufx_expr _ _ _ _ _ _ _ He) as S1.
      apply Be in He; [|exact (no_skip' SK) | exact Hy | exact Hm].
      apply Bl in H; [|exact (envtidy_suffix _ _ _ S1 Hy) | exact Hm].
      eapply ESeg_trans; eassumption. }
  assert (Harg : eb_arg (S f)).
  { unfold eb_arg. intros c m toks e rest Hy Hm H. cbn [read_arg] in H.
    destruct (group_kind_of_begin (tcat c)) as [k|]; [|discriminate].
    eapply Bl; eassumption. }
  assert (Hmath : eb_math (S f)).
  { unfold eb_math. intros k pos acc toks e rest Hy H. cbn [read_math_loop] in H.
    destruct toks as [|t src]; [discriminate|].
    destruct (is_math_end k t) eqn:Eend.
    - inversion H; subst. apply ESeg_cons; [eapply math_end_not_escape; exact Eend | apply ESeg_refl].
    - apply bind_ok in H. destruct H as ([e1 src1] & He & H).
      pose proof (sufx_expr _ _ _ _ _ _ _ He) as S1.
      apply Be in He; [|exact (no_skip' SK) | exact Hy | discriminate].
      apply Bm in H; [|exact (envtidy_suffix _ _ _ S1 Hy)].
      eapply ESeg_trans; eassumption. }
  assert (Hitem : eb_item (S f)).
  { unfold eb_item. intros acc toks es rest Hy H. cbn [read_item_loop] in H.
    assert (Hstep : forall es rest,
      bind (read_expr f [] true MNonMath toks)
           (fun '(e, src1) => read_item_loop f (acc ++ [e]) src1) = Ok (es, rest) ->
      ESeg toks rest).
    { intros es' rest' H'. apply bind_ok in H'. destruct H' as ([e1 src1] & He & H').
      pose proof (sufx_expr _ _ _ _ _ _ _ He) as S1.
      apply Be in He; [|exact (no_skip' SK) | exact Hy | discriminate].
      apply Bi in H'; [|exact (envtidy_suffix _ _ _ S1 Hy)]. eapply ESeg_trans; eassumption. }
    assert (Hstop : forall es rest, Ok (acc, toks) = Ok (es, rest) -> ESeg toks rest).
    { intros es' rest' H'. inversion H'; subst. apply ESeg_refl. }
    destruct toks as [|t src]; [eapply Hstop; exact H|].
    destruct (is_tc TEscape t).
    - apply bind_ok in H. destruct H as ([[cname cargs] crest] & _ & H).
      destruct (str_eqb cname s_end || str_eqb cname s_item); [eapply Hstop | eapply Hstep]; exact H.
    - destruct (is_tc TGroupEnd t); [eapply Hstop | eapply Hstep]; exact H. }
  assert (Hopt : eb_opt (S f)).
  { unfold eb_opt. intros args nopt m toks args' n' rest Hy Hm H. cbn [read_arg_optional] in H.
    assert (Hstop : forall a' k' r', Ok (args, nopt, toks) = Ok (a', k', r') -> ESeg toks r').
    { intros a' k' r' H'. inversion H'; subst. apply ESeg_refl. }
    destruct (nopt =? 0)%Z; [exact (Hstop _ _ _ H)|].
    destruct (read_spacer toks) as [b src1] eqn:Esp.
    destruct src1 as [|c src2]; [exact (Hstop _ _ _ H)|].
    destruct (is_tc TBracketBegin c) eqn:Ec; [|exact (Hstop _ _ _ H)].
    apply bind_ok in H. destruct H as ([g src3] & Hg & H).
    assert (Hy2 : HH src2 = true).
    { eapply envtidy_suffix; [eapply suffix_after_spacer; exact Esp | exact Hy]. }
    pose proof (sufx_arg _ _ _ _ _ _ _ Hg) as S3.
    apply Bg in Hg; [|exact Hy2 | exact Hm].
    apply Bo in H; [|exact (envtidy_suffix _ _ _ S3 Hy2) | exact Hm].
    eapply ESeg_spacer; [exact Esp|].
    apply ESeg_cons; [apply (is_tc_excl _ _ _ Ec); discriminate|].
    eapply ESeg_trans; eassumption. }
  assert (Hreq : eb_req (S f)).
  { unfold eb_req. intros args nreq m toks args' n' rest Hy Hm Hac H.
    cbn [read_arg_required] in H.
    destruct (nreq =? 0)%Z eqn:E0.
    { apply Z.eqb_eq in E0. inversion H; subst. split; [apply ESeg_refl | lia]. }
    assert (Hstop : forall a' k' r', (nreq <= 0)%Z -> Ok (args, nreq, toks) = Ok (a', k', r') ->
                      ESeg toks r' /\ (k' <= 0)%Z).
    { intros a' k' r' Hn H'. inversion H'; subst. split; [apply ESeg_refl | exact Hn]. }
    assert (Hne : forall c l, after_spacer toks = c :: l -> is_tc TGroupBegin c = false ->
                    (nreq <= 0)%Z).
    { intros c l Has Hc. destruct Hac as [Hn|(_ & c' & l' & Has' & Hc')]; [exact Hn|].
      rewrite Has in Has'. inversion Has'; subst. congruence. }
    assert (Hnil : after_spacer toks = [] -> (nreq <= 0)%Z).
    { intro Has. destruct Hac as [Hn|(_ & c' & l' & Has' & _)]; [exact Hn|].
      rewrite Has in Has'. discriminate. }
    destruct toks as [|t0 ts0].
    { eapply Hstop; [apply Hnil; reflexivity | exact H]. }
    destruct (read_spacer (t0 :: ts0)) as [b src1] eqn:Esp.
    assert (Has : after_spacer (t0 :: ts0) = src1) by (unfold after_spacer; rewrite Esp; reflexivity).
    destruct src1 as [|c src2].
    { eapply Hstop; [apply Hnil; exact Has | exact H]. }
    assert (Hy2 : HH src2 = true).
    { eapply envtidy_suffix; [eapply suffix_after_spacer; exact Esp | exact Hy]. }
    destruct (is_tc TGroupBegin c) eqn:Ec.
    - apply bind_ok in H. destruct H as ([g src3] & Hg & H).
      pose proof (sufx_arg _ _ _ _ _ _ _ Hg) as S3.
      apply Bg in Hg; [|exact Hy2 | exact Hm].
      apply Br in H; [|exact (envtidy_suffix _ _ _ S3 Hy2) | exact Hm|].
      + destruct H as [H Hn']. split; [|exact Hn'].
        eapply ESeg_spacer; [exact Esp|].
        apply ESeg_cons; [apply (is_tc_excl _ _ _ Ec); discriminate|].
        eapply ESeg_trans; eassumption.
      + left. destruct Hac as [Hn|(Hn & _)]; lia.
    - pose proof (Hne _ _ Has Ec) as Hn.
      destruct (0 <? nreq)%Z eqn:E1; [apply Z.ltb_lt in E1; lia|].
      eapply Hstop; eassumption. }
  assert (Hargs : eb_args (S f)).
  { unfold eb_args. intros nreq nopt m toks args rest Hy Hm Hac H. cbn [read_args] in H.
    destruct ((nreq =? 0)%Z && (nopt =? 0)%Z).
    { inversion H; subst. apply ESeg_refl. }
    apply bind_ok in H. destruct H as ([[args1 nopt1] src1] & H1 & H).
    pose proof (sufx_opt _ _ _ _ _ _ _ _ _ H1) as S1.
    pose proof (envtidy_suffix _ _ _ S1 Hy) as Hy1.
    (* the required pass meets the same head: with nreq = 1 the optional pass
       took nothing *)
    assert (Hac1 : argcond nreq src1).
    { destruct Hac as [Hn|(Hn & c & l & Has & Hc)]; [left; exact Hn|].
      right. split; [exact Hn|]. exists c, l. split; [|exact Hc].
      destruct f as [|f']; [discriminate|].
      rewrite (C09_other_token_detaches_opt f' [] nopt true m toks) in H1.
      - inversion H1; subst. exact Has.
      - unfold head_after_spacer. unfold after_spacer in Has. rewrite Has.
        apply (is_tc_excl _ _ _ Hc). discriminate. }
    apply Bo in H1; [|exact Hy | exact Hm].
    apply bind_ok in H. destruct H as ([[args2 nreq1] src2] & H2 & H).
    pose proof (sufx_req _ _ _ _ _ _ _ _ _ H2) as S2.
    pose proof (envtidy_suffix _ _ _ S2 Hy1) as Hy2.
    apply Br in H2; [|exact Hy1 | exact Hm | exact Hac1]. destruct H2 as [H2 Hn1].
    apply bind_ok in H. destruct H as ([[args3 n3] src3] & H3 & H).
    assert (S3 : ESeg src2 src3 /\ suffix src3 src2).
    { destruct src2 as [|t2 ts2]; [inversion H3; subst; split; [apply ESeg_refl | apply suffix_refl]|].
      destruct (is_tc TBracketBegin t2);
        [|inversion H3; subst; split; [apply ESeg_refl | apply suffix_refl]].
      split; [eapply Bo; eassumption | eapply sufx_opt; exact H3]. }
    destruct S3 as [S3 S3'].
    pose proof (envtidy_suffix _ _ _ S3' Hy2) as Hy3.
    apply bind_ok in H. destruct H as ([[args4 n4] src4] & H4 & H).
    inversion H; subst args4 src4. clear H.
    assert (S4 : ESeg src3 rest).
    { destruct src3 as [|t3 ts3]; [inversion H4; subst; apply ESeg_refl|].
      destruct (is_tc TGroupBegin t3); [|inversion H4; subst; apply ESeg_refl].
      apply Br in H4; [exact (proj1 H4) | exact Hy3 | exact Hm | left; exact Hn1]. }
    eapply ESeg_trans; [exact H1|]. eapply ESeg_trans; [exact H2|].
    eapply ESeg_trans; [exact S3 | exact S4]. }
  assert (Hcmd : eb_command (S f)).
  { unfold eb_command. intros nreq nopt m c toks name args rest Hy Hc Hm Hnn H.
    cbn [read_command] in H. change (skipn 0 toks) with toks in H.
    replace (length toks <? 0)%nat with false in H by (symmetry; apply Nat.ltb_ge; lia).
    destruct toks as [|nt src]; [inversion H; reflexivity|].
    destruct (envtidy_head _ _ _ _ Hy Hc) as (Hsp & Hsig & _). rewrite Hsp in H.
    assert (Hac : argcond (fst (if (nreq <? 0)%Z && (nopt <? 0)%Z
                                then signature_of (ttext nt) else (nreq, nopt))) src).
    { destruct Hnn as [-> | ->]; [exact Hsig|].
      destruct ((0 <? 0)%Z && (nopt <? 0)%Z); [exact Hsig | left; simpl; lia]. }
    destruct (if (nreq <? 0)%Z && (nopt <? 0)%Z then signature_of (ttext nt) else (nreq, nopt))
      as [nr no]. cbn [fst] in Hac.
    apply bind_ok in H. destruct H as ([args1 src1] & Ha & H). inversion H; subst.
    apply Ba in Ha; [exact Ha | | exact Hm | exact Hac].
    eapply envtidy_suffix; [|exact Hy]. apply suffix_cons, suffix_tail. }
  assert (Henv : eb_env (S f)).
  { unfold eb_env. intros name args pos skip m acc toks e rest Hsk Hy Hm H.
    cbn [read_env_loop] in H.
    assert (Hstep : forall e rest,
      bind (read_expr f skip true m toks)
           (fun '(e0, src1) => read_env_loop f name args pos skip true m (acc ++ [e0]) src1)
        = Ok (e, rest) -> ECl toks rest).
    { intros e' rest' H'. apply bind_ok in H'. destruct H' as ([e1 src1] & He & H').
      pose proof (sufx_expr _ _ _ _ _ _ _ He) as S1.
      apply Be in He; [|exact Hsk | exact Hy | exact Hm].
      apply Bv in H'; [|exact Hsk | exact (envtidy_suffix _ _ _ S1 Hy) | exact Hm].
      eapply ESeg_ECl; eassumption. }
    destruct toks as [|t l]; [discriminate|].
    destruct (is_tc TEscape t) eqn:Et; [|exact (Hstep _ _ H)].
    apply bind_ok in H. destruct H as ([[cname cargs] crest] & Hpeek & H).
    destruct (str_eqb cname s_end) eqn:Eend; [|exact (Hstep _ _ H)].
    destruct cargs as [|a0 cargs]; [discriminate|].
    destruct (negb (str_eqb (arg_string a0) name)); [discriminate|].
    destruct (read_spacer (skipn 2 (t :: l))) as [b src2] eqn:Esp.
    destruct src2 as [|c src3]; [discriminate|].
    apply bind_ok in H. destruct H as ([g grest] & Harg' & H). inversion H; subst.
    pose proof (end_peek_opens _ _ _ _ _ _ _ _ _ Hpeek Eend) as (c0 & Hc0 & Hk0).
    unfold head_after_spacer in Hc0. rewrite Esp in Hc0. cbn [snd] in Hc0. inversion Hc0; subst c0.
    apply peek_shape in Hpeek. destruct Hpeek as [[_ ->]|(nm & src & -> & ->)].
    { apply str_eqb_eq in Eend. discriminate Eend. }
    change (skipn 2 (t :: nm :: src)) with src in Esp.
    assert (Hy3 : HH src3 = true).
    { eapply envtidy_suffix; [|exact Hy].
      eapply suffix_trans; [eapply suffix_after_spacer; exact Esp|].
      apply suffix_cons, suffix_tail. }
    apply Bg in Harg'; [|exact Hy3 | exact Hm].
    intro d. rewrite (escan_cmd t nm src (S d) Et).
    assert (Eb : ebump nm (S d) = d).
    { unfold ebump, is_b, is_e. apply str_eqb_eq in Eend. rewrite Eend. reflexivity. }
    rewrite Eb.
    assert (S1 : ESeg src rest).
    { eapply ESeg_spacer; [exact Esp|].
      apply ESeg_cons; [apply opener_not_escape; exact Hk0 | exact Harg']. }
    apply S1. }
  assert (Hexpr : eb_expr (S f)).
  { unfold eb_expr. intros skip m toks e rest Hsk Hy Hm H. cbn [read_expr] in H.
    destruct toks as [|c src]; [discriminate|].
    assert (Hys : HH src = true) by (eapply envtidy_suffix; [apply suffix_tail | exact Hy]).
    destruct (math_kind_of_begin (tcat c)) as [k|] eqn:Ek.
    { apply Bm in H; [|exact Hys]. apply ESeg_cons; [|exact H].
      apply is_tc_false. intro E. rewrite E in Ek. vm_compute in Ek. discriminate Ek. }
    destruct (is_tc TEscape c) eqn:Ec.
    2:{ destruct (is_tc TGroupBegin c) eqn:Eg.
        - apply Bg in H; [|exact Hys | discriminate]. apply ESeg_cons; assumption.
        - inversion H; subst. apply ESeg_cons; [exact Ec | apply ESeg_refl]. }
    apply bind_ok in H. destruct H as ([[name args] src1] & Hcm & H).
    pose proof Hcm as Hcm2. pose proof (sufx_command _ _ _ _ _ _ _ _ _ _ Hcm) as S1.
    change (skipn 0 src) with src in S1.
    apply (Bc _ _ _ c) in Hcm; [|exact Hy | exact Ec | exact Hm | left; reflexivity].
    destruct src as [|n rest0].
    { subst src1. apply read_command_nil in Hcm2. destruct Hcm2 as (-> & -> & _).
      simpl in H. inversion H; subst. intro d. unfold escan. simpl. rewrite Ec. lia. }
    pose proof (read_command_name _ _ _ _ _ _ _ _ _ _ Hcm2) as En. subst name.
    pose proof (envtidy_suffix _ _ _ S1 Hys) as Hy1.
    destruct (envtidy_head _ _ _ _ Hy Ec) as (_ & _ & Hbo).
    destruct (str_eqb (ttext n) s_item) eqn:Eitem.
    { destruct (mode_is_math m); [discriminate|].
      apply bind_ok in H. destruct H as ([contents src2] & Hit & H). inversion H; subst.
      apply Bi in Hit; [|exact Hy1].
      intro d. rewrite (escan_cmd c n rest0 d Ec), (item_neutral n d Eitem).
      eapply ESeg_trans; eassumption. }
    destruct (str_eqb (ttext n) s_begin && negb (mode_is_special m)) eqn:Ebegin.
    2:{ inversion H; subst. intro d. rewrite (escan_cmd c n rest0 d Ec).
        assert (Hnb : is_b n = false).
        { unfold is_b. destruct (str_eqb (ttext n) s_begin); [|reflexivity].
          destruct m; simpl in Ebegin; try discriminate Ebegin. congruence. }
        pose proof (escan_st_mono rest0 false _ _ (ebump_nonbegin n d Hnb)) as Hmono.
        specialize (Hcm d). unfold escan in *. lia. }
    apply andb_true_iff in Ebegin. destruct Ebegin as [Ebegin _].
    destruct (begin_args SK _ _ _ _ _ _ _ _ skip Ebegin (Hbo Ebegin) Hsk Hcm2)
      as (a0 & args' & -> & Hns).
    rewrite Hns in H.
    apply Bv in H; [|exact Hsk | exact Hy1 |].
    2:{ destruct (mem_str _ Tables.math_env_names); [discriminate | exact Hm]. }
    intro d. rewrite (escan_cmd c n rest0 d Ec).
    assert (Eb : ebump n d = S d) by (unfold ebump, is_b; rewrite Ebegin; reflexivity).
    rewrite Eb. specialize (Hcm (S d)). specialize (H d). lia. }
  repeat match goal with |- _ /\ _ => split end; assumption.
Qed.

Lemma read_tex_loop_env_balanced fuel efuel skip : forall acc toks body,
  sub_skip SK skip -> HH toks = true ->
  read_tex_loop fuel efuel skip true acc toks = Ok body -> ESeg toks [].
Proof.
  induction fuel as [|fu IH]; intros acc toks body Hsk Hy H; [discriminate|].
  cbn [read_tex_loop] in H. destruct toks as [|t ts]; [apply ESeg_refl|].
  apply bind_ok in H. destruct H as ([e rest] & He & H).
  pose proof (sufx_expr _ _ _ _ _ _ _ He) as S1.
  apply (proj1 (eb_all_holds efuel)) in He; [|exact Hsk | exact Hy | discriminate].
  eapply ESeg_trans; [exact He|]. eapply IH; [exact Hsk | | exact H].
  exact (envtidy_suffix _ _ _ S1 Hy).
Qed.

End EnvBalance.

Definition env_matched (toks : list token) : Prop := escan toks 0 = 0%nat.

(* Stage 3+, main theorem: if strict parsing succeeds, the environment counter
   ends at depth 0 - every `\begin` has a later matching `\end` *)
Theorem strict_success_envs_matched toks user t :
  envtidy (Tables.skip_env_names ++ user) toks = true ->
  parse_tokens toks true user = Ok t -> env_matched toks.
Proof.
  intros Hy H. unfold parse_tokens in H. apply bind_ok in H. destruct H as (body & Hb & _).
  apply (read_tex_loop_env_balanced (Tables.skip_env_names ++ user)) in Hb;
    [|intros n Hn; exact Hn | exact Hy].
  unfold env_matched. specialize (Hb 0%nat). unfold escan in *. simpl in Hb. lia.
Qed.

Theorem unmatched_env_strict_fails toks user :
  envtidy (Tables.skip_env_names ++ user) toks = true -> escan toks 0 <> 0%nat ->
  parse_tokens toks true user = Err EOFError \/
  parse_tokens toks true user = Err TypeError \/
  parse_tokens toks true user = Err AssertionError.
Proof.
  intros Hy Hd. apply not_ok_diag. intros t H.
  apply strict_success_envs_matched in H; [|exact Hy]. contradiction.
Qed.

(* counting after the loss of one \end *)

(* is an Escape still waiting for its name after scanning `a`? *)
Fixpoint pend (p : bool) (a : list token) : bool :=
  match a with
  | [] => p
  | t :: r => if p then pend false r else if is_tc TEscape t then pend true r else pend false r
  end.

(* no `\end` is met at depth 0 *)
Fixpoint eno_free_st (p : bool) (toks : list token) (d : nat) : bool :=
  match toks with
  | [] => true
  | t :: r =>
    if p then
      if is_b t then eno_free_st false r (S d)
      else if is_e t then match d with O => false | S d' => eno_free_st false r d' end
      else eno_free_st false r d
    else if is_tc TEscape t then eno_free_st true r d else eno_free_st false r d
  end.
Definition no_free_end (toks : list token) : bool := eno_free_st false toks 0.

Definition no_escape (g : list token) : bool := forallb (fun t => negb (is_tc TEscape t)) g.

Lemma escan_st_app a : forall p b d,
  escan_st p (a ++ b) d = escan_st (pend p a) b (escan_st p a d).
Proof.
  induction a as [|t a IH]; intros p b d; simpl; [reflexivity|].
  destruct p; [apply IH|]. destruct (is_tc TEscape t); apply IH.
Qed.

Lemma eno_free_app a : forall p b d,
  eno_free_st p (a ++ b) d = true ->
  eno_free_st p a d = true /\ eno_free_st (pend p a) b (escan_st p a d) = true.
Proof.
  induction a as [|t a IH]; intros p b d H; simpl in *; [auto|].
  destruct p.
  - unfold ebump. destruct (is_b t); [exact (IH _ _ _ H)|].
    destruct (is_e t); [|exact (IH _ _ _ H)].
    destruct d as [|d']; [discriminate|]. simpl. exact (IH _ _ _ H).
  - destruct (is_tc TEscape t); exact (IH _ _ _ H).
Qed.

Lemma eshift l : forall p d, eno_free_st p l d = true ->
  forall j, escan_st p l (d + j) = (escan_st p l d + j)%nat.
Proof.
  induction l as [|t l IH]; intros p d H j; simpl in *; [reflexivity|].
  destruct p.
  - unfold ebump. destruct (is_b t); [exact (IH false (S d) H j)|].
    destruct (is_e t); [|exact (IH false d H j)].
    destruct d as [|d']; [discriminate|]. simpl. exact (IH false d' H j).
  - destruct (is_tc TEscape t); [exact (IH true d H j) | exact (IH false d H j)].
Qed.

Lemma no_escape_scan g : no_escape g = true -> forall b d,
  escan_st false (g ++ b) d = escan_st false b d /\
  eno_free_st false (g ++ b) d = eno_free_st false b d.
Proof.
  induction g as [|t g IH]; intros H b d; simpl in *; [auto|].
  apply andb_true_iff in H. destruct H as [Ht Hg]. apply negb_true_iff in Ht. rewrite Ht.
  apply IH. exact Hg.
Qed.

(* a ++ \end{..} ++ b is environment-matched without free \end; then a ++ b
   has exactly one unmatched \begin *)
Lemma lost_end_depth a e n g b :
  pend false a = false -> is_tc TEscape e = true -> is_e n = true -> no_escape g = true ->
  env_matched (a ++ e :: n :: g ++ b) -> no_free_end (a ++ e :: n :: g ++ b) = true ->
  escan (a ++ b) 0 = 1%nat.
Proof.
  unfold env_matched, no_free_end, escan. intros Ha He Hn Hg Hm Hf.
  assert (Hb : is_b n = false).
  { unfold is_e in Hn. apply str_eqb_eq in Hn. unfold is_b. rewrite Hn. reflexivity. }
  apply eno_free_app in Hf. destruct Hf as [_ Hf].
  rewrite escan_st_app in Hm |- *. rewrite Ha in *.
  simpl in Hm, Hf. rewrite He in Hm, Hf. unfold ebump in Hm. rewrite Hb, Hn in Hm, Hf.
  pose proof (fun d => proj1 (no_escape_scan g Hg b d)) as G1.
  pose proof (fun d => proj2 (no_escape_scan g Hg b d)) as G2.
  destruct (escan_st false a 0) as [|k]; [discriminate Hf|].
  simpl in Hm. rewrite G1 in Hm. rewrite G2 in Hf.
  replace (S k) with (k + 1)%nat by lia. rewrite (eshift b false k Hf 1). lia.
Qed.

(* clause 2 for a lost \end{name}, by counting: wherever the environment is
   nested, whatever follows *)
Theorem lost_end_strict_fails_count a e n g b user :
  pend false a = false -> is_tc TEscape e = true -> is_e n = true -> no_escape g = true ->
  env_matched (a ++ e :: n :: g ++ b) -> no_free_end (a ++ e :: n :: g ++ b) = true ->
  envtidy (Tables.skip_env_names ++ user) (a ++ b) = true ->
  parse_tokens (a ++ b) true user = Err EOFError \/
  parse_tokens (a ++ b) true user = Err TypeError \/
  parse_tokens (a ++ b) true user = Err AssertionError.
Proof.
  intros Ha He Hn Hg Hm Hf Hy. apply unmatched_env_strict_fails; [exact Hy|].
  rewrite (lost_end_depth a e n g b Ha He Hn Hg Hm Hf). discriminate.
Qed.

Theorem lost_end_repaired_count a e n g b user :
  pend false a = false -> is_tc TEscape e = true -> is_e n = true -> no_escape g = true ->
  env_matched (a ++ e :: n :: g ++ b) -> no_free_end (a ++ e :: n :: g ++ b) = true ->
  plain (Tables.skip_env_names ++ user) (a ++ b) = true ->
  nospecial (a ++ b) = true -> sig_ok (a ++ b) = true ->
  (parse_tokens (a ++ b) true user = Err EOFError \/
   parse_tokens (a ++ b) true user = Err TypeError) /\
  exists t, parse_tokens (a ++ b) false user = Ok t.
Proof.
  intros Ha He Hn Hg Hm Hf Hp Hs Hsig. split; [|apply tolerant_total; exact Hp].
  assert (Hy : envtidy (Tables.skip_env_names ++ user) (a ++ b) = true).
  { unfold envtidy. rewrite Hs, Hsig. apply plain_parts in Hp. destruct Hp as (_ & _ & ->).
    reflexivity. }
  destruct (plain_strict_cases _ _ Hp) as [(t & E)|H]; [|exact H]. exfalso.
  destruct (lost_end_strict_fails_count a e n g b user Ha He Hn Hg Hm Hf Hy) as [H|[H|H]];
    rewrite H in E; discriminate E.
Qed.

Definition doc_nested_env : str := [92; 98; 101; 103; 105; 110; 123; 100; 125; 32; 117; 32; 92; 98; 101; 103; 105; 110; 123; 101; 125; 32; 120; 32; 92; 101; 110; 100; 123; 101; 125; 32; 118; 32; 92; 101; 110; 100; 123; 100; 125]%N.   (* \begin{d} u \begin{e} x \end{e} v \end{d} *)
Definition doc_nested_env_lost : str := [92; 98; 101; 103; 105; 110; 123; 100; 125; 32; 117; 32; 92; 98; 101; 103; 105; 110; 123; 101; 125; 32; 120; 32; 32; 118; 32; 92; 101; 110; 100; 123; 100; 125]%N.   (* \begin{d} u \begin{e} x  v \end{d}   (inner \end{e} lost) *)
Definition doc_nested_env_fixed : str := [92; 98; 101; 103; 105; 110; 123; 100; 125; 32; 117; 32; 92; 98; 101; 103; 105; 110; 123; 101; 125; 32; 120; 32; 32; 118; 32; 92; 101; 110; 100; 123; 101; 125; 92; 101; 110; 100; 123; 100; 125]%N.   (* \begin{d} u \begin{e} x  v \end{e}\end{d} *)
Definition doc_bare_begin : str := [92; 116; 101; 120; 116; 98; 102; 92; 98; 101; 103; 105; 110; 123; 101; 125; 32; 120]%N.   (* \textbf\begin{e} x *)
Definition doc_special_begin : str := [92; 110; 101; 119; 99; 111; 109; 109; 97; 110; 100; 123; 92; 98; 101; 103; 105; 110; 123; 120; 125; 125]%N.   (* \newcommand{\begin{x}} *)
Definition doc_sig_env : str := [92; 115; 101; 99; 116; 105; 111; 110; 123; 97; 125; 32; 92; 116; 101; 120; 116; 98; 102; 123; 98; 125; 32; 92; 98; 101; 103; 105; 110; 123; 101; 125; 32; 120]%N.   (* \section{a} \textbf{b} \begin{e} x *)

Example strict_success_envs_matched_ex :
  envtidy SK0 (toks_of doc_nested_env) = true /\
  (exists t, parse_tokens (toks_of doc_nested_env) true [] = Ok t) /\
  env_matched (toks_of doc_nested_env).
Proof. split; [vm_compute; reflexivity|]. split; [eexists; vm_compute; reflexivity|]. vm_compute. reflexivity. Qed.

(* the inner \end{e} of a nested environment is lost: the next \end does not
   compensate it *)
Example lost_end_count_ex :
  let toks := toks_of doc_nested_env in
  let a := firstn 12 toks in let e := nth 12 toks dflt in let n := nth 13 toks dflt in
  let g := firstn 3 (skipn 14 toks) in let b := skipn 17 toks in
  toks = a ++ e :: n :: g ++ b /\ texts (a ++ b) = doc_nested_env_lost /\
  pend false a = false /\ is_tc TEscape e = true /\ is_e n = true /\ no_escape g = true /\
  env_matched (a ++ e :: n :: g ++ b) /\ no_free_end (a ++ e :: n :: g ++ b) = true /\
  plain SK0 (a ++ b) = true /\ nospecial (a ++ b) = true /\ sig_ok (a ++ b) = true /\
  has_end b = true /\
  parse_tokens (a ++ b) true [] = Err EOFError /\
  shown (parse_tokens (a ++ b) false []) = inl doc_nested_env_fixed.
Proof. vm_compute. repeat split. Qed.

(* commands of the fixed-signature table are allowed when their `{` is in place *)
Example unmatched_env_ex :
  envtidy SK0 (toks_of doc_sig_env) = true /\ escan (toks_of doc_sig_env) 0 = 1%nat /\
  parse_tokens (toks_of doc_sig_env) true [] = Err EOFError.
Proof. vm_compute. repeat split. Qed.

(* `envtidy` cannot be dropped: a \begin taken as the bare argument of
   \textbf, and a \begin inside \newcommand (special mode), are plain commands -
   strict parsing succeeds with an unmatched \begin *)
Theorem envs_matched_without_envtidy_refuted :
  (exists toks t, sig_ok toks = false /\ nospecial toks = true /\ begins_ok SK0 toks = true /\
                  parse_tokens toks true [] = Ok t /\ escan toks 0 = 1%nat) /\
  (exists toks t, sig_ok toks = true /\ nospecial toks = false /\ begins_ok SK0 toks = true /\
                  parse_tokens toks true [] = Ok t /\ escan toks 0 = 1%nat).
Proof.
  split.
  - exists (toks_of doc_bare_begin). eexists. repeat split; vm_compute; reflexivity.
  - exists (toks_of doc_special_begin). eexists. repeat split; vm_compute; reflexivity.
Qed.

(* ====================================================================== *)
(* 7. Stage 2 without `esc_ok`: the escape-aware brace counter            *)
(* ====================================================================== *)

(* as depth_after, but the token after an Escape token (the command name) is
   skipped whatever its category - this is how the reader consumes it *)
Definition bbump (t : token) (d : nat) : nat :=
  if is_tc TGroupBegin t then S d else if is_tc TGroupEnd t then pred d else d.

Fixpoint bscan_st (p : bool) (toks : list token) (d : nat) : nat :=
  match toks with
  | [] => d
  | t :: r => if p then bscan_st false r d
              else if is_tc TEscape t then bscan_st true r d else bscan_st false r (bbump t d)
  end.
Definition bscan : list token -> nat -> nat := bscan_st false.

Lemma bbump_mono t d d' : (d <= d')%nat -> (bbump t d <= bbump t d')%nat.
Proof. unfold bbump. destruct (is_tc TGroupBegin t); [lia|]. destruct (is_tc TGroupEnd t); lia. Qed.

Lemma bscan_st_mono l : forall p d d', (d <= d')%nat -> (bscan_st p l d <= bscan_st p l d')%nat.
Proof.
  induction l as [|t l IH]; intros p d d' H; simpl; [exact H|].
  destruct p; [apply IH; exact H|].
  destruct (is_tc TEscape t); apply IH; [exact H | apply bbump_mono; exact H].
Qed.

Lemma bscan_other c src d : is_tc TEscape c = false -> bscan (c :: src) d = bscan src (bbump c d).
Proof. intro H. unfold bscan. simpl. rewrite H. reflexivity. Qed.

Lemma bscan_cmd c n src d : is_tc TEscape c = true -> bscan (c :: n :: src) d = bscan src d.
Proof. intro H. unfold bscan. simpl. rewrite H. reflexivity. Qed.

Lemma bscan_lone c d : is_tc TEscape c = true -> bscan [c] d = d.
Proof. intro H. unfold bscan. simpl. rewrite H. reflexivity. Qed.

(* on lists whose command names are not braces the two counters agree *)
Lemma bscan_depth_after toks : esc_ok toks = true -> forall d, bscan toks d = depth_after toks d.
Proof.
  assert (G : forall l p d, esc_ok l = true ->
            (p = true -> match l with n :: _ => is_brace n = false | [] => True end) ->
            bscan_st p l d = depth_after l d).
  { induction l as [|t l IH]; intros p d Hok Hp; [reflexivity|].
    assert (Hok' : esc_ok l = true) by (apply (esc_cond_suffix _ [t] l); exact Hok).
    simpl. destruct p.
    - specialize (Hp eq_refl). simpl in Hp. apply brace_split in Hp. destruct Hp as [-> ->].
      apply IH; [exact Hok' | discriminate].
    - destruct (is_tc TEscape t) eqn:Et.
      + rewrite (escape_not_begin t Et).
        replace (is_tc TGroupEnd t) with false by (symmetry; apply (is_tc_excl _ _ _ Et); discriminate).
        apply IH; [exact Hok'|]. intros _. destruct l as [|n l']; [exact I|].
        pose proof (esc_cond_head _ _ _ _ Hok Et) as Hn. cbv beta in Hn.
        apply negb_true_iff in Hn. exact Hn.
      + unfold bbump. destruct (is_tc TGroupBegin t); [apply IH; [exact Hok' | discriminate]|].
        destruct (is_tc TGroupEnd t); apply IH; try exact Hok'; discriminate. }
  intros Hok d. apply G; [exact Hok | discriminate].
Qed.

Definition BSeg (toks rest : list token) : Prop := forall d, (bscan toks d <= bscan rest d)%nat.
Definition BCl (toks rest : list token) : Prop := forall d, (bscan toks (S d) <= bscan rest d)%nat.
Definition closesB (k : groupkind) (toks rest : list token) : Prop :=
  match k with GBrace => BCl toks rest | GBracket => BSeg toks rest end.

Lemma BSeg_refl l : BSeg l l.
Proof. intro d. lia. Qed.
Lemma BSeg_trans a b c : BSeg a b -> BSeg b c -> BSeg a c.
Proof. intros H1 H2 d. specialize (H1 d). specialize (H2 d). lia. Qed.
Lemma BSeg_closes k a b c : BSeg a b -> closesB k b c -> closesB k a c.
Proof.
  destruct k; simpl; intros H1 H2 d.
  - specialize (H1 (S d)). specialize (H2 d). lia.
  - specialize (H1 d). specialize (H2 d). lia.
Qed.
Lemma BSeg_cons t a b :
  is_tc TEscape t = false -> is_tc TGroupBegin t = false -> BSeg a b -> BSeg (t :: a) b.
Proof.
  intros Ht Hb H d. rewrite (bscan_other t a d Ht).
  assert (L : (bbump t d <= d)%nat).
  { unfold bbump. rewrite Hb. destruct (is_tc TGroupEnd t); lia. }
  pose proof (bscan_st_mono a false _ _ L). specialize (H d). unfold bscan in *. lia.
Qed.
Lemma BSeg_spacer toks b src1 rest : read_spacer toks = (b, src1) -> BSeg src1 rest -> BSeg toks rest.
Proof.
  intros Hs H. apply read_spacer_cases in Hs. destruct Hs as [->|(sp & -> & Hsp)]; [exact H|].
  apply BSeg_cons; try (apply (is_tc_excl _ _ _ Hsp); discriminate). exact H.
Qed.

Lemma closesB_end k t src : is_group_end k t = true -> closesB k (t :: src) src.
Proof.
  intros H. pose proof (group_end_not_escape k t H) as Ht. destruct k; simpl; intro d.
  - apply is_group_end_brace in H. rewrite (bscan_other t src _ Ht). unfold bbump.
    replace (is_tc TGroupBegin t) with false by (symmetry; apply is_tc_false; congruence).
    replace (is_tc TGroupEnd t) with true by (symmetry; apply is_tc_true; exact H). simpl. lia.
  - apply is_group_end_bracket in H. rewrite (bscan_other t src _ Ht). unfold bbump.
    replace (is_tc TGroupBegin t) with false by (symmetry; apply is_tc_false; congruence).
    replace (is_tc TGroupEnd t) with false by (symmetry; apply is_tc_false; congruence). lia.
Qed.

Lemma opener_closesB c k toks rest :
  group_kind_of_begin (tcat c) = Some k -> closesB k toks rest -> BSeg (c :: toks) rest.
Proof.
  intros Hk Hc d.
  assert (Ht : is_tc TEscape c = false) by (apply opener_not_escape; congruence).
  rewrite (bscan_other c toks d Ht). unfold bbump, is_tc.
  destruct (tcat c); vm_compute in Hk; try discriminate Hk; inversion Hk; subst k; simpl; apply Hc.
Qed.

Section GenBalance.
Variable SK : list str.
Notation HB := (begins_ok SK).

Lemma HB_suffix rest toks : suffix rest toks -> HB toks = true -> HB rest = true.
Proof. intros [pre ->] H. eapply esc_cond_suffix; exact H. Qed.

Definition gb_expr f := forall skip m toks e rest,
  sub_skip SK skip -> HB toks = true ->
  read_expr f skip true m toks = Ok (e, rest) -> BSeg toks rest.
Definition gb_item f := forall acc toks es rest,
  HB toks = true -> read_item_loop f acc toks = Ok (es, rest) -> BSeg toks rest.
Definition gb_math f := forall k pos acc toks e rest,
  HB toks = true -> read_math_loop f k pos true acc toks = Ok (e, rest) -> BSeg toks rest.
Definition gb_env f := forall name args pos skip m acc toks e rest,
  sub_skip SK skip -> HB toks = true ->
  read_env_loop f name args pos skip true m acc toks = Ok (e, rest) -> BSeg toks rest.
Definition gb_command f := forall nreq nopt m toks name args rest,
  HB toks = true -> read_command f nreq nopt 0 true m toks = Ok ((name, args), rest) ->
  match toks with [] => rest = [] | _ :: src => BSeg src rest end.
Definition gb_args f := forall nreq nopt m toks args rest,
  HB toks = true -> read_args f nreq nopt true m toks = Ok (args, rest) -> BSeg toks rest.
Definition gb_opt f := forall args nopt m toks args' n' rest,
  HB toks = true ->
  read_arg_optional f args nopt true m toks = Ok ((args', n'), rest) -> BSeg toks rest.
Definition gb_req f := forall args nreq m toks args' n' rest,
  HB toks = true ->
  read_arg_required f args nreq true m toks = Ok ((args', n'), rest) -> BSeg toks rest.
Definition gb_arg f := forall c m toks e rest,
  HB toks = true -> read_arg f c true m toks = Ok (e, rest) -> BSeg (c :: toks) rest.
Definition gb_argloop f := forall k pos m acc toks e rest,
  HB toks = true -> read_arg_loop f k pos true m acc toks = Ok (e, rest) -> closesB k toks rest.

Definition gb_all f :=
  gb_expr f /\ gb_item f /\ gb_math f /\ gb_env f /\ gb_command f /\ gb_args f /\
  gb_opt f /\ gb_req f /\ gb_arg f /\ gb_argloop f.

Lemma gb_all_holds : forall f, gb_all f.
Proof.
  induction f as [|f IH].
  { unfold gb_all, gb_expr, gb_item, gb_math, gb_env, gb_command, gb_args, gb_opt,
      gb_req, gb_arg, gb_argloop.
    repeat match goal with |- _ /\ _ => split end; intros; simpl in *; discriminate. }
  destruct IH as (Be & Bi & Bm & Bv & Bc & Ba & Bo & Br & Bg & Bl).
  unfold gb_all.
  assert (Hargloop : gb_argloop (S f)).
  { unfold gb_argloop. intros k pos m acc toks e rest Hy H. cbn [read_arg_loop] in H.
    destruct toks as [|t src]; [discriminate|].
    destruct (is_group_end k t) eqn:Eend.
    - inversion H; subst. apply closesB_end. exact Eend.
    - apply bind_ok in H. destruct H as ([e1 src1] & He & H).
      pose proof (sufx_expr _ _ _ _ _ _ _ He) as S1.
      apply Be in He; [|exact (no_skip' SK) | exact Hy].
      apply Bl in H; [|exact (HB_suffix _ _ S1 Hy)].
      eapply BSeg_closes; eassumption. }
  assert (Harg : gb_arg (S f)).
  { unfold gb_arg. intros c m toks e rest Hy H. cbn [read_arg] in H.
    destruct (group_kind_of_begin (tcat c)) as [k|] eqn:Ek; [|discriminate].
    apply Bl in H; [|exact Hy]. eapply opener_closesB; eassumption. }
  assert (Hmath : gb_math (S f)).
  { unfold gb_math. intros k pos acc toks e rest Hy H. cbn [read_math_loop] in H.
    destruct toks as [|t src]; [discriminate|].
    destruct (is_math_end k t) eqn:Eend.
    - inversion H; subst.
      apply BSeg_cons; [eapply math_end_not_escape; exact Eend
                       | eapply math_end_not_begin; exact Eend | apply BSeg_refl].
    - apply bind_ok in H. destruct H as ([e1 src1] & He & H).
      pose proof (sufx_expr _ _ _ _ _ _ _ He) as S1.
      apply Be in He; [|exact (no_skip' SK) | exact Hy].
      apply Bm in H; [|exact (HB_suffix _ _ S1 Hy)]. eapply BSeg_trans; eassumption. }
  assert (Hitem : gb_item (S f)).
  { unfold gb_item. intros acc toks es rest Hy H. cbn [read_item_loop] in H.
    assert (Hstep : forall es rest,
      bind (read_expr f [] true MNonMath toks)
           (fun '(e, src1) => read_item_loop f (acc ++ [e]) src1) = Ok (es, rest) ->
      BSeg toks rest).
    { intros es' rest' H'. apply bind_ok in H'. destruct H' as ([e1 src1] & He & H').
      pose proof (sufx_expr _ _ _ _ _ _ _ He) as S1.
      apply Be in He; [|exact (no_skip' SK) | exact Hy].
      apply Bi in H'; [|exact (HB_suffix _ _ S1 Hy)]. eapply BSeg_trans; eassumption. }
    assert (Hstop : forall es rest, Ok (acc, toks) = Ok (es, rest) -> BSeg toks rest).
    { intros es' rest' H'. inversion H'; subst. apply BSeg_refl. }
    destruct toks as [|t src]; [eapply Hstop; exact H|].
    destruct (is_tc TEscape t).
    - apply bind_ok in H. destruct H as ([[cname cargs] crest] & _ & H).
      destruct (str_eqb cname s_end || str_eqb cname s_item); [eapply Hstop | eapply Hstep]; exact H.
    - destruct (is_tc TGroupEnd t); [eapply Hstop | eapply Hstep]; exact H. }
  assert (Hopt : gb_opt (S f)).
  { unfold gb_opt. intros args nopt m toks args' n' rest Hy H. cbn [read_arg_optional] in H.
    assert (Hstop : forall a' k' r', Ok (args, nopt, toks) = Ok (a', k', r') -> BSeg toks r').
    { intros a' k' r' H'. inversion H'; subst. apply BSeg_refl. }
    destruct (nopt =? 0)%Z; [exact (Hstop _ _ _ H)|].
    destruct (read_spacer toks) as [b src1] eqn:Esp.
    destruct src1 as [|c src2]; [exact (Hstop _ _ _ H)|].
    destruct (is_tc TBracketBegin c) eqn:Ec; [|exact (Hstop _ _ _ H)].
    apply bind_ok in H. destruct H as ([g src3] & Hg & H).
    assert (Hy2 : HB src2 = true).
    { eapply HB_suffix; [eapply suffix_after_spacer; exact Esp | exact Hy]. }
    pose proof (sufx_arg _ _ _ _ _ _ _ Hg) as S3.
    apply Bg in Hg; [|exact Hy2].
    apply Bo in H; [|exact (HB_suffix _ _ S3 Hy2)].
    eapply BSeg_spacer; [exact Esp|]. eapply BSeg_trans; eassumption. }
  assert (Hreq : gb_req (S f)).
  { unfold gb_req. intros args nreq m toks args' n' rest Hy H. cbn [read_arg_required] in H.
    assert (Hstop : forall a' k' r', Ok (args, nreq, toks) = Ok (a', k', r') -> BSeg toks r').
    { intros a' k' r' H'. inversion H'; subst. apply BSeg_refl. }
    destruct (nreq =? 0)%Z; [exact (Hstop _ _ _ H)|].
    destruct toks as [|t0 ts0]; [exact (Hstop _ _ _ H)|].
    destruct (read_spacer (t0 :: ts0)) as [b src1] eqn:Esp.
    destruct src1 as [|c src2]; [exact (Hstop _ _ _ H)|].
    assert (Hy2 : HB src2 = true).
    { eapply HB_suffix; [eapply suffix_after_spacer; exact Esp | exact Hy]. }
    destruct (is_tc TGroupBegin c) eqn:Ec.
    - apply bind_ok in H. destruct H as ([g src3] & Hg & H).
      pose proof (sufx_arg _ _ _ _ _ _ _ Hg) as S3.
      apply Bg in Hg; [|exact Hy2].
      apply Br in H; [|exact (HB_suffix _ _ S3 Hy2)].
      eapply BSeg_spacer; [exact Esp|]. eapply BSeg_trans; eassumption.
    - destruct (0 <? nreq)%Z; [|exact (Hstop _ _ _ H)].
      destruct (is_tc TEscape c) eqn:Ee.
      + apply bind_ok in H. destruct H as ([[cname cargs] src3] & Hc & H).
        pose proof (sufx_command _ _ _ _ _ _ _ _ _ _ Hc) as S3.
        change (skipn 0 src2) with src2 in S3.
        apply Bc in Hc; [|exact Hy2].
        apply Br in H; [|exact (HB_suffix _ _ S3 Hy2)].
        eapply BSeg_spacer; [exact Esp|].
        destruct src2 as [|n src].
        * subst src3. intro d. rewrite (bscan_lone c d Ee). specialize (H d).
          unfold bscan in *. simpl in H. exact H.
        * intro d. rewrite (bscan_cmd c n src d Ee). specialize (Hc d). specialize (H d). lia.
      + apply Br in H; [|exact Hy2].
        eapply BSeg_spacer; [exact Esp|]. apply BSeg_cons; assumption. }
  assert (Hargs : gb_args (S f)).
  { unfold gb_args. intros nreq nopt m toks args rest Hy H. cbn [read_args] in H.
    destruct ((nreq =? 0)%Z && (nopt =? 0)%Z).
    { inversion H; subst. apply BSeg_refl. }
    apply bind_ok in H. destruct H as ([[args1 nopt1] src1] & H1 & H).
    pose proof (HB_suffix _ _ (sufx_opt _ _ _ _ _ _ _ _ _ H1) Hy) as Hy1.
    apply Bo in H1; [|exact Hy].
    apply bind_ok in H. destruct H as ([[args2 nreq1] src2] & H2 & H).
    pose proof (HB_suffix _ _ (sufx_req _ _ _ _ _ _ _ _ _ H2) Hy1) as Hy2.
    apply Br in H2; [|exact Hy1].
    apply bind_ok in H. destruct H as ([[args3 n3] src3] & H3 & H).
    assert (S3 : BSeg src2 src3 /\ suffix src3 src2).
    { destruct src2 as [|t2 ts2]; [inversion H3; subst; split; [apply BSeg_refl | apply suffix_refl]|].
      destruct (is_tc TBracketBegin t2);
        [|inversion H3; subst; split; [apply BSeg_refl | apply suffix_refl]].
      split; [eapply Bo; eassumption | eapply sufx_opt; exact H3]. }
    destruct S3 as [S3 S3'].
    pose proof (HB_suffix _ _ S3' Hy2) as Hy3.
    apply bind_ok in H. destruct H as ([[args4 n4] src4] & H4 & H).
    inversion H; subst args4 src4. clear H.
    assert (S4 : BSeg src3 rest).
    { destruct src3 as [|t3 ts3]; [inversion H4; subst; apply BSeg_refl|].
      destruct (is_tc TGroupBegin t3); [|inversion H4; subst; apply BSeg_refl].
      eapply Br; eassumption. }
    eapply BSeg_trans; [exact H1|]. eapply BSeg_trans; [exact H2|].
    eapply BSeg_trans; [exact S3 | exact S4]. }
  assert (Hcmd : gb_command (S f)).
  { unfold gb_command. intros nreq nopt m toks name args rest Hy H.
    cbn [read_command] in H. change (skipn 0 toks) with toks in H.
    replace (length toks <? 0)%nat with false in H by (symmetry; apply Nat.ltb_ge; lia).
    destruct toks as [|nt src]; [inversion H; reflexivity|].
    destruct (if (nreq <? 0)%Z && (nopt <? 0)%Z then signature_of (ttext nt) else (nreq, nopt))
      as [nr no].
    apply bind_ok in H. destruct H as ([args1 src1] & Ha & H). inversion H; subst.
    eapply Ba; [|exact Ha]. eapply HB_suffix; [apply suffix_tail | exact Hy]. }
  assert (Henv : gb_env (S f)).
  { unfold gb_env. intros name args pos skip m acc toks e rest Hsk Hy H.
    cbn [read_env_loop] in H.
    assert (Hstep : forall e rest,
      bind (read_expr f skip true m toks)
           (fun '(e0, src1) => read_env_loop f name args pos skip true m (acc ++ [e0]) src1)
        = Ok (e, rest) -> BSeg toks rest).
    { intros e' rest' H'. apply bind_ok in H'. destruct H' as ([e1 src1] & He & H').
      pose proof (sufx_expr _ _ _ _ _ _ _ He) as S1.
      apply Be in He; [|exact Hsk | exact Hy].
      apply Bv in H'; [|exact Hsk | exact (HB_suffix _ _ S1 Hy)].
      eapply BSeg_trans; eassumption. }
    destruct toks as [|t l]; [discriminate|].
    destruct (is_tc TEscape t) eqn:Et; [|exact (Hstep _ _ H)].
    apply bind_ok in H. destruct H as ([[cname cargs] crest] & Hpeek & H).
    destruct (str_eqb cname s_end) eqn:Eend; [|exact (Hstep _ _ H)].
    destruct cargs as [|a0 cargs]; [discriminate|].
    destruct (negb (str_eqb (arg_string a0) name)); [discriminate|].
    destruct (read_spacer (skipn 2 (t :: l))) as [b src2] eqn:Esp.
    destruct src2 as [|c src3]; [discriminate|].
    apply bind_ok in H. destruct H as ([g grest] & Harg' & H). inversion H; subst.
    apply peek_shape in Hpeek. destruct Hpeek as [[_ ->]|(nm & src & -> & ->)].
    { apply str_eqb_eq in Eend. discriminate Eend. }
    change (skipn 2 (t :: nm :: src)) with src in Esp.
    assert (Hy3 : HB src3 = true).
    { eapply HB_suffix; [|exact Hy].
      eapply suffix_trans; [eapply suffix_after_spacer; exact Esp|].
      apply suffix_cons, suffix_tail. }
    apply Bg in Harg'; [|exact Hy3].
    intro d. rewrite (bscan_cmd t nm src d Et).
    assert (S1 : BSeg src rest) by (eapply BSeg_spacer; [exact Esp | exact Harg']).
    apply S1. }
  assert (Hexpr : gb_expr (S f)).
  { unfold gb_expr. intros skip m toks e rest Hsk Hy H. cbn [read_expr] in H.
    destruct toks as [|c src]; [discriminate|].
    assert (Hys : HB src = true) by (eapply HB_suffix; [apply suffix_tail | exact Hy]).
    destruct (math_kind_of_begin (tcat c)) as [k|] eqn:Ek.
    { apply Bm in H; [|exact Hys]. apply BSeg_cons; [| |exact H].
      - apply is_tc_false. intro E. rewrite E in Ek. vm_compute in Ek. discriminate Ek.
      - eapply math_begin_not_begin; exact Ek. }
    destruct (is_tc TEscape c) eqn:Ec.
    2:{ destruct (is_tc TGroupBegin c) eqn:Eg.
        - eapply Bg; eassumption.
        - inversion H; subst. apply BSeg_cons; [exact Ec | exact Eg | apply BSeg_refl]. }
    apply bind_ok in H. destruct H as ([[name args] src1] & Hcm & H).
    pose proof Hcm as Hcm2. pose proof (sufx_command _ _ _ _ _ _ _ _ _ _ Hcm) as S1.
    change (skipn 0 src) with src in S1.
    apply Bc in Hcm; [|exact Hys].
    destruct src as [|n rest0].
    { subst src1. apply read_command_nil in Hcm2. destruct Hcm2 as (-> & -> & _).
      simpl in H. inversion H; subst. intro d. rewrite (bscan_lone c d Ec). unfold bscan. simpl. lia. }
    pose proof (read_command_name _ _ _ _ _ _ _ _ _ _ Hcm2) as En. subst name.
    pose proof (HB_suffix _ _ S1 Hys) as Hy1.
    assert (Hhead : forall rest', BSeg src1 rest' -> BSeg (c :: n :: rest0) rest').
    { intros rest' Hr d. rewrite (bscan_cmd c n rest0 d Ec). specialize (Hcm d). specialize (Hr d). lia. }
    destruct (str_eqb (ttext n) s_item) eqn:Eitem.
    { destruct (mode_is_math m); [discriminate|].
      apply bind_ok in H. destruct H as ([contents src2] & Hit & H). inversion H; subst.
      apply Hhead. eapply Bi; eassumption. }
    destruct (str_eqb (ttext n) s_begin && negb (mode_is_special m)) eqn:Ebegin.
    2:{ inversion H; subst. apply Hhead. apply BSeg_refl. }
    apply andb_true_iff in Ebegin. destruct Ebegin as [Ebegin _].
    pose proof (esc_cond_head _ _ _ _ Hy Ec) as Hbo. cbv beta in Hbo. rewrite Ebegin in Hbo.
    destruct (begin_args SK _ _ _ _ _ _ _ _ skip Ebegin Hbo Hsk Hcm2) as (a0 & args' & -> & Hns).
    rewrite Hns in H. apply Hhead. eapply Bv; eassumption. }
  repeat match goal with |- _ /\ _ => split end; assumption.
Qed.

Lemma read_tex_loop_gen_balanced fuel efuel skip : forall acc toks body,
  sub_skip SK skip -> HB toks = true ->
  read_tex_loop fuel efuel skip true acc toks = Ok body -> BSeg toks [].
Proof.
  induction fuel as [|fu IH]; intros acc toks body Hsk Hy H; [discriminate|].
  cbn [read_tex_loop] in H. destruct toks as [|t ts]; [apply BSeg_refl|].
  apply bind_ok in H. destruct H as ([e rest] & He & H).
  pose proof (sufx_expr _ _ _ _ _ _ _ He) as S1.
  apply (proj1 (gb_all_holds efuel)) in He; [|exact Hsk | exact Hy].
  eapply BSeg_trans; [exact He|]. eapply IH; [exact Hsk | | exact H].
  exact (HB_suffix _ _ S1 Hy).
Qed.

End GenBalance.

(* Stage 2 for ALL token lists on which no `\begin` opens a skip environment:
   a strict success matched every `{` token that is not a command name *)
Theorem strict_success_braces_matched_general toks user t :
  begins_ok (Tables.skip_env_names ++ user) toks = true ->
  parse_tokens toks true user = Ok t -> bscan toks 0 = 0%nat.
Proof.
  intros Hy H. unfold parse_tokens in H. apply bind_ok in H. destruct H as (body & Hb & _).
  apply (read_tex_loop_gen_balanced (Tables.skip_env_names ++ user)) in Hb;
    [|intros n Hn; exact Hn | exact Hy].
  specialize (Hb 0%nat). unfold bscan in *. simpl in Hb. lia.
Qed.

Theorem unmatched_brace_strict_fails_general toks user :
  begins_ok (Tables.skip_env_names ++ user) toks = true -> bscan toks 0 <> 0%nat ->
  parse_tokens toks true user = Err EOFError \/
  parse_tokens toks true user = Err TypeError \/
  parse_tokens toks true user = Err AssertionError.
Proof.
  intros Hy Hd. apply not_ok_diag. intros t H.
  apply strict_success_braces_matched_general in H; [|exact Hy]. contradiction.
Qed.

(* the token list that refutes Stage 2 without esc_ok is covered: `{` is the
   command name there and is not counted *)
Example strict_success_braces_matched_general_ex :
  esc_ok (toks_of doc_nul) = false /\ begins_ok SK0 (toks_of doc_nul) = true /\
  (exists t, parse_tokens (toks_of doc_nul) true [] = Ok t) /\
  bscan (toks_of doc_nul) 0 = 0%nat /\ depth_after (toks_of doc_nul) 0 = 1%nat /\
  begins_ok SK0 (toks_of doc_nest_a) = true /\ bscan (toks_of doc_nest_a) 0 = 1%nat /\
  parse_tokens (toks_of doc_nest_a) true [] = Err TypeError.
Proof. repeat split; try (vm_compute; reflexivity). eexists. vm_compute. reflexivity. Qed.
