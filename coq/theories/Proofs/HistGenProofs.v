(* Histories of edits executed with the TRANSLATED editing methods (Model/EditGen.v,
   interpreted by Model/EditDSL.v) are, step by step, the histories of the hand-written
   model Model/Edit.v.

   Proofs/EditGenProofs.v proves each generated method equal to the hand operation for all
   trees under guards (receiver is a TexCmd/TexEnv, target is a TexExpr, argument lists hold
   nodes only, material wrappers fresh).  A history needs the guards at every step; this file
   gives the invariant that provides them and that every step preserves:

     inv_b e      every argument list anywhere in e holds TexCmd/TexEnv objects only
                  (what TexArgs enforces)
     Inv t        inv_b t, and t itself is a TexCmd/TexEnv object (the root is a TexEnv)

   1. Inv holds of every tree the reader returns (parse_Inv); every operation of Edit.v
      (delete, remove, replace / replace_with, insert, append, set_name, set_string,
      set_args, args_insert) preserves it, whatever the outcome (returned, raised, raised
      after a partial change), when the new material satisfies mat_ok.
   2. gen_apply executes one Edit.op with EditGenProofs.run on the translated source;
      gen_trace / hand_trace run a history (list Edit.op, the type of Props/C15.v) on both
      sides, continuing after exceptions with the tree the exception left behind (as
      Edit.run_loop does).  Under Inv and the decidable condition hist_ok the two traces
      are equal (gen_trace_eq); hence C15_refines_partial and the view consistency of
      C15views.v hold of the generated run.
   3. Edit.args_insert and the TexArgs constructor behind Edit.set_args are tied to the
      translated TexArgs.insert / __init__ (C18gen) through the abstraction of an argument
      list to Args.state.
   Sections: 1 invariant, 2 one step, 3 histories, 4 TexArgs, 5 examples and refuted. *)
From Coq Require Import List NArith ZArith Bool Lia Arith Permutation.
From TexModel Require Import Base Tables Chars Tokenizer Tree Reader Edit EditDSL EditGen.
From TexProofs Require Import EditProofs EditGenProofs.
From TexModel Require Views ViewDSL ViewGen Args ArgDSL ArgGen.
From TexProofs Require ConsTop StructProofs NodeProofs ViewsProofs ViewGenProofs ArgsProofs ArgGenProofs.
Import ListNotations.
Local Open Scope Z_scope.

(* ====================================================================== *)
(* 1. the invariant                                                        *)
(* ====================================================================== *)

Fixpoint inv_b (e : Tree.expr) : bool :=
  let fix all (l : list Tree.expr) : bool :=
      match l with
      | [] => true
      | x :: l' => inv_b x && all l'
      end in
  match e with
  | EText _ | ERaw _ _ | EStr _ => true
  | ECmd _ a b _ | ENamed _ a b _ => forallb is_node a && all a && all b
  | EMath _ b _ | EGroup _ b _ | ERoot b => all b
  end.

Definition Inv (t : Tree.expr) : bool := is_node t && inv_b t.

Lemma inv_inner l :
  (fix all (l : list Tree.expr) : bool :=
     match l with
     | [] => true
     | x :: l' => inv_b x && all l'
     end) l = forallb inv_b l.
Proof. induction l as [|x l IH]; [reflexivity|]. cbn [forallb]. rewrite IH. reflexivity. Qed.

Lemma inv_unfold e :
  inv_b e = forallb is_node (args_of e) && forallb inv_b (args_of e) && forallb inv_b (body_of e).
Proof. destruct e; try reflexivity; cbn [inv_b args_of body_of forallb andb]; rewrite ?inv_inner; reflexivity. Qed.

Lemma inv_parts e :
  inv_b e = true ->
  forallb is_node (args_of e) = true /\ forallb inv_b (args_of e) = true /\
  forallb inv_b (body_of e) = true.
Proof. rewrite inv_unfold, !andb_true_iff. tauto. Qed.

Lemma inv_of_parts e :
  forallb is_node (args_of e) = true -> forallb inv_b (args_of e) = true ->
  forallb inv_b (body_of e) = true -> inv_b e = true.
Proof. intros A B C. rewrite inv_unfold, A, B, C. reflexivity. Qed.

(* ---------------------------------------------------------------- list facts *)
Lemma In_firstn_in {A} (x : A) : forall n l, In x (firstn n l) -> In x l.
Proof.
  induction n as [|n IH]; intros l H; [contradiction|]. destruct l as [|y l]; [exact H|].
  destruct H as [H|H]; [left; exact H | right; apply IH; exact H].
Qed.
Lemma forallb_firstn {A} (P : A -> bool) n l : forallb P l = true -> forallb P (firstn n l) = true.
Proof.
  rewrite !forallb_forall. intros H x Hx. apply H. eapply In_firstn_in. exact Hx.
Qed.
Lemma In_skipn_in {A} (x : A) : forall n l, In x (skipn n l) -> In x l.
Proof.
  induction n as [|n IH]; intros l H; [exact H|]. destruct l as [|y l]; [exact H|].
  right. apply IH. exact H.
Qed.
Lemma forallb_skipn {A} (P : A -> bool) n l : forallb P l = true -> forallb P (skipn n l) = true.
Proof. rewrite !forallb_forall. intros H x Hx. apply H. eapply In_skipn_in. exact Hx. Qed.

Lemma forallb_subst_nth {A} (P : A -> bool) i x l :
  forallb P l = true -> P x = true -> forallb P (subst_nth i x l) = true.
Proof.
  intros L X. unfold subst_nth. rewrite forallb_app. cbn [forallb].
  rewrite (forallb_firstn P i l L), X, (forallb_skipn P (S i) l L). reflexivity.
Qed.
Lemma forallb_splice {A} (P : A -> bool) i k new l :
  forallb P l = true -> forallb P new = true -> forallb P (splice i k new l) = true.
Proof.
  intros L N. unfold splice. rewrite !forallb_app.
  rewrite (forallb_firstn P i l L), N, (forallb_skipn P (i + k) l L). reflexivity.
Qed.
Lemma forallb_list_insert {A} (P : A -> bool) i x l :
  forallb P l = true -> P x = true -> forallb P (list_insert i x l) = true.
Proof.
  intros L X. unfold list_insert. rewrite forallb_app. cbn [forallb].
  rewrite (forallb_firstn P _ l L), X, (forallb_skipn P _ l L). reflexivity.
Qed.
Lemma forallb_insert_seq {A} (P : A -> bool) : forall new i l,
  forallb P l = true -> forallb P new = true -> forallb P (insert_seq i new l) = true.
Proof.
  induction new as [|x new IH]; intros i l L N; [exact L|]. cbn [insert_seq].
  cbn [forallb] in N. apply andb_true_iff in N. destruct N as [X N].
  apply IH; [apply forallb_list_insert; assumption | exact N].
Qed.
Lemma select_in {A} (l : list A) : forall idxs xs, select l idxs = Some xs -> forall x, In x xs -> In x l.
Proof.
  induction idxs as [|i r IH]; intros xs H x Hx; cbn [select] in H.
  - inversion H; subst. contradiction.
  - destruct (nth_error l i) as [y|] eqn:N; [|discriminate].
    destruct (select l r) as [ys|]; [|discriminate]. inversion H; subst.
    destruct Hx as [<-|Hx]; [eapply nth_error_In; exact N | eapply IH; [reflexivity | exact Hx]].
Qed.
Lemma forallb_select {A} (P : A -> bool) l idxs xs :
  select l idxs = Some xs -> forallb P l = true -> forallb P xs = true.
Proof.
  intros S L. rewrite forallb_forall in *. intros x Hx. apply L. eapply select_in; eassumption.
Qed.

(* ------------------------------------------------------- the tree operations *)
Lemma inv_set_body h l : inv_b h = true -> forallb inv_b l = true -> inv_b (set_body h l) = true.
Proof.
  intros H L. destruct (inv_parts h H) as (A & B & C).
  destruct h; try exact H; apply inv_of_parts; cbn [set_body args_of body_of] in *; assumption.
Qed.
Lemma inv_set_args h a :
  inv_b h = true -> forallb is_node a = true -> forallb inv_b a = true ->
  inv_b (set_args_of h a) = true.
Proof.
  intros H A B. destruct (inv_parts h H) as (_ & _ & C).
  destruct h; try exact H; apply inv_of_parts; cbn [set_args_of args_of body_of] in *; assumption.
Qed.
Lemma is_node_set_args h a : is_node (set_args_of h a) = is_node h.
Proof. destruct h; reflexivity. Qed.

Lemma inv_child e s c :
  inv_b e = true -> child e s = Some c ->
  inv_b c = true /\ (forall i, s = SArg i -> is_node c = true).
Proof.
  intros H C. destruct (inv_parts e H) as (A & B & D). rewrite forallb_forall in A, B, D.
  destruct s as [i|i]; cbn [child] in C; apply nth_error_In in C.
  - split; [apply B; exact C | intros _ _; apply A; exact C].
  - split; [apply D; exact C | intros j Hj; discriminate].
Qed.

Lemma is_node_set_child e s c : is_node (set_child e s c) = is_node e.
Proof. destruct s; cbn [set_child]; [apply is_node_set_args | apply is_node_set_body]. Qed.

Lemma inv_set_child e s c' :
  inv_b e = true -> inv_b c' = true -> (forall i, s = SArg i -> is_node c' = true) ->
  inv_b (set_child e s c') = true.
Proof.
  intros H C N. destruct (inv_parts e H) as (A & B & D). destruct s as [i|i]; cbn [set_child].
  - apply inv_set_args; [exact H | |]; apply forallb_subst_nth; try assumption. apply (N i eq_refl).
  - apply inv_set_body; [exact H|]. apply forallb_subst_nth; assumption.
Qed.

Lemma inv_get : forall p root h, inv_b root = true -> get root p = Some h -> inv_b h = true.
Proof.
  induction p as [|s p IH]; intros root h H G; cbn [get] in G.
  - inversion G; subst. exact H.
  - destruct (child root s) as [c|] eqn:C; [|discriminate].
    apply (IH c h); [apply (inv_child root s c H C) | exact G].
Qed.

(* the guard of C05gen_delete / C05gen_replace, at every position *)
Lemma inv_args_nodes root p h :
  inv_b root = true -> get root p = Some h -> forallb is_node (args_of h) = true.
Proof. intros H G. apply (inv_parts h (inv_get p root h H G)). Qed.

(* ... from Inv *)
Lemma Inv_guards t p h :
  Inv t = true -> get t p = Some h ->
  forallb is_node (args_of h) = true /\ (forall a0, args_of h = [a0] -> is_node a0 = true).
Proof.
  unfold Inv. rewrite andb_true_iff. intros [_ H] G.
  pose proof (inv_args_nodes t p h H G) as A. split; [exact A|].
  intros a0 E. rewrite E in A. cbn in A. rewrite andb_true_r in A. exact A.
Qed.

(* replacing the object at p by one of the same kind that satisfies the invariant *)
Lemma inv_put : forall p root h x r,
  inv_b root = true -> get root p = Some h -> put root p x = Some r ->
  inv_b x = true -> (is_node h = true -> is_node x = true) ->
  inv_b r = true /\ (is_node root = true -> is_node r = true).
Proof.
  induction p as [|s p IH]; intros root h x r H G P X N; cbn [get put] in G, P.
  - inversion G; inversion P; subst. split; assumption.
  - destruct (child root s) as [c|] eqn:C; [|discriminate].
    destruct (put c p x) as [c'|] eqn:Pc; [|discriminate]. inversion P; subst r.
    destruct (inv_child root s c H C) as [Hc Nc].
    destruct (IH c h x c' Hc G Pc X N) as [Hc' Nc'].
    split; [|rewrite is_node_set_child; tauto].
    apply inv_set_child; [exact H | exact Hc' |]. intros i E. apply Nc'. apply (Nc i E).
Qed.

Lemma Inv_put root p h x r :
  Inv root = true -> get root p = Some h -> put root p x = Some r ->
  inv_b x = true -> (is_node h = true -> is_node x = true) -> Inv r = true.
Proof.
  unfold Inv. rewrite !andb_true_iff. intros [N H] G P X Nx.
  destruct (inv_put p root h x r H G P X Nx) as [A B]. split; [apply B; exact N | exact A].
Qed.

Lemma Inv_put_o root p h x r :
  Inv root = true -> get root p = Some h -> put_o root p x = Done r ->
  inv_b x = true -> (is_node h = true -> is_node x = true) -> Inv r = true.
Proof.
  intros I G P. unfold put_o in P. destruct (put root p x) as [r'|] eqn:E; [|discriminate].
  inversion P; subst. apply (Inv_put root p h x r I G E).
Qed.

Lemma Inv_inv t : Inv t = true -> inv_b t = true.
Proof. unfold Inv. rewrite andb_true_iff. tauto. Qed.

(* ------------------------------------------------------------------ material *)
(* what may be handed to insert / append / replace_with: a plain str, or a TexExpr object
   (TexCmd, TexEnv, TexText; bare or wrapped in a TexNode) whose own argument lists hold
   nodes only.  A bare Token is not accepted (neither a str literal nor a TexExpr). *)
Definition mat_ok (e : Tree.expr) : bool :=
  match e with
  | EStr _ => true
  | ERaw _ _ => false
  | _ => inv_b e
  end.

Lemma mat_ok_inv e : mat_ok e = true -> inv_b e = true.
Proof. destruct e; intros H; try exact H; try reflexivity. Qed.
Lemma mats_inv new : forallb mat_ok new = true -> forallb inv_b new = true.
Proof.
  rewrite !forallb_forall. intros H x Hx. apply mat_ok_inv. apply H. exact Hx.
Qed.

(* the tree an outcome leaves behind, if it changed *)
Definition res_tree (o : Edit.outcome Tree.expr) : option Tree.expr :=
  match o with Done a | Partial _ a => Some a | Raise _ => None end.

Lemma expr_remove_done eqf hp h thp ti x k h' :
  expr_remove eqf hp h thp ti x = Done (k, h') -> h' = set_body h (splice k 1 [] (body_of h)).
Proof.
  unfold expr_remove. destruct (negb (supports h)); [discriminate|].
  destruct (if path_eqb hp thp then Some ti else index_of (eqf x) (body_of h)) as [j|]; [|discriminate].
  intros H. inversion H; subst. reflexivity.
Qed.

Lemma inv_removed h k : inv_b h = true -> inv_b (set_body h (splice k 1 [] (body_of h))) = true.
Proof.
  intros H. apply inv_set_body; [exact H|].
  apply forallb_splice; [apply (inv_parts h H) | reflexivity].
Qed.

Lemma put_o_tree root p y r :
  res_tree (put_o root p y) = Some r -> put root p y = Some r.
Proof. unfold put_o. destruct (put root p y); cbn [res_tree]; intros H; inversion H; reflexivity. Qed.

Lemma remove_put_Inv root eqf hp h thp ti x r :
  Inv root = true -> get root hp = Some h ->
  res_tree (obind (expr_remove eqf hp h thp ti x) (fun kh => put_o root hp (snd kh))) = Some r ->
  Inv r = true.
Proof.
  intros I G R. destruct (expr_remove eqf hp h thp ti x) as [[k h']|e|e a] eqn:E;
    cbn [obind res_tree snd] in R; try discriminate.
  apply expr_remove_done in E. subst h'. apply put_o_tree in R.
  apply (Inv_put root hp h _ r I G R).
  - apply inv_removed. apply (inv_get hp root h (Inv_inv _ I) G).
  - rewrite is_node_set_body. tauto.
Qed.

Lemma number_args_in pp : forall l k hp a,
  In (hp, a) (number_args pp k l) -> exists j, hp = pp ++ [SArg (k + j)] /\ nth_error l j = Some a.
Proof.
  induction l as [|b l IH]; intros k hp a H; cbn [number_args] in H; [contradiction|].
  destruct H as [H|H].
  - inversion H; subst. exists 0%nat. rewrite Nat.add_0_r. split; reflexivity.
  - destruct (IH (S k) hp a H) as [j [-> N]]. exists (S j). rewrite Nat.add_succ_r. split; [reflexivity | exact N].
Qed.

Lemma args_get root pp P hp a :
  get root pp = Some P -> In (hp, a) (number_args pp 0 (args_of P)) -> get root hp = Some a.
Proof.
  intros G H. destruct (number_args_in pp _ _ _ _ H) as [j [-> N]].
  rewrite get_app, G. cbn [get child Nat.add]. rewrite N. reflexivity.
Qed.
Lemma holders_get root pp P hp h :
  get root pp = Some P -> In (hp, h) (holders pp P) -> get root hp = Some h.
Proof.
  intros G H. unfold holders in H. apply in_app_or in H. destruct H as [H|[H|[]]].
  - apply (args_get root pp P hp h G H).
  - inversion H; subst. exact G.
Qed.

Lemma delete_via_Inv root pp thp ti r :
  Inv root = true -> res_tree (delete_via root pp thp ti) = Some r -> Inv r = true.
Proof.
  intros I R. unfold delete_via in R.
  destruct (get root pp) as [P|] eqn:GP; [|discriminate].
  destruct (get root (thp ++ [SBody ti])) as [x|] eqn:GX; [|discriminate].
  destruct (find (holds_object thp) (holders pp P)) as [[hp h]|] eqn:F1.
  { apply find_some in F1. destruct F1 as [F1 _].
    apply (remove_put_Inv root _ hp h thp ti x r I (holders_get root pp P hp h GP F1) R). }
  destruct (find _ (number_args pp 0 (args_of P))) as [[hp a]|] eqn:F2.
  { apply find_some in F2. destruct F2 as [F2 _].
    apply (remove_put_Inv root _ hp a thp ti x r I (args_get root pp P hp a GP F2) R). }
  apply (remove_put_Inv root _ pp P thp ti x r I GP R).
Qed.

Lemma remove_via_Inv root pp thp ti r :
  Inv root = true -> res_tree (remove_via root pp thp ti) = Some r -> Inv r = true.
Proof.
  intros I R. unfold remove_via in R.
  destruct (get root pp) as [P|] eqn:GP; [|discriminate].
  destruct (get root (thp ++ [SBody ti])) as [x|] eqn:GX; [|discriminate].
  apply (remove_put_Inv root _ pp P thp ti x r I GP R).
Qed.

Lemma replace_in_Inv root hp h thp ti x new r :
  Inv root = true -> get root hp = Some h -> forallb mat_ok new = true ->
  res_tree (replace_in root hp h thp ti x new) = Some r -> Inv r = true.
Proof.
  intros I G M R. unfold replace_in in R.
  destruct (expr_remove eq_expr_item hp h thp ti x) as [[k h']|e|e a] eqn:E;
    cbn [obind res_tree snd fst] in R; try discriminate.
  apply expr_remove_done in E.
  pose proof (inv_get hp root h (Inv_inv _ I) G) as Hh.
  assert (H' : inv_b h' = true) by (subst h'; apply inv_removed; exact Hh).
  assert (N' : is_node h = true -> is_node h' = true) by (subst h'; rewrite is_node_set_body; tauto).
  unfold expr_insert in R. destruct (negb (supports h')).
  - destruct (put root hp h') as [r'|] eqn:P; cbn [res_tree] in R; [|discriminate].
    inversion R; subst r'. apply (Inv_put root hp h h' r I G P H' N').
  - apply put_o_tree in R. apply (Inv_put root hp h _ r I G R).
    + apply inv_set_body; [exact H'|]. apply forallb_insert_seq; [apply (inv_parts h' H') | apply mats_inv; exact M].
    + rewrite is_node_set_body. exact N'.
Qed.

Lemma replace_via_Inv root pp thp ti new r :
  Inv root = true -> forallb mat_ok new = true ->
  res_tree (replace_via root pp thp ti new) = Some r -> Inv r = true.
Proof.
  intros I M R. unfold replace_via in R.
  destruct (get root pp) as [P|] eqn:GP; [|discriminate].
  destruct (get root (thp ++ [SBody ti])) as [x|] eqn:GX; [|discriminate].
  destruct (find (holds_object thp) (holders pp P)) as [[hp h]|] eqn:F1.
  { apply find_some in F1. destruct F1 as [F1 _].
    apply (replace_in_Inv root hp h thp ti x new r I (holders_get root pp P hp h GP F1) M R). }
  destruct (find _ (number_args pp 0 (args_of P))) as [[hp a]|] eqn:F2.
  { apply find_some in F2. destruct F2 as [F2 _].
    apply (replace_in_Inv root hp a thp ti x new r I (args_get root pp P hp a GP F2) M R). }
  apply (replace_in_Inv root pp P thp ti x new r I GP M R).
Qed.

(* an operation of the form  h := get root np; h' := f h; put root np h' *)
Lemma update_Inv root np (f : Tree.expr -> Edit.outcome Tree.expr) r :
  Inv root = true ->
  (forall h h', inv_b h = true -> f h = Done h' ->
                inv_b h' = true /\ (is_node h = true -> is_node h' = true)) ->
  res_tree (match get root np with
            | Some h => obind (f h) (fun h' => put_o root np h')
            | None => Raise EBadCase
            end) = Some r ->
  Inv r = true.
Proof.
  intros I F R. destruct (get root np) as [h|] eqn:G; [|discriminate].
  destruct (f h) as [h'|e|e a] eqn:E; cbn [obind res_tree] in R; try discriminate.
  apply put_o_tree in R. destruct (F h h' (inv_get np root h (Inv_inv _ I) G) E) as [A B].
  apply (Inv_put root np h h' r I G R A B).
Qed.

Lemma insert_Inv root np i new r :
  Inv root = true -> forallb mat_ok new = true ->
  res_tree (insert root np i new) = Some r -> Inv r = true.
Proof.
  intros I M R. apply (update_Inv root np (fun h => expr_insert h i new) r I); [|exact R].
  intros h h' H E. unfold expr_insert in E. destruct (negb (supports h)); [discriminate|].
  inversion E; subst. rewrite is_node_set_body. split; [|tauto].
  apply inv_set_body; [exact H|]. apply forallb_insert_seq; [apply (inv_parts h H) | apply mats_inv; exact M].
Qed.

Lemma append_Inv root np new r :
  Inv root = true -> forallb mat_ok new = true ->
  res_tree (append root np new) = Some r -> Inv r = true.
Proof.
  intros I M R. apply (update_Inv root np (fun h => expr_append h new) r I); [|exact R].
  intros h h' H E. unfold expr_append in E. destruct (negb (supports h)); [discriminate|].
  inversion E; subst. rewrite is_node_set_body. split; [|tauto].
  apply inv_set_body; [exact H|]. rewrite forallb_app, (mats_inv new M).
  rewrite (proj2 (proj2 (inv_parts h H))). reflexivity.
Qed.

Lemma set_name_Inv root np s r :
  Inv root = true -> res_tree (set_name root np s) = Some r -> Inv r = true.
Proof.
  intros I R. apply (update_Inv root np (fun h => rename h s) r I); [|exact R].
  intros h h' H E. destruct (inv_parts h H) as (A & B & C).
  destruct h; cbn [rename] in E; try discriminate; inversion E; subst;
    (split; [apply inv_of_parts; assumption | reflexivity]).
Qed.

Lemma set_string_Inv root np s r :
  Inv root = true -> res_tree (set_string root np s) = Some r -> Inv r = true.
Proof.
  intros I R. apply (update_Inv root np (fun h => restring h s) r I); [|exact R].
  intros h h' H E. destruct (inv_parts h H) as (A & B & C).
  assert (T : forallb inv_b [text_of s] = true) by reflexivity.
  destruct h as [t|s0 p|s0|n a b p|n a b p|k b p|k b p|b]; cbn [restring] in E; try discriminate.
  - destruct a as [|a0 [|a1 a]]; try discriminate. inversion E; subst. split; [|reflexivity].
    cbn [args_of body_of forallb] in A, B, C. rewrite andb_true_r in A, B.
    apply inv_of_parts; cbn [args_of body_of forallb].
    + rewrite is_node_set_body, A. reflexivity.
    + rewrite (inv_set_body a0 _ B T). reflexivity.
    + exact C.
  - destruct (cview (ENamed n a b p)) as [|[q y] [|z l]]; try discriminate.
    destruct (is_node y); [discriminate|]. inversion E; subst. split; [|reflexivity].
    apply (inv_set_body _ _ H T).
  - destruct (cview (EMath k b p)) as [|[q y] [|z l]]; try discriminate.
    destruct (is_node y); [discriminate|]. inversion E; subst. split; [|reflexivity].
    apply (inv_set_body _ _ H T).
  - destruct (cview (EGroup k b p)) as [|[q y] [|z l]]; try discriminate.
    destruct (is_node y); [discriminate|]. inversion E; subst. split; [|reflexivity].
    apply (inv_set_body _ _ H T).
  - destruct (cview (ERoot b)) as [|[q y] [|z l]]; try discriminate.
    destruct (is_node y); [discriminate|]. inversion E; subst. split; [|reflexivity].
    apply (inv_set_body _ _ H T).
Qed.

Lemma set_args_Inv root np idxs r :
  Inv root = true -> res_tree (set_args root np idxs) = Some r -> Inv r = true.
Proof.
  intros I R. apply (update_Inv root np (fun h => reargs h idxs) r I); [|exact R].
  intros h h' H E. destruct (inv_parts h H) as (A & B & C).
  assert (K : forall a', select (args_of h) idxs = Some a' -> reargs h idxs = Done (set_args_of h a') ->
              inv_b (set_args_of h a') = true /\ (is_node h = true -> is_node (set_args_of h a') = true)).
  { intros a' S _. rewrite is_node_set_args. split; [|tauto].
    apply inv_set_args; [exact H | apply (forallb_select _ _ _ _ S A) | apply (forallb_select _ _ _ _ S B)]. }
  destruct h as [t|s0 p|s0|n a b p|n a b p|k b p|k b p|b]; cbn [reargs] in E; try discriminate;
    (destruct (nodup_nat idxs) eqn:ND; [|discriminate]);
    cbn [args_of] in K; (destruct (select a idxs) as [a'|] eqn:S; [|discriminate]);
    inversion E; subst h'; apply (K a' eq_refl); cbn [reargs]; rewrite ND, S; reflexivity.
Qed.

Lemma args_insert_Inv root np i k s r :
  Inv root = true -> res_tree (args_insert root np i k s) = Some r -> Inv r = true.
Proof.
  intros I R. unfold args_insert in R. destruct (get root np) as [h|] eqn:G; [|discriminate].
  pose proof (inv_get np root h (Inv_inv _ I) G) as H. destruct (inv_parts h H) as (A & B & C).
  assert (K : forall a, args_of h = a ->
              res_tree (put_o root np (set_args_of h (list_insert i (EGroup k [EStr s] (-1)) a))) = Some r ->
              Inv r = true).
  { intros a <- R'. apply put_o_tree in R'. apply (Inv_put root np h _ r I G R').
    - apply inv_set_args; [exact H | |]; apply forallb_list_insert; try assumption; reflexivity.
    - rewrite is_node_set_args. tauto. }
  destruct h; try discriminate; apply (K _ eq_refl R).
Qed.

Definition mats_of (o : op) : list Tree.expr :=
  match o with
  | OReplaceWith _ _ new | OInsert _ _ new | OAppend _ new => new
  | _ => []
  end.

(* every operation preserves the invariant, whatever its outcome *)
Theorem apply_op_Inv t o t' :
  Inv t = true -> forallb mat_ok (mats_of o) = true ->
  res_tree (apply_op t o) = Some t' -> Inv t' = true.
Proof.
  intros I M R. destruct o as [hp i|hp i|hp i new|np i new|np new|np s|np s|np s|np idxs];
    cbn [apply_op mats_of] in R, M.
  - apply (delete_via_Inv t _ hp i t' I R).
  - apply (remove_via_Inv t _ hp i t' I R).
  - apply (replace_via_Inv t _ hp i new t' I M R).
  - apply (insert_Inv t np _ new t' I M R).
  - apply (append_Inv t np new t' I M R).
  - apply (set_name_Inv t np s t' I R).
  - apply (set_string_Inv t np s t' I R).
  - apply (set_string_Inv t np s t' I R).
  - apply (set_args_Inv t np idxs t' I R).
Qed.

(* --------------------------------------- the invariant holds of every parsed tree *)
Lemma inv_of_arg_in e :
  (forall x, NodeProofs.arg_in x e -> is_node x = true) -> inv_b e = true.
Proof.
  induction e as [t|s p|s|n a b p IHa IHb|n a b p IHa IHb|k b p IHb|k b p IHb|b IHb]
    using expr_ind'; intro H; try reflexivity; apply inv_of_parts; cbn [args_of body_of];
    try reflexivity; try rewrite Forall_forall in IHa; rewrite Forall_forall in IHb;
    apply forallb_forall; intros x Hx.
  - apply H. exists (ECmd n a b p). split; [apply NodeProofs.sub_refl | exact Hx].
  - apply IHa; [exact Hx|]. intros y (q & Hq & Hy). apply H. exists q. split; [|exact Hy].
    eapply NodeProofs.sub_step; [exact Hq | right; exact Hx].
  - apply IHb; [exact Hx|]. intros y (q & Hq & Hy). apply H. exists q. split; [|exact Hy].
    eapply NodeProofs.sub_step; [exact Hq | left; exact Hx].
  - apply H. exists (ENamed n a b p). split; [apply NodeProofs.sub_refl | exact Hx].
  - apply IHa; [exact Hx|]. intros y (q & Hq & Hy). apply H. exists q. split; [|exact Hy].
    eapply NodeProofs.sub_step; [exact Hq | right; exact Hx].
  - apply IHb; [exact Hx|]. intros y (q & Hq & Hy). apply H. exists q. split; [|exact Hy].
    eapply NodeProofs.sub_step; [exact Hq | left; exact Hx].
  - apply IHb; [exact Hx|]. intros y (q & Hq & Hy). apply H. exists q. split; [|exact Hy].
    eapply NodeProofs.sub_step; [exact Hq | left; exact Hx].
  - apply IHb; [exact Hx|]. intros y (q & Hq & Hy). apply H. exists q. split; [|exact Hy].
    eapply NodeProofs.sub_step; [exact Hq | left; exact Hx].
  - apply IHb; [exact Hx|]. intros y (q & Hq & Hy). apply H. exists q. split; [|exact Hy].
    eapply NodeProofs.sub_step; [exact Hq | left; exact Hx].
Qed.

(* every argument the reader makes is a group (read_arg), a coerced bare token (a brace
   group) or a bare command: a TexCmd/TexEnv object *)
Theorem parse_Inv (s : str) strict user t : parse s strict user = Ok t -> Inv t = true.
Proof.
  intro H. apply ConsTop.parse_unfold in H. destruct H as (toks & _ & H).
  unfold Inv. apply andb_true_iff. split.
  - unfold parse_tokens in H. destruct (read_tex_loop _ _ _ _ _ _) as [body|]; [|discriminate H].
    cbn in H. inversion H. reflexivity.
  - apply inv_of_arg_in. intros x Hx.
    apply NodeProofs.parse_tokens_nodes in H. destruct H as [_ Ha]. specialize (Ha x Hx).
    destruct Ha as [(f & c & st0 & m & toks' & rest & pre & _ & _ & Hr)|[(c & _ & ->)|(n & c & _ & _ & ->)]];
      try reflexivity.
    apply StructProofs.arg_shape in Hr. destruct Hr as (k & body & _ & ->). reflexivity.
Qed.

(* the guard of the translated views (C03gen / C04gen) follows *)
Lemma node_texexpr e : is_node e = true -> Views.is_texexpr e = true.
Proof. destruct e; intros H; try discriminate; reflexivity. Qed.
Lemma inv_args_ok e : inv_b e = true -> ViewDSL.args_ok e = true.
Proof.
  induction e as [t|s p|s|n a b p IHa IHb|n a b p IHa IHb|k b p IHb|k b p IHb|b IHb]
    using expr_ind'; intro H; rewrite ViewGenProofs.args_ok_eq; try reflexivity;
    destruct (inv_parts _ H) as (A & B & C); cbn [args_of body_of] in A, B, C;
    try rewrite Forall_forall in IHa; rewrite Forall_forall in IHb;
    rewrite forallb_forall in A, B, C.
  - rewrite !andb_true_iff. repeat split; apply forallb_forall; intros x Hx;
      [apply node_texexpr; apply A | apply IHa; [|apply B] | apply IHb; [|apply C]]; exact Hx.
  - rewrite !andb_true_iff. repeat split; apply forallb_forall; intros x Hx;
      [apply node_texexpr; apply A | apply IHa; [|apply B] | apply IHb; [|apply C]]; exact Hx.
  - apply forallb_forall; intros x Hx. apply IHb; [|apply C]; exact Hx.
  - apply forallb_forall; intros x Hx. apply IHb; [|apply C]; exact Hx.
  - apply forallb_forall; intros x Hx. apply IHb; [|apply C]; exact Hx.
Qed.
Lemma Inv_view_guard t : Inv t = true -> ViewDSL.args_ok t = true /\ Views.is_texexpr t = true.
Proof.
  unfold Inv. rewrite andb_true_iff. intros [N H]. split; [apply inv_args_ok; exact H | apply node_texexpr; exact N].
Qed.

(* ====================================================================== *)
(* 2. one step with the translated methods                                 *)
(* ====================================================================== *)

(* The material of an Edit.op is a list of expressions (what the hand model inserts).  As
   Python values: a plain str is a str; a TexExpr object e is fresh material given by value
   (ROut e), either bare or -- when w says so for its index -- wrapped in a TexNode of its
   own: wrapper number b, b+1, ... of the store, without parent.  So every wrapper wraps a
   fresh TexExpr, has no parent and occurs once (EditGenProofs.mats_fresh) by construction. *)
Definition str_of_mat (e : Tree.expr) : option str :=
  match e with EStr s => Some s | _ => None end.

Fixpoint mat_vals (w : nat -> bool) (j b : nat) (new : list Tree.expr)
  : list value * list (ref * pstate) :=
  match new with
  | [] => ([], [])
  | e :: r =>
    match str_of_mat e with
    | Some s => (VStr s :: fst (mat_vals w (S j) b r), snd (mat_vals w (S j) b r))
    | None =>
      if w j
      then (VNode b :: fst (mat_vals w (S j) (S b) r),
            (ROut e, PNone) :: snd (mat_vals w (S j) (S b) r))
      else (VExpr (ROut e) :: fst (mat_vals w (S j) b r), snd (mat_vals w (S j) b r))
    end
  end.

Lemma str_of_mat_some e s : str_of_mat e = Some s -> e = EStr s.
Proof. destruct e; intros H; try discriminate. inversion H. reflexivity. Qed.
Lemma str_of_mat_none e : str_of_mat e = None -> mat_ok e = true -> is_texexpr e = true.
Proof. destruct e; intros H M; try discriminate; reflexivity. Qed.

Lemma mat_vals_ok root : forall new w j pre,
  forallb mat_ok new = true ->
  let vs := fst (mat_vals w j (length pre) new) in
  let ms := snd (mat_vals w j (length pre) new) in
  mat_items (init root (pre ++ ms)) vs = Some new /\
  mats_fresh (init root (pre ++ ms)) vs /\
  (forall k, In (VNode k) vs -> (length pre <= k)%nat).
Proof.
  induction new as [|e r IH]; intros w j pre M; cbn zeta.
  - cbn. repeat split. intros k [].
  - cbn [forallb] in M. apply andb_true_iff in M. destruct M as [Me Mr].
    cbn [mat_vals]. destruct (str_of_mat e) as [s|] eqn:Es.
    + apply str_of_mat_some in Es. subst e. cbn [fst snd].
      destruct (IH w (S j) pre Mr) as (A & B & C). cbn zeta in A, B, C.
      split; [|split].
      * cbn [mat_items mat_item]. rewrite A. reflexivity.
      * cbn [mats_fresh]. split; [exact I | exact B].
      * intros k [H|H]; [discriminate | apply C; exact H].
    + pose proof (str_of_mat_none e Es Me) as T. destruct (w j); cbn [fst snd].
      * set (pre' := pre ++ [(ROut e, PNone)]).
        assert (L : length pre' = S (length pre)) by (unfold pre'; rewrite app_length; cbn; lia).
        destruct (IH w (S j) pre' Mr) as (A & B & C). cbn zeta in A, B, C. rewrite L in A, B, C.
        assert (E : forall ms', pre ++ (ROut e, PNone) :: ms' = pre' ++ ms')
          by (intros ms'; unfold pre'; rewrite <- app_assoc; reflexivity).
        rewrite E.
        assert (Nb : node_at (init root (pre' ++ snd (mat_vals w (S j) (S (length pre)) r))) (length pre)
                     = Some (ROut e, PNone)).
        { unfold node_at, init. cbn [s_nodes]. unfold pre'. rewrite <- app_assoc.
          rewrite nth_error_app2 by lia. rewrite Nat.sub_diag. reflexivity. }
        split; [|split].
        -- cbn [mat_items mat_item]. rewrite Nb, T, A. reflexivity.
        -- cbn [mats_fresh]. split; [|exact B]. split; [exists e; split; [exact Nb | exact T]|].
           intros H. apply C in H. lia.
        -- intros k [H|H]; [inversion H; lia | apply C in H; lia].
      * destruct (IH w (S j) pre Mr) as (A & B & C). cbn zeta in A, B, C.
        split; [|split].
        -- cbn [mat_items mat_item]. rewrite T, A. reflexivity.
        -- cbn [mats_fresh]. split; [exact T | exact B].
        -- intros k [H|H]; [discriminate | apply C; exact H].
Qed.

(* one Edit.op executed by the interpreter on the translated source.  The node is wrapper 0;
   for delete / remove / replace_with its .parent is wrapper 1, the node at the navigation
   parent of its position (how a TexNode reached through .contents / .children / find is
   made); the operation is the method call of the Python API:
     ODelete        node.delete()            ORemove        node.parent.remove(node)
     OReplaceWith   node.replace_with( *m )   OInsert        node.insert(i, *m )
     OAppend        node.append( *m )         ORename        node.name = s
     OSetString..   node.string = s          OSetArgs       node.args = TexArgs([node.args[i] ..]) *)
Definition gen_apply (w : nat -> bool) (t : Tree.expr) (o : op) : gres :=
  match o with
  | ODelete hp i =>
    run (VNode 0) M_delete [] (init t (target_store (hp ++ [SBody i]) (nav_parent hp) []))
  | ORemove hp i =>
    run (VNode 1) M_remove [VNode 0] (init t (target_store (hp ++ [SBody i]) (nav_parent hp) []))
  | OReplaceWith hp i new =>
    run (VNode 0) M_replace_with (fst (mat_vals w 0 2 new))
        (init t (target_store (hp ++ [SBody i]) (nav_parent hp) (snd (mat_vals w 0 2 new))))
  | OInsert np i new =>
    run (VNode 0) M_insert (VInt (Z.of_nat i) :: fst (mat_vals w 0 1 new))
        (init t (node_store np (snd (mat_vals w 0 1 new))))
  | OAppend np new =>
    run (VNode 0) M_append (fst (mat_vals w 0 1 new))
        (init t (node_store np (snd (mat_vals w 0 1 new))))
  | ORename np s =>
    run (VNode 0) (M_set A_name) [VStr s] (init t (node_store np []))
  | OSetStringCmd np s | OSetStringEnv np s =>
    run (VNode 0) (M_set A_string) [VStr s] (init t (node_store np []))
  | OSetArgs np idxs =>
    run (VNode 0) (M_set A_args) [VNewArgs (map (fun i => at_ (np ++ [SArg i])) idxs)]
        (init t (node_store np []))
  end.

(* the operation is aimed at an object that exists and that a TexNode can wrap (decidable):
   delete / replace_with: a TexExpr; if it is a TexText (only a TexNode made by hand wraps
     one), its position must be regular (at most one argument step at the end)
   remove: likewise; a TexText must sit in the parent's own list
   insert / append / string: a TexCmd / TexEnv       name: a TexCmd / TexNamedEnv
   args: the selection exists and takes each argument at most once (as Edit.op_ok) *)
Definition tgt_ok (t : Tree.expr) (o : op) : bool :=
  match o with
  | ODelete hp i | OReplaceWith hp i _ =>
    match get t (hp ++ [SBody i]) with
    | Some x => is_texexpr x && (is_node x || arg_depth_ok hp)
    | None => false
    end
  | ORemove hp i =>
    match get t (hp ++ [SBody i]) with
    | Some x => is_texexpr x && (is_node x || negb (ends_in_arg hp))
    | None => false
    end
  | OInsert np _ _ | OAppend np _ | OSetStringCmd np _ | OSetStringEnv np _ =>
    match get t np with Some h => is_node h | None => false end
  | ORename np _ =>
    match get t np with Some (ECmd _ _ _ _) | Some (ENamed _ _ _ _) => true | _ => false end
  | OSetArgs np idxs =>
    match get t np with
    | Some h => has_args h && nodup_nat idxs
                && match select (args_of h) idxs with Some _ => true | None => false end
    | None => false
    end
  end.

Definition step_ok (t : Tree.expr) (o : op) : bool := tgt_ok t o && forallb mat_ok (mats_of o).

(* ------------------------------------------------- the navigation parent exists *)
Lemma drop_args_split r : exists a, r = a ++ drop_args r.
Proof.
  induction r as [|[j|j] r IH]; cbn [drop_args].
  - exists []. reflexivity.
  - destruct IH as [a E]. exists (SArg j :: a). cbn. rewrite <- E. reflexivity.
  - exists []. reflexivity.
Qed.
Lemma nav_split hp : exists sa, hp = nav_parent hp ++ sa.
Proof.
  unfold nav_parent. destruct (drop_args_split (rev hp)) as [a E]. exists (rev a).
  rewrite <- rev_app_distr, <- E, rev_involutive. reflexivity.
Qed.
Lemma nav_target root hp i x :
  get root (hp ++ [SBody i]) = Some x ->
  exists P, get root (nav_parent hp) = Some P /\ is_node P = true.
Proof.
  intros G. rewrite get_app in G. destruct (get root hp) as [h|] eqn:Gh; [|discriminate].
  cbn [get] in G. destruct (child h (SBody i)) as [c|] eqn:C; [|discriminate].
  destruct (nav_split hp) as [sa E]. rewrite E, get_app in Gh.
  destruct (get root (nav_parent hp)) as [P|]; [|discriminate]. exists P. split; [reflexivity|].
  destruct sa as [|s sa]; cbn [get] in Gh.
  - inversion Gh; subst. apply (child_is_node h _ c C).
  - destruct (child P s) as [c'|] eqn:C'; [|discriminate]. apply (child_is_node P s c' C').
Qed.
Lemma target_holder root hp i x :
  get root (hp ++ [SBody i]) = Some x ->
  exists h, get root hp = Some h /\ nth_error (body_of h) i = Some x.
Proof.
  intros G. rewrite get_app in G. destruct (get root hp) as [h|]; [|discriminate].
  exists h. split; [reflexivity|]. cbn [get child] in G.
  destruct (nth_error (body_of h) i); [exact G | discriminate].
Qed.

(* the guard "the holder is found by identity, or the target is a TexCmd/TexEnv" *)
Lemma holds_or_node root hp i x P :
  get root (hp ++ [SBody i]) = Some x -> get root (nav_parent hp) = Some P ->
  (is_node x || arg_depth_ok hp) = true ->
  existsb (holds_object hp) (holders (nav_parent hp) P) = true \/ is_node x = true.
Proof.
  intros G GP D. destruct (is_node x); [right; reflexivity|]. left. cbn [orb] in D.
  destruct (target_holder root hp i x G) as [h [Gh X]].
  destruct (find_nav root hp h Gh D) as [P' [GP' F]]. rewrite GP in GP'. inversion GP'; subst P'.
  apply (found_holder root hp h i x _ P Gh X F).
Qed.

(* ----------------------------------------------------------- the step theorem *)
Theorem gen_apply_eq w t o :
  Inv t = true -> step_ok t o = true -> gen_apply w t o = of_tree t (apply_op t o).
Proof.
  intros I S. unfold step_ok in S. apply andb_true_iff in S. destruct S as [T M].
  pose proof (Inv_inv t I) as H.
  destruct o as [hp i|hp i|hp i new|np i new|np new|np s|np s|np s|np idxs];
    cbn [gen_apply apply_op tgt_ok mats_of] in *.
  - (* delete *)
    destruct (get t (hp ++ [SBody i])) as [x|] eqn:G; [|discriminate].
    apply andb_true_iff in T. destruct T as [Tx D].
    destruct (nav_target t hp i x G) as [P [GP NP]].
    apply (run_delete t [] (nav_parent hp) hp i P x GP G NP (inv_args_nodes t _ P H GP) Tx).
    apply (holds_or_node t hp i x P G GP D).
  - (* remove *)
    destruct (get t (hp ++ [SBody i])) as [x|] eqn:G; [|discriminate].
    apply andb_true_iff in T. destruct T as [Tx D].
    destruct (nav_target t hp i x G) as [P [GP NP]].
    apply (run_remove t [] (nav_parent hp) hp i P x GP G NP Tx).
    destruct (is_node x); [right; reflexivity|]. left. cbn [orb] in D.
    apply nav_parent_noarg. apply negb_true_iff. exact D.
  - (* replace_with *)
    destruct (get t (hp ++ [SBody i])) as [x|] eqn:G; [|discriminate].
    apply andb_true_iff in T. destruct T as [Tx D].
    destruct (nav_target t hp i x G) as [P [GP NP]].
    destruct (mat_vals_ok t new w 0%nat [(RIn (hp ++ [SBody i]) 0, PNode 1); (RIn (nav_parent hp) 0, PUnknown)] M)
      as (A & _ & _).
    apply (run_replace_with t _ (nav_parent hp) hp i P x _ new GP G NP (inv_args_nodes t _ P H GP) Tx);
      [apply (holds_or_node t hp i x P G GP D) | exact A].
  - (* insert *)
    destruct (get t np) as [h|] eqn:G; [|discriminate].
    destruct (mat_vals_ok t new w 0%nat [(RIn np 0, PUnknown)] M) as (A & B & _).
    apply (run_insert t _ np h _ _ new G T B A).
  - (* append *)
    destruct (get t np) as [h|] eqn:G; [|discriminate].
    destruct (mat_vals_ok t new w 0%nat [(RIn np 0, PUnknown)] M) as (A & _ & _).
    apply (run_append t _ np h _ new G T A).
  - (* name *)
    destruct (get t np) as [h|] eqn:G; [|discriminate].
    apply (run_set_name t [] np h s G). destruct h; try discriminate; exact Logic.I.
  - (* string, command *)
    destruct (get t np) as [h|] eqn:G; [|discriminate].
    destruct h as [tk|s0 p|s0|n a b p|n a b p|k b p|k b p|b]; try discriminate.
    + apply (run_set_string_cmd t [] np n a b p s G). intros a0 ->.
      pose proof (inv_args_nodes t np _ H G) as N. cbn in N. rewrite andb_true_r in N. exact N.
    + apply (run_set_string_env t [] np _ s G). reflexivity.
    + apply (run_set_string_env t [] np _ s G). reflexivity.
    + apply (run_set_string_env t [] np _ s G). reflexivity.
    + apply (run_set_string_env t [] np _ s G). reflexivity.
  - (* string, environment: the same method *)
    destruct (get t np) as [h|] eqn:G; [|discriminate].
    destruct h as [tk|s0 p|s0|n a b p|n a b p|k b p|k b p|b]; try discriminate.
    + apply (run_set_string_cmd t [] np n a b p s G). intros a0 ->.
      pose proof (inv_args_nodes t np _ H G) as N. cbn in N. rewrite andb_true_r in N. exact N.
    + apply (run_set_string_env t [] np _ s G). reflexivity.
    + apply (run_set_string_env t [] np _ s G). reflexivity.
    + apply (run_set_string_env t [] np _ s G). reflexivity.
    + apply (run_set_string_env t [] np _ s G). reflexivity.
  - (* args *)
    destruct (get t np) as [h|] eqn:G; [|discriminate].
    apply andb_true_iff in T. destruct T as [T S]. apply andb_true_iff in T. destruct T as [HA ND].
    destruct (select (args_of h) idxs) as [a'|] eqn:Sel; [|discriminate].
    apply (run_set_args t [] np h idxs a' G HA ND Sel).
Qed.

(* ====================================================================== *)
(* 3. histories                                                            *)
(* ====================================================================== *)

(* the tree after a step: the returned tree, or the tree an exception left behind *)
Definition next_tree (g : gres) : option Tree.expr :=
  match g with GDone t' _ | GExc _ t' => Some t' | _ => None end.

(* the hand model, step by step (Edit.apply_op), every outcome recorded *)
Fixpoint hand_trace (t : Tree.expr) (ops : list op) : list gres :=
  match ops with
  | [] => []
  | o :: r =>
    let g := of_tree t (apply_op t o) in
    g :: match next_tree g with Some t' => hand_trace t' r | None => [] end
  end.

(* the translated source, step by step; ws k j: is item j of the material of step k passed
   wrapped in a TexNode (true) or as a bare TexExpr (false) *)
Fixpoint gen_trace (ws : nat -> nat -> bool) (t : Tree.expr) (ops : list op) : list gres :=
  match ops with
  | [] => []
  | o :: r =>
    let g := gen_apply (ws 0%nat) t o in
    g :: match next_tree g with Some t' => gen_trace (fun k => ws (S k)) t' r | None => [] end
  end.

(* every step is aimed at an existing object of the right class and brings acceptable
   material -- checked against the tree the history has reached (decidable) *)
Fixpoint hist_ok (t : Tree.expr) (ops : list op) : bool :=
  match ops with
  | [] => true
  | o :: r =>
    step_ok t o &&
    match next_tree (of_tree t (apply_op t o)) with Some t' => hist_ok t' r | None => true end
  end.

Lemma next_tree_Inv t o t' :
  Inv t = true -> forallb mat_ok (mats_of o) = true ->
  next_tree (of_tree t (apply_op t o)) = Some t' -> Inv t' = true.
Proof.
  intros I M N. destruct (apply_op t o) as [a|e|e a] eqn:E; cbn [of_tree of_hand next_tree] in N.
  - inversion N; subst. apply (apply_op_Inv t o t' I M). rewrite E. reflexivity.
  - destruct (exn_of e); cbn [next_tree] in N; [|discriminate]. inversion N; subst. exact I.
  - destruct (exn_of e); cbn [next_tree] in N; [|discriminate]. inversion N; subst.
    apply (apply_op_Inv t o t' I M). rewrite E. reflexivity.
Qed.

(* THE HISTORY THEOREM: same outcome at every step *)
Theorem gen_trace_eq : forall ops ws t,
  Inv t = true -> hist_ok t ops = true -> gen_trace ws t ops = hand_trace t ops.
Proof.
  induction ops as [|o r IH]; intros ws t I K; [reflexivity|].
  cbn [hist_ok] in K. apply andb_true_iff in K. destruct K as [S K].
  cbn [gen_trace hand_trace]. rewrite (gen_apply_eq (ws 0%nat) t o I S). f_equal.
  destruct (next_tree (of_tree t (apply_op t o))) as [t'|] eqn:N; [|reflexivity].
  apply IH; [|exact K]. unfold step_ok in S. apply andb_true_iff in S.
  apply (next_tree_Inv t o t' I (proj2 S) N).
Qed.

(* ... and the invariant holds of every tree on the way *)
Theorem hand_trace_Inv : forall ops t,
  Inv t = true -> hist_ok t ops = true ->
  forall g t', In g (hand_trace t ops) -> next_tree g = Some t' -> Inv t' = true.
Proof.
  induction ops as [|o r IH]; intros t I K g t' Hg N; [contradiction|].
  cbn [hist_ok] in K. apply andb_true_iff in K. destruct K as [S K].
  unfold step_ok in S. apply andb_true_iff in S. destruct S as [_ M].
  cbn [hand_trace] in Hg. destruct Hg as [<-|Hg]; [apply (next_tree_Inv t o t' I M N)|].
  destruct (next_tree (of_tree t (apply_op t o))) as [t1|] eqn:N1; [|contradiction].
  apply (IH t1 (next_tree_Inv t o t1 I M N1) K g t' Hg N).
Qed.

(* the final tree of a run in which every call returned normally *)
Fixpoint all_done (t : Tree.expr) (tr : list gres) : option Tree.expr :=
  match tr with
  | [] => Some t
  | GDone t' _ :: r => all_done t' r
  | _ => None
  end.

Lemma hand_trace_run : forall ops t t',
  all_done t (hand_trace t ops) = Some t' <-> run_ops t ops = Done t'.
Proof.
  induction ops as [|o r IH]; intros t t'; cbn [hand_trace run_ops all_done].
  - split; intros H; inversion H; reflexivity.
  - destruct (apply_op t o) as [a|e|e a]; cbn [of_tree of_hand next_tree obind all_done].
    + apply IH.
    + destruct (exn_of e); cbn [all_done]; split; discriminate.
    + destruct (exn_of e); cbn [all_done]; split; discriminate.
Qed.

(* same final tree *)
Theorem gen_final ops ws t t' :
  Inv t = true -> hist_ok t ops = true ->
  (all_done t (gen_trace ws t ops) = Some t' <-> run_ops t ops = Done t').
Proof. intros I K. rewrite (gen_trace_eq ops ws t I K). apply hand_trace_run. Qed.

(* ------------------------------------------ histories in the sense of Props/C15.v *)
(* delete / remove / replace_with aim at a TexExpr (what a TexNode wraps), the material is
   acceptable -- at every step of the run (decidable) *)
Definition target_texexpr (t : Tree.expr) (o : op) : bool :=
  match o with
  | ODelete hp i | ORemove hp i | OReplaceWith hp i _ =>
    match get t (hp ++ [SBody i]) with Some x => is_texexpr x | None => false end
  | _ => true
  end.
Fixpoint fresh_ok (t : Tree.expr) (ops : list op) : bool :=
  match ops with
  | [] => true
  | o :: r =>
    target_texexpr t o && forallb mat_ok (mats_of o) &&
    match apply_op t o with Done t' => fresh_ok t' r | _ => true end
  end.

Lemma op_ok_tgt t o : op_ok t o = true -> target_texexpr t o = true -> tgt_ok t o = true.
Proof.
  intros K T. destruct o as [hp i|hp i|hp i new|np i new|np new|np s|np s|np s|np idxs];
    cbn [op_ok tgt_ok target_texexpr] in *.
  - destruct (get t (hp ++ [SBody i])) as [x|]; [|discriminate]. rewrite T. cbn [andb].
    unfold holder_ok in K. destruct (get t hp); [|discriminate].
    apply andb_true_iff in K. rewrite (proj2 K). apply orb_true_r.
  - destruct (get t (hp ++ [SBody i])) as [x|]; [|discriminate]. rewrite T. cbn [andb].
    apply andb_true_iff in K. rewrite (proj2 K). apply orb_true_r.
  - destruct (get t (hp ++ [SBody i])) as [x|]; [|discriminate]. rewrite T. cbn [andb].
    apply andb_true_iff in K. destruct K as [K _].
    unfold holder_ok in K. destruct (get t hp); [|discriminate].
    apply andb_true_iff in K. rewrite (proj2 K). apply orb_true_r.
  - destruct (get t np) as [h|]; [|discriminate]. apply andb_true_iff in K. destruct K as [K _].
    apply andb_true_iff in K. apply K.
  - destruct (get t np) as [h|]; [|discriminate]. apply andb_true_iff in K. apply K.
  - exact K.
  - destruct (get t np) as [h|]; [|discriminate]. destruct h; try discriminate. reflexivity.
  - destruct (get t np) as [h|]; [|discriminate]. apply andb_true_iff in K. destruct K as [K _].
    destruct h; try discriminate; reflexivity.
  - exact K.
Qed.

Lemma hist_ok_of_ops_ok : forall ops t,
  ops_ok t ops -> fresh_ok t ops = true -> hist_ok t ops = true.
Proof.
  induction ops as [|o r IH]; intros t K F; [reflexivity|].
  cbn [ops_ok] in K. destruct K as [Ko Kr]. cbn [fresh_ok] in F.
  apply andb_true_iff in F. destruct F as [F Fr]. apply andb_true_iff in F. destruct F as [Ft Fm].
  cbn [hist_ok]. unfold step_ok. rewrite (op_ok_tgt t o Ko Ft), Fm. cbn [andb].
  destruct (apply_op_total t o Ko) as [t' E]. rewrite E in *. cbn [of_tree of_hand next_tree].
  apply IH; [apply Kr; reflexivity | exact Fr].
Qed.

(* C15_well_targeted_runs and C15_refines_partial, of the translated source *)
Theorem gen_well_targeted_runs ops ws t :
  Inv t = true -> ops_ok t ops -> fresh_ok t ops = true ->
  exists t', all_done t (gen_trace ws t ops) = Some t' /\ run_ops t ops = Done t' /\ Inv t' = true.
Proof.
  intros I K F. pose proof (hist_ok_of_ops_ok ops t K F) as Hk.
  destruct (ops_ok_run ops t K) as [t' R]. exists t'.
  rewrite (gen_trace_eq ops ws t I Hk). split; [apply hand_trace_run; exact R | split; [exact R|]].
  clear K F. revert t I Hk R. induction ops as [|o r IH]; intros t I Hk R.
  - cbn in R. inversion R; subst. exact I.
  - cbn [run_ops] in R. cbn [hist_ok] in Hk. apply andb_true_iff in Hk. destruct Hk as [S Hk].
    unfold step_ok in S. apply andb_true_iff in S.
    destruct (apply_op t o) as [a|e|e a] eqn:E; cbn [obind] in R; try discriminate.
    cbn [of_tree of_hand next_tree] in Hk. apply (IH a); [|exact Hk | exact R].
    apply (apply_op_Inv t o a I (proj2 S)). rewrite E. reflexivity.
Qed.

Theorem gen_refines ops ws t t' :
  Inv t = true -> ops_ok t ops -> fresh_ok t ops = true ->
  all_done t (gen_trace ws t ops) = Some t' ->
  estr t' = ref_str (fold_left ref_step (map op_abs ops) (abs t)).
Proof.
  intros I K F D. rewrite (gen_trace_eq ops ws t I (hist_ok_of_ops_ok ops t K F)) in D.
  apply hand_trace_run in D. apply (C15_refines ops t t' K D).
Qed.

(* ------------------------------------------------------------- view consistency *)
(* every tree the generated run passes through satisfies the guard of the translated views
   (C03gen / C04gen), so what the translated navigation and search methods return on it
   is what Model/Views.v computes -- which is consistent (C03 / C04) *)
Theorem gen_trace_Inv ops ws t :
  Inv t = true -> hist_ok t ops = true ->
  forall g t', In g (gen_trace ws t ops) -> next_tree g = Some t' -> Inv t' = true.
Proof. intros I K. rewrite (gen_trace_eq ops ws t I K). apply (hand_trace_Inv ops t I K). Qed.

Theorem gen_views_consistent ops ws t :
  Inv t = true -> hist_ok t ops = true ->
  forall g t', In g (gen_trace ws t ops) -> next_tree g = Some t' ->
  (ViewDSL.args_ok t' = true /\ Views.is_texexpr t' = true) /\
  (* descendants / find_all / find / count / __getattr__ of the TRANSLATED source, on t' *)
  (forall par, exists l,
     ViewDSL.run_node ViewGen.gen_v_cls ViewDSL.M_descendants par ([], t') []
     = Some (ViewDSL.RVal (ViewDSL.VList (map ViewDSL.of_item l))) /\
     Permutation (map snd l) (Views.walk t') /\ NoDup (map fst l)) /\
  (forall par q, exists l,
     ViewDSL.run_node ViewGen.gen_v_cls ViewDSL.M_find_all par ([], t') [ViewDSL.qval q]
     = Some (ViewDSL.RVal (ViewDSL.VList (map ViewDSL.of_item l))) /\
     ViewDSL.run_node ViewGen.gen_v_cls ViewDSL.M_find par ([], t') [ViewDSL.qval q]
     = Some (ViewDSL.RVal (ViewDSL.of_opt_item (hd_error l))) /\
     ViewDSL.run_node ViewGen.gen_v_cls ViewDSL.M_count par ([], t') [ViewDSL.qval q]
     = Some (ViewDSL.RVal (ViewDSL.VInt (Z.of_nat (length l))))) /\
  (* the statement of C15views.v *)
  (forall n : Views.item, snd n = t' \/ In n (Views.descendants ([], t')) ->
     (forall x, In x (Views.descendants n) <-> Views.reach n x) /\
     NoDup (map fst (Views.descendants n)) /\
     Permutation (map snd (Views.descendants n)) (Views.walk (snd n)) /\
     map snd (Views.text n) = Views.leaves (snd n) /\
     (forall q, Views.find q n = hd_error (Views.find_all q n)) /\
     (forall q, Views.count q n = length (Views.find_all q n))).
Proof.
  intros I K g t' Hg N. pose proof (gen_trace_Inv ops ws t I K g t' Hg N) as I'.
  pose proof (Inv_view_guard t' I') as Gd. split; [exact Gd|]. split; [|split].
  - intros par. apply (ViewGenProofs.gen_descendants_complete par ([], t') Gd).
  - intros par q. destruct (ViewGenProofs.gen_find_count_getattr par ([], t') q Gd) as (l & A & B & C & _).
    exists l. repeat split; assumption.
  - intros n _.
    split; [intro x; apply ViewsProofs.descendants_is_closure|].
    split; [apply ViewsProofs.descendants_nodup|].
    split; [apply ViewsProofs.descendants_complete|].
    split; [apply (proj1 (ViewsProofs.text_is_leaves_in_order n))|].
    split; intro q; [apply ViewsProofs.find_is_head | apply ViewsProofs.count_is_length].
Qed.

(* the generated run never leaves the modelled fragment and the hand model never answers
   "outside the model": every step has a next tree, the traces have the length of the history *)
Lemma gen_apply_is_view w t o : exists oc, gen_apply w t o = view oc.
Proof. destruct o; cbn [gen_apply]; unfold run; eexists; reflexivity. Qed.

Theorem step_total t o :
  Inv t = true -> step_ok t o = true ->
  exists t', next_tree (of_tree t (apply_op t o)) = Some t'.
Proof.
  intros I S. pose proof (gen_apply_eq (fun _ => true) t o I S) as E.
  destruct (gen_apply_is_view (fun _ => true) t o) as [oc V]. rewrite V in E.
  destruct (apply_op t o) as [a|e|e a]; cbn [of_tree of_hand] in *.
  - exists a. reflexivity.
  - destruct (exn_of e); [exists t; reflexivity|].
    destruct oc as [st [v|x]| |]; discriminate.
  - destruct (exn_of e); [exists a; reflexivity|].
    destruct oc as [st [v|x]| |]; discriminate.
Qed.

Theorem trace_length : forall ops ws t,
  Inv t = true -> hist_ok t ops = true -> length (gen_trace ws t ops) = length ops.
Proof.
  intros ops ws t I K. rewrite (gen_trace_eq ops ws t I K). clear ws. revert t I K.
  induction ops as [|o r IH]; intros t I K; [reflexivity|].
  cbn [hist_ok] in K. apply andb_true_iff in K. destruct K as [S K].
  cbn [hand_trace length]. destruct (step_total t o I S) as [t' N]. rewrite N in *.
  f_equal. apply IH; [|exact K]. unfold step_ok in S. apply andb_true_iff in S.
  apply (next_tree_Inv t o t' I (proj2 S) N).
Qed.

(* ====================================================================== *)
(* 4. node.args.insert(i, '{s}') and the translated TexArgs.insert          *)
(* ====================================================================== *)

(* Edit.op has no constructor for it (Props/C15.v's histories do not contain it); it
   preserves the invariant (args_insert_Inv above), so it may be interleaved with a
   history.  Its tie to the source goes through Model/ArgGen.v (C18gen): the argument list of
   a node, a list of group objects, is abstracted to the list of Args.group = (kind, text of
   the body) that Model/Args.v works on; the shadow list `.all` is any list satisfying the
   invariant of C18 (ArgsProofs.Inv, true of every TexArgs built by its constructor and
   changed through its methods: C18_shadow_invariant). *)
Definition zs_of (s : str) : Args.pstr := map Z.of_N s.
Definition kind_b (k : groupkind) : bool := match k with GBrace => false | GBracket => true end.
Definition is_group_e (e : Tree.expr) : bool := match e with EGroup _ _ _ => true | _ => false end.
Definition grp (e : Tree.expr) : Args.group :=
  match e with
  | EGroup k b _ => (kind_b k, zs_of (estr_list b))
  | _ => (false, zs_of (estr e))
  end.
(* the Python str '{s}' / '[s]' *)
Definition brk (k : groupkind) (s : str) : Args.pstr :=
  Args.open_of (kind_b k) :: zs_of s ++ [Args.close_of (kind_b k)].

(* the abstraction keeps str() *)
Lemma render_grp e : is_group_e e = true -> Args.render (grp e) = zs_of (estr e).
Proof.
  destruct e as [| | | | | |k b p|]; try discriminate. intros _.
  unfold Args.render, grp, zs_of. cbn [fst snd estr]. fold (estr_list b).
  destruct k; cbn; rewrite map_app; reflexivity.
Qed.

Lemma classify_brk k s : Args.spec_classify (Args.AS (brk k s)) = Args.CGroup (kind_b k, zs_of s).
Proof.
  unfold Args.spec_classify, brk.
  assert (Sp : Args.is_space (Args.open_of (kind_b k) :: zs_of s ++ [Args.close_of (kind_b k)]) = false)
    by (destruct k; reflexivity).
  rewrite Sp. destruct (zs_of s ++ [Args.close_of (kind_b k)]) as [|x t'] eqn:E;
    [destruct (zs_of s); discriminate|].
  rewrite <- E, last_last, removelast_last. destruct k; reflexivity.
Qed.

Lemma insert_index (n : nat) (i : Z) :
  Z.to_nat (Z.max 0 (Z.min (Z.of_nat n) (if i <? 0 then i + Z.of_nat n else i))) = norm_index n i.
Proof. unfold norm_index. destruct (i <? 0) eqn:E; [apply Z.ltb_lt in E | apply Z.ltb_ge in E]; lia. Qed.

Lemma grp_new k s : grp (EGroup k [EStr s] (-1)) = (kind_b k, zs_of s).
Proof. unfold grp, estr_list. cbn [map concat estr]. rewrite app_nil_r. reflexivity. Qed.

Theorem args_insert_C18gen root np h i k s (st : Args.state) :
  get root np = Some h -> has_args h = true ->
  fst st = map grp (args_of h) -> ArgsProofs.Inv st ->
  exists root' h',
    args_insert root np i k s = Done root' /\ get root' np = Some h' /\
    (* the translated TexArgs.insert, on the abstracted list, is Args.m_insert ... *)
    ArgDSL.run_meth ArgGen.gen_a_cls ArgDSL.M_insert
                    [ArgDSL.VInt i; ArgDSL.value_of_arg (Args.AS (brk k s))] st
    = ArgGenProofs.done (Args.m_insert st i (Args.AS (brk k s))) /\
    (* ... which returns None, leaves the abstraction of the argument list Edit.args_insert
       makes, and keeps the invariant of the shadow list *)
    snd (Args.m_insert st i (Args.AS (brk k s))) = Args.ONone /\
    fst (fst (Args.m_insert st i (Args.AS (brk k s)))) = map grp (args_of h') /\
    ArgsProofs.Inv (fst (Args.m_insert st i (Args.AS (brk k s)))).
Proof.
  intros G HA F HI.
  set (h' := set_args_of h (list_insert i (EGroup k [EStr s] (-1)) (args_of h))).
  destruct (put_o_done root np h h' G) as [root' [P PO]].
  exists root', h'. split; [|split; [apply (get_put_same np root h h' root' G P)|]].
  { unfold args_insert. rewrite G. destruct h; try discriminate; exact PO. }
  split; [apply ArgGenProofs.run_insert|].
  destruct (ArgsProofs.m_insert_ok st i (Args.AS (brk k s)) HI) as (A & B & C).
  unfold Args.ref_insert in A, B. rewrite classify_brk in A, B. cbn [fst snd] in A, B.
  split; [exact B | split; [|exact C]]. rewrite A.
  unfold h'. rewrite (args_of_set_args h _ HA). rewrite F. unfold Args.zlen. rewrite map_length.
  rewrite insert_index. unfold list_insert. rewrite map_app, firstn_map. cbn [map]. rewrite skipn_map.
  rewrite grp_new. reflexivity.
Qed.

(* for every node whose arguments are groups there is such a state: what the constructor
   TexArgs(groups) makes *)
Lemma args_state_exists h :
  let st := fst (Args.m_new (map Args.AG (map grp (args_of h)))) in
  fst st = map grp (args_of h) /\ ArgsProofs.Inv st.
Proof.
  cbn zeta. split; [apply (ArgsProofs.m_new_groups (map grp (args_of h))) | apply ArgsProofs.m_new_ok].
Qed.

(* node.args = TexArgs([node.args[i] for i in idxs]): the constructor of the translated
   TexArgs, given the abstraction of the selected groups, returns normally with exactly the
   list Edit.set_args stores *)
Theorem set_args_C18gen root np h idxs a' :
  get root np = Some h -> has_args h = true -> nodup_nat idxs = true ->
  select (args_of h) idxs = Some a' ->
  exists root' h',
    set_args root np idxs = Done root' /\ get root' np = Some h' /\
    ArgDSL.run_meth ArgGen.gen_a_cls ArgDSL.M_init
                    [ArgDSL.VArgs (map Args.AG (map grp a'))] Args.empty_state
    = ArgGenProofs.done (Args.m_new (map Args.AG (map grp a'))) /\
    snd (Args.m_new (map Args.AG (map grp a'))) = Args.ONone /\
    fst (fst (Args.m_new (map Args.AG (map grp a')))) = map grp (args_of h') /\
    ArgsProofs.Inv (fst (Args.m_new (map Args.AG (map grp a')))).
Proof.
  intros G HA ND S.
  destruct (put_o_done root np h (set_args_of h a') G) as [root' [P PO]].
  exists root', (set_args_of h a'). split; [|split; [apply (get_put_same np root h _ root' G P)|]].
  { unfold set_args. rewrite G.
    assert (R : reargs h idxs = Done (set_args_of h a'))
      by (destruct h; try discriminate; cbn [reargs args_of] in *; rewrite ND, S; reflexivity).
    rewrite R. exact PO. }
  split; [apply ArgGenProofs.run_init|].
  destruct (ArgsProofs.m_new_groups (map grp a')) as [A B].
  split; [exact B | split; [|apply ArgsProofs.m_new_ok]].
  rewrite A, (args_of_set_args h a' HA). reflexivity.
Qed.

(* ====================================================================== *)
(* 5. examples (non-vacuity) and refuted statements                        *)
(* ====================================================================== *)

(* \a{\b}\b\c[o]{p} *)
Definition doc_hist : str :=
  [92; 97; 123; 92; 98; 125; 92; 98; 92; 99; 91; 111; 93; 123; 112; 125]%N.
(* a copy of a node \b parsed elsewhere *)
Definition b_copy : Tree.expr := ECmd [98]%N [] [] 0.
(* into the argument group of \a, in front: the copy (now the twin of the \b behind it) and
   a str; swap the two arguments of \c; delete the ORIGINAL \b of the group -- the second of
   the twins (a textual look-up would take the first and leave \a{S\b}) *)
Definition hist3 : list op :=
  [ OInsert [SBody 0; SArg 0]%nat 0 [b_copy; EStr s_S];
    OSetArgs [SBody 2]%nat [1; 0]%nat;
    ODelete [SBody 0; SArg 0]%nat 2 ].
Definition s_hist3_1 : str :=  (* \a{\bS\b}\b\c[o]{p} *)
  [92; 97; 123; 92; 98; 83; 92; 98; 125; 92; 98; 92; 99; 91; 111; 93; 123; 112; 125]%N.
Definition s_hist3_2 : str :=  (* \a{\bS\b}\b\c{p}[o] *)
  [92; 97; 123; 92; 98; 83; 92; 98; 125; 92; 98; 92; 99; 123; 112; 125; 91; 111; 93]%N.
Definition s_hist3_3 : str :=  (* \a{\bS}\b\c{p}[o] *)
  [92; 97; 123; 92; 98; 83; 125; 92; 98; 92; 99; 123; 112; 125; 91; 111; 93]%N.

Example hist3_example :
  let t := parsed doc_hist in
  parse doc_hist true [] = Ok t /\
  Inv t = true /\ hist_ok t hist3 = true /\ ops_okb t hist3 = true /\ fresh_ok t hist3 = true /\
  (* material wrapped in TexNodes, and bare *)
  gen_trace (fun _ _ => true) t hist3 = hand_trace t hist3 /\
  gen_trace (fun _ _ => false) t hist3 = hand_trace t hist3 /\
  map gstr (gen_trace (fun _ _ => true) t hist3)
  = [Some (None, s_hist3_1); Some (None, s_hist3_2); Some (None, s_hist3_3)] /\
  (exists t', all_done t (gen_trace (fun _ _ => true) t hist3) = Some t' /\
              run_ops t hist3 = Done t' /\
              estr t' = ref_str (fold_left ref_step (map op_abs hist3) (abs t))).
Proof.
  vm_compute. repeat (split; [reflexivity|]). eexists.
  split; [reflexivity|]. split; reflexivity.
Qed.

(* a history with a step that raises: insert into \b, a command without contents, is a
   TypeError that leaves the tree alone; the run goes on *)
Definition hist_raise : list op :=
  [ OInsert [SBody 0; SArg 0]%nat 0 [b_copy; EStr s_S];
    OInsert [SBody 1]%nat 0 [EStr s_S];
    ODelete [SBody 0; SArg 0]%nat 2 ].
Definition s_hist_raise_3 : str :=  (* \a{\bS}\b\c[o]{p} *)
  [92; 97; 123; 92; 98; 83; 125; 92; 98; 92; 99; 91; 111; 93; 123; 112; 125]%N.
Example hist_raise_example :
  let t := parsed doc_hist in
  Inv t = true /\ hist_ok t hist_raise = true /\
  gen_trace (fun _ _ => true) t hist_raise = hand_trace t hist_raise /\
  map gstr (gen_trace (fun _ _ => true) t hist_raise)
  = [Some (None, s_hist3_1); Some (Some TypeError, s_hist3_1); Some (None, s_hist_raise_3)].
Proof. vm_compute. repeat split; reflexivity. Qed.

(* args_insert_C18gen on \c[o]{p}: node.args.insert(1, '{S}') *)
Example args_insert_example :
  let t := parsed doc_hist in
  exists h,
    get t [SBody 2]%nat = Some h /\ has_args h = true /\ forallb is_group_e (args_of h) = true /\
    (let st := fst (Args.m_new (map Args.AG (map grp (args_of h)))) in
     fst st = map grp (args_of h) /\
     ArgDSL.run_meth ArgGen.gen_a_cls ArgDSL.M_insert
                     [ArgDSL.VInt 1; ArgDSL.value_of_arg (Args.AS (brk GBrace s_S))] st
     = ArgGenProofs.done (Args.m_insert st 1 (Args.AS (brk GBrace s_S))) /\
     exists t' h', args_insert t [SBody 2]%nat 1 GBrace s_S = Done t' /\
                   get t' [SBody 2]%nat = Some h' /\
                   fst (fst (Args.m_insert st 1 (Args.AS (brk GBrace s_S)))) = map grp (args_of h') /\
                   Inv t' = true /\
                   estr t' = [92; 97; 123; 92; 98; 125; 92; 98; 92; 99; 91; 111; 93; 123; 83; 125; 123; 112; 125]%N).
Proof.
  cbv zeta. eexists. split; [vm_compute; reflexivity|].
  split; [reflexivity|]. split; [reflexivity|].
  split; [vm_compute; reflexivity|]. split; [vm_compute; reflexivity|].
  eexists. eexists. split; [vm_compute; reflexivity|]. split; [vm_compute; reflexivity|].
  split; [vm_compute; reflexivity|]. split; vm_compute; reflexivity.
Qed.

(* REFUTED: "the generated run equals the hand run for every history that Props/C15.v
   accepts (ops_ok)".  C15's op_ok lets delete / remove / replace_with aim at ANY element of a
   content list, a plain str included; a str is not a TexExpr, no TexNode can wrap it
   (TexNode.__init__ asserts), so the code has no such call.  The hand model deletes the str;
   the translated source leaves the fragment.  Replayed:
     s = TexSoup(r'\a'); s.insert(0, 'S'); c = list(s.contents)[0]
     -> c is the str 'S': c.delete() is an AttributeError, TexNode(c) an AssertionError.
   The hand model is used outside what it models; hist_ok / fresh_ok exclude it. *)
Definition doc_a : str := [92; 97]%N.
Definition hist_text_target : list op := [OInsert [] 0 [EStr s_S]; ODelete [] 0].
Lemma text_target_refuted :
  let t := parsed doc_a in
  Inv t = true /\ ops_okb t hist_text_target = true /\
  forallb (fun o => forallb mat_ok (mats_of o)) hist_text_target = true /\
  fresh_ok t hist_text_target = false /\
  (exists t1 t2, hand_trace t hist_text_target = [GDone t1 VNone; GDone t2 VNone] /\
                 get t1 [SBody 0]%nat = Some (EStr s_S) /\
                 gen_trace (fun _ _ => true) t hist_text_target = [GDone t1 VNone; GUnsup]).
Proof.
  vm_compute. repeat (split; [reflexivity|]). eexists. eexists.
  split; [reflexivity|]. split; reflexivity.
Qed.

(* REFUTED: "every edit preserves the invariant, whatever the material".  A TexCmd whose
   argument list holds a text (mat_ok false; TexArgs cannot build it, so nothing to replay)
   breaks it, and a later delete inside the inserted node leaves the fragment. *)
Definition bad_mat : Tree.expr :=
  ECmd [105; 116; 101; 109]%N [EText (mkt [120]%N 0 TText)] [ECmd [98]%N [] [] 1] 0.
Lemma bad_material_refuted :
  let t := parsed doc_a in
  let o := OAppend [] [bad_mat] in
  Inv t = true /\ tgt_ok t o = true /\ step_ok t o = false /\
  match apply_op t o with
  | Done t' =>
    Inv t' = false /\ tgt_ok t' (ODelete [SBody 1]%nat 0) = true /\
    (exists t'', apply_op t' (ODelete [SBody 1]%nat 0) = Done t'') /\
    gen_apply (fun _ => true) t' (ODelete [SBody 1]%nat 0) = GUnsup
  | _ => False
  end.
Proof.
  vm_compute. repeat (split; [reflexivity|]). split; [eexists; reflexivity | reflexivity].
Qed.
