(* Proofs about the Buffer model (Model/Buffer.v): refinement of the model by
   the obvious reference machine (list, integer index), for EVERY item list and
   EVERY operation list whose operations satisfy the property's side conditions
   (guard), by induction on the operation list from one lemma per operation. *)
From Coq Require Import List ZArith Bool Lia Arith.
From TexModel Require Import Buffer.
Import ListNotations.
Open Scope Z_scope.

Arguments advance : simpl never.
Arguments scan : simpl never.

(* ====================================================================== *)
(* The reference machine: a plain list with an integer index               *)
(* ====================================================================== *)

(* l[a:b] for 0 <= a, 0 <= b on a plain list *)
Definition sub (l : list Z) (a b : Z) : list Z :=
  firstn (Z.to_nat b - Z.to_nat a) (skipn (Z.to_nat a) l).

Definition dflt (o : option Z) (d : Z) : Z := match o with Some x => x | None => d end.

(* the items before the first one satisfying p *)
Fixpoint take_until (p : Z -> bool) (l : list Z) : list Z :=
  match l with
  | [] => []
  | x :: r => if p x then [] else x :: take_until p r
  end.

Definition zlen (l : list Z) : Z := Z.of_nat (length l).

Definition ref_step (l : list Z) (i : Z) (o : op) : Z * out :=
  let n := zlen l in
  match o with
  | Next => match nth_error l (Z.to_nat i) with
            | Some x => (i + 1, OItem x)
            | None => (i, OExc StopIteration)
            end
  | HasNext k => (i, OBool (i + k - 1 <? n))
  | Peek j => (i, match nth_error l (Z.to_nat (i + j)) with
                  | Some x => OItem x
                  | None => ONone
                  end)
  | PeekR a b => (i, OItems (sub l (i + a) (i + b)))
  | Forward j => (i + j, OItems (sub l (Z.min i (i + j)) (Z.max i (i + j))))
  | Backward j => (i - j, OItems (sub l (Z.min i (i - j)) (Z.max i (i - j))))
  | Slice lo hi => (i, OItems (sub l (dflt lo 0) (dflt hi n)))
  | Getitem k => (i, match nth_error l (Z.to_nat k) with
                     | Some x => OItem x
                     | None => OExc IndexError
                     end)
  | Startswith p => (i, OBool (is_prefix p (skipn (Z.to_nat i) l)))
  | Endswith p => (i, OBool (is_suffix p (firstn (Z.to_nat i) l)))
  | ForwardUntil k =>
    let run := take_until (pred k) (skipn (Z.to_nat i) l) in (i + zlen run, OItems run)
  | NumForwardUntil k =>
    let run := take_until (pred k) (skipn (Z.to_nat i) l) in (i, OInt (zlen run))
  | Position => (i, OInt i)
  end.

Fixpoint run_ref (l : list Z) (i : Z) (ops : list op) : list (out * Z) :=
  match ops with
  | [] => []
  | o :: r => let (i', x) := ref_step l i o in (x, i') :: run_ref l i' r
  end.

(* The property's side conditions, as a boolean guard on (length, index, op):
   moves stay within 0..len; peeks, ranges, slices and b[k] do not address
   before index 0.  (endswith needs no condition: when the pattern is longer
   than the consumed prefix the code's negative slice bound still yields a
   string too short to match.) *)
Definition nonneg (o : option Z) : bool :=
  match o with Some x => 0 <=? x | None => true end.

Definition guard (n i : Z) (o : op) : bool :=
  match o with
  | Next | Position | ForwardUntil _ | NumForwardUntil _ | Startswith _ | Endswith _ => true
  | HasNext k => 0 <=? i + k - 1
  | Peek j => 0 <=? i + j
  | PeekR a b => (0 <=? i + a) && (0 <=? i + b)
  | Forward j => (0 <=? i + j) && (i + j <=? n)
  | Backward j => (0 <=? i - j) && (i - j <=? n)
  | Slice lo hi => nonneg lo && nonneg hi
  | Getitem k => 0 <=? k
  end.

Fixpoint guards_ok (l : list Z) (i : Z) (ops : list op) : bool :=
  match ops with
  | [] => true
  | o :: r => guard (zlen l) i o && guards_ok l (fst (ref_step l i o)) r
  end.

(* operations that must not move the cursor *)
Definition non_moving (o : op) : bool :=
  match o with
  | HasNext _ | Peek _ | PeekR _ _ | Slice _ _ | Getitem _ | Startswith _ | Endswith _
  | Position | NumForwardUntil _ => true
  | Next | Forward _ | Backward _ | ForwardUntil _ => false
  end.

(* ====================================================================== *)
(* List helpers                                                            *)
(* ====================================================================== *)

Lemma nth_error_firstn_lt {A} (l : list A) :
  forall q k, (k < q)%nat -> nth_error (firstn q l) k = nth_error l k.
Proof.
  induction l as [|x l IH]; intros q k H.
  - rewrite firstn_nil. reflexivity.
  - destruct q as [|q]; [lia|]. destruct k as [|k]; simpl; [reflexivity|].
    apply IH. lia.
Qed.

Lemma skipn_nth {A} (l : list A) :
  forall k x, nth_error l k = Some x -> skipn k l = x :: skipn (S k) l.
Proof.
  induction l as [|y l IH]; intros [|k] x H; simpl in H; try discriminate.
  - injection H as ->. reflexivity.
  - rewrite skipn_cons. rewrite (IH k x H). reflexivity.
Qed.

Lemma firstn_add_split {A} (l : list A) :
  forall a b, firstn (a + b) l = firstn a l ++ firstn b (skipn a l).
Proof.
  induction l as [|y l IH]; intros [|a] b; simpl.
  - rewrite firstn_nil. reflexivity.
  - rewrite firstn_nil. reflexivity.
  - reflexivity.
  - rewrite IH. reflexivity.
Qed.

Lemma clamp_slice {A} (l : list A) (a b : nat) :
  firstn (Nat.min b (length l) - Nat.min a (length l)) (skipn (Nat.min a (length l)) l) =
  firstn (b - a) (skipn a l).
Proof.
  destruct (le_lt_dec a (length l)) as [Ha|Ha].
  - rewrite (Nat.min_l a) by exact Ha.
    destruct (le_lt_dec b (length l)) as [Hb|Hb].
    + rewrite (Nat.min_l b) by exact Hb. reflexivity.
    + rewrite (Nat.min_r b) by lia.
      rewrite !firstn_all2; [reflexivity| |]; rewrite skipn_length; lia.
  - rewrite (Nat.min_r a) by lia. rewrite skipn_all.
    rewrite (skipn_all2 l) by lia. rewrite !firstn_nil. reflexivity.
Qed.

(* ---------------------------------------------------------------- prefix *)

Lemma is_prefix_firstn p : forall l, is_prefix p (firstn (length p) l) = is_prefix p l.
Proof.
  induction p as [|x p IH]; intros l; [reflexivity|].
  destruct l as [|y l]; simpl; [reflexivity|]. rewrite IH. reflexivity.
Qed.

Lemma is_prefix_app p : forall a b, (length p <= length a)%nat ->
  is_prefix p (a ++ b) = is_prefix p a.
Proof.
  induction p as [|x p IH]; intros a b H; [reflexivity|].
  destruct a as [|y a]; simpl in *; [lia|]. rewrite IH by lia. reflexivity.
Qed.

Lemma list_eqb_refl l : list_eqb l l = true.
Proof. induction l as [|x l IH]; simpl; [reflexivity|]. rewrite Z.eqb_refl, IH. reflexivity. Qed.

Lemma take_until_prefix p : forall l,
  take_until p l = firstn (length (take_until p l)) l.
Proof.
  induction l as [|x l IH]; simpl; [reflexivity|].
  destruct (p x); simpl; [reflexivity|]. rewrite <- IH. reflexivity.
Qed.

(* ---------------------------------------------------- Python list access *)

Lemma py_index_nonneg l k : 0 <= k ->
  py_index l k = match nth_error l (Z.to_nat k) with
                 | Some x => OItem x
                 | None => OExc IndexError
                 end.
Proof.
  intros Hk. unfold py_index. cbv zeta.
  assert (E : (k <? 0) = false) by (apply Z.ltb_ge; lia).
  rewrite E. rewrite E. cbn [orb].
  destruct (Z.of_nat (length l) <=? k) eqn:E2; [|reflexivity].
  apply Z.leb_le in E2.
  assert (Hn : nth_error l (Z.to_nat k) = None) by (apply nth_error_None; lia).
  rewrite Hn. reflexivity.
Qed.

Lemma norm_idx_nonneg m o d : nonneg o = true -> 0 <= d <= m ->
  norm_idx m o d = Z.min (dflt o d) m /\ 0 <= dflt o d.
Proof.
  intros Ho Hd. destruct o as [x|]; simpl in *.
  - apply Z.leb_le in Ho.
    assert (E : (x <? 0) = false) by (apply Z.ltb_ge; lia). rewrite E. split; [reflexivity|lia].
  - split; lia.
Qed.

Lemma py_slice_nonneg l lo hi : nonneg lo = true -> nonneg hi = true ->
  py_slice l lo hi = sub l (dflt lo 0) (dflt hi (zlen l)).
Proof.
  intros Hlo Hhi. unfold py_slice, sub, zlen. cbv zeta.
  set (m := Z.of_nat (length l)).
  destruct (norm_idx_nonneg m lo 0 Hlo) as [Ea Ha]; [lia|].
  destruct (norm_idx_nonneg m hi m Hhi) as [Eb Hb]; [lia|].
  rewrite Ea, Eb. rewrite <- (clamp_slice l (Z.to_nat (dflt lo 0)) (Z.to_nat (dflt hi m))).
  f_equal; [|f_equal]; lia.
Qed.

Lemma sub_firstn l (q : nat) a b : 0 <= a -> 0 <= b ->
  (Z.to_nat b <= q)%nat \/ (length l <= q)%nat ->
  sub (firstn q l) a b = sub l a b.
Proof.
  intros Ha Hb [H|H]; unfold sub.
  - rewrite skipn_firstn_comm, firstn_firstn. f_equal. lia.
  - replace (firstn q l) with l by (symmetry; apply firstn_all2; exact H). reflexivity.
Qed.

(* ====================================================================== *)
(* Invariants                                                              *)
(* ====================================================================== *)

(* what every method needs *)
Definition Pre (s : state) : Prop :=
  0 <= cursor s /\ (mat s <= length (items s))%nat.

(* what holds as long as moves stay in range: the cursor never overtakes the
   materialised prefix (every move materialises up to the new cursor) *)
Definition Inv (s : state) : Prop :=
  0 <= cursor s <= Z.of_nat (mat s) /\ (mat s <= length (items s))%nat.

Lemma Inv_Pre s : Inv s -> Pre s.
Proof. unfold Inv, Pre. intros [H1 H2]. split; lia. Qed.

Lemma Inv_init l : Inv (init_state l).
Proof. unfold Inv, init_state. simpl. lia. Qed.

(* ====================================================================== *)
(* __next__                                                                *)
(* ====================================================================== *)

Lemma next_raw_lt L q i : 0 <= i < Z.of_nat q -> (q <= length L)%nat ->
  exists x, nth_error L (Z.to_nat i) = Some x /\
            next_raw (mkS L q i) = (mkS L q (i + 1), OItem x).
Proof.
  intros Hi Hq. unfold next_raw. cbn [items mat cursor]. cbv zeta.
  assert (E : (i <? Z.of_nat q) = true) by (apply Z.ltb_lt; lia). rewrite E.
  unfold queue. cbn [items mat]. rewrite py_index_nonneg by lia.
  rewrite nth_error_firstn_lt by lia.
  destruct (nth_error L (Z.to_nat i)) as [x|] eqn:En.
  - exists x. split; reflexivity.
  - apply nth_error_None in En. lia.
Qed.

Lemma next_raw_mid L q i : Z.of_nat q <= i -> i + 1 <= Z.of_nat (length L) ->
  exists x, nth_error L (Z.to_nat i) = Some x /\
            next_raw (mkS L q i) = (mkS L (Z.to_nat (i + 1)) (i + 1), OItem x).
Proof.
  intros Hi Hn. unfold next_raw. cbn [items mat cursor]. cbv zeta.
  assert (E : (i <? Z.of_nat q) = false) by (apply Z.ltb_ge; lia). rewrite E.
  assert (E2 : (i + 1 <=? Z.of_nat (length L)) = true) by (apply Z.leb_le; lia). rewrite E2.
  unfold queue. cbn [items mat]. rewrite py_index_nonneg by lia.
  rewrite nth_error_firstn_lt by lia.
  destruct (nth_error L (Z.to_nat i)) as [x|] eqn:En.
  - exists x. split; reflexivity.
  - apply nth_error_None in En. lia.
Qed.

Lemma next_raw_end L q i : Z.of_nat q <= i -> Z.of_nat (length L) <= i ->
  next_raw (mkS L q i) = (mkS L (length L) i, OExc StopIteration).
Proof.
  intros Hi Hn. unfold next_raw. cbn [items mat cursor]. cbv zeta.
  assert (E : (i <? Z.of_nat q) = false) by (apply Z.ltb_ge; lia). rewrite E.
  assert (E2 : (i + 1 <=? Z.of_nat (length L)) = false) by (apply Z.leb_gt; lia). rewrite E2.
  reflexivity.
Qed.

(* ====================================================================== *)
(* The loop of __getitem__ in closed form                                  *)
(* ====================================================================== *)

(* len(queue) after `while j is None or self.__i <= j: next(self)` *)
Definition mat_after (n q : nat) (i : Z) (J : option Z) : nat :=
  match J with
  | None => n
  | Some j => if i <=? j
              then (if j <? Z.of_nat n then Nat.max q (Z.to_nat (j + 1)) else n)
              else q
  end.

Lemma mat_after_bounds n q i J : (q <= n)%nat ->
  (q <= mat_after n q i J <= n)%nat.
Proof.
  intros Hq. unfold mat_after. destruct J as [j|]; [|lia].
  destruct (i <=? j); [|lia].
  destruct (Z.ltb_spec j (Z.of_nat n)); lia.
Qed.

Lemma mat_after_step_lt n q i J : bound_ok i J = true -> 0 <= i < Z.of_nat q -> (q <= n)%nat ->
  mat_after n q (i + 1) J = mat_after n q i J.
Proof.
  intros HB Hi Hq. unfold mat_after, bound_ok in *. destruct J as [j|]; [|reflexivity].
  rewrite HB. apply Z.leb_le in HB.
  destruct (Z.leb_spec (i + 1) j); [reflexivity|].
  destruct (Z.ltb_spec j (Z.of_nat n)); lia.
Qed.

Lemma mat_after_step_mid n q i J : bound_ok i J = true -> 0 <= i -> Z.of_nat q <= i ->
  i + 1 <= Z.of_nat n ->
  mat_after n (Z.to_nat (i + 1)) (i + 1) J = mat_after n q i J.
Proof.
  intros HB Hi0 Hi Hn. unfold mat_after, bound_ok in *. destruct J as [j|]; [|reflexivity].
  rewrite HB. apply Z.leb_le in HB.
  destruct (Z.leb_spec (i + 1) j); destruct (Z.ltb_spec j (Z.of_nat n)); lia.
Qed.

Lemma mat_after_end n q i J : bound_ok i J = true -> Z.of_nat n <= i ->
  mat_after n q i J = n.
Proof.
  intros HB Hn. unfold mat_after, bound_ok in *. destruct J as [j|]; [|reflexivity].
  rewrite HB. apply Z.leb_le in HB.
  destruct (Z.ltb_spec j (Z.of_nat n)); lia.
Qed.

Lemma mat_after_stop n q i J : bound_ok i J = false -> mat_after n q i J = q.
Proof.
  intros HB. unfold mat_after, bound_ok in *. destruct J as [j|]; [|discriminate].
  rewrite HB. reflexivity.
Qed.

Lemma advance_S f s J :
  advance (S f) s J =
  if bound_ok (cursor s) J then
    match next_raw s with
    | (s', OExc StopIteration) => (s', None)
    | (s', OExc e) => (s', Some e)
    | (s', _) => advance f s' J
    end
  else (s, None).
Proof. reflexivity. Qed.

Lemma advance_stop f s J : bound_ok (cursor s) J = false -> advance f s J = (s, None).
Proof. intros H. destruct f; unfold advance; rewrite H; reflexivity. Qed.

(* the loop restores nothing itself; it ends with the queue extended to
   mat_after and no exception *)
Lemma advance_spec J : forall fuel L q i,
  0 <= i -> (q <= length L)%nat -> (1 <= fuel)%nat ->
  Z.of_nat (length L) + 1 <= Z.of_nat fuel + i ->
  exists c, advance fuel (mkS L q i) J =
            (mkS L (mat_after (length L) q i J) c, None).
Proof.
  induction fuel as [|f IH]; intros L q i Hi Hq Hf Hfuel; [lia|].
  destruct (bound_ok i J) eqn:HB.
  - rewrite advance_S. cbn [cursor]. rewrite HB.
    destruct (Z_lt_le_dec i (Z.of_nat q)) as [Hlt|Hge].
    + destruct (next_raw_lt L q i) as [x [_ Hn]]; [lia|exact Hq|]. rewrite Hn.
      destruct (IH L q (i + 1)) as [c Hc]; try lia.
      exists c. rewrite (mat_after_step_lt (length L) q i J HB) in Hc by lia. exact Hc.
    + destruct (Z_le_gt_dec (i + 1) (Z.of_nat (length L))) as [Hin|Hout].
      * destruct (next_raw_mid L q i Hge Hin) as [x [_ Hn]]. rewrite Hn.
        destruct (IH L (Z.to_nat (i + 1)) (i + 1)) as [c Hc]; try lia.
        exists c. rewrite (mat_after_step_mid (length L) q i J HB) in Hc by lia. exact Hc.
      * rewrite next_raw_end by lia. exists i.
        rewrite (mat_after_end _ _ _ _ HB) by lia. reflexivity.
  - exists i. rewrite advance_stop by exact HB.
    rewrite (mat_after_stop _ _ _ _ HB). reflexivity.
Qed.

(* ====================================================================== *)
(* __getitem__                                                             *)
(* ====================================================================== *)

Lemma getitem_int_gen L q i k : 0 <= i -> (q <= length L)%nat ->
  getitem_int (mkS L q i) k =
  (mkS L (mat_after (length L) q i (Some k)) i,
   py_index (firstn (mat_after (length L) q i (Some k)) L) k).
Proof.
  intros Hi Hq. unfold getitem_int, advance_fuel. cbn [items mat cursor].
  destruct (advance_spec (Some k) (S (length L) + Z.to_nat (- i)) L q i) as [c Hc]; try lia.
  rewrite Hc. reflexivity.
Qed.

Lemma getitem_slice_gen L q i lo hi : 0 <= i -> (q <= length L)%nat ->
  getitem_slice (mkS L q i) lo hi =
  (mkS L (mat_after (length L) q i hi) i,
   OItems (py_slice (firstn (mat_after (length L) q i hi) L) lo hi)).
Proof.
  intros Hi Hq. unfold getitem_slice, advance_fuel. cbn [items mat cursor].
  destruct (advance_spec hi (S (length L) + Z.to_nat (- i)) L q i) as [c Hc]; try lia.
  rewrite Hc. reflexivity.
Qed.

(* b[k], k >= 0: the element of the underlying list *)
Lemma getitem_int_spec L q i k : 0 <= i -> (q <= length L)%nat -> 0 <= k ->
  (k < i -> k < Z.of_nat q) ->
  getitem_int (mkS L q i) k =
  (mkS L (mat_after (length L) q i (Some k)) i,
   match nth_error L (Z.to_nat k) with Some x => OItem x | None => OExc IndexError end).
Proof.
  intros Hi Hq Hk Hback. rewrite getitem_int_gen by assumption. f_equal.
  rewrite py_index_nonneg by exact Hk.
  set (q' := mat_after (length L) q i (Some k)).
  pose proof (mat_after_bounds (length L) q i (Some k) Hq) as Hb. fold q' in Hb.
  destruct (Z_lt_le_dec k (Z.of_nat (length L))) as [Hin|Hout].
  - assert (Hq' : k < Z.of_nat q').
    { unfold q', mat_after. destruct (Z.leb_spec i k).
      - destruct (Z.ltb_spec k (Z.of_nat (length L))); lia.
      - lia. }
    rewrite nth_error_firstn_lt by lia. reflexivity.
  - assert (H1 : nth_error (firstn q' L) (Z.to_nat k) = None).
    { apply nth_error_None. rewrite firstn_length. lia. }
    assert (H2 : nth_error L (Z.to_nat k) = None) by (apply nth_error_None; lia).
    rewrite H1, H2. reflexivity.
Qed.

(* b[lo:hi], bounds >= 0 or None: the slice of the underlying list *)
Lemma getitem_slice_spec L q i lo hi : 0 <= i -> (q <= length L)%nat ->
  nonneg lo = true -> nonneg hi = true ->
  (forall h, hi = Some h -> h < i -> h <= Z.of_nat q) ->
  getitem_slice (mkS L q i) lo hi =
  (mkS L (mat_after (length L) q i hi) i, OItems (sub L (dflt lo 0) (dflt hi (zlen L)))).
Proof.
  intros Hi Hq Hlo Hhi Hback. rewrite getitem_slice_gen by assumption. f_equal. f_equal.
  set (q' := mat_after (length L) q i hi).
  pose proof (mat_after_bounds (length L) q i hi Hq) as Hb. fold q' in Hb.
  destruct hi as [h|].
  - rewrite py_slice_nonneg by assumption. cbn [dflt].
    simpl in Hhi. apply Z.leb_le in Hhi.
    destruct (norm_idx_nonneg 0 lo 0 Hlo) as [_ Hlo0]; [lia|].
    apply sub_firstn; [exact Hlo0|exact Hhi|].
    unfold q', mat_after. destruct (Z.leb_spec i h).
    + destruct (Z.ltb_spec h (Z.of_nat (length L))); [left|right]; lia.
    + left. specialize (Hback h eq_refl). lia.
  - assert (Hq' : q' = length L) by reflexivity.
    rewrite Hq', firstn_all. rewrite py_slice_nonneg by assumption. reflexivity.
Qed.

(* ====================================================================== *)
(* One lemma per operation                                                 *)
(* ====================================================================== *)

Definition refines (s : state) (o : op) : Prop :=
  exists s', step s o = (s', snd (ref_step (items s) (cursor s) o)) /\
             Inv s' /\ items s' = items s /\
             cursor s' = fst (ref_step (items s) (cursor s) o).

Lemma Inv_mk L q q' i : (q <= q' <= length L)%nat -> 0 <= i <= Z.of_nat q ->
  Inv (mkS L q' i).
Proof. unfold Inv. cbn [items mat cursor]. lia. Qed.

(* ---- next *)
Lemma next_refines s : Inv s -> refines s Next.
Proof.
  destruct s as [L q i]. unfold Inv, refines. cbn [items mat cursor step ref_step].
  intros [Hi Hq].
  destruct (Z_lt_le_dec i (Z.of_nat q)) as [Hlt|Hge].
  - destruct (next_raw_lt L q i) as [x [Hx Hn]]; [lia|exact Hq|].
    rewrite Hn, Hx. eexists. split; [reflexivity|].
    split; [unfold Inv; cbn [items mat cursor]; lia|split; reflexivity].
  - destruct (Z_le_gt_dec (i + 1) (Z.of_nat (length L))) as [Hin|Hend].
    { destruct (next_raw_mid L q i Hge Hin) as [x [Hx Hn]].
      rewrite Hn, Hx. eexists. split; [reflexivity|].
      split; [unfold Inv; cbn [items mat cursor]; lia|split; reflexivity]. }
    rewrite next_raw_end by lia.
    assert (Hx : nth_error L (Z.to_nat i) = None) by (apply nth_error_None; lia).
    rewrite Hx. eexists. split; [reflexivity|].
    split; [unfold Inv; cbn [items mat cursor]; lia|split; reflexivity].
Qed.

(* ---- peek(j) *)
Lemma peek_int_spec L q i j : 0 <= i <= Z.of_nat q -> (q <= length L)%nat -> 0 <= i + j ->
  peek_int (mkS L q i) j =
  (mkS L (mat_after (length L) q i (Some (i + j))) i,
   match nth_error L (Z.to_nat (i + j)) with Some x => OItem x | None => ONone end).
Proof.
  intros Hi Hq Hj. unfold peek_int. cbn [cursor].
  rewrite getitem_int_spec by lia.
  destruct (nth_error L (Z.to_nat (i + j))); reflexivity.
Qed.

Lemma peek_refines s j : Inv s -> 0 <= cursor s + j -> refines s (Peek j).
Proof.
  destruct s as [L q i]. unfold Inv, refines. cbn [items mat cursor step ref_step].
  intros [Hi Hq] Hj. rewrite peek_int_spec by lia.
  eexists. split; [reflexivity|]. split; [|split; reflexivity].
  pose proof (mat_after_bounds (length L) q i (Some (i + j)) Hq).
  eapply Inv_mk; [eassumption|lia].
Qed.

(* ---- hasNext(k) *)
Lemma has_next_spec L q i k : 0 <= i <= Z.of_nat q -> (q <= length L)%nat -> 0 <= i + k - 1 ->
  has_next (mkS L q i) k =
  (mkS L (mat_after (length L) q i (Some (i + (k - 1)))) i, OBool (i + k - 1 <? zlen L)).
Proof.
  intros Hi Hq Hk. unfold has_next. rewrite peek_int_spec by lia. unfold zlen.
  destruct (nth_error L (Z.to_nat (i + (k - 1)))) as [x|] eqn:En.
  - assert (Hlt : (Z.to_nat (i + (k - 1)) < length L)%nat) by (apply nth_error_Some; congruence).
    assert (E : (i + k - 1 <? Z.of_nat (length L)) = true) by (apply Z.ltb_lt; lia).
    rewrite E. reflexivity.
  - apply nth_error_None in En.
    assert (E : (i + k - 1 <? Z.of_nat (length L)) = false) by (apply Z.ltb_ge; lia).
    rewrite E. reflexivity.
Qed.

Lemma has_next_refines s k : Inv s -> 0 <= cursor s + k - 1 -> refines s (HasNext k).
Proof.
  destruct s as [L q i]. unfold Inv, refines. cbn [items mat cursor step ref_step].
  intros [Hi Hq] Hk. rewrite has_next_spec by lia.
  eexists. split; [reflexivity|]. split; [|split; reflexivity].
  pose proof (mat_after_bounds (length L) q i (Some (i + (k - 1))) Hq).
  eapply Inv_mk; [eassumption|lia].
Qed.

(* ---- peek((a, b)) *)
Lemma peek_range_spec L q i a b : 0 <= i <= Z.of_nat q -> (q <= length L)%nat ->
  0 <= i + a -> 0 <= i + b ->
  peek_range (mkS L q i) a b =
  (mkS L (mat_after (length L) q i (Some (i + b))) i, OItems (sub L (i + a) (i + b))).
Proof.
  intros Hi Hq Ha Hb. unfold peek_range. cbn [cursor].
  rewrite getitem_slice_spec;
    [reflexivity | lia | lia | cbn [nonneg]; apply Z.leb_le; lia | cbn [nonneg]; apply Z.leb_le; lia
     | intros h Hh Hlt; injection Hh as <-; lia].
Qed.

Lemma peek_range_refines s a b : Inv s -> 0 <= cursor s + a -> 0 <= cursor s + b ->
  refines s (PeekR a b).
Proof.
  destruct s as [L q i]. unfold Inv, refines. cbn [items mat cursor step ref_step].
  intros [Hi Hq] Ha Hb. rewrite peek_range_spec by lia.
  eexists. split; [reflexivity|]. split; [|split; reflexivity].
  pose proof (mat_after_bounds (length L) q i (Some (i + b)) Hq).
  eapply Inv_mk; [eassumption|lia].
Qed.

(* ---- b[lo:hi] and b[k] *)
Lemma slice_refines s lo hi : Inv s -> nonneg lo = true -> nonneg hi = true ->
  refines s (Slice lo hi).
Proof.
  destruct s as [L q i]. unfold Inv, refines. cbn [items mat cursor step ref_step].
  intros [Hi Hq] Hlo Hhi.
  rewrite getitem_slice_spec;
    [ | lia | exact Hq | exact Hlo | exact Hhi | intros h _ Hlt; lia].
  eexists. split; [reflexivity|]. split; [|split; reflexivity].
  pose proof (mat_after_bounds (length L) q i hi Hq).
  eapply Inv_mk; [eassumption|lia].
Qed.

Lemma getitem_refines s k : Inv s -> 0 <= k -> refines s (Getitem k).
Proof.
  destruct s as [L q i]. unfold Inv, refines. cbn [items mat cursor step ref_step].
  intros [Hi Hq] Hk. rewrite getitem_int_spec by lia.
  eexists. split; [reflexivity|]. split; [|split; reflexivity].
  pose proof (mat_after_bounds (length L) q i (Some k) Hq).
  eapply Inv_mk; [eassumption|lia].
Qed.

(* ---- forward / backward *)
Lemma forward_pos_spec L q i j : 0 <= i -> (q <= length L)%nat -> 0 <= j ->
  forward_pos (mkS L q i) j =
  (mkS L (mat_after (length L) q (i + j) (Some (i + j))) (i + j), OItems (sub L i (i + j))).
Proof.
  intros Hi Hq Hj. unfold forward_pos, set_cursor. cbn [items mat cursor].
  replace (i + j - j) with i by lia.
  rewrite getitem_slice_spec;
    [reflexivity | lia | lia | cbn [nonneg]; apply Z.leb_le; lia | cbn [nonneg]; apply Z.leb_le; lia
     | intros h Hh Hlt; injection Hh as <-; lia].
Qed.

Lemma backward_pos_spec L q i j : 0 <= i <= Z.of_nat q -> (q <= length L)%nat -> 0 <= j ->
  0 <= i - j ->
  backward_pos (mkS L q i) j =
  (mkS L (mat_after (length L) q (i - j) (Some i)) (i - j), OItems (sub L (i - j) i)).
Proof.
  intros Hi Hq Hj Hij. unfold backward_pos, set_cursor. cbn [items mat cursor].
  assert (E : (i - j <? 0) = false) by (apply Z.ltb_ge; lia). rewrite E.
  replace (i - j + j) with i by lia.
  rewrite getitem_slice_spec;
    [reflexivity | lia | lia | cbn [nonneg]; apply Z.leb_le; lia | cbn [nonneg]; apply Z.leb_le; lia
     | intros h Hh Hlt; injection Hh as <-; lia].
Qed.

Lemma Inv_after_forward L q c : (q <= length L)%nat -> 0 <= c <= Z.of_nat (length L) ->
  Inv (mkS L (mat_after (length L) q c (Some c)) c).
Proof.
  intros Hq Hc. pose proof (mat_after_bounds (length L) q c (Some c) Hq) as Hb.
  unfold Inv. cbn [items mat cursor]. split; [|lia]. split; [lia|].
  unfold mat_after in *. rewrite Z.leb_refl in *.
  destruct (Z.ltb_spec c (Z.of_nat (length L))); lia.
Qed.

Lemma move_refines L q i d : 0 <= i <= Z.of_nat q -> (q <= length L)%nat ->
  0 <= i + d <= Z.of_nat (length L) ->
  exists s', (if d <? 0 then backward_pos (mkS L q i) (- d) else forward_pos (mkS L q i) d) =
             (s', OItems (sub L (Z.min i (i + d)) (Z.max i (i + d)))) /\
             Inv s' /\ items s' = L /\ cursor s' = i + d.
Proof.
  intros Hi Hq Hd. destruct (Z.ltb_spec d 0) as [Hneg|Hpos].
  - rewrite backward_pos_spec by lia.
    rewrite Z.min_r, Z.max_l by lia. replace (i - - d) with (i + d) by lia.
    eexists. split; [reflexivity|]. split; [|split; reflexivity].
    pose proof (mat_after_bounds (length L) q (i + d) (Some i) Hq).
    eapply Inv_mk; [eassumption|lia].
  - rewrite forward_pos_spec by lia.
    rewrite Z.min_l, Z.max_r by lia.
    eexists. split; [reflexivity|]. split; [|split; reflexivity].
    apply Inv_after_forward; lia.
Qed.

Lemma forward_refines s j : Inv s -> 0 <= cursor s + j <= zlen (items s) ->
  refines s (Forward j).
Proof.
  destruct s as [L q i]. unfold Inv, refines, zlen. cbn [items mat cursor step ref_step].
  intros [Hi Hq] Hj. unfold forward.
  destruct (move_refines L q i j) as [s' [Hs' H]]; try lia.
  exists s'. cbn [fst snd]. split; [exact Hs'|exact H].
Qed.

Lemma backward_refines s j : Inv s -> 0 <= cursor s - j <= zlen (items s) ->
  refines s (Backward j).
Proof.
  destruct s as [L q i]. unfold Inv, refines, zlen. cbn [items mat cursor step ref_step].
  intros [Hi Hq] Hj. unfold backward.
  destruct (move_refines L q i (- j)) as [s' [Hs' H]]; try lia.
  replace (i + - j) with (i - j) in * by lia.
  replace (- - j) with j in Hs' by lia.
  exists s'. cbn [fst snd]. split; [|exact H].
  rewrite <- Hs'. destruct (Z.ltb_spec j 0); destruct (Z.ltb_spec (- j) 0); try lia; try reflexivity.
  (* j = 0: forward_pos 0 and backward_pos 0 coincide *)
  assert (j = 0) by lia. subst j. change (- 0) with 0.
  rewrite forward_pos_spec, backward_pos_spec by lia.
  replace (i + 0) with i by lia. replace (i - 0) with i by lia. reflexivity.
Qed.

(* ---- startswith / endswith *)
Lemma sub_len L i m : 0 <= i -> sub L i (i + Z.of_nat m) = firstn m (skipn (Z.to_nat i) L).
Proof. intros Hi. unfold sub. f_equal. lia. Qed.

Lemma startswith_refines s p : Inv s -> refines s (Startswith p).
Proof.
  destruct s as [L q i]. unfold Inv, refines. cbn [items mat cursor step ref_step].
  intros [Hi Hq]. unfold starts_with. rewrite peek_range_spec by lia.
  replace (i + 0) with i by lia. rewrite sub_len by lia. rewrite is_prefix_firstn.
  eexists. split; [reflexivity|]. split; [|split; reflexivity].
  pose proof (mat_after_bounds (length L) q i (Some (i + Z.of_nat (length p))) Hq).
  eapply Inv_mk; [eassumption|lia].
Qed.

Lemma is_suffix_window p L (i : nat) : (length p <= i <= length L)%nat ->
  is_suffix p (firstn (length p) (skipn (i - length p) L)) = is_suffix p (firstn i L).
Proof.
  intros H. unfold is_suffix.
  replace i with ((i - length p) + length p)%nat at 2 by lia.
  rewrite firstn_add_split, rev_app_distr.
  rewrite is_prefix_app; [reflexivity|].
  rewrite !rev_length, firstn_length, skipn_length. lia.
Qed.

Lemma endswith_refines s p : Inv s -> zlen p <= cursor s -> refines s (Endswith p).
Proof.
  destruct s as [L q i]. unfold Inv, refines, zlen. cbn [items mat cursor step ref_step].
  intros [Hi Hq] Hp. unfold ends_with. rewrite peek_range_spec by lia.
  replace (i + 0) with i by lia.
  replace (sub L (i + - Z.of_nat (length p)) i)
    with (firstn (length p) (skipn (Z.to_nat i - length p) L)).
  2:{ unfold sub. f_equal; [lia|f_equal; lia]. }
  rewrite is_suffix_window by lia.
  eexists. split; [reflexivity|]. split; [|split; reflexivity].
  pose proof (mat_after_bounds (length L) q i (Some i) Hq).
  eapply Inv_mk; [eassumption|lia].
Qed.

Lemma is_prefix_short p : forall l, (length l < length p)%nat -> is_prefix p l = false.
Proof.
  induction p as [|x p IH]; intros l H; simpl in H; [lia|].
  destruct l as [|y l]; simpl; [reflexivity|]. simpl in H. rewrite IH by lia.
  apply andb_false_r.
Qed.

Lemma is_suffix_short p l : (length l < length p)%nat -> is_suffix p l = false.
Proof. intros H. unfold is_suffix. apply is_prefix_short. rewrite !rev_length. exact H. Qed.

Lemma norm_idx_ge0 m o d : 0 <= m -> 0 <= d -> 0 <= norm_idx m o d.
Proof.
  intros Hm Hd. unfold norm_idx. destruct o as [k|]; [|exact Hd].
  destruct (Z.ltb_spec k 0); lia.
Qed.

Lemma py_slice_length_le l lo h : 0 <= h ->
  (length (py_slice l lo (Some h)) <= Z.to_nat h)%nat.
Proof.
  intros Hh. unfold py_slice. cbv zeta. rewrite firstn_length.
  pose proof (norm_idx_ge0 (Z.of_nat (length l)) lo 0) as Ha.
  assert (Hb : norm_idx (Z.of_nat (length l)) (Some h) (Z.of_nat (length l)) <= h).
  { unfold norm_idx. assert (E : (h <? 0) = false) by (apply Z.ltb_ge; lia). rewrite E. lia. }
  lia.
Qed.

(* the pattern is longer than the consumed prefix: the slice bound -len(p) is
   negative and addresses the materialised queue from its end, but whatever
   comes back is shorter than the pattern *)
Lemma endswith_short_refines s p : Inv s -> cursor s < zlen p -> refines s (Endswith p).
Proof.
  destruct s as [L q i]. unfold Inv, refines, zlen. cbn [items mat cursor step ref_step].
  intros [Hi Hq] Hp. unfold ends_with, peek_range. cbn [cursor].
  rewrite getitem_slice_gen by lia. cbn [catch_index].
  replace (i + 0) with i by lia.
  rewrite is_suffix_short.
  2:{ pose proof (py_slice_length_le
                    (firstn (mat_after (length L) q i (Some i)) L)
                    (Some (i + - Z.of_nat (length p))) i). lia. }
  rewrite is_suffix_short by (rewrite firstn_length; lia).
  eexists. split; [reflexivity|]. split; [|split; reflexivity].
  pose proof (mat_after_bounds (length L) q i (Some i) Hq).
  eapply Inv_mk; [eassumption|lia].
Qed.

Lemma endswith_any_refines s p : Inv s -> refines s (Endswith p).
Proof.
  intros HI. destruct (Z_le_gt_dec (zlen p) (cursor s)) as [H|H].
  - apply endswith_refines; assumption.
  - apply endswith_short_refines; [exact HI|lia].
Qed.

(* ---- the scanning loop *)
Lemma scan_S f s k acc cnt :
  scan (S f) s k acc cnt =
  match has_next s 1 with
  | (s1, OExc e) => (s1, Some e, acc, cnt)
  | (s1, OBool false) => (s1, None, acc, cnt)
  | (s1, _) =>
    match peek_int s1 0 with
    | (s2, OExc e) => (s2, Some e, acc, cnt)
    | (s2, pk) =>
      if cond_holds k pk then (s2, None, acc, cnt)
      else match forward s2 1 with
           | (s3, OItems l) => scan f s3 k (acc ++ l) (cnt + 1)
           | (s3, OExc e) => (s3, Some e, acc, cnt)
           | (s3, _) => (s3, Some AttributeError, acc, cnt)
           end
    end
  end.
Proof. reflexivity. Qed.

Lemma scan_spec k : forall fuel L q i acc cnt,
  0 <= i <= Z.of_nat q -> (q <= length L)%nat ->
  Z.of_nat (length L) - i + 1 <= Z.of_nat fuel ->
  let run := take_until (pred k) (skipn (Z.to_nat i) L) in
  exists q', scan fuel (mkS L q i) k acc cnt =
             (mkS L q' (i + zlen run), None, acc ++ run, cnt + zlen run) /\
             (q <= q' <= length L)%nat /\ i + zlen run <= Z.of_nat q'.
Proof.
  induction fuel as [|f IH]; intros L q i acc cnt Hi Hq Hfuel; [lia|].
  cbv zeta. rewrite scan_S. rewrite has_next_spec by lia.
  set (q1 := mat_after (length L) q i (Some (i + (1 - 1)))).
  pose proof (mat_after_bounds (length L) q i (Some (i + (1 - 1))) Hq) as Hb1. fold q1 in Hb1.
  unfold zlen at 1.
  destruct (Z.ltb_spec (i + 1 - 1) (Z.of_nat (length L))) as [Hin|Hout].
  - (* an item is available *)
    rewrite peek_int_spec by lia.
    set (q2 := mat_after (length L) q1 i (Some (i + 0))).
    pose proof (mat_after_bounds (length L) q1 i (Some (i + 0))) as Hb2. fold q2 in Hb2.
    replace (i + 0) with i by lia.
    destruct (nth_error L (Z.to_nat i)) as [x|] eqn:Ex.
    2:{ apply nth_error_None in Ex. lia. }
    rewrite (skipn_nth _ _ _ Ex). cbn [take_until cond_holds].
    destruct (pred k x) eqn:Ep.
    + (* condition met: stop *)
      exists q2. unfold zlen. cbn [length]. rewrite app_nil_r, !Z.add_0_r.
      split; [reflexivity|]. lia.
    + (* condition not met: forward(1) and loop *)
      unfold forward. cbn [Z.ltb Z.compare]. rewrite forward_pos_spec by lia.
      set (q3 := mat_after (length L) q2 (i + 1) (Some (i + 1))).
      pose proof (mat_after_bounds (length L) q2 (i + 1) (Some (i + 1))) as Hb3. fold q3 in Hb3.
      assert (Hinv3 : Inv (mkS L q3 (i + 1))) by (apply Inv_after_forward; lia).
      destruct Hinv3 as [Hc3 Hq3]. cbn [items mat cursor] in Hc3, Hq3.
      replace (sub L i (i + 1)) with [x].
      2:{ replace (i + 1) with (i + Z.of_nat 1) by lia. rewrite sub_len by lia.
          rewrite (skipn_nth _ _ _ Ex). reflexivity. }
      destruct (IH L q3 (i + 1) (acc ++ [x]) (cnt + 1)) as [q' [Hs [Hq' Hc']]]; try lia.
      replace (Z.to_nat (i + 1)) with (S (Z.to_nat i)) in Hs, Hc' by lia.
      exists q'. rewrite Hs. unfold zlen in *. cbn [length].
      rewrite <- app_assoc. cbn [app].
      assert (E : forall a X, a + 1 + Z.of_nat X = a + Z.of_nat (S X)) by (intros; lia).
      rewrite !E. split; [reflexivity|]. rewrite E in Hc'. lia.
  - (* exhausted *)
    assert (Hi' : Z.to_nat i = length L) by lia.
    rewrite Hi', skipn_all. cbn [take_until]. exists q1.
    unfold zlen. cbn [length]. rewrite app_nil_r, !Z.add_0_r.
    split; [reflexivity|]. lia.
Qed.

Lemma forward_until_refines s k : Inv s -> refines s (ForwardUntil k).
Proof.
  destruct s as [L q i]. unfold Inv, refines. cbn [items mat cursor step ref_step].
  intros [Hi Hq]. unfold forward_until. rewrite peek_int_spec by lia.
  set (q0 := mat_after (length L) q i (Some (i + 0))).
  pose proof (mat_after_bounds (length L) q i (Some (i + 0)) Hq) as Hb0. fold q0 in Hb0.
  assert (Hscan : exists q', scan (scan_fuel (mkS L q0 i)) (mkS L q0 i) k [] 0 =
     (mkS L q' (i + zlen (take_until (pred k) (skipn (Z.to_nat i) L))), None,
      [] ++ take_until (pred k) (skipn (Z.to_nat i) L),
      0 + zlen (take_until (pred k) (skipn (Z.to_nat i) L))) /\
     (q0 <= q' <= length L)%nat /\
     i + zlen (take_until (pred k) (skipn (Z.to_nat i) L)) <= Z.of_nat q').
  { apply scan_spec; unfold scan_fuel; cbn [items]; lia. }
  destruct Hscan as [q' [Hs [Hq' Hc']]].
  destruct (nth_error L (Z.to_nat (i + 0))); rewrite Hs; cbn [app fst snd];
    (eexists; split; [reflexivity|]; split; [|split; reflexivity];
     unfold Inv; cbn [items mat cursor]; unfold zlen in *; lia).
Qed.

Lemma num_forward_until_refines s k : Inv s -> refines s (NumForwardUntil k).
Proof.
  destruct s as [L q i]. unfold Inv, refines. cbn [items mat cursor step ref_step].
  intros [Hi Hq]. unfold num_forward_until.
  set (run := take_until (pred k) (skipn (Z.to_nat i) L)).
  assert (Hscan : exists q', scan (scan_fuel (mkS L q i)) (mkS L q i) k [] 0 =
     (mkS L q' (i + zlen run), None, [] ++ run, 0 + zlen run) /\
     (q <= q' <= length L)%nat /\ i + zlen run <= Z.of_nat q').
  { apply scan_spec; unfold scan_fuel; cbn [items]; lia. }
  destruct Hscan as [q' [Hs [Hq' Hc']]]. rewrite Hs. cbn [app]. rewrite Z.add_0_l.
  assert (Hrun0 : 0 <= zlen run) by (unfold zlen; lia).
  unfold backward.
  assert (E : (zlen run <? 0) = false) by (apply Z.ltb_ge; lia). rewrite E.
  rewrite backward_pos_spec by lia.
  replace (i + zlen run - zlen run) with i by lia.
  replace (sub L i (i + zlen run)) with run.
  2:{ unfold zlen. rewrite sub_len by lia. apply take_until_prefix. }
  rewrite list_eqb_refl.
  eexists. split; [reflexivity|]. split; [|split; reflexivity].
  pose proof (mat_after_bounds (length L) q' i (Some (i + zlen run))).
  unfold Inv. cbn [items mat cursor]. lia.
Qed.

Lemma position_refines s : Inv s -> refines s Position.
Proof.
  intros H. unfold refines. cbn [step ref_step fst snd].
  exists s. repeat split; try reflexivity; apply H.
Qed.

(* ---- all operations *)
Lemma step_refines s o : Inv s -> guard (zlen (items s)) (cursor s) o = true -> refines s o.
Proof.
  intros HI HG. destruct o; cbn [guard] in HG.
  - apply next_refines; exact HI.
  - apply has_next_refines; [exact HI|]. apply Z.leb_le in HG. exact HG.
  - apply peek_refines; [exact HI|]. apply Z.leb_le in HG. exact HG.
  - apply andb_prop in HG. destruct HG as [G1 G2]. apply Z.leb_le in G1, G2.
    apply peek_range_refines; assumption.
  - apply andb_prop in HG. destruct HG as [G1 G2]. apply Z.leb_le in G1, G2.
    apply forward_refines; [exact HI|]. split; assumption.
  - apply andb_prop in HG. destruct HG as [G1 G2]. apply Z.leb_le in G1, G2.
    apply backward_refines; [exact HI|]. split; assumption.
  - apply andb_prop in HG. destruct HG as [G1 G2]. apply slice_refines; assumption.
  - apply getitem_refines; [exact HI|]. apply Z.leb_le in HG. exact HG.
  - apply startswith_refines; exact HI.
  - apply endswith_any_refines; exact HI.
  - apply forward_until_refines; exact HI.
  - apply num_forward_until_refines; exact HI.
  - apply position_refines; exact HI.
Qed.

(* ====================================================================== *)
(* The refinement theorem                                                  *)
(* ====================================================================== *)

Lemma run_refines : forall ops s, Inv s ->
  guards_ok (items s) (cursor s) ops = true ->
  run_ops s ops = run_ref (items s) (cursor s) ops.
Proof.
  induction ops as [|o r IH]; intros s HI HG; [reflexivity|].
  cbn [guards_ok] in HG. apply andb_prop in HG. destruct HG as [G1 G2].
  destruct (step_refines s o HI G1) as [s' [Hs [HI' [Hit Hc]]]].
  cbn [run_ops run_ref]. rewrite Hs.
  destruct (ref_step (items s) (cursor s) o) as [i' x] eqn:Er. cbn [fst snd] in *.
  rewrite Hc. f_equal. rewrite <- Hit, <- Hc. apply IH; [exact HI'|].
  rewrite Hit, Hc. exact G2.
Qed.

Theorem C20_refines_proof : forall (l : list Z) (ops : list op),
  guards_ok l 0 ops = true ->
  run_ops (init_state l) ops = run_ref l 0 ops.
Proof.
  intros l ops HG. apply (run_refines ops (init_state l)); [apply Inv_init|exact HG].
Qed.

(* the invariant is maintained along guarded runs (used by the corollaries) *)
Fixpoint state_after (s : state) (ops : list op) : state :=
  match ops with
  | [] => s
  | o :: r => state_after (fst (step s o)) r
  end.

Lemma Inv_after : forall ops s, Inv s -> guards_ok (items s) (cursor s) ops = true ->
  Inv (state_after s ops) /\ items (state_after s ops) = items s.
Proof.
  induction ops as [|o r IH]; intros s HI HG; [split; [exact HI|reflexivity]|].
  cbn [guards_ok] in HG. apply andb_prop in HG. destruct HG as [G1 G2].
  destruct (step_refines s o HI G1) as [s' [Hs [HI' [Hit Hc]]]].
  cbn [state_after]. rewrite Hs. cbn [fst].
  destruct (IH s' HI') as [H1 H2]; [rewrite Hit, Hc; exact G2|].
  split; [exact H1|congruence].
Qed.

(* ====================================================================== *)
(* Corollaries                                                             *)
(* ====================================================================== *)

(* 1. Peeking, slicing and the tests never move the cursor -- for ALL argument
   values, in or out of contract, in every state with a non-negative cursor. *)
Lemma fst_catch_index r : fst (catch_index r) = fst r.
Proof. destruct r as [s [x| |l|b|z|[| | | |]]]; reflexivity. Qed.

Lemma getitem_int_cursor s k : Pre s ->
  cursor (fst (getitem_int s k)) = cursor s /\ Pre (fst (getitem_int s k)) /\
  items (fst (getitem_int s k)) = items s.
Proof.
  destruct s as [L q i]. unfold Pre. cbn [items mat cursor]. intros [Hi Hq].
  rewrite getitem_int_gen by assumption. cbn [fst items mat cursor].
  pose proof (mat_after_bounds (length L) q i (Some k) Hq). repeat split; lia.
Qed.

Lemma getitem_slice_cursor s lo hi : Pre s ->
  cursor (fst (getitem_slice s lo hi)) = cursor s /\ Pre (fst (getitem_slice s lo hi)) /\
  items (fst (getitem_slice s lo hi)) = items s.
Proof.
  destruct s as [L q i]. unfold Pre. cbn [items mat cursor]. intros [Hi Hq].
  rewrite getitem_slice_gen by assumption. cbn [fst items mat cursor].
  pose proof (mat_after_bounds (length L) q i hi Hq). repeat split; lia.
Qed.

Lemma fst_has_next s n : fst (has_next s n) = fst (peek_int s (n - 1)).
Proof.
  unfold has_next. destruct (peek_int s (n - 1)) as [s' [x| |l|b|z|e]]; reflexivity.
Qed.

Lemma fst_starts_with s p :
  fst (starts_with s p) = fst (peek_range s 0 (Z.of_nat (length p))).
Proof.
  unfold starts_with.
  destruct (peek_range s 0 (Z.of_nat (length p))) as [s' [x| |l|b|z|e]]; reflexivity.
Qed.

Lemma fst_ends_with s p :
  fst (ends_with s p) = fst (peek_range s (- Z.of_nat (length p)) 0).
Proof.
  unfold ends_with.
  destruct (peek_range s (- Z.of_nat (length p)) 0) as [s' [x| |l|b|z|e]]; reflexivity.
Qed.

Theorem lookups_keep_cursor_proof : forall s o,
  0 <= cursor s -> (mat s <= length (items s))%nat ->
  match o with
  | HasNext _ | Peek _ | PeekR _ _ | Slice _ _ | Getitem _ | Startswith _ | Endswith _
  | Position => True
  | _ => False
  end ->
  cursor (fst (step s o)) = cursor s /\ items (fst (step s o)) = items s.
Proof.
  intros s o H0 Hm Ho. assert (HP : Pre s) by (split; assumption).
  destruct o; try contradiction; cbn [step].
  - rewrite fst_has_next. unfold peek_int. rewrite fst_catch_index.
    destruct (getitem_int_cursor s (cursor s + (n - 1)) HP) as [A [_ B]]. split; assumption.
  - unfold peek_int. rewrite fst_catch_index.
    destruct (getitem_int_cursor s (cursor s + j) HP) as [A [_ B]]. split; assumption.
  - unfold peek_range. rewrite fst_catch_index.
    destruct (getitem_slice_cursor s (Some (cursor s + a)) (Some (cursor s + b)) HP) as [A [_ B]].
    split; assumption.
  - destruct (getitem_slice_cursor s lo hi HP) as [A [_ B]]. split; assumption.
  - destruct (getitem_int_cursor s k HP) as [A [_ B]]. split; assumption.
  - rewrite fst_starts_with. unfold peek_range. rewrite fst_catch_index.
    destruct (getitem_slice_cursor s (Some (cursor s + 0))
                (Some (cursor s + Z.of_nat (length p))) HP) as [A [_ B]].
    split; assumption.
  - rewrite fst_ends_with. unfold peek_range. rewrite fst_catch_index.
    destruct (getitem_slice_cursor s (Some (cursor s + - Z.of_nat (length p)))
                (Some (cursor s + 0)) HP) as [A [_ B]].
    split; assumption.
  - split; reflexivity.
Qed.

(* along a guarded run from the initial state, every non-moving operation
   (num_forward_until included) leaves the cursor where it was *)
Theorem non_moving_keep_cursor_proof : forall l ops o,
  guards_ok l 0 (ops ++ [o]) = true -> non_moving o = true ->
  cursor (fst (step (state_after (init_state l) ops) o)) =
  cursor (state_after (init_state l) ops).
Proof.
  intros l ops o HG Hnm.
  assert (Hgen : forall ops s, Inv s -> guards_ok (items s) (cursor s) (ops ++ [o]) = true ->
            cursor (fst (step (state_after s ops) o)) = cursor (state_after s ops)).
  { clear ops HG. induction ops as [|o' r IH]; intros s HI HG.
    - cbn [app guards_ok state_after] in *. apply andb_prop in HG. destruct HG as [G1 _].
      destruct (step_refines s o HI G1) as [s' [Hs [_ [_ Hc]]]]. rewrite Hs. cbn [fst].
      rewrite Hc. destruct o; try discriminate; cbn [ref_step fst]; try reflexivity.
    - cbn [app guards_ok state_after] in *. apply andb_prop in HG. destruct HG as [G1 G2].
      destruct (step_refines s o' HI G1) as [s' [Hs [HI' [Hit Hc]]]]. rewrite Hs. cbn [fst].
      apply IH; [exact HI'|]. rewrite Hit, Hc. exact G2. }
  apply (Hgen ops (init_state l)); [apply Inv_init|exact HG].
Qed.

(* 2. Reading or peeking past the end reports exhaustion and nothing else: in
   a reachable state, a guarded operation raises only StopIteration (next at
   the end) or the documented IndexError of b[k] for k >= len; peek past the
   end gives None; ranges and moves give the (shorter) slice of the list. *)
Theorem no_other_failure_proof : forall s o,
  Inv s -> guard (zlen (items s)) (cursor s) o = true ->
  match snd (step s o) with
  | OExc e => (o = Next /\ e = StopIteration /\ cursor s = zlen (items s)) \/
              (exists k, o = Getitem k /\ e = IndexError /\ zlen (items s) <= k)
  | _ => True
  end.
Proof.
  intros s o HI HG. destruct (step_refines s o HI HG) as [s' [Hs _]]. rewrite Hs. cbn [snd].
  destruct HI as [Hi Hq]. unfold zlen.
  destruct o; cbn [ref_step snd guard] in *; try exact I.
  - destruct (nth_error (items s) (Z.to_nat (cursor s))) eqn:E; cbn [snd]; [exact I|].
    apply nth_error_None in E. left. repeat split; lia.
  - destruct (nth_error (items s) (Z.to_nat (cursor s + j))); exact I.
  - destruct (nth_error (items s) (Z.to_nat k)) eqn:E; [exact I|].
    apply nth_error_None in E. apply Z.leb_le in HG. right. exists k. repeat split; lia.
Qed.

Theorem next_at_end_proof : forall s, Inv s -> cursor s = zlen (items s) ->
  snd (step s Next) = OExc StopIteration /\ cursor (fst (step s Next)) = cursor s.
Proof.
  intros s HI Hc. destruct (next_refines s HI) as [s' [Hs [_ [_ Hcur]]]]. rewrite Hs.
  cbn [fst snd ref_step] in *.
  assert (E : nth_error (items s) (Z.to_nat (cursor s)) = None).
  { apply nth_error_None. unfold zlen in Hc. lia. }
  rewrite E in *. split; [reflexivity|exact Hcur].
Qed.

Theorem peek_past_end_proof : forall s j, Inv s -> zlen (items s) <= cursor s + j ->
  snd (step s (Peek j)) = ONone /\ cursor (fst (step s (Peek j))) = cursor s.
Proof.
  intros s j HI Hj. destruct HI as [Hi Hq].
  destruct (peek_refines s j) as [s' [Hs [_ [_ Hcur]]]]; [split; assumption|unfold zlen in Hj; lia|].
  rewrite Hs. cbn [fst snd ref_step] in *.
  assert (E : nth_error (items s) (Z.to_nat (cursor s + j)) = None).
  { apply nth_error_None. unfold zlen in Hj. lia. }
  rewrite E. split; [reflexivity|exact Hcur].
Qed.

Lemma sub_length l a b : (length (sub l a b) <= Z.to_nat b - Z.to_nat a)%nat.
Proof. unfold sub. rewrite firstn_length. lia. Qed.

Theorem range_past_end_shorter_proof : forall s a b, Inv s ->
  0 <= cursor s + a -> 0 <= cursor s + b ->
  exists l, snd (step s (PeekR a b)) = OItems l /\
            l = sub (items s) (cursor s + a) (cursor s + b) /\
            (length l <= Z.to_nat (cursor s + b) - Z.to_nat (cursor s + a))%nat.
Proof.
  intros s a b HI Ha Hb. destruct (peek_range_refines s a b HI Ha Hb) as [s' [Hs _]].
  rewrite Hs. cbn [snd ref_step]. eexists. split; [reflexivity|]. split; [reflexivity|].
  apply sub_length.
Qed.

(* over whole guarded runs from the initial state: the only exceptions ever
   reported are StopIteration (by next) and IndexError (by b[k]) *)
Definition benign (x : out) (o : op) : Prop :=
  match x with
  | OExc e => (o = Next /\ e = StopIteration) \/ (exists k, o = Getitem k /\ e = IndexError)
  | _ => True
  end.

Lemma ref_step_benign l i o : benign (snd (ref_step l i o)) o.
Proof.
  destruct o; cbn [ref_step snd benign]; try exact I.
  - destruct (nth_error l (Z.to_nat i)); cbn [snd]; [exact I|]. left. split; reflexivity.
  - destruct (nth_error l (Z.to_nat (i + j))); exact I.
  - destruct (nth_error l (Z.to_nat k)); [exact I|]. right. exists k. split; reflexivity.
Qed.

Fixpoint all_benign (outs : list (out * Z)) (ops : list op) : Prop :=
  match outs, ops with
  | (x, _) :: r, o :: ops' => benign x o /\ all_benign r ops'
  | [], [] => True
  | _, _ => False
  end.

Theorem run_no_other_failure_proof : forall l ops,
  guards_ok l 0 ops = true -> all_benign (run_ops (init_state l) ops) ops.
Proof.
  intros l ops HG. rewrite (C20_refines_proof l ops HG). clear HG.
  generalize 0 as i. induction ops as [|o r IH]; intros i; [exact I|].
  cbn [run_ref]. pose proof (ref_step_benign l i o) as Hb.
  destruct (ref_step l i o) as [i' x]. cbn [snd] in Hb. cbn [all_benign].
  split; [exact Hb|apply IH].
Qed.

(* ====================================================================== *)
(* Examples (hypotheses are satisfiable; the guard is needed)              *)
(* ====================================================================== *)

Definition ex_items : list Z := [97; 98; 99; 98].
Definition ex_ops : list op :=
  [Peek 1; Next; Forward 2; PeekR (-2) 1; HasNext 2; Backward 1; Slice (Some 1) None;
   NumForwardUntil 98; ForwardUntil 98; Endswith [98; 99]; Startswith [98]; Forward (-1);
   Getitem 7; Endswith [97; 98; 99; 98; 97; 98]; Next; Next; Next; Peek 0; Position].

Example ex_guards : guards_ok ex_items 0 ex_ops = true.
Proof. vm_compute. reflexivity. Qed.

Example ex_run : run_ops (init_state ex_items) ex_ops = run_ref ex_items 0 ex_ops.
Proof. vm_compute. reflexivity. Qed.

Example ex_run_value :
  run_ops (init_state ex_items) [Peek 1; Next; Forward 2; Next; Next] =
  [(OItem 98, 0); (OItem 97, 1); (OItems [98; 99], 3); (OItem 98, 4); (OExc StopIteration, 4)].
Proof. vm_compute. reflexivity. Qed.

(* Outside the guard the code (and the model) is NOT a list cursor: Python's
   negative indexing reaches the last MATERIALISED item. *)
Example guard_needed_peek :
  run_ops (init_state ex_items) [Peek 1; Peek (-1)] = [(OItem 98, 0); (OItem 98, 0)] /\
  guards_ok ex_items 0 [Peek 1; Peek (-1)] = false.
Proof. vm_compute. split; reflexivity. Qed.

Example guard_needed_backward :
  run_ops (init_state ex_items) [Backward 1] = [(OExc AssertionError, 0)] /\
  guards_ok ex_items 0 [Backward 1] = false.
Proof. vm_compute. split; reflexivity. Qed.

Example guard_needed_slice :
  run_ops (init_state ex_items) [Next; Slice None (Some (-1))] = [(OItem 97, 1); (OItems [], 1)] /\
  guards_ok ex_items 0 [Next; Slice None (Some (-1))] = false.
Proof. vm_compute. split; reflexivity. Qed.

(* non-vacuity of the corollaries' hypotheses *)
Example ex_inv_reached :
  let s := state_after (init_state ex_items) [Peek 1; Next; Forward 3] in
  Inv s /\ cursor s = zlen (items s) /\ s = mkS ex_items 4 4.
Proof.
  cbv zeta. set (s := state_after _ _).
  assert (E : s = mkS ex_items 4 4) by (vm_compute; reflexivity).
  rewrite E. unfold Inv, zlen. cbn. repeat split; try lia.
Qed.

Example ex_past_end :
  let s := state_after (init_state ex_items) [Peek 1; Next; Forward 3] in
  step s Next = (s, OExc StopIteration) /\
  step s (Peek 0) = (s, ONone) /\ step s (Peek 5) = (s, ONone) /\
  step s (PeekR (-1) 3) = (s, OItems [98]) /\
  step s (HasNext 1) = (s, OBool false) /\
  guard (zlen (items s)) (cursor s) (PeekR (-1) 3) = true.
Proof. vm_compute. repeat split; reflexivity. Qed.

Example ex_lookup_out_of_contract_keeps_cursor :
  let s := state_after (init_state ex_items) [Peek 1; Next] in
  map (fun o => cursor (fst (step s o)))
      [Peek (-5); PeekR (-3) (-1); Slice (Some (-2)) (Some (-1)); Getitem (-9); HasNext (-4);
       Endswith [1; 2; 3]; Startswith [97]] = [1; 1; 1; 1; 1; 1; 1].
Proof. vm_compute. reflexivity. Qed.

(* the generic driver entry on the line
   `X buf 3 97 98 99  2 -1  2 0  2 -1  0  4 1  5 1  11 99`
   (peek(-1), peek(0), peek(-1), next, forward(1), backward(1), num_forward_until(== 'c'));
   the extracted driver and the real Buffer('abc') print the same integers *)
Example run_buf_example :
  run_buf [3; 97; 98; 99; 2; -1; 2; 0; 2; -1; 0; 4; 1; 5; 1; 11; 99] =
  [2; 0; 0;  1; 97; 0; 1;  1; 97; 0; 1;  1; 97; 1; 1;  3; 1; 98; 2; 3;  3; 1; 98; 1; 3;  5; 1; 1; 3].
Proof. vm_compute. reflexivity. Qed.
