(* The glue generated from the Python source (Model/GlueGen.v, written by
   harness/gen_glue.py on every run), interpreted by Model/GlueDSL.v over the
   translated token rules (TokGen.v) and the translated reader (ReadGen.v),
   denotes the hand-written model:

     next_token / tokenize   = Tokenizer.run_rules / tokenize_loop / tokenize
     categorize              = Chars.categorize
     read / TexSoup          = Reader.parse (+ the chunk flattening of C17)

   on every input, never leaving the modelled fragment and never running out
   of loop fuel.  The proofs compute with the generated terms, so they are
   re-checked against whatever the translator produced; a change that alters
   the generated term's behaviour makes the lemma named after the function
   fail. *)
From Coq Require Import List NArith ZArith Bool Lia.
From TexModel Require Import Base Tables Chars Tokenizer Tree Reader GlueDSL GlueGen.
From TexModel Require TokDSL TokGen ReadDSL ReadGen.
From TexProofs Require Import TokProofs.
From TexProofs Require TokGenProofs ReadGenEquiv.
Import ListNotations.

Local Arguments call_rule : simpl never.
Local Arguments advance : simpl never.
Local Arguments fresh_text : simpl never.
Local Arguments while_loop : simpl never.
Local Arguments for_loop : simpl never.
Local Arguments Z.add : simpl never.
Local Arguments Z.eqb : simpl never.
Local Arguments Z.of_nat : simpl never.

(* ================================================================ the driver *)

(* `prev` as a value *)
Definition prev_val (p : option token) : value :=
  match p with Some t => token_val t | None => VNone end.

Lemma prev_of_val p : prev_of (prev_val p) = Some p.
Proof. destruct p as [[s z k]|]; reflexivity. Qed.

Definition cx_of (b : bstate) (p : option token) : rctx :=
  mkctx (b_idx b) p (b_pp b) (b_pc b) Tables.punctuation_commands.

Definition head_ok (b : bstate) : Prop := TokGenProofs.head_pos (b_idx b) (b_rest b).

(* a call of a translated rule is the hand-written rule *)
Lemma call_rule_ok r p b : head_ok b ->
  call_rule gen_env r p b =
  match run_rule r (cx_of b p) (b_rest b) with
  | RNone => RV VNone b
  | RTok t rest' => RV (token_val t) (advance b rest')
  | RSkip rest' => RV VNone (advance b rest')
  | RErr => RX XAttributeError
  end.
Proof.
  intro H. unfold call_rule. cbn [g_rules gen_env].
  pose proof (TokGenProofs.gen_rule_ok r (cx_of b p) (b_rest b) H TokGenProofs.table_no_empty_point)
    as E.
  unfold cx_of in *. rewrite E. reflexivity.
Qed.

(* what consuming k >= 1 characters does to the buffer *)
Lemma advance_app b body rest' : b_rest b = body ++ rest' -> body <> [] ->
  advance b rest' =
  mkb rest' (b_idx b + Z.of_nat (length body))
      (last_consumed (body ++ rest') rest') (last_consumed (body ++ rest') rest').
Proof.
  intros E Hne. unfold advance. rewrite E, length_app_minus.
  destruct body as [|c body]; [congruence|]. reflexivity.
Qed.

Lemma advance_same b : advance b (b_rest b) = b.
Proof. unfold advance. rewrite Nat.sub_diag. reflexivity. Qed.

(* ---- the body of `for name, f in tokenizers` *)

Definition nt_parts : option (gx * gs * list var * gx * gblock) :=
  match gen_next_token_body with
  | GCons (SWhile c (GCons s1 (GCons (SFor xs it fb) GNil))) GNil => Some (c, s1, xs, it, fb)
  | _ => None
  end.

Definition nt_cond : gx := match nt_parts with Some (c, _, _, _, _) => c | None => GNone end.
Definition nt_first : gs := match nt_parts with Some (_, s, _, _, _) => s | None => SPass end.
Definition nt_vars : list var := match nt_parts with Some (_, _, xs, _, _) => xs | None => [] end.
Definition nt_iter : gx := match nt_parts with Some (_, _, _, it, _) => it | None => GNone end.
Definition nt_forbody : gblock := match nt_parts with Some (_, _, _, _, fb) => fb | None => GNil end.

Lemma gen_next_token_shape :
  gen_next_token_body
  = GCons (SWhile nt_cond (GCons nt_first (GCons (SFor nt_vars nt_iter nt_forbody) GNil))) GNil.
Proof. reflexivity. Qed.

Lemma exec_block_cons env callf s b fr :
  exec_block env callf (GCons s b) fr =
  match exec_stmt env callf s fr with
  | XNormal fr' => exec_block env callf b fr'
  | x => x
  end.
Proof. reflexivity. Qed.

Lemma exec_block_nil env callf fr : exec_block env callf GNil fr = XNormal fr.
Proof. reflexivity. Qed.

Section Driver.
Variable callf : fname -> list value -> option bstate -> cres.

(* frames of next_token: prev, start, name, f, current_token *)
Definition nt_frame (p : option token) (start : option value) (o2 o3 o4 : option value)
           (b : bstate) : frame :=
  mkfr [Some (prev_val p); start; o2; o3; o4] (Some b) [].

Lemma is_iter_prev p : is_iter (prev_val p) = false.
Proof. destruct p; reflexivity. Qed.

(* one rule: returns its token, or breaks when it moved the cursor, or falls
   through to the next rule *)
Lemma forbody_step r p b o4 : head_ok b ->
  exec_block gen_env callf nt_forbody
    (nt_frame p (Some (VInt (b_idx b))) (Some (VRuleName r)) (Some (VRule r)) o4 b)
  = match run_rule r (cx_of b p) (b_rest b) with
    | RNone => XNormal (nt_frame p (Some (VInt (b_idx b))) (Some (VRuleName r)) (Some (VRule r))
                                 (Some VNone) b)
    | RTok t rest' =>
      XReturn (token_val t)
              (nt_frame p (Some (VInt (b_idx b))) (Some (VRuleName r)) (Some (VRule r))
                        (Some (token_val t)) (advance b rest'))
    | RSkip rest' =>
      (if Z.eqb (b_idx (advance b rest')) (b_idx b) then XNormal else XBreak)
        (nt_frame p (Some (VInt (b_idx b))) (Some (VRuleName r)) (Some (VRule r))
                  (Some VNone) (advance b rest'))
    | RErr => XExc XAttributeError
    end.
Proof.
  intro H. unfold nt_forbody, nt_frame. cbn [nt_parts gen_next_token_body blk].
  cbn [exec_block exec_stmt do_call_rule eval get_loc nth_error fr_loc fr_text ebind].
  rewrite prev_of_val, (call_rule_ok r p b H).
  destruct p as [[ps pz pk]|];
    destruct (run_rule r _ (b_rest b)) as [|t rest'|rest'|]; cbn; try reflexivity;
    try (rewrite Z.eqb_refl; reflexivity);
    try (destruct t as [ts tz tk]; reflexivity);
    destruct (Z.eqb (b_idx (advance b rest')) (b_idx b)); reflexivity.
Qed.

Lemma for_loop_cons xs body v items fr :
  for_loop xs body (v :: items) fr =
  match bind_targets fr xs v with
  | None => XUnsup
  | Some fr1 =>
    match body fr1 with
    | XNormal fr' => for_loop xs body items fr'
    | XContinue fr' => for_loop xs body items fr'
    | XBreak fr' => XNormal fr'
    | x => x
    end
  end.
Proof. reflexivity. Qed.

Definition rule_items (rs : list rule_id) : list value :=
  map (fun r => VTuple [VRuleName r; VRule r]) rs.

(* a rule that skipped has moved the cursor *)
Lemma skip_moves r p b rest' : run_rule r (cx_of b p) (b_rest b) = RSkip rest' ->
  Z.eqb (b_idx (advance b rest')) (b_idx b) = false.
Proof.
  intro E. pose proof (sound_run_rule r (cx_of b p) (b_rest b)) as S. rewrite E in S.
  destruct S as (sk & Hne & Hsplit & _).
  rewrite (advance_app b sk rest' Hsplit Hne). cbn [b_idx].
  apply Z.eqb_neq. destruct sk; [congruence|]. cbn [length]. lia.
Qed.

(* the for loop is Tokenizer.run_rules *)
Lemma for_rules p b : head_ok b -> forall rs o2 o3 o4,
  let run := for_loop nt_vars (exec_block gen_env callf nt_forbody) (rule_items rs)
                      (nt_frame p (Some (VInt (b_idx b))) o2 o3 o4 b) in
  match run_rules rs (cx_of b p) (b_rest b) with
  | RNone => exists o2' o3' o4', run = XNormal (nt_frame p (Some (VInt (b_idx b))) o2' o3' o4' b)
  | RTok t rest' =>
    exists o2' o3' o4',
      run = XReturn (token_val t) (nt_frame p (Some (VInt (b_idx b))) o2' o3' o4' (advance b rest'))
  | RSkip rest' =>
    exists o2' o3' o4',
      run = XNormal (nt_frame p (Some (VInt (b_idx b))) o2' o3' o4' (advance b rest'))
  | RErr => run = XExc XAttributeError
  end.
Proof.
  intros H rs. induction rs as [|r rs IH]; intros o2 o3 o4; cbv zeta.
  - cbn [run_rules rule_items map]. exists o2, o3, o4. reflexivity.
  - cbn [run_rules rule_items map]. rewrite for_loop_cons.
    change (bind_targets (nt_frame p (Some (VInt (b_idx b))) o2 o3 o4 b) nt_vars
                         (VTuple [VRuleName r; VRule r]))
      with (Some (nt_frame p (Some (VInt (b_idx b))) (Some (VRuleName r)) (Some (VRule r)) o4 b)).
    cbv beta iota. rewrite (forbody_step r p b o4 H).
    destruct (run_rule r (cx_of b p) (b_rest b)) as [|t rest'|rest'|] eqn:E.
    + apply IH.
    + eexists _, _, _. reflexivity.
    + rewrite (skip_moves r p b rest' E). eexists _, _, _. reflexivity.
    + reflexivity.
Qed.

(* ---- the while loop: restart after ignored characters *)

(* next_token in terms of the hand-written run_rules: n bounds the number of
   restarts *)
Inductive ntres := NRet (o : option token) (b : bstate) | NErr | NHang.

Fixpoint nt_h (n : nat) (b : bstate) (p : option token) {struct n} : ntres :=
  match b_rest b with
  | [] => NRet None b
  | _ :: _ =>
    match run_rules Tables.rule_order (cx_of b p) (b_rest b) with
    | RTok t rest' => NRet (Some t) (advance b rest')
    | RSkip rest' =>
      match n with
      | O => NHang
      | S n' => nt_h n' (advance b rest') p
      end
    | RNone => NHang
    | RErr => NErr
    end
  end.

Lemma while_S ev cons body f fr :
  while_loop ev cons body (S f) fr =
  match ev fr with
  | EV v =>
    match truthy v with
    | Some true =>
      match body (cons fr) with
      | XNormal fr' => while_loop ev cons body f fr'
      | XContinue fr' => while_loop ev cons body f fr'
      | XBreak fr' => XNormal fr'
      | x => x
      end
    | Some false => XNormal (cons fr)
    | None => XUnsup
    end
  | EX x => XExc x
  | EU => XUnsup
  end.
Proof. reflexivity. Qed.

Definition nt_whilebody : gblock :=
  GCons nt_first (GCons (SFor nt_vars nt_iter nt_forbody) GNil).

Lemma exec_for fr :
  exec_stmt gen_env callf (SFor nt_vars nt_iter nt_forbody) fr
  = for_loop nt_vars (exec_block gen_env callf nt_forbody) (rule_items Tables.rule_order) fr.
Proof. reflexivity. Qed.

Lemma consecutive_head b : consecutive (b_idx b) (b_rest b) -> head_ok b.
Proof. apply TokGenProofs.consecutive_head. Qed.

Definition cons_ok (b : bstate) : Prop := consecutive (b_idx b) (b_rest b).

(* consuming a non-empty prefix keeps the positions consecutive and shortens
   the buffer *)
Lemma advance_ok b body rest' : cons_ok b -> b_rest b = body ++ rest' -> body <> [] ->
  cons_ok (advance b rest') /\ b_rest (advance b rest') = rest'
  /\ (length rest' < length (b_rest b))%nat.
Proof.
  intros Hc E Hne. rewrite (advance_app b body rest' E Hne). unfold cons_ok in *. cbn [b_idx b_rest].
  rewrite E in Hc. apply consecutive_app in Hc. destruct Hc as [_ Hc].
  split; [exact Hc|]. split; [reflexivity|]. rewrite E. apply app_length_lt, Hne.
Qed.

Lemma nt_while p : forall n b o1 o2 o3 o4 fuel,
  (length (b_rest b) <= n)%nat -> (length (b_rest b) + 1 <= fuel)%nat -> cons_ok b ->
  let run := while_loop (fun fr => eval gen_env fr nt_cond) (fun fr => used fr nt_cond)
                        (exec_block gen_env callf nt_whilebody) fuel (nt_frame p o1 o2 o3 o4 b) in
  match nt_h n b p with
  | NRet None b' => exists o1' o2' o3' o4', run = XNormal (nt_frame p o1' o2' o3' o4' b')
  | NRet (Some t) b' =>
    exists o1' o2' o3' o4', run = XReturn (token_val t) (nt_frame p o1' o2' o3' o4' b')
  | NErr => run = XExc XAttributeError
  | NHang => True
  end.
Proof.
  induction n as [|n IH]; intros b o1 o2 o3 o4 fuel Hn Hf Hc; cbv zeta;
    (destruct fuel as [|f]; [lia|]); rewrite while_S;
    destruct (b_rest b) as [|c0 rest1] eqn:Er.
  - cbn [nt_h]. rewrite Er. unfold nt_frame, nt_cond. cbn. rewrite Er. cbn.
    exists o1, o2, o3, o4. reflexivity.
  - cbn [length] in Hn. lia.
  - cbn [nt_h]. rewrite Er. unfold nt_frame, nt_cond. cbn. rewrite Er. cbn.
    exists o1, o2, o3, o4. reflexivity.
  - cbn [nt_h]. rewrite Er.
    assert (Eg : eval gen_env (nt_frame p o1 o2 o3 o4 b) nt_cond = EV (VBool true)).
    { unfold nt_frame, nt_cond. cbn. rewrite Er. reflexivity. }
    rewrite Eg. cbn [truthy].
    change (used (nt_frame p o1 o2 o3 o4 b) nt_cond) with (nt_frame p o1 o2 o3 o4 b).
    unfold nt_whilebody. rewrite exec_block_cons.
    change (exec_stmt gen_env callf nt_first (nt_frame p o1 o2 o3 o4 b))
      with (XNormal (nt_frame p (Some (VInt (b_idx b))) o2 o3 o4 b)).
    cbv beta iota. rewrite exec_block_cons, exec_for.
    pose proof (for_rules p b (consecutive_head b Hc) Tables.rule_order o2 o3 o4) as F.
    cbv zeta in F.
    pose proof (run_rules_progress (cx_of b p) c0 rest1) as P. cbv zeta in P.
    rewrite <- Er in *.
    destruct (run_rules Tables.rule_order (cx_of b p) (b_rest b)) as [|t rest'|rest'|];
      try contradiction.
    + destruct F as (o2' & o3' & o4' & ->). eexists _, _, _, _. reflexivity.
    + destruct F as (o2' & o3' & o4' & ->). rewrite exec_block_nil.
      destruct P as (sk & Hne & Hsplit & _).
      destruct (advance_ok b sk rest' Hc Hsplit Hne) as (Hc' & Er' & Hlt).
      apply IH; [rewrite Er'; rewrite Er in *; cbn [length] in *; lia
                | rewrite Er'; rewrite Er in *; cbn [length] in *; lia | exact Hc'].
Qed.

End Driver.

(* ---- next_token as a function *)

Lemma call_next_token d p b : cons_ok b ->
  match nt_h (length (b_rest b)) b p with
  | NRet o b' => call gen_env (S d) F_next_token [prev_val p] (Some b) = CRet (prev_val o) (Some b')
  | NErr => call gen_env (S d) F_next_token [prev_val p] (Some b) = CExc XAttributeError
  | NHang => True
  end.
Proof.
  intro Hc.
  assert (E : call gen_env (S d) F_next_token [prev_val p] (Some b)
              = finish gen_next_token
                  (match while_loop (fun fr => eval gen_env fr nt_cond) (fun fr => used fr nt_cond)
                                    (exec_block gen_env (call gen_env d) nt_whilebody)
                                    (S (S (length (b_rest b)))) (nt_frame p None None None None b) with
                   | XNormal fr' => XNormal fr'
                   | x => x
                   end)) by reflexivity.
  rewrite E. clear E.
  pose proof (nt_while (call gen_env d) p (length (b_rest b)) b None None None None
                       (S (S (length (b_rest b)))) (le_n _) ltac:(lia) Hc) as W.
  cbv zeta in W.
  destruct (nt_h (length (b_rest b)) b p) as [[t|] b'| |]; [ | | | exact I].
  - destruct W as (o1 & o2 & o3 & o4 & ->). reflexivity.
  - destruct W as (o1 & o2 & o3 & o4 & ->). reflexivity.
  - rewrite W. reflexivity.
Qed.

(* on a buffer with consecutive positions next_token returns (registered rule
   order: every round makes progress) *)
Lemma nt_h_good p : forall n b, cons_ok b -> (length (b_rest b) <= n)%nat ->
  exists o b', nt_h n b p = NRet o b' /\ cons_ok b' /\
    match o with
    | Some _ => (length (b_rest b') < length (b_rest b))%nat
    | None => b_rest b' = []
    end.
Proof.
  induction n as [|n IH]; intros b Hc Hn; cbn [nt_h];
    destruct (b_rest b) as [|c0 rest1] eqn:Er;
    try (exists None, b; rewrite Er; auto; fail);
    try (cbn [length] in Hn; lia).
  pose proof (run_rules_progress (cx_of b p) c0 rest1) as P. cbv zeta in P.
  destruct (run_rules Tables.rule_order (cx_of b p) (c0 :: rest1)) as [|t rest'|rest'|];
    try contradiction.
  - destruct P as (body & Hne & Hsplit & _). rewrite <- Er in Hsplit.
    destruct (advance_ok b body rest' Hc Hsplit Hne) as (Hc' & Er' & Hlt).
    exists (Some t), (advance b rest'). rewrite Er', <- Er. auto.
  - destruct P as (sk & Hne & Hsplit & _). rewrite <- Er in Hsplit.
    destruct (advance_ok b sk rest' Hc Hsplit Hne) as (Hc' & Er' & Hlt).
    destruct (IH (advance b rest') Hc') as (o & b' & E & Hc'' & Ho).
    { rewrite Er'. rewrite Er in Hlt. cbn [length] in *. lia. }
    exists o, b'. split; [exact E|]. split; [exact Hc''|].
    destruct o; [|exact Ho]. rewrite Er' in Ho. rewrite <- Er. lia.
Qed.

(* ---- the hand-written tokenize_loop, unrolled along next_token *)

Definition TLf (f : nat) (b : bstate) (p : option token) : list token * tok_end :=
  tokenize_loop f Tables.punctuation_commands (b_idx b) (b_pp b) (b_pc b) p (b_rest b).
Definition TL (b : bstate) (p : option token) : list token * tok_end :=
  TLf (S (length (b_rest b))) b p.

Lemma TLf_step f b p c0 rest1 : b_rest b = c0 :: rest1 -> cons_ok b ->
  TLf (S f) b p =
  match run_rules Tables.rule_order (cx_of b p) (b_rest b) with
  | RTok t rest' => let (ts, e) := TLf f (advance b rest') (Some t) in (t :: ts, e)
  | RSkip rest' => TLf f (advance b rest') p
  | RNone => ([], TEndHang)
  | RErr => ([], TEndErr)
  end.
Proof.
  intros Er Hc. unfold TLf at 1. rewrite Er. cbn [tokenize_loop].
  pose proof (run_rules_progress (cx_of b p) c0 rest1) as P. cbv zeta in P.
  fold (cx_of b p). rewrite <- Er in *.
  destruct (run_rules Tables.rule_order (cx_of b p) (b_rest b)) as [|t rest'|rest'|];
    try contradiction.
  - destruct P as (body & Hne & Hsplit & _).
    rewrite (advance_app b body rest' Hsplit Hne). unfold TLf. cbn [b_idx b_pp b_pc b_rest].
    rewrite Hsplit, length_app_minus. reflexivity.
  - destruct P as (sk & Hne & Hsplit & _).
    rewrite (advance_app b sk rest' Hsplit Hne). unfold TLf. cbn [b_idx b_pp b_pc b_rest].
    rewrite Hsplit, length_app_minus. reflexivity.
Qed.

(* any fuel above the number of characters gives the same result *)
Lemma TLf_fuel : forall n b p f1 f2, (length (b_rest b) <= n)%nat ->
  (length (b_rest b) < f1)%nat -> (length (b_rest b) < f2)%nat -> cons_ok b ->
  TLf f1 b p = TLf f2 b p.
Proof.
  induction n as [|n IH]; intros b p f1 f2 Hn H1 H2 Hc;
    (destruct f1 as [|f1]; [lia|]); (destruct f2 as [|f2]; [lia|]);
    destruct (b_rest b) as [|c0 rest1] eqn:Er;
    try (unfold TLf; rewrite Er; reflexivity); try (cbn [length] in Hn; lia).
  rewrite (TLf_step f1 b p c0 rest1 Er Hc), (TLf_step f2 b p c0 rest1 Er Hc).
  pose proof (run_rules_progress (cx_of b p) c0 rest1) as P. cbv zeta in P. rewrite <- Er in P.
  destruct (run_rules Tables.rule_order (cx_of b p) (b_rest b)) as [|t rest'|rest'|];
    try contradiction.
  - destruct P as (body & Hne & Hsplit & _).
    destruct (advance_ok b body rest' Hc Hsplit Hne) as (Hc' & Er' & Hlt).
    rewrite (IH (advance b rest') (Some t) f1 f2); [reflexivity | | | | exact Hc'];
      rewrite Er'; rewrite Er in *; cbn [length] in *; lia.
  - destruct P as (sk & Hne & Hsplit & _).
    destruct (advance_ok b sk rest' Hc Hsplit Hne) as (Hc' & Er' & Hlt).
    apply IH; [ | | | exact Hc']; rewrite Er'; rewrite Er in *; cbn [length] in *; lia.
Qed.

Lemma TL_nt p : forall n b, cons_ok b -> (length (b_rest b) <= n)%nat ->
  TL b p =
  match nt_h n b p with
  | NRet None _ => ([], TEnd)
  | NRet (Some t) b' => let (ts, e) := TL b' (Some t) in (t :: ts, e)
  | NErr => ([], TEndErr)
  | NHang => ([], TEndHang)
  end.
Proof.
  induction n as [|n IH]; intros b Hc Hn; cbn [nt_h];
    destruct (b_rest b) as [|c0 rest1] eqn:Er;
    try (unfold TL, TLf; rewrite Er; reflexivity); try (cbn [length] in Hn; lia).
  unfold TL at 1. rewrite Er. cbn [length]. rewrite (TLf_step _ b p c0 rest1 Er Hc), Er.
  pose proof (run_rules_progress (cx_of b p) c0 rest1) as P. cbv zeta in P.
  destruct (run_rules Tables.rule_order (cx_of b p) (c0 :: rest1)) as [|t rest'|rest'|];
    try contradiction.
  - destruct P as (body & Hne & Hsplit & _). rewrite <- Er in Hsplit.
    destruct (advance_ok b body rest' Hc Hsplit Hne) as (Hc' & Er' & Hlt).
    unfold TL.
    rewrite (TLf_fuel (length rest1) (advance b rest') (Some t) (S (length rest1))
                      (S (length (b_rest (advance b rest'))))); [reflexivity | | | | exact Hc'];
      rewrite Er'; rewrite Er in *; cbn [length] in *; lia.
  - destruct P as (sk & Hne & Hsplit & _). rewrite <- Er in Hsplit.
    destruct (advance_ok b sk rest' Hc Hsplit Hne) as (Hc' & Er' & Hlt).
    rewrite <- (IH (advance b rest') Hc'); [| rewrite Er'; rewrite Er in *; cbn [length] in *; lia].
    unfold TL. apply (TLf_fuel (length rest1)); [ | | | exact Hc'];
      rewrite Er'; rewrite Er in *; cbn [length] in *; lia.
Qed.

(* ---- tokenize *)

(* Two shapes of the driver loop are known; the theorem about tokenize is
   proved for each, and `tokenize_shape` (below) checks which of them the
   translator produced.

   A:  current_token = next_token(text)
       while current_token is not None:
           assert current_token.category in TC
           yield current_token
           current_token = next_token(text, prev=current_token)

   B:  prev = None
       while True:
           current_token = next_token(text, prev=prev)
           if current_token is None:
               return
           assert current_token.category in TC
           yield current_token
           prev = current_token *)
Definition tokenize_A_body : gblock :=
  GlueDSL.blk [
    SCall [0] F_next_token true [GNone];
    SWhile (GIsNotNone (GVar 0))
      (GlueDSL.blk [
        SAssert (GCatInTC (GVar 0));
        SYield (GVar 0);
        SCall [0] F_next_token true [GVar 0]])].
Definition tokenize_A : fundef := mkfd true false true 0 [] 1 tokenize_A_body.

Definition tokenize_B_body : gblock :=
  GlueDSL.blk [
    SAssign 0 GNone;
    SWhile (GBool true)
      (GlueDSL.blk [
        SCall [1] F_next_token true [GVar 0];
        SIf (GIsNone (GVar 1)) (GlueDSL.blk [SReturn GNone]) (GlueDSL.blk []);
        SAssert (GCatInTC (GVar 1));
        SYield (GVar 1);
        SAssign 0 (GVar 1)])].
Definition tokenize_B : fundef := mkfd true false true 0 [] 2 tokenize_B_body.

(* which one was generated (this is the only place that looks at the
   generated tokenize) *)
Lemma tokenize_shape : {gen_tokenize = tokenize_A} + {gen_tokenize = tokenize_B}.
Proof.
  first [ left; reflexivity | right; reflexivity
        | fail 1 "the generated tokenize (GlueGen.gen_tokenize) has neither of the two known shapes" ].
Qed.

Definition tz_parts : option (gs * gx * gblock) :=
  match tokenize_A_body with
  | GCons s0 (GCons (SWhile c wb) GNil) => Some (s0, c, wb)
  | _ => None
  end.
Definition tz_first : gs := match tz_parts with Some (s, _, _) => s | None => SPass end.
Definition tz_cond : gx := match tz_parts with Some (_, c, _) => c | None => GNone end.
Definition tz_wb : gblock := match tz_parts with Some (_, _, wb) => wb | None => GNil end.

Lemma gen_tokenize_shape :
  tokenize_A_body = GCons tz_first (GCons (SWhile tz_cond tz_wb) GNil).
Proof. reflexivity. Qed.

(* frames of tokenize: current_token *)
Definition tz_frame (cur : option value) (b : bstate) (acc : list value) : frame :=
  mkfr [cur] (Some b) acc.

(* one round of the while loop: assert, yield, next_token(text, prev=current_token) *)
Lemma tz_body d t b acc o b' : cons_ok b ->
  nt_h (length (b_rest b)) b (Some t) = NRet o b' ->
  exec_block gen_env (call gen_env (S d)) tz_wb (tz_frame (Some (token_val t)) b acc)
  = XNormal (tz_frame (Some (prev_val o)) b' (acc ++ [token_val t])).
Proof.
  intros Hc E. pose proof (call_next_token d (Some t) b Hc) as C. rewrite E in C.
  destruct t as [ts tz tk]. unfold tz_wb, tz_frame.
  cbn [tz_parts tokenize_A_body GlueDSL.blk].
  cbn [prev_val token_val ttext tpos tcat] in C.
  cbn [exec_block exec_stmt eval get_loc nth_error fr_loc fr_text fr_out ebind token_val
       ttext tpos tcat TokDSL.v_cat truthy TokDSL.v_text nonempty used used_vars consume is_iter
       add_out do_call eval_list flat_map app].
  rewrite C. reflexivity.
Qed.

Lemma tz_first_ok d b acc o b' o0 : cons_ok b ->
  nt_h (length (b_rest b)) b None = NRet o b' ->
  exec_stmt gen_env (call gen_env (S d)) tz_first (tz_frame o0 b acc)
  = XNormal (tz_frame (Some (prev_val o)) b' acc).
Proof.
  intros Hc E. pose proof (call_next_token d None b Hc) as C. rewrite E in C.
  unfold tz_first, tz_frame. cbn [tz_parts tokenize_A_body GlueDSL.blk].
  cbn [prev_val] in C.
  cbn [exec_stmt eval fr_text do_call eval_list]. rewrite C. reflexivity.
Qed.

(* the tokens the hand-written loop produces after the token o *)
Definition rest_tokens (o : option token) (b : bstate) : list token :=
  match o with
  | None => []
  | Some t => t :: fst (TL b (Some t))
  end.

Definition tz_measure (o : option token) (b : bstate) : nat :=
  match o with
  | None => O
  | Some _ => S (length (b_rest b))
  end.

Lemma tz_while d : forall n o b acc fuel, cons_ok b ->
  (tz_measure o b <= n)%nat -> (n + 1 <= fuel)%nat ->
  exists b',
    while_loop (fun fr => eval gen_env fr tz_cond) (fun fr => used fr tz_cond)
               (exec_block gen_env (call gen_env (S d)) tz_wb) fuel
               (tz_frame (Some (prev_val o)) b acc)
    = XNormal (tz_frame (Some VNone) b' (acc ++ map token_val (rest_tokens o b))).
Proof.
  induction n as [|n IH]; intros o b acc fuel Hc Hm Hf;
    (destruct fuel as [|f]; [lia|]); rewrite while_S;
    (destruct o as [t|]; [| exists b; unfold tz_frame, tz_cond; cbn; rewrite app_nil_r; reflexivity]).
  - cbn [tz_measure] in Hm. lia.
  - cbn [tz_measure] in Hm.
    destruct (nt_h_good (Some t) (length (b_rest b)) b Hc (le_n _)) as (o' & b1 & E & Hc1 & Ho).
    assert (Eg : eval gen_env (tz_frame (Some (prev_val (Some t))) b acc) tz_cond = EV (VBool true)).
    { destruct t. reflexivity. }
    rewrite Eg. cbn [truthy].
    assert (Eu : used (tz_frame (Some (prev_val (Some t))) b acc) tz_cond
                 = tz_frame (Some (token_val t)) b acc).
    { destruct t. reflexivity. }
    rewrite Eu, (tz_body d t b acc o' b1 Hc E).
    destruct (IH o' b1 (acc ++ [token_val t]) f Hc1) as (b2 & ->).
    { destruct o'; cbn [tz_measure]; lia. }
    { lia. }
    exists b2. f_equal. f_equal. rewrite <- app_assoc. f_equal. cbn [app rest_tokens map]. f_equal.
    rewrite (TL_nt (Some t) (length (b_rest b)) b Hc (le_n _)), E.
    destruct o' as [t'|]; [|reflexivity].
    cbn [rest_tokens map]. destruct (TL b1 (Some t')) as [ts e]. reflexivity.
Qed.

Lemma all_some_cchar cs : all_some val_cchar (map cchar_val cs) = Some cs.
Proof. induction cs as [|[c p k] cs IH]; [reflexivity|]. cbn. cbn in IH. rewrite IH. reflexivity. Qed.

Lemma all_some_token ts : all_some val_token (map token_val ts) = Some ts.
Proof. induction ts as [|[s p k] ts IH]; [reflexivity|]. cbn. cbn in IH. rewrite IH. reflexivity. Qed.

Lemma fresh_text_ok cs : consecutive 0 cs -> cons_ok (fresh_text cs).
Proof. intro H. exact H. Qed.

Lemma tokenize_is_TL cs : tokenize cs = TL (fresh_text cs) None.
Proof. reflexivity. Qed.

(* the call tokenize(<fresh Buffer of cs>), at any call depth >= 2 *)
Lemma call_tokenize_A d cs : gen_tokenize = tokenize_A -> consecutive 0 cs ->
  exists b', call gen_env (S (S d)) F_tokenize [chars_val cs] None
             = CRet (tokens_val (fst (tokenize cs))) (Some b')
             /\ snd (tokenize cs) = TEnd.
Proof.
  intros HA Hc0. pose proof (fresh_text_ok cs Hc0) as Hc.
  assert (E : call gen_env (S (S d)) F_tokenize [chars_val cs] None
              = finish tokenize_A
                       (exec_block gen_env (call gen_env (S d)) tokenize_A_body
                                   (tz_frame None (fresh_text cs) []))).
  { cbn [call g_funs gen_env gen_funs]. rewrite HA. unfold invoke.
    cbn [fd_cursor tokenize_A chars_val items_of]. rewrite all_some_cchar. reflexivity. }
  rewrite E, gen_tokenize_shape, exec_block_cons. clear E.
  set (b := fresh_text cs) in *.
  destruct (nt_h_good None (length (b_rest b)) b Hc (le_n _)) as (o & b1 & E & Hc1 & Ho).
  rewrite (tz_first_ok d b [] o b1 None Hc E), exec_block_cons.
  assert (Ew : exec_stmt gen_env (call gen_env (S d)) (SWhile tz_cond tz_wb)
                         (tz_frame (Some (prev_val o)) b1 [])
               = while_loop (fun fr => eval gen_env fr tz_cond) (fun fr => used fr tz_cond)
                            (exec_block gen_env (call gen_env (S d)) tz_wb)
                            (S (S (length (b_rest b1)))) (tz_frame (Some (prev_val o)) b1 []))
    by reflexivity.
  rewrite Ew. clear Ew.
  destruct (tz_while d (S (length (b_rest b1))) o b1 [] (S (S (length (b_rest b1)))) Hc1) as (b2 & ->).
  { destruct o; cbn [tz_measure]; lia. }
  { lia. }
  rewrite exec_block_nil. cbn [app finish tokenize_A fd_gen fr_out fr_text tz_frame].
  assert (Et : tokenize cs = (rest_tokens o b1, TEnd)).
  { rewrite tokenize_is_TL. fold b.
    destruct (tokenize_loop_part (S (length (b_rest b))) Tables.punctuation_commands (b_idx b)
                                 (b_pp b) (b_pc b) None (b_rest b) (Nat.lt_succ_diag_r _) Hc)
      as (toks & Et & _).
    change (TL b None = (toks, TEnd)) in Et.
    rewrite (TL_nt None (length (b_rest b)) b Hc (le_n _)), E in Et.
    rewrite (TL_nt None (length (b_rest b)) b Hc (le_n _)), E.
    destruct o as [t|]; [|reflexivity].
    cbn [rest_tokens]. destruct (TL b1 (Some t)) as [ts e]. cbn [fst]. inversion Et. reflexivity. }
  rewrite Et. exists b2. split; reflexivity.
Qed.


(* ---- the second shape *)

Definition tzb_wb : gblock :=
  match tokenize_B_body with
  | GCons _ (GCons (SWhile _ wb) GNil) => wb
  | _ => GNil
  end.

(* frames of tokenize (shape B): prev, current_token *)
Definition tzb_frame (prev cur : option value) (b : bstate) (acc : list value) : frame :=
  mkfr [prev; cur] (Some b) acc.

(* one round: next_token(text, prev=prev); return at the end, otherwise
   assert, yield, prev = current_token *)
Lemma tzb_body d p b acc o1 o b' : cons_ok b ->
  nt_h (length (b_rest b)) b p = NRet o b' ->
  exec_block gen_env (call gen_env (S d)) tzb_wb (tzb_frame (Some (prev_val p)) o1 b acc)
  = match o with
    | Some t => XNormal (tzb_frame (Some (token_val t)) (Some (token_val t)) b'
                                   (acc ++ [token_val t]))
    | None => XReturn VNone (tzb_frame (Some (prev_val p)) (Some VNone) b' acc)
    end.
Proof.
  intros Hc E. pose proof (call_next_token d p b Hc) as C. rewrite E in C.
  unfold tzb_wb, tzb_frame. cbn [tokenize_B_body GlueDSL.blk].
  rewrite exec_block_cons.
  assert (S1 : exec_stmt gen_env (call gen_env (S d)) (SCall [1] F_next_token true [GVar 0])
                         (mkfr [Some (prev_val p); o1] (Some b) acc)
               = XNormal (mkfr [Some (prev_val p); Some (prev_val o)] (Some b') acc)).
  { cbn [exec_stmt do_call eval_list eval get_loc nth_error fr_loc fr_text]. rewrite C.
    destruct p as [[ps pz pk]|]; reflexivity. }
  rewrite S1.
  destruct o as [[ts tz tk]|]; destruct p as [[ps pz pk]|]; reflexivity.
Qed.

Lemma tzb_while d : forall n p b o1 acc fuel, cons_ok b ->
  (length (b_rest b) <= n)%nat -> (n + 1 <= fuel)%nat ->
  exists b' o0 o1',
    while_loop (fun fr => eval gen_env fr (GBool true)) (fun fr => used fr (GBool true))
               (exec_block gen_env (call gen_env (S d)) tzb_wb) fuel
               (tzb_frame (Some (prev_val p)) o1 b acc)
    = XReturn VNone (tzb_frame o0 o1' b' (acc ++ map token_val (fst (TL b p)))).
Proof.
  induction n as [|n IH]; intros p b o1 acc fuel Hc Hn Hf;
    (destruct fuel as [|f]; [lia|]); rewrite while_S;
    change (eval gen_env (tzb_frame (Some (prev_val p)) o1 b acc) (GBool true)) with (EV (VBool true));
    cbn [truthy];
    change (used (tzb_frame (Some (prev_val p)) o1 b acc) (GBool true))
      with (tzb_frame (Some (prev_val p)) o1 b acc);
    destruct (nt_h_good p (length (b_rest b)) b Hc (le_n _)) as (o & b1 & E & Hc1 & Ho);
    rewrite (tzb_body d p b acc o1 o b1 Hc E);
    rewrite (TL_nt p (length (b_rest b)) b Hc (le_n _)), E;
    (destruct o as [t|];
     [| exists b1, (Some (prev_val p)), (Some VNone); cbn [fst map]; rewrite app_nil_r; reflexivity]).
  - lia.
  - destruct (IH (Some t) b1 (Some (token_val t)) (acc ++ [token_val t]) f Hc1) as (b2 & o0 & o1' & W).
    { lia. }
    { lia. }
    change (Some (token_val t)) with (Some (prev_val (Some t))) at 1.
    rewrite W. exists b2, o0, o1'.
    destruct (TL b1 (Some t)) as [ts e]. cbn [fst map]. rewrite <- app_assoc. reflexivity.
Qed.

Lemma call_tokenize_B d cs : gen_tokenize = tokenize_B -> consecutive 0 cs ->
  exists b', call gen_env (S (S d)) F_tokenize [chars_val cs] None
             = CRet (tokens_val (fst (tokenize cs))) (Some b')
             /\ snd (tokenize cs) = TEnd.
Proof.
  intros HB Hc0. pose proof (fresh_text_ok cs Hc0) as Hc.
  assert (E : call gen_env (S (S d)) F_tokenize [chars_val cs] None
              = finish tokenize_B
                       (exec_block gen_env (call gen_env (S d)) tokenize_B_body
                                   (tzb_frame None None (fresh_text cs) []))).
  { cbn [call g_funs gen_env gen_funs]. rewrite HB. unfold invoke.
    cbn [fd_cursor tokenize_B chars_val items_of]. rewrite all_some_cchar. reflexivity. }
  rewrite E. clear E.
  set (b := fresh_text cs) in *.
  assert (Eb : exec_block gen_env (call gen_env (S d)) tokenize_B_body (tzb_frame None None b [])
               = match while_loop (fun fr => eval gen_env fr (GBool true))
                                  (fun fr => used fr (GBool true))
                                  (exec_block gen_env (call gen_env (S d)) tzb_wb)
                                  (S (S (length (b_rest b))))
                                  (tzb_frame (Some (prev_val None)) None b []) with
                 | XNormal fr' => XNormal fr'
                 | x => x
                 end) by reflexivity.
  rewrite Eb. clear Eb.
  destruct (tzb_while d (length (b_rest b)) None b None [] (S (S (length (b_rest b)))) Hc (le_n _))
    as (b2 & o0 & o1' & ->).
  { lia. }
  cbn [app finish tokenize_B fd_gen fr_out fr_text tzb_frame].
  rewrite tokenize_is_TL. fold b. exists b2. split; [reflexivity|].
  destruct (tokenize_loop_part (S (length (b_rest b))) Tables.punctuation_commands (b_idx b)
                               (b_pp b) (b_pc b) None (b_rest b) (Nat.lt_succ_diag_r _) Hc)
    as (toks & Et & _).
  change (TL b None = (toks, TEnd)) in Et. rewrite Et. reflexivity.
Qed.

(* the call tokenize(<fresh Buffer of cs>), at any call depth >= 2 *)
Lemma call_tokenize d cs : consecutive 0 cs ->
  exists b', call gen_env (S (S d)) F_tokenize [chars_val cs] None
             = CRet (tokens_val (fst (tokenize cs))) (Some b')
             /\ snd (tokenize cs) = TEnd.
Proof.
  destruct tokenize_shape as [H|H]; [exact (call_tokenize_A d cs H) | exact (call_tokenize_B d cs H)].
Qed.

(* TOKENIZE: the translated driver, run over the translated rules, is the
   hand-written tokenizer *)
Theorem tokenize_glue_cons cs : consecutive 0 cs ->
  tokenize_glue gen_env cs = tok_result (tokenize cs).
Proof.
  intro Hc. unfold tokenize_glue. destruct (call_tokenize 0 cs Hc) as (b' & -> & Hs).
  unfold tokens_val, tok_result. rewrite all_some_token, Hs. reflexivity.
Qed.

Theorem tokenize_glue_ok (s : str) :
  tokenize_glue gen_env (categorize s) = tok_result (tokenize (categorize s)).
Proof. apply tokenize_glue_cons. apply categorize_from_consecutive. Qed.

(* ... and that result is always a normal end *)
Theorem tokenize_glue_done (s : str) :
  tokenize_glue gen_env (categorize s) = GDone (fst (tokens_of_string s))
  /\ snd (tokens_of_string s) = TEnd.
Proof.
  rewrite tokenize_glue_ok. unfold tokens_of_string, tok_result.
  destruct (tokenize_partition s) as (toks & E & _). unfold tokens_of_string in E. rewrite E.
  split; reflexivity.
Qed.

(* ---- next_token, stated against Tokenizer.run_rules *)

Lemma nt_h_fuel p : forall n m b, cons_ok b -> (length (b_rest b) <= n)%nat ->
  (length (b_rest b) <= m)%nat -> nt_h n b p = nt_h m b p.
Proof.
  induction n as [|n IH]; intros m b Hc Hn Hm; destruct m as [|m]; cbn [nt_h];
    destruct (b_rest b) as [|c0 rest1] eqn:Er; try reflexivity; try (cbn [length] in *; lia).
  pose proof (run_rules_progress (cx_of b p) c0 rest1) as P. cbv zeta in P.
  destruct (run_rules Tables.rule_order (cx_of b p) (c0 :: rest1)) as [|t rest'|rest'|];
    try contradiction; try reflexivity.
  destruct P as (sk & Hne & Hsplit & _). rewrite <- Er in Hsplit.
  destruct (advance_ok b sk rest' Hc Hsplit Hne) as (Hc' & Er' & Hlt).
  apply IH; [exact Hc' | |]; rewrite Er'; rewrite Er in Hlt; cbn [length] in *; lia.
Qed.

Lemma next_token_glue_h b p : cons_ok b ->
  exists o b', nt_h (length (b_rest b)) b p = NRet o b'
               /\ next_token_glue gen_env b p = GDone (o, b').
Proof.
  intro Hc. destruct (nt_h_good p (length (b_rest b)) b Hc (le_n _)) as (o & b' & E & _ & _).
  exists o, b'. split; [exact E|].
  pose proof (call_next_token 0 p b Hc) as C. rewrite E in C.
  unfold next_token_glue. change (match p with Some t => token_val t | None => VNone end)
    with (prev_val p). rewrite C.
  destruct o as [[ts tz tk]|]; reflexivity.
Qed.

(* at the end of the input: None, nothing moves *)
Theorem next_token_glue_end b p : b_rest b = [] ->
  next_token_glue gen_env b p = GDone (None, b).
Proof.
  intro Er. assert (Hc : cons_ok b) by (unfold cons_ok; rewrite Er; exact I).
  destruct (next_token_glue_h b p Hc) as (o & b' & E & ->).
  rewrite Er in E. cbn [length nt_h] in E. rewrite Er in E. inversion E. reflexivity.
Qed.

(* otherwise: the first rule (in registration order) that returns a token
   decides; when a rule consumed ignored characters instead, the round is
   started again at the new position with the same prev *)
Theorem next_token_glue_step b p : cons_ok b -> b_rest b <> [] ->
  match run_rules Tables.rule_order (cx_of b p) (b_rest b) with
  | RTok t rest' => next_token_glue gen_env b p = GDone (Some t, advance b rest')
  | RSkip rest' => next_token_glue gen_env b p = next_token_glue gen_env (advance b rest') p
  | RNone | RErr => False
  end.
Proof.
  intros Hc Hne. destruct (next_token_glue_h b p Hc) as (o & b' & E & ->).
  destruct (b_rest b) as [|c0 rest1] eqn:Er; [congruence|].
  cbn [length nt_h] in E. rewrite Er in E.
  pose proof (run_rules_progress (cx_of b p) c0 rest1) as P. cbv zeta in P.
  destruct (run_rules Tables.rule_order (cx_of b p) (c0 :: rest1)) as [|t rest'|rest'|];
    try contradiction.
  - inversion E. reflexivity.
  - destruct P as (sk & Hne' & Hsplit & _). rewrite <- Er in Hsplit.
    destruct (advance_ok b sk rest' Hc Hsplit Hne') as (Hc' & Er' & Hlt).
    destruct (next_token_glue_h (advance b rest') p Hc') as (o2 & b2 & E2 & ->).
    rewrite (nt_h_fuel p (length rest1) (length (b_rest (advance b rest'))) _ Hc') in E;
      [ | rewrite Er'; rewrite Er in Hlt; cbn [length] in *; lia | lia].
    rewrite E in E2. inversion E2. reflexivity.
Qed.

(* non-vacuity: NUL a, then the end *)
Example next_token_glue_example :
  let b := fresh_text (categorize [0; 97]%N) in
  cons_ok b /\ b_rest b <> [] /\
  run_rules Tables.rule_order (cx_of b None) (b_rest b) = RSkip [mkc 97 1 CLetter] /\
  next_token_glue gen_env b None
  = GDone (Some (mkt [97%N] 1 TText), mkb [] 2 (Some (mkc 97 1 CLetter)) (Some (mkc 97 1 CLetter))).
Proof. split; [vm_compute; auto|]. split; [discriminate|]. split; vm_compute; reflexivity. Qed.

Example tokenize_glue_example :
  tokenize_glue gen_env (categorize [0; 97; 32; 92; 108; 101; 102; 116; 40; 32; 36; 36; 37; 99; 127]%N)
  = GDone [mkt [97; 32]%N 1 TText; mkt [92]%N 3 TEscape;
           mkt [108; 101; 102; 116; 40]%N 4 TPunctuationCommandName; mkt [32]%N 9 TMergedSpacer;
           mkt [36; 36]%N 10 TDisplayMathSwitch; mkt [37; 99; 127]%N 12 TComment].
Proof. vm_compute. reflexivity. Qed.

(* ============================================================== categorize *)

(* Two shapes of categorize are known (k: the start of enumerate, which is
   irrelevant because Token(char, position, ..) ignores the position when
   char is a Token already):

   A:  for position, char in enumerate(text, k):
           value = None
           for cc, values in CATEGORY_CODES.items():
               if char in values:
                   value = char
                   break
           if value is None: yield Token(char, position, CC.Other)
           else:             yield Token(char, position, cc)

   B:  (a helper with `for ..: if char in chars: return code` / `return
       CC.Other`, inlined by the translator)
       for position, char in enumerate(text, k):
           result = CC.Other
           for code, chars in CATEGORY_CODES.items():
               if char in chars:
                   result = code
                   break
           yield Token(char, position, result) *)
Definition categorize_A_body (k : Z) : gblock :=
  GlueDSL.blk [
    SFor [1; 2] (GEnumerate (GVar 0) k)
      (GlueDSL.blk [
        SAssign 3 GNone;
        SFor [4; 5] GCategoryItems
          (GlueDSL.blk [
            SIf (GIn (GVar 2) (GVar 5))
              (GlueDSL.blk [SAssign 3 (GVar 2); SBreak])
              (GlueDSL.blk [])]);
        SIf (GIsNone (GVar 3))
          (GlueDSL.blk [SYield (GNewToken (GVar 2) (GVar 1) (GCat COther))])
          (GlueDSL.blk [SYield (GNewToken (GVar 2) (GVar 1) (GVar 4))])])].
Definition categorize_A (k : Z) : fundef := mkfd false true true 1 [] 6 (categorize_A_body k).

Definition categorize_B_body (k : Z) : gblock :=
  GlueDSL.blk [
    SFor [1; 2] (GEnumerate (GVar 0) k)
      (GlueDSL.blk [
        SAssign 3 (GCat COther);
        SFor [4; 5] GCategoryItems
          (GlueDSL.blk [
            SIf (GIn (GVar 2) (GVar 5))
              (GlueDSL.blk [SAssign 3 (GVar 4); SBreak])
              (GlueDSL.blk [])]);
        SYield (GNewToken (GVar 2) (GVar 1) (GVar 3))])].
Definition categorize_B (k : Z) : fundef := mkfd false true true 1 [] 6 (categorize_B_body k).

(* which one was generated (the only place that looks at the generated
   categorize) *)
Lemma categorize_shape :
  {k : Z | gen_categorize = categorize_A k} + {k : Z | gen_categorize = categorize_B k}.
Proof.
  first [ left; eexists; reflexivity | right; eexists; reflexivity
        | fail 1 "the generated categorize (GlueGen.gen_categorize) has neither of the two known shapes" ].
Qed.

Definition cat_parts : option (list var * gx * gs * list var * gx * gblock * gs) :=
  match categorize_A_body 0 with
  | GCons (SFor xs it (GCons s0 (GCons (SFor ys it2 inner) (GCons s2 GNil)))) GNil =>
    Some (xs, it, s0, ys, it2, inner, s2)
  | _ => None
  end.
Definition cat_xs : list var := match cat_parts with Some (x, _, _, _, _, _, _) => x | None => [] end.
Definition cat_it : gx := match cat_parts with Some (_, x, _, _, _, _, _) => x | None => GNone end.
Definition cat_s0 : gs := match cat_parts with Some (_, _, x, _, _, _, _) => x | None => SPass end.
Definition cat_ys : list var := match cat_parts with Some (_, _, _, x, _, _, _) => x | None => [] end.
Definition cat_it2 : gx := match cat_parts with Some (_, _, _, _, x, _, _) => x | None => GNone end.
Definition cat_inner : gblock := match cat_parts with Some (_, _, _, _, _, x, _) => x | None => GNil end.
Definition cat_s2 : gs := match cat_parts with Some (_, _, _, _, _, _, x) => x | None => SPass end.

Lemma categorize_A_shape k :
  categorize_A_body k
  = GCons (SFor cat_xs (GEnumerate (GVar 0) k)
             (GCons cat_s0 (GCons (SFor cat_ys cat_it2 cat_inner) (GCons cat_s2 GNil)))) GNil.
Proof. reflexivity. Qed.

(* frames of categorize: text (consumed by enumerate), position, char, value,
   cc, values *)
Definition cat_frame (o1 o2 o3 o4 o5 : option value) (acc : list value) : frame :=
  mkfr [None; o1; o2; o3; o4; o5] None acc.

(* a character as Buffer(str) hands it out: Token(c, index), no category *)
Definition raw_char (c : N) (p : Z) : value := VTok (TokDSL.mkv [c] p TokDSL.KNone).

Definition cat_items (tbl : list (cc * list N)) : list value :=
  map (fun kv => VTuple [VCat (fst kv); VChars (snd kv)]) tbl.

Section Categorize.
Variable callf : fname -> list value -> option bstate -> cres.

(* the inner loop is Chars.lookup_cat: first table, in dict order, that
   contains the character *)
Lemma cat_inner_loop c p o1 acc : forall tbl o4 o5,
  exists o5',
    for_loop cat_ys (exec_block gen_env callf cat_inner) (cat_items tbl)
             (cat_frame o1 (Some (raw_char c p)) (Some VNone) o4 o5 acc)
    = match lookup_cat tbl c with
      | Some k => XNormal (cat_frame o1 (Some (raw_char c p)) (Some (raw_char c p))
                                     (Some (VCat k)) o5' acc)
      | None => XNormal (cat_frame o1 (Some (raw_char c p)) (Some VNone)
                                   (match tbl with [] => o4 | _ => Some (VCat (fst (last tbl (COther, [])))) end)
                                   o5' acc)
      end.
Proof.
  induction tbl as [|[k vs] tbl IH]; intros o4 o5.
  - exists o5. reflexivity.
  - cbn [cat_items map fst snd lookup_cat]. rewrite for_loop_cons.
    change (bind_targets (cat_frame o1 (Some (raw_char c p)) (Some VNone) o4 o5 acc) cat_ys
                         (VTuple [VCat k; VChars vs]))
      with (Some (cat_frame o1 (Some (raw_char c p)) (Some VNone) (Some (VCat k))
                            (Some (VChars vs)) acc)).
    cbv beta iota.
    assert (Eb : exec_block gen_env callf cat_inner
                   (cat_frame o1 (Some (raw_char c p)) (Some VNone) (Some (VCat k)) (Some (VChars vs)) acc)
                 = if mem_N c vs
                   then XBreak (cat_frame o1 (Some (raw_char c p)) (Some (raw_char c p)) (Some (VCat k))
                                          (Some (VChars vs)) acc)
                   else XNormal (cat_frame o1 (Some (raw_char c p)) (Some VNone) (Some (VCat k))
                                           (Some (VChars vs)) acc)).
    { unfold cat_inner, cat_frame, raw_char. cbn. destruct (mem_N c vs); reflexivity. }
    rewrite Eb. destruct (mem_N c vs); cbv beta iota.
    + exists (Some (VChars vs)). reflexivity.
    + fold (cat_items tbl).
      destruct (IH (Some (VCat k)) (Some (VChars vs))) as (o5' & ->).
      exists o5'. destruct (lookup_cat tbl c); [reflexivity|].
      destruct tbl as [|kv tbl']; reflexivity.
Qed.

Lemma cc_value_nonzero k : N.eqb (Tables.cc_value k) 0 = false.
Proof. destruct k; reflexivity. Qed.

(* one character: exactly one token, its own index, its category *)
Lemma cat_outer_step c p q o1 o2 o3 o4 o5 acc :
  exists o4' o5',
    match bind_targets (cat_frame o1 o2 o3 o4 o5 acc) cat_xs (VTuple [VInt q; raw_char c p]) with
    | Some fr1 =>
      exec_block gen_env callf
                 (GCons cat_s0 (GCons (SFor cat_ys cat_it2 cat_inner) (GCons cat_s2 GNil))) fr1
    | None => XUnsup
    end
    = XNormal (cat_frame (Some (VInt q)) (Some (raw_char c p))
                         (Some (match lookup_cat Tables.category_table c with
                                | Some _ => raw_char c p | None => VNone end))
                         o4' o5' (acc ++ [cchar_val (mkc c p (categorize_char c))])).
Proof.
  change (bind_targets (cat_frame o1 o2 o3 o4 o5 acc) cat_xs (VTuple [VInt q; raw_char c p]))
    with (Some (cat_frame (Some (VInt q)) (Some (raw_char c p)) o3 o4 o5 acc)).
  cbv beta iota. rewrite exec_block_cons.
  change (exec_stmt gen_env callf cat_s0 (cat_frame (Some (VInt q)) (Some (raw_char c p)) o3 o4 o5 acc))
    with (XNormal (cat_frame (Some (VInt q)) (Some (raw_char c p)) (Some VNone) o4 o5 acc)).
  cbv beta iota. rewrite exec_block_cons.
  change (exec_stmt gen_env callf (SFor cat_ys cat_it2 cat_inner)
                    (cat_frame (Some (VInt q)) (Some (raw_char c p)) (Some VNone) o4 o5 acc))
    with (for_loop cat_ys (exec_block gen_env callf cat_inner) (cat_items Tables.category_table)
                   (cat_frame (Some (VInt q)) (Some (raw_char c p)) (Some VNone) o4 o5 acc)).
  destruct (cat_inner_loop c p (Some (VInt q)) acc Tables.category_table o4 o5) as (o5' & ->).
  unfold categorize_char.
  destruct (lookup_cat Tables.category_table c) as [k|].
  - exists (Some (VCat k)), o5'. rewrite exec_block_cons.
    unfold cat_s2, cat_frame, raw_char. cbn. rewrite cc_value_nonzero. reflexivity.
  - eexists _, o5'. rewrite exec_block_cons.
    unfold cat_s2, cat_frame, raw_char. cbn. reflexivity.
Qed.

Lemma cat_outer_loop : forall s p q o1 o2 o3 o4 o5 acc,
  exists o1' o2' o3' o4' o5',
    for_loop cat_xs
             (exec_block gen_env callf
                         (GCons cat_s0 (GCons (SFor cat_ys cat_it2 cat_inner) (GCons cat_s2 GNil))))
             (enum_from q (str_tokens p s)) (cat_frame o1 o2 o3 o4 o5 acc)
    = XNormal (cat_frame o1' o2' o3' o4' o5' (acc ++ map cchar_val (categorize_from p s))).
Proof.
  induction s as [|c s IH]; intros p q o1 o2 o3 o4 o5 acc.
  - exists o1, o2, o3, o4, o5. cbn. rewrite app_nil_r. reflexivity.
  - cbn [str_tokens enum_from categorize_from map]. rewrite for_loop_cons.
    destruct (cat_outer_step c p q o1 o2 o3 o4 o5 acc) as (o4' & o5' & E).
    fold (raw_char c p).
    destruct (bind_targets (cat_frame o1 o2 o3 o4 o5 acc) cat_xs (VTuple [VInt q; raw_char c p]));
      [|discriminate E].
    rewrite E.
    destruct (IH (p + 1)%Z (q + 1)%Z (Some (VInt q)) (Some (raw_char c p))
                 (Some (match lookup_cat Tables.category_table c with
                        | Some _ => raw_char c p | None => VNone end))
                 o4' o5' (acc ++ [cchar_val (mkc c p (categorize_char c))]))
      as (a1 & a2 & a3 & a4 & a5 & ->).
    exists a1, a2, a3, a4, a5. rewrite <- app_assoc. reflexivity.
Qed.

End Categorize.

Lemma exec_for_enum env callf xs body l k :
  exec_stmt env callf (SFor xs (GEnumerate (GVar 0) k) body)
            (mkfr [Some (VSeq true l None); None; None; None; None; None] None [])
  = for_loop xs (exec_block env callf body) (enum_from k l)
             (mkfr [None; None; None; None; None; None] None []).
Proof. reflexivity. Qed.

(* the call categorize(s), at any call depth >= 1 *)
Lemma call_categorize_A d (s : str) k : gen_categorize = categorize_A k ->
  call gen_env (S d) F_categorize [VStr s] None = CRet (chars_val (categorize s)) None.
Proof.
  intro HA. cbn [call g_funs gen_env gen_funs]. rewrite HA. unfold invoke.
  cbn [fd_cursor fd_conv_in categorize_A conv_in fill_args fd_params fd_defaults length Nat.ltb
       Nat.leb fd_nlocals fd_body map app skipn Nat.sub repeat].
  rewrite categorize_A_shape, exec_block_cons.
  match goal with
  | |- context [exec_stmt _ _ _ ?fr] =>
    change fr with (mkfr [Some (VSeq true (str_tokens 0 s) None); None; None; None; None; None]
                         None [])
  end.
  rewrite exec_for_enum. fold (cat_frame None None None None None []).
  destruct (cat_outer_loop (call gen_env d) s 0%Z k None None None None None [])
    as (a1 & a2 & a3 & a4 & a5 & ->).
  reflexivity.
Qed.

(* ---- the second shape *)

Definition catb_parts : option (gs * gblock * gs) :=
  match categorize_B_body 0 with
  | GCons (SFor _ _ (GCons s0 (GCons (SFor _ _ inner) (GCons s2 GNil)))) GNil => Some (s0, inner, s2)
  | _ => None
  end.
Definition catb_s0 : gs := match catb_parts with Some (x, _, _) => x | None => SPass end.
Definition catb_inner : gblock := match catb_parts with Some (_, x, _) => x | None => GNil end.
Definition catb_s2 : gs := match catb_parts with Some (_, _, x) => x | None => SPass end.

Lemma categorize_B_shape k :
  categorize_B_body k
  = GCons (SFor [1; 2]%nat (GEnumerate (GVar 0) k)
             (GCons catb_s0 (GCons (SFor [4; 5]%nat GCategoryItems catb_inner) (GCons catb_s2 GNil)))) GNil.
Proof. reflexivity. Qed.

Section CategorizeB.
Variable callf : fname -> list value -> option bstate -> cres.

(* frames: text (consumed by enumerate), position, char, result, code, chars *)

(* the inner loop leaves in `result` the category of the first table (in dict
   order) that contains the character, or what it held before *)
Lemma catb_inner_loop c p o1 acc : forall tbl r0 o4 o5,
  exists o4' o5',
    for_loop [4; 5]%nat (exec_block gen_env callf catb_inner) (cat_items tbl)
             (cat_frame o1 (Some (raw_char c p)) (Some (VCat r0)) o4 o5 acc)
    = XNormal (cat_frame o1 (Some (raw_char c p))
                         (Some (VCat (match lookup_cat tbl c with Some k => k | None => r0 end)))
                         o4' o5' acc).
Proof.
  induction tbl as [|[k vs] tbl IH]; intros r0 o4 o5.
  - exists o4, o5. reflexivity.
  - cbn [cat_items map fst snd lookup_cat]. rewrite for_loop_cons.
    change (bind_targets (cat_frame o1 (Some (raw_char c p)) (Some (VCat r0)) o4 o5 acc) [4; 5]%nat
                         (VTuple [VCat k; VChars vs]))
      with (Some (cat_frame o1 (Some (raw_char c p)) (Some (VCat r0)) (Some (VCat k))
                            (Some (VChars vs)) acc)).
    cbv beta iota.
    assert (Eb : exec_block gen_env callf catb_inner
                   (cat_frame o1 (Some (raw_char c p)) (Some (VCat r0)) (Some (VCat k))
                              (Some (VChars vs)) acc)
                 = if mem_N c vs
                   then XBreak (cat_frame o1 (Some (raw_char c p)) (Some (VCat k)) (Some (VCat k))
                                          (Some (VChars vs)) acc)
                   else XNormal (cat_frame o1 (Some (raw_char c p)) (Some (VCat r0)) (Some (VCat k))
                                           (Some (VChars vs)) acc)).
    { unfold catb_inner, cat_frame, raw_char. cbn. destruct (mem_N c vs); reflexivity. }
    rewrite Eb. destruct (mem_N c vs); cbv beta iota.
    + exists (Some (VCat k)), (Some (VChars vs)). reflexivity.
    + fold (cat_items tbl). apply IH.
Qed.

Lemma catb_outer_step c p q o1 o2 o3 o4 o5 acc :
  exists o3' o4' o5',
    match bind_targets (cat_frame o1 o2 o3 o4 o5 acc) [1; 2]%nat (VTuple [VInt q; raw_char c p]) with
    | Some fr1 =>
      exec_block gen_env callf
                 (GCons catb_s0 (GCons (SFor [4; 5]%nat GCategoryItems catb_inner) (GCons catb_s2 GNil)))
                 fr1
    | None => XUnsup
    end
    = XNormal (cat_frame (Some (VInt q)) (Some (raw_char c p)) o3' o4' o5'
                         (acc ++ [cchar_val (mkc c p (categorize_char c))])).
Proof.
  change (bind_targets (cat_frame o1 o2 o3 o4 o5 acc) [1; 2]%nat (VTuple [VInt q; raw_char c p]))
    with (Some (cat_frame (Some (VInt q)) (Some (raw_char c p)) o3 o4 o5 acc)).
  cbv beta iota. rewrite exec_block_cons.
  change (exec_stmt gen_env callf catb_s0 (cat_frame (Some (VInt q)) (Some (raw_char c p)) o3 o4 o5 acc))
    with (XNormal (cat_frame (Some (VInt q)) (Some (raw_char c p)) (Some (VCat COther)) o4 o5 acc)).
  cbv beta iota. rewrite exec_block_cons.
  change (exec_stmt gen_env callf (SFor [4; 5]%nat GCategoryItems catb_inner)
                    (cat_frame (Some (VInt q)) (Some (raw_char c p)) (Some (VCat COther)) o4 o5 acc))
    with (for_loop [4; 5]%nat (exec_block gen_env callf catb_inner) (cat_items Tables.category_table)
                   (cat_frame (Some (VInt q)) (Some (raw_char c p)) (Some (VCat COther)) o4 o5 acc)).
  destruct (catb_inner_loop c p (Some (VInt q)) acc Tables.category_table COther o4 o5)
    as (o4' & o5' & ->).
  fold (categorize_char c). eexists _, o4', o5'. rewrite exec_block_cons.
  unfold catb_s2, cat_frame, raw_char. cbn. rewrite cc_value_nonzero. reflexivity.
Qed.

Lemma catb_outer_loop : forall s p q o1 o2 o3 o4 o5 acc,
  exists o1' o2' o3' o4' o5',
    for_loop [1; 2]%nat
             (exec_block gen_env callf
                (GCons catb_s0 (GCons (SFor [4; 5]%nat GCategoryItems catb_inner) (GCons catb_s2 GNil))))
             (enum_from q (str_tokens p s)) (cat_frame o1 o2 o3 o4 o5 acc)
    = XNormal (cat_frame o1' o2' o3' o4' o5' (acc ++ map cchar_val (categorize_from p s))).
Proof.
  induction s as [|c s IH]; intros p q o1 o2 o3 o4 o5 acc.
  - exists o1, o2, o3, o4, o5. cbn. rewrite app_nil_r. reflexivity.
  - cbn [str_tokens enum_from categorize_from map]. rewrite for_loop_cons.
    destruct (catb_outer_step c p q o1 o2 o3 o4 o5 acc) as (o3' & o4' & o5' & E).
    fold (raw_char c p).
    destruct (bind_targets (cat_frame o1 o2 o3 o4 o5 acc) [1; 2]%nat (VTuple [VInt q; raw_char c p]));
      [|discriminate E].
    rewrite E.
    destruct (IH (p + 1)%Z (q + 1)%Z (Some (VInt q)) (Some (raw_char c p)) o3' o4' o5'
                 (acc ++ [cchar_val (mkc c p (categorize_char c))]))
      as (a1 & a2 & a3 & a4 & a5 & ->).
    exists a1, a2, a3, a4, a5. rewrite <- app_assoc. reflexivity.
Qed.

End CategorizeB.

Lemma call_categorize_B d (s : str) k : gen_categorize = categorize_B k ->
  call gen_env (S d) F_categorize [VStr s] None = CRet (chars_val (categorize s)) None.
Proof.
  intro HB. cbn [call g_funs gen_env gen_funs]. rewrite HB. unfold invoke.
  cbn [fd_cursor fd_conv_in categorize_B conv_in fill_args fd_params fd_defaults length Nat.ltb
       Nat.leb fd_nlocals fd_body map app skipn Nat.sub repeat].
  rewrite categorize_B_shape, exec_block_cons.
  match goal with
  | |- context [exec_stmt _ _ _ ?fr] =>
    change fr with (mkfr [Some (VSeq true (str_tokens 0 s) None); None; None; None; None; None]
                         None [])
  end.
  rewrite exec_for_enum. fold (cat_frame None None None None None []).
  destruct (catb_outer_loop (call gen_env d) s 0%Z k None None None None None [])
    as (a1 & a2 & a3 & a4 & a5 & ->).
  reflexivity.
Qed.

Lemma call_categorize d (s : str) :
  call gen_env (S d) F_categorize [VStr s] None = CRet (chars_val (categorize s)) None.
Proof.
  destruct categorize_shape as [[k H]|[k H]];
    [exact (call_categorize_A d s k H) | exact (call_categorize_B d s k H)].
Qed.

(* CATEGORIZE: every character gets exactly one token, with its own index and
   the category of the first table (in dict order) that contains it *)
Theorem categorize_glue_ok (s : str) : categorize_glue gen_env s = GDone (categorize s).
Proof.
  unfold categorize_glue. rewrite call_categorize. unfold chars_val. rewrite all_some_cchar.
  reflexivity.
Qed.

Example categorize_glue_example :
  categorize_glue gen_env [92; 97; 0; 8364]%N
  = GDone [mkc 92 0 CEscape; mkc 97 1 CLetter; mkc 0 2 CIgnored; mkc 8364 3 COther].
Proof. vm_compute. reflexivity. Qed.

(* ========================================================= read and TexSoup *)

(* what the translated read_tex gives on the tokens of a string: the reader
   translation theorem, in the form the glue consumes it *)
Lemma run_read_tex toks strict skip : ReadGenEquiv.NE toks ->
  match parse_tokens toks strict skip with
  | Ok e =>
    exists v b body,
      ReadDSL.run ReadGen.gen_table (ReadDSL.gen_fuel toks) ReadDSL.F_read_tex
                  [ReadDSL.skip_val skip; ReadDSL.tol_val strict] (ReadDSL.mkbuf toks 0)
      = ReadDSL.ODone v b
      /\ ReadDSL.contents_of v = Some body /\ e = ERoot body
  | Err er =>
    ReadDSL.run ReadGen.gen_table (ReadDSL.gen_fuel toks) ReadDSL.F_read_tex
                [ReadDSL.skip_val skip; ReadDSL.tol_val strict] (ReadDSL.mkbuf toks 0)
    = ReadDSL.OExc er
  end.
Proof.
  intro HNE. pose proof (ReadGenEquiv.parse_tokens_gen_full_ok toks strict skip HNE) as H.
  unfold ReadDSL.parse_tokens_gen_full in H.
  destruct (ReadDSL.run ReadGen.gen_table (ReadDSL.gen_fuel toks) ReadDSL.F_read_tex
                        [ReadDSL.skip_val skip; ReadDSL.tol_val strict] (ReadDSL.mkbuf toks 0))
    as [v b|er| |]; try discriminate H.
  - destruct (ReadDSL.contents_of v) as [body|] eqn:Ec; [|discriminate H].
    inversion H as [H1]. exists v, b, body. auto.
  - inversion H as [H1]. reflexivity.
Qed.

Lemma strs_val_map l : strs_val (map VStr l) = Some (map ReadDSL.VStr l).
Proof.
  unfold strs_val. induction l as [|s l IH]; [reflexivity|].
  cbn [map all_some]. rewrite IH. reflexivity.
Qed.

(* the call read_tex(<fresh Buffer of toks>, skip, tolerance) *)
Lemma call_read_tex_ok d toks strict skip : ReadGenEquiv.NE toks ->
  call gen_env (S d) F_read_tex [tokens_val toks; skip_val skip; tol_val strict] None
  = match parse_tokens toks strict skip with
    | Ok _ =>
      match ReadDSL.run ReadGen.gen_table (ReadDSL.gen_fuel toks) ReadDSL.F_read_tex
                        [ReadDSL.skip_val skip; ReadDSL.tol_val strict] (ReadDSL.mkbuf toks 0) with
      | ReadDSL.ODone v _ => CRet (VRead v) None
      | _ => CUnsup
      end
    | Err er => CRet (VReadExc er) None
    end.
Proof.
  intro HNE. pose proof (run_read_tex toks strict skip HNE) as R.
  cbn [call call_read_tex tokens_val skip_val tol_val]. rewrite all_some_token, strs_val_map.
  cbn [option_map g_reader gen_env].
  change (ReadDSL.VTuple (map ReadDSL.VStr skip)) with (ReadDSL.skip_val skip).
  change (ReadDSL.VInt (if strict then 0%Z else 1%Z)) with (ReadDSL.tol_val strict).
  destruct (parse_tokens toks strict skip) as [e|er].
  - destruct R as (v & b & body & -> & _ & _). reflexivity.
  - rewrite R. reflexivity.
Qed.

Lemma call_S env d f args tb :
  call env (S d) f args tb =
  match f with
  | F_read_tex => match tb with None => call_read_tex env args | Some _ => CUnsup end
  | _ =>
    match g_funs env f with
    | Some fd => invoke env (call env d) fd args tb
    | None => CUnsup
    end
  end.
Proof. reflexivity. Qed.

Local Arguments call : simpl never.

Lemma invoke_plain env callf fd args vs :
  fd_cursor fd = false -> fd_conv_in fd = false -> fill_args fd args = Some vs ->
  invoke env callf fd args None
  = finish fd (exec_block env callf (fd_body fd)
                 (mkfr (map Some vs ++ repeat None (fd_nlocals fd - length vs)) None [])).
Proof. intros H1 H2 H3. unfold invoke. rewrite H1, H2, H3. reflexivity. Qed.

Definition rd_parts : option (gs * gs * gs * gs * gs) :=
  match gen_read_body with
  | GCons s0 (GCons s1 (GCons s2 (GCons s3 (GCons s4 GNil)))) => Some (s0, s1, s2, s3, s4)
  | _ => None
  end.
Definition rd_first : gs := match rd_parts with Some (s, _, _, _, _) => s | None => SPass end.
Definition rd_s1 : gs := match rd_parts with Some (_, s, _, _, _) => s | None => SPass end.
Definition rd_s2 : gs := match rd_parts with Some (_, _, s, _, _) => s | None => SPass end.
Definition rd_s3 : gs := match rd_parts with Some (_, _, _, s, _) => s | None => SPass end.
Definition rd_s4 : gs := match rd_parts with Some (_, _, _, _, s) => s | None => SPass end.
Definition rd_rest : gblock := GCons rd_s1 (GCons rd_s2 (GCons rd_s3 (GCons rd_s4 GNil))).

Lemma gen_read_shape : gen_read_body = GCons rd_first rd_rest.
Proof. reflexivity. Qed.

(* frames of read: tex, skip_envs, tolerance, buf *)
Definition rd_frame (tex : value) (skip : list str) (strict : bool) (o3 : option value) : frame :=
  mkfr [Some tex; Some (skip_val skip); Some (tol_val strict); o3] None [].

Definition read_cres (s : str) (r : res expr) : cres :=
  match r with
  | Ok e => CRet (VTuple [VExpr e; VStr s]) None
  | Err er => CExc (XErr er)
  end.

(* categorize -> tokenize -> read_tex -> TexEnv('[tex]', ...) on a str *)
Lemma read_rest_ok d s skip strict o3 :
  finish gen_read (exec_block gen_env (call gen_env (S (S d))) rd_rest (rd_frame (VStr s) skip strict o3))
  = read_cres s (parse s strict skip).
Proof.
  pose proof (call_categorize (S d) s) as C1.
  destruct (call_tokenize d (categorize s) (categorize_from_consecutive 0 s)) as (b' & C2 & Hend).
  unfold parse. change (tokens_of_string s) with (tokenize (categorize s)).
  destruct (tokenize (categorize s)) as [toks e] eqn:Et. cbn [fst snd] in *. subst e.
  assert (HNE : ReadGenEquiv.NE toks).
  { destruct (tokens_concat s toks TEnd Et) as (_ & _ & H). exact H. }
  pose proof (call_read_tex_ok (S d) toks strict skip HNE) as C3.
  pose proof (run_read_tex toks strict skip HNE) as R.
  unfold rd_rest. rewrite exec_block_cons.
  assert (S1 : exec_stmt gen_env (call gen_env (S (S d))) rd_s1 (rd_frame (VStr s) skip strict o3)
               = XNormal (rd_frame (VStr s) skip strict (Some (chars_val (categorize s))))).
  { unfold rd_s1, rd_frame. cbn. rewrite C1. reflexivity. }
  rewrite S1, exec_block_cons. clear S1.
  assert (S2 : exec_stmt gen_env (call gen_env (S (S d))) rd_s2
                         (rd_frame (VStr s) skip strict (Some (chars_val (categorize s))))
               = XNormal (rd_frame (VStr s) skip strict (Some (tokens_val toks)))).
  { unfold rd_s2, rd_frame. cbn. rewrite C2. reflexivity. }
  rewrite S2, exec_block_cons. clear S2.
  assert (S3 : exec_stmt gen_env (call gen_env (S (S d))) rd_s3
                         (rd_frame (VStr s) skip strict (Some (tokens_val toks)))
               = match call gen_env (S (S d)) F_read_tex
                            [tokens_val toks; skip_val skip; tol_val strict] None with
                 | CRet v _ => XNormal (rd_frame (VStr s) skip strict (Some v))
                 | CExc x => XExc x
                 | CUnsup => XUnsup
                 | CFuel => XFuel
                 end).
  { unfold rd_s3, rd_frame. cbn.
    destruct (call gen_env (S (S d)) F_read_tex [tokens_val toks; skip_val skip; tol_val strict] None);
      destruct strict; reflexivity. }
  rewrite S3, C3. clear S3.
  destruct (parse_tokens toks strict skip) as [e|er].
  - destruct R as (v & b & body & -> & Ec & ->). rewrite exec_block_cons.
    unfold rd_s4, rd_frame. cbn. rewrite Ec. reflexivity.
  - rewrite exec_block_cons. unfold rd_s4, rd_frame. cbn. reflexivity.
Qed.

(* READ on a str *)
Lemma call_read_str d s skip strict :
  call gen_env (S (S (S d))) F_read [VStr s; skip_val skip; tol_val strict] None
  = read_cres s (parse s strict skip).
Proof.
  rewrite <- (read_rest_ok d s skip strict None), call_S.
  cbn [g_funs gen_env gen_funs].
  rewrite (invoke_plain gen_env (call gen_env (S (S d))) gen_read
                        [VStr s; skip_val skip; tol_val strict]
                        [VStr s; skip_val skip; tol_val strict] eq_refl eq_refl eq_refl).
  change (fd_body gen_read) with gen_read_body. rewrite gen_read_shape, exec_block_cons.
  assert (S0 : exec_stmt gen_env (call gen_env (S (S d))) rd_first
                 (mkfr (map Some [VStr s; skip_val skip; tol_val strict]
                        ++ repeat None (fd_nlocals gen_read
                                        - length [VStr s; skip_val skip; tol_val strict])) None [])
               = XNormal (rd_frame (VStr s) skip strict None)).
  { unfold rd_first, rd_frame. cbn. reflexivity. }
  rewrite S0. reflexivity.
Qed.

(* itertools.chain( *chunks ) followed by ''.join: the concatenation *)
Lemma chain_strs l :
  chain_items (map VStr l) = Some (map (fun c => VStr [c]) (concat l)).
Proof.
  induction l as [|s l IH]; [reflexivity|].
  cbn [map chain_items items_of concat]. rewrite IH, map_app. reflexivity.
Qed.

Lemma join_chars cs :
  all_some text_of (map (fun c : N => VStr [c]) cs) = Some (map (fun c => [c]) cs)
  /\ join_strs [] (map (fun c : N => [c]) cs) = cs.
Proof.
  induction cs as [|c cs [IH1 IH2]]; [split; reflexivity|]. split.
  - cbn. cbn in IH1. rewrite IH1. reflexivity.
  - cbn [map join_strs]. destruct cs as [|c' cs']; [reflexivity|].
    cbn [map] in *. rewrite IH2. reflexivity.
Qed.

(* READ on a list of chunks: flattened first, then as on a str *)
Lemma call_read_chunks d l skip strict :
  call gen_env (S (S (S d))) F_read [chunks_val l; skip_val skip; tol_val strict] None
  = call gen_env (S (S (S d))) F_read [VStr (concat l); skip_val skip; tol_val strict] None.
Proof.
  rewrite call_read_str, <- (read_rest_ok d (concat l) skip strict None), call_S.
  cbn [g_funs gen_env gen_funs].
  rewrite (invoke_plain gen_env (call gen_env (S (S d))) gen_read
                        [chunks_val l; skip_val skip; tol_val strict]
                        [chunks_val l; skip_val skip; tol_val strict] eq_refl eq_refl eq_refl).
  change (fd_body gen_read) with gen_read_body. rewrite gen_read_shape, exec_block_cons.
  assert (S0 : exec_stmt gen_env (call gen_env (S (S d))) rd_first
                 (mkfr (map Some [chunks_val l; skip_val skip; tol_val strict]
                        ++ repeat None (fd_nlocals gen_read
                                        - length [chunks_val l; skip_val skip; tol_val strict])) None [])
               = XNormal (rd_frame (VStr (concat l)) skip strict None)).
  { unfold rd_first, rd_frame, chunks_val. cbn. rewrite chain_strs. cbn.
    destruct (join_chars (concat l)) as [E1 E2]. rewrite E1, E2. destruct l; reflexivity. }
  rewrite S0. reflexivity.
Qed.

(* ---- TexSoup *)

Definition soup_cres (s : str) (r : res expr) : cres :=
  match r with
  | Ok e => CRet (VNode e (Some s)) None
  | Err er => CExc (XErr er)
  end.

Ltac soup_tac d tex C :=
  rewrite call_S; cbn [g_funs gen_env gen_funs];
  rewrite (invoke_plain gen_env (call gen_env (S (S (S d)))) gen_TexSoup
                        [tex; skip_val _; tol_val _] [tex; skip_val _; tol_val _]
                        eq_refl eq_refl eq_refl);
  cbn; rewrite C.

Lemma call_soup_str d s skip strict :
  call gen_env (S (S (S (S d)))) F_TexSoup [VStr s; skip_val skip; tol_val strict] None
  = soup_cres s (parse s strict skip).
Proof.
  pose proof (call_read_str d s skip strict) as C.
  soup_tac d (VStr s) C.
  destruct (parse s strict skip) as [e|er]; destruct strict; reflexivity.
Qed.

Lemma call_soup_chunks d l skip strict :
  call gen_env (S (S (S (S d)))) F_TexSoup [chunks_val l; skip_val skip; tol_val strict] None
  = call gen_env (S (S (S (S d)))) F_TexSoup [VStr (concat l); skip_val skip; tol_val strict] None.
Proof.
  rewrite call_soup_str.
  pose proof (call_read_chunks d l skip strict) as C. rewrite call_read_str in C.
  soup_tac d (chunks_val l) C.
  destruct (parse (concat l) strict skip) as [e|er]; destruct strict; reflexivity.
Qed.

(* ---- from the top (call depth 4) *)

Theorem read_str_ok s skip strict :
  top_call gen_env F_read [VStr s; skip_val skip; tol_val strict]
  = read_result s (parse s strict skip).
Proof.
  unfold top_call. rewrite (call_read_str 1). destruct (parse s strict skip); reflexivity.
Qed.

Theorem read_chunks_ok l skip strict :
  top_call gen_env F_read [chunks_val l; skip_val skip; tol_val strict]
  = top_call gen_env F_read [VStr (concat l); skip_val skip; tol_val strict].
Proof. unfold top_call. rewrite (call_read_chunks 1). reflexivity. Qed.

(* the default arguments: skip_envs=(), tolerance=0 *)
Theorem read_defaults_ok s :
  top_call gen_env F_read [VStr s] = read_result s (parse s true []).
Proof. rewrite <- (read_str_ok s [] true). reflexivity. Qed.

Theorem soup_str_ok s skip strict :
  top_call gen_env F_TexSoup [VStr s; skip_val skip; tol_val strict]
  = soup_result s (parse s strict skip).
Proof.
  unfold top_call. rewrite (call_soup_str 0). destruct (parse s strict skip); reflexivity.
Qed.

Theorem soup_chunks_ok l skip strict :
  top_call gen_env F_TexSoup [chunks_val l; skip_val skip; tol_val strict]
  = top_call gen_env F_TexSoup [VStr (concat l); skip_val skip; tol_val strict].
Proof. unfold top_call. rewrite (call_soup_chunks 0). reflexivity. Qed.

Theorem soup_defaults_ok s :
  top_call gen_env F_TexSoup [VStr s] = soup_result s (parse s true []).
Proof. rewrite <- (soup_str_ok s [] true). reflexivity. Qed.

(* non-vacuity: \a{} as a str and in two chunkings; an unclosed group *)
Example read_example :
  top_call gen_env F_read [VStr [92; 97; 123; 125]%N; skip_val []; tol_val true]
  = GDone (VTuple [VExpr (ERoot [ECmd [97%N] [EGroup GBrace [] 2] [] 0]);
                   VStr [92; 97; 123; 125]%N])
  /\ top_call gen_env F_read [chunks_val [[92; 97]%N; []; [123; 125]%N]; skip_val []; tol_val true]
     = GDone (VTuple [VExpr (ERoot [ECmd [97%N] [EGroup GBrace [] 2] [] 0]);
                      VStr [92; 97; 123; 125]%N])
  /\ top_call gen_env F_TexSoup [VStr [92; 97; 123]%N] = GRaise (XErr TypeError)
  /\ top_call gen_env F_TexSoup [VStr [92; 97; 123]%N; skip_val []; tol_val false]
     = GDone (VNode (ERoot [ECmd [97%N] [EGroup GBrace [] 2] [] 0]) (Some [92; 97; 123]%N)).
Proof. repeat split; vm_compute; reflexivity. Qed.

(* Without `consecutive` the translated tokenizer differs from the hand-written
   one: the rules that start from Token('', text.position) record the BUFFER
   index, the hand-written rules the index carried by the first character
   (TokGenProofs: gen_string_unconditional_refuted).  Witness: a buffer holding
   one letter whose own index is 5.  Replayed on the implementation:
   list(tokenize(Buffer([Token('a', 5, CC.Letter)]))) has position 0 -- the
   translated code is right, the hand model is only used on categorize s. *)
Theorem tokenize_glue_unconditional_refuted :
  exists cs, tokenize_glue gen_env cs <> tok_result (tokenize cs).
Proof. exists [mkc 97 5 CLetter]. vm_compute. discriminate. Qed.
