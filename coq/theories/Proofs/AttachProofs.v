(* C09 (argument attachment) and the reader half of C12 (math regions):
   one-layer characterisations of the argument loops, the group loop and the
   math loop of the reader model, plus the tokenizer fact they rest on (a
   MergedSpacer token holds at most one line break).

   Style: every lemma about a fuelled function is stated for ONE layer at an
   arbitrary fuel `S f`; the results of the recursive calls (at fuel `f`)
   appear on the right-hand side or as hypotheses, so no fuel monotonicity is
   needed.  Facts about the generated tables are proved by computation. *)
From Coq Require Import List NArith ZArith Bool Lia.
From TexModel Require Import Base Tables Chars Tokenizer Tree Reader.
From TexProofs Require Import CatProofs TokProofs ReaderLen ReaderTotal.
Import ListNotations.
Local Open Scope Z_scope.

(* ====================================================================== *)
(* 1. The tokenizer: shape of a MergedSpacer token                        *)
(* ====================================================================== *)

Definition is_blank (c : cchar) : Prop := is_cat CSpacer c = true.
Definition is_eol (c : cchar) : Prop := is_cat CEndOfLine c = true.

(* number of line-break characters in a run *)
Definition eol_count (cs : list cchar) : nat := length (filter (is_cat CEndOfLine) cs).

Lemma blank_not_eol c : is_cat CSpacer c = true -> is_cat CEndOfLine c = false.
Proof. unfold is_cat. destruct (ccat c); simpl; intro H; try discriminate H; reflexivity. Qed.

Lemma blanks_no_eol s : Forall is_blank s -> filter (is_cat CEndOfLine) s = [].
Proof.
  induction 1 as [|c s Hc _ IH]; [reflexivity|].
  simpl. rewrite (blank_not_eol c Hc). exact IH.
Qed.

(* rule 7: the token is  blanks ++ (at most one line break) ++ blanks,
   it is the whole maximal such run, and its category is MergedSpacer *)
Theorem spacer_token_shape idx rest t rest' :
  rule_spacers idx rest = RTok t rest' ->
  exists s1 e s2,
    rest = (s1 ++ e ++ s2) ++ rest' /\
    ttext t = chars_of (s1 ++ e ++ s2) /\
    s1 ++ e ++ s2 <> [] /\
    Forall is_blank s1 /\ Forall is_blank s2 /\
    (e = [] \/ exists c, e = [c] /\ is_eol c) /\
    tcat t = TMergedSpacer /\
    match rest' with
    | c :: _ => is_cat CSpacer c = false /\ mem_cc (ccat c) Tables.spacer_rollback_cats = false
    | [] => True
    end.
Proof.
  unfold rule_spacers.
  destruct (take_while (is_cat CSpacer) rest) as [s1 r1] eqn:E1.
  match goal with
  | |- context [let '(_, _) := ?x in _] => destruct x as [e r2] eqn:Ee
  end.
  destruct (take_while (is_cat CSpacer) r2) as [s2 r3] eqn:E2.
  cbv zeta. intro H.
  pose proof (take_while_app _ _ _ _ E1) as A1.
  pose proof (take_while_all _ _ _ _ E1) as F1.
  pose proof (take_while_app _ _ _ _ E2) as A2.
  pose proof (take_while_all _ _ _ _ E2) as F2.
  pose proof (take_while_stop _ _ _ _ E2) as S2.
  assert (He : r1 = e ++ r2 /\ (e = [] \/ exists c, e = [c] /\ is_eol c)).
  { destruct r1 as [|c r'].
    - inversion Ee; subst. split; [reflexivity | left; reflexivity].
    - destruct (is_cat CEndOfLine c) eqn:Ec; inversion Ee; subst.
      + split; [reflexivity | right; exists c; split; [reflexivity | exact Ec]].
      + split; [reflexivity | left; reflexivity]. }
  destruct He as [Ae He].
  assert (Hall : rest = (s1 ++ e ++ s2) ++ r3).
  { subst rest r1 r2. rewrite <- !app_assoc. reflexivity. }
  assert (Hk : (match s1 ++ e ++ s2 with
                | [] => RNone
                | _ :: _ => RTok (mk_tok (s1 ++ e ++ s2) idx TMergedSpacer) r3
                end) = RTok t rest' ->
               s1 ++ e ++ s2 <> [] /\ t = mk_tok (s1 ++ e ++ s2) idx TMergedSpacer /\ rest' = r3).
  { destruct (s1 ++ e ++ s2) as [|c0 cs]; [discriminate|].
    intro H'. inversion H'; subst. repeat split. discriminate. }
  assert (Hfin : s1 ++ e ++ s2 <> [] /\ t = mk_tok (s1 ++ e ++ s2) idx TMergedSpacer /\ rest' = r3 /\
                 match r3 with
                 | c :: _ => mem_cc (ccat c) Tables.spacer_rollback_cats = false
                 | [] => True
                 end).
  { destruct r3 as [|c r3'].
    - apply Hk in H. destruct H as (H1 & H2 & H3). repeat split; assumption.
    - destruct (mem_cc (ccat c) Tables.spacer_rollback_cats) eqn:Em; [discriminate H|].
      apply Hk in H. destruct H as (H1 & H2 & H3). repeat split; assumption. }
  destruct Hfin as (Hne & Ht & Hr & Hrb). subst rest' t.
  exists s1, e, s2. repeat split; try assumption.
  destruct r3 as [|c r3']; [exact I|]. split; assumption.
Qed.

(* at most ONE character of category EndOfLine; all others are blanks *)
Theorem spacer_token_one_eol idx rest t rest' :
  rule_spacers idx rest = RTok t rest' ->
  exists body,
    rest = body ++ rest' /\ ttext t = chars_of body /\ body <> [] /\
    (eol_count body <= 1)%nat /\
    Forall (fun c => is_blank c \/ is_eol c) body.
Proof.
  intro H. apply spacer_token_shape in H.
  destruct H as (s1 & e & s2 & Hr & Ht & Hne & F1 & F2 & He & _).
  exists (s1 ++ e ++ s2). repeat split; try assumption.
  - unfold eol_count. rewrite !filter_app, (blanks_no_eol s1 F1), (blanks_no_eol s2 F2).
    rewrite app_nil_r. simpl.
    destruct He as [->|(c & -> & Hc)]; simpl; [lia|]. destruct (is_cat CEndOfLine c); simpl; lia.
  - apply Forall_app. split; [eapply Forall_impl; [|exact F1]; intros; left; assumption|].
    apply Forall_app. split; [|eapply Forall_impl; [|exact F2]; intros; left; assumption].
    destruct He as [->|(c & -> & Hc)]; [constructor|]. constructor; [right; exact Hc | constructor].
Qed.

Lemma eol_count_two a c1 b c2 d :
  is_eol c1 -> is_eol c2 -> (2 <= eol_count (a ++ c1 :: b ++ c2 :: d))%nat.
Proof.
  unfold eol_count, is_eol. intros H1 H2.
  rewrite filter_app, app_length. simpl. rewrite H1. simpl.
  rewrite filter_app, app_length. simpl. rewrite H2. simpl. lia.
Qed.

(* hence a blank line (two line breaks, whatever lies between or around them)
   is never inside a single MergedSpacer token *)
Theorem blank_line_not_one_spacer idx t rest' a c1 b c2 d :
  is_eol c1 -> is_eol c2 ->
  rule_spacers idx ((a ++ c1 :: b ++ c2 :: d) ++ rest') <> RTok t rest'.
Proof.
  intros H1 H2 H. apply spacer_token_one_eol in H.
  destruct H as (body & Hr & _ & _ & Hc & _).
  apply app_inv_tail in Hr. subst body.
  pose proof (eol_count_two a c1 b c2 d H1 H2). lia.
Qed.

(* ====================================================================== *)
(* 2. read_spacer, and detaching                                          *)
(* ====================================================================== *)

Lemma is_tc_true k t : is_tc k t = true <-> tcat t = k.
Proof. unfold is_tc. apply tc_eqb_eq. Qed.

Lemma is_tc_false k t : is_tc k t = false <-> tcat t <> k.
Proof.
  unfold is_tc. split.
  - intros H E. apply tc_eqb_eq in E. congruence.
  - intro H. destruct (tc_beq (tcat t) k) eqn:E; [apply tc_eqb_eq in E; contradiction | reflexivity].
Qed.

Lemma is_tc_excl k k' t : is_tc k t = true -> k <> k' -> is_tc k' t = false.
Proof. intros H Hk. apply is_tc_true in H. apply is_tc_false. congruence. Qed.

(* read_spacer skips at most ONE token, and only a MergedSpacer *)
Theorem read_spacer_at_most_one toks b src :
  read_spacer toks = (b, src) ->
  (b = false /\ src = toks /\
   match toks with t :: _ => is_tc TMergedSpacer t = false | [] => True end) \/
  (b = true /\ exists t, toks = t :: src /\ is_tc TMergedSpacer t = true).
Proof.
  unfold read_spacer. destruct toks as [|t r].
  - intro H; inversion H; subst. left. auto.
  - destruct (is_tc TMergedSpacer t) eqn:E; intro H; inversion H; subst.
    + right. split; [reflexivity|]. exists t. auto.
    + left. auto.
Qed.

Lemma head_after_spacer_spacer s ts :
  is_tc TMergedSpacer s = true ->
  head_after_spacer (s :: ts) = match ts with c :: _ => Some c | [] => None end.
Proof. intro H. unfold head_after_spacer, read_spacer. rewrite H. reflexivity. Qed.

Lemma head_after_spacer_other t ts :
  is_tc TMergedSpacer t = false -> head_after_spacer (t :: ts) = Some t.
Proof. intro H. unfold head_after_spacer, read_spacer. rewrite H. reflexivity. Qed.

(* names outside the fixed-signature table read "as many as there are" *)
Lemma signature_of_default name :
  assoc_str name Tables.signatures = None -> signature_of name = (-1, -1).
Proof. unfold signature_of. intros ->. reflexivity. Qed.

(* 2a. any token other than `[` after the optional spacer: nothing is
   attached and nothing is consumed (a consumed spacer is rolled back).
   No hypothesis on nopt: for nopt = 0 the loop is not even entered. *)
Theorem C09_other_token_detaches_opt f args nopt strict m toks :
  match head_after_spacer toks with
  | Some c => is_tc TBracketBegin c = false
  | None => True
  end ->
  read_arg_optional (S f) args nopt strict m toks = Ok ((args, nopt), toks).
Proof.
  unfold head_after_spacer. intro H. simpl.
  destruct (nopt =? 0); [reflexivity|].
  destruct (read_spacer toks) as [b src1]. simpl in H.
  destruct src1 as [|c src2]; [reflexivity|]. rewrite H. reflexivity.
Qed.

(* same for braces, for "unlimited" (negative) or exhausted counts *)
Theorem C09_other_token_detaches_req f args nreq strict m toks :
  nreq <= 0 ->
  match head_after_spacer toks with
  | Some c => is_tc TGroupBegin c = false
  | None => True
  end ->
  read_arg_required (S f) args nreq strict m toks = Ok ((args, nreq), toks).
Proof.
  unfold head_after_spacer. intros Hn H. simpl.
  destruct (nreq =? 0); [reflexivity|].
  destruct toks as [|t0 ts]; [reflexivity|].
  destruct (read_spacer (t0 :: ts)) as [b src1]. simpl in H.
  destruct src1 as [|c src2]; [reflexivity|]. rewrite H.
  destruct (0 <? nreq) eqn:E0; [apply Z.ltb_lt in E0; lia | reflexivity].
Qed.

(* the contrast that makes the quantification over names outside the
   signature table necessary: with a positive count a non-group token IS
   taken as an argument *)
Lemma C09_positive_count_takes_token f args nreq strict m toks c src2 :
  0 < nreq -> toks <> [] -> snd (read_spacer toks) = c :: src2 ->
  is_tc TGroupBegin c = false -> is_tc TEscape c = false ->
  read_arg_required (S f) args nreq strict m toks =
  read_arg_required f (args ++ [EGroup GBrace [EStr (ttext c)] (-1)]) (nreq - 1) strict m src2.
Proof.
  intros Hn Hne Hs Hg He. simpl.
  destruct (nreq =? 0) eqn:E0; [apply Z.eqb_eq in E0; lia|].
  destruct toks as [|t0 ts]; [congruence|].
  destruct (read_spacer (t0 :: ts)) as [b src1]. simpl in Hs. subst src1.
  rewrite Hg, He. destruct (0 <? nreq) eqn:E1; [reflexivity | apply Z.ltb_ge in E1; lia].
Qed.

(* 2b. a blank line: two spacer tokens in a row (a single one never holds two
   line breaks, section 1).  Nothing more is attached, the token list is
   returned unchanged. *)
Theorem C09_blank_line_detaches_opt f args nopt strict m s1 s2 rest :
  is_tc TMergedSpacer s1 = true -> is_tc TMergedSpacer s2 = true ->
  read_arg_optional (S f) args nopt strict m (s1 :: s2 :: rest)
  = Ok ((args, nopt), s1 :: s2 :: rest).
Proof.
  intros H1 H2. apply C09_other_token_detaches_opt.
  rewrite (head_after_spacer_spacer s1 (s2 :: rest) H1).
  apply (is_tc_excl _ _ _ H2). discriminate.
Qed.

Theorem C09_blank_line_detaches_req f args nreq strict m s1 s2 rest :
  nreq <= 0 ->
  is_tc TMergedSpacer s1 = true -> is_tc TMergedSpacer s2 = true ->
  read_arg_required (S f) args nreq strict m (s1 :: s2 :: rest)
  = Ok ((args, nreq), s1 :: s2 :: rest).
Proof.
  intros Hn H1 H2. apply C09_other_token_detaches_req; [exact Hn|].
  rewrite (head_after_spacer_spacer s1 (s2 :: rest) H1).
  apply (is_tc_excl _ _ _ H2). discriminate.
Qed.

(* ====================================================================== *)
(* 3. attaching                                                           *)
(* ====================================================================== *)

Theorem C09_attach_step_opt_bind f args nopt strict m toks c src2 :
  nopt <> 0 -> snd (read_spacer toks) = c :: src2 -> is_tc TBracketBegin c = true ->
  read_arg_optional (S f) args nopt strict m toks =
  bind (read_arg f c strict m src2) (fun '(g, src3) =>
    read_arg_optional f (args ++ [g]) (nopt - 1) strict m src3).
Proof.
  intros Hn Hs Hc. simpl.
  destruct (nopt =? 0) eqn:E0; [apply Z.eqb_eq in E0; contradiction|].
  destruct (read_spacer toks) as [b src1]. simpl in Hs. subst src1.
  rewrite Hc. reflexivity.
Qed.

Theorem C09_attach_step_opt f args nopt strict m toks c src2 g src3 :
  nopt <> 0 -> snd (read_spacer toks) = c :: src2 -> is_tc TBracketBegin c = true ->
  read_arg f c strict m src2 = Ok (g, src3) ->
  read_arg_optional (S f) args nopt strict m toks =
  read_arg_optional f (args ++ [g]) (nopt - 1) strict m src3.
Proof.
  intros Hn Hs Hc Hg.
  rewrite (C09_attach_step_opt_bind f args nopt strict m toks c src2 Hn Hs Hc), Hg.
  reflexivity.
Qed.

Theorem C09_attach_step_req_bind f args nreq strict m toks c src2 :
  nreq <> 0 -> toks <> [] -> snd (read_spacer toks) = c :: src2 -> is_tc TGroupBegin c = true ->
  read_arg_required (S f) args nreq strict m toks =
  bind (read_arg f c strict m src2) (fun '(g, src3) =>
    read_arg_required f (args ++ [g]) (nreq - 1) strict m src3).
Proof.
  intros Hn Hne Hs Hc. simpl.
  destruct (nreq =? 0) eqn:E0; [apply Z.eqb_eq in E0; contradiction|].
  destruct toks as [|t0 ts]; [congruence|].
  destruct (read_spacer (t0 :: ts)) as [b src1]. simpl in Hs. subst src1.
  rewrite Hc. reflexivity.
Qed.

Theorem C09_attach_step_req f args nreq strict m toks c src2 g src3 :
  nreq <> 0 -> snd (read_spacer toks) = c :: src2 -> is_tc TGroupBegin c = true ->
  read_arg f c strict m src2 = Ok (g, src3) ->
  read_arg_required (S f) args nreq strict m toks =
  read_arg_required f (args ++ [g]) (nreq - 1) strict m src3.
Proof.
  intros Hn Hs Hc Hg.
  assert (Hne : toks <> []).
  { intro E. subst toks. discriminate Hs. }
  rewrite (C09_attach_step_req_bind f args nreq strict m toks c src2 Hn Hne Hs Hc), Hg.
  reflexivity.
Qed.

(* ---------------------------------------------------------------------- *)
(* what the loops return: groups of the right kind, appended in order      *)

Definition is_group_of (k : groupkind) (e : expr) : Prop :=
  exists body pos, e = EGroup k body pos.

(* "the token after the optional spacer is not a `k`" (or there is none) *)
Definition stops_at (k : tc) (toks : list token) : Prop :=
  match head_after_spacer toks with Some c => is_tc k c = false | None => True end.

Lemma stops_at_head k toks :
  k <> TMergedSpacer -> stops_at k toks ->
  match toks with t :: _ => is_tc k t = false | [] => True end.
Proof.
  intros Hk H. destruct toks as [|t ts]; [exact I|].
  destruct (is_tc TMergedSpacer t) eqn:E.
  - apply (is_tc_excl _ _ _ E). congruence.
  - unfold stops_at in H. rewrite (head_after_spacer_other t ts E) in H. exact H.
Qed.

Lemma arg_loop_shape f : forall k pos strict m acc toks e rest,
  read_arg_loop f k pos strict m acc toks = Ok (e, rest) ->
  exists body, e = EGroup k (acc ++ body) pos.
Proof.
  induction f as [|f IH]; intros k pos strict m acc toks e rest H; [discriminate|].
  simpl in H. destruct toks as [|t src].
  - destruct strict; [discriminate|]. inversion H; subst. exists []. rewrite app_nil_r. reflexivity.
  - destruct (is_group_end k t).
    + inversion H; subst. exists []. rewrite app_nil_r. reflexivity.
    + apply bind_ok in H. destruct H as ([e1 src1] & _ & H2).
      apply IH in H2. destruct H2 as (body & ->). exists (e1 :: body).
      rewrite <- app_assoc. reflexivity.
Qed.

Lemma read_arg_shape f c strict m toks e rest :
  read_arg f c strict m toks = Ok (e, rest) ->
  exists k body, group_kind_of_begin (tcat c) = Some k /\ e = EGroup k body (tpos c).
Proof.
  destruct f as [|f]; [discriminate|]. simpl.
  destruct (group_kind_of_begin (tcat c)) as [k|]; [|discriminate].
  intro H. apply arg_loop_shape in H. destruct H as (body & ->).
  exists k, body. split; reflexivity.
Qed.

(* ARG_BEGIN_TO_ENV, by computation on Tables.group_classes *)
Lemma group_kind_bracket c :
  is_tc TBracketBegin c = true -> group_kind_of_begin (tcat c) = Some GBracket.
Proof. intro H. apply is_tc_true in H. rewrite H. vm_compute. reflexivity. Qed.

Lemma group_kind_brace c :
  is_tc TGroupBegin c = true -> group_kind_of_begin (tcat c) = Some GBrace.
Proof. intro H. apply is_tc_true in H. rewrite H. vm_compute. reflexivity. Qed.

Lemma group_kind_of_begin_iff c k :
  group_kind_of_begin c = Some k <-> group_tok_begin k = Some c.
Proof. destruct c, k; vm_compute; split; intro H; solve [reflexivity | discriminate H]. Qed.

Lemma opt_appends f : forall args nopt strict m toks args' n' rest,
  read_arg_optional f args nopt strict m toks = Ok ((args', n'), rest) ->
  exists gs, args' = args ++ gs /\ Forall (is_group_of GBracket) gs /\
             n' = nopt - Z.of_nat (length gs) /\
             (gs = [] -> rest = toks) /\
             (n' = 0 \/ stops_at TBracketBegin rest).
Proof.
  induction f as [|f IH]; intros args nopt strict m toks args' n' rest H; [discriminate|].
  simpl in H. destruct (nopt =? 0) eqn:E0.
  { inversion H; subst. exists []. rewrite app_nil_r. apply Z.eqb_eq in E0.
    repeat split; auto. simpl. lia. }
  destruct (read_spacer toks) as [b src1] eqn:Es.
  destruct src1 as [|c src2].
  { inversion H; subst. exists []. rewrite app_nil_r.
    repeat split; auto; [simpl; lia|]. right. unfold stops_at, head_after_spacer.
    rewrite Es. exact I. }
  destruct (is_tc TBracketBegin c) eqn:Ec.
  - apply bind_ok in H. destruct H as ([g src3] & Hg & H).
    apply IH in H. destruct H as (gs & -> & Fg & -> & _ & Hstop).
    apply read_arg_shape in Hg. destruct Hg as (k & body & Hk & ->).
    rewrite (group_kind_bracket c Ec) in Hk. inversion Hk; subst k.
    exists (EGroup GBracket body (tpos c) :: gs). rewrite <- app_assoc.
    repeat split.
    + constructor; [exists body, (tpos c); reflexivity | exact Fg].
    + simpl length. lia.
    + discriminate.
    + destruct Hstop as [Hz|Hs]; [left; simpl length in *; lia | right; exact Hs].
  - inversion H; subst. exists []. rewrite app_nil_r.
    repeat split; auto; [simpl; lia|]. right. unfold stops_at, head_after_spacer.
    rewrite Es. exact Ec.
Qed.

Lemma req_appends f : forall args nreq strict m toks args' n' rest,
  nreq < 0 ->
  read_arg_required f args nreq strict m toks = Ok ((args', n'), rest) ->
  exists gs, args' = args ++ gs /\ Forall (is_group_of GBrace) gs /\
             n' = nreq - Z.of_nat (length gs) /\
             (gs = [] -> rest = toks) /\
             stops_at TGroupBegin rest.
Proof.
  induction f as [|f IH]; intros args nreq strict m toks args' n' rest Hn H; [discriminate|].
  simpl in H. destruct (nreq =? 0) eqn:E0; [apply Z.eqb_eq in E0; lia|].
  destruct toks as [|t0 ts].
  { inversion H; subst. exists []. rewrite app_nil_r. repeat split; auto. simpl. lia. }
  destruct (read_spacer (t0 :: ts)) as [b src1] eqn:Es.
  destruct src1 as [|c src2].
  { inversion H; subst. exists []. rewrite app_nil_r.
    repeat split; auto; [simpl; lia|]. unfold stops_at, head_after_spacer.
    rewrite Es. exact I. }
  destruct (is_tc TGroupBegin c) eqn:Ec.
  - apply bind_ok in H. destruct H as ([g src3] & Hg & H).
    apply IH in H; [|lia]. destruct H as (gs & -> & Fg & -> & _ & Hstop).
    apply read_arg_shape in Hg. destruct Hg as (k & body & Hk & ->).
    rewrite (group_kind_brace c Ec) in Hk. inversion Hk; subst k.
    exists (EGroup GBrace body (tpos c) :: gs). rewrite <- app_assoc.
    repeat split.
    + constructor; [exists body, (tpos c); reflexivity | exact Fg].
    + simpl length. lia.
    + discriminate.
    + exact Hstop.
  - destruct (0 <? nreq) eqn:E1; [apply Z.ltb_lt in E1; lia|].
    inversion H; subst. exists []. rewrite app_nil_r.
    repeat split; auto; [simpl; lia|]. unfold stops_at, head_after_spacer.
    rewrite Es. exact Ec.
Qed.

(* 3b. read_args, one layer: first pass brackets then braces (each with the
   optional spacer before every group); the second pass for brackets is
   entered only if the very next token - no spacer - is a `[`, then the second
   pass for braces only if the very next token is a `{`. *)
Theorem C09_read_args_passes f nreq nopt strict m toks :
  (nreq =? 0) && (nopt =? 0) = false ->
  read_args (S f) nreq nopt strict m toks =
  bind (read_arg_optional f [] nopt strict m toks) (fun '(args1, nopt1, src1) =>
  bind (read_arg_required f args1 nreq strict m src1) (fun '(args2, nreq1, src2) =>
  bind (match src2 with
        | t :: _ => if is_tc TBracketBegin t
                    then read_arg_optional f args2 nopt1 strict m src2
                    else Ok (args2, nopt1, src2)
        | [] => Ok (args2, nopt1, src2)
        end) (fun '(args3, _, src3) =>
  bind (match src3 with
        | t :: _ => if is_tc TGroupBegin t
                    then read_arg_required f args3 nreq1 strict m src3
                    else Ok (args3, nreq1, src3)
        | [] => Ok (args3, nreq1, src3)
        end) (fun '(args4, _, src4) => Ok (args4, src4))))).
Proof. intro H. simpl. rewrite H. reflexivity. Qed.

Definition head_is (k : tc) (toks : list token) : Prop :=
  match toks with t :: _ => is_tc k t = true | [] => False end.
Definition head_is_not (k : tc) (toks : list token) : Prop :=
  match toks with t :: _ => is_tc k t = false | [] => True end.

(* the resulting order: [..]* {..}* and then, glued on without a spacer,
   possibly [..]+ {..}* once more.  Nothing else is ever an argument. *)
Theorem C09_brackets_then_braces f nreq nopt strict m toks args rest :
  nreq < 0 -> nopt < 0 ->
  read_args f nreq nopt strict m toks = Ok (args, rest) ->
  exists b1 c1 b2 c2,
    args = b1 ++ c1 ++ b2 ++ c2 /\
    Forall (is_group_of GBracket) b1 /\ Forall (is_group_of GBrace) c1 /\
    Forall (is_group_of GBracket) b2 /\ Forall (is_group_of GBrace) c2 /\
    (b2 <> [] -> c1 <> []) /\ (c2 <> [] -> b2 <> []) /\
    (args = [] -> rest = toks) /\
    head_is_not TGroupBegin rest /\ (c2 = [] -> head_is_not TBracketBegin rest).
Proof.
  intros Hr Ho H. destruct f as [|f]; [discriminate|].
  rewrite C09_read_args_passes in H.
  2:{ destruct (nreq =? 0) eqn:E; [apply Z.eqb_eq in E; lia | reflexivity]. }
  apply bind_ok in H. destruct H as ([[args1 nopt1] src1] & H1 & H).
  apply opt_appends in H1. destruct H1 as (b1 & E1 & Fb1 & Hn1 & Hu1 & Hs1).
  simpl in E1. subst args1.
  assert (Hs1' : stops_at TBracketBegin src1) by (destruct Hs1 as [Hz|Hs]; [lia | exact Hs]).
  clear Hs1.
  apply bind_ok in H. destruct H as ([[args2 nreq1] src2] & H2 & H).
  apply req_appends in H2; [|exact Hr]. destruct H2 as (c1 & -> & Fc1 & Hn2 & Hu2 & Hs2).
  apply bind_ok in H. destruct H as ([[args3 n3] src3] & H3 & H).
  assert (P3 : exists b2, args3 = (b1 ++ c1) ++ b2 /\ Forall (is_group_of GBracket) b2 /\
                          (b2 = [] -> src3 = src2) /\ (b2 <> [] -> head_is TBracketBegin src2) /\
                          head_is_not TBracketBegin src3).
  { destruct src2 as [|t ts].
    - inversion H3; subst. exists []. rewrite app_nil_r. repeat split; auto. congruence.
    - destruct (is_tc TBracketBegin t) eqn:Et.
      + apply opt_appends in H3. destruct H3 as (b2 & -> & Fb2 & Hn3 & Hu3 & Hs3).
        exists b2. repeat split; auto.
        apply stops_at_head; [discriminate|]. destruct Hs3 as [Hz|Hs]; [lia | exact Hs].
      + inversion H3; subst. exists []. rewrite app_nil_r. repeat split; auto. congruence. }
  destruct P3 as (b2 & -> & Fb2 & Hu3 & He3 & Hh3). clear H3.
  apply bind_ok in H. destruct H as ([[args4 n4] src4] & H4 & H).
  inversion H; subst args4 src4. clear H.
  assert (P4 : exists c2, args = ((b1 ++ c1) ++ b2) ++ c2 /\ Forall (is_group_of GBrace) c2 /\
                          (c2 = [] -> rest = src3) /\ (c2 <> [] -> head_is TGroupBegin src3) /\
                          head_is_not TGroupBegin rest).
  { destruct src3 as [|t ts].
    - inversion H4; subst. exists []. rewrite app_nil_r. repeat split; auto. congruence.
    - destruct (is_tc TGroupBegin t) eqn:Et.
      + apply req_appends in H4; [|lia]. destruct H4 as (c2 & -> & Fc2 & Hn4 & Hu4 & Hs4).
        exists c2. repeat split; auto.
        apply stops_at_head; [discriminate | exact Hs4].
      + inversion H4; subst. exists []. rewrite app_nil_r. repeat split; auto. congruence. }
  destruct P4 as (c2 & -> & Fc2 & Hu4 & He4 & Hh4). clear H4.
  exists b1, c1, b2, c2. rewrite <- !app_assoc. repeat split; try assumption.
  - (* a second bracket pass needs a brace group before it *)
    intros Hb2 Hc1. apply He3 in Hb2. rewrite (Hu2 Hc1) in Hb2.
    apply stops_at_head in Hs1'; [|discriminate].
    destruct src1 as [|t ts]; [exact Hb2|]. simpl in Hb2, Hs1'. congruence.
  - (* a second brace pass needs a bracket group before it *)
    intros Hc2 Hb2. apply He4 in Hc2. rewrite (Hu3 Hb2) in Hc2.
    apply stops_at_head in Hs2; [|discriminate].
    destruct src2 as [|t ts]; [exact Hc2|]. simpl in Hc2, Hs2. congruence.
  - intro Hnil. apply app_eq_nil in Hnil. destruct Hnil as [-> Hnil].
    apply app_eq_nil in Hnil. destruct Hnil as [-> Hnil].
    apply app_eq_nil in Hnil. destruct Hnil as [-> ->].
    rewrite (Hu4 eq_refl), (Hu3 eq_refl), (Hu2 eq_refl), (Hu1 eq_refl). reflexivity.
  - intro Hc2. rewrite (Hu4 Hc2). exact Hh3.
Qed.

(* the command reader hands the rest of the input to read_args; for a name
   outside the signature table the counts are (-1, -1) *)
Theorem C09_command_args f strict m name src :
  assoc_str (ttext name) Tables.signatures = None ->
  read_command (S f) (-1) (-1) 0 strict m (name :: src) =
  bind (read_args f (-1) (-1) strict
          (if mem_str (ttext name) Tables.special_commands then MSpecial else m) src)
       (fun '(args, src1) => Ok ((ttext name, args), src1)).
Proof.
  intro H. simpl. change (skipn 0 (name :: src)) with (name :: src). cbv iota beta.
  rewrite (signature_of_default _ H). reflexivity.
Qed.

(* ====================================================================== *)
(* 4./5. text leaves, and a group closes only on its own delimiter        *)
(* ====================================================================== *)

(* the categories on which read_expr falls through to `TexText(c)`:
   not a math opener (MATH_TOKEN_TO_ENV, generated table), not Escape, not
   GroupBegin *)
Definition leaf_cat (c : tc) : bool :=
  match math_kind_of_begin c with
  | Some _ => false
  | None => negb (tc_beq c TEscape) && negb (tc_beq c TGroupBegin)
  end.

Theorem read_expr_leaf f skip strict m t rest :
  leaf_cat (tcat t) = true ->
  read_expr (S f) skip strict m (t :: rest) = Ok (EText t, rest).
Proof.
  unfold leaf_cat. intro H. simpl.
  destruct (math_kind_of_begin (tcat t)); [discriminate|].
  apply andb_true_iff in H. destruct H as [H1 H2].
  unfold is_tc. apply negb_true_iff in H1, H2. rewrite H1, H2. reflexivity.
Qed.

(* which categories these are, by computation: every category except Escape,
   GroupBegin and the four math openers; in particular both brackets, both
   parentheses, a closing brace, and the two asymmetric math closers *)
Lemma leaf_cat_table c :
  leaf_cat c =
  negb (tc_beq c TEscape || tc_beq c TGroupBegin ||
        existsb (fun x => tc_beq c (fst (fst (snd x)))) Tables.math_classes).
Proof. destruct c; vm_compute; reflexivity. Qed.

Lemma leaf_cat_brackets :
  leaf_cat TBracketBegin = true /\ leaf_cat TBracketEnd = true /\
  leaf_cat TGroupEnd = true /\ leaf_cat TParenBegin = true /\ leaf_cat TParenEnd = true /\
  leaf_cat TMathGroupEnd = true /\ leaf_cat TDisplayMathGroupEnd = true /\
  leaf_cat TText = true /\ leaf_cat TMergedSpacer = true.
Proof. vm_compute. repeat split. Qed.

(* 5. a bracket that does not follow a command is ordinary text: exactly one
   token consumed, in every mode and tolerance, no partner needed *)
Theorem C09_free_bracket_is_text f skip strict m t rest :
  tcat t = TBracketBegin \/ tcat t = TBracketEnd ->
  read_expr (S f) skip strict m (t :: rest) = Ok (EText t, rest).
Proof.
  intro H. apply read_expr_leaf. destruct H as [-> | ->]; vm_compute; reflexivity.
Qed.

(* so is a stray closing brace, a parenthesis, a stray `\)` or `\]` *)
Theorem C09_free_closer_is_text f skip strict m t rest :
  In (tcat t) [TGroupEnd; TParenBegin; TParenEnd; TMathGroupEnd; TDisplayMathGroupEnd] ->
  read_expr (S f) skip strict m (t :: rest) = Ok (EText t, rest).
Proof.
  intro H. apply read_expr_leaf. simpl in H.
  repeat (destruct H as [<- | H]; [vm_compute; reflexivity|]). contradiction.
Qed.

(* GROUP ENDS, by computation on Tables.group_classes *)
Lemma is_group_end_brace t : is_group_end GBrace t = true <-> tcat t = TGroupEnd.
Proof.
  unfold is_group_end. replace (group_tok_end GBrace) with (Some TGroupEnd) by (vm_compute; reflexivity).
  apply is_tc_true.
Qed.

Lemma is_group_end_bracket t : is_group_end GBracket t = true <-> tcat t = TBracketEnd.
Proof.
  unfold is_group_end. replace (group_tok_end GBracket) with (Some TBracketEnd) by (vm_compute; reflexivity).
  apply is_tc_true.
Qed.

(* 4. one layer of the group loop *)
Theorem C09_group_closes_on_own_delimiter f k pos strict m acc t src :
  is_group_end k t = true ->
  read_arg_loop (S f) k pos strict m acc (t :: src) = Ok (EGroup k acc pos, src).
Proof. intro H. simpl. rewrite H. reflexivity. Qed.

Theorem C09_group_continues f k pos strict m acc t src :
  is_group_end k t = false ->
  read_arg_loop (S f) k pos strict m acc (t :: src) =
  bind (read_expr f [] strict m (t :: src)) (fun '(e, src1) =>
    read_arg_loop f k pos strict m (acc ++ [e]) src1).
Proof. intro H. simpl. rewrite H. reflexivity. Qed.

(* the end of the input: the tolerant reader closes the group, the strict
   one raises TypeError *)
Theorem C09_group_at_eof f k pos strict m acc :
  read_arg_loop (S f) k pos strict m acc [] =
  if strict then Err TypeError else Ok (EGroup k acc pos, []).
Proof. reflexivity. Qed.

(* a token that is a text leaf and not this group's closer becomes one text
   element of the group *)
Theorem C09_group_leaf f k pos strict m acc t src :
  is_group_end k t = false -> leaf_cat (tcat t) = true ->
  read_arg_loop (S (S f)) k pos strict m acc (t :: src) =
  read_arg_loop (S f) k pos strict m (acc ++ [EText t]) src.
Proof.
  intros He Hl. rewrite (C09_group_continues (S f) k pos strict m acc t src He).
  rewrite (read_expr_leaf f [] strict m t src Hl). reflexivity.
Qed.

(* `]` and `[` inside braces, `}` (and `[`) inside brackets *)
Theorem C09_bracket_inside_braces f pos strict m acc t src :
  tcat t = TBracketEnd \/ tcat t = TBracketBegin ->
  read_arg_loop (S (S f)) GBrace pos strict m acc (t :: src) =
  read_arg_loop (S f) GBrace pos strict m (acc ++ [EText t]) src.
Proof.
  intro H. apply C09_group_leaf.
  - destruct (is_group_end GBrace t) eqn:E; [|reflexivity].
    apply is_group_end_brace in E. destruct H as [H|H]; congruence.
  - destruct H as [-> | ->]; vm_compute; reflexivity.
Qed.

Theorem C09_brace_end_inside_brackets f pos strict m acc t src :
  tcat t = TGroupEnd \/ tcat t = TBracketBegin ->
  read_arg_loop (S (S f)) GBracket pos strict m acc (t :: src) =
  read_arg_loop (S f) GBracket pos strict m (acc ++ [EText t]) src.
Proof.
  intro H. apply C09_group_leaf.
  - destruct (is_group_end GBracket t) eqn:E; [|reflexivity].
    apply is_group_end_bracket in E. destruct H as [H|H]; congruence.
  - destruct H as [-> | ->]; vm_compute; reflexivity.
Qed.

(* exact contents, flat case: a group whose body consists of leaf tokens other
   than its own closer has exactly those tokens as contents, whatever brackets
   of the other kind occur among them; `f` spare fuel is arbitrary *)
Definition plain_for (k : groupkind) (t : token) : Prop :=
  leaf_cat (tcat t) = true /\ is_group_end k t = false.

Theorem C09_flat_group_exact k pos strict m t_end rest :
  is_group_end k t_end = true ->
  forall body f acc, Forall (plain_for k) body ->
  read_arg_loop (S (length body + f)) k pos strict m acc (body ++ t_end :: rest)
  = Ok (EGroup k (acc ++ map EText body) pos, rest).
Proof.
  intros He body. induction body as [|b bs IH]; intros f acc Hp.
  - simpl app. rewrite app_nil_r. apply C09_group_closes_on_own_delimiter. exact He.
  - inversion Hp as [|? ? [Hl Hn] Hp']; subst.
    change (S (length (b :: bs) + f)) with (S (S (length bs + f))).
    change ((b :: bs) ++ t_end :: rest) with (b :: (bs ++ t_end :: rest)).
    rewrite (C09_group_leaf _ k pos strict m acc b _ Hn Hl).
    rewrite (IH f (acc ++ [EText b]) Hp'). rewrite <- app_assoc. reflexivity.
Qed.

Lemma estr_list_texts body : estr_list (map EText body) = texts body.
Proof. unfold estr_list, texts. rewrite map_map. reflexivity. Qed.

(* the delimiters, by computation on Tables.group_classes *)
Lemma group_delims :
  group_begin GBracket = [91]%N /\ group_end GBracket = [93]%N /\
  group_begin GBrace = [123]%N /\ group_end GBrace = [125]%N.
Proof. vm_compute. repeat split. Qed.

Lemma estr_group k body pos :
  estr (EGroup k body pos) = group_begin k ++ estr_list body ++ group_end k.
Proof. reflexivity. Qed.

Theorem C09_flat_arg_exact f c k strict m t_end rest body :
  group_kind_of_begin (tcat c) = Some k ->
  is_group_end k t_end = true -> Forall (plain_for k) body ->
  read_arg (S (S (length body + f))) c strict m (body ++ t_end :: rest)
  = Ok (EGroup k (map EText body) (tpos c), rest) /\
  estr (EGroup k (map EText body) (tpos c)) = group_begin k ++ texts body ++ group_end k.
Proof.
  intros Hk He Hp. split.
  - simpl. rewrite Hk. apply (C09_flat_group_exact k (tpos c) strict m t_end rest He body f [] Hp).
  - rewrite estr_group, estr_list_texts. reflexivity.
Qed.

(* ====================================================================== *)
(* 6./7. math regions                                                     *)
(* ====================================================================== *)

(* MATH_TOKEN_TO_ENV: c opens kind k iff c is k's begin token in
   Tables.math_classes (four distinct begin tokens) *)
Theorem math_begin_kinds c k :
  math_kind_of_begin c = Some k <-> math_tok_begin k = Some c.
Proof. destruct c, k; vm_compute; split; intro H; solve [reflexivity | discriminate H]. Qed.

Lemma math_tok_end_total k : exists e, math_tok_end k = Some e.
Proof. destruct k; vm_compute; eauto. Qed.

Lemma is_math_end_iff k t : is_math_end k t = true <-> math_tok_end k = Some (tcat t).
Proof.
  unfold is_math_end. destruct (math_tok_end_total k) as (e & ->).
  rewrite is_tc_true. split; [intros ->; reflexivity | intro H; inversion H; reflexivity].
Qed.

(* the begin/end strings of the four kinds, by computation *)
Lemma math_delims :
  (math_begin MInline = [36]%N /\ math_end MInline = [36]%N) /\
  (math_begin MDisplay = [36; 36]%N /\ math_end MDisplay = [36; 36]%N) /\
  (math_begin MParen = [92; 40]%N /\ math_end MParen = [92; 41]%N) /\
  (math_begin MBracket = [92; 91]%N /\ math_end MBracket = [92; 93]%N).
Proof. vm_compute. repeat split. Qed.

(* the begin/end token categories of the four kinds, by computation *)
Lemma math_tokens :
  (math_tok_begin MInline = Some TMathSwitch /\ math_tok_end MInline = Some TMathSwitch) /\
  (math_tok_begin MDisplay = Some TDisplayMathSwitch /\
   math_tok_end MDisplay = Some TDisplayMathSwitch) /\
  (math_tok_begin MParen = Some TMathGroupBegin /\ math_tok_end MParen = Some TMathGroupEnd) /\
  (math_tok_begin MBracket = Some TDisplayMathGroupBegin /\
   math_tok_end MBracket = Some TDisplayMathGroupEnd).
Proof. vm_compute. repeat split. Qed.

(* a math opener starts the math loop of its kind, in every mode; the
   surrounding skip list and mode are dropped *)
Theorem C12_math_opens f skip strict m c src k :
  math_kind_of_begin (tcat c) = Some k ->
  read_expr (S f) skip strict m (c :: src) = read_math_loop f k (tpos c) strict [] src.
Proof. intro H. simpl. rewrite H. reflexivity. Qed.

(* 7. one layer of the math loop *)
Theorem C12_math_closes f k pos strict acc t src :
  is_math_end k t = true ->
  read_math_loop (S f) k pos strict acc (t :: src) = Ok (EMath k acc pos, src).
Proof. intro H. simpl. rewrite H. reflexivity. Qed.

Theorem C12_math_continues f k pos strict acc t src :
  is_math_end k t = false ->
  read_math_loop (S f) k pos strict acc (t :: src) =
  bind (read_expr f [] strict MMath (t :: src)) (fun '(e, src1) =>
    read_math_loop f k pos strict (acc ++ [e]) src1).
Proof. intro H. simpl. rewrite H. reflexivity. Qed.

(* an unclosed math region is an EOFError in BOTH tolerance modes *)
Theorem C12_math_at_eof f k pos strict acc :
  read_math_loop (S f) k pos strict acc [] = Err EOFError.
Proof. reflexivity. Qed.

Lemma estr_math k body pos :
  estr (EMath k body pos) = math_begin k ++ estr_list body ++ math_end k.
Proof. reflexivity. Qed.

(* by induction: the result is one math node of this kind, at the opener's
   position, whose body extends the accumulator; it prints as
   begin ++ body ++ end *)
Theorem read_math_loop_spec f : forall k pos strict acc toks e rest,
  read_math_loop f k pos strict acc toks = Ok (e, rest) ->
  exists body, e = EMath k (acc ++ body) pos /\
               estr e = math_begin k ++ estr_list (acc ++ body) ++ math_end k.
Proof.
  induction f as [|f IH]; intros k pos strict acc toks e rest H; [discriminate|].
  simpl in H. destruct toks as [|t src]; [discriminate|].
  destruct (is_math_end k t).
  - inversion H; subst. exists []. rewrite app_nil_r. split; reflexivity.
  - apply bind_ok in H. destruct H as ([e1 src1] & _ & H2).
    apply IH in H2. destruct H2 as (body & -> & _). exists (e1 :: body).
    rewrite <- app_assoc. split; reflexivity.
Qed.

(* whole region, from the opener *)
Theorem C12_math_region f skip strict m c src k e rest :
  math_kind_of_begin (tcat c) = Some k ->
  read_expr (S f) skip strict m (c :: src) = Ok (e, rest) ->
  exists body, e = EMath k body (tpos c) /\
               estr e = math_begin k ++ estr_list body ++ math_end k.
Proof.
  intros Hk H. rewrite (C12_math_opens f skip strict m c src k Hk) in H.
  apply read_math_loop_spec in H. exact H.
Qed.

(* a leaf token that is not this kind's closer becomes one text element *)
Theorem C12_math_leaf f k pos strict acc t src :
  is_math_end k t = false -> leaf_cat (tcat t) = true ->
  read_math_loop (S (S f)) k pos strict acc (t :: src) =
  read_math_loop (S f) k pos strict (acc ++ [EText t]) src.
Proof.
  intros He Hl. rewrite (C12_math_continues (S f) k pos strict acc t src He).
  rewrite (read_expr_leaf f [] strict MMath t src Hl). reflexivity.
Qed.

(* exact body, flat case: leaf tokens (brackets, parentheses, closing braces
   included, balanced or not) up to the first closer of this kind *)
Definition plain_in_math (k : mathkind) (t : token) : Prop :=
  leaf_cat (tcat t) = true /\ is_math_end k t = false.

Theorem C12_flat_math_exact k pos strict t_end rest :
  is_math_end k t_end = true ->
  forall body f acc, Forall (plain_in_math k) body ->
  read_math_loop (S (length body + f)) k pos strict acc (body ++ t_end :: rest)
  = Ok (EMath k (acc ++ map EText body) pos, rest).
Proof.
  intros He body. induction body as [|b bs IH]; intros f acc Hp.
  - simpl app. rewrite app_nil_r. apply C12_math_closes. exact He.
  - inversion Hp as [|? ? [Hl Hn] Hp']; subst.
    change (S (length (b :: bs) + f)) with (S (S (length bs + f))).
    change ((b :: bs) ++ t_end :: rest) with (b :: (bs ++ t_end :: rest)).
    rewrite (C12_math_leaf _ k pos strict acc b _ Hn Hl).
    rewrite (IH f (acc ++ [EText b]) Hp'). rewrite <- app_assoc. reflexivity.
Qed.

Theorem C12_flat_region_exact f skip strict m c k t_end rest body :
  math_kind_of_begin (tcat c) = Some k ->
  is_math_end k t_end = true -> Forall (plain_in_math k) body ->
  read_expr (S (S (length body + f))) skip strict m (c :: body ++ t_end :: rest)
  = Ok (EMath k (map EText body) (tpos c), rest) /\
  estr (EMath k (map EText body) (tpos c)) = math_begin k ++ texts body ++ math_end k.
Proof.
  intros Hk He Hp. split.
  - rewrite (C12_math_opens _ skip strict m c _ k Hk).
    apply (C12_flat_math_exact k (tpos c) strict t_end rest He body f [] Hp).
  - rewrite estr_math, estr_list_texts. reflexivity.
Qed.

(* ====================================================================== *)
(* 8. brackets in math, zero-argument operators, \item in math            *)
(* ====================================================================== *)

Theorem C12_brackets_in_math_are_text f skip strict t rest :
  In (tcat t) [TBracketBegin; TBracketEnd; TParenBegin; TParenEnd; TGroupEnd] ->
  read_expr (S f) skip strict MMath (t :: rest) = Ok (EText t, rest).
Proof.
  intro H. apply read_expr_leaf. simpl in H.
  repeat (destruct H as [<- | H]; [vm_compute; reflexivity|]). contradiction.
Qed.

(* inside a math loop: the bracket is appended as text, nothing is opened,
   so nothing has to balance *)
Theorem C12_bracket_in_math_loop f k pos strict acc t src :
  In (tcat t) [TBracketBegin; TBracketEnd; TParenBegin; TParenEnd; TGroupEnd] ->
  read_math_loop (S (S f)) k pos strict acc (t :: src) =
  read_math_loop (S f) k pos strict (acc ++ [EText t]) src.
Proof.
  intro H. apply C12_math_leaf.
  - destruct (is_math_end k t) eqn:E; [|reflexivity]. exfalso.
    apply is_math_end_iff in E. simpl in H.
    repeat (destruct H as [H | H]; [rewrite <- H in E; destruct k; vm_compute in E; discriminate E|]).
    contradiction.
  - simpl in H. repeat (destruct H as [<- | H]; [vm_compute; reflexivity|]). contradiction.
Qed.

(* the names of the signature table with signature (0, 0), by filtering the
   generated table *)
Definition zero_arg_names : list str :=
  map fst (filter (fun x => (fst (snd x) =? 0) && (snd (snd x) =? 0)) Tables.signatures).

Lemma assoc_str_in {A} (n : str) (l : list (str * A)) v : assoc_str n l = Some v -> In (n, v) l.
Proof.
  induction l as [|[k' v'] l IH]; simpl; [discriminate|].
  destruct (str_eqb n k') eqn:E.
  - intro H. inversion H; subst. apply str_eqb_eq in E. subst. left. reflexivity.
  - intro H. right. apply IH. exact H.
Qed.

Theorem zero_arg_operators n : signature_of n = (0, 0) <-> In n zero_arg_names.
Proof.
  split.
  - unfold signature_of. destruct (assoc_str n Tables.signatures) as [s|] eqn:E; [|discriminate].
    intros ->. apply assoc_str_in in E. unfold zero_arg_names.
    apply in_map_iff. exists (n, (0, 0)). split; [reflexivity|].
    apply filter_In. split; [exact E | reflexivity].
  - intro H.
    assert (A : forallb (fun n => match signature_of n with (a, b) => (a =? 0) && (b =? 0) end)
                        zero_arg_names = true) by (vm_compute; reflexivity).
    rewrite forallb_forall in A. specialize (A n H).
    destruct (signature_of n) as [a b]. apply andb_true_iff in A. destruct A as [A1 A2].
    apply Z.eqb_eq in A1, A2. subst. reflexivity.
Qed.

(* the five operators named by the property are among them (checked against
   the generated table) *)
Definition s_cup : str := [99; 117; 112]%N.
Definition s_cap : str := [99; 97; 112]%N.
Definition s_in : str := [105; 110]%N.
Definition s_notin : str := [110; 111; 116; 105; 110]%N.
Definition s_infty : str := [105; 110; 102; 116; 121]%N.

Lemma named_operators_zero_arg :
  forall n, In n [s_cup; s_cap; s_in; s_notin; s_infty] -> signature_of n = (0, 0).
Proof.
  intros n H. simpl in H.
  repeat (destruct H as [<- | H]; [vm_compute; reflexivity|]). contradiction.
Qed.

Lemma zero_arg_not_item_begin n :
  In n zero_arg_names -> str_eqb n s_item = false /\ str_eqb n s_begin = false.
Proof.
  intro H.
  assert (A : forallb (fun n => negb (str_eqb n s_item) && negb (str_eqb n s_begin))
                      zero_arg_names = true) by (vm_compute; reflexivity).
  rewrite forallb_forall in A. specialize (A n H).
  apply andb_true_iff in A. destruct A as [A1 A2].
  apply negb_true_iff in A1, A2. split; assumption.
Qed.

(* a zero-argument name consumes nothing after itself: what follows - a `[`,
   a `(`, a `{` - stays in the surrounding text *)
Theorem C12_zero_arg_command f strict m nametok src :
  signature_of (ttext nametok) = (0, 0) ->
  read_command (S (S f)) (-1) (-1) 0 strict m (nametok :: src) = Ok ((ttext nametok, []), src).
Proof.
  intro H. simpl. change (skipn 0 (nametok :: src)) with (nametok :: src). cbv iota beta.
  rewrite H. reflexivity.
Qed.

Lemma escape_not_math_begin c : is_tc TEscape c = true -> math_kind_of_begin (tcat c) = None.
Proof. intro H. apply is_tc_true in H. rewrite H. vm_compute. reflexivity. Qed.

Theorem C12_zero_arg_operator f skip strict m c nametok src :
  is_tc TEscape c = true -> signature_of (ttext nametok) = (0, 0) ->
  read_expr (S (S (S f))) skip strict m (c :: nametok :: src)
  = Ok (ECmd (strip (ttext nametok)) [] [] (tpos c), src).
Proof.
  intros Hc Hn. cbn [read_expr]. rewrite (escape_not_math_begin c Hc), Hc.
  rewrite (C12_zero_arg_command f strict m nametok src Hn). cbn [bind].
  apply zero_arg_operators in Hn. apply zero_arg_not_item_begin in Hn. destruct Hn as [H1 H2].
  rewrite H1, H2. reflexivity.
Qed.

(* and then the bracket after the operator is read as text by the
   surrounding math loop (C12_bracket_in_math_loop) *)
Theorem C12_operator_then_bracket f k pos strict acc c nametok t src :
  is_tc TEscape c = true -> signature_of (ttext nametok) = (0, 0) ->
  In (tcat t) [TBracketBegin; TBracketEnd; TParenBegin; TParenEnd; TGroupEnd] ->
  read_math_loop (S (S (S (S (S f))))) k pos strict acc (c :: nametok :: t :: src) =
  read_math_loop (S (S (S f))) k pos strict
    (acc ++ [ECmd (strip (ttext nametok)) [] [] (tpos c); EText t]) src.
Proof.
  intros Hc Hn Ht.
  assert (He : is_math_end k c = false).
  { destruct (is_math_end k c) eqn:E; [|reflexivity]. exfalso.
    apply is_math_end_iff in E. apply is_tc_true in Hc. rewrite Hc in E.
    destruct k; vm_compute in E; discriminate E. }
  rewrite (C12_math_continues _ k pos strict acc c _ He).
  rewrite (C12_zero_arg_operator (S f) [] strict MMath c nametok (t :: src) Hc Hn). cbn [bind].
  rewrite (C12_bracket_in_math_loop (S (S f)) k pos strict _ t src Ht).
  rewrite <- app_assoc. reflexivity.
Qed.

(* the command reader returns the name token's text *)
Lemma read_command_name f nreq nopt strict m nametok src name args rest :
  read_command f nreq nopt 0 strict m (nametok :: src) = Ok ((name, args), rest) ->
  name = ttext nametok.
Proof.
  destruct f as [|f]; [discriminate|]. simpl.
  change (skipn 0 (nametok :: src)) with (nametok :: src). cbv iota beta.
  destruct (if (nreq <? 0) && (nopt <? 0) then signature_of (ttext nametok) else (nreq, nopt))
    as [nr no].
  intro H. apply bind_ok in H. destruct H as ([a s1] & _ & H). inversion H. reflexivity.
Qed.

(* \item in math mode: AssertionError as soon as the command itself reads *)
Theorem C12_item_rejected_in_math f skip strict c src name args src1 :
  is_tc TEscape c = true ->
  read_command f (-1) (-1) 0 strict MMath src = Ok ((name, args), src1) ->
  str_eqb name s_item = true ->
  read_expr (S f) skip strict MMath (c :: src) = Err AssertionError.
Proof.
  intros Hc Hcmd Hi. cbn [read_expr]. rewrite (escape_not_math_begin c Hc), Hc, Hcmd.
  cbn [bind]. rewrite Hi. reflexivity.
Qed.

(* whatever the fuel and whatever follows: `\item` never yields a node in
   math mode *)
Theorem C12_item_never_parses_in_math f skip strict c nametok src r :
  is_tc TEscape c = true -> ttext nametok = s_item ->
  read_expr f skip strict MMath (c :: nametok :: src) <> Ok r.
Proof.
  intros Hc Hn H. destruct f as [|f]; [discriminate|].
  cbn [read_expr] in H. rewrite (escape_not_math_begin c Hc), Hc in H.
  apply bind_ok in H. destruct H as ([[name args] src1] & Hcmd & H).
  apply read_command_name in Hcmd. rewrite Hn in Hcmd. subst name.
  replace (str_eqb s_item s_item) with true in H by (vm_compute; reflexivity).
  simpl in H. discriminate H.
Qed.

(* errors of a body expression abort the math region *)
Theorem C12_math_loop_propagates f k pos strict acc t src e :
  is_math_end k t = false -> read_expr f [] strict MMath (t :: src) = Err e ->
  read_math_loop (S f) k pos strict acc (t :: src) = Err e.
Proof.
  intros He H. rewrite (C12_math_continues f k pos strict acc t src He), H. reflexivity.
Qed.

(* ====================================================================== *)
(* 9. what is returned is a suffix of what was given: a region ends AT a  *)
(*    closer of its own kind                                              *)
(* ====================================================================== *)

Definition suffix (rest toks : list token) : Prop := exists pre, toks = pre ++ rest.

Lemma suffix_refl l : suffix l l.
Proof. exists []. reflexivity. Qed.
Lemma suffix_trans a b c : suffix a b -> suffix b c -> suffix a c.
Proof. intros [p ->] [q ->]. exists (q ++ p). rewrite app_assoc. reflexivity. Qed.
Lemma suffix_cons x a b : suffix a b -> suffix a (x :: b).
Proof. intros [p ->]. exists (x :: p). reflexivity. Qed.
Lemma suffix_uncons x a b : suffix (x :: a) b -> suffix a b.
Proof. intros [p ->]. exists (p ++ [x]). rewrite <- app_assoc. reflexivity. Qed.
Lemma suffix_skipn n l : suffix (skipn n l) l.
Proof. exists (firstn n l). symmetry. apply firstn_skipn. Qed.
Lemma suffix_nil l : suffix [] l.
Proof. exists l. rewrite app_nil_r. reflexivity. Qed.

Lemma read_spacer_suffix toks b src : read_spacer toks = (b, src) -> suffix src toks.
Proof.
  intro H. apply read_spacer_at_most_one in H.
  destruct H as [(_ & -> & _) | (_ & t & -> & _)]; [apply suffix_refl|].
  apply suffix_cons, suffix_refl.
Qed.

Lemma skip_scan_suffix target acc toks body rest :
  skip_scan target acc toks = (body, rest) -> suffix rest toks.
Proof.
  revert acc; induction toks as [|t r IH]; intros acc H; simpl in H.
  - inversion H. apply suffix_refl.
  - destruct (starts_with _ _); [inversion H; subst; apply suffix_refl|].
    apply suffix_cons. eapply IH. exact H.
Qed.

Lemma read_skip_env_suffix name args pos toks e rest :
  read_skip_env name args pos toks = Ok (e, rest) -> suffix rest toks.
Proof.
  unfold read_skip_env. destruct (skip_scan (env_end name) [] toks) as [body r] eqn:E.
  apply skip_scan_suffix in E.
  destruct toks as [|t0 ts]; [discriminate|]. destruct r as [|r0 rs]; [discriminate|].
  destruct (starts_with _ _); [|discriminate]. intro H; inversion H; subst.
  eapply suffix_trans; [apply suffix_skipn | exact E].
Qed.

Definition suf_expr f := forall skip strict m toks e rest,
  read_expr f skip strict m toks = Ok (e, rest) -> suffix rest toks.
Definition suf_item f := forall acc toks es rest,
  read_item_loop f acc toks = Ok (es, rest) -> suffix rest toks.
Definition suf_math f := forall k pos strict acc toks e rest,
  read_math_loop f k pos strict acc toks = Ok (e, rest) -> suffix rest toks.
Definition suf_env f := forall name args pos skip strict m acc toks e rest,
  read_env_loop f name args pos skip strict m acc toks = Ok (e, rest) -> suffix rest toks.
Definition suf_command f := forall nreq nopt sk strict m toks name args rest,
  read_command f nreq nopt sk strict m toks = Ok ((name, args), rest) ->
  suffix rest (skipn sk toks).
Definition suf_args f := forall nreq nopt strict m toks args rest,
  read_args f nreq nopt strict m toks = Ok (args, rest) -> suffix rest toks.
Definition suf_opt f := forall args nopt strict m toks args' n' rest,
  read_arg_optional f args nopt strict m toks = Ok ((args', n'), rest) -> suffix rest toks.
Definition suf_req f := forall args nreq strict m toks args' n' rest,
  read_arg_required f args nreq strict m toks = Ok ((args', n'), rest) -> suffix rest toks.
Definition suf_arg f := forall c strict m toks e rest,
  read_arg f c strict m toks = Ok (e, rest) -> suffix rest toks.
Definition suf_argloop f := forall k pos strict m acc toks e rest,
  read_arg_loop f k pos strict m acc toks = Ok (e, rest) -> suffix rest toks.

Definition suf_all f :=
  suf_expr f /\ suf_item f /\ suf_math f /\ suf_env f /\ suf_command f /\ suf_args f /\
  suf_opt f /\ suf_req f /\ suf_arg f /\ suf_argloop f.

Ltac use_suf :=
  repeat match goal with
  | IH : suf_expr ?f, H : read_expr ?f _ _ _ _ = Ok _ |- _ => apply IH in H
  | IH : suf_item ?f, H : read_item_loop ?f _ _ = Ok _ |- _ => apply IH in H
  | IH : suf_math ?f, H : read_math_loop ?f _ _ _ _ _ = Ok _ |- _ => apply IH in H
  | IH : suf_env ?f, H : read_env_loop ?f _ _ _ _ _ _ _ _ = Ok _ |- _ => apply IH in H
  | IH : suf_command ?f, H : read_command ?f _ _ _ _ _ _ = Ok _ |- _ => apply IH in H
  | IH : suf_args ?f, H : read_args ?f _ _ _ _ _ = Ok _ |- _ => apply IH in H
  | IH : suf_opt ?f, H : read_arg_optional ?f _ _ _ _ _ = Ok _ |- _ => apply IH in H
  | IH : suf_req ?f, H : read_arg_required ?f _ _ _ _ _ = Ok _ |- _ => apply IH in H
  | IH : suf_arg ?f, H : read_arg ?f _ _ _ _ = Ok _ |- _ => apply IH in H
  | IH : suf_argloop ?f, H : read_arg_loop ?f _ _ _ _ _ _ = Ok _ |- _ => apply IH in H
  | H : read_spacer _ = (_, _) |- _ => apply read_spacer_suffix in H
  | H : read_skip_env _ _ _ _ = Ok _ |- _ => apply read_skip_env_suffix in H
  end.

Ltac suf_chain :=
  first [ apply suffix_refl
        | assumption
        | apply suffix_nil
        | apply suffix_skipn
        | apply suffix_cons; suf_chain
        | match goal with
          | H : suffix ?a ?b |- suffix ?a ?c => apply (suffix_trans a b c H); clear H; suf_chain
          | H : suffix (?x :: ?a) ?b |- suffix ?a ?c =>
            apply (suffix_trans a b c (suffix_uncons x a b H)); clear H; suf_chain
          end ].

Ltac finish_suf :=
  use_suf;
  repeat match goal with H : suffix ?a ?a |- _ => clear H end;
  suf_chain.

Lemma suf_all_holds : forall f, suf_all f.
Proof.
  induction f as [|f IH].
  { unfold suf_all, suf_expr, suf_item, suf_math, suf_env, suf_command, suf_args, suf_opt,
      suf_req, suf_arg, suf_argloop.
    repeat split; intros; simpl in *; discriminate. }
  destruct IH as (IHe & IHi & IHm & IHv & IHc & IHa & IHo & IHr & IHg & IHl).
  unfold suf_all.
  repeat match goal with |- _ /\ _ => split end;
    [unfold suf_expr | unfold suf_item | unfold suf_math | unfold suf_env | unfold suf_command
     | unfold suf_args | unfold suf_opt | unfold suf_req | unfold suf_arg | unfold suf_argloop].
  - intros skip strict m toks e rest H. simpl in H. peel_all H; finish_suf.
  - intros acc toks es rest H. simpl in H. peel_all H; finish_suf.
  - intros k pos strict acc toks e rest H. simpl in H. peel_all H; finish_suf.
  - intros name args pos skip strict m acc toks e rest H. simpl in H. peel_all H; finish_suf.
  - intros nreq nopt sk strict m toks name args rest H. simpl in H. peel_all H; finish_suf.
  - intros nreq nopt strict m toks args rest H. simpl in H. peel_all H; finish_suf.
  - intros args nopt strict m toks args' n' rest H. simpl in H. peel_all H; finish_suf.
  - intros args nreq strict m toks args' n' rest H. simpl in H. peel_all H; finish_suf.
  - intros c strict m toks e rest H. simpl in H. peel_all H; finish_suf.
  - intros k pos strict m acc toks e rest H. simpl in H. peel_all H; finish_suf.
Qed.

(* a math region ends AT a closer of its own kind: what was consumed is some
   tokens `pre` (the body) and one closing token *)
Theorem math_region_ends_at_closer f : forall k pos strict acc toks e rest,
  read_math_loop f k pos strict acc toks = Ok (e, rest) ->
  exists pre t_end, toks = pre ++ t_end :: rest /\ is_math_end k t_end = true.
Proof.
  induction f as [|f IH]; intros k pos strict acc toks e rest H; [discriminate|].
  simpl in H. destruct toks as [|t src]; [discriminate|].
  destruct (is_math_end k t) eqn:Et.
  - inversion H; subst. exists [], t. split; [reflexivity | exact Et].
  - apply bind_ok in H. destruct H as ([e1 src1] & H1 & H2).
    apply (proj1 (suf_all_holds f)) in H1. destruct H1 as [p Hp].
    apply IH in H2. destruct H2 as (pre & t_end & -> & He).
    exists (p ++ pre), t_end. rewrite Hp, <- app_assoc. split; [reflexivity | exact He].
Qed.

(* hence: no closer of this kind among the tokens - no math node, whatever the
   fuel and in BOTH tolerance modes *)
Theorem C12_unclosed_math_fails f k pos strict acc toks r :
  (forall t, In t toks -> is_math_end k t = false) ->
  read_math_loop f k pos strict acc toks <> Ok r.
Proof.
  intros Hno H. destruct r as [e rest]. apply math_region_ends_at_closer in H.
  destruct H as (pre & t_end & -> & He).
  rewrite Hno in He; [discriminate|]. apply in_or_app. right. left. reflexivity.
Qed.

(* a group ends AT a closer of its own kind - or, tolerantly, at the end of
   the input *)
Theorem group_ends_at_closer f : forall k pos strict m acc toks e rest,
  read_arg_loop f k pos strict m acc toks = Ok (e, rest) ->
  (exists pre t_end, toks = pre ++ t_end :: rest /\ is_group_end k t_end = true) \/
  (strict = false /\ rest = []).
Proof.
  induction f as [|f IH]; intros k pos strict m acc toks e rest H; [discriminate|].
  simpl in H. destruct toks as [|t src].
  - destruct strict; [discriminate|]. inversion H; subst. right. split; reflexivity.
  - destruct (is_group_end k t) eqn:Et.
    + inversion H; subst. left. exists [], t. split; [reflexivity | exact Et].
    + apply bind_ok in H. destruct H as ([e1 src1] & H1 & H2).
      apply (proj1 (suf_all_holds f)) in H1. destruct H1 as [p Hp].
      apply IH in H2. destruct H2 as [(pre & t_end & -> & He) | Htol]; [|right; exact Htol].
      left. exists (p ++ pre), t_end. rewrite Hp, <- app_assoc. split; [reflexivity | exact He].
Qed.

(* a strict group without its closer is never read *)
Theorem C09_unclosed_group_fails f k pos m acc toks r :
  (forall t, In t toks -> is_group_end k t = false) ->
  read_arg_loop f k pos true m acc toks <> Ok r.
Proof.
  intros Hno H. destruct r as [e rest]. apply group_ends_at_closer in H.
  destruct H as [(pre & t_end & -> & He) | [Hs _]]; [|discriminate Hs].
  rewrite Hno in He; [discriminate|]. apply in_or_app. right. left. reflexivity.
Qed.

(* ---------------------------------------------------------------------- *)
(* converse of read_expr_leaf: a text node is only ever produced from one  *)
(* leaf token                                                              *)

Lemma env_loop_shape f : forall name args pos skip strict m acc toks e rest,
  read_env_loop f name args pos skip strict m acc toks = Ok (e, rest) ->
  exists body, e = ENamed name args body pos.
Proof.
  induction f as [|f IH]; intros name args pos skip strict m acc toks e rest H; [discriminate|].
  simpl in H. peel_all H;
    try match goal with
        | H' : read_env_loop f _ _ _ _ _ _ _ _ = Ok _ |- _ => apply IH in H'; exact H'
        end; eauto.
Qed.

Lemma read_skip_env_shape name args pos toks e rest :
  read_skip_env name args pos toks = Ok (e, rest) -> exists body, e = ENamed name args body pos.
Proof.
  unfold read_skip_env. destruct (skip_scan _ _ _) as [b r].
  destruct toks; [discriminate|]. destruct r; [discriminate|].
  destruct (starts_with _ _); [|discriminate]. intro H. inversion H. eauto.
Qed.

Theorem read_expr_text_only_leaf f skip strict m toks t rest :
  read_expr f skip strict m toks = Ok (EText t, rest) ->
  toks = t :: rest /\ leaf_cat (tcat t) = true.
Proof.
  destruct f as [|f]; [discriminate|]. simpl.
  destruct toks as [|c src]; [discriminate|].
  destruct (math_kind_of_begin (tcat c)) as [k|] eqn:Ek.
  { intro H. apply read_math_loop_spec in H. destruct H as (body & H & _). discriminate H. }
  destruct (is_tc TEscape c) eqn:E1.
  { intro H. exfalso. apply bind_ok in H. destruct H as ([[name args] src1] & _ & H).
    destruct (str_eqb name s_item).
    - destruct (mode_is_math m); [discriminate|].
      apply bind_ok in H. destruct H as ([cs s2] & _ & H). discriminate H.
    - destruct (str_eqb name s_begin && negb (mode_is_special m)); [|discriminate H].
      destruct args as [|a0 args']; [discriminate|].
      destruct (mem_str _ skip).
      + apply read_skip_env_shape in H. destruct H as (b & H). discriminate H.
      + apply env_loop_shape in H. destruct H as (b & H). discriminate H. }
  destruct (is_tc TGroupBegin c) eqn:E2.
  { intro H. exfalso. apply read_arg_shape in H. destruct H as (k & body & _ & H). discriminate H. }
  intro H. inversion H; subst. split; [reflexivity|].
  unfold leaf_cat. rewrite Ek. unfold is_tc in E1, E2. rewrite E1, E2. reflexivity.
Qed.

(* ====================================================================== *)
(* 10. section 1 lifted to whole token streams: every MergedSpacer token  *)
(*     of `tokens_of_string s` holds at most one line break               *)
(* ====================================================================== *)

Lemma lookup_asym_in m a b t : lookup_asym m a b = Some t -> In t (map snd m).
Proof.
  induction m as [|[[x y] t'] m IH]; unfold lookup_asym; fold lookup_asym; [discriminate|].
  destruct (cc_beq a x && cc_beq b y).
  - intro H; inversion H; subst. left. reflexivity.
  - intro H. right. apply IH. exact H.
Qed.

Lemma lookup_sym_in m a t : lookup_sym m a = Some t -> In t (map snd m).
Proof.
  induction m as [|[x t'] m IH]; unfold lookup_sym; fold lookup_sym; [discriminate|].
  destruct (cc_beq a x).
  - intro H; inversion H; subst. left. reflexivity.
  - intro H. right. apply IH. exact H.
Qed.

Lemma table_tokens_no_spacer t :
  In t (map snd Tables.asym_map) \/ In t (map snd Tables.symbols_map) -> t <> TMergedSpacer.
Proof.
  assert (A : forallb (fun t => negb (tc_beq t TMergedSpacer))
                      (map snd Tables.asym_map ++ map snd Tables.symbols_map) = true)
    by (vm_compute; reflexivity).
  rewrite forallb_forall in A. intros H E. subst t.
  specialize (A TMergedSpacer). rewrite in_app_iff in A. specialize (A H). discriminate A.
Qed.

Ltac crack H :=
  repeat match type of H with
         | context [match ?x with _ => _ end] => destruct_innermost x
         end.

(* only rule 7 makes MergedSpacer tokens *)
Lemma other_rules_no_spacer r cx rest t rest' :
  r <> R_spacers -> run_rule r cx rest = RTok t rest' -> tcat t <> TMergedSpacer.
Proof.
  intros Hr H. destruct r; cbn [run_rule] in H; try congruence.
  - unfold rule_escaped_symbols in H. crack H; try discriminate H. inversion H. simpl. discriminate.
  - unfold rule_comment in H. crack H; try discriminate H. inversion H. simpl. discriminate.
  - unfold rule_math_sym_switch in H. crack H; try discriminate H; inversion H; simpl; discriminate.
  - unfold rule_math_asym_switch in H.
    destruct rest as [|c0 [|c1 r2]]; try discriminate H.
    destruct (lookup_asym _ _ _) as [t0|] eqn:E; [|discriminate H].
    inversion H. simpl. apply table_tokens_no_spacer. left. eapply lookup_asym_in. exact E.
  - unfold rule_line_break in H. crack H; try discriminate H. inversion H. simpl. discriminate.
  - unfold rule_ignore in H. crack H; discriminate H.
  - unfold rule_symbols in H. destruct rest as [|c0 r1]; [discriminate H|].
    destruct (lookup_sym _ _) as [t0|] eqn:E; [|discriminate H].
    inversion H. simpl. apply table_tokens_no_spacer. right. eapply lookup_sym_in. exact E.
  - unfold rule_punctuation in H. cbv zeta in H. crack H; try discriminate H.
    inversion H. simpl. discriminate.
  - unfold rule_command_name in H. crack H; try discriminate H. inversion H. simpl. discriminate.
  - unfold rule_string in H. crack H. inversion H. simpl. discriminate.
Qed.

Lemma run_rules_spacer_origin rules cx rest t rest' :
  run_rules rules cx rest = RTok t rest' -> tcat t = TMergedSpacer ->
  rule_spacers (cx_idx cx) rest = RTok t rest'.
Proof.
  induction rules as [|r rs IH]; cbn [run_rules]; [discriminate|].
  destruct (run_rule r cx rest) as [|t1 r1|r1|] eqn:E; intros H Hc.
  - apply IH; assumption.
  - inversion H; subst.
    destruct r; try (exfalso; eapply other_rules_no_spacer; [ | exact E | exact Hc]; discriminate).
    exact E.
  - discriminate H.
  - discriminate H.
Qed.

(* the categorised characters carry the category of their code point *)
Definition wellcat (c : cchar) : Prop := ccat c = categorize_char (ch c).

Lemma categorize_from_wellcat p s : Forall wellcat (categorize_from p s).
Proof. revert p; induction s as [|c s IH]; intro p; simpl; constructor; [reflexivity | apply IH]. Qed.

(* on code points: at most one line-break character, all others blanks *)
Definition one_line_break (s : str) : Prop :=
  (length (filter (fun c => cc_beq (categorize_char c) CEndOfLine) s) <= 1)%nat /\
  Forall (fun c => categorize_char c = CSpacer \/ categorize_char c = CEndOfLine) s.

Lemma filter_map_length {A B} (p : B -> bool) (g : A -> B) l :
  length (filter p (map g l)) = length (filter (fun x => p (g x)) l).
Proof.
  induction l as [|x l IH]; [reflexivity|]. simpl. destruct (p (g x)); simpl; rewrite IH; reflexivity.
Qed.

Lemma spacer_tok_text idx rest t rest' :
  rule_spacers idx rest = RTok t rest' -> Forall wellcat rest -> one_line_break (ttext t).
Proof.
  intros H W. apply spacer_token_one_eol in H.
  destruct H as (body & -> & -> & _ & Hc & Hb).
  apply Forall_app in W. destruct W as [W _].
  unfold one_line_break, chars_of. split.
  - rewrite filter_map_length. unfold eol_count in Hc.
    rewrite (filter_ext_in (fun x => cc_beq (categorize_char (ch x)) CEndOfLine) (is_cat CEndOfLine));
      [exact Hc|].
    intros c Hin. rewrite Forall_forall in W. unfold is_cat. rewrite (W c Hin). reflexivity.
  - apply Forall_forall. intros x Hx. apply in_map_iff in Hx. destruct Hx as (c & <- & Hin).
    rewrite Forall_forall in W, Hb. specialize (W c Hin). specialize (Hb c Hin).
    unfold is_blank, is_eol, is_cat in Hb. rewrite W in Hb.
    destruct Hb as [Hb|Hb]; apply cc_eqb_eq in Hb; [left | right]; exact Hb.
Qed.

Lemma tokenize_loop_spacers fuel : forall points idx pp pc prev rest toks e,
  tokenize_loop fuel points idx pp pc prev rest = (toks, e) -> Forall wellcat rest ->
  Forall (fun t => tcat t = TMergedSpacer -> one_line_break (ttext t)) toks.
Proof.
  induction fuel as [|f IH]; intros points idx pp pc prev rest toks e H W.
  { inversion H. constructor. }
  cbn [tokenize_loop] in H. destruct rest as [|c0 rest1]; [inversion H; constructor|].
  pose proof (run_rules_progress (mkctx idx prev pp pc points) c0 rest1) as P. cbv zeta in P.
  destruct (run_rules Tables.rule_order (mkctx idx prev pp pc points) (c0 :: rest1))
    as [|t rest'|rest'|] eqn:E; try contradiction.
  - destruct P as (body & _ & Hsplit & _).
    destruct (tokenize_loop f points _ _ _ (Some t) rest') as [ts e'] eqn:El.
    inversion H; subst toks e. constructor.
    + intro Hc. apply run_rules_spacer_origin in E; [|exact Hc]. cbn [cx_idx] in E.
      eapply spacer_tok_text; [exact E | exact W].
    + eapply IH; [exact El|]. rewrite Hsplit in W. apply Forall_app in W. apply W.
  - destruct P as (sk & _ & Hsplit & _).
    eapply IH; [exact H|]. rewrite Hsplit in W. apply Forall_app in W. apply W.
Qed.

Theorem spacer_tokens_one_line_break (s : str) toks e :
  tokens_of_string s = (toks, e) ->
  Forall (fun t => tcat t = TMergedSpacer -> one_line_break (ttext t)) toks.
Proof.
  unfold tokens_of_string, tokenize, tokenize_with, categorize. intro H.
  eapply tokenize_loop_spacers; [exact H | apply categorize_from_wellcat].
Qed.

(* which code points are line breaks, read off the category table *)
Definition line_break_chars : list N :=
  concat (map snd (filter (fun kv => cc_beq (fst kv) CEndOfLine) Tables.category_table)).

Lemma line_break_chars_spec c : categorize_char c = CEndOfLine <-> In c line_break_chars.
Proof.
  assert (A : forallb (fun c => cc_beq (categorize_char c) CEndOfLine) line_break_chars = true)
    by (vm_compute; reflexivity).
  split.
  - unfold categorize_char. destruct (lookup_cat Tables.category_table c) as [k|] eqn:E; [|discriminate].
    intros ->. apply CatProofs.lookup_cat_some in E. destruct E as (vs & Hin & Hm).
    unfold line_break_chars. apply in_concat. exists vs. split.
    + apply in_map_iff. exists (CEndOfLine, vs). split; [reflexivity|].
      apply filter_In. split; [exact Hin | reflexivity].
    + apply CatProofs.mem_N_In. exact Hm.
  - intro H. rewrite forallb_forall in A. apply cc_eqb_eq. apply A. exact H.
Qed.

Example line_break_chars_value : line_break_chars = [10; 13]%N.
Proof. vm_compute. reflexivity. Qed.

(* ====================================================================== *)
(* 11. the literal reading "brackets, then braces, nothing else" is false *)
(* ====================================================================== *)

Definition toks_of (s : str) : list token := fst (tokens_of_string s).

(* views used by the examples *)
Definition root_strs (r : res expr) : option (list str) :=
  match r with Ok (ERoot b) => Some (map estr b) | _ => None end.
Definition first_cmd_args (r : res expr) : option (list str) :=
  match r with Ok (ERoot (ECmd _ a _ _ :: _)) => Some (map estr a) | _ => None end.
Definition first_math (r : res expr) : option (mathkind * list str) :=
  match r with Ok (ERoot (EMath k b _ :: _)) => Some (k, map estr b) | _ => None end.

Definition ex_blank : str := [92; 97; 91; 120; 93; 10; 10; 123; 121; 125]%N.   (* \a[x]\n\n{y} *)
Definition ex_spaced : str := [92; 97; 32; 91; 120; 93; 10; 123; 121; 125]%N.  (* \a [x]\n{y} *)
Definition ex_other : str := [92; 97; 32; 120; 91; 121; 93]%N.                 (* \a x[y] *)
Definition ex_brace_bracket : str := [92; 97; 123; 120; 93; 121; 125]%N.       (* \a{x]y} *)
Definition ex_bracket_brace : str := [92; 97; 91; 120; 125; 121; 93]%N.        (* \a[x}y] *)
Definition ex_nested : str := [92; 97; 91; 123; 93; 125; 93]%N.                (* \a[{]}] *)
Definition ex_free : str := [97; 32; 91; 98]%N.                                (* a [b *)
Definition ex_four : str :=                                                    (* \a[x]{y}[z]{w} *)
  [92; 97; 91; 120; 93; 123; 121; 125; 91; 122; 93; 123; 119; 125]%N.
Definition ex_second_pass : str := [92; 97; 123; 120; 125; 91; 121; 93]%N.     (* \a{x}[y] *)
Definition ex_second_spacer : str := [92; 97; 123; 120; 125; 32; 91; 121; 93]%N. (* \a{x} [y] *)
Definition ex_fixed : str := [92; 116; 101; 120; 116; 98; 102; 91]%N.          (* \textbf[ *)
Definition ex_math : str := [36; 97; 91; 48; 44; 49; 41; 36]%N.                (* $a[0,1)$ *)
Definition ex_display : str := [36; 36; 97; 93; 36; 36]%N.                     (* $$a]$$ *)
Definition ex_paren : str := [92; 40; 97; 40; 98; 92; 41]%N.                   (* \(a(b\) *)
Definition ex_brack : str := [92; 91; 97; 93; 98; 92; 93]%N.                   (* \[a]b\] *)
Definition ex_cup : str := [36; 92; 99; 117; 112; 91; 120; 36]%N.              (* $\cup[x$ *)
Definition ex_item : str := [36; 92; 105; 116; 101; 109; 36]%N.                (* $\item$ *)
Definition ex_unclosed : str := [36; 97; 91]%N.                                (* $a[ *)

(* C09 read literally - "the arguments are bracket groups followed by brace
   groups" - fails: after the brace groups a second round of bracket groups
   (and then brace groups) is attached when it follows without any spacer.
   Witness: \a{x}[y] has the two arguments {x}, [y].  The true shape is
   C09_brackets_then_braces. *)
Theorem C09_brackets_before_braces_refuted :
  exists f strict m toks args rest,
    read_args f (-1) (-1) strict m toks = Ok (args, rest) /\
    ~ (exists bs cs, args = bs ++ cs /\
                     Forall (is_group_of GBracket) bs /\ Forall (is_group_of GBrace) cs).
Proof.
  exists 6%nat, true, MNonMath, (skipn 2 (toks_of ex_second_pass)). do 2 eexists.
  split; [vm_compute; reflexivity|].
  intros (bs & cs & E & Fb & Fc). destruct bs as [|b bs].
  - simpl in E. subst cs. inversion Fc as [|? ? _ Fc']. inversion Fc' as [|? ? Hg _].
    destruct Hg as (body & pos & Hg). discriminate Hg.
  - inversion E; subst. inversion Fb as [|? ? Hg _].
    destruct Hg as (body & pos & Hg). discriminate Hg.
Qed.
