(* Per-node theorems: every node of the parse tree is the result of a reader
   call on a suffix of the token list (Step 1, one mutual induction on fuel
   over all ten reader functions), hence the per-call theorems about
   positions (StructProofs.v) and conservation (ReaderCons.v) hold for every
   node at every depth (Step 2).

   Vocabulary
     ebody e / eargs e   the content list / argument list of a node
     sub x e             x is e or occurs in e at any depth (through bodies and
                         argument lists)
     item_in x e         x is an element of the body of some node of e
                         (a "content item" at any depth)
     arg_in x e          x is an element of the argument list of some node of e
     CalledE .. toks x   x is the result of a read_expr call on a suffix of toks
     CalledA .. toks g   g is the result of a read_arg call whose opening token
                         directly precedes the suffix it read                  *)
From Coq Require Import List NArith ZArith Bool Lia.
From TexModel Require Import Base Tables Chars Tokenizer Tree Reader.
From TexProofs Require Import TokProofs ReaderLen ReaderCons ConsTop StructProofs ConsBridge.
Import ListNotations.

(* ------------------------------------------------------------ suffixes *)

Definition is_suffix {A} (a b : list A) : Prop := exists pre, b = pre ++ a.

Lemma suf_refl {A} (l : list A) : is_suffix l l.
Proof. exists []. reflexivity. Qed.

Lemma suf_nil {A} (l : list A) : is_suffix [] l.
Proof. exists l. symmetry. apply app_nil_r. Qed.

Lemma suf_app {A} (a b : list A) : is_suffix b (a ++ b).
Proof. exists a. reflexivity. Qed.

Lemma suf_tail {A} (x : A) l : is_suffix l (x :: l).
Proof. exists [x]. reflexivity. Qed.

Lemma suf_trans {A} (a b c : list A) : is_suffix a b -> is_suffix b c -> is_suffix a c.
Proof. intros (p & ->) (q & ->). exists (q ++ p). apply app_assoc. Qed.

Lemma suf_cons {A} (x : A) a b : is_suffix a b -> is_suffix a (x :: b).
Proof. intro H. eapply suf_trans; [exact H | apply suf_tail]. Qed.

Lemma suf_skipn {A} n (l : list A) : is_suffix (skipn n l) l.
Proof. exists (firstn n l). symmetry. apply firstn_skipn. Qed.

Lemma suf_In {A} (a b : list A) x : is_suffix a b -> In x a -> In x b.
Proof. intros (p & ->) H. apply in_or_app. right. exact H. Qed.

Lemma suf_spacer toks b src1 : read_spacer toks = (b, src1) -> is_suffix src1 toks.
Proof.
  intro H. apply read_spacer_cases in H. destruct H as [-> | (sp & -> & _)];
    [apply suf_refl | apply suf_tail].
Qed.

Lemma suf_len {A} (a b : list A) : is_suffix a b -> (length a <= length b)%nat.
Proof. intros (p & ->). rewrite app_length. lia. Qed.

(* ------------------------------------------------- the sub-expression order *)

Definition ebody (e : expr) : list expr :=
  match e with
  | ECmd _ _ b _ => b
  | ENamed _ _ b _ => b
  | EMath _ b _ => b
  | EGroup _ b _ => b
  | ERoot b => b
  | EText _ | ERaw _ _ | EStr _ => []
  end.

Definition eargs (e : expr) : list expr :=
  match e with
  | ECmd _ a _ _ => a
  | ENamed _ a _ _ => a
  | _ => []
  end.

(* c is an element of the body or of the argument list of e *)
Definition child (c e : expr) : Prop := In c (ebody e) \/ In c (eargs e).

(* reflexive-transitive closure *)
Inductive sub : expr -> expr -> Prop :=
| sub_refl e : sub e e
| sub_step x c e : sub x c -> child c e -> sub x e.

Definition item_in (x e : expr) : Prop := exists p, sub p e /\ In x (ebody p).
Definition arg_in (x e : expr) : Prop := exists p, sub p e /\ In x (eargs p).

Lemma sub_trans x y z : sub x y -> sub y z -> sub x z.
Proof.
  intros Hxy Hyz. induction Hyz as [|y c z Hyc IH Hc]; [exact Hxy|].
  eapply sub_step; [apply IH; exact Hxy | exact Hc].
Qed.

(* every node other than the top one is a content item or an argument *)
Lemma sub_cases x e : sub x e -> x = e \/ item_in x e \/ arg_in x e.
Proof.
  induction 1 as [|x c e Hs IH Hc]; [left; reflexivity|]. right.
  destruct IH as [->|[(p & Hp & Hin)|(p & Hp & Hin)]].
  - destruct Hc as [Hc|Hc]; [left | right]; exists e; split; auto using sub_refl.
  - left. exists p. split; [eapply sub_step; eassumption | exact Hin].
  - right. exists p. split; [eapply sub_step; eassumption | exact Hin].
Qed.

Lemma item_in_sub x e : item_in x e -> sub x e.
Proof.
  intros (p & Hp & Hin). eapply sub_trans; [|exact Hp].
  eapply sub_step; [apply sub_refl | left; exact Hin].
Qed.

Lemma arg_in_sub x e : arg_in x e -> sub x e.
Proof.
  intros (p & Hp & Hin). eapply sub_trans; [|exact Hp].
  eapply sub_step; [apply sub_refl | right; exact Hin].
Qed.

(* --------------------------- "PI on every item, PA on every argument" *)

Section Good.
Variables PI PA : expr -> Prop.

Definition Good (e : expr) : Prop :=
  (forall x, item_in x e -> PI x) /\ (forall x, arg_in x e -> PA x).
Definition GoodItems (l : list expr) : Prop := Forall (fun x => PI x /\ Good x) l.
Definition GoodArgs (l : list expr) : Prop := Forall (fun x => PA x /\ Good x) l.

Lemma Good_node e : GoodArgs (eargs e) -> GoodItems (ebody e) -> Good e.
Proof.
  intros Ha Hb. unfold GoodArgs, GoodItems in *. rewrite Forall_forall in Ha, Hb.
  split; intros x (p & Hs & Hin).
  - inversion Hs as [|? c ? Hs' Hc]; subst.
    + apply Hb. exact Hin.
    + destruct Hc as [Hc|Hc]; [apply Hb in Hc | apply Ha in Hc];
        destruct Hc as [_ [Gi _]]; apply Gi; exists p; auto.
  - inversion Hs as [|? c ? Hs' Hc]; subst.
    + apply Ha. exact Hin.
    + destruct Hc as [Hc|Hc]; [apply Hb in Hc | apply Ha in Hc];
        destruct Hc as [_ [_ Ga]]; apply Ga; exists p; auto.
Qed.

Lemma Good_leaf e : eargs e = [] -> ebody e = [] -> Good e.
Proof. intros Ea Eb. apply Good_node; [rewrite Ea | rewrite Eb]; constructor. Qed.
End Good.

Lemma Good_impl (PI PA PI' PA' : expr -> Prop) e :
  (forall x, PI x -> PI' x) -> (forall x, PA x -> PA' x) -> Good PI PA e -> Good PI' PA' e.
Proof. intros Hi Ha [Gi Ga]. split; intros x Hx; auto. Qed.

(* ------------------------------------------------ what a node may come from *)

(* parameters of a nested call: the skip list is the caller's or empty, the
   strictness is the caller's or strict (read_item passes neither on) *)
Definition ok_skip (sk sk0 : list str) : Prop := sk = [] \/ sk = sk0.
Definition ok_strict (st st0 : bool) : Prop := st = true \/ st = st0.

Lemma ok_skip_trans a b c : ok_skip a b -> ok_skip b c -> ok_skip a c.
Proof. unfold ok_skip. intros [-> | ->] [-> | ->]; auto. Qed.
Lemma ok_strict_trans a b c : ok_strict a b -> ok_strict b c -> ok_strict a c.
Proof. unfold ok_strict. intros [-> | ->] [-> | ->]; auto. Qed.

(* e is the result of a read_expr call on a suffix of toks *)
Definition CalledE (sk0 : list str) (st0 : bool) (toks : list token) (e : expr) : Prop :=
  exists f skip strict m toks' rest,
    is_suffix toks' toks /\ ok_skip skip sk0 /\ ok_strict strict st0 /\
    read_expr f skip strict m toks' = Ok (e, rest).

(* exception 1: the raw body of a verbatim-like environment: the texts of a
   run `pre` of consecutive tokens of toks, recorded at the position of the
   token at which the scan started *)
Definition RawItem (toks : list token) (e : expr) : Prop :=
  exists a pre b c, toks = a ++ pre ++ b /\ head (pre ++ b) = Some c /\
                    e = ERaw (texts pre) (tpos c).

(* exception 2: the plain string inside a coerced bare-token argument *)
Definition StrItem (toks : list token) (e : expr) : Prop :=
  exists c, In c toks /\ e = EStr (ttext c).

Definition ItemOK sk0 st0 toks (e : expr) : Prop :=
  CalledE sk0 st0 toks e \/ RawItem toks e \/ StrItem toks e.

(* g is the result of a read_arg call; its opening token c directly precedes
   the suffix toks' the call read from *)
Definition CalledA (st0 : bool) (toks : list token) (g : expr) : Prop :=
  exists f c strict m toks' rest pre,
    toks = pre ++ c :: toks' /\ ok_strict strict st0 /\
    read_arg f c strict m toks' = Ok (g, rest).

(* exception: a bare token taken as mandatory argument is wrapped into a brace
   group at position -1 *)
Definition CoercedArg (toks : list token) (g : expr) : Prop :=
  exists c, In c toks /\ g = EGroup GBrace [EStr (ttext c)] (-1)%Z.

(* a command taken (without arguments) as mandatory argument *)
Definition CmdArg (toks : list token) (g : expr) : Prop :=
  exists n c, In c toks /\ is_tc TEscape c = true /\ g = ECmd n [] [] (tpos c).

Definition ArgOK st0 toks (g : expr) : Prop :=
  CalledA st0 toks g \/ CoercedArg toks g \/ CmdArg toks g.

Lemma ItemOK_mono sk1 st1 sk0 st0 toks' toks x :
  is_suffix toks' toks -> ok_skip sk1 sk0 -> ok_strict st1 st0 ->
  ItemOK sk1 st1 toks' x -> ItemOK sk0 st0 toks x.
Proof.
  intros Hs Hk Ht [H|[H|H]].
  - left. destruct H as (f & skip & strict & m & t' & rest & S' & K' & T' & H).
    exists f, skip, strict, m, t', rest. repeat split; auto.
    + eapply suf_trans; eassumption.
    + eapply ok_skip_trans; eassumption.
    + eapply ok_strict_trans; eassumption.
  - right; left. destruct Hs as (p & ->). destruct H as (a & pre & b & c & -> & Hh & ->).
    exists (p ++ a), pre, b, c. rewrite <- app_assoc. auto.
  - right; right. destruct H as (c & Hin & ->). exists c. split; [|reflexivity].
    eapply suf_In; eassumption.
Qed.

Lemma ArgOK_mono st1 st0 toks' toks x :
  is_suffix toks' toks -> ok_strict st1 st0 -> ArgOK st1 toks' x -> ArgOK st0 toks x.
Proof.
  intros Hs Ht [H|[H|H]].
  - left. destruct H as (f & c & strict & m & t' & rest & pre & -> & T' & H).
    destruct Hs as (p & ->). exists f, c, strict, m, t', rest, (p ++ pre).
    rewrite <- app_assoc. repeat split; auto. eapply ok_strict_trans; eassumption.
  - right; left. destruct H as (c & Hin & ->). exists c. split; [|reflexivity].
    eapply suf_In; eassumption.
  - right; right. destruct H as (n & c & Hin & Hc & ->). exists n, c.
    split; [eapply suf_In; eassumption | auto].
Qed.

Definition G sk0 st0 toks : expr -> Prop := Good (ItemOK sk0 st0 toks) (ArgOK st0 toks).
Definition GI sk0 st0 toks : list expr -> Prop :=
  GoodItems (ItemOK sk0 st0 toks) (ArgOK st0 toks).
Definition GA sk0 st0 toks : list expr -> Prop :=
  GoodArgs (ItemOK sk0 st0 toks) (ArgOK st0 toks).

Lemma G_mono sk1 st1 sk0 st0 toks' toks e :
  is_suffix toks' toks -> ok_skip sk1 sk0 -> ok_strict st1 st0 ->
  G sk1 st1 toks' e -> G sk0 st0 toks e.
Proof.
  intros Hs Hk Ht. apply Good_impl.
  - intros x. apply ItemOK_mono; assumption.
  - intros x. apply ArgOK_mono; assumption.
Qed.

Lemma GI_mono sk1 st1 sk0 st0 toks' toks l :
  is_suffix toks' toks -> ok_skip sk1 sk0 -> ok_strict st1 st0 ->
  GI sk1 st1 toks' l -> GI sk0 st0 toks l.
Proof.
  intros Hs Hk Ht. apply Forall_impl. intros x [H1 H2]. split.
  - eapply ItemOK_mono; eassumption.
  - eapply G_mono; eassumption.
Qed.

Lemma GA_mono sk1 st1 sk0 st0 toks' toks l :
  is_suffix toks' toks -> ok_skip sk1 sk0 -> ok_strict st1 st0 ->
  GA sk1 st1 toks' l -> GA sk0 st0 toks l.
Proof.
  intros Hs Hk Ht. apply Forall_impl. intros x [H1 H2]. split.
  - eapply ArgOK_mono; eassumption.
  - eapply G_mono; eassumption.
Qed.

Lemma ok_skip_refl s : ok_skip s s.  Proof. right; reflexivity. Qed.
Lemma ok_skip_nil s : ok_skip [] s.  Proof. left; reflexivity. Qed.
Lemma ok_strict_refl s : ok_strict s s.  Proof. right; reflexivity. Qed.
Lemma ok_strict_true s : ok_strict true s.  Proof. left; reflexivity. Qed.
#[local] Hint Resolve ok_skip_refl ok_skip_nil ok_strict_refl ok_strict_true
  suf_refl suf_nil suf_tail suf_app suf_skipn : node.

(* one round of a content loop *)
Lemma GI_step f skip strict m toks e1 src1 sk0 st0 new :
  read_expr f skip strict m toks = Ok (e1, src1) ->
  ok_skip skip sk0 -> ok_strict strict st0 ->
  is_suffix src1 toks -> G skip strict toks e1 -> GI sk0 st0 src1 new ->
  GI sk0 st0 toks (e1 :: new).
Proof.
  intros He Hk Ht Hs G1 Gn. constructor; [split|].
  - left. exists f, skip, strict, m, toks, src1. auto with node.
  - eapply G_mono; [apply suf_refl | exact Hk | exact Ht | exact G1].
  - eapply GI_mono; [exact Hs | apply ok_skip_refl | apply ok_strict_refl | exact Gn].
Qed.

Lemma skip_env_item name args pos toks e rest :
  read_skip_env name args pos toks = Ok (e, rest) ->
  is_suffix rest toks /\
  exists pre b c, toks = pre ++ b /\ head toks = Some c /\
                  e = ENamed name args [ERaw (texts pre) (tpos c)] pos.
Proof.
  unfold read_skip_env. destruct (skip_scan (env_end name) [] toks) as [body r] eqn:Esc.
  apply skip_scan_prefix in Esc. destruct Esc as (pre & Epre & Ebody). simpl in Ebody.
  destruct toks as [|t0 ts]; [discriminate|]. destruct r as [|r0 rs]; [discriminate|].
  destruct (starts_with _ _); [|discriminate]. intro H; inversion H; subst e rest body.
  split.
  - rewrite Epre. eapply suf_trans; [apply suf_skipn | apply suf_app].
  - exists pre, (r0 :: rs), t0. auto.
Qed.

(* ------------------------------------------------------ Step 1: induction *)

Definition ci_expr f := forall skip strict m toks e rest,
  read_expr f skip strict m toks = Ok (e, rest) ->
  is_suffix rest toks /\ G skip strict toks e.
Definition ci_item f := forall acc toks es rest,
  read_item_loop f acc toks = Ok (es, rest) ->
  is_suffix rest toks /\ exists new, es = acc ++ new /\ GI [] true toks new.
Definition ci_math f := forall k pos strict acc toks e rest,
  read_math_loop f k pos strict acc toks = Ok (e, rest) ->
  is_suffix rest toks /\ exists new, e = EMath k (acc ++ new) pos /\ GI [] strict toks new.
Definition ci_env f := forall name args pos skip strict m acc toks e rest,
  read_env_loop f name args pos skip strict m acc toks = Ok (e, rest) ->
  is_suffix rest toks /\
  exists new, e = ENamed name args (acc ++ new) pos /\ GI skip strict toks new.
Definition ci_command f := forall nreq nopt sk strict m toks name args rest,
  read_command f nreq nopt sk strict m toks = Ok ((name, args), rest) ->
  is_suffix rest toks /\ GA [] strict toks args.
Definition ci_args f := forall nreq nopt strict m toks args rest,
  read_args f nreq nopt strict m toks = Ok (args, rest) ->
  is_suffix rest toks /\ GA [] strict toks args.
Definition ci_opt f := forall args nopt strict m toks args' n' rest,
  read_arg_optional f args nopt strict m toks = Ok ((args', n'), rest) ->
  is_suffix rest toks /\ exists new, args' = args ++ new /\ GA [] strict toks new.
Definition ci_req f := forall args nreq strict m toks args' n' rest,
  read_arg_required f args nreq strict m toks = Ok ((args', n'), rest) ->
  is_suffix rest toks /\ exists new, args' = args ++ new /\ GA [] strict toks new.
Definition ci_arg f := forall c strict m toks e rest,
  read_arg f c strict m toks = Ok (e, rest) ->
  is_suffix rest toks /\ G [] strict toks e.
Definition ci_argloop f := forall k pos strict m acc toks e rest,
  read_arg_loop f k pos strict m acc toks = Ok (e, rest) ->
  is_suffix rest toks /\ exists new, e = EGroup k (acc ++ new) pos /\ GI [] strict toks new.

Definition ci_all f :=
  ci_expr f /\ ci_item f /\ ci_math f /\ ci_env f /\ ci_command f /\ ci_args f /\
  ci_opt f /\ ci_req f /\ ci_arg f /\ ci_argloop f.

Lemma spacer_pre toks b c src2 :
  read_spacer toks = (b, c :: src2) -> exists pre, toks = pre ++ c :: src2.
Proof.
  intro H. apply read_spacer_cases in H. destruct H as [-> | (sp & -> & _)];
    [exists [] | exists [sp]]; reflexivity.
Qed.

Lemma ci_all_holds : forall f, ci_all f.
Proof.
  induction f as [|f IH].
  { unfold ci_all, ci_expr, ci_item, ci_math, ci_env, ci_command, ci_args, ci_opt, ci_req,
      ci_arg, ci_argloop.
    repeat match goal with |- _ /\ _ => split end; intros; simpl in *; discriminate. }
  destruct IH as (Ce & Ci & Cm & Cv & Cc & Ca & Co & Cr & Cg & Cl).
  unfold ci_all.
  assert (Hargloop : ci_argloop (S f)).
  { unfold ci_argloop. intros k pos strict m acc toks e rest H. simpl in H.
    destruct toks as [|t src].
    - destruct strict; [discriminate|]. inversion H; subst.
      split; [apply suf_refl|]. exists []. split; [rewrite app_nil_r; reflexivity | constructor].
    - destruct (is_group_end k t) eqn:Eend.
      + inversion H; subst. split; [apply suf_tail|]. exists [].
        split; [rewrite app_nil_r; reflexivity | constructor].
      + apply bind_ok in H. destruct H as ([e1 src1] & He & H).
        pose proof He as He0. apply Ce in He. destruct He as (S1 & G1).
        apply Cl in H. destruct H as (S2 & new & -> & G2).
        split; [eapply suf_trans; eassumption|].
        exists (e1 :: new). split; [rewrite <- app_assoc; reflexivity|].
        eapply GI_step; eauto with node. }
  assert (Harg : ci_arg (S f)).
  { unfold ci_arg. intros c strict m toks e rest H. simpl in H.
    destruct (group_kind_of_begin (tcat c)) as [k|] eqn:Ek; [|discriminate].
    apply Cl in H. destruct H as (S1 & new & -> & G1). split; [exact S1|].
    apply Good_node; cbn [eargs ebody app]; [constructor | exact G1]. }
  assert (Hmath : ci_math (S f)).
  { unfold ci_math. intros k pos strict acc toks e rest H. simpl in H.
    destruct toks as [|t src]; [discriminate|].
    destruct (is_math_end k t) eqn:Eend.
    - inversion H; subst. split; [apply suf_tail|]. exists [].
      split; [rewrite app_nil_r; reflexivity | constructor].
    - apply bind_ok in H. destruct H as ([e1 src1] & He & H).
      pose proof He as He0. apply Ce in He. destruct He as (S1 & G1).
      apply Cm in H. destruct H as (S2 & new & -> & G2).
      split; [eapply suf_trans; eassumption|].
      exists (e1 :: new). split; [rewrite <- app_assoc; reflexivity|].
      eapply GI_step; eauto with node. }
  assert (Hitem : ci_item (S f)).
  { unfold ci_item. intros acc toks es rest H. simpl in H.
    assert (Hstep : forall es rest,
      bind (read_expr f [] true MNonMath toks)
           (fun '(e, src1) => read_item_loop f (acc ++ [e]) src1) = Ok (es, rest) ->
      is_suffix rest toks /\ exists new, es = acc ++ new /\ GI [] true toks new).
    { intros es' rest' H'. apply bind_ok in H'. destruct H' as ([e1 src1] & He & H').
      pose proof He as He0. apply Ce in He. destruct He as (S1 & G1).
      apply Ci in H'. destruct H' as (S2 & new & -> & G2).
      split; [eapply suf_trans; eassumption|].
      exists (e1 :: new). split; [rewrite <- app_assoc; reflexivity|].
      eapply GI_step; eauto with node. }
    assert (Hstop : forall es rest, Ok (acc, toks) = Ok (es, rest) ->
      is_suffix rest toks /\ exists new, es = acc ++ new /\ GI [] true toks new).
    { intros es' rest' H'. inversion H'; subst. split; [apply suf_refl|]. exists [].
      split; [rewrite app_nil_r; reflexivity | constructor]. }
    destruct toks as [|t src]; [apply Hstop; exact H|].
    destruct (is_tc TEscape t).
    - apply bind_ok in H. destruct H as ([[cname cargs] crest] & _ & H).
      destruct (str_eqb cname s_end || str_eqb cname s_item); [apply Hstop | apply Hstep]; exact H.
    - destruct (is_tc TGroupEnd t); [apply Hstop | apply Hstep]; exact H. }
  assert (Hopt : ci_opt (S f)).
  { unfold ci_opt. intros args nopt strict m toks args' n' rest H. simpl in H.
    assert (Hstop : forall a' k' r', Ok (args, nopt, toks) = Ok (a', k', r') ->
      is_suffix r' toks /\ exists new, a' = args ++ new /\ GA [] strict toks new).
    { intros a' k' r' H'. inversion H'; subst. split; [apply suf_refl|]. exists [].
      split; [rewrite app_nil_r; reflexivity | constructor]. }
    destruct (nopt =? 0)%Z; [exact (Hstop _ _ _ H)|].
    destruct (read_spacer toks) as [b src1] eqn:Esp.
    destruct src1 as [|c src2]; [exact (Hstop _ _ _ H)|].
    destruct (is_tc TBracketBegin c) eqn:Ec; [|exact (Hstop _ _ _ H)].
    apply bind_ok in H. destruct H as ([g src3] & Hg & H).
    pose proof Hg as Hg0. apply Cg in Hg. destruct Hg as (Sg & Gg).
    apply Co in H. destruct H as (S3 & new & -> & Gn).
    destruct (spacer_pre _ _ _ _ Esp) as (pre & Epre).
    assert (S2 : is_suffix src2 toks) by (rewrite Epre; apply suf_trans with (c :: src2); auto with node).
    assert (S3' : is_suffix src3 toks) by (eapply suf_trans; eassumption).
    split; [eapply suf_trans; eassumption|].
    exists (g :: new). split; [rewrite <- app_assoc; reflexivity|].
    constructor; [split|].
    - left. exists f, c, strict, m, src2, src3, pre. auto with node.
    - eapply G_mono; [exact S2 | | | exact Gg]; auto with node.
    - eapply GA_mono; [exact S3' | | | exact Gn]; auto with node. }
  assert (Hreq : ci_req (S f)).
  { unfold ci_req. intros args nreq strict m toks args' n' rest H. simpl in H.
    assert (Hstop : forall a' k' r', Ok (args, nreq, toks) = Ok (a', k', r') ->
      is_suffix r' toks /\ exists new, a' = args ++ new /\ GA [] strict toks new).
    { intros a' k' r' H'. inversion H'; subst. split; [apply suf_refl|]. exists [].
      split; [rewrite app_nil_r; reflexivity | constructor]. }
    destruct (nreq =? 0)%Z; [exact (Hstop _ _ _ H)|].
    destruct toks as [|t0 ts0]; [exact (Hstop _ _ _ H)|].
    destruct (read_spacer (t0 :: ts0)) as [b src1] eqn:Esp.
    destruct src1 as [|c src2]; [exact (Hstop _ _ _ H)|].
    destruct (spacer_pre _ _ _ _ Esp) as (pre & Epre).
    assert (S2 : is_suffix src2 (t0 :: ts0)).
    { rewrite Epre. apply suf_trans with (c :: src2); auto with node. }
    assert (Inc : In c (t0 :: ts0)).
    { rewrite Epre. apply in_or_app. right. left. reflexivity. }
    destruct (is_tc TGroupBegin c) eqn:Ec.
    - apply bind_ok in H. destruct H as ([g src3] & Hg & H).
      pose proof Hg as Hg0. apply Cg in Hg. destruct Hg as (Sg & Gg).
      apply Cr in H. destruct H as (S3 & new & -> & Gn).
      assert (S3' : is_suffix src3 (t0 :: ts0)) by (eapply suf_trans; eassumption).
      split; [eapply suf_trans; eassumption|].
      exists (g :: new). split; [rewrite <- app_assoc; reflexivity|].
      constructor; [split|].
      + left. exists f, c, strict, m, src2, src3, pre. auto with node.
      + eapply G_mono; [exact S2 | | | exact Gg]; auto with node.
      + eapply GA_mono; [exact S3' | | | exact Gn]; auto with node.
    - destruct (0 <? nreq)%Z; [|exact (Hstop _ _ _ H)].
      destruct (is_tc TEscape c) eqn:Ee.
      + apply bind_ok in H. destruct H as ([[cname cargs] src3] & Hc & H).
        apply Cc in Hc. destruct Hc as (Sc & _).
        apply Cr in H. destruct H as (S3 & new & -> & Gn).
        assert (S3' : is_suffix src3 (t0 :: ts0)) by (eapply suf_trans; eassumption).
        split; [eapply suf_trans; eassumption|].
        exists (ECmd (strip cname) [] [] (tpos c) :: new).
        split; [rewrite <- app_assoc; reflexivity|].
        constructor; [split|].
        * right; right. exists (strip cname), c. auto.
        * apply Good_leaf; reflexivity.
        * eapply GA_mono; [exact S3' | | | exact Gn]; auto with node.
      + apply Cr in H. destruct H as (S3 & new & -> & Gn).
        split; [eapply suf_trans; eassumption|].
        exists (EGroup GBrace [EStr (ttext c)] (-1)%Z :: new).
        split; [rewrite <- app_assoc; reflexivity|].
        constructor; [split|].
        * right; left. exists c. auto.
        * apply Good_node; cbn [eargs ebody]; [constructor|].
          constructor; [|constructor]. split.
          -- right; right. exists c. auto.
          -- apply Good_leaf; reflexivity.
        * eapply GA_mono; [exact S2 | | | exact Gn]; auto with node. }
  assert (Hargs : ci_args (S f)).
  { unfold ci_args. intros nreq nopt strict m toks args rest H. simpl in H.
    destruct ((nreq =? 0)%Z && (nopt =? 0)%Z).
    { inversion H; subst. split; [apply suf_refl | constructor]. }
    apply bind_ok in H. destruct H as ([[args1 nopt1] src1] & H1 & H).
    apply Co in H1. destruct H1 as (S1 & new1 & E1 & G1). simpl in E1. subst args1.
    apply bind_ok in H. destruct H as ([[args2 nreq1] src2] & H2 & H).
    apply Cr in H2. destruct H2 as (S2 & new2 & -> & G2).
    apply bind_ok in H. destruct H as ([[args3 n3] src3] & H3 & H).
    assert (X3 : is_suffix src3 src2 /\
                 exists new3, args3 = (new1 ++ new2) ++ new3 /\ GA [] strict src2 new3).
    { assert (Hnone : Ok (new1 ++ new2, nopt1, src2) = Ok (args3, n3, src3) ->
                 is_suffix src3 src2 /\
                 exists new3, args3 = (new1 ++ new2) ++ new3 /\ GA [] strict src2 new3).
      { intro E. inversion E; subst. split; [apply suf_refl|]. exists [].
        split; [rewrite app_nil_r; reflexivity | constructor]. }
      destruct src2 as [|t2 ts2]; [exact (Hnone H3)|].
      destruct (is_tc TBracketBegin t2); [|exact (Hnone H3)].
      apply Co in H3. exact H3. }
    destruct X3 as (S3 & new3 & -> & G3).
    apply bind_ok in H. destruct H as ([[args4 n4] src4] & H4 & H).
    inversion H; subst args4 src4. clear H.
    assert (X4 : is_suffix rest src3 /\
                 exists new4, args = ((new1 ++ new2) ++ new3) ++ new4 /\ GA [] strict src3 new4).
    { assert (Hnone : Ok ((new1 ++ new2) ++ new3, nreq1, src3) = Ok (args, n4, rest) ->
                 is_suffix rest src3 /\
                 exists new4, args = ((new1 ++ new2) ++ new3) ++ new4 /\ GA [] strict src3 new4).
      { intro E. inversion E; subst. split; [apply suf_refl|]. exists [].
        split; [rewrite app_nil_r; reflexivity | constructor]. }
      destruct src3 as [|t3 ts3]; [exact (Hnone H4)|].
      destruct (is_tc TGroupBegin t3); [|exact (Hnone H4)].
      apply Cr in H4. exact H4. }
    destruct X4 as (S4 & new4 & -> & G4).
    assert (T2 : is_suffix src2 toks) by (eapply suf_trans; eassumption).
    assert (T3 : is_suffix src3 toks) by (eapply suf_trans; eassumption).
    split; [eapply suf_trans; eassumption|].
    unfold GA, GoodArgs. rewrite !Forall_app. repeat split.
    - exact G1.
    - eapply GA_mono; [exact S1 | | | exact G2]; auto with node.
    - eapply GA_mono; [exact T2 | | | exact G3]; auto with node.
    - eapply GA_mono; [exact T3 | | | exact G4]; auto with node. }
  assert (Hcmd : ci_command (S f)).
  { unfold ci_command. intros nreq nopt sk strict m toks name args rest H.
    cbn [read_command] in H.
    destruct (Nat.ltb (length toks) sk); [discriminate|].
    destruct (skipn sk toks) as [|nt src] eqn:Esk.
    { inversion H; subst. split; [apply suf_nil | constructor]. }
    destruct (if (nreq <? 0)%Z && (nopt <? 0)%Z then signature_of (ttext nt) else (nreq, nopt))
      as [nr no].
    apply bind_ok in H. destruct H as ([args1 src1] & Ha & H). inversion H; subst.
    apply Ca in Ha. destruct Ha as (S1 & G1).
    assert (Ss : is_suffix src toks).
    { apply suf_trans with (nt :: src); [apply suf_tail|]. rewrite <- Esk. apply suf_skipn. }
    split; [eapply suf_trans; eassumption|].
    eapply GA_mono; [exact Ss | | | exact G1]; auto with node. }
  assert (Henv : ci_env (S f)).
  { unfold ci_env. intros name args pos skip strict m acc toks e rest H.
    cbn [read_env_loop] in H.
    assert (Hstep : forall e rest,
      bind (read_expr f skip strict m toks)
           (fun '(e0, src1) => read_env_loop f name args pos skip strict m (acc ++ [e0]) src1)
        = Ok (e, rest) ->
      is_suffix rest toks /\
      exists new, e = ENamed name args (acc ++ new) pos /\ GI skip strict toks new).
    { intros e' rest' H'. apply bind_ok in H'. destruct H' as ([e1 src1] & He & H').
      pose proof He as He0. apply Ce in He. destruct He as (S1 & G1).
      apply Cv in H'. destruct H' as (S2 & new & -> & G2).
      split; [eapply suf_trans; eassumption|].
      exists (e1 :: new). split; [rewrite <- app_assoc; reflexivity|].
      eapply GI_step; eauto with node. }
    assert (Hunclosed : forall e rest,
      (if strict then Err EOFError else Ok (ENamed name args acc pos, toks)) = Ok (e, rest) ->
      is_suffix rest toks /\
      exists new, e = ENamed name args (acc ++ new) pos /\ GI skip strict toks new).
    { intros e' rest' H'. destruct strict; [discriminate|]. inversion H'; subst.
      split; [apply suf_refl|]. exists [].
      split; [rewrite app_nil_r; reflexivity | constructor]. }
    destruct toks as [|t l]; [exact (Hunclosed _ _ H)|].
    destruct (is_tc TEscape t) eqn:Et; [|exact (Hstep _ _ H)].
    apply bind_ok in H. destruct H as ([[cname cargs] crest] & Hpeek & H).
    destruct (str_eqb cname s_end) eqn:Eend; [|exact (Hstep _ _ H)].
    destruct cargs as [|a0 cargs]; [exact (Hunclosed _ _ H)|].
    destruct (negb (str_eqb (arg_string a0) name)) eqn:Ename; [exact (Hunclosed _ _ H)|].
    destruct (read_spacer (skipn 2 (t :: l))) as [b src2] eqn:Esp.
    destruct src2 as [|c src3]; [discriminate|].
    apply bind_ok in H. destruct H as ([g grest] & Harg' & H). inversion H; subst.
    apply Cg in Harg'. destruct Harg' as (Sg & _).
    split.
    - eapply suf_trans; [exact Sg|]. apply suf_trans with (c :: src3); [apply suf_tail|].
      eapply suf_trans; [eapply suf_spacer; exact Esp | apply suf_skipn].
    - exists []. split; [rewrite app_nil_r; reflexivity | constructor]. }
  assert (Hexpr : ci_expr (S f)).
  { unfold ci_expr. intros skip strict m toks e rest H. cbn [read_expr] in H.
    destruct toks as [|c src]; [discriminate|].
    destruct (math_kind_of_begin (tcat c)) as [k|] eqn:Ek.
    { apply Cm in H. destruct H as (S1 & new & -> & G1).
      split; [apply suf_cons; exact S1|].
      apply Good_node; cbn [eargs ebody app]; [constructor|].
      eapply GI_mono; [apply suf_tail | | | exact G1]; auto with node. }
    destruct (is_tc TEscape c) eqn:Ec.
    2:{ destruct (is_tc TGroupBegin c) eqn:Eg.
        - apply Cg in H. destruct H as (S1 & G1). split; [apply suf_cons; exact S1|].
          eapply G_mono; [apply suf_tail | | | exact G1]; auto with node.
        - inversion H; subst. split; [apply suf_tail|]. apply Good_leaf; reflexivity. }
    apply bind_ok in H. destruct H as ([[name args] src1] & Hcmd' & H).
    apply Cc in Hcmd'. destruct Hcmd' as (Sc & Ga).
    assert (Ga' : GA skip strict (c :: src) args).
    { eapply GA_mono; [apply suf_tail | | | exact Ga]; auto with node. }
    assert (Sc' : is_suffix src1 (c :: src)) by (apply suf_cons; exact Sc).
    destruct (str_eqb name s_item) eqn:Eitem.
    { destruct (mode_is_math m); [discriminate|].
      apply bind_ok in H. destruct H as ([contents src2] & Hit & H). inversion H; subst.
      apply Ci in Hit. destruct Hit as (S2 & new & -> & G2).
      split; [eapply suf_trans; eassumption|].
      apply Good_node; cbn [eargs ebody app]; [exact Ga'|].
      eapply GI_mono; [exact Sc' | | | exact G2]; auto with node. }
    destruct (str_eqb name s_begin && negb (mode_is_special m)) eqn:Ebegin.
    2:{ inversion H; subst. split; [exact Sc'|].
        apply Good_node; cbn [eargs ebody]; [exact Ga' | constructor]. }
    destruct args as [|a0 args']; [discriminate|].
    assert (Ga'' : GA skip strict (c :: src) args') by (inversion Ga'; assumption).
    destruct (mem_str (strip (arg_string a0)) skip) eqn:Eskip.
    { apply skip_env_item in H. destruct H as (S2 & pre & b & c0 & E1 & Hh & ->).
      split; [eapply suf_trans; eassumption|].
      apply Good_node; cbn [eargs ebody]; [exact Ga''|].
      constructor; [|constructor]. split.
      - right; left. destruct Sc' as (p0 & Ep0).
        exists p0, pre, b, c0. rewrite Ep0, E1. rewrite <- E1. auto.
      - apply Good_leaf; reflexivity. }
    apply Cv in H. destruct H as (S2 & new & -> & G2).
    split; [eapply suf_trans; eassumption|].
    apply Good_node; cbn [eargs ebody app]; [exact Ga''|].
    eapply GI_mono; [exact Sc' | | | exact G2]; auto with node. }
  exact (conj Hexpr (conj Hitem (conj Hmath (conj Henv (conj Hcmd (conj Hargs
           (conj Hopt (conj Hreq (conj Harg Hargloop))))))))).
Qed.

(* ----------------------------------------------------- Step 1: top level *)

Lemma read_tex_loop_items fuel efuel skip strict : forall acc toks body,
  read_tex_loop fuel efuel skip strict acc toks = Ok body ->
  exists new, body = acc ++ new /\ GI skip strict toks new.
Proof.
  induction fuel as [|fu IH]; intros acc toks body H; [discriminate|].
  cbn [read_tex_loop] in H. destruct toks as [|t ts].
  - inversion H; subst. exists []. split; [symmetry; apply app_nil_r | constructor].
  - apply bind_ok in H. destruct H as ([e rest] & He & H).
    pose proof He as He0. destruct (ci_all_holds efuel) as (Ce & _).
    apply Ce in He. destruct He as (S1 & G1).
    apply IH in H. destruct H as (new & -> & G2).
    exists (e :: new). split; [rewrite <- app_assoc; reflexivity|].
    eapply GI_step; eauto with node.
Qed.

(* THE SUB-CALL LEMMA, for a whole token list: every content item at any depth
   of the tree is the result of a read_expr call on a suffix of the token list
   (or one of the two leaves not made by read_expr), every argument is the
   result of a read_arg call whose opening token directly precedes the suffix
   it read (or a coerced bare token / a bare command) *)
Theorem parse_tokens_nodes toks strict user t :
  parse_tokens toks strict user = Ok t ->
  (forall x, item_in x t -> ItemOK (all_skip user) strict toks x) /\
  (forall x, arg_in x t -> ArgOK strict toks x).
Proof.
  intro H. unfold parse_tokens in H. apply bind_ok in H. destruct H as (body & Hb & H).
  inversion H; subst t. apply read_tex_loop_items in Hb. destruct Hb as (new & -> & Gn).
  change (G (all_skip user) strict toks (ERoot ([] ++ new))).
  apply Good_node; cbn [eargs ebody app]; [constructor | exact Gn].
Qed.

(* ... and for every single reader call *)
Theorem read_expr_nodes f skip strict m toks e rest :
  read_expr f skip strict m toks = Ok (e, rest) ->
  (forall x, item_in x e -> ItemOK skip strict toks x) /\
  (forall x, arg_in x e -> ArgOK strict toks x).
Proof. intro H. destruct (ci_all_holds f) as (Ce & _). apply Ce in H. apply H. Qed.

Theorem read_arg_nodes f c strict m toks g rest :
  read_arg f c strict m toks = Ok (g, rest) ->
  (forall x, item_in x g -> ItemOK [] strict toks x) /\
  (forall x, arg_in x g -> ArgOK strict toks x).
Proof.
  intro H. destruct (ci_all_holds f) as (_ & _ & _ & _ & _ & _ & _ & _ & Cg & _).
  apply Cg in H. apply H.
Qed.

(* ====================================================== Step 2: positions *)

Lemma read_expr_nonempty f skip strict m e rest :
  read_expr f skip strict m [] = Ok (e, rest) -> False.
Proof. destruct f; simpl; discriminate. Qed.

(* the recorded position is that of a token of the list *)
Definition PosOK (toks : list token) (x : expr) : Prop :=
  exists c, In c toks /\ epos x = Some (tpos c).

Lemma head_In {A} (l : list A) c : head l = Some c -> In c l.
Proof. destruct l; simpl; intro H; inversion H. left; reflexivity. Qed.

Lemma ItemOK_pos sk0 st0 toks x : ItemOK sk0 st0 toks x -> StrItem toks x \/ PosOK toks x.
Proof.
  intros [H|[H|H]]; [right | right | left; exact H].
  - destruct H as (f & skip & strict & m & t' & rest & (p & ->) & _ & _ & H).
    destruct t' as [|c src]; [exfalso; eapply read_expr_nonempty; exact H|].
    exists c. split; [apply in_or_app; right; left; reflexivity|].
    eapply read_expr_position. exact H.
  - destruct H as (a & pre & b & c & -> & Hh & ->). exists c.
    split; [apply in_or_app; right; apply head_In; exact Hh | reflexivity].
Qed.

Lemma ArgOK_pos st0 toks x : ArgOK st0 toks x -> CoercedArg toks x \/ PosOK toks x.
Proof.
  intros [H|[H|H]]; [right | left; exact H | right].
  - destruct H as (f & c & strict & m & t' & rest & pre & -> & _ & H).
    apply arg_shape in H. destruct H as (k & body & _ & ->).
    exists c. split; [apply in_or_app; right; left; reflexivity | reflexivity].
  - destruct H as (n & c & Hin & _ & ->). exists c. auto.
Qed.

(* C13, clause 1, token level, unconditional (any token list, any mode) *)
Theorem every_node_position toks strict user t :
  parse_tokens toks strict user = Ok t ->
  (forall x, item_in x t ->
     (exists c, In c toks /\ x = EStr (ttext c)) \/
     (exists c, In c toks /\ epos x = Some (tpos c))) /\
  (forall x, arg_in x t ->
     (exists c, In c toks /\ x = EGroup GBrace [EStr (ttext c)] (-1)%Z) \/
     (exists c, In c toks /\ epos x = Some (tpos c))).
Proof.
  intro H. apply parse_tokens_nodes in H. destruct H as [Hi Ha]. split; intros x Hx.
  - apply Hi in Hx. apply ItemOK_pos in Hx. exact Hx.
  - apply Ha in Hx. apply ArgOK_pos in Hx. exact Hx.
Qed.

(* the node's own text begins with the text of the token whose position it
   records (needs only that structural tokens carry their delimiter text) *)
Lemma read_expr_starts f skip strict m c src e rest :
  tok_wf c -> read_expr f skip strict m (c :: src) = Ok (e, rest) ->
  exists tail, estr e = ttext c ++ tail.
Proof.
  intros W H. pose proof (read_expr_shape _ _ _ _ _ _ _ _ H) as Sh.
  destruct (math_kind_of_begin (tcat c)) as [k|] eqn:Ek.
  { destruct Sh as (b & ->). cbn [estr].
    replace (math_begin k) with (ttext c); [eexists; reflexivity|].
    apply W. apply math_kind_begin_tok. exact Ek. }
  destruct (is_tc TEscape c) eqn:Ec.
  { assert (Tc : ttext c = [backslash]) by (apply W; apply is_tc_eq; exact Ec).
    rewrite Tc. destruct Sh as [(n & a & b & ->)|(n & a & b & ->)].
    - eexists. reflexivity.
    - eexists. cbn [estr]. unfold env_begin, s_begin_open. reflexivity. }
  destruct (is_tc TGroupBegin c) eqn:Eg.
  - destruct f as [|f]; [discriminate|]. cbn [read_expr] in H. rewrite Ek, Ec, Eg in H.
    apply arg_shape in H. destruct H as (k & b & Hk & ->). cbn [estr].
    replace (group_begin k) with (ttext c); [eexists; reflexivity|].
    apply W. apply group_kind_begin_tok. exact Hk.
  - destruct Sh as [-> _]. exists []. simpl. symmetry. apply app_nil_r.
Qed.

Lemma read_arg_starts f c strict m toks g rest :
  tok_wf c -> read_arg f c strict m toks = Ok (g, rest) ->
  epos g = Some (tpos c) /\ exists tail, estr g = ttext c ++ tail.
Proof.
  intros W H. apply arg_shape in H. destruct H as (k & b & Hk & ->).
  split; [reflexivity|]. cbn [estr].
  replace (group_begin k) with (ttext c); [eexists; reflexivity|].
  apply W. apply group_kind_begin_tok. exact Hk.
Qed.

Definition StartsAt (toks : list token) (x : expr) : Prop :=
  exists c, In c toks /\ epos x = Some (tpos c) /\
            ((exists tail, estr x = ttext c ++ tail) \/ exists q, x = ERaw [] q).

Lemma Forall_In {A} (P : A -> Prop) l x : Forall P l -> In x l -> P x.
Proof. intro F. rewrite Forall_forall in F. apply F. Qed.

Lemma ItemOK_starts sk0 st0 toks x :
  Forall tok_wf toks -> ItemOK sk0 st0 toks x -> StrItem toks x \/ StartsAt toks x.
Proof.
  intros W [H|[H|H]]; [right | right | left; exact H].
  - destruct H as (f & skip & strict & m & t' & rest & (p & ->) & _ & _ & H).
    destruct t' as [|c src]; [exfalso; eapply read_expr_nonempty; exact H|].
    assert (Hin : In c (p ++ c :: src)) by (apply in_or_app; right; left; reflexivity).
    exists c. split; [exact Hin|]. split; [eapply read_expr_position; exact H|].
    left. eapply read_expr_starts; [|exact H]. eapply Forall_In; eassumption.
  - destruct H as (a & pre & b & c & -> & Hh & ->). exists c.
    split; [apply in_or_app; right; apply head_In; exact Hh|]. split; [reflexivity|].
    destruct pre as [|c' pre'].
    + right. exists (tpos c). reflexivity.
    + left. simpl in Hh. inversion Hh; subst c'. exists (texts pre'). reflexivity.
Qed.

Lemma ArgOK_starts st0 toks x :
  Forall tok_wf toks -> ArgOK st0 toks x -> CoercedArg toks x \/ StartsAt toks x.
Proof.
  intros W [H|[H|H]]; [right | left; exact H | right].
  - destruct H as (f & c & strict & m & t' & rest & pre & -> & _ & H).
    assert (Hin : In c (pre ++ c :: t')) by (apply in_or_app; right; left; reflexivity).
    apply read_arg_starts in H; [|eapply Forall_In; eassumption].
    destruct H as [Hp Ht]. exists c. auto.
  - destruct H as (n & c & Hin & Hc & ->). exists c. split; [exact Hin|].
    split; [reflexivity|]. left.
    assert (Tc : ttext c = [backslash]).
    { pose proof (Forall_In _ _ _ W Hin) as Wc. apply Wc. apply is_tc_eq. exact Hc. }
    rewrite Tc. eexists. reflexivity.
Qed.

(* C13, clause 1, string level, unconditional: the position recorded for a node
   is the recorded position of a token of the source; that token's (non-empty)
   text stands in the source at exactly that offset, and the node's own text
   begins with it *)
Theorem node_positions_are_offsets (s : str) strict user t :
  parse s strict user = Ok t ->
  forall x, item_in x t \/ arg_in x t ->
    (exists c, In c (fst (tokens_of_string s)) /\
               (x = EStr (ttext c) \/ x = EGroup GBrace [EStr (ttext c)] (-1)%Z)) \/
    (exists c p, In c (fst (tokens_of_string s)) /\ epos x = Some p /\ p = tpos c /\
                 ttext c <> [] /\ slice s p (length (ttext c)) = ttext c /\
                 ((exists tail, estr x = ttext c ++ tail) \/ exists q, x = ERaw [] q)).
Proof.
  intros H x Hx. apply parse_unfold in H. destruct H as (toks & Et & H).
  rewrite Et. cbn [fst].
  pose proof (tokenize_wf _ _ _ Et) as W.
  pose proof (token_slices _ _ _ Et) as Sl.
  pose proof (tokens_concat _ _ _ Et) as (_ & _ & Ne).
  apply parse_tokens_nodes in H. destruct H as [Hi Ha].
  assert (Hs : StartsAt toks x ->
    exists c p, In c toks /\ epos x = Some p /\ p = tpos c /\
                 ttext c <> [] /\ slice s p (length (ttext c)) = ttext c /\
                 ((exists tail, estr x = ttext c ++ tail) \/ exists q, x = ERaw [] q)).
  { intros (c & Hin & Hp & Ht). exists c, (tpos c). repeat split; auto.
    - exact (Forall_In _ _ _ Ne Hin).
    - exact (Forall_In _ _ _ Sl Hin). }
  destruct Hx as [Hx|Hx].
  - apply Hi in Hx. apply (ItemOK_starts _ _ _ _ W) in Hx. destruct Hx as [(c & Hin & ->)|Hx].
    + left. exists c. auto.
    + right. apply Hs. exact Hx.
  - apply Ha in Hx. apply (ArgOK_starts _ _ _ W) in Hx. destruct Hx as [(c & Hin & ->)|Hx].
    + left. exists c. auto.
    + right. apply Hs. exact Hx.
Qed.

(* =============================================== Step 2: per-node slices *)

Lemma no_arg_spacer_app a b :
  no_arg_spacer (a ++ b) = true -> no_arg_spacer a = true /\ no_arg_spacer b = true.
Proof.
  induction a as [|x a IH]; intro H; [split; [reflexivity | exact H]|].
  destruct a as [|y a'].
  - split; [reflexivity|]. simpl in H. destruct b; [reflexivity|].
    apply andb_true_iff in H. tauto.
  - change (no_arg_spacer (x :: y :: a' ++ b) = true) in H. cbn [no_arg_spacer] in H.
    apply andb_true_iff in H. destruct H as [H1 H2].
    apply IH in H2. destruct H2 as [H2 H3]. split; [|exact H3].
    cbn [no_arg_spacer]. rewrite H1. exact H2.
Qed.

Lemma no_arg_spacer_mid a b c : no_arg_spacer (a ++ b ++ c) = true -> no_arg_spacer b = true.
Proof. intro H. apply no_arg_spacer_app in H. destruct H as [_ H]. apply no_arg_spacer_app in H. tauto. Qed.

Lemma forallb_In {A} (p : A -> bool) l x : forallb p l = true -> In x l -> p x = true.
Proof. intro H. rewrite forallb_forall in H. apply H. Qed.

(* nobare of the tree implies nobare of every sub-expression, and every
   argument is a group *)
Lemma nobare_child c e : nobare e = true -> child c e -> nobare c = true.
Proof.
  intros Hn [Hc|Hc].
  - destruct e as [| | |n a b p|n a b p|k b p|k b p|b]; cbn [ebody] in Hc;
      try contradiction; cbn [nobare] in Hn.
    + apply andb_true_iff in Hn. destruct Hn as [_ Hb]. exact (forallb_In _ _ _ Hb Hc).
    + apply andb_true_iff in Hn. destruct Hn as [_ Hb]. exact (forallb_In _ _ _ Hb Hc).
    + exact (forallb_In _ _ _ Hn Hc).
    + exact (forallb_In _ _ _ Hn Hc).
    + exact (forallb_In _ _ _ Hn Hc).
  - destruct e as [| | |n a b p|n a b p|k b p|k b p|b]; cbn [eargs] in Hc;
      try contradiction; cbn [nobare] in Hn.
    + apply andb_true_iff in Hn. destruct Hn as [Hn _].
      apply andb_true_iff in Hn. destruct Hn as [_ Ha]. exact (forallb_In _ _ _ Ha Hc).
    + apply andb_true_iff in Hn. destruct Hn as [Hn _].
      apply andb_true_iff in Hn. destruct Hn as [_ Ha]. exact (forallb_In _ _ _ Ha Hc).
Qed.

Lemma nobare_sub x e : sub x e -> nobare e = true -> nobare x = true.
Proof.
  induction 1 as [|x c e Hs IH Hc]; intro Hn; [exact Hn|].
  apply IH. eapply nobare_child; eassumption.
Qed.

Lemma nobare_arg_group x e : arg_in x e -> nobare e = true -> is_group x = true.
Proof.
  intros (p & Hp & Hin) Hn. pose proof (nobare_sub _ _ Hp Hn) as Hnp.
  destruct p as [| | |n a b q|n a b q|k b q|k b q|b]; cbn [eargs] in Hin;
    try contradiction; cbn [nobare] in Hnp.
  - apply andb_true_iff in Hnp. destruct Hnp as [Hnp _].
    apply andb_true_iff in Hnp. destruct Hnp as [Ha _]. exact (forallb_In _ _ _ Ha Hin).
  - apply andb_true_iff in Hnp. destruct Hnp as [Hnp _].
    apply andb_true_iff in Hnp. destruct Hnp as [Ha _]. exact (forallb_In _ _ _ Ha Hin).
Qed.

(* x was read from the run `used` of consecutive tokens: it records the
   position of the first token of the run (of the token the run starts at,
   should the run be empty: an empty verbatim body) and its text is the
   concatenation of the run *)
Definition ReadFrom (toks : list token) (x : expr) : Prop :=
  exists pre used post c, toks = pre ++ used ++ post /\ head (used ++ post) = Some c /\
    epos x = Some (tpos c) /\ estr x = texts used.

Lemma ok_skip_sub SK skip : ok_skip skip SK -> sub_skip SK skip.
Proof. intros [-> | ->]; [apply no_skip | intros n Hn; exact Hn]. Qed.

Lemma ItemOK_readfrom SK toks x :
  Hyp SK toks -> no_arg_spacer toks = true -> nobare x = true ->
  ItemOK SK true toks x -> ReadFrom toks x.
Proof.
  intros Hy Hsp Hn [H|[H|H]].
  - destruct H as (f & skip & strict & m & t' & rest & (p0 & ->) & Hk & Ht & H).
    assert (strict = true) by (destruct Ht; assumption). subst strict.
    pose proof (Hyp_suffix _ _ _ Hy) as Hy'.
    destruct (cp_all_holds SK f) as (Ce & _).
    destruct (Ce _ _ _ _ _ _ (ok_skip_sub _ _ Hk) Hy' H) as (used & Eu & R).
    specialize (R Hn). cbn [negb] in R.
    destruct (len_all_holds f) as (Le & _). pose proof (Le _ _ _ _ _ _ H) as L.
    destruct used as [|c u].
    { exfalso. simpl in Eu. subst t'. lia. }
    subst t'. cbn [app] in H.
    exists p0, (c :: u), rest, c. split; [reflexivity|]. split; [reflexivity|].
    split; [eapply read_expr_position; exact H|].
    apply Rel_exact; [exact R|]. eapply no_arg_spacer_mid. exact Hsp.
  - destruct H as (a & pre & b & c & -> & Hh & ->).
    exists a, pre, b, c. auto.
  - destruct H as (c & _ & ->). discriminate Hn.
Qed.

Lemma ArgOK_readfrom SK toks x :
  Hyp SK toks -> no_arg_spacer toks = true -> nobare x = true -> is_group x = true ->
  ArgOK true toks x -> ReadFrom toks x.
Proof.
  intros Hy Hsp Hn Hg [H|[H|H]].
  - destruct H as (f & c & strict & m & t' & rest & pre & -> & Ht & H).
    assert (strict = true) by (destruct Ht; assumption). subst strict.
    assert (Wc : tok_wf c).
    { pose proof (h_wf _ _ Hy) as W. apply Forall_app in W. destruct W as [_ W].
      inversion W; assumption. }
    assert (Hy' : Hyp SK t').
    { apply (Hyp_suffix SK (pre ++ [c]) t'). rewrite <- app_assoc. exact Hy. }
    destruct (cp_all_holds SK f) as (_ & _ & _ & _ & _ & _ & _ & _ & Cg & _).
    destruct (Cg _ _ _ _ _ _ Wc Hy' H) as (used & Eu & _ & R).
    specialize (R Hn). cbn [negb] in R. subst t'.
    exists pre, (c :: used), rest, c. split; [reflexivity|]. split; [reflexivity|].
    split.
    + apply arg_shape in H. destruct H as (k & b & _ & ->). reflexivity.
    + apply Rel_exact; [exact R|].
      apply (no_arg_spacer_mid pre (c :: used) rest). exact Hsp.
  - destruct H as (c & _ & ->). discriminate Hn.
  - destruct H as (n & c & _ & _ & ->). discriminate Hg.
Qed.

(* C01, clause 2, token level: every node of the tree, at any depth, is the
   concatenation of a run of consecutive tokens and records the position of
   the first of them *)
Theorem node_tokens toks user t :
  Hyp (all_skip user) toks -> parse_tokens toks true user = Ok t ->
  nobare t = true -> no_arg_spacer toks = true ->
  forall x, item_in x t \/ arg_in x t ->
    exists pre used post c, toks = pre ++ used ++ post /\ head (used ++ post) = Some c /\
      epos x = Some (tpos c) /\ estr x = texts used.
Proof.
  intros Hy H Hn Hsp x Hx. apply parse_tokens_nodes in H. destruct H as [Hi Ha].
  destruct Hx as [Hx|Hx].
  - apply (ItemOK_readfrom (all_skip user)); auto.
    eapply nobare_sub; [apply item_in_sub; exact Hx | exact Hn].
  - apply (ArgOK_readfrom (all_skip user)); auto.
    + eapply nobare_sub; [apply arg_in_sub; exact Hx | exact Hn].
    + eapply nobare_arg_group; eassumption.
Qed.

(* ---- tokens are consecutive slices of a NUL/DEL-free source *)

Lemma Part_eq p q cs toks : Part p cs toks -> p = q -> Part q cs toks.
Proof. intros P <-. exact P. Qed.

Lemma Part_no_skip_split p cs a b :
  Part p cs (a ++ b) -> Forall (fun c => ign c = false) cs ->
  exists ca cb, cs = ca ++ cb /\ chars_of ca = texts a /\
                Part (p + Z.of_nat (length ca))%Z cb b.
Proof.
  revert p cs. induction a as [|t a IH]; intros p cs P F.
  - exists [], cs. simpl. rewrite Z.add_0_r. auto.
  - change ((t :: a) ++ b) with (t :: a ++ b) in P.
    inversion P as [| p' sk cs' toks' Hne Hall P' | p' body cs' t' toks' Hne Ht Hp P']; subst.
    + exfalso. destruct sk as [|k0 sk]; [congruence|].
      inversion Hall; subst. inversion F; subst. congruence.
    + apply Forall_app in F. destruct F as [F1 F2].
      destruct (IH _ _ P' F2) as (ca & cb & -> & E1 & P2).
      exists (body ++ ca), cb. split; [apply app_assoc|]. split.
      * unfold chars_of in *. rewrite map_app, E1, <- Ht. reflexivity.
      * eapply Part_eq; [exact P2|]. rewrite app_length. lia.
Qed.

Lemma Part_head p cs c toks :
  Part p cs (c :: toks) -> Forall (fun c => ign c = false) cs -> tpos c = p.
Proof.
  intros P F.
  inversion P as [| p' sk cs' toks' Hne Hall P' | p' body cs' t' toks' Hne Ht Hp P']; subst.
  - exfalso. destruct sk as [|k0 sk]; [congruence|].
    inversion Hall; subst. inversion F; subst. congruence.
  - reflexivity.
Qed.

Lemma skipn_app_exact {A} (a b : list A) : skipn (length a) (a ++ b) = b.
Proof. rewrite skipn_app, skipn_all, Nat.sub_diag, skipn_O. reflexivity. Qed.

Lemma firstn_app_exact {A} (a b : list A) : firstn (length a) (a ++ b) = a.
Proof. rewrite firstn_app, firstn_all, Nat.sub_diag, firstn_O. apply app_nil_r. Qed.

(* a run of consecutive tokens of a NUL/DEL-free source is the slice of the
   source at the recorded position of its first token *)
Lemma tokens_run_slice (s : str) toks e pre used post c :
  tokens_of_string s = (toks, e) -> Forall (fun c => ign c = false) (categorize s) ->
  toks = pre ++ used ++ post -> head (used ++ post) = Some c ->
  texts used = slice s (tpos c) (length (texts used)).
Proof.
  intros H F Et Hh. destruct (tokenize_partition s) as (toks' & E & P).
  rewrite E in H. inversion H; subst toks' e. clear H.
  rewrite Et in P.
  destruct (Part_no_skip_split _ _ _ _ P F) as (ca & cb & Ecs & E1 & P1).
  assert (F1 : Forall (fun c => ign c = false) cb).
  { rewrite Ecs in F. apply Forall_app in F. tauto. }
  assert (Hp : tpos c = Z.of_nat (length ca)).
  { destruct (used ++ post) as [|c' l] eqn:Eup; simpl in Hh; inversion Hh; subst c'.
    rewrite (Part_head _ _ _ _ P1 F1). lia. }
  destruct (Part_no_skip_split _ _ _ _ P1 F1) as (cu & cp & Ecb & E2 & P2).
  assert (Es : s = chars_of ca ++ chars_of cu ++ chars_of cp).
  { rewrite <- (chars_of_categorize_from 0 s). fold (categorize s).
    rewrite Ecs, Ecb. unfold chars_of. rewrite !map_app. reflexivity. }
  unfold slice. rewrite Hp, Nat2Z.id, <- E2.
  rewrite Es at 1.
  replace (length ca) with (length (chars_of ca)) by (unfold chars_of; apply map_length).
  rewrite skipn_app_exact, firstn_app_exact. reflexivity.
Qed.

(* C01, clause 2, string level: under the round-trip conditions the text of
   every node, at any depth, is exactly the slice of the source that starts at
   the node's recorded position *)
Theorem node_slices_hyp (s : str) user t toks :
  tokens_of_string s = (toks, TEnd) -> parse s true user = Ok t ->
  Hyp (all_skip user) toks -> nobare t = true -> no_arg_spacer toks = true ->
  Forall (fun c => ign c = false) (categorize s) ->
  forall x, item_in x t \/ arg_in x t ->
    exists p, epos x = Some p /\ estr x = slice s p (length (estr x)).
Proof.
  intros Et H Hy Hn Hsp Hi x Hx.
  apply parse_unfold in H. destruct H as (toks' & Et' & H).
  rewrite Et in Et'. inversion Et'; subst toks'.
  destruct (node_tokens toks user t Hy H Hn Hsp x Hx) as (pre & used & post & c & E & Hh & Hp & Hs).
  exists (tpos c). split; [exact Hp|]. rewrite Hs.
  eapply tokens_run_slice; eassumption.
Qed.

(* the same with the decidable hygiene check of ConsBridge.v *)
Theorem node_slices (s : str) user t :
  parse s true user = Ok t ->
  hypb (all_skip user) (fst (tokens_of_string s)) = true ->
  nobare t = true ->
  no_arg_spacer (fst (tokens_of_string s)) = true ->
  Forall (fun c => ign c = false) (categorize s) ->
  forall x, sub x t ->
    (x = t /\ estr x = s) \/
    (exists p, epos x = Some p /\ estr x = slice s p (length (estr x))).
Proof.
  intros H Hb Hn Hsp Hi x Hx.
  destruct (tokens_of_string s) as [toks e] eqn:E. cbn [fst] in *.
  assert (e = TEnd).
  { unfold parse in H. rewrite E in H. destruct e; try discriminate H. reflexivity. }
  subst e.
  pose proof (Hyp_of_tokenizer _ _ _ _ E Hb) as Hy.
  apply sub_cases in Hx. destruct Hx as [->|Hx].
  - left. split; [reflexivity|]. eapply parse_roundtrip_hyp; eassumption.
  - right. eapply node_slices_hyp; eassumption.
Qed.

(* ================================================= enumeration, examples *)

(* every node of a tree, top first *)
Fixpoint nodes (e : expr) : list expr :=
  e :: match e with
       | ECmd _ a b _ => flat_map nodes a ++ flat_map nodes b
       | ENamed _ a b _ => flat_map nodes a ++ flat_map nodes b
       | EMath _ b _ => flat_map nodes b
       | EGroup _ b _ => flat_map nodes b
       | ERoot b => flat_map nodes b
       | EText _ | ERaw _ _ | EStr _ => []
       end.

Lemma nodes_self e : In e (nodes e).
Proof. destruct e; left; reflexivity. Qed.

Lemma nodes_child c e : child c e -> incl (nodes c) (nodes e).
Proof.
  intros [H|H] y Hy.
  - destruct e as [| | |n a b p|n a b p|k b p|k b p|b]; cbn [ebody] in H; try contradiction;
      cbn [nodes]; right; try (apply in_or_app; right);
      apply in_flat_map; exists c; split; assumption.
  - destruct e as [| | |n a b p|n a b p|k b p|k b p|b]; cbn [eargs] in H; try contradiction;
      cbn [nodes]; right; apply in_or_app; left;
      apply in_flat_map; exists c; split; assumption.
Qed.

Lemma nodes_complete x e : sub x e -> In x (nodes e).
Proof.
  induction 1 as [|x c e Hs IH Hc]; [apply nodes_self|].
  eapply nodes_child; eassumption.
Qed.

Definition slice_ok (s : str) (x : expr) : bool :=
  match epos x with
  | Some p => str_eqb (estr x) (slice s p (length (estr x)))
  | None => false
  end.

(* \begin{itemize}\item a\begin{center}\k[o]{x}$y$\end{center}%c
   \item\(z\)\end{itemize} *)
Definition doc_nested : str :=
  [92; 98; 101; 103; 105; 110; 123; 105; 116; 101; 109; 105; 122; 101; 125; 92; 105; 116; 101; 109; 32; 97; 92; 98; 101; 103; 105; 110; 123; 99; 101; 110; 116; 101; 114; 125; 92; 107; 91; 111; 93; 123; 120; 125; 36; 121; 36; 92; 101; 110; 100; 123; 99; 101; 110; 116; 101; 114; 125; 37; 99; 10; 92; 105; 116; 101; 109; 92; 40; 122; 92; 41; 92; 101; 110; 100; 123; 105; 116; 101; 109; 105; 122; 101; 125]%N.

(* non-vacuity of node_tokens / node_slices: the document satisfies every
   hypothesis, has 16 nodes below the root (a command with an optional and a
   mandatory argument inside an environment inside an \item, two math
   regions, a comment), and each of them is the slice of the source at its
   recorded position *)
Example node_slices_example :
  exists t, parse doc_nested true [] = Ok t /\
    hypb (all_skip []) (fst (tokens_of_string doc_nested)) = true /\
    nobare t = true /\ no_arg_spacer (fst (tokens_of_string doc_nested)) = true /\
    forallb (fun c => negb (ign c)) (categorize doc_nested) = true /\
    length (tl (nodes t)) = 16 /\
    forallb (slice_ok doc_nested) (tl (nodes t)) = true.
Proof. eexists. repeat split; vm_compute; reflexivity. Qed.

(* the hypothesis "each argument group immediately follows" is needed:
   \a {x} satisfies all the others, and the command node's text \a{x} is not a
   slice of the source *)
Example node_slices_needs_no_arg_spacer :
  let s := [92; 97; 32; 123; 120; 125]%N in
  exists t x, parse s true [] = Ok t /\ hypb (all_skip []) (fst (tokens_of_string s)) = true /\
    nobare t = true /\ forallb (fun c => negb (ign c)) (categorize s) = true /\
    no_arg_spacer (fst (tokens_of_string s)) = false /\
    In x (tl (nodes t)) /\ epos x = Some 0%Z /\
    estr x = [92; 97; 123; 120; 125]%N /\
    slice s 0 (length (estr x)) = [92; 97; 32; 123; 120]%N.
Proof.
  eexists. eexists. split; [vm_compute; reflexivity|].
  split; [vm_compute; reflexivity|]. split; [vm_compute; reflexivity|].
  split; [vm_compute; reflexivity|]. split; [vm_compute; reflexivity|].
  split; [vm_compute; left; reflexivity|]. repeat split; vm_compute; reflexivity.
Qed.

(* the exception in the position theorems is real: the brace group made from
   a bare-token argument records -1, which is no offset (\textbf x) *)
Example coerced_group_position_refuted :
  exists (s : str) t g, parse s true [] = Ok t /\ arg_in g t /\ is_group g = true /\
    epos g = Some (-1)%Z.
Proof.
  exists [92; 116; 101; 120; 116; 98; 102; 32; 120]%N. eexists. eexists.
  split; [vm_compute; reflexivity|]. split.
  - eexists. split; [eapply sub_step; [apply sub_refl | left; left; reflexivity]|].
    left. reflexivity.
  - split; reflexivity.
Qed.

(* the verbatim exception: a raw body is not a read_expr result, but it is
   covered by the position and slice theorems
   (\begin{verbatim}$\end{verbatim}: body "$" at offset 16) *)
Example raw_body_example :
  let s := [92; 98; 101; 103; 105; 110; 123; 118; 101; 114; 98; 97; 116; 105; 109; 125; 36; 92;
            101; 110; 100; 123; 118; 101; 114; 98; 97; 116; 105; 109; 125]%N in
  exists t, parse s true [] = Ok t /\
    hypb (all_skip []) (fst (tokens_of_string s)) = true /\ nobare t = true /\
    no_arg_spacer (fst (tokens_of_string s)) = true /\
    In (ERaw [36]%N 16%Z) (nodes t) /\ forallb (slice_ok s) (tl (nodes t)) = true.
Proof. eexists. repeat split; try (vm_compute; reflexivity). vm_compute. tauto. Qed.
