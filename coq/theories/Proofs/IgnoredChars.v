(* Which code points the tokenizer may drop: with the tables of the current
   source, exactly NUL (0) and DEL (127).  [droppable n] says that the
   category of code point n is one of the categories the `ignore` rule skips
   (Tables.ignore_cats); TokProofs.ign is the same predicate on a categorised
   character.  The proof inspects the regenerated tables, so a table edit that
   makes another character ignorable breaks it. *)
From Coq Require Import List NArith ZArith Bool.
From TexModel Require Import Base Tables Chars Tokenizer.
From TexProofs Require Import CatProofs TokProofs.
Import ListNotations.

Definition droppable (n : N) : bool := mem_cc (categorize_char n) Tables.ignore_cats.

Definition nul_or_del (c : N) : bool := ((c =? 0) || (c =? 127))%N.

Definition ignorable_rows_ok : bool :=
  forallb (fun kv : cc * list N =>
             if mem_cc (fst kv) Tables.ignore_cats then forallb nul_or_del (snd kv) else true)
          Tables.category_table.

Lemma ignorable_rows_ok_true : ignorable_rows_ok = true.
Proof. vm_compute. reflexivity. Qed.

Lemma other_not_ignored : mem_cc COther Tables.ignore_cats = false.
Proof. vm_compute. reflexivity. Qed.

Lemma nul_or_del_spec c : nul_or_del c = true -> c = 0%N \/ c = 127%N.
Proof.
  unfold nul_or_del. intro H. apply orb_true_iff in H.
  destruct H as [H|H]; apply N.eqb_eq in H; auto.
Qed.

Lemma droppable_only_nul_del n : droppable n = true -> n = 0%N \/ n = 127%N.
Proof.
  unfold droppable, categorize_char. intro H.
  destruct (lookup_cat Tables.category_table n) as [k|] eqn:L.
  - destruct (lookup_cat_some _ _ _ L) as (vs & Hin & Hmem).
    pose proof ignorable_rows_ok_true as R. unfold ignorable_rows_ok in R.
    rewrite forallb_forall in R. specialize (R _ Hin). simpl in R. rewrite H in R.
    rewrite forallb_forall in R. apply nul_or_del_spec. apply R.
    apply mem_N_In. exact Hmem.
  - rewrite other_not_ignored in H. discriminate.
Qed.

Lemma nul_del_droppable : droppable 0 = true /\ droppable 127 = true.
Proof. split; vm_compute; reflexivity. Qed.

Theorem droppable_iff n : droppable n = true <-> n = 0%N \/ n = 127%N.
Proof.
  split; [apply droppable_only_nul_del|].
  intros [E|E]; subst; apply nul_del_droppable.
Qed.

(* on a categorised string: a character is skipped-category iff it is NUL/DEL *)
Lemma ign_categorized s c : In c (categorize s) -> ign c = droppable (ch c).
Proof.
  intro Hin. destruct (In_nth_error _ _ Hin) as [i Hi].
  destruct (categorize_spec s) as [_ Hspec].
  destruct (Hspec i c Hi) as (_ & _ & Hcat).
  unfold ign, droppable. rewrite Hcat. reflexivity.
Qed.
