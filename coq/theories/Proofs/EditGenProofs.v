(* The editing methods generated from the Python source (Model/EditGen.v, written by
   harness/gen_edit.py on every run) denote the hand-written operations of Model/Edit.v.

   For each translated method, ALL trees, ALL targets and ALL arguments (under the guards
   stated with each lemma; they are the conditions under which the hand model itself
   claims to describe the code):
       view (call (S^k n) gen_e_tbl receiver M args st) = of_tree root (hand operation)
   i.e. the interpreter of EditDSL.v, run on the translated body, finishes inside the
   modelled fragment with the outcome class AND the new tree of the hand-written
   operation.  The proofs compute with the generated terms, so a change of a method body
   that changes the generated term makes the lemma named after the method fail. *)
From Coq Require Import List NArith ZArith Bool Lia Arith.
From TexModel Require Import Base Tables Chars Tokenizer Tree Reader Edit EditDSL EditGen.
From TexProofs Require Import EditProofs.
Import ListNotations.
Local Open Scope Z_scope.

Local Arguments call : simpl never.
Local Arguments Z.add : simpl never.
Local Arguments Z.of_nat : simpl never.
Local Arguments Z.to_nat : simpl never.
Local Arguments Z.ltb : simpl never.
Local Arguments Z.leb : simpl never.
Local Arguments Z.eqb : simpl never.

(* ====================================================================== *)
(* references                                                              *)
(* ====================================================================== *)

(* r is a usable reference to the object h, which sits at path p *)
Definition live (st : state) (r : ref) (p : path) (h : Tree.expr) : Prop :=
  path_of st r = Some p /\ deref st r = Some h.

Lemma live_init root ns p h : get root p = Some h -> live (init root ns) (RIn p 0) p h.
Proof. intros H. split; cbn; [reflexivity | exact H]. Qed.

Lemma live_class st r p h : live st r p h -> class_of st (VExpr r) = Some (class_of_expr h).
Proof. intros [_ D]. cbn. rewrite D. reflexivity. Qed.

Lemma live_holder st r p h : live st r p h -> is_node h = true -> holder st r = Some (p, h).
Proof. intros [P D] N. unfold holder. rewrite P, D, N. reflexivity. Qed.

Lemma live_get st r p h : live st r p h -> get (s_root st) p = Some h.
Proof.
  intros [P D]. destruct r as [q ep|e]; cbn in P, D; [|discriminate].
  destruct (fresh st q ep); [|discriminate]. inversion P; subst. exact D.
Qed.

Lemma below_refl b p : below b p p = false.
Proof.
  induction p as [|s p IH]; [reflexivity|]. cbn.
  rewrite (proj2 (step_eqb_eq s s) eq_refl). exact IH.
Qed.

Lemma skipn_all_nil {A} (l : list A) : skipn (length l) l = [].
Proof. induction l; [reflexivity | assumption]. Qed.

Lemma fresh_now st p : fresh st p (epoch st) = true.
Proof. unfold fresh, epoch. rewrite skipn_all_nil. reflexivity. Qed.

Lemma skipn_snoc {A} n (l : list A) x :
  skipn n (l ++ [x]) = skipn n l ++ (if Nat.leb n (length l) then [x] else []).
Proof.
  revert n; induction l as [|a l IH]; intros n.
  - destruct n as [|n]; [reflexivity|]. cbn. destruct n; reflexivity.
  - destruct n as [|n]; [reflexivity|]. cbn [skipn app length]. rewrite IH. reflexivity.
Qed.

(* the element k of the raw list of a live holder *)
Lemma deref_item st r p h k :
  live st r p h -> deref st (RIn (p ++ [SBody k]) (epoch st)) = nth_error (body_of h) k.
Proof.
  intros L. cbn. rewrite fresh_now, get_app, (live_get _ _ _ _ L). cbn.
  destruct (nth_error (body_of h) k); reflexivity.
Qed.
Lemma deref_arg st r p h k :
  live st r p h -> deref st (RIn (p ++ [SArg k]) (epoch st)) = nth_error (args_of h) k.
Proof.
  intros L. cbn. rewrite fresh_now, get_app, (live_get _ _ _ _ L). cbn.
  destruct (nth_error (args_of h) k); reflexivity.
Qed.
Lemma path_item st q : path_of st (RIn q (epoch st)) = Some q.
Proof. cbn. rewrite fresh_now. reflexivity. Qed.

(* after the raw list of the holder at p has been replaced *)
Definition after_body (st : state) (p : path) (t : Tree.expr) : state :=
  mkS t (s_muts st ++ [MBody p]) (s_nodes st).

Lemma fresh_after st p t q ep :
  fresh st q ep = true -> below true p q = false -> fresh (after_body st p t) q ep = true.
Proof.
  unfold fresh, after_body. cbn [s_muts]. intros F B. rewrite skipn_snoc, forallb_app, F.
  destruct (Nat.leb ep (length (s_muts st))); cbn; [rewrite B|]; reflexivity.
Qed.

Lemma live_after st r p h b t :
  live st r p h -> put (s_root st) p (set_body h b) = Some t ->
  live (after_body st p t) r p (set_body h b).
Proof.
  intros L P. pose proof (live_get _ _ _ _ L) as G. destruct L as [Pa D].
  destruct r as [q ep|e]; cbn in Pa, D; [|discriminate].
  destruct (fresh st q ep) eqn:F; [|discriminate]. inversion Pa; subst q.
  assert (F' : fresh (after_body st p t) p ep = true) by (apply fresh_after; [exact F | apply below_refl]).
  split; cbn; rewrite F'; [reflexivity|].
  apply (get_put_same p (s_root st) h (set_body h b) t G P).
Qed.

Lemma set_body_st_eq st p h b t :
  put (s_root st) p (set_body h b) = Some t -> set_body_st st p h b = Some (after_body st p t).
Proof. intros P. unfold set_body_st. rewrite P. reflexivity. Qed.

(* node wrappers are not touched by a change of the tree *)
Lemma node_at_after st p t k : node_at (after_body st p t) k = node_at st k.
Proof. reflexivity. Qed.

(* ====================================================================== *)
(* symbolic evaluation                                                     *)
(* ====================================================================== *)

Lemma call_S n tb recv m vs st :
  call (S n) tb recv m vs st =
  match find_meth tb st recv m with
  | Some d =>
    match bind_params (m_params d) (m_star d) vs with
    | Some en => finish (exec_block tb (call n tb) (m_body d) (Some recv :: en) st)
    | None => OUnsup
    end
  | None => OUnsup
  end.
Proof. reflexivity. Qed.

Ltac ev :=
  cbn [blk exec_block exec_stmt eval eval_list eval_cargs exprs_of cargs_of lookup nth_error
       lift_v lift_b of_outcome of_lop finish fst snd bind_params option_map m_params m_star
       m_body set_var bind_pat negb app truthy
       gen_e_tbl mro mro_find class_of_expr
       gen_e_TexNode_str gen_e_TexNode_get_args gen_e_TexNode_set_args
       gen_e_TexNode_set_contents gen_e_TexNode_get_name gen_e_TexNode_set_name
       gen_e_TexNode_set_string gen_e_TexNode_append gen_e_TexNode_insert gen_e_TexNode_copy
       gen_e_TexNode_delete gen_e_TexNode_remove gen_e_TexNode_replace_with
       gen_e_TexNode_replace gen_e_TexExpr_set_contents gen_e_TexExpr_set_string
       gen_e_TexExpr_append gen_e_TexExpr_insert gen_e_TexExpr_remove
       gen_e_TexExpr_supports_contents gen_e_TexExpr_assert_supports_contents
       gen_e_TexEnv_get_begin gen_e_TexEnv_set_begin gen_e_TexEnv_get_end gen_e_TexEnv_set_end
       gen_e_TexEnv_str gen_e_TexNamedEnv_get_begin gen_e_TexNamedEnv_get_end gen_e_TexCmd_str
       gen_e_TexCmd_supports_contents gen_e_TexCmd_assert_supports_contents gen_e_TexText_str
       gen_e_TexArgs_str].

(* method lookup on an object of the tree *)
Lemma find_meth_live st r p h m :
  live st r p h -> find_meth gen_e_tbl st (VExpr r) m = mro_find gen_e_tbl (mro (class_of_expr h)) m.
Proof. intros L. unfold find_meth. rewrite (live_class _ _ _ _ L). reflexivity. Qed.

Section Attr.
Variable callf : value -> mname -> list value -> state -> outcome.

Lemma ga_raw st r p h :
  live st r p h -> is_node h = true ->
  get_attr gen_e_tbl callf (VExpr r) A_raw st = EV (VBody r) st.
Proof.
  intros L N. unfold get_attr. rewrite (live_class _ _ _ _ L).
  assert (C : class_attr (class_of_expr h) A_raw = None) by (destruct h as [| | | | |k ? ?|k ? ?|]; reflexivity).
  assert (M : mro_find gen_e_tbl (mro (class_of_expr h)) (M_get A_raw) = None)
    by (destruct h as [| | | | |k ? ?|[|] ? ?|]; reflexivity).
  rewrite C, M. cbn [field_get]. rewrite (live_holder _ _ _ _ L N). reflexivity.
Qed.

Lemma ga_args st r p h :
  live st r p h -> is_node h = true ->
  get_attr gen_e_tbl callf (VExpr r) A_args st = EV (VArgs r) st.
Proof.
  intros L N. unfold get_attr. rewrite (live_class _ _ _ _ L).
  assert (C : class_attr (class_of_expr h) A_args = None) by (destruct h as [| | | | |k ? ?|k ? ?|]; reflexivity).
  assert (M : mro_find gen_e_tbl (mro (class_of_expr h)) (M_get A_args) = None)
    by (destruct h as [| | | | |k ? ?|[|] ? ?|]; reflexivity).
  rewrite C, M. cbn [field_get]. rewrite (live_holder _ _ _ _ L N). reflexivity.
Qed.

Lemma ga_name_cmd st r p n a b q :
  live st r p (ECmd n a b q) ->
  get_attr gen_e_tbl callf (VExpr r) A_name st = EV (VStr n) st.
Proof.
  intros L. unfold get_attr. rewrite (live_class _ _ _ _ L). cbn.
  destruct L as [_ D]. rewrite D. reflexivity.
Qed.

End Attr.

(* ====================================================================== *)
(* lists of references                                                     *)
(* ====================================================================== *)

Lemma idx_vals_nonempty mk n :
  match idx_vals mk n with [] => false | _ :: _ => true end = negb (Nat.eqb n 0).
Proof. destruct n; reflexivity. Qed.

Lemma body_vals_live st r p h :
  live st r p h -> is_node h = true ->
  body_vals st r = Some (idx_vals (fun k => VExpr (RIn (p ++ [SBody k]) (epoch st))) (length (body_of h))).
Proof. intros [P D] N. unfold body_vals. rewrite P, D, N. reflexivity. Qed.

Lemma args_vals_live st r p h :
  live st r p h -> is_node h = true ->
  args_vals st r = Some (idx_vals (fun k => VExpr (RIn (p ++ [SArg k]) (epoch st))) (length (args_of h))).
Proof. intros [P D] N. unfold args_vals. rewrite P, D, N. reflexivity. Qed.

(* ====================================================================== *)
(* _supports_contents / _assert_supports_contents                          *)
(* ====================================================================== *)

Lemma gen_supports_ok n st r p h :
  live st r p h -> is_node h = true ->
  call (S n) gen_e_tbl (VExpr r) M_supports [] st = ODone st (RVal (VBool (supports h))).
Proof.
  intros L N. rewrite call_S, (find_meth_live _ _ _ _ _ L).
  destruct h as [| | |nm a b q|nm a b q|k b q|[|] b q|b]; try discriminate; try reflexivity.
  ev. rewrite (ga_name_cmd _ _ _ _ _ _ _ _ L). ev. cbn [py_eq truthy supports].
  destruct (str_eqb nm s_item) eqn:E; cbn [orb].
  - change [105; 116; 101; 109]%N with s_item. rewrite E. reflexivity.
  - change [105; 116; 101; 109]%N with s_item. rewrite E. ev.
    rewrite (ga_raw _ _ _ _ _ L N). ev. cbn [truthy iter_vals].
    rewrite (body_vals_live _ _ _ _ L N). cbn [body_of]. rewrite idx_vals_nonempty.
    destruct b; reflexivity.
Qed.

Definition exn_or_none (b : bool) (st : state) : outcome :=
  if b then ODone st (RVal VNone) else ODone st (RExc TypeError).

Lemma gen_assert_supports_ok n st r p h :
  live st r p h -> is_node h = true ->
  call (S (S n)) gen_e_tbl (VExpr r) M_assert_supports [] st = exn_or_none (supports h) st.
Proof.
  intros L N. rewrite call_S, (find_meth_live _ _ _ _ _ L).
  destruct h as [| | |nm a b q|nm a b q|k b q|[|] b q|b]; try discriminate; try reflexivity.
  ev. rewrite (gen_supports_ok n _ _ _ _ L N). ev. cbn [truthy].
  destruct (supports (ECmd nm a b q)); reflexivity.
Qed.

(* ====================================================================== *)
(* material                                                                *)
(* ====================================================================== *)

(* what a positional argument of append / insert / replace stands for in the hand model:
   a plain str, a fresh TexExpr, or a wrapper of a fresh TexExpr *)
Definition mat_item (st : state) (v : value) : option Tree.expr :=
  match v with
  | VStr s => Some (EStr s)
  | VExpr (ROut e) => if is_texexpr e then Some e else None
  | VNode k =>
    match node_at st k with
    | Some (ROut e, _) => if is_texexpr e then Some e else None
    | _ => None
    end
  | _ => None
  end.
Fixpoint mat_items (st : state) (vs : list value) : option (list Tree.expr) :=
  match vs with
  | [] => Some []
  | v :: vs' =>
    match mat_item st v, mat_items st vs' with
    | Some x, Some xs => Some (x :: xs)
    | _, _ => None
    end
  end.

Lemma not_texnode e : existsb (isinstance1 (class_of_expr e)) [CTexNode] = false.
Proof. destruct e as [| | | | |k ? ?|[|] ? ?|]; reflexivity. Qed.
Lemma texexpr_class e : existsb (isinstance1 (class_of_expr e)) [CTexExpr] = is_texexpr e.
Proof. destruct e as [| | | | |k ? ?|[|] ? ?|]; reflexivity. Qed.

(* the methods every TexCmd / TexEnv object inherits from TexExpr *)
Lemma find_append h : is_node h = true ->
  mro_find gen_e_tbl (mro (class_of_expr h)) M_append = Some gen_e_TexExpr_append.
Proof. destruct h as [| | | | |k ? ?|[|] ? ?|]; try discriminate; reflexivity. Qed.
Lemma find_insert h : is_node h = true ->
  mro_find gen_e_tbl (mro (class_of_expr h)) M_insert = Some gen_e_TexExpr_insert.
Proof. destruct h as [| | | | |k ? ?|[|] ? ?|]; try discriminate; reflexivity. Qed.
Lemma find_remove h : is_node h = true ->
  mro_find gen_e_tbl (mro (class_of_expr h)) M_remove = Some gen_e_TexExpr_remove.
Proof. destruct h as [| | | | |k ? ?|[|] ? ?|]; try discriminate; reflexivity. Qed.

(* a new holder object -> the outcome of the method that made it *)
Definition body_outcome (st : state) (p : path) (o : Edit.outcome Tree.expr) : outcome :=
  match o with
  | Done h' =>
    match put (s_root st) p h' with
    | Some t => ODone (after_body st p t) (RVal VNone)
    | None => OUnsup
    end
  | Raise e => match exn_of e with Some x => ODone st (RExc x) | None => OUnsup end
  | Partial _ _ => OUnsup
  end.

(* ====================================================================== *)
(* TexExpr.append                                                          *)
(* ====================================================================== *)

Definition unwrap_elt : EditDSL.expr :=
  EIfExp (EIsInst (EVar 2) [CTexNode]) (EAttr (EVar 2) A_expr) (EVar 2).

Lemma isinstance_str st s cs : isinstance st (VStr s) cs = Some (existsb (isinstance1 KStr) cs).
Proof. reflexivity. Qed.
Lemma isinstance_int st z cs : isinstance st (VInt z) cs = Some (existsb (isinstance1 KInt) cs).
Proof. reflexivity. Qed.
Lemma isinstance_out st e cs :
  isinstance st (VExpr (ROut e)) cs = Some (existsb (isinstance1 (class_of_expr e)) cs).
Proof. reflexivity. Qed.
Lemma isinstance_node st k x cs :
  node_at st k = Some x -> isinstance st (VNode k) cs = Some (existsb (isinstance1 KNode) cs).
Proof. intros H. unfold isinstance. cbn [class_of]. rewrite H. reflexivity. Qed.
Lemma isinstance_live st r p h cs :
  live st r p h -> isinstance st (VExpr r) cs = Some (existsb (isinstance1 (class_of_expr h)) cs).
Proof. intros L. unfold isinstance. rewrite (live_class _ _ _ _ L). reflexivity. Qed.

Ltac cls := cbn [existsb isinstance1 cls_eqb mro orb andb negb truthy]; ev.

(* node.expr / node.parent of a wrapper *)
Lemma ga_node_expr callf st k r par :
  node_at st k = Some (r, par) -> get_attr gen_e_tbl callf (VNode k) A_expr st = EV (VExpr r) st.
Proof. intros H. unfold get_attr. cbn [class_of]. rewrite H. cbn. rewrite H. reflexivity. Qed.
Lemma ga_node_parent callf st k r j :
  node_at st k = Some (r, PNode j) -> get_attr gen_e_tbl callf (VNode k) A_parent st = EV (VNode j) st.
Proof. intros H. unfold get_attr. cbn [class_of]. rewrite H. cbn. rewrite H. reflexivity. Qed.
Lemma ga_node_noparent callf st k r :
  node_at st k = Some (r, PNone) -> get_attr gen_e_tbl callf (VNode k) A_parent st = EV VNone st.
Proof. intros H. unfold get_attr. cbn [class_of]. rewrite H. cbn. rewrite H. reflexivity. Qed.

Lemma unwrap_one callf st self v1 v x :
  mat_item st v = Some x ->
  exists u, eval gen_e_tbl callf unwrap_elt [Some self; Some v1; Some v] st = EV u st /\
            to_item st u = Some x.
Proof.
  intros Mv. unfold unwrap_elt.
  destruct v as [| | |s|[q ep|e]|k| | | |]; cbn [mat_item] in Mv; try discriminate.
  - inversion Mv; subst x. exists (VStr s). split; reflexivity.
  - destruct (is_texexpr e) eqn:T; [|discriminate]. inversion Mv; subst x.
    exists (VExpr (ROut e)). split; [|cbn [to_item]; rewrite T; reflexivity].
    ev. rewrite isinstance_out, not_texnode. reflexivity.
  - destruct (node_at st k) as [[[q ep|e] par]|] eqn:Nk; try discriminate.
    destruct (is_texexpr e) eqn:T; [|discriminate]. inversion Mv; subst x.
    exists (VExpr (ROut e)). split; [|cbn [to_item]; rewrite T; reflexivity].
    ev. rewrite (isinstance_node _ _ _ _ Nk). cls. ev.
    rewrite (ga_node_expr _ _ _ _ _ Nk). reflexivity.
Qed.

Lemma unwrap_loop callf fc fe st self v1 :
  (forall en st', fc en st' = EV (VBool true) st') ->
  (forall en st', fe en st' = eval gen_e_tbl callf unwrap_elt en st') ->
  forall vals new,
  mat_items st vals = Some new ->
  exists us,
    gen_loop (PVar 2) fc fe vals [Some self; Some v1] st = EV (VList us) st /\
    to_items st us = Some new.
Proof.
  intros Hc He. induction vals as [|v vals IH]; intros new M.
  - inversion M; subst. exists []. split; reflexivity.
  - cbn [mat_items] in M. destruct (mat_item st v) as [x|] eqn:Mv; [|discriminate].
    destruct (mat_items st vals) as [xs|] eqn:Ms; [|discriminate]. inversion M; subst new.
    destruct (IH xs eq_refl) as [us [Hl Ht]].
    destruct (unwrap_one callf st self v1 v x Mv) as [u [Hu Hi]].
    cbn [gen_loop bind_pat set_var]. rewrite Hc. rewrite Nat.eqb_refl. cbn [negb truthy].
    rewrite He, Hu, Nat.eqb_refl. cbn [negb]. rewrite Hl.
    exists (u :: us). split; [reflexivity|]. cbn [to_items]. rewrite Hi, Ht. reflexivity.
Qed.

Lemma gen_expr_append_ok n st r p h vals new :
  live st r p h -> is_node h = true -> mat_items st vals = Some new ->
  call (S (S (S n))) gen_e_tbl (VExpr r) M_append vals st = body_outcome st p (expr_append h new).
Proof.
  intros L N M. rewrite call_S, (find_meth_live _ _ _ _ _ L), (find_append _ N).
  cbn [m_params m_star m_body gen_e_TexExpr_append].
  assert (B : bind_params [] true vals = Some [Some (VList vals)]) by (destruct vals; reflexivity).
  rewrite B. ev. rewrite (gen_assert_supports_ok n _ _ _ _ L N). unfold expr_append, exn_or_none.
  destruct (supports h); cbn [negb]; ev; [|reflexivity].
  rewrite (ga_raw _ _ _ _ _ L N). ev. cbn [iter_vals].
  match goal with
  | |- context [gen_loop _ ?fc ?fe vals ?en st] =>
    destruct (unwrap_loop (call (S (S n)) gen_e_tbl) fc fe st (VExpr r) (VList vals)
                          (fun _ _ => eq_refl) (fun _ _ => eq_refl) vals new M) as [us [Hl Ht]];
    rewrite Hl
  end.
  ev. cbn [list_op]. rewrite (live_holder _ _ _ _ L N), Ht. unfold body_outcome, set_body_st.
  destruct (put (s_root st) p (set_body h (body_of h ++ new))); reflexivity.
Qed.

(* ====================================================================== *)
(* put / get                                                               *)
(* ====================================================================== *)

Lemma subst_nth_subst_nth {A} i (x y c : A) l : nth_error l i = Some c ->
  subst_nth i y (subst_nth i x l) = subst_nth i y l.
Proof.
  unfold subst_nth. revert i; induction l as [|a l IH]; intros [|i] H; cbn in *; try discriminate.
  - reflexivity.
  - f_equal. apply IH. exact H.
Qed.

Lemma set_child_set_child e s c c' : child e s = Some c ->
  forall c'', set_child (set_child e s c') s c'' = set_child e s c''.
Proof.
  intros H c''. assert (N : is_node e = true) by (apply (child_is_node e s c H)).
  destruct s as [i|i]; cbn [set_child]; cbn [child] in H.
  - assert (HA : has_args e = true) by (apply (child_has_args e i c H)).
    rewrite (args_of_set_args e _ HA), (subst_nth_subst_nth _ _ _ _ _ H).
    destruct e; try discriminate; reflexivity.
  - rewrite (body_of_set_body e _ N), (subst_nth_subst_nth _ _ _ _ _ H), set_body_set_body.
    reflexivity.
Qed.

(* a second put at the same place overwrites the first *)
Lemma put_put : forall p root x t y,
  put root p x = Some t -> put t p y = put root p y.
Proof.
  induction p as [|s p IH]; intros root x t y P; cbn in *; [reflexivity|].
  destruct (child root s) as [c|] eqn:C; [|discriminate].
  destruct (put c p x) as [c'|] eqn:Pc; [|discriminate]. inversion P; subst t.
  rewrite (child_set_child_same _ _ _ c' C), (IH c x c' y Pc).
  destruct (put c p y) as [c''|]; [|reflexivity].
  rewrite (set_child_set_child root s c c' C c''). reflexivity.
Qed.

Lemma set_body_id h : set_body h (body_of h) = h.
Proof. destruct h; reflexivity. Qed.

Lemma subst_nth_same {A} (l : list A) i x : nth_error l i = Some x -> subst_nth i x l = l.
Proof. intros H. unfold subst_nth. symmetry. apply split_nth. exact H. Qed.

Lemma set_child_same e s c : child e s = Some c -> set_child e s c = e.
Proof.
  intros H. destruct s as [i|i]; cbn in *.
  - rewrite (subst_nth_same _ _ _ H). destruct e; reflexivity.
  - rewrite (subst_nth_same _ _ _ H). apply set_body_id.
Qed.

Lemma put_same : forall p root h, get root p = Some h -> put root p h = Some root.
Proof.
  induction p as [|s p IH]; intros root h G; cbn in *; [congruence|].
  destruct (child root s) as [c|] eqn:C; [|discriminate].
  rewrite (IH c h G), (set_child_same _ _ _ C). reflexivity.
Qed.

(* ====================================================================== *)
(* TexExpr.insert                                                          *)
(* ====================================================================== *)

Definition insert_body : block :=
  blk [SIf (EIsInst (EVar 4) [CTexNode]) (blk [SAssign 4 (EAttr (EVar 4) A_expr)]) (blk []);
       SIf (EIsInst (EVar 4) [CTexExpr]) (blk [SSetAttr (EVar 4) A_parent (EVar 0)]) (blk []);
       SExpr (ELop (EAttr (EVar 0) A_raw) LInsert (exprs_of [EAdd (EVar 1) (EVar 3); EVar 4]))].

Lemma mat_items_after st p t vals : mat_items (after_body st p t) vals = mat_items st vals.
Proof. induction vals as [|v vals IH]; [reflexivity|]. cbn [mat_items]. rewrite IH. reflexivity. Qed.

Lemma no_parent_setter e :
  mro_find gen_e_tbl (mro (class_of_expr e)) (M_set A_parent) = None.
Proof. destruct e as [| | | | |k ? ?|[|] ? ?|]; reflexivity. Qed.

Lemma set_parent_fresh callf st e x :
  is_texexpr e = true -> set_attr gen_e_tbl callf (VExpr (ROut e)) A_parent x st = Some (st, RVal VNone).
Proof.
  intros T. unfold set_attr, find_meth. cbn [class_of deref option_map].
  rewrite no_parent_setter. cbn [field_set deref]. rewrite T. reflexivity.
Qed.

Lemma insert_step cf st r p h i j v x vl rest :
  live st r p h -> is_node h = true -> mat_item st v = Some x ->
  exists u t,
    put (s_root st) p (set_body h (list_insert (i + j) x (body_of h))) = Some t /\
    exec_block gen_e_tbl cf insert_body
      (Some (VExpr r) :: Some (VInt i) :: Some vl :: Some (VInt j) :: Some v :: rest) st
    = XNormal (Some (VExpr r) :: Some (VInt i) :: Some vl :: Some (VInt j) :: Some u :: rest)
              (after_body st p t).
Proof.
  intros L N Mv.
  destruct (put_total (s_root st) p h (set_body h (list_insert (i + j) x (body_of h)))
                      (live_get _ _ _ _ L)) as [t Pt].
  assert (Fin : forall u, to_item st u = Some x ->
    exec_block gen_e_tbl cf
      (blk [SExpr (ELop (EAttr (EVar 0) A_raw) LInsert (exprs_of [EAdd (EVar 1) (EVar 3); EVar 4]))])
      (Some (VExpr r) :: Some (VInt i) :: Some vl :: Some (VInt j) :: Some u :: rest) st
    = XNormal (Some (VExpr r) :: Some (VInt i) :: Some vl :: Some (VInt j) :: Some u :: rest)
              (after_body st p t)).
  { intros u Hu. ev. rewrite (ga_raw _ _ _ _ _ L N). ev. cbn [list_op].
    rewrite (live_holder _ _ _ _ L N), Hu, (set_body_st_eq _ _ _ _ _ Pt). reflexivity. }
  unfold insert_body.
  destruct v as [| | |s|[q ep|e]|k| | | |]; cbn [mat_item] in Mv; try discriminate.
  - inversion Mv; subst x. exists (VStr s), t. split; [exact Pt|].
    ev. rewrite isinstance_str. cls. ev. rewrite isinstance_str. cls. ev.
    apply (Fin (VStr s)). reflexivity.
  - destruct (is_texexpr e) eqn:T; [|discriminate]. inversion Mv; subst x.
    exists (VExpr (ROut e)), t. split; [exact Pt|].
    ev. rewrite isinstance_out, not_texnode. cls. ev.
    rewrite isinstance_out, texexpr_class, T. cls. ev.
    rewrite (set_parent_fresh _ _ _ _ T). ev.
    apply (Fin (VExpr (ROut e))). cbn [to_item]. rewrite T. reflexivity.
  - destruct (node_at st k) as [[[q ep|e] par]|] eqn:Nk; try discriminate.
    destruct (is_texexpr e) eqn:T; [|discriminate]. inversion Mv; subst x.
    exists (VExpr (ROut e)), t. split; [exact Pt|].
    ev. rewrite (isinstance_node _ _ _ _ Nk). cls. ev.
    rewrite (ga_node_expr _ _ _ _ _ Nk). ev.
    rewrite isinstance_out, texexpr_class, T. cls. ev.
    rewrite (set_parent_fresh _ _ _ _ T). ev.
    apply (Fin (VExpr (ROut e))). cbn [to_item]. rewrite T. reflexivity.
Qed.

Lemma set34 (a b c : option value) (rest : env) x y :
  exists rest', set_var (set_var (a :: b :: c :: rest) 3 x) 4 y = a :: b :: c :: Some x :: Some y :: rest'.
Proof. destruct rest as [|u [|w rest]]; eexists; reflexivity. Qed.

Lemma insert_loop cf body chk r p i vl :
  (forall en st, body en st = exec_block gen_e_tbl cf insert_body en st) ->
  (forall st, chk st = true) ->
  forall vals new j st h rest,
  live st r p h -> is_node h = true -> mat_items st vals = Some new ->
  exists st' rest',
    for_loop body (PPair 3 4) chk (enum_from j vals)
             (Some (VExpr r) :: Some (VInt i) :: Some vl :: rest) st
    = XNormal (Some (VExpr r) :: Some (VInt i) :: Some vl :: rest') st' /\
    put (s_root st) p (set_body h (insert_seq (i + j) new (body_of h))) = Some (s_root st') /\
    s_nodes st' = s_nodes st.
Proof.
  intros Hb Hc. induction vals as [|v vals IH]; intros new j st h rest L N M.
  - inversion M; subst new. exists st, rest. split; [reflexivity|]. split; [|reflexivity].
    cbn [insert_seq]. rewrite set_body_id. apply put_same. apply (live_get _ _ _ _ L).
  - cbn [mat_items] in M. destruct (mat_item st v) as [x|] eqn:Mv; [|discriminate].
    destruct (mat_items st vals) as [xs|] eqn:Ms; [|discriminate]. inversion M; subst new.
    cbn [enum_from for_loop bind_pat].
    destruct (set34 (Some (VExpr r)) (Some (VInt i)) (Some vl) rest (VInt j) v) as [rest1 ->].
    rewrite Hb.
    destruct (insert_step cf st r p h i j v x vl rest1 L N Mv) as [u [t [Pt Ex]]].
    rewrite Ex, Hc.
    pose proof (live_after _ _ _ _ _ _ L Pt) as L1.
    assert (N1 : is_node (set_body h (list_insert (i + j) x (body_of h))) = true)
      by (rewrite is_node_set_body; exact N).
    assert (M1 : mat_items (after_body st p t) vals = Some xs) by (rewrite mat_items_after; exact Ms).
    destruct (IH xs (j + 1) (after_body st p t) _ (Some (VInt j) :: Some u :: rest1) L1 N1 M1)
      as [st' [rest' [Hl [Hp Hn]]]].
    exists st', rest'. split; [exact Hl|]. split; [|exact Hn].
    rewrite (body_of_set_body _ _ N), set_body_set_body in Hp. cbn [s_root after_body] in Hp.
    rewrite (put_put _ _ _ _ _ Pt) in Hp. cbn [insert_seq].
    replace (i + j + 1) with (i + (j + 1)) by lia. exact Hp.
Qed.

Lemma gen_expr_insert_ok n st r p h i vals new :
  live st r p h -> is_node h = true -> mat_items st vals = Some new ->
  match expr_insert h i new with
  | Done h' =>
    exists st', call (S (S (S n))) gen_e_tbl (VExpr r) M_insert (VInt i :: vals) st
                = ODone st' (RVal VNone) /\
                put (s_root st) p h' = Some (s_root st') /\ s_nodes st' = s_nodes st
  | Raise e =>
    e = ETypeError /\
    call (S (S (S n))) gen_e_tbl (VExpr r) M_insert (VInt i :: vals) st = ODone st (RExc TypeError)
  | Partial _ _ => False
  end.
Proof.
  intros L N M.
  assert (C : call (S (S (S n))) gen_e_tbl (VExpr r) M_insert (VInt i :: vals) st =
              finish (exec_block gen_e_tbl (call (S (S n)) gen_e_tbl) (m_body gen_e_TexExpr_insert)
                                 [Some (VExpr r); Some (VInt i); Some (VList vals)] st)).
  { rewrite call_S, (find_meth_live _ _ _ _ _ L), (find_insert _ N).
    cbn [m_params m_star m_body gen_e_TexExpr_insert bind_params option_map].
    destruct vals; reflexivity. }
  rewrite C. clear C. ev. rewrite (gen_assert_supports_ok n _ _ _ _ L N).
  unfold expr_insert, exn_or_none.
  destruct (supports h); cbn [negb]; ev; [|split; reflexivity].
  cbn [iter_vals option_map]. ev. cbn [iter_vals].
  match goal with
  | |- context [for_loop ?body _ ?chk _ _ _] =>
    destruct (insert_loop (call (S (S n)) gen_e_tbl) body chk r p i (VList vals)
                          (fun _ _ => eq_refl) (fun _ => eq_refl) vals new 0 st h [] L N M)
      as [st' [rest' [Hl [Hp Hn]]]]
  end.
  rewrite Hl. cbn [finish]. exists st'. replace (i + 0) with i in Hp by lia. auto.
Qed.

(* ====================================================================== *)
(* TexExpr.remove                                                          *)
(* ====================================================================== *)

Definition item_ref (st : state) (p : path) (k : nat) : value :=
  VExpr (RIn (p ++ [SBody k]) (epoch st)).

(* next((i for i, c in enumerate(self._contents) if c is expr), None) *)
Lemma scan_loop cf fc fe st self arg mk (g : nat -> bool) :
  (forall en st', fc en st' = eval gen_e_tbl cf (EIs (EVar 3) (EVar 1)) en st') ->
  (forall en st', fe en st' = eval gen_e_tbl cf (EVar 2) en st') ->
  forall m s,
  (forall k, (s <= k < s + m)%nat -> is_same st (mk k) arg = Some (g k)) ->
  gen_loop (PPair 2 3) fc fe (enum_from (Z.of_nat s) (map mk (seq s m))) [Some self; Some arg] st
  = EV (VList (map (fun k => VInt (Z.of_nat k)) (filter g (seq s m)))) st.
Proof.
  intros Hc He. induction m as [|m IH]; intros s Hg; [reflexivity|].
  cbn [seq map enum_from gen_loop bind_pat set_var filter]. rewrite Hc. ev.
  rewrite (Hg s) by lia. ev. rewrite Nat.eqb_refl. cbn [negb].
  replace (Z.of_nat s + 1) with (Z.of_nat (S s)) by lia.
  assert (Hg' : forall k, (S s <= k < S s + m)%nat -> is_same st (mk k) arg = Some (g k))
    by (intros k Hk; apply Hg; lia).
  destruct (g s).
  - rewrite He. ev. rewrite Nat.eqb_refl. cbn [negb]. rewrite (IH (S s) Hg'). reflexivity.
  - apply (IH (S s) Hg').
Qed.

Lemma first_index_body f mk eqf : forall (b : list Tree.expr) s,
  (forall k c, nth_error b k = Some c -> f (mk (s + k)%nat) = Some (eqf c)) ->
  first_index f (map mk (seq s (length b))) = Some (index_of eqf b).
Proof.
  induction b as [|c b IH]; intros s H; [reflexivity|].
  cbn [length seq map first_index index_of].
  pose proof (H 0%nat c eq_refl) as H0. rewrite Nat.add_0_r in H0. rewrite H0.
  destruct (eqf c); [reflexivity|].
  rewrite (IH (S s)).
  - destruct (index_of eqf b); reflexivity.
  - intros k c' Hk. replace (S s + k)%nat with (s + S k)%nat by lia. apply H. exact Hk.
Qed.

Lemma index_of_lt {A} (f : A -> bool) : forall l k, index_of f l = Some k -> (k < length l)%nat.
Proof.
  induction l as [|x l IH]; intros k H; cbn in H; [discriminate|].
  destruct (f x).
  - inversion H; subst. cbn. lia.
  - destruct (index_of f l) as [j|]; [|discriminate]. inversion H; subst. cbn.
    specialize (IH j eq_refl). lia.
Qed.

Lemma py_pos_nat len k : (k < len)%nat -> py_pos len (Z.of_nat k) = Some k.
Proof.
  intros H. unfold py_pos. cbv zeta.
  assert (E1 : (Z.of_nat k <? 0) = false) by (apply Z.ltb_ge; lia).
  assert (E2 : (Z.of_nat len <=? Z.of_nat k) = false) by (apply Z.leb_gt; lia).
  rewrite E1, E2, E1. cbn [orb]. rewrite Nat2Z.id. reflexivity.
Qed.

Lemma filter_seq_lt g : forall m s k l, filter g (seq s m) = k :: l -> (s <= k < s + m)%nat.
Proof.
  induction m as [|m IH]; intros s k l H; cbn in H; [discriminate|].
  destruct (g s).
  - inversion H; subst. lia.
  - specialize (IH (S s) k l H). lia.
Qed.

Definition remove_result (st : state) (p : path) (h : Tree.expr) (idx : option nat) : outcome :=
  if supports h then
    match idx with
    | Some k =>
      match put (s_root st) p (set_body h (splice k 1 [] (body_of h))) with
      | Some t => ODone (after_body st p t) (RVal (VInt (Z.of_nat k)))
      | None => OUnsup
      end
    | None => ODone st (RExc ValueError)
    end
  else ODone st (RExc TypeError).

Lemma gen_expr_remove_gen n st r p h arg g eqf :
  live st r p h -> is_node h = true ->
  (forall k c, nth_error (body_of h) k = Some c -> is_same st (item_ref st p k) arg = Some (g k)) ->
  (filter g (seq 0 (length (body_of h))) = [] ->
   forall k c, nth_error (body_of h) k = Some c -> py_eq st (item_ref st p k) arg = Some (eqf c)) ->
  call (S (S (S n))) gen_e_tbl (VExpr r) M_remove [arg] st =
  remove_result st p h
    (match filter g (seq 0 (length (body_of h))) with
     | k :: _ => Some k
     | [] => index_of eqf (body_of h)
     end).
Proof.
  intros L N Hs He. rewrite call_S, (find_meth_live _ _ _ _ _ L), (find_remove _ N).
  cbn [m_params m_star m_body gen_e_TexExpr_remove bind_params option_map]. ev.
  rewrite (gen_assert_supports_ok n _ _ _ _ L N). unfold exn_or_none, remove_result.
  destruct (supports h); ev; [|reflexivity].
  rewrite (ga_raw _ _ _ _ _ L N). ev. cbn [iter_vals]. rewrite (body_vals_live _ _ _ _ L N).
  cbn [option_map]. ev. cbn [iter_vals]. unfold idx_vals.
  match goal with
  | |- context [gen_loop _ ?fc ?fe _ _ _] =>
    pose proof (scan_loop (call (S (S n)) gen_e_tbl) fc fe st (VExpr r) arg
                          (fun k => VExpr (RIn (p ++ [SBody k]) (epoch st))) g
                          (fun _ _ => eq_refl) (fun _ _ => eq_refl) (length (body_of h)) 0) as Hscan
  end.
  change (Z.of_nat 0) with 0 in Hscan. rewrite Hscan; clear Hscan.
  2:{ intros k Hk. destruct (nth_error (body_of h) k) as [c|] eqn:Hc.
      - apply (Hs k c Hc).
      - apply nth_error_None in Hc. lia. }
  ev.
  assert (Del : forall k, (k < length (body_of h))%nat ->
    finish (exec_block gen_e_tbl (call (S (S n)) gen_e_tbl)
      (blk [SDelItem (EAttr (EVar 0) A_raw) (EVar 4); SReturn (EVar 4)])
      [Some (VExpr r); Some arg; None; None; Some (VInt (Z.of_nat k))] st)
    = match put (s_root st) p (set_body h (splice k 1 [] (body_of h))) with
      | Some t => ODone (after_body st p t) (RVal (VInt (Z.of_nat k)))
      | None => OUnsup
      end).
  { intros k Hk. ev. rewrite (ga_raw _ _ _ _ _ L N). ev. cbn [del_item].
    rewrite (live_holder _ _ _ _ L N), (py_pos_nat _ _ Hk). unfold set_body_st.
    destruct (put (s_root st) p (set_body h (splice k 1 [] (body_of h)))); reflexivity. }
  destruct (filter g (seq 0 (length (body_of h)))) as [|k l] eqn:F; cbn [map].
  - (* not found by identity: self._contents.index(expr) *)
    ev. cbn [is_same]. ev. rewrite (ga_raw _ _ _ _ _ L N). ev. cbn [list_op iter_vals].
    rewrite (body_vals_live _ _ _ _ L N). unfold idx_vals.
    rewrite (first_index_body (same_or_eq st arg) _ eqf (body_of h) 0).
    2:{ intros k c Hc. cbn [Nat.add]. unfold same_or_eq.
        assert (Gk : g k = false).
        { destruct (g k) eqn:Gk; [|reflexivity]. exfalso.
          assert (In k (filter g (seq 0 (length (body_of h))))).
          { apply filter_In. split; [|exact Gk]. apply in_seq.
            pose proof (nth_error_lt _ _ _ Hc). lia. }
          rewrite F in H. exact H. }
        pose proof (Hs k c Hc) as Hs'. unfold item_ref in Hs'. rewrite Hs', Gk.
        apply (He eq_refl k c Hc). }
    destruct (index_of eqf (body_of h)) as [k|] eqn:I; ev; [|reflexivity].
    apply (Del k). apply (index_of_lt _ _ _ I).
  - ev. cbn [is_same]. ev. apply (Del k).
    pose proof (filter_seq_lt g _ _ _ _ F). lia.
Qed.

Lemma path_eqb_snoc p q k i :
  path_eqb (p ++ [SBody k]) (q ++ [SBody i]) = path_eqb p q && Nat.eqb k i.
Proof.
  destruct (path_eqb (p ++ [SBody k]) (q ++ [SBody i])) eqn:E.
  - apply path_eqb_eq in E. apply app_inj_tail in E. destruct E as [E1 E2]. inversion E2; subst.
    rewrite path_eqb_refl, Nat.eqb_refl. reflexivity.
  - destruct (path_eqb p q) eqn:E1; [|reflexivity]. destruct (Nat.eqb k i) eqn:E2; [|reflexivity].
    apply path_eqb_eq in E1. apply Nat.eqb_eq in E2. subst.
    rewrite path_eqb_refl in E. discriminate.
Qed.

Lemma str_eqb_sym a b : str_eqb a b = str_eqb b a.
Proof.
  destruct (str_eqb a b) eqn:E.
  - apply str_eqb_eq in E. subst. symmetry. apply str_eqb_refl.
  - destruct (str_eqb b a) eqn:E'; [|reflexivity]. apply str_eqb_eq in E'. subst.
    rewrite str_eqb_refl in E. discriminate.
Qed.
(* the DSL's `==` is the hand model's *)
Lemma eq_obj_spec ec ex : eq_obj ec ex = eq_expr_item ex ec.
Proof. destruct ec; cbn; try reflexivity; apply str_eqb_sym. Qed.
Lemma eq_obj_node_spec ec ex : eq_obj_node ec ex = eq_node_item ex ec.
Proof. destruct ec; cbn; try reflexivity; apply str_eqb_sym. Qed.

Lemma filter_eqb_seq_out ti : forall m s, (ti < s)%nat ->
  filter (fun k => Nat.eqb k ti) (seq s m) = [].
Proof.
  induction m as [|m IH]; intros s H; [reflexivity|]. cbn [seq filter].
  assert (E : Nat.eqb s ti = false) by (apply Nat.eqb_neq; lia). rewrite E. apply IH. lia.
Qed.
Lemma filter_eqb_seq ti : forall m s, (s <= ti < s + m)%nat ->
  filter (fun k => Nat.eqb k ti) (seq s m) = [ti].
Proof.
  induction m as [|m IH]; intros s H; [lia|]. cbn [seq filter].
  destruct (Nat.eqb s ti) eqn:E.
  - apply Nat.eqb_eq in E. subst s. rewrite filter_eqb_seq_out by lia. reflexivity.
  - apply Nat.eqb_neq in E. apply IH. lia.
Qed.

Lemma filter_false {A} (g : A -> bool) l : (forall x, In x l -> g x = false) -> filter g l = [].
Proof.
  induction l as [|x l IH]; intros H; [reflexivity|]. cbn.
  rewrite (H x (or_introl eq_refl)). apply IH. intros y Hy. apply H. right. exact Hy.
Qed.

(* the outcome of a generated remove against the hand model's expr_remove *)
Definition remove_rel (st : state) (p : path) (o : outcome) (ho : Edit.outcome (nat * Tree.expr)) : Prop :=
  match ho with
  | Done kh =>
    exists t, put (s_root st) p (snd kh) = Some t /\
              o = ODone (after_body st p t) (RVal (VInt (Z.of_nat (fst kh))))
  | Raise e => exists x, exn_of e = Some x /\ o = ODone st (RExc x)
  | Partial _ _ => False
  end.

Lemma remove_result_rel st p h eqf thp ti x idx :
  get (s_root st) p = Some h ->
  idx = (if path_eqb p thp then Some ti else index_of (eqf x) (body_of h)) ->
  remove_rel st p (remove_result st p h idx) (expr_remove eqf p h thp ti x).
Proof.
  intros G ->. unfold remove_result, expr_remove.
  destruct (supports h); cbn [negb]; [|exists TypeError; split; reflexivity].
  destruct (if path_eqb p thp then Some ti else index_of (eqf x) (body_of h)) as [k|].
  - cbn [remove_rel fst snd].
    destruct (put_total _ _ _ (set_body h (splice k 1 [] (body_of h))) G) as [t Pt].
    exists t. rewrite Pt. split; reflexivity.
  - exists ValueError. split; reflexivity.
Qed.

(* holder.remove(expr): expr an object of the tree *)
Lemma gen_expr_remove_obj n st r p h rx thp ti x :
  live st r p h -> is_node h = true ->
  live st rx (thp ++ [SBody ti]) x -> is_texexpr x = true ->
  (p = thp \/ is_node x = true) ->
  remove_rel st p (call (S (S (S n))) gen_e_tbl (VExpr r) M_remove [VExpr rx] st)
             (expr_remove eq_expr_item p h thp ti x).
Proof.
  intros L N Lx T Hx.
  pose proof (live_get _ _ _ _ L) as G. pose proof (live_get _ _ _ _ Lx) as Gx.
  rewrite (gen_expr_remove_gen n st r p h (VExpr rx)
             (fun k => path_eqb (p ++ [SBody k]) (thp ++ [SBody ti])) (eq_expr_item x) L N).
  - apply remove_result_rel; [exact G|].
    destruct (path_eqb p thp) eqn:E.
    + apply path_eqb_eq in E. subst thp.
      rewrite get_app, G in Gx. cbn in Gx.
      assert (Hn : nth_error (body_of h) ti = Some x) by (destruct (nth_error (body_of h) ti); congruence).
      rewrite (filter_ext _ (fun k => Nat.eqb k ti)).
      2:{ intros k. rewrite path_eqb_snoc, path_eqb_refl. reflexivity. }
      pose proof (nth_error_lt _ _ _ Hn) as Hlt.
      rewrite filter_eqb_seq by lia. reflexivity.
    + rewrite filter_false; [reflexivity|]. intros k _. rewrite path_eqb_snoc, E. reflexivity.
  - intros k c Hc. unfold item_ref, is_same.
    rewrite (deref_item _ _ _ _ k L), Hc. destruct Lx as [Px Dx]. rewrite Dx, T, orb_true_r.
    rewrite path_item, Px. reflexivity.
  - intros F k c Hc. unfold item_ref, py_eq.
    destruct Lx as [Px Dx]. rewrite Dx.
    destruct Hx as [Hx|Hx].
    + exfalso. subst thp. rewrite get_app, G in Gx. cbn in Gx.
      assert (Hn : nth_error (body_of h) ti = Some x) by (destruct (nth_error (body_of h) ti); congruence).
      assert (In ti (filter (fun k => path_eqb (p ++ [SBody k]) (p ++ [SBody ti]))
                            (seq 0 (length (body_of h))))).
      { apply filter_In. split; [|apply path_eqb_refl]. apply in_seq.
        pose proof (nth_error_lt _ _ _ Hn). lia. }
      rewrite F in H. exact H.
    + rewrite Hx, (deref_item _ _ _ _ k L), Hc, eq_obj_spec. reflexivity.
Qed.

(* holder.remove(node): a TexNode is never an element; found by text only *)
Lemma gen_expr_remove_node n st r p h kx rx par thp ti x :
  live st r p h -> is_node h = true ->
  node_at st kx = Some (rx, par) -> live st rx (thp ++ [SBody ti]) x ->
  path_eqb p thp = false ->
  remove_rel st p (call (S (S (S n))) gen_e_tbl (VExpr r) M_remove [VNode kx] st)
             (expr_remove eq_node_item p h thp ti x).
Proof.
  intros L N Nk Lx E.
  pose proof (live_get _ _ _ _ L) as G.
  rewrite (gen_expr_remove_gen n st r p h (VNode kx) (fun _ => false) (eq_node_item x) L N).
  - apply remove_result_rel; [exact G|]. rewrite E.
    rewrite filter_false; [reflexivity|]. intros; reflexivity.
  - intros k c Hc. reflexivity.
  - intros _ k c Hc. unfold item_ref, py_eq. rewrite Nk. destruct Lx as [Px Dx]. rewrite Dx.
    rewrite (deref_item _ _ _ _ k L), Hc, eq_obj_node_spec. reflexivity.
Qed.

(* ====================================================================== *)
(* TexNode: remove, append, insert, copy                                   *)
(* ====================================================================== *)

Lemma find_meth_node st k x m :
  node_at st k = Some x -> find_meth gen_e_tbl st (VNode k) m = gen_e_tbl CTexNode m.
Proof.
  intros H. unfold find_meth. cbn [class_of]. rewrite H. cbn [mro mro_find].
  destruct (gen_e_tbl CTexNode m); reflexivity.
Qed.

(* a statement-level call: the returned value is dropped *)
Definition drop_rel (st : state) (p : path) (o : outcome) (ho : Edit.outcome (nat * Tree.expr)) : Prop :=
  match ho with
  | Done kh =>
    exists t, put (s_root st) p (snd kh) = Some t /\ o = ODone (after_body st p t) (RVal VNone)
  | Raise e => exists x, exn_of e = Some x /\ o = ODone st (RExc x)
  | Partial _ _ => False
  end.

(* what the hand model does with the result of expr_remove *)
Lemma drop_rel_view st p h o ho :
  get (s_root st) p = Some h -> drop_rel st p o ho ->
  view o = of_tree (s_root st) (obind ho (fun kh => put_o (s_root st) p (snd kh))).
Proof.
  intros G R. destruct ho as [kh|e|e a]; cbn [drop_rel] in R; [| |contradiction].
  - destruct R as [t [Pt ->]]. cbn [obind]. unfold put_o. rewrite Pt. reflexivity.
  - destruct R as [x [Hx ->]]. cbn [obind]. unfold of_tree, of_hand. rewrite Hx. reflexivity.
Qed.

Lemma gen_node_remove_rel n st ks rs pars pp P kx rx parx thp ti x :
  node_at st ks = Some (rs, pars) -> live st rs pp P -> is_node P = true ->
  node_at st kx = Some (rx, parx) -> live st rx (thp ++ [SBody ti]) x -> is_texexpr x = true ->
  (pp = thp \/ is_node x = true) ->
  drop_rel st pp (call (S (S (S (S n)))) gen_e_tbl (VNode ks) M_remove [VNode kx] st)
           (expr_remove eq_expr_item pp P thp ti x).
Proof.
  intros Ns L N Nx Lx T Hx. rewrite call_S, (find_meth_node _ _ _ _ Ns).
  cbn [gen_e_tbl m_params m_star m_body gen_e_TexNode_remove bind_params option_map]. ev.
  rewrite (ga_node_expr _ _ _ _ _ Ns). ev. rewrite (ga_node_expr _ _ _ _ _ Nx). ev.
  pose proof (gen_expr_remove_obj n st rs pp P rx thp ti x L N Lx T Hx) as R.
  destruct (expr_remove eq_expr_item pp P thp ti x) as [kh|e|e a]; cbn [remove_rel drop_rel] in *.
  - destruct R as [t [Pt ->]]. exists t. split; [exact Pt|]. reflexivity.
  - destruct R as [y [Hy ->]]. exists y. split; [exact Hy|]. reflexivity.
  - contradiction.
Qed.

(* parent.remove(node), both wrappers made from a fresh state *)
Lemma gen_node_remove_ok n root ns ks pars pp P kx parx thp ti x :
  node_at (init root ns) ks = Some (RIn pp 0, pars) ->
  node_at (init root ns) kx = Some (RIn (thp ++ [SBody ti]) 0, parx) ->
  get root pp = Some P -> get root (thp ++ [SBody ti]) = Some x ->
  is_node P = true -> is_texexpr x = true -> (pp = thp \/ is_node x = true) ->
  view (call (S (S (S (S n)))) gen_e_tbl (VNode ks) M_remove [VNode kx] (init root ns))
  = of_tree root (remove_via root pp thp ti).
Proof.
  intros Ns Nx G Gx N T Hx. unfold remove_via. rewrite G, Gx.
  apply (drop_rel_view (init root ns) pp P); [exact G|].
  apply (gen_node_remove_rel n (init root ns) ks _ pars pp P kx _ parx thp ti x Ns
           (live_init _ _ _ _ G) N Nx (live_init _ _ _ _ Gx) T Hx).
Qed.

(* node.append( *mats) *)
Lemma gen_node_append_ok n root ns ks pars np h vals new :
  node_at (init root ns) ks = Some (RIn np 0, pars) -> get root np = Some h -> is_node h = true ->
  mat_items (init root ns) vals = Some new ->
  view (call (S (S (S (S n)))) gen_e_tbl (VNode ks) M_append vals (init root ns))
  = of_tree root (append root np new).
Proof.
  intros Ns G N M. rewrite call_S, (find_meth_node _ _ _ _ Ns).
  cbn [gen_e_tbl m_params m_star m_body gen_e_TexNode_append].
  assert (B : bind_params [] true vals = Some [Some (VList vals)]) by (destruct vals; reflexivity).
  rewrite B. ev. rewrite (ga_node_expr _ _ _ _ _ Ns). ev. cbn [iter_vals]. rewrite app_nil_r.
  rewrite (gen_expr_append_ok n _ _ _ _ _ _ (live_init _ ns _ _ G) N M).
  unfold append. rewrite G. unfold expr_append, body_outcome.
  destruct (supports h); cbn [negb obind]; [|reflexivity].
  unfold put_o. cbn [init s_root].
  destruct (put root np (set_body h (body_of h ++ new))) eqn:P; [reflexivity|].
  destruct (put_total root np h (set_body h (body_of h ++ new)) G) as [t Pt]. congruence.
Qed.

(* node.copy(): a new wrapper of the same expression, without parent *)
Lemma gen_node_copy_ok n st ks r pars x :
  node_at st ks = Some (r, pars) -> deref st r = Some x -> is_texexpr x = true ->
  call (S n) gen_e_tbl (VNode ks) M_copy [] st
  = ODone (mkS (s_root st) (s_muts st) (s_nodes st ++ [(r, PNone)])) (RVal (VNode (length (s_nodes st)))).
Proof.
  intros Ns D T. rewrite call_S, (find_meth_node _ _ _ _ Ns).
  cbn [gen_e_tbl m_params m_star m_body gen_e_TexNode_copy bind_params]. ev.
  rewrite (ga_node_expr _ _ _ _ _ Ns). ev. rewrite D, T. reflexivity.
Qed.

(* ---------------------------------------------------------- TexNode.insert *)
(* the guard of Edit.insert ("the material is fresh, so `assert not node.parent` passes"):
   every wrapper among the material wraps a fresh TexExpr, has no parent, occurs once *)
Fixpoint mats_fresh (st : state) (vals : list value) : Prop :=
  match vals with
  | [] => True
  | v :: vals' =>
    match v with
    | VStr _ => True
    | VExpr (ROut e) => is_texexpr e = true
    | VNode k => (exists e, node_at st k = Some (ROut e, PNone) /\ is_texexpr e = true) /\
                 ~ In (VNode k) vals'
    | _ => False
    end /\ mats_fresh st vals'
  end.

(* only .parent fields of wrappers differ *)
Definition same_refs (st st' : state) : Prop :=
  s_root st' = s_root st /\ s_muts st' = s_muts st /\ map fst (s_nodes st') = map fst (s_nodes st).

Lemma same_refs_refl st : same_refs st st.
Proof. repeat split. Qed.
Lemma same_refs_trans a b c : same_refs a b -> same_refs b c -> same_refs a c.
Proof. intros [A1 [A2 A3]] [B1 [B2 B3]]. repeat split; congruence. Qed.

Lemma same_refs_node st st' k :
  same_refs st st' -> option_map fst (node_at st' k) = option_map fst (node_at st k).
Proof.
  intros [_ [_ H]]. unfold node_at. rewrite <- !nth_error_map with (f := fst).
  rewrite H. reflexivity.
Qed.

Lemma same_refs_mat st st' v : same_refs st st' -> mat_item st' v = mat_item st v.
Proof.
  intros S. destruct v as [| | |s|[q ep|e]|k| | | |]; try reflexivity. cbn [mat_item].
  pose proof (same_refs_node st st' k S) as H.
  destruct (node_at st' k) as [[r1 p1]|]; destruct (node_at st k) as [[r2 p2]|]; cbn in H;
    try discriminate; [|reflexivity]. inversion H; subst. reflexivity.
Qed.
Lemma same_refs_mats st st' vals : same_refs st st' -> mat_items st' vals = mat_items st vals.
Proof.
  intros S. induction vals as [|v vals IH]; [reflexivity|]. cbn [mat_items].
  rewrite (same_refs_mat _ _ v S), IH. reflexivity.
Qed.

Lemma same_refs_live st st' r p h : same_refs st st' -> live st r p h -> live st' r p h.
Proof.
  intros [R [M _]] [P D]. destruct r as [q ep|e]; cbn in P, D; [|discriminate].
  assert (F : fresh st' q ep = fresh st q ep) by (unfold fresh; rewrite M; reflexivity).
  split; cbn; rewrite F, ?R; assumption.
Qed.

Lemma mats_fresh_items st : forall vals, mats_fresh st vals -> exists new, mat_items st vals = Some new.
Proof.
  induction vals as [|v vals IH]; intros F; [exists []; reflexivity|].
  cbn [mats_fresh] in F. destruct F as [Fv Fs]. destruct (IH Fs) as [xs Hx]. cbn [mat_items].
  destruct v as [| | |s|[q ep|e]|k| | | |]; try contradiction; cbn [mat_item].
  - rewrite Hx. eexists; reflexivity.
  - rewrite Fv, Hx. eexists; reflexivity.
  - destruct Fv as [[e [Nk T]] _]. rewrite Nk, T, Hx. eexists; reflexivity.
Qed.

Definition setpar_body : block :=
  blk [SIf (EIsInst (EVar 3) [CTexNode])
           (blk [SAssert (ENot (EAttr (EVar 3) A_parent));
                 SSetAttr (EVar 3) A_parent (EVar 0)])
           (blk [])].

Lemma set3 (a b c : option value) (rest : env) x :
  exists rest', set_var (a :: b :: c :: rest) 3 x = a :: b :: c :: Some x :: rest'.
Proof. destruct rest as [|u rest]; eexists; reflexivity. Qed.

Lemma mats_fresh_subst st k y : forall vals,
  ~ In (VNode k) vals -> (k < length (s_nodes st))%nat -> mats_fresh st vals ->
  mats_fresh (mkS (s_root st) (s_muts st) (subst_nth k y (s_nodes st))) vals.
Proof.
  induction vals as [|v vals IH]; intros NI Hk F; [exact I|].
  cbn [mats_fresh] in *. destruct F as [Fv Fs]. split.
  - destruct v as [| | |s|[q ep|e]|j| | | |]; try exact Fv.
    destruct Fv as [[e [Nj T]] NJ]. split; [|exact NJ]. exists e. split; [|exact T].
    unfold node_at in *. cbn [s_nodes]. rewrite nth_error_subst_other; [exact Nj| |exact Hk].
    intros ->. apply NI. left. reflexivity.
  - apply IH; [|exact Hk|exact Fs]. intros H. apply NI. right. exact H.
Qed.

Lemma setpar_loop cf body chk ks a b :
  (forall en st, body en st = exec_block gen_e_tbl cf setpar_body en st) ->
  (forall st, chk st = true) ->
  forall vals st rest,
  (exists x, node_at st ks = Some x) -> mats_fresh st vals ->
  exists st' rest',
    for_loop body (PVar 3) chk vals (Some (VNode ks) :: a :: b :: rest) st
    = XNormal (Some (VNode ks) :: a :: b :: rest') st' /\ same_refs st st'.
Proof.
  intros Hb Hc. induction vals as [|v vals IH]; intros st rest Hks F.
  - exists st, rest. split; [reflexivity | apply same_refs_refl].
  - cbn [mats_fresh] in F. destruct F as [Fv Fs]. cbn [for_loop bind_pat].
    destruct (set3 (Some (VNode ks)) a b rest v) as [rest1 ->]. rewrite Hb. unfold setpar_body.
    destruct v as [| | |s|[q ep|e]|k| | | |]; try contradiction.
    + ev. rewrite isinstance_str. cls. rewrite Hc. apply (IH st _ Hks Fs).
    + ev. rewrite isinstance_out, not_texnode. cls. rewrite Hc. apply (IH st _ Hks Fs).
    + destruct Fv as [[e [Nk T]] NI]. destruct Hks as [xs Hks].
      ev. rewrite (isinstance_node _ _ _ _ Nk). cls.
      rewrite (ga_node_noparent _ _ _ _ Nk). ev.
      unfold set_attr. rewrite (find_meth_node _ _ _ _ Nk). cbn [gen_e_tbl field_set].
      rewrite Nk, Hks. cbn [option_map]. rewrite Hc.
      set (st1 := mkS (s_root st) (s_muts st) (subst_nth k (ROut e, PNode ks) (s_nodes st))).
      assert (Hk : (k < length (s_nodes st))%nat) by (apply (nth_error_lt _ _ _ Nk)).
      assert (S1 : same_refs st st1).
      { repeat split. unfold st1. cbn [s_nodes]. unfold subst_nth.
        rewrite map_app. cbn [map fst]. rewrite <- firstn_map, <- skipn_map.
        symmetry. apply split_nth. unfold node_at in Nk. rewrite nth_error_map, Nk. reflexivity. }
      assert (Hks1 : exists x, node_at st1 ks = Some x).
      { pose proof (same_refs_node st st1 ks S1) as H. rewrite Hks in H.
        destruct (node_at st1 ks); [eexists; reflexivity | discriminate]. }
      destruct (IH st1 (Some (VNode k) :: rest1) Hks1 (mats_fresh_subst st k _ vals NI Hk Fs))
        as [st' [rest' [Hl S2]]].
      exists st', rest'. split; [exact Hl|]. apply (same_refs_trans _ _ _ S1 S2).
Qed.

Lemma gen_node_insert_ok n root ns ks pars np h i vals new :
  node_at (init root ns) ks = Some (RIn np 0, pars) -> get root np = Some h -> is_node h = true ->
  mats_fresh (init root ns) vals -> mat_items (init root ns) vals = Some new ->
  view (call (S (S (S (S n)))) gen_e_tbl (VNode ks) M_insert (VInt i :: vals) (init root ns))
  = of_tree root (insert root np i new).
Proof.
  intros Ns G N F M.
  assert (C : call (S (S (S (S n)))) gen_e_tbl (VNode ks) M_insert (VInt i :: vals) (init root ns) =
              finish (exec_block gen_e_tbl (call (S (S (S n))) gen_e_tbl) (m_body gen_e_TexNode_insert)
                                 [Some (VNode ks); Some (VInt i); Some (VList vals)] (init root ns))).
  { rewrite call_S, (find_meth_node _ _ _ _ Ns).
    cbn [gen_e_tbl m_params m_star m_body gen_e_TexNode_insert bind_params option_map].
    destruct vals; reflexivity. }
  rewrite C. clear C. ev. rewrite isinstance_int. cls. cbn [iter_vals]. ev. cbn [iter_vals].
  match goal with
  | |- context [for_loop ?body _ ?chk _ _ _] =>
    destruct (setpar_loop (call (S (S (S n))) gen_e_tbl) body chk ks (Some (VInt i)) (Some (VList vals))
                          (fun _ _ => eq_refl) (fun _ => eq_refl) vals (init root ns) []
                          (ex_intro _ _ Ns) F)
      as [st' [rest' [Hl S]]]
  end.
  rewrite Hl. ev.
  pose proof (same_refs_node _ _ ks S) as Hn. rewrite Ns in Hn.
  destruct (node_at st' ks) as [[r' p']|] eqn:Ns'; [|discriminate]. cbn in Hn. inversion Hn; subst r'.
  rewrite (ga_node_expr _ _ _ _ _ Ns'). ev. cbn [iter_vals]. rewrite app_nil_r.
  pose proof (same_refs_live _ _ _ _ _ S (live_init _ ns _ _ G)) as L'.
  pose proof (gen_expr_insert_ok n st' (RIn np 0) np h i vals new L' N) as R.
  rewrite (same_refs_mats _ _ vals S) in R. specialize (R M).
  unfold insert. rewrite G. destruct S as [SR _].
  destruct (expr_insert h i new) as [h'|e|e a']; [| |contradiction].
  - destruct R as [st2 [-> [Hp _]]]. cbn [obind of_outcome finish view]. unfold put_o.
    rewrite SR in Hp. cbn [init s_root] in Hp. rewrite Hp. reflexivity.
  - destruct R as [-> ->]. cbn [obind of_outcome finish view]. rewrite SR. reflexivity.
Qed.

(* ====================================================================== *)
(* TexNode.delete                                                          *)
(* ====================================================================== *)

(* node.args: the forwarding property of TexNode *)
Lemma ga_node_args n st k r par p h :
  node_at st k = Some (r, par) -> live st r p h -> is_node h = true ->
  get_attr gen_e_tbl (call (S n) gen_e_tbl) (VNode k) A_args st = EV (VArgs r) st.
Proof.
  intros Nk L N. unfold get_attr. cbn [class_of]. rewrite Nk. cbn [class_attr mro mro_find gen_e_tbl].
  rewrite call_S, (find_meth_node _ _ _ _ Nk).
  cbn [gen_e_tbl m_params m_star m_body gen_e_TexNode_get_args bind_params]. ev.
  rewrite (ga_node_expr _ _ _ _ _ Nk). ev. rewrite (ga_args _ _ _ _ _ L N). reflexivity.
Qed.

(* any(c is target for c in holder._contents) *)
Lemma any_loop fc fe st x en target mk (g : nat -> bool) :
  (forall en' st', fc en' st' = EV (VBool true) st') ->
  (forall c, fe (set_var en x c) st = lift_b (is_same st c target) st) ->
  forall m s,
  (forall k, (s <= k < s + m)%nat -> is_same st (mk k) target = Some (g k)) ->
  gen_loop (PVar x) fc fe (map mk (seq s m)) en st
  = EV (VList (map (fun k => VBool (g k)) (seq s m))) st.
Proof.
  intros Hc He. induction m as [|m IH]; intros s Hg; [reflexivity|].
  cbn [seq map gen_loop bind_pat]. rewrite Hc, Nat.eqb_refl. cbn [negb truthy].
  rewrite He, (Hg s) by lia. cbn [lift_b]. rewrite Nat.eqb_refl. cbn [negb].
  rewrite (IH (S s)); [reflexivity|]. intros k Hk. apply Hg. lia.
Qed.

Lemma first_true_bools st (g : nat -> bool) : forall l,
  first_true st true (map (fun k => VBool (g k)) l) = Some (existsb g l).
Proof.
  induction l as [|k l IH]; [reflexivity|]. cbn [map first_true truthy existsb].
  destruct (g k); cbn [Bool.eqb orb]; [reflexivity | exact IH].
Qed.

(* the holder whose list contains the object is the holder at the object's holder path *)
Lemma holds_iff st rh hp h thp ti x rx :
  live st rh hp h -> live st rx (thp ++ [SBody ti]) x ->
  existsb (fun k => path_eqb (hp ++ [SBody k]) (thp ++ [SBody ti])) (seq 0 (length (body_of h)))
  = path_eqb hp thp.
Proof.
  intros L Lx. destruct (path_eqb hp thp) eqn:E.
  - apply path_eqb_eq in E. subst thp. apply existsb_exists. exists ti. split; [|apply path_eqb_refl].
    pose proof (live_get _ _ _ _ L) as G. pose proof (live_get _ _ _ _ Lx) as Gx.
    rewrite get_app, G in Gx. cbn in Gx. apply in_seq.
    destruct (nth_error (body_of h) ti) eqn:Hn; [|discriminate].
    pose proof (nth_error_lt _ _ _ Hn). lia.
  - destruct (existsb _ _) eqn:X; [|reflexivity]. apply existsb_exists in X.
    destruct X as [k [_ Hk]]. rewrite path_eqb_snoc, E in Hk. discriminate.
Qed.

(* the control-flow result of `holder.remove(x); return` *)
Definition xret (o : outcome) : xres :=
  match o with
  | ODone st (RVal _) => XReturn VNone st
  | ODone st (RExc e) => XExc e st
  | OUnsup => XUnsup
  | OFuel => XFuel
  end.

Lemma same_list_now v st : same_list v (epoch st) st = true.
Proof.
  destruct v as [| | | | | | |[q ep|e]|[q ep|e]|]; try reflexivity; cbn [same_list]; unfold epoch;
    rewrite skipn_all_nil; reflexivity.
Qed.

(* is `c is obj` for the elements c of a live holder and a live object *)
Lemma is_same_item st rh hp h rx tp x k :
  live st rh hp h -> live st rx tp x -> is_texexpr x = true ->
  (k < length (body_of h))%nat ->
  is_same st (VExpr (RIn (hp ++ [SBody k]) (epoch st))) (VExpr rx) = Some (path_eqb (hp ++ [SBody k]) tp).
Proof.
  intros L [Px Dx] T Hk. unfold is_same. rewrite (deref_item _ _ _ _ k L).
  destruct (nth_error (body_of h) k) as [c|] eqn:Hc; [|apply nth_error_None in Hc; lia].
  rewrite Dx, T, orb_true_r, path_item, Px. reflexivity.
Qed.

Definition del1_body : block :=
  blk [SIf (EAny (EGen (PVar 2) (EAttr (EVar 1) A_raw) ETrue (EIs (EVar 2) (EAttr (EVar 0) A_expr))))
           (blk [SExpr (ECall (EVar 1) M_remove (cargs_of [Pos (EAttr (EVar 0) A_expr)]));
                 SReturn ENone])
           (blk [])].

Section Delete.
Variables (n : nat) (st : state) (ks : nat) (rx : ref) (parx : pstate) (thp : path) (ti : nat)
          (x : Tree.expr).
Hypothesis Nx : node_at st ks = Some (rx, parx).
Hypothesis Lx : live st rx (thp ++ [SBody ti]) x.
Hypothesis Tx : is_texexpr x = true.

Lemma del1_step rh hp h :
  live st rh hp h -> is_node h = true ->
  let en := [Some (VNode ks); Some (VExpr rh)] in
  if path_eqb hp thp then
    exists o, remove_rel st hp o (expr_remove eq_expr_item hp h thp ti x) /\
              exec_block gen_e_tbl (call (S (S (S n))) gen_e_tbl) del1_body en st = xret o
  else exec_block gen_e_tbl (call (S (S (S n))) gen_e_tbl) del1_body en st = XNormal en st.
Proof.
  intros L N en. unfold del1_body, en. ev. rewrite (ga_raw _ _ _ _ _ L N). ev. cbn [iter_vals].
  rewrite (body_vals_live _ _ _ _ L N). unfold idx_vals.
  match goal with
  | |- context [gen_loop _ ?fc ?fe _ ?en0 _] =>
    rewrite (any_loop fc fe st 2 en0 (VExpr rx) _
                      (fun k => path_eqb (hp ++ [SBody k]) (thp ++ [SBody ti])) (fun _ _ => eq_refl))
  end.
  2:{ intros c. ev. rewrite (ga_node_expr _ _ _ _ _ Nx). reflexivity. }
  2:{ intros k Hk. apply (is_same_item st rh hp h rx _ x k L Lx Tx). lia. }
  ev. rewrite first_true_bools, (holds_iff st rh hp h thp ti x rx L Lx).
  destruct (path_eqb hp thp) eqn:E; ev; [|reflexivity].
  rewrite (ga_node_expr _ _ _ _ _ Nx). ev.
  apply path_eqb_eq in E.
  pose proof (gen_expr_remove_obj n st rh hp h rx thp ti x L N Lx Tx (or_introl E)) as R.
  eexists. split; [exact R|].
  destruct (expr_remove eq_expr_item hp h thp ti x) as [kh|e|e a]; cbn [remove_rel] in R.
  - destruct R as [t [Pt ->]]. reflexivity.
  - destruct R as [y [Hy ->]]. reflexivity.
  - contradiction.
Qed.

(* the holders: values with their paths and objects *)
Definition holder_vals (vs : list value) (hs : list (path * Tree.expr)) : Prop :=
  Forall2 (fun v ph => exists rh, v = VExpr rh /\ live st rh (fst ph) (snd ph) /\
                                  is_node (snd ph) = true) vs hs.

Lemma set1 (a : option value) (tl : env) v :
  (length tl <= 1)%nat -> set_var (a :: tl) 1 v = [a; Some v].
Proof. intros H. destruct tl as [|u [|w tl]]; cbn in H; try lia; reflexivity. Qed.

Lemma del1_loop body chk :
  (forall en s, body en s = exec_block gen_e_tbl (call (S (S (S n))) gen_e_tbl) del1_body en s) ->
  chk st = true ->
  forall vs hs, holder_vals vs hs -> forall tl, (length tl <= 1)%nat ->
  match find (holds_object thp) hs with
  | Some (hp, h) =>
    exists o, remove_rel st hp o (expr_remove eq_expr_item hp h thp ti x) /\
              for_loop body (PVar 1) chk vs (Some (VNode ks) :: tl) st = xret o
  | None =>
    exists tl', (length tl' <= 1)%nat /\
                for_loop body (PVar 1) chk vs (Some (VNode ks) :: tl) st
                = XNormal (Some (VNode ks) :: tl') st
  end.
Proof.
  intros Hb Hc vs hs HV. induction HV as [|v [hp h] vs hs Hv HV IH]; intros tl Htl.
  - exists tl. split; [exact Htl | reflexivity].
  - destruct Hv as [rh [-> [L N]]]. cbn [fst snd] in L, N.
    cbn [find for_loop bind_pat]. rewrite (set1 _ tl _ Htl).
    unfold holds_object at 1. cbn [fst]. rewrite Hb.
    pose proof (del1_step rh hp h L N) as Hst. cbv zeta in Hst.
    destruct (path_eqb hp thp).
    + destruct Hst as [o [R ->]]. exists o. split; [exact R|].
      destruct o as [s' [v'|e']| |]; reflexivity.
    + rewrite Hst, Hc. apply (IH [Some (VExpr rh)]). cbn. lia.
Qed.

End Delete.

(* ---------------------------------------------- the positions of a contents view *)
Fixpoint cview_args (j : nat) (l : list Tree.expr) : list ((path * nat) * Tree.expr) :=
  match l with
  | [] => []
  | a :: l' =>
    map (fun it => ((SArg j :: fst (fst it), snd (fst it)), snd it)) (cview a) ++ cview_args (S j) l'
  end.
Definition cview_own (b : list Tree.expr) : list ((path * nat) * Tree.expr) :=
  map (fun ix => (([], fst ix), snd ix)) (number_from 0 b).
Definition cview_keep := filter (fun it : (path * nat) * Tree.expr => negb (is_ws_item (snd it))).

Lemma cview_unfold e :
  cview e = match e with
            | ECmd _ a b _ | ENamed _ a b _ => cview_keep (cview_args 0 a ++ cview_own b)
            | EMath _ b _ | EGroup _ b _ | ERoot b => cview_keep (cview_own b)
            | _ => []
            end.
Proof. destruct e; reflexivity. Qed.

Lemma number_from_In {A} (l : list A) : forall s k x,
  In (k, x) (number_from s l) -> (s <= k)%nat /\ nth_error l (k - s) = Some x.
Proof.
  induction l as [|y l IH]; intros s k x H; cbn in H; [contradiction|].
  destruct H as [H|H].
  - inversion H; subst. split; [lia|]. rewrite Nat.sub_diag. reflexivity.
  - destruct (IH (S s) k x H) as [Hle Hn]. split; [lia|].
    replace (k - s)%nat with (S (k - S s)) by lia. exact Hn.
Qed.

Lemma cview_own_In b q i it : In ((q, i), it) (cview_own b) -> q = [] /\ nth_error b i = Some it.
Proof.
  unfold cview_own. intros H. apply in_map_iff in H. destruct H as [[k y] [E H]].
  cbn in E. inversion E; subst. destruct (number_from_In _ _ _ _ H) as [_ Hn].
  rewrite Nat.sub_0_r in Hn. split; [reflexivity | exact Hn].
Qed.

Lemma cview_args_In : forall l j q i it,
  In ((q, i), it) (cview_args j l) ->
  exists j' a q', q = SArg j' :: q' /\ (j <= j')%nat /\ nth_error l (j' - j) = Some a /\
                  In ((q', i), it) (cview a).
Proof.
  induction l as [|a l IH]; intros j q i it H; cbn in H; [contradiction|].
  apply in_app_or in H. destruct H as [H|H].
  - apply in_map_iff in H. destruct H as [[[q' i'] it'] [E H]]. cbn in E. inversion E; subst.
    exists j, a, q'. rewrite Nat.sub_diag. repeat split; [lia|exact H].
  - destruct (IH (S j) q i it H) as [j' [a' [q' [E [Hle [Hn Hin]]]]]].
    exists j', a', q'. repeat split; [exact E|lia| |exact Hin].
    replace (j' - j)%nat with (S (j' - S j)) by lia. exact Hn.
Qed.

Lemma cview_get : forall e q i it, In ((q, i), it) (cview e) -> get e (q ++ [SBody i]) = Some it.
Proof.
  induction e as [t|s p|s|nm a b p IHa IHb|nm a b p IHa IHb|k b p IHb|k b p IHb|b IHb] using expr_ind';
    intros q i it H; rewrite cview_unfold in H; try contradiction;
    unfold cview_keep in H; apply filter_In in H; destruct H as [H _].
  - apply in_app_or in H. destruct H as [H|H].
    + destruct (cview_args_In _ _ _ _ _ H) as [j' [a' [q' [-> [_ [Hn Hin]]]]]].
      rewrite Nat.sub_0_r in Hn. cbn [app get child args_of]. rewrite Hn.
      rewrite Forall_forall in IHa. apply (IHa a' (nth_error_In _ _ Hn)). exact Hin.
    + destruct (cview_own_In _ _ _ _ H) as [-> Hn]. cbn. rewrite Hn. reflexivity.
  - apply in_app_or in H. destruct H as [H|H].
    + destruct (cview_args_In _ _ _ _ _ H) as [j' [a' [q' [-> [_ [Hn Hin]]]]]].
      rewrite Nat.sub_0_r in Hn. cbn [app get child args_of]. rewrite Hn.
      rewrite Forall_forall in IHa. apply (IHa a' (nth_error_In _ _ Hn)). exact Hin.
    + destruct (cview_own_In _ _ _ _ H) as [-> Hn]. cbn. rewrite Hn. reflexivity.
  - destruct (cview_own_In _ _ _ _ H) as [-> Hn]. cbn. rewrite Hn. reflexivity.
  - destruct (cview_own_In _ _ _ _ H) as [-> Hn]. cbn. rewrite Hn. reflexivity.
  - destruct (cview_own_In _ _ _ _ H) as [-> Hn]. cbn. rewrite Hn. reflexivity.
Qed.

(* `node in arg.contents` *)
Lemma first_index_map {A} f (mk : A -> value) (g : A -> bool) : forall l,
  (forall y, In y l -> f (mk y) = Some (g y)) ->
  first_index f (map mk l) = Some (index_of g l).
Proof.
  induction l as [|y l IH]; intros H; [reflexivity|]. cbn [map first_index index_of].
  rewrite (H y (or_introl eq_refl)). destruct (g y); [reflexivity|].
  rewrite IH by (intros z Hz; apply H; right; exact Hz).
  destruct (index_of g l); reflexivity.
Qed.
Lemma index_of_existsb {A} (g : A -> bool) l :
  match index_of g l with Some _ => true | None => false end = existsb g l.
Proof.
  induction l as [|y l IH]; [reflexivity|]. cbn. destruct (g y); [reflexivity|].
  rewrite <- IH. destruct (index_of g l); reflexivity.
Qed.

Lemma node_in_view st ks rx parx x ra hp a tp :
  node_at st ks = Some (rx, parx) -> live st rx tp x ->
  live st ra hp a -> is_node a = true ->
  first_index (same_or_eq st (VNode ks)) (map (view_item st hp) (cview a))
  = Some (index_of (fun it => eq_node_item x (snd it)) (cview a)).
Proof.
  intros Nx [Px Dx] La Na. apply first_index_map. intros [[q i] it] Hin.
  pose proof (cview_get a q i it Hin) as G.
  unfold same_or_eq, view_item. cbn [fst snd].
  assert (Hnode : is_node it = true ->
    match is_same st (VExpr (RIn (hp ++ q ++ [SBody i]) (epoch st))) (VNode ks) with
    | Some true => Some true
    | Some false => py_eq st (VExpr (RIn (hp ++ q ++ [SBody i]) (epoch st))) (VNode ks)
    | None => None
    end = Some (eq_node_item x it)).
  { intros _. cbn [is_same]. unfold py_eq. rewrite Nx, Dx. cbn [deref]. rewrite fresh_now.
    rewrite get_app, (live_get _ _ _ _ La), G, eq_obj_node_spec. reflexivity. }
  destruct it; try (apply Hnode; reflexivity);
    cbn [is_same]; unfold py_eq; rewrite Nx, Dx; reflexivity.
Qed.

Lemma ga_contents callf st r p h :
  live st r p h -> is_node h = true ->
  get_attr gen_e_tbl callf (VExpr r) A_contents st = EV (VList (map (view_item st p) (cview h))) st.
Proof.
  intros L N. unfold get_attr. rewrite (live_class _ _ _ _ L).
  assert (C : class_attr (class_of_expr h) A_contents = None) by (destruct h as [| | | | |k ? ?|k ? ?|]; reflexivity).
  assert (M : mro_find gen_e_tbl (mro (class_of_expr h)) (M_get A_contents) = None)
    by (destruct h as [| | | | |k ? ?|[|] ? ?|]; reflexivity).
  rewrite C, M. cbn [field_get]. unfold expr_view. rewrite (live_holder _ _ _ _ L N). reflexivity.
Qed.

Definition del2_body : block :=
  blk [SIf (EIn (EVar 0) (EAttr (EVar 3) A_contents))
           (blk [SExpr (ECall (EVar 3) M_remove (cargs_of [Pos (EVar 0)])); SReturn ENone])
           (blk [])].

Lemma set3' (a : option value) (tl : env) v :
  (length tl <= 3)%nat -> exists o1 o2, set_var (a :: tl) 3 v = [a; o1; o2; Some v].
Proof.
  intros H. destruct tl as [|u [|w [|z [|y tl]]]]; cbn in H; try lia; do 2 eexists; reflexivity.
Qed.

Section Delete2.
Variables (m : nat) (st : state) (ks : nat) (rx : ref) (parx : pstate) (thp : path) (ti : nat)
          (x : Tree.expr).
Hypothesis Nx : node_at st ks = Some (rx, parx).
Hypothesis Lx : live st rx (thp ++ [SBody ti]) x.
Hypothesis Tx : is_texexpr x = true.
Let cf := call (S (S (S (S m)))) gen_e_tbl.

Definition in_view (ph : path * Tree.expr) : bool :=
  existsb (fun it => eq_node_item x (snd it)) (cview (snd ph)).

Lemma del2_step ra hp a o1 o2 :
  live st ra hp a -> is_node a = true -> path_eqb hp thp = false ->
  let en := [Some (VNode ks); o1; o2; Some (VExpr ra)] in
  if in_view (hp, a) then
    exists o, remove_rel st hp o (expr_remove eq_node_item hp a thp ti x) /\
              exec_block gen_e_tbl cf del2_body en st = xret o
  else exec_block gen_e_tbl cf del2_body en st = XNormal en st.
Proof.
  intros L N E en. unfold del2_body, en, in_view. cbn [snd]. ev.
  rewrite (ga_contents _ _ _ _ _ L N). ev. cbn [in_vals].
  rewrite (node_in_view st ks rx parx x ra hp a _ Nx Lx L N).
  rewrite <- index_of_existsb.
  destruct (index_of (fun it => eq_node_item x (snd it)) (cview a)) as [k|]; ev; [|reflexivity].
  pose proof (gen_expr_remove_node (S m) st ra hp a ks rx parx thp ti x L N Nx Lx E) as R.
  eexists. split; [exact R|]. unfold cf.
  destruct (expr_remove eq_node_item hp a thp ti x) as [kh|e|e b]; cbn [remove_rel] in R.
  - destruct R as [t [Pt ->]]. reflexivity.
  - destruct R as [y [Hy ->]]. reflexivity.
  - contradiction.
Qed.

Lemma del2_loop body chk :
  (forall en s, body en s = exec_block gen_e_tbl cf del2_body en s) ->
  chk st = true ->
  forall vs hs, holder_vals st vs hs ->
  (forall ph, In ph hs -> path_eqb (fst ph) thp = false) ->
  forall tl, (length tl <= 3)%nat ->
  match find in_view hs with
  | Some (hp, a) =>
    exists o, remove_rel st hp o (expr_remove eq_node_item hp a thp ti x) /\
              for_loop body (PVar 3) chk vs (Some (VNode ks) :: tl) st = xret o
  | None =>
    exists tl', for_loop body (PVar 3) chk vs (Some (VNode ks) :: tl) st
                = XNormal (Some (VNode ks) :: tl') st
  end.
Proof.
  intros Hb Hc vs hs HV. induction HV as [|v [hp a] vs hs Hv HV IH]; intros Hne tl Htl.
  - exists tl. reflexivity.
  - destruct Hv as [ra [-> [L N]]]. cbn [fst snd] in L, N.
    cbn [find for_loop bind_pat].
    destruct (set3' (Some (VNode ks)) tl (VExpr ra) Htl) as [o1 [o2 ->]]. rewrite Hb.
    pose proof (del2_step ra hp a o1 o2 L N (Hne (hp, a) (or_introl eq_refl))) as Hst.
    cbv zeta in Hst. destruct (in_view (hp, a)).
    + destruct Hst as [o [R ->]]. exists o. split; [exact R|].
      destruct o as [s' [v'|e']| |]; reflexivity.
    + rewrite Hst, Hc.
      apply (IH (fun ph Hin => Hne ph (or_intror Hin)) [o1; o2; Some (VExpr ra)]). cbn. lia.
Qed.

End Delete2.

(* list(parent.args): the argument objects with their paths *)
Lemma holder_vals_args st rp pp P :
  live st rp pp P -> forallb is_node (args_of P) = true ->
  forall pre l, args_of P = pre ++ l ->
  holder_vals st (map (fun j => VExpr (RIn (pp ++ [SArg j]) (epoch st))) (seq (length pre) (length l)))
              (number_args pp (length pre) l).
Proof.
  intros L F pre l. revert pre. induction l as [|a l IH]; intros pre E; [constructor|].
  cbn [length seq map number_args]. constructor.
  - exists (RIn (pp ++ [SArg (length pre)]) (epoch st)). split; [reflexivity|]. cbn [fst snd].
    assert (Hn : nth_error (args_of P) (length pre) = Some a).
    { rewrite E, nth_error_app2, Nat.sub_diag by lia. reflexivity. }
    split; [split; [apply path_item | rewrite (deref_arg _ _ _ _ _ L); exact Hn]|].
    rewrite forallb_forall in F. apply F. apply (nth_error_In _ _ Hn).
  - replace (S (length pre)) with (length (pre ++ [a])) by (rewrite app_length; cbn; lia).
    apply IH. rewrite <- app_assoc. exact E.
Qed.

Lemma Forall2_in_r {A B} (R : A -> B -> Prop) l1 l2 :
  Forall2 R l1 l2 -> forall y, In y l2 -> exists x, In x l1 /\ R x y.
Proof.
  induction 1 as [|a b l1 l2 Hab H IH]; intros y Hy; [contradiction|].
  destruct Hy as [<-|Hy]; [exists a; split; [left; reflexivity | exact Hab]|].
  destruct (IH y Hy) as [z [Hz Rz]]. exists z. split; [right; exact Hz | exact Rz].
Qed.

Lemma find_none_all {A} (f : A -> bool) l : find f l = None -> forall y, In y l -> f y = false.
Proof. intros H y Hy. apply (find_none f l H y Hy). Qed.

Lemma in_holders_args pp P ph : In ph (number_args pp 0 (args_of P)) -> In ph (holders pp P).
Proof. intros H. unfold holders. apply in_or_app. left. exact H. Qed.

Theorem gen_node_delete_ok n root ns ks kp parp pp thp ti P x :
  node_at (init root ns) ks = Some (RIn (thp ++ [SBody ti]) 0, PNode kp) ->
  node_at (init root ns) kp = Some (RIn pp 0, parp) ->
  get root pp = Some P -> get root (thp ++ [SBody ti]) = Some x ->
  is_node P = true -> forallb is_node (args_of P) = true -> is_texexpr x = true ->
  (existsb (holds_object thp) (holders pp P) = true \/ is_node x = true) ->
  view (call (S (S (S (S (S n))))) gen_e_tbl (VNode ks) M_delete [] (init root ns))
  = of_tree root (delete_via root pp thp ti).
Proof.
  intros Ns Np G Gx N FA T Hx. set (st := init root ns) in *.
  pose proof (live_init root ns _ _ G) as L. pose proof (live_init root ns _ _ Gx) as Lx.
  fold st in L, Lx.
  unfold delete_via. rewrite G, Gx.
  rewrite call_S, (find_meth_node _ _ _ _ Ns).
  cbn [gen_e_tbl m_params m_star m_body gen_e_TexNode_delete bind_params]. ev.
  rewrite (ga_node_parent _ _ _ _ _ Ns). ev.
  rewrite (ga_node_args _ _ _ _ _ _ _ Np L N). ev. cbn [iter_vals].
  rewrite (args_vals_live _ _ _ _ L N). cbn [option_map]. ev.
  rewrite (ga_node_parent _ _ _ _ _ Ns). ev. rewrite (ga_node_expr _ _ _ _ _ Np). ev.
  cbn [iter_vals].
  (* the holders *)
  assert (HV : holder_vals st
                 (idx_vals (fun k => VExpr (RIn (pp ++ [SArg k]) (epoch st))) (length (args_of P))
                  ++ [VExpr (RIn pp 0)])
                 (holders pp P)).
  { unfold holders. apply Forall2_app.
    - apply (holder_vals_args st _ pp P L FA [] (args_of P) eq_refl).
    - constructor; [|constructor]. exists (RIn pp 0). repeat split; assumption. }
  match goal with
  | |- context [for_loop ?body (PVar 1) ?chk _ ?en _] =>
    pose proof (del1_loop (S n) st ks _ _ thp ti x Ns Lx T body chk (fun _ _ => eq_refl)
                          (same_list_now _ st) _ _ HV [] (Nat.le_0_l _)) as L1
  end.
  destruct (find (holds_object thp) (holders pp P)) as [[hp h]|] eqn:F1.
  - (* the holder that contains the object *)
    destruct L1 as [o [R ->]].
    assert (Gh : get root hp = Some h).
    { apply find_some in F1. destruct F1 as [Hin _]. unfold holder_vals in HV.
      destruct (Forall2_in_r _ _ _ HV (hp, h) Hin) as [v [_ [rh [_ [Lh _]]]]].
      apply (live_get _ _ _ _ Lh). }
    change root with (s_root st). apply (drop_rel_view st hp h); [exact Gh|].
    destruct (expr_remove eq_expr_item hp h thp ti x) as [kh|e|e a]; cbn [remove_rel drop_rel] in *.
    + destruct R as [t [Pt ->]]. exists t. split; [exact Pt | reflexivity].
    + destruct R as [y [Hy ->]]. exists y. split; [exact Hy | reflexivity].
    + contradiction.
  - destruct L1 as [tl1 [Htl1 ->]]. ev.
    assert (Hxn : is_node x = true).
    { destruct Hx as [Hx|Hx]; [|exact Hx]. apply existsb_exists in Hx. destruct Hx as [ph [Hin Hph]].
      rewrite (find_none_all _ _ F1 ph Hin) in Hph. discriminate. }
    rewrite (ga_node_parent _ _ _ _ _ Ns). ev.
    rewrite (ga_node_args _ _ _ _ _ _ _ Np L N). ev. cbn [iter_vals].
    rewrite (args_vals_live _ _ _ _ L N).
    pose proof (holder_vals_args st _ pp P L FA [] (args_of P) eq_refl) as HV2. cbn [length] in HV2.
    assert (Hne : forall ph, In ph (number_args pp 0 (args_of P)) -> path_eqb (fst ph) thp = false).
    { intros ph Hin. apply (find_none_all _ _ F1 ph (in_holders_args _ _ _ Hin)). }
    match goal with
    | |- context [for_loop ?body (PVar 3) ?chk _ ?en _] =>
      pose proof (del2_loop n st ks _ _ thp ti x Ns Lx body chk (fun _ _ => eq_refl)
                            (same_list_now _ st) _ _ HV2 Hne tl1 ltac:(lia)) as L2
    end.
    unfold idx_vals.
    match type of L2 with
    | match find ?f ?l with _ => _ end => change f with
        (fun ph : path * Tree.expr => existsb (fun it => eq_node_item x (snd it)) (cview (snd ph))) in L2
    end.
    destruct (find (fun ph : path * Tree.expr => existsb (fun it => eq_node_item x (snd it)) (cview (snd ph)))
                   (number_args pp 0 (args_of P))) as [[hp a]|] eqn:F2.
    + destruct L2 as [o [R ->]].
      assert (Ga : get root hp = Some a).
      { apply find_some in F2. destruct F2 as [Hin _]. unfold holder_vals in HV2.
        destruct (Forall2_in_r _ _ _ HV2 (hp, a) Hin) as [v [_ [rh [_ [Lh _]]]]].
        apply (live_get _ _ _ _ Lh). }
      change root with (s_root st). apply (drop_rel_view st hp a); [exact Ga|].
      destruct (expr_remove eq_node_item hp a thp ti x) as [kh|e|e b]; cbn [remove_rel drop_rel] in *.
      * destruct R as [t [Pt ->]]. exists t. split; [exact Pt | reflexivity].
      * destruct R as [y [Hy ->]]. exists y. split; [exact Hy | reflexivity].
      * contradiction.
    + destruct L2 as [tl' ->]. ev.
      rewrite (ga_node_parent _ _ _ _ _ Ns). ev.
      pose proof (gen_node_remove_rel n st kp _ parp pp P ks _ _ thp ti x Np L N Ns Lx T
                                      (or_intror Hxn)) as R.
      change root with (s_root st). apply (drop_rel_view st pp P); [exact G|].
      destruct (expr_remove eq_expr_item pp P thp ti x) as [kh|e|e b]; cbn [drop_rel] in *.
      * destruct R as [t [Pt ->]]. exists t. split; [exact Pt | reflexivity].
      * destruct R as [y [Hy ->]]. exists y. split; [exact Hy | reflexivity].
      * contradiction.
Qed.

(* ====================================================================== *)
(* TexNode.replace / replace_with                                          *)
(* ====================================================================== *)

Lemma eval_ECall cf recv m xs en st :
  eval gen_e_tbl cf (ECall recv m xs) en st =
  match eval gen_e_tbl cf recv en st with
  | EV v st1 =>
    match eval_cargs gen_e_tbl cf xs en st1 with
    | AV vs st2 => of_outcome (cf v m vs st2)
    | AX x st2 => EX x st2
    | AUnsup => EUnsup
    | AFuel => EFuel
    end
  | x => x
  end.
Proof. reflexivity. Qed.
Lemma eval_cargs_pos cf e xs en st :
  eval_cargs gen_e_tbl cf (CPos e xs) en st =
  match eval gen_e_tbl cf e en st with
  | EV v st1 =>
    match eval_cargs gen_e_tbl cf xs en st1 with
    | AV vs st2 => AV (v :: vs) st2
    | x => x
    end
  | EX x st1 => AX x st1
  | EUnsup => AUnsup
  | EFuel => AFuel
  end.
Proof. reflexivity. Qed.
Lemma eval_cargs_star cf e xs en st :
  eval_cargs gen_e_tbl cf (CStar e xs) en st =
  match eval gen_e_tbl cf e en st with
  | EV v st1 =>
    match iter_vals st1 v with
    | Some l =>
      match eval_cargs gen_e_tbl cf xs en st1 with
      | AV vs st2 => AV (l ++ vs) st2
      | x => x
      end
    | None => AUnsup
    end
  | EX x st1 => AX x st1
  | EUnsup => AUnsup
  | EFuel => AFuel
  end.
Proof. reflexivity. Qed.

Lemma exec_block_cons cf s b en st :
  exec_block gen_e_tbl cf (BCons s b) en st =
  match exec_stmt gen_e_tbl cf s en st with
  | XNormal en' st' => exec_block gen_e_tbl cf b en' st'
  | x => x
  end.
Proof. reflexivity. Qed.
Lemma exec_SIf cf c a b en st :
  exec_stmt gen_e_tbl cf (SIf c a b) en st =
  match eval gen_e_tbl cf c en st with
  | EV v st1 =>
    match truthy st1 v with
    | Some true => exec_block gen_e_tbl cf a en st1
    | Some false => exec_block gen_e_tbl cf b en st1
    | None => XUnsup
    end
  | EX x st1 => XExc x st1
  | EUnsup => XUnsup
  | EFuel => XFuel
  end.
Proof. reflexivity. Qed.
Lemma eval_cargs_nil cf en st : eval_cargs gen_e_tbl cf CNil en st = AV [] st.
Proof. reflexivity. Qed.

(* holder.insert(holder.remove(child.expr), *nodes) *)
Lemma eval_replace_call cf eh ex ev_ en st rh rx vals :
  eval gen_e_tbl cf eh en st = EV (VExpr rh) st ->
  eval gen_e_tbl cf ex en st = EV (VExpr rx) st ->
  (forall s, eval gen_e_tbl cf ev_ en s = EV (VList vals) s) ->
  eval gen_e_tbl cf
       (ECall eh M_insert (cargs_of [Pos (ECall eh M_remove (cargs_of [Pos ex])); Star ev_])) en st
  = match cf (VExpr rh) M_remove [VExpr rx] st with
    | ODone st1 (RVal v) => of_outcome (cf (VExpr rh) M_insert (v :: vals) st1)
    | ODone st1 (RExc e) => EX e st1
    | OUnsup => EUnsup
    | OFuel => EFuel
    end.
Proof.
  intros H1 H2 H3. cbn [cargs_of]. rewrite eval_ECall, H1, eval_cargs_pos, eval_ECall, H1.
  rewrite eval_cargs_pos, H2, eval_cargs_nil.
  destruct (cf (VExpr rh) M_remove [VExpr rx] st) as [st1 [v|e]| |]; cbn [of_outcome]; try reflexivity.
  rewrite eval_cargs_star, H3. cbn [iter_vals]. rewrite eval_cargs_nil, app_nil_r. reflexivity.
Qed.

Lemma rep_ok n st rh hp h rx thp ti x vals new :
  live st rh hp h -> is_node h = true -> live st rx (thp ++ [SBody ti]) x -> is_texexpr x = true ->
  (hp = thp \/ is_node x = true) -> mat_items st vals = Some new ->
  exists er,
    match call (S (S (S n))) gen_e_tbl (VExpr rh) M_remove [VExpr rx] st with
    | ODone st1 (RVal v) => of_outcome (call (S (S (S n))) gen_e_tbl (VExpr rh) M_insert (v :: vals) st1)
    | ODone st1 (RExc e) => EX e st1
    | OUnsup => EUnsup
    | OFuel => EFuel
    end = er /\
    match er with
    | EV _ st2 => of_tree (s_root st) (replace_in (s_root st) hp h thp ti x new) = GDone (s_root st2) VNone
    | EX e st2 => of_tree (s_root st) (replace_in (s_root st) hp h thp ti x new) = GExc e (s_root st2)
    | _ => False
    end.
Proof.
  intros L N Lx T Hx M. pose proof (live_get _ _ _ _ L) as G.
  pose proof (gen_expr_remove_obj n st rh hp h rx thp ti x L N Lx T Hx) as R.
  unfold replace_in. unfold expr_remove in *.
  destruct (supports h); cbn [negb] in *.
  2:{ destruct R as [y [Hy ->]]. inversion Hy; subst y. eexists. split; [reflexivity|]. reflexivity. }
  destruct (if path_eqb hp thp then Some ti else index_of (eq_expr_item x) (body_of h)) as [k|].
  2:{ destruct R as [y [Hy ->]]. inversion Hy; subst y. eexists. split; [reflexivity|]. reflexivity. }
  cbn [remove_rel fst snd obind] in *. destruct R as [t [Pt ->]].
  set (h' := set_body h (splice k 1 [] (body_of h))) in *.
  pose proof (live_after _ _ _ _ _ _ L Pt) as L1.
  assert (N1 : is_node h' = true) by (unfold h'; rewrite is_node_set_body; exact N).
  assert (M1 : mat_items (after_body st hp t) vals = Some new) by (rewrite mat_items_after; exact M).
  pose proof (gen_expr_insert_ok n _ _ _ _ (Z.of_nat k) _ _ L1 N1 M1) as R. fold h' in R.
  destruct (expr_insert h' (Z.of_nat k) new) as [h''|e|e a]; [| |contradiction].
  - destruct R as [st2 [-> [Hp _]]]. eexists. split; [reflexivity|]. cbn [of_outcome].
    cbn [s_root after_body] in Hp. rewrite (put_put _ _ _ _ _ Pt) in Hp.
    unfold put_o. rewrite Hp. reflexivity.
  - destruct R as [-> ->]. eexists. split; [reflexivity|]. cbn [of_outcome].
    fold h'. rewrite Pt. reflexivity.
Qed.

Definition terminal (xr : xres) : Prop :=
  match xr with XReturn _ _ | XExc _ _ => True | _ => False end.

Definition rep_call (e : EditDSL.expr) : stmt :=
  SExpr (ECall e M_insert (cargs_of [Pos (ECall e M_remove (cargs_of [Pos (EAttr (EVar 1) A_expr)]));
                                     Star (EVar 2)])).
Definition rep1_body : block :=
  blk [SIf (EAny (EGen (PVar 4) (EAttr (EVar 3) A_raw) ETrue (EIs (EVar 4) (EAttr (EVar 1) A_expr))))
           (blk [rep_call (EVar 3); SReturn ENone]) (blk [])].
Definition rep2_body : block :=
  blk [SIf (EIn (EAttr (EVar 1) A_expr) (EAttr (EVar 5) A_raw))
           (blk [rep_call (EVar 5); SReturn ENone]) (blk [])].

Section Replace.
Variables (n : nat) (st : state) (ks kc : nat) (rx : ref) (parx : pstate) (thp : path) (ti : nat)
          (x : Tree.expr) (vals : list value) (new : list Tree.expr).
Hypothesis Nx : node_at st kc = Some (rx, parx).
Hypothesis Lx : live st rx (thp ++ [SBody ti]) x.
Hypothesis Tx : is_texexpr x = true.
Hypothesis Mv : mat_items st vals = Some new.
Let cf := call (S (S (S n))) gen_e_tbl.

(* [holder.insert(holder.remove(child.expr), *nodes); return] or the last statement *)
Lemma rep_stmts eh en rh hp h (ret : bool) :
  nth_error en 1 = Some (Some (VNode kc)) -> nth_error en 2 = Some (Some (VList vals)) ->
  eval gen_e_tbl cf eh en st = EV (VExpr rh) st ->
  live st rh hp h -> is_node h = true -> (hp = thp \/ is_node x = true) ->
  exists xr,
    exec_block gen_e_tbl cf (if ret then blk [rep_call eh; SReturn ENone] else blk [rep_call eh]) en st = xr /\
    (if ret then terminal xr else True) /\
    view (finish xr) = of_tree (s_root st) (replace_in (s_root st) hp h thp ti x new).
Proof.
  intros E1 E2 Eh L N Hx.
  assert (Hex : eval gen_e_tbl cf (EAttr (EVar 1) A_expr) en st = EV (VExpr rx) st).
  { cbn [eval]. unfold lookup. rewrite E1. cbn [lift_v]. apply (ga_node_expr _ _ _ _ _ Nx). }
  assert (Hev : forall s, eval gen_e_tbl cf (EVar 2) en s = EV (VList vals) s).
  { intros s. cbn [eval]. unfold lookup. rewrite E2. reflexivity. }
  destruct (rep_ok n st rh hp h rx thp ti x vals new L N Lx Tx Hx Mv) as [er [Her Hv]].
  fold cf in Her.
  assert (Hst : exec_stmt gen_e_tbl cf (rep_call eh) en st =
                match er with
                | EV _ st1 => XNormal en st1
                | EX e st1 => XExc e st1
                | EUnsup => XUnsup
                | EFuel => XFuel
                end).
  { unfold rep_call. cbn [exec_stmt]. rewrite (eval_replace_call cf eh _ _ en st rh rx vals Eh Hex Hev).
    rewrite Her. reflexivity. }
  destruct ret; cbn [blk]; rewrite exec_block_cons, Hst.
  - destruct er as [v st2|e st2| |]; try contradiction.
    + eexists. split; [reflexivity|]. cbn [exec_block exec_stmt eval]. split; [exact I|].
      cbn [finish view]. symmetry. exact Hv.
    + eexists. split; [reflexivity|]. split; [exact I|]. cbn [finish view]. symmetry. exact Hv.
  - destruct er as [v st2|e st2| |]; try contradiction.
    + eexists. split; [reflexivity|]. cbn [exec_block]. split; [exact I|].
      cbn [finish view]. symmetry. exact Hv.
    + eexists. split; [reflexivity|]. split; [exact I|]. cbn [finish view]. symmetry. exact Hv.
Qed.

Lemma rep1_step rh hp h :
  live st rh hp h -> is_node h = true ->
  let en := [Some (VNode ks); Some (VNode kc); Some (VList vals); Some (VExpr rh)] in
  if path_eqb hp thp then
    exists xr, exec_block gen_e_tbl cf rep1_body en st = xr /\ terminal xr /\
               view (finish xr) = of_tree (s_root st) (replace_in (s_root st) hp h thp ti x new)
  else exec_block gen_e_tbl cf rep1_body en st = XNormal en st.
Proof.
  intros L N en.
  assert (Hany : eval gen_e_tbl cf
            (EAny (EGen (PVar 4) (EAttr (EVar 3) A_raw) ETrue (EIs (EVar 4) (EAttr (EVar 1) A_expr))))
            en st = EV (VBool (path_eqb hp thp)) st).
  { unfold en. ev. rewrite (ga_raw _ _ _ _ _ L N). ev. cbn [iter_vals].
    rewrite (body_vals_live _ _ _ _ L N). unfold idx_vals.
    match goal with
    | |- context [gen_loop _ ?fc ?fe _ ?en0 _] =>
      rewrite (any_loop fc fe st 4 en0 (VExpr rx) _
                        (fun k => path_eqb (hp ++ [SBody k]) (thp ++ [SBody ti])) (fun _ _ => eq_refl))
    end.
    2:{ intros c. ev. rewrite (ga_node_expr _ _ _ _ _ Nx). reflexivity. }
    2:{ intros k Hk. apply (is_same_item st rh hp h rx _ x k L Lx Tx). lia. }
    ev. rewrite first_true_bools, (holds_iff st rh hp h thp ti x rx L Lx). reflexivity. }
  unfold rep1_body. cbn [blk]. rewrite exec_block_cons, exec_SIf, Hany. cbn [truthy].
  destruct (path_eqb hp thp) eqn:E; [|reflexivity].
  apply path_eqb_eq in E.
  destruct (rep_stmts (EVar 3) en rh hp h true eq_refl eq_refl eq_refl L N (or_introl E))
    as [xr [Hx1 [Hx2 Hx3]]].
  cbn [blk] in Hx1. rewrite Hx1. exists xr. split; [|split; assumption].
  destruct xr; try contradiction; reflexivity.
Qed.

Lemma set3_1 (a b c : option value) (tl : env) v :
  (length tl <= 1)%nat -> set_var (a :: b :: c :: tl) 3 v = [a; b; c; Some v].
Proof. intros H. destruct tl as [|u [|w tl]]; cbn in H; try lia; reflexivity. Qed.

Lemma rep1_loop body chk :
  (forall en s, body en s = exec_block gen_e_tbl cf rep1_body en s) ->
  chk st = true ->
  forall vs hs, holder_vals st vs hs -> forall tl, (length tl <= 1)%nat ->
  let en := Some (VNode ks) :: Some (VNode kc) :: Some (VList vals) :: tl in
  match find (holds_object thp) hs with
  | Some (hp, h) =>
    exists xr, for_loop body (PVar 3) chk vs en st = xr /\ terminal xr /\
               view (finish xr) = of_tree (s_root st) (replace_in (s_root st) hp h thp ti x new)
  | None =>
    exists tl', (length tl' <= 1)%nat /\
                for_loop body (PVar 3) chk vs en st
                = XNormal (Some (VNode ks) :: Some (VNode kc) :: Some (VList vals) :: tl') st
  end.
Proof.
  intros Hb Hc vs hs HV. induction HV as [|v [hp h] vs hs Hv HV IH]; intros tl Htl en.
  - exists tl. split; [exact Htl | reflexivity].
  - destruct Hv as [rh [-> [L N]]]. cbn [fst snd] in L, N. unfold en.
    cbn [find for_loop bind_pat]. rewrite (set3_1 _ _ _ tl _ Htl).
    unfold holds_object at 1. cbn [fst]. rewrite Hb.
    pose proof (rep1_step rh hp h L N) as Hst. cbv zeta in Hst.
    destruct (path_eqb hp thp).
    + destruct Hst as [xr [-> [Tm Hv]]]. exists xr. split; [|split; assumption].
      destruct xr; try contradiction; reflexivity.
    + rewrite Hst, Hc. apply (IH [Some (VExpr rh)]). cbn. lia.
Qed.

Hypothesis Xn : is_node x = true.

Definition in_body (ph : path * Tree.expr) : bool := existsb (eq_expr_item x) (body_of (snd ph)).

Lemma rep2_step ra hp a o3 o4 :
  live st ra hp a -> is_node a = true -> path_eqb hp thp = false ->
  let en := [Some (VNode ks); Some (VNode kc); Some (VList vals); o3; o4; Some (VExpr ra)] in
  if in_body (hp, a) then
    exists xr, exec_block gen_e_tbl cf rep2_body en st = xr /\ terminal xr /\
               view (finish xr) = of_tree (s_root st) (replace_in (s_root st) hp a thp ti x new)
  else exec_block gen_e_tbl cf rep2_body en st = XNormal en st.
Proof.
  intros L N E en.
  assert (Hin : eval gen_e_tbl cf (EIn (EAttr (EVar 1) A_expr) (EAttr (EVar 5) A_raw)) en st
                = EV (VBool (in_body (hp, a))) st).
  { unfold en, in_body. cbn [snd]. ev.
    rewrite (ga_node_expr _ _ _ _ _ Nx). ev. rewrite (ga_raw _ _ _ _ _ L N). ev. cbn [in_vals].
    rewrite (body_vals_live _ _ _ _ L N). unfold idx_vals.
    rewrite (first_index_body (same_or_eq st (VExpr rx)) _ (eq_expr_item x) (body_of a) 0).
    2:{ intros k c Hc. cbn [Nat.add]. unfold same_or_eq.
        rewrite (is_same_item st ra hp a rx _ x k L Lx Tx (nth_error_lt _ _ _ Hc)).
        rewrite path_eqb_snoc, E. cbn [andb]. unfold py_eq. destruct Lx as [Px Dx].
        rewrite Dx, Xn, (deref_item _ _ _ _ k L), Hc, eq_obj_spec. reflexivity. }
    rewrite <- index_of_existsb.
    destruct (index_of (eq_expr_item x) (body_of a)); reflexivity. }
  unfold rep2_body. cbn [blk]. rewrite exec_block_cons, exec_SIf, Hin. cbn [truthy].
  destruct (in_body (hp, a)); [|reflexivity].
  destruct (rep_stmts (EVar 5) en ra hp a true eq_refl eq_refl eq_refl L N (or_intror Xn))
    as [xr [Hx1 [Hx2 Hx3]]].
  cbn [blk] in Hx1. rewrite Hx1. exists xr. split; [|split; assumption].
  destruct xr; try contradiction; reflexivity.
Qed.

Lemma set5 (a b c : option value) (tl : env) v :
  (length tl <= 3)%nat -> exists o3 o4, set_var (a :: b :: c :: tl) 5 v = [a; b; c; o3; o4; Some v].
Proof.
  intros H. destruct tl as [|u [|w [|z [|y tl]]]]; cbn in H; try lia; do 2 eexists; reflexivity.
Qed.

Lemma rep2_loop body chk :
  (forall en s, body en s = exec_block gen_e_tbl cf rep2_body en s) ->
  chk st = true ->
  forall vs hs, holder_vals st vs hs ->
  (forall ph, In ph hs -> path_eqb (fst ph) thp = false) ->
  forall tl, (length tl <= 3)%nat ->
  let en := Some (VNode ks) :: Some (VNode kc) :: Some (VList vals) :: tl in
  match find in_body hs with
  | Some (hp, a) =>
    exists xr, for_loop body (PVar 5) chk vs en st = xr /\ terminal xr /\
               view (finish xr) = of_tree (s_root st) (replace_in (s_root st) hp a thp ti x new)
  | None =>
    exists tl', for_loop body (PVar 5) chk vs en st
                = XNormal (Some (VNode ks) :: Some (VNode kc) :: Some (VList vals) :: tl') st
  end.
Proof.
  intros Hb Hc vs hs HV. induction HV as [|v [hp a] vs hs Hv HV IH]; intros Hne tl Htl en.
  - exists tl. reflexivity.
  - destruct Hv as [ra [-> [L N]]]. cbn [fst snd] in L, N. unfold en.
    cbn [find for_loop bind_pat].
    destruct (set5 (Some (VNode ks)) (Some (VNode kc)) (Some (VList vals)) tl (VExpr ra) Htl)
      as [o3 [o4 ->]]. rewrite Hb.
    pose proof (rep2_step ra hp a o3 o4 L N (Hne (hp, a) (or_introl eq_refl))) as Hst.
    cbv zeta in Hst. destruct (in_body (hp, a)).
    + destruct Hst as [xr [-> [Tm Hv]]]. exists xr. split; [|split; assumption].
      destruct xr; try contradiction; reflexivity.
    + rewrite Hst, Hc.
      apply (IH (fun ph Hin => Hne ph (or_intror Hin)) [o3; o4; Some (VExpr ra)]). cbn. lia.
Qed.

End Replace.

Lemma gen_node_replace_gen n st ks rp pars kc rx parc pp thp ti P x vals new :
  node_at st ks = Some (rp, pars) -> node_at st kc = Some (rx, parc) ->
  live st rp pp P -> live st rx (thp ++ [SBody ti]) x ->
  is_node P = true -> forallb is_node (args_of P) = true -> is_texexpr x = true ->
  (existsb (holds_object thp) (holders pp P) = true \/ is_node x = true) ->
  mat_items st vals = Some new ->
  view (call (S (S (S (S n)))) gen_e_tbl (VNode ks) M_replace (VNode kc :: vals) st)
  = of_tree (s_root st) (replace_via (s_root st) pp thp ti new).
Proof.
  intros Ns Nc L Lx N FA T Hx M.
  pose proof (live_get _ _ _ _ L) as G. pose proof (live_get _ _ _ _ Lx) as Gx.
  unfold replace_via. rewrite G, Gx.
  assert (C : call (S (S (S (S n)))) gen_e_tbl (VNode ks) M_replace (VNode kc :: vals) st =
              finish (exec_block gen_e_tbl (call (S (S (S n))) gen_e_tbl) (m_body gen_e_TexNode_replace)
                                 [Some (VNode ks); Some (VNode kc); Some (VList vals)] st)).
  { rewrite call_S, (find_meth_node _ _ _ _ Ns).
    cbn [gen_e_tbl m_params m_star m_body gen_e_TexNode_replace bind_params option_map].
    destruct vals; reflexivity. }
  rewrite C. clear C. ev.
  rewrite (ga_node_expr _ _ _ _ _ Ns). ev. rewrite (ga_args _ _ _ _ _ L N). ev. cbn [iter_vals].
  rewrite (args_vals_live _ _ _ _ L N). cbn [option_map]. ev.
  rewrite (ga_node_expr _ _ _ _ _ Ns). ev. cbn [iter_vals].
  assert (HV : holder_vals st
                 (idx_vals (fun k => VExpr (RIn (pp ++ [SArg k]) (epoch st))) (length (args_of P))
                  ++ [VExpr rp])
                 (holders pp P)).
  { unfold holders. apply Forall2_app.
    - apply (holder_vals_args st _ pp P L FA [] (args_of P) eq_refl).
    - constructor; [|constructor]. exists rp. repeat split; try assumption; apply L. }
  match goal with
  | |- context [for_loop ?body (PVar 3) ?chk _ ?en _] =>
    pose proof (rep1_loop n st ks kc _ _ thp ti x vals new Nc Lx T M body chk (fun _ _ => eq_refl)
                          (same_list_now _ st) _ _ HV [] (Nat.le_0_l _)) as L1
  end.
  cbv zeta in L1.
  destruct (find (holds_object thp) (holders pp P)) as [[hp h]|] eqn:F1.
  - destruct L1 as [xr [-> [Tm Hv]]]. destruct xr; try contradiction; exact Hv.
  - destruct L1 as [tl1 [Htl1 ->]]. ev.
    assert (Hxn : is_node x = true).
    { destruct Hx as [Hx|Hx]; [|exact Hx]. apply existsb_exists in Hx. destruct Hx as [ph [Hin Hph]].
      rewrite (find_none_all _ _ F1 ph Hin) in Hph. discriminate. }
    rewrite (ga_node_expr _ _ _ _ _ Ns). ev. rewrite (ga_args _ _ _ _ _ L N). ev. cbn [iter_vals].
    rewrite (args_vals_live _ _ _ _ L N).
    pose proof (holder_vals_args st _ pp P L FA [] (args_of P) eq_refl) as HV2. cbn [length] in HV2.
    assert (Hne : forall ph, In ph (number_args pp 0 (args_of P)) -> path_eqb (fst ph) thp = false).
    { intros ph Hin. apply (find_none_all _ _ F1 ph (in_holders_args _ _ _ Hin)). }
    match goal with
    | |- context [for_loop ?body (PVar 5) ?chk _ ?en _] =>
      pose proof (rep2_loop n st ks kc _ _ thp ti x vals new Nc Lx T M Hxn body chk (fun _ _ => eq_refl)
                            (same_list_now _ st) _ _ HV2 Hne tl1 ltac:(lia)) as L2
    end.
    cbv zeta in L2. unfold idx_vals.
    match type of L2 with
    | match find ?f ?l with _ => _ end => change f with
        (fun ph : path * Tree.expr => existsb (eq_expr_item x) (body_of (snd ph))) in L2
    end.
    destruct (find (fun ph : path * Tree.expr => existsb (eq_expr_item x) (body_of (snd ph)))
                   (number_args pp 0 (args_of P))) as [[hp a]|] eqn:F2.
    + destruct L2 as [xr [-> [Tm Hv]]]. destruct xr; try contradiction; exact Hv.
    + destruct L2 as [tl2 ->].
      destruct (rep_stmts n st kc _ _ thp ti x vals new Nc Lx T M (EAttr (EVar 0) A_expr)
                          (Some (VNode ks) :: Some (VNode kc) :: Some (VList vals) :: tl2) rp pp P
                          false eq_refl eq_refl) as [xr [Hx1 [_ Hx3]]]; try assumption.
      * cbn [eval lookup nth_error lift_v]. apply (ga_node_expr _ _ _ _ _ Ns).
      * right. exact Hxn.
      * rewrite <- Hx3, <- Hx1. reflexivity.
Qed.

Theorem gen_node_replace_ok n root ns ks pars kc parc pp thp ti P x vals new :
  node_at (init root ns) ks = Some (RIn pp 0, pars) ->
  node_at (init root ns) kc = Some (RIn (thp ++ [SBody ti]) 0, parc) ->
  get root pp = Some P -> get root (thp ++ [SBody ti]) = Some x ->
  is_node P = true -> forallb is_node (args_of P) = true -> is_texexpr x = true ->
  (existsb (holds_object thp) (holders pp P) = true \/ is_node x = true) ->
  mat_items (init root ns) vals = Some new ->
  view (call (S (S (S (S n)))) gen_e_tbl (VNode ks) M_replace (VNode kc :: vals) (init root ns))
  = of_tree root (replace_via root pp thp ti new).
Proof.
  intros Ns Nc G Gx. 
  apply (gen_node_replace_gen n (init root ns) ks _ pars kc _ parc pp thp ti P x vals new Ns Nc
           (live_init _ _ _ _ G) (live_init _ _ _ _ Gx)).
Qed.

(* node.replace_with( *mats) = node.parent.replace(node, *mats) *)
Theorem gen_node_replace_with_ok n root ns ks kp parp pp thp ti P x vals new :
  node_at (init root ns) ks = Some (RIn (thp ++ [SBody ti]) 0, PNode kp) ->
  node_at (init root ns) kp = Some (RIn pp 0, parp) ->
  get root pp = Some P -> get root (thp ++ [SBody ti]) = Some x ->
  is_node P = true -> forallb is_node (args_of P) = true -> is_texexpr x = true ->
  (existsb (holds_object thp) (holders pp P) = true \/ is_node x = true) ->
  mat_items (init root ns) vals = Some new ->
  view (call (S (S (S (S (S n))))) gen_e_tbl (VNode ks) M_replace_with vals (init root ns))
  = of_tree root (replace_via root pp thp ti new).
Proof.
  intros Ns Np G Gx N FA T Hx M.
  rewrite call_S, (find_meth_node _ _ _ _ Ns).
  cbn [gen_e_tbl m_params m_star m_body gen_e_TexNode_replace_with].
  assert (B : bind_params [] true vals = Some [Some (VList vals)]) by (destruct vals; reflexivity).
  rewrite B. ev. rewrite (ga_node_parent _ _ _ _ _ Ns). ev. cbn [iter_vals]. rewrite app_nil_r.
  pose proof (gen_node_replace_ok n root ns kp parp ks (PNode kp) pp thp ti P x vals new
                                  Np Ns G Gx N FA T Hx M) as R.
  destruct (call (S (S (S (S n)))) gen_e_tbl (VNode kp) M_replace (VNode ks :: vals) (init root ns))
    as [st' [v|e]| |]; cbn [of_outcome finish view] in *; try exact R.
  destruct (replace_via root pp thp ti new) as [t|e|e t]; cbn in R |- *.
  - inversion R; subst. reflexivity.
  - destruct (exn_of e); discriminate.
  - destruct (exn_of e); discriminate.
Qed.

(* ====================================================================== *)
(* the serialisers: __str__ of TexCmd / TexEnv / TexText / TexArgs / TexNode *)
(* ====================================================================== *)

(* call depth str() needs on e *)
Fixpoint sdepth (e : Tree.expr) : nat :=
  let fix mx (l : list Tree.expr) : nat :=
      match l with [] => O | c :: l' => Nat.max (sdepth c) (mx l') end in
  match e with
  | EText _ => 1%nat
  | ERaw _ _ | EStr _ => 0%nat
  | ECmd _ a b _ | ENamed _ a b _ => S (Nat.max (S (mx a)) (mx b))
  | EMath _ b _ | EGroup _ b _ | ERoot b => S (Nat.max 1%nat (mx b))
  end.
Fixpoint sdepth_max (l : list Tree.expr) : nat :=
  match l with [] => O | c :: l' => Nat.max (sdepth c) (sdepth_max l') end.

Lemma sdepth_unfold e :
  sdepth e = match e with
             | EText _ => 1%nat
             | ERaw _ _ | EStr _ => 0%nat
             | ECmd _ a b _ | ENamed _ a b _ => S (Nat.max (S (sdepth_max a)) (sdepth_max b))
             | EMath _ b _ | EGroup _ b _ | ERoot b => S (Nat.max 1%nat (sdepth_max b))
             end.
Proof. destruct e; reflexivity. Qed.

Lemma sdepth_max_in l c : In c l -> (sdepth c <= sdepth_max l)%nat.
Proof.
  induction l as [|y l IH]; intros H; [contradiction|]. cbn [sdepth_max].
  destruct H as [<-|H]; [lia|]. specialize (IH H). lia.
Qed.

Lemma map_loop fc fe st x en mk (u : nat -> value) :
  (forall en' st', fc en' st' = EV (VBool true) st') ->
  forall m s,
  (forall k, (s <= k < s + m)%nat -> fe (set_var en x (mk k)) st = EV (u k) st) ->
  gen_loop (PVar x) fc fe (map mk (seq s m)) en st = EV (VList (map u (seq s m))) st.
Proof.
  intros Hc. induction m as [|m IH]; intros s Hg; [reflexivity|].
  cbn [seq map gen_loop bind_pat]. rewrite Hc, Nat.eqb_refl. cbn [negb truthy].
  rewrite (Hg s) by lia. rewrite Nat.eqb_refl. cbn [negb].
  rewrite (IH (S s)); [reflexivity|]. intros k Hk. apply Hg. lia.
Qed.

Lemma map_seq_nth {A B} (f : A -> B) (u : nat -> B) : forall (l : list A) s,
  (forall j c, nth_error l j = Some c -> u (s + j)%nat = f c) ->
  map u (seq s (length l)) = map f l.
Proof.
  induction l as [|c l IH]; intros s H; [reflexivity|]. cbn [length seq map].
  rewrite <- (H 0%nat c eq_refl), Nat.add_0_r. f_equal. apply IH.
  intros j c' Hj. replace (S s + j)%nat with (s + S j)%nat by lia. apply H. exact Hj.
Qed.

Lemma strs_of_map (l : list str) : strs_of (map VStr l) = Some l.
Proof. induction l as [|s l IH]; [reflexivity|]. cbn. rewrite IH. reflexivity. Qed.
Lemma join_nil_concat (l : list str) : join [] l = concat l.
Proof.
  induction l as [|s l IH]; [reflexivity|]. cbn [join concat]. destruct l as [|t l].
  - cbn. rewrite app_nil_r. reflexivity.
  - rewrite IH. reflexivity.
Qed.

(* str(c) of an object of the tree gives estr c, at call depth n *)
Definition str_ok (n : nat) (c : Tree.expr) : Prop :=
  forall st r p, live st r p c ->
  str_of (call n gen_e_tbl) (VExpr r) st = EV (VStr (estr c)) st.

(* ''.join(str(x) for x in <the raw list / the arguments of the live object>) *)
Lemma join_items n st r p h (body : bool) en x :
  live st r p h -> is_node h = true ->
  Forall (str_ok n) (if body then body_of h else args_of h) ->
  forall fc fe,
  (forall en' st', fc en' st' = EV (VBool true) st') ->
  (forall v, fe (set_var en x v) st = str_of (call n gen_e_tbl) v st) ->
  gen_loop (PVar x) fc fe
    (idx_vals (fun k => VExpr (RIn (p ++ [if body then SBody k else SArg k]) (epoch st)))
              (length (if body then body_of h else args_of h))) en st
  = EV (VList (map VStr (map estr (if body then body_of h else args_of h)))) st.
Proof.
  intros L N F fc fe Hc He. unfold idx_vals.
  rewrite (map_loop fc fe st x en _
             (fun k => match nth_error (if body then body_of h else args_of h) k with
                       | Some c => VStr (estr c) | None => VNone end) Hc).
  - rewrite map_map. do 2 f_equal. apply map_seq_nth. intros j c Hj. cbn [Nat.add]. rewrite Hj.
    reflexivity.
  - intros k Hk. rewrite He.
    destruct (nth_error (if body then body_of h else args_of h) k) as [c|] eqn:Hc';
      [|apply nth_error_None in Hc'; lia].
    rewrite Forall_forall in F.
    apply (F c (nth_error_In _ _ Hc') st _ (p ++ [if body then SBody k else SArg k])).
    destruct body; split; try apply path_item.
    + rewrite (deref_item _ _ _ _ _ L). exact Hc'.
    + rewrite (deref_arg _ _ _ _ _ L). exact Hc'.
Qed.

(* str(self.args): TexArgs.__str__ *)
Lemma gen_args_str_ok n st r p h :
  live st r p h -> is_node h = true -> Forall (str_ok n) (args_of h) ->
  call (S n) gen_e_tbl (VArgs r) M_str [] st = ODone st (RVal (VStr (estr_list (args_of h)))).
Proof.
  intros L N F. rewrite call_S. unfold find_meth. cbn [class_of mro mro_find gen_e_tbl].
  cbn [m_params m_star m_body gen_e_TexArgs_str bind_params]. ev. cbn [iter_vals].
  rewrite (args_vals_live _ _ _ _ L N).
  match goal with
  | |- context [gen_loop _ ?fc ?fe _ ?en0 _] =>
    rewrite (join_items n st r p h false en0 1 L N F fc fe (fun _ _ => eq_refl) (fun _ => eq_refl))
  end.
  ev. rewrite strs_of_map. cbn [option_map lift_v finish]. rewrite join_nil_concat. reflexivity.
Qed.

(* the join over self._contents, as it appears in TexCmd.__str__ and TexEnv.__str__ *)
Lemma eval_join_contents n st r p h :
  live st r p h -> is_node h = true -> Forall (str_ok n) (body_of h) ->
  eval gen_e_tbl (call n gen_e_tbl)
       (EJoin [] (EGen (PVar 1) (EAttr (EVar 0) A_raw) ETrue (EStrOf (EVar 1)))) [Some (VExpr r)] st
  = EV (VStr (estr_list (body_of h))) st.
Proof.
  intros L N F. ev. rewrite (ga_raw _ _ _ _ _ L N). ev. cbn [iter_vals].
  rewrite (body_vals_live _ _ _ _ L N).
  match goal with
  | |- context [gen_loop _ ?fc ?fe _ ?en0 _] =>
    rewrite (join_items n st r p h true en0 1 L N F fc fe (fun _ _ => eq_refl) (fun _ => eq_refl))
  end.
  ev. rewrite strs_of_map. cbn [option_map lift_v]. rewrite join_nil_concat. reflexivity.
Qed.

Definition str_at (c : Tree.expr) : Prop :=
  forall n st r p, live st r p c -> is_texexpr c = true -> (sdepth c <= n)%nat ->
  call n gen_e_tbl (VExpr r) M_str [] st = ODone st (RVal (VStr (estr c))).

Lemma str_ok_of n c : str_at c -> (sdepth c <= n)%nat -> str_ok n c.
Proof.
  intros H Hn st r p L. unfold str_of. pose proof L as [_ D]. rewrite D.
  destruct c; try reflexivity; rewrite (H n st r p L eq_refl Hn); reflexivity.
Qed.

Lemma str_ok_all n l : Forall str_at l -> (sdepth_max l <= n)%nat -> Forall (str_ok n) l.
Proof.
  intros F Hn. rewrite Forall_forall in *. intros c Hc. apply str_ok_of; [apply F; exact Hc|].
  pose proof (sdepth_max_in l c Hc). lia.
Qed.

Lemma str_of_args n st r p h :
  live st r p h -> is_node h = true -> Forall (str_ok n) (args_of h) ->
  str_of (call (S n) gen_e_tbl) (VArgs r) st = EV (VStr (estr_list (args_of h))) st.
Proof. intros L N F. cbn [str_of]. rewrite (gen_args_str_ok n st r p h L N F). reflexivity. Qed.

Ltac evs1 := cbn [strs_all str_of strs_of format option_map lift_v app]; ev.
Ltac evs := evs1; evs1; evs1.

Ltac do_join n st r p h L N F :=
  rewrite (ga_raw _ _ _ _ _ L N); ev; cbn [iter_vals]; rewrite (body_vals_live _ _ _ _ L N);
  match goal with
  | |- context [gen_loop _ ?fc ?fe _ ?en0 _] =>
    rewrite (join_items n st r p h true en0 1 L N F fc fe (fun _ _ => eq_refl) (fun _ => eq_refl))
  end;
  ev; rewrite strs_of_map; cbn [option_map lift_v]; rewrite join_nil_concat; ev.

(* one step of the symbolic run of TexCmd.__str__ on the live command (r, p, h): the
   attribute reads, the truth value of self._contents, the join over self._contents,
   str(self.args).  Written as a loop over the steps that apply, so that the proof
   follows the generated body whatever the order and nesting of these steps is
   (`if self._contents: .. join ..` / an unconditional join bound to a local, ...). *)
Ltac cmd_str_step n st r p h L Fa Fb :=
  first
    [ rewrite (ga_raw _ _ _ _ _ L eq_refl)
    | rewrite (ga_name_cmd _ _ _ _ _ _ _ _ L)
    | rewrite (ga_args _ _ _ _ _ L eq_refl)
    | rewrite (body_vals_live _ _ _ _ L eq_refl)
    | rewrite idx_vals_nonempty;
      match goal with
      | |- context [negb (Nat.eqb (length (body_of ?hh)) 0)] =>
        let v := eval cbn in (negb (Nat.eqb (length (body_of hh)) 0)) in
        change (negb (Nat.eqb (length (body_of hh)) 0)) with v
      end
    | match goal with
      | |- context [gen_loop (PVar ?x) ?fc ?fe _ ?en0 _] =>
        rewrite (join_items (S n) st r p h true en0 x L (@eq_refl bool true) Fb fc fe
                            (fun _ _ => eq_refl) (fun _ => eq_refl))
      end
    | rewrite strs_of_map
    | rewrite join_nil_concat
    | rewrite (gen_args_str_ok n st r p _ L eq_refl Fa)
    | progress cbn [iter_vals truthy strs_all str_of strs_of format option_map lift_v app]
    | progress ev ].

Lemma gen_str_cmd nm a b q : Forall str_at a -> Forall str_at b -> str_at (ECmd nm a b q).
Proof.
  intros Fa Fb n st r p L _ Hn. rewrite sdepth_unfold in Hn.
  destruct n as [|[|n]]; try lia.
  assert (Fa' : Forall (str_ok n) a) by (apply str_ok_all; [exact Fa | lia]).
  assert (Fb' : Forall (str_ok (S n)) b) by (apply str_ok_all; [exact Fb | lia]).
  rewrite call_S, (find_meth_live _ _ _ _ _ L).
  cbn [class_of_expr mro mro_find gen_e_tbl m_params m_star m_body gen_e_TexCmd_str bind_params].
  destruct b as [|c b];
    match type of L with live _ _ _ ?h => repeat cmd_str_step n st r p h L Fa' Fb' end;
    cbn [estr args_of body_of map concat]; unfold estr_list; cbn [map concat];
    rewrite ?app_nil_r; reflexivity.
Qed.

(* ------------------------------------------------ name / begin / end of environments *)
Lemma ga_name_named cf st r p nm a b q :
  live st r p (ENamed nm a b q) -> get_attr gen_e_tbl cf (VExpr r) A_name st = EV (VStr nm) st.
Proof.
  intros L. unfold get_attr. rewrite (live_class _ _ _ _ L). cbn. destruct L as [_ D]. rewrite D.
  reflexivity.
Qed.
Lemma ga_name_root cf st r p b :
  live st r p (ERoot b) -> get_attr gen_e_tbl cf (VExpr r) A_name st = EV (VStr s_roottex) st.
Proof.
  intros L. unfold get_attr. rewrite (live_class _ _ _ _ L). cbn. destruct L as [_ D]. rewrite D.
  reflexivity.
Qed.
Lemma ga_delim cf st r p h a :
  live st r p h ->
  match h with EMath _ _ _ | EGroup _ _ _ => True | _ => False end ->
  match a with A_name | A_begin | A_end => True | _ => False end ->
  get_attr gen_e_tbl cf (VExpr r) a st =
  EV (VStr (match h, a with
            | EMath k _ _, A_name => math_name k | EMath k _ _, A_begin => math_begin k
            | EMath k _ _, _ => math_end k
            | EGroup k _ _, A_name => group_name k | EGroup k _ _, A_begin => group_begin k
            | EGroup k _ _, _ => group_end k
            | _, _ => [] end)) st.
Proof.
  intros L Hh Ha. unfold get_attr. rewrite (live_class _ _ _ _ L).
  destruct h; try contradiction; destruct a; try contradiction; reflexivity.
Qed.

Lemma ga_begin_named n st r p nm a b q :
  live st r p (ENamed nm a b q) ->
  get_attr gen_e_tbl (call (S n) gen_e_tbl) (VExpr r) A_begin st = EV (VStr (env_begin nm)) st.
Proof.
  intros L. unfold get_attr. rewrite (live_class _ _ _ _ L).
  cbn [class_attr class_of_expr mro mro_find gen_e_tbl].
  rewrite call_S, (find_meth_live _ _ _ _ _ L).
  cbn [class_of_expr mro mro_find gen_e_tbl m_params m_star m_body gen_e_TexNamedEnv_get_begin bind_params].
  ev. rewrite (ga_name_named _ _ _ _ _ _ _ _ L). evs. reflexivity.
Qed.
Lemma ga_end_named n st r p nm a b q :
  live st r p (ENamed nm a b q) ->
  get_attr gen_e_tbl (call (S n) gen_e_tbl) (VExpr r) A_end st = EV (VStr (env_end nm)) st.
Proof.
  intros L. unfold get_attr. rewrite (live_class _ _ _ _ L).
  cbn [class_attr class_of_expr mro mro_find gen_e_tbl].
  rewrite call_S, (find_meth_live _ _ _ _ _ L).
  cbn [class_of_expr mro mro_find gen_e_tbl m_params m_star m_body gen_e_TexNamedEnv_get_end bind_params].
  ev. rewrite (ga_name_named _ _ _ _ _ _ _ _ L). evs. reflexivity.
Qed.

Lemma ga_raw_delims cf st r p b (e : bool) :
  live st r p (ERoot b) ->
  get_attr gen_e_tbl cf (VExpr r) (if e then A_end_raw else A_begin_raw) st = EV (VStr []) st.
Proof.
  intros L. unfold get_attr. rewrite (live_class _ _ _ _ L). destruct L as [_ D].
  destruct e; cbn; rewrite D; reflexivity.
Qed.
Lemma ga_begin_root n st r p b :
  live st r p (ERoot b) ->
  get_attr gen_e_tbl (call (S n) gen_e_tbl) (VExpr r) A_begin st = EV (VStr []) st.
Proof.
  intros L. unfold get_attr. rewrite (live_class _ _ _ _ L).
  cbn [class_attr class_of_expr mro mro_find gen_e_tbl].
  rewrite call_S, (find_meth_live _ _ _ _ _ L).
  cbn [class_of_expr mro mro_find gen_e_tbl m_params m_star m_body gen_e_TexEnv_get_begin bind_params].
  ev. rewrite (ga_raw_delims _ _ _ _ _ false L). reflexivity.
Qed.
Lemma ga_end_root n st r p b :
  live st r p (ERoot b) ->
  get_attr gen_e_tbl (call (S n) gen_e_tbl) (VExpr r) A_end st = EV (VStr []) st.
Proof.
  intros L. unfold get_attr. rewrite (live_class _ _ _ _ L).
  cbn [class_attr class_of_expr mro mro_find gen_e_tbl].
  rewrite call_S, (find_meth_live _ _ _ _ _ L).
  cbn [class_of_expr mro mro_find gen_e_tbl m_params m_star m_body gen_e_TexEnv_get_end bind_params].
  ev. rewrite (ga_raw_delims _ _ _ _ _ true L). reflexivity.
Qed.

Lemma find_str_env h :
  match h with ENamed _ _ _ _ | EMath _ _ _ | EGroup _ _ _ | ERoot _ => True | _ => False end ->
  mro_find gen_e_tbl (mro (class_of_expr h)) M_str = Some gen_e_TexEnv_str.
Proof. destruct h as [| | | | |k ? ?|[|] ? ?|]; try contradiction; reflexivity. Qed.

Lemma gen_str_named nm a b q : Forall str_at a -> Forall str_at b -> str_at (ENamed nm a b q).
Proof.
  intros Fa Fb n st r p L _ Hn. rewrite sdepth_unfold in Hn.
  destruct n as [|[|n]]; try lia.
  assert (Fa' : Forall (str_ok n) a) by (apply str_ok_all; [exact Fa | lia]).
  assert (Fb' : Forall (str_ok (S n)) b) by (apply str_ok_all; [exact Fb | lia]).
  rewrite call_S, (find_meth_live _ _ _ _ _ L), (find_str_env (ENamed nm a b q) I).
  cbn [m_params m_star m_body gen_e_TexEnv_str bind_params]. ev.
  do_join (S n) st r p (ENamed nm a b q) L (@eq_refl bool true) Fb'.
  rewrite (ga_name_named _ _ _ _ _ _ _ _ L). ev. cbn [py_eq]. ev.
  destruct (str_eqb nm [91; 116; 101; 120; 93]%N); ev.
  - rewrite (ga_begin_named _ _ _ _ _ _ _ _ L). ev.
    cbn [truthy env_begin s_begin_open app option_map negb lift_b]. ev.
    rewrite (ga_begin_named _ _ _ _ _ _ _ _ L). ev. rewrite (ga_args _ _ _ _ _ L eq_refl). ev.
    cbn [str_of]. rewrite (gen_args_str_ok n st r p _ L eq_refl Fa'). ev.
    rewrite (ga_end_named _ _ _ _ _ _ _ _ L). evs.
    cbn [estr args_of body_of]. unfold estr_list. rewrite ?app_nil_r, <- ?app_assoc. reflexivity.
  - rewrite (ga_begin_named _ _ _ _ _ _ _ _ L). ev. rewrite (ga_args _ _ _ _ _ L eq_refl). ev.
    cbn [str_of]. rewrite (gen_args_str_ok n st r p _ L eq_refl Fa'). ev.
    rewrite (ga_end_named _ _ _ _ _ _ _ _ L). evs.
    cbn [estr args_of body_of]. unfold estr_list. rewrite ?app_nil_r, <- ?app_assoc. reflexivity.
Qed.

Lemma math_not_root k : str_eqb (math_name k) [91; 116; 101; 120; 93]%N = false.
Proof. destruct k; reflexivity. Qed.
Lemma group_not_root k : str_eqb (group_name k) [91; 116; 101; 120; 93]%N = false.
Proof. destruct k; reflexivity. Qed.

Lemma gen_str_math k b q : Forall str_at b -> str_at (EMath k b q).
Proof.
  intros Fb n st r p L _ Hn. rewrite sdepth_unfold in Hn.
  destruct n as [|[|n]]; try lia.
  assert (Fb' : Forall (str_ok (S n)) b) by (apply str_ok_all; [exact Fb | lia]).
  rewrite call_S, (find_meth_live _ _ _ _ _ L), (find_str_env (EMath k b q) I).
  cbn [m_params m_star m_body gen_e_TexEnv_str bind_params]. ev.
  do_join (S n) st r p (EMath k b q) L (@eq_refl bool true) Fb'.
  rewrite (ga_delim _ _ _ _ (EMath k b q) A_name L I I). ev. cbn [py_eq]. rewrite math_not_root. ev.
  rewrite (ga_delim _ _ _ _ (EMath k b q) A_begin L I I). ev. rewrite (ga_args _ _ _ _ _ L eq_refl). ev.
  cbn [str_of]. rewrite (gen_args_str_ok n st r p _ L eq_refl (Forall_nil _)). ev.
  rewrite (ga_delim _ _ _ _ (EMath k b q) A_end L I I). evs.
  cbn [estr args_of body_of]. unfold estr_list. cbn [map concat]. rewrite ?app_nil_r. reflexivity.
Qed.

Lemma gen_str_group k b q : Forall str_at b -> str_at (EGroup k b q).
Proof.
  intros Fb n st r p L _ Hn. rewrite sdepth_unfold in Hn.
  destruct n as [|[|n]]; try lia.
  assert (Fb' : Forall (str_ok (S n)) b) by (apply str_ok_all; [exact Fb | lia]).
  rewrite call_S, (find_meth_live _ _ _ _ _ L), (find_str_env (EGroup k b q) I).
  cbn [m_params m_star m_body gen_e_TexEnv_str bind_params]. ev.
  do_join (S n) st r p (EGroup k b q) L (@eq_refl bool true) Fb'.
  rewrite (ga_delim _ _ _ _ (EGroup k b q) A_name L I I). ev. cbn [py_eq]. rewrite group_not_root. ev.
  rewrite (ga_delim _ _ _ _ (EGroup k b q) A_begin L I I). ev. rewrite (ga_args _ _ _ _ _ L eq_refl). ev.
  cbn [str_of]. rewrite (gen_args_str_ok n st r p _ L eq_refl (Forall_nil _)). ev.
  rewrite (ga_delim _ _ _ _ (EGroup k b q) A_end L I I). evs.
  cbn [estr args_of body_of]. unfold estr_list. cbn [map concat]. rewrite ?app_nil_r. reflexivity.
Qed.

Lemma gen_str_root b : Forall str_at b -> str_at (ERoot b).
Proof.
  intros Fb n st r p L _ Hn. rewrite sdepth_unfold in Hn.
  destruct n as [|[|n]]; try lia.
  assert (Fb' : Forall (str_ok (S n)) b) by (apply str_ok_all; [exact Fb | lia]).
  rewrite call_S, (find_meth_live _ _ _ _ _ L), (find_str_env (ERoot b) I).
  cbn [m_params m_star m_body gen_e_TexEnv_str bind_params]. ev.
  do_join (S n) st r p (ERoot b) L (@eq_refl bool true) Fb'.
  rewrite (ga_name_root _ _ _ _ _ L). ev. cbn [py_eq].
  change (str_eqb s_roottex [91; 116; 101; 120; 93]%N) with true. ev.
  rewrite (ga_begin_root _ _ _ _ _ L). ev. cbn [option_map negb lift_b]. ev.
  rewrite (ga_end_root _ _ _ _ _ L). ev. cbn [option_map negb lift_b]. ev. reflexivity.
Qed.

Lemma gen_str_text t : str_at (EText t).
Proof.
  intros n st r p L _ Hn. rewrite sdepth_unfold in Hn. destruct n as [|n]; try lia.
  rewrite call_S, (find_meth_live _ _ _ _ _ L).
  cbn [class_of_expr mro mro_find gen_e_tbl m_params m_star m_body gen_e_TexText_str bind_params].
  ev. unfold get_attr. rewrite (live_class _ _ _ _ L). cbn. destruct L as [_ D]. rewrite D. reflexivity.
Qed.

(* str(x) of every TexExpr object of any tree is Tree.estr x *)
Theorem gen_str_ok : forall e, str_at e.
Proof.
  induction e as [t|s p|s|nm a b p IHa IHb|nm a b p IHa IHb|k b p IHb|k b p IHb|b IHb] using expr_ind'.
  - apply gen_str_text.
  - intros n st r q L T. discriminate.
  - intros n st r q L T. discriminate.
  - apply gen_str_cmd; assumption.
  - apply gen_str_named; assumption.
  - apply gen_str_math; assumption.
  - apply gen_str_group; assumption.
  - apply gen_str_root; assumption.
Qed.

(* str(node) = str(node.expr) *)
Lemma gen_node_str_ok n st ks r par p e :
  node_at st ks = Some (r, par) -> live st r p e -> is_texexpr e = true -> (sdepth e <= n)%nat ->
  call (S n) gen_e_tbl (VNode ks) M_str [] st = ODone st (RVal (VStr (estr e))).
Proof.
  intros Ns L T Hn. rewrite call_S, (find_meth_node _ _ _ _ Ns).
  cbn [gen_e_tbl m_params m_star m_body gen_e_TexNode_str bind_params]. ev.
  rewrite (ga_node_expr _ _ _ _ _ Ns). ev.
  pose proof (str_ok_of n e (gen_str_ok e) Hn st r p L) as H. rewrite H. reflexivity.
Qed.

(* an upper bound of the call depth in terms of the nesting depth alone *)
Definition str_fuel (e : Tree.expr) : nat := sdepth e.

(* ====================================================================== *)
(* the setters of name / args                                              *)
(* ====================================================================== *)

Lemma no_setter h a :
  match a with A_name | A_args | A_raw => True | _ => False end ->
  mro_find gen_e_tbl (mro (class_of_expr h)) (M_set a) = None.
Proof.
  intros Ha. destruct a; try contradiction; destruct h as [| | | | |k ? ?|[|] ? ?|]; reflexivity.
Qed.

(* node.name = s *)
Theorem gen_set_name_ok n root ns ks pars np h s :
  node_at (init root ns) ks = Some (RIn np 0, pars) -> get root np = Some h ->
  match h with ECmd _ _ _ _ | ENamed _ _ _ _ => True | _ => False end ->
  view (call (S n) gen_e_tbl (VNode ks) (M_set A_name) [VStr s] (init root ns))
  = of_tree root (set_name root np s).
Proof.
  intros Ns G Hh. pose proof (live_init root ns _ _ G) as L.
  rewrite call_S, (find_meth_node _ _ _ _ Ns).
  cbn [gen_e_tbl m_params m_star m_body gen_e_TexNode_set_name bind_params option_map]. ev.
  rewrite (ga_node_expr _ _ _ _ _ Ns). ev.
  unfold set_attr. rewrite (find_meth_live _ _ _ _ _ L), (no_setter h A_name I).
  unfold field_set. destruct L as [P D]. rewrite P, D.
  unfold set_name. rewrite G.
  destruct (put_total root np h) with (x' := h) as [t0 _]; [exact G|].
  destruct h; try contradiction; cbn [rename obind]; unfold put_o; cbn [init s_root];
    match goal with
    | |- context [put root np ?y] =>
      destruct (put_total root np _ y G) as [t Pt]; rewrite Pt; reflexivity
    end.
Qed.

Lemma split_last_snoc q s : split_last (q ++ [s]) = Some (q, s).
Proof.
  induction q as [|a q IH]; [reflexivity|]. cbn [app split_last]. rewrite IH.
  destruct (q ++ [s]) eqn:E; [destruct q; discriminate | reflexivity].
Qed.

Lemma arg_indices_ok st np idxs :
  (forall q, fresh st q 0 = true) ->
  arg_indices st np (map (fun i => VExpr (RIn (np ++ [SArg i]) 0)) idxs) = Some idxs.
Proof.
  intros F. induction idxs as [|i idxs IH]; [reflexivity|].
  cbn [map arg_indices path_of]. rewrite F, IH, split_last_snoc, path_eqb_refl. reflexivity.
Qed.

(* node.args = TexArgs([node.args[i] for i in idxs]) *)
Theorem gen_set_args_ok n root ns ks pars np h idxs a' :
  node_at (init root ns) ks = Some (RIn np 0, pars) -> get root np = Some h ->
  has_args h = true -> nodup_nat idxs = true -> select (args_of h) idxs = Some a' ->
  view (call (S n) gen_e_tbl (VNode ks) (M_set A_args)
             [VNewArgs (map (fun i => VExpr (RIn (np ++ [SArg i]) 0)) idxs)] (init root ns))
  = of_tree root (set_args root np idxs).
Proof.
  intros Ns G HA ND Sel. pose proof (live_init root ns _ _ G) as L.
  rewrite call_S, (find_meth_node _ _ _ _ Ns).
  cbn [gen_e_tbl m_params m_star m_body gen_e_TexNode_set_args bind_params option_map]. ev.
  assert (I1 : forall l, isinstance (init root ns) (VNewArgs l) [CTexArgs] = Some true) by reflexivity.
  rewrite I1. ev. rewrite (ga_node_expr _ _ _ _ _ Ns). ev.
  unfold set_attr. rewrite (find_meth_live _ _ _ _ _ L), (no_setter h A_args I).
  unfold field_set. destruct L as [P D]. rewrite P, D.
  rewrite arg_indices_ok by reflexivity. rewrite HA, ND, Sel. cbn [andb init s_root].
  unfold set_args. rewrite G. unfold reargs.
  destruct (put_total root np h (set_args_of h a') G) as [t Pt]. rewrite Pt.
  destruct h; try discriminate; rewrite ND; cbn [args_of] in Sel; rewrite Sel; cbn [obind];
    unfold put_o; rewrite Pt; reflexivity.
Qed.

(* ====================================================================== *)
(* the setter of string                                                    *)
(* ====================================================================== *)

Lemma find_set_contents h : is_node h = true ->
  mro_find gen_e_tbl (mro (class_of_expr h)) (M_set A_contents) = Some gen_e_TexExpr_set_contents.
Proof. destruct h as [| | | | |k ? ?|[|] ? ?|]; try discriminate; reflexivity. Qed.
Lemma find_set_string h : is_node h = true ->
  mro_find gen_e_tbl (mro (class_of_expr h)) (M_set A_string) = Some gen_e_TexExpr_set_string.
Proof. destruct h as [| | | | |k ? ?|[|] ? ?|]; try discriminate; reflexivity. Qed.

(* expr.contents = [v], v the str s or a TexText of s *)
Lemma gen_expr_set_contents_one n st r p h v s :
  live st r p h -> is_node h = true -> (v = VStr s \/ v = VExpr (ROut (text_of s))) ->
  exists t, put (s_root st) p (set_body h [text_of s]) = Some t /\
    call (S n) gen_e_tbl (VExpr r) (M_set A_contents) [VList [v]] st
    = ODone (after_body st p t) (RVal VNone).
Proof.
  intros L N Hv.
  destruct (put_total (s_root st) p h (set_body h [text_of s]) (live_get _ _ _ _ L)) as [t Pt].
  exists t. split; [exact Pt|].
  rewrite call_S, (find_meth_live _ _ _ _ _ L), (find_set_contents _ N).
  cbn [m_params m_star m_body gen_e_TexExpr_set_contents bind_params option_map]. ev.
  assert (I1 : forall l, isinstance st (VList l) [CList; CTuple] = Some true) by reflexivity.
  rewrite I1. cls. cbn [iter_vals gen_loop bind_pat set_var]. ev.
  rewrite !Nat.eqb_refl. cbn [negb].
  destruct Hv as [-> | ->].
  - rewrite isinstance_str. cls. rewrite !Nat.eqb_refl. cbn [negb]. ev.
    cbn [first_true truthy Bool.eqb lift_b option_map negb]. ev.
    cbn [iter_vals gen_loop bind_pat set_var]. ev. rewrite !Nat.eqb_refl. cbn [negb truthy].
    rewrite isinstance_str. cls. cbn [new_text]. ev. rewrite !Nat.eqb_refl. cbn [negb]. ev.
    unfold set_attr. rewrite (find_meth_live _ _ _ _ _ L), (no_setter h A_raw I).
    cbn [field_set]. rewrite (live_holder _ _ _ _ L N). cbn [to_items to_item text_of is_texexpr].
    rewrite (set_body_st_eq _ _ _ _ _ Pt). reflexivity.
  - rewrite isinstance_out. cbn [text_of class_of_expr]. cls. rewrite !Nat.eqb_refl. cbn [negb]. ev.
    cbn [first_true truthy Bool.eqb lift_b option_map negb]. ev.
    cbn [iter_vals gen_loop bind_pat set_var]. ev. rewrite !Nat.eqb_refl. cbn [negb truthy].
    rewrite isinstance_out. cbn [text_of class_of_expr]. cls. cbn [new_text text_of ttext]. ev.
    rewrite !Nat.eqb_refl. cbn [negb]. ev.
    unfold set_attr. rewrite (find_meth_live _ _ _ _ _ L), (no_setter h A_raw I).
    cbn [field_set]. rewrite (live_holder _ _ _ _ L N). cbn [to_items to_item text_of is_texexpr].
    rewrite (set_body_st_eq _ _ _ _ _ Pt). reflexivity.
Qed.

(* expr.string = s *)
Lemma gen_expr_set_string_ok n st r p h s :
  live st r p h -> is_node h = true ->
  exists t, put (s_root st) p (set_body h [text_of s]) = Some t /\
    call (S (S n)) gen_e_tbl (VExpr r) (M_set A_string) [VStr s] st
    = ODone (after_body st p t) (RVal VNone).
Proof.
  intros L N.
  destruct (gen_expr_set_contents_one n st r p h (VExpr (ROut (text_of s))) s L N (or_intror eq_refl))
    as [t [Pt C]].
  exists t. split; [exact Pt|].
  rewrite call_S, (find_meth_live _ _ _ _ _ L), (find_set_string _ N).
  cbn [m_params m_star m_body gen_e_TexExpr_set_string bind_params option_map]. ev.
  rewrite isinstance_str. cls. cbn [new_text]. ev.
  unfold set_attr. rewrite (find_meth_live _ _ _ _ _ L), (find_set_contents _ N), C. reflexivity.
Qed.

(* node.contents = [s] *)
Lemma gen_node_set_contents_one n st ks r par p h s :
  node_at st ks = Some (r, par) -> live st r p h -> is_node h = true ->
  exists t, put (s_root st) p (set_body h [text_of s]) = Some t /\
    call (S (S n)) gen_e_tbl (VNode ks) (M_set A_contents) [VList [VStr s]] st
    = ODone (after_body st p t) (RVal VNone).
Proof.
  intros Ns L N.
  destruct (gen_expr_set_contents_one n st r p h (VStr s) s L N (or_introl eq_refl)) as [t [Pt C]].
  exists t. split; [exact Pt|].
  rewrite call_S, (find_meth_node _ _ _ _ Ns).
  cbn [gen_e_tbl m_params m_star m_body gen_e_TexNode_set_contents bind_params option_map]. ev.
  rewrite (ga_node_expr _ _ _ _ _ Ns). ev.
  unfold set_attr. rewrite (find_meth_live _ _ _ _ _ L), (find_set_contents _ N), C. reflexivity.
Qed.

Lemma wrap_items_spec self : forall vs ns,
  length (fst (wrap_items self vs ns)) = length vs /\
  exists extra, snd (wrap_items self vs ns) = ns ++ extra.
Proof.
  induction vs as [|v vs IH]; intros ns.
  - split; [reflexivity|]. exists []. cbn. rewrite app_nil_r. reflexivity.
  - destruct v as [| | | |r| | | | |];
      try (cbn [wrap_items]; destruct (IH ns) as [Hl [ex He]];
           destruct (wrap_items self vs ns) as [ws ns'] eqn:W; cbn [fst snd length] in *;
           split; [rewrite Hl; reflexivity | exists ex; exact He]).
    cbn [wrap_items]. destruct (IH (ns ++ [(r, PNode self)])) as [Hl [ex He]].
    destruct (wrap_items self vs (ns ++ [(r, PNode self)])) as [ws ns'] eqn:W.
    cbn [fst snd length] in *. split; [rewrite Hl; reflexivity|].
    exists ((r, PNode self) :: ex). rewrite He, <- app_assoc. reflexivity.
Qed.

(* list(node.contents): some list of the length of the view, in a state that differs only
   by new wrappers *)
Lemma ga_node_contents cf st ks r par p h :
  node_at st ks = Some (r, par) -> live st r p h -> is_node h = true ->
  exists ws extra,
    get_attr gen_e_tbl cf (VNode ks) A_contents st
    = EV (VList ws) (mkS (s_root st) (s_muts st) (s_nodes st ++ extra)) /\
    (ws, s_nodes st ++ extra) = wrap_items ks (map (view_item st p) (cview h)) (s_nodes st).
Proof.
  intros Ns L N. unfold get_attr. cbn [class_of]. rewrite Ns.
  cbn [class_attr mro mro_find gen_e_tbl field_get]. unfold node_view, expr_view.
  rewrite Ns, (live_holder _ _ _ _ L N).
  destruct (wrap_items_spec ks (map (view_item st p) (cview h)) (s_nodes st)) as [_ [ex He]].
  destruct (wrap_items ks (map (view_item st p) (cview h)) (s_nodes st)) as [ws ns'] eqn:W.
  cbn [snd] in He. subst ns'. exists ws, ex. split; reflexivity.
Qed.

Lemma node_at_more st extra k x :
  node_at st k = Some x -> node_at (mkS (s_root st) (s_muts st) (s_nodes st ++ extra)) k = Some x.
Proof.
  unfold node_at. cbn [s_nodes]. intros H. rewrite nth_error_app1; [exact H|].
  apply (nth_error_lt _ _ _ H).
Qed.
Lemma live_nodes st ns' r p h :
  live st r p h -> live (mkS (s_root st) (s_muts st) ns') r p h.
Proof.
  intros [P D]. destruct r as [q ep|e]; cbn in P, D; [|discriminate].
  split; cbn; unfold fresh in *; cbn [s_muts s_root]; assumption.
Qed.

(* node.string = s on a command *)
Theorem gen_set_string_cmd_ok n root ns ks pars np nm a b q s :
  node_at (init root ns) ks = Some (RIn np 0, pars) -> get root np = Some (ECmd nm a b q) ->
  (forall a0, a = [a0] -> is_node a0 = true) ->
  view (call (S (S (S (S n)))) gen_e_tbl (VNode ks) (M_set A_string) [VStr s] (init root ns))
  = of_tree root (set_string root np s).
Proof.
  intros Ns G Ha. set (st := init root ns) in *.
  pose proof (live_init root ns _ _ G) as L. fold st in L.
  unfold set_string. rewrite G. cbn [restring].
  rewrite call_S, (find_meth_node _ _ _ _ Ns).
  cbn [gen_e_tbl m_params m_star m_body gen_e_TexNode_set_string bind_params option_map]. ev.
  rewrite (ga_node_expr _ _ _ _ _ Ns). ev. rewrite (isinstance_live _ _ _ _ _ L). cls.
  rewrite (ga_node_expr _ _ _ _ _ Ns). ev. rewrite (ga_args _ _ _ _ _ L eq_refl). ev.
  cbn [iter_vals]. rewrite (args_vals_live _ _ _ _ L eq_refl). cbn [option_map args_of]. ev.
  unfold idx_vals. rewrite map_length, seq_length. cbn [py_eq]. ev.
  destruct a as [|a0 [|a1 a]]; cbn [length]; try reflexivity.
  2:{ replace (Z.of_nat (S (S (length a))) =? 1) with false; [reflexivity|].
      symmetry. apply Z.eqb_neq. lia. }
  change (Z.of_nat 1 =? 1) with true. ev.
  rewrite (ga_node_expr _ _ _ _ _ Ns). ev. rewrite (ga_args _ _ _ _ _ L eq_refl). ev.
  cbn [iter_vals]. rewrite (args_vals_live _ _ _ _ L eq_refl). cbn [args_of length idx_vals seq map].
  cbn [py_nth length]. change (py_nth [VExpr (RIn (np ++ [SArg 0]) (epoch st))] 0)
    with (Some (VExpr (RIn (np ++ [SArg 0]) (epoch st)))).
  ev.
  (* args[0].string = s *)
  assert (La : live st (RIn (np ++ [SArg 0]) (epoch st)) (np ++ [SArg 0]) a0).
  { split; [apply path_item | rewrite (deref_arg _ _ _ _ _ L); reflexivity]. }
  pose proof (Ha a0 eq_refl) as Na.
  destruct (gen_expr_set_string_ok (S n) st _ _ a0 s La Na) as [t [Pt C]].
  unfold set_attr. rewrite (find_meth_live _ _ _ _ _ La), (find_set_string _ Na), C. ev. cls.
  (* contents = list(self.contents): evaluated, not used *)
  set (st1 := after_body st (np ++ [SArg 0]) t) in *.
  assert (Ns1 : node_at st1 ks = Some (RIn np 0, pars)) by exact Ns.
  assert (Pt' : put root np (ECmd nm [set_body a0 [text_of s]] b q) = Some t).
  { rewrite <- Pt. symmetry. apply (put_app root np [SArg 0] (ECmd nm [a0] b q)); [exact G | reflexivity]. }
  assert (F1 : fresh st1 np 0 = true).
  { unfold fresh, st1. cbn. rewrite andb_true_r. apply negb_true_iff.
    clear. induction np as [|x np IH]; [reflexivity|]. cbn.
    rewrite (proj2 (step_eqb_eq x x) eq_refl). exact IH. }
  assert (L1' : live st1 (RIn np 0) np (ECmd nm [set_body a0 [text_of s]] b q)).
  { split; cbn [path_of deref]; rewrite F1; [reflexivity|].
    apply (get_put_same np root _ _ t G Pt'). }
  destruct (ga_node_contents (call (S (S (S n))) gen_e_tbl) st1 ks _ pars np _ Ns1 L1' eq_refl)
    as [ws [extra [Hc _]]].
  rewrite Hc. ev. cbn [iter_vals option_map]. ev.
  set (st2 := mkS (s_root st1) (s_muts st1) (s_nodes st1 ++ extra)) in *.
  rewrite (ga_node_expr _ st2 ks _ pars (node_at_more st1 extra ks _ Ns1)). ev.
  rewrite (isinstance_live st2 _ _ _ _ (live_nodes st1 _ _ _ _ L1')). cbn [existsb class_of_expr].
  change (isinstance1 KCmd CTexEnv || false) with false. ev.
  cbn [obind]. unfold put_o. rewrite Pt'. reflexivity.
Qed.

Lemma py_nth_0 {A} (x : A) l : py_nth (x :: l) 0 = Some x.
Proof. reflexivity. Qed.

Lemma env_not_cmd h : is_env h = true -> existsb (isinstance1 (class_of_expr h)) [CTexCmd] = false.
Proof. destruct h as [| | | | |k ? ?|[|] ? ?|]; try discriminate; reflexivity. Qed.
Lemma env_is_env h : is_env h = true -> existsb (isinstance1 (class_of_expr h)) [CTexEnv] = true.
Proof. destruct h as [| | | | |k ? ?|[|] ? ?|]; try discriminate; reflexivity. Qed.
Lemma env_is_node h : is_env h = true -> is_node h = true.
Proof. destruct h; try discriminate; reflexivity. Qed.

(* node.string = s on an environment (or the root) *)
Theorem gen_set_string_env_ok n root ns ks pars np h s :
  node_at (init root ns) ks = Some (RIn np 0, pars) -> get root np = Some h -> is_env h = true ->
  view (call (S (S (S (S n)))) gen_e_tbl (VNode ks) (M_set A_string) [VStr s] (init root ns))
  = of_tree root (set_string root np s).
Proof.
  intros Ns G E. set (st := init root ns) in *.
  pose proof (live_init root ns _ _ G) as L. fold st in L. pose proof (env_is_node _ E) as N.
  assert (Hhand : set_string root np s =
                  match cview h with
                  | [(_, x)] => if is_node x then Raise EAssertionError
                                else obind (Done (set_body h [text_of s])) (fun h' => put_o root np h')
                  | _ => Raise EAssertionError
                  end).
  { unfold set_string. rewrite G. destruct h; try discriminate; cbn [restring];
      match goal with |- context [cview ?e] => destruct (cview e) as [|[q x] [|y l]]; try reflexivity;
        destruct (is_node x); reflexivity end. }
  rewrite Hhand. clear Hhand.
  rewrite call_S, (find_meth_node _ _ _ _ Ns).
  cbn [gen_e_tbl m_params m_star m_body gen_e_TexNode_set_string bind_params option_map]. ev.
  rewrite (ga_node_expr _ _ _ _ _ Ns). ev. rewrite (isinstance_live _ _ _ _ _ L), (env_not_cmd _ E). ev.
  destruct (ga_node_contents (call (S (S (S n))) gen_e_tbl) st ks _ pars np h Ns L N)
    as [ws [extra [Hc Hw]]].
  rewrite Hc. ev. cbn [iter_vals option_map]. ev.
  set (st2 := mkS (s_root st) (s_muts st) (s_nodes st ++ extra)) in *.
  pose proof (node_at_more st extra ks _ Ns) as Ns2. fold st2 in Ns2.
  pose proof (live_nodes st (s_nodes st ++ extra) _ _ _ L) as L2. fold st2 in L2.
  rewrite (ga_node_expr _ st2 ks _ pars Ns2). ev.
  rewrite (isinstance_live st2 _ _ _ _ L2), (env_is_env _ E). ev. cbn [iter_vals option_map]. ev.
  pose proof (wrap_items_spec ks (map (view_item st np) (cview h)) (s_nodes st)) as [Hlen _].
  rewrite <- Hw in Hlen. cbn [fst] in Hlen. rewrite map_length in Hlen. rewrite Hlen. cbn [py_eq].
  destruct (cview h) as [|[q x] [|y l]] eqn:CV; cbn [length].
  - reflexivity.
  - change (Z.of_nat 1 =? 1) with true. ev. cbn [iter_vals].
    cbn [map] in Hw.
    assert (Hroot : s_root st2 = root) by reflexivity.
    destruct x as [t|sx px|sx|nx ax bx px|nx ax bx px|kx bx px|kx bx px|bx];
      cbn [view_item snd fst wrap_items is_node] in Hw |- *; injection Hw as Hw1 Hw2; subst ws.
    1-3: (rewrite py_nth_0; ev; rewrite isinstance_str; cls;
          destruct (gen_node_set_contents_one (S n) st2 ks _ pars np h s Ns2 L2 N) as [t' [Pt C]];
          unfold set_attr; rewrite (find_meth_node _ _ _ _ Ns2); cbn [gen_e_tbl]; rewrite C;
          cbn [obind]; unfold put_o; rewrite Hroot in Pt; rewrite Pt; reflexivity).
    all: (rewrite py_nth_0; ev;
          match goal with
          | H : ?aa ++ ?bb = ?aa ++ [?e] |- _ =>
            assert (Nk : node_at st2 (length aa) = Some e)
              by (unfold node_at, st2; cbn [s_nodes]; change (s_nodes st) with aa;
                  rewrite H, nth_error_app2, Nat.sub_diag by lia; reflexivity)
          end;
          rewrite (isinstance_node _ _ _ _ Nk); cls; reflexivity).
  - replace (Z.of_nat (S (S (length l))) =? 1) with false; [reflexivity|].
    symmetry. apply Z.eqb_neq. lia.
Qed.

(* ====================================================================== *)
(* fixed call depth; the situations the Props files talk about             *)
(* ====================================================================== *)

(* eight nested calls are enough for every editing method (the deepest chain is
   replace_with -> replace -> TexExpr.insert -> _assert_supports_contents ->
   _supports_contents); only str() needs a depth that grows with the tree *)
Definition run_depth : nat := 8.
Definition run (recv : value) (m : mname) (args : list value) (st : state) : gres :=
  view (call run_depth gen_e_tbl recv m args st).
(* str(root) of a tree t, interpreted with the translated __str__ family *)
Definition run_str (t : Tree.expr) : gres :=
  view (call (sdepth t) gen_e_tbl (at_ []) M_str [] (init t [])).

(* `node` reached from `parent` (node.parent = parent): wrapper 0 is the node, wrapper 1
   its parent; ms: the wrappers of the material *)
Definition target_store (tp pp : path) (ms : list (ref * pstate)) : list (ref * pstate) :=
  (RIn tp 0, PNode 1) :: (RIn pp 0, PUnknown) :: ms.
(* a node on its own: wrapper 0 *)
Definition node_store (np : path) (ms : list (ref * pstate)) : list (ref * pstate) :=
  (RIn np 0, PUnknown) :: ms.
(* expression-level calls: only the wrappers of the material *)

Lemma view_body_outcome root ns p h o :
  get root p = Some h ->
  view (body_outcome (init root ns) p o) = of_tree root (obind o (fun h' => put_o root p h')) \/
  (exists e a, o = Partial e a) \/ o = Raise EBadCase.
Proof.
  intros G. destruct o as [h'|e|e a]; [|destruct e|]; try (left; reflexivity).
  - left. cbn [body_outcome obind init s_root]. unfold put_o.
    destruct (put_total root p h h' G) as [t Pt]. rewrite Pt. reflexivity.
  - right. right. reflexivity.
  - right. left. eauto.
Qed.

(* ---- expression level *)
Lemma run_expr_append root ns p h vals new :
  get root p = Some h -> is_node h = true -> mat_items (init root ns) vals = Some new ->
  run (at_ p) M_append vals (init root ns)
  = of_tree root (obind (expr_append h new) (fun h' => put_o root p h')).
Proof.
  intros G N M. unfold run, run_depth, at_.
  rewrite (gen_expr_append_ok 5 _ _ _ _ _ _ (live_init root ns _ _ G) N M).
  destruct (view_body_outcome root ns p h (expr_append h new) G) as [H|[[e [a H]]|H]]; [exact H| |];
    unfold expr_append in H; destruct (negb (supports h)); discriminate.
Qed.

Lemma run_expr_insert root ns p h i vals new :
  get root p = Some h -> is_node h = true -> mat_items (init root ns) vals = Some new ->
  run (at_ p) M_insert (VInt i :: vals) (init root ns)
  = of_tree root (obind (expr_insert h i new) (fun h' => put_o root p h')).
Proof.
  intros G N M. unfold run, run_depth, at_.
  pose proof (gen_expr_insert_ok 5 _ _ _ _ i _ _ (live_init root ns _ _ G) N M) as R.
  destruct (expr_insert h i new) as [h'|e|e a]; [| |contradiction].
  - destruct R as [st' [-> [Hp _]]]. cbn [obind view]. unfold put_o. cbn [init s_root] in Hp.
    rewrite Hp. reflexivity.
  - destruct R as [-> ->]. reflexivity.
Qed.

(* holder.remove(x), x the object at (thp, ti): returns the index *)
Lemma run_expr_remove root ns p h thp ti x :
  get root p = Some h -> is_node h = true -> get root (thp ++ [SBody ti]) = Some x ->
  is_texexpr x = true -> (p = thp \/ is_node x = true) ->
  run (at_ p) M_remove [at_ (thp ++ [SBody ti])] (init root ns)
  = of_hand root (fun kh => match put root p (snd kh) with Some t => t | None => root end)
            (fun kh => VInt (Z.of_nat (fst kh))) (expr_remove eq_expr_item p h thp ti x).
Proof.
  intros G N Gx T Hx. unfold run, run_depth, at_.
  pose proof (gen_expr_remove_obj 5 _ _ _ _ _ _ _ _ (live_init root ns _ _ G) N
                                  (live_init root ns _ _ Gx) T Hx) as R.
  destruct (expr_remove eq_expr_item p h thp ti x) as [kh|e|e a]; cbn [remove_rel] in R;
    [| |contradiction].
  - destruct R as [t [Pt ->]]. cbn [init s_root] in Pt. cbn [of_hand view after_body s_root].
    rewrite Pt. reflexivity.
  - destruct R as [y [Hy ->]]. cbn [of_hand view]. rewrite Hy. reflexivity.
Qed.

(* ---- node level *)
Lemma run_delete root ms pp thp ti P x :
  get root pp = Some P -> get root (thp ++ [SBody ti]) = Some x ->
  is_node P = true -> forallb is_node (args_of P) = true -> is_texexpr x = true ->
  (existsb (holds_object thp) (holders pp P) = true \/ is_node x = true) ->
  run (VNode 0) M_delete [] (init root (target_store (thp ++ [SBody ti]) pp ms))
  = of_tree root (delete_via root pp thp ti).
Proof. intros. apply (gen_node_delete_ok 3 root _ 0 1 PUnknown pp thp ti P x); try assumption; reflexivity. Qed.

Lemma run_remove root ms pp thp ti P x :
  get root pp = Some P -> get root (thp ++ [SBody ti]) = Some x ->
  is_node P = true -> is_texexpr x = true -> (pp = thp \/ is_node x = true) ->
  run (VNode 1) M_remove [VNode 0] (init root (target_store (thp ++ [SBody ti]) pp ms))
  = of_tree root (remove_via root pp thp ti).
Proof. intros. apply (gen_node_remove_ok 4 root _ 1 PUnknown pp P 0 (PNode 1) thp ti x); try assumption; reflexivity. Qed.

Lemma run_replace root ms pp thp ti P x vals new :
  get root pp = Some P -> get root (thp ++ [SBody ti]) = Some x ->
  is_node P = true -> forallb is_node (args_of P) = true -> is_texexpr x = true ->
  (existsb (holds_object thp) (holders pp P) = true \/ is_node x = true) ->
  mat_items (init root (target_store (thp ++ [SBody ti]) pp ms)) vals = Some new ->
  run (VNode 1) M_replace (VNode 0 :: vals) (init root (target_store (thp ++ [SBody ti]) pp ms))
  = of_tree root (replace_via root pp thp ti new).
Proof.
  intros. apply (gen_node_replace_ok 4 root _ 1 PUnknown 0 (PNode 1) pp thp ti P x vals new);
    try assumption; reflexivity.
Qed.

Lemma run_replace_with root ms pp thp ti P x vals new :
  get root pp = Some P -> get root (thp ++ [SBody ti]) = Some x ->
  is_node P = true -> forallb is_node (args_of P) = true -> is_texexpr x = true ->
  (existsb (holds_object thp) (holders pp P) = true \/ is_node x = true) ->
  mat_items (init root (target_store (thp ++ [SBody ti]) pp ms)) vals = Some new ->
  run (VNode 0) M_replace_with vals (init root (target_store (thp ++ [SBody ti]) pp ms))
  = of_tree root (replace_via root pp thp ti new).
Proof.
  intros. apply (gen_node_replace_with_ok 3 root _ 0 1 PUnknown pp thp ti P x vals new);
    try assumption; reflexivity.
Qed.

Lemma run_insert root ms np h i vals new :
  get root np = Some h -> is_node h = true ->
  mats_fresh (init root (node_store np ms)) vals ->
  mat_items (init root (node_store np ms)) vals = Some new ->
  run (VNode 0) M_insert (VInt i :: vals) (init root (node_store np ms))
  = of_tree root (insert root np i new).
Proof. intros. apply (gen_node_insert_ok 4 root _ 0 PUnknown np h i vals new); try assumption; reflexivity. Qed.

Lemma run_append root ms np h vals new :
  get root np = Some h -> is_node h = true ->
  mat_items (init root (node_store np ms)) vals = Some new ->
  run (VNode 0) M_append vals (init root (node_store np ms))
  = of_tree root (append root np new).
Proof. intros. apply (gen_node_append_ok 4 root _ 0 PUnknown np h vals new); try assumption; reflexivity. Qed.

(* node.copy(): wrapper |store| is new, wraps the SAME expression (Edit.copy e = e), has no
   parent; the tree is untouched *)
Lemma run_copy root ms np x :
  get root np = Some x -> is_texexpr x = true ->
  call run_depth gen_e_tbl (VNode 0) M_copy [] (init root (node_store np ms))
  = ODone (mkS root [] (node_store np ms ++ [(RIn np 0, PNone)]))
          (RVal (VNode (length (node_store np ms)))).
Proof.
  intros G T. apply (gen_node_copy_ok 7 (init root (node_store np ms)) 0 (RIn np 0) PUnknown x eq_refl);
    [exact G | exact T].
Qed.

(* ---- serialisation *)
Lemma run_str_ok t : is_texexpr t = true -> run_str t = GDone t (VStr (estr t)).
Proof.
  intros T. unfold run_str, at_.
  rewrite (gen_str_ok t (sdepth t) (init t []) (RIn [] 0) [] (live_init t [] [] t eq_refl) T (le_n _)).
  reflexivity.
Qed.

(* ---- setters *)
Lemma run_set_name root ms np h s :
  get root np = Some h ->
  match h with ECmd _ _ _ _ | ENamed _ _ _ _ => True | _ => False end ->
  run (VNode 0) (M_set A_name) [VStr s] (init root (node_store np ms)) = of_tree root (set_name root np s).
Proof. intros. apply (gen_set_name_ok 7 root _ 0 PUnknown np h s); try assumption; reflexivity. Qed.

Lemma run_set_args root ms np h idxs a' :
  get root np = Some h -> has_args h = true -> nodup_nat idxs = true ->
  select (args_of h) idxs = Some a' ->
  run (VNode 0) (M_set A_args) [VNewArgs (map (fun i => at_ (np ++ [SArg i])) idxs)]
      (init root (node_store np ms))
  = of_tree root (set_args root np idxs).
Proof. intros. apply (gen_set_args_ok 7 root _ 0 PUnknown np h idxs a'); try assumption; reflexivity. Qed.

Lemma run_set_string_cmd root ms np nm a b q s :
  get root np = Some (ECmd nm a b q) -> (forall a0, a = [a0] -> is_node a0 = true) ->
  run (VNode 0) (M_set A_string) [VStr s] (init root (node_store np ms))
  = of_tree root (set_string root np s).
Proof. intros. apply (gen_set_string_cmd_ok 4 root _ 0 PUnknown np nm a b q s); try assumption; reflexivity. Qed.

Lemma run_set_string_env root ms np h s :
  get root np = Some h -> is_env h = true ->
  run (VNode 0) (M_set A_string) [VStr s] (init root (node_store np ms))
  = of_tree root (set_string root np s).
Proof. intros. apply (gen_set_string_env_ok 4 root _ 0 PUnknown np h s); try assumption; reflexivity. Qed.

(* ====================================================================== *)
(* the main C05 / C14 theorems, of the translated source                   *)
(* ====================================================================== *)

Lemma found_holder root hp h i x pp P :
  get root hp = Some h -> nth_error (body_of h) i = Some x ->
  find (holds_object hp) (holders pp P) = Some (hp, h) ->
  is_node P = true /\ existsb (holds_object hp) (holders pp P) = true.
Proof.
  intros G X F. pose proof (find_some _ _ F) as [Hin Hh]. split.
  - unfold holders in Hin. apply in_app_or in Hin. destruct Hin as [Hin|[Hin|[]]].
    + destruct P; try reflexivity; cbn [args_of number_args] in Hin; contradiction.
    + inversion Hin; subst. apply (child_is_node h (SBody i) x X).
  - apply existsb_exists. exists (hp, h). split; assumption.
Qed.

(* node.delete() *)
Theorem gen_C05_delete root ms hp i h x P :
  get root hp = Some h -> nth_error (body_of h) i = Some x -> arg_depth_ok hp = true ->
  get root (nav_parent hp) = Some P -> forallb is_node (args_of P) = true -> is_texexpr x = true ->
  exists root',
    run (VNode 0) M_delete [] (init root (target_store (hp ++ [SBody i]) (nav_parent hp) ms))
    = GDone root' VNone /\
    splice_at root hp i 1 [] = Some root' /\
    estr root  = span_pre root hp ++ estr_list (firstn i (body_of h)) ++ estr x
                   ++ estr_list (skipn (S i) (body_of h)) ++ span_post root hp /\
    estr root' = span_pre root hp ++ estr_list (firstn i (body_of h))
                   ++ estr_list (skipn (S i) (body_of h)) ++ span_post root hp.
Proof.
  intros G X D GP FA T.
  destruct (find_nav root hp h G D) as [P' [GP' F]]. rewrite GP in GP'. inversion GP'; subst P'.
  destruct (found_holder root hp h i x _ P G X F) as [NP EX].
  destruct (C05_delete_local root hp i h x G X D) as [r [Hd [Hs [E1 E2]]]].
  exists r. split; [|auto].
  rewrite (run_delete root ms (nav_parent hp) hp i P x GP (get_item _ _ _ _ _ G X) NP FA T (or_introl EX)).
  unfold delete in Hd. rewrite Hd. reflexivity.
Qed.

(* parent.remove(node) *)
Theorem gen_C05_remove root ms hp i h x :
  get root hp = Some h -> nth_error (body_of h) i = Some x -> ends_in_arg hp = false ->
  is_texexpr x = true ->
  exists root',
    run (VNode 1) M_remove [VNode 0] (init root (target_store (hp ++ [SBody i]) hp ms))
    = GDone root' VNone /\
    splice_at root hp i 1 [] = Some root' /\
    estr root' = span_pre root hp ++ estr_list (firstn i (body_of h))
                   ++ estr_list (skipn (S i) (body_of h)) ++ span_post root hp.
Proof.
  intros G X E T.
  destruct (C05_remove_local root hp i h x G X E) as [r [Hd [Hs [_ E2]]]].
  exists r. split; [|auto].
  rewrite (run_remove root ms hp hp i h x G (get_item _ _ _ _ _ G X)
                      (child_is_node h (SBody i) x X) T (or_introl eq_refl)).
  unfold remove in Hd. rewrite (nav_parent_noarg hp E) in Hd. rewrite Hd. reflexivity.
Qed.

(* node.replace_with( *mats) *)
Theorem gen_C05_replace_with root ms hp i h x P vals new :
  get root hp = Some h -> nth_error (body_of h) i = Some x ->
  supports (set_body h (splice i 1 [] (body_of h))) = true -> arg_depth_ok hp = true ->
  get root (nav_parent hp) = Some P -> forallb is_node (args_of P) = true -> is_texexpr x = true ->
  mat_items (init root (target_store (hp ++ [SBody i]) (nav_parent hp) ms)) vals = Some new ->
  exists root',
    run (VNode 0) M_replace_with vals (init root (target_store (hp ++ [SBody i]) (nav_parent hp) ms))
    = GDone root' VNone /\
    splice_at root hp i 1 new = Some root' /\
    estr root' = span_pre root hp ++ estr_list (firstn i (body_of h)) ++ estr_list new
                   ++ estr_list (skipn (S i) (body_of h)) ++ span_post root hp.
Proof.
  intros G X Sp D GP FA T M.
  destruct (find_nav root hp h G D) as [P' [GP' F]]. rewrite GP in GP'. inversion GP'; subst P'.
  destruct (found_holder root hp h i x _ P G X F) as [NP EX].
  destruct (C05_replace_with_local root hp i h x new G X Sp D) as [r [Hd [Hs [_ E2]]]].
  exists r. split; [|auto].
  rewrite (run_replace_with root ms (nav_parent hp) hp i P x vals new GP (get_item _ _ _ _ _ G X)
                            NP FA T (or_introl EX) M).
  unfold replace_with in Hd. rewrite Hd. reflexivity.
Qed.

(* parent.replace(child, *mats) *)
Theorem gen_C05_replace root ms pp hp i P h x vals new :
  get root pp = Some P -> (hp = pp \/ exists j, hp = pp ++ [SArg j]) ->
  get root hp = Some h -> nth_error (body_of h) i = Some x ->
  supports (set_body h (splice i 1 [] (body_of h))) = true ->
  forallb is_node (args_of P) = true -> is_texexpr x = true ->
  mat_items (init root (target_store (hp ++ [SBody i]) pp ms)) vals = Some new ->
  exists root',
    run (VNode 1) M_replace (VNode 0 :: vals) (init root (target_store (hp ++ [SBody i]) pp ms))
    = GDone root' VNone /\
    splice_at root hp i 1 new = Some root' /\
    estr root' = span_pre root hp ++ estr_list (firstn i (body_of h)) ++ estr_list new
                   ++ estr_list (skipn (S i) (body_of h)) ++ span_post root hp.
Proof.
  intros GP Hp G X Sp FA T M.
  assert (F : find (holds_object hp) (holders pp P) = Some (hp, h)).
  { destruct Hp as [->|[j ->]].
    - rewrite GP in G. inversion G; subst. apply find_holders_self.
    - pose proof G as G'. rewrite get_app, GP in G'. cbn in G'.
      destruct (nth_error (args_of P) j) as [a|] eqn:A; [|discriminate]. inversion G'; subst.
      apply find_holders_arg. exact A. }
  destruct (found_holder root hp h i x _ P G X F) as [NP EX].
  destruct (C05_replace_local root pp hp i P h x new GP Hp G X Sp) as [r [Hd [Hs [_ E2]]]].
  exists r. split; [|auto].
  rewrite (run_replace root ms pp hp i P x vals new GP (get_item _ _ _ _ _ G X) NP FA T (or_introl EX) M).
  rewrite Hd. reflexivity.
Qed.

(* node.insert(i, *mats), 0 <= i <= len *)
Theorem gen_C05_insert root ms np i h vals new :
  get root np = Some h -> is_node h = true -> supports h = true -> (i <= length (body_of h))%nat ->
  mats_fresh (init root (node_store np ms)) vals ->
  mat_items (init root (node_store np ms)) vals = Some new ->
  exists root',
    run (VNode 0) M_insert (VInt (Z.of_nat i) :: vals) (init root (node_store np ms)) = GDone root' VNone /\
    splice_at root np i 0 new = Some root' /\
    estr root' = span_pre root np ++ estr_list (firstn i (body_of h)) ++ estr_list new
                   ++ estr_list (skipn i (body_of h)) ++ span_post root np.
Proof.
  intros G N Sp Hi F M.
  destruct (C05_insert_local root np i h new G N Sp Hi) as [r [Hd [Hs [_ E2]]]].
  exists r. split; [|auto].
  rewrite (run_insert root ms np h (Z.of_nat i) vals new G N F M), Hd. reflexivity.
Qed.

(* node.append( *mats) *)
Theorem gen_C05_append root ms np h vals new :
  get root np = Some h -> is_node h = true -> supports h = true ->
  mat_items (init root (node_store np ms)) vals = Some new ->
  exists root',
    run (VNode 0) M_append vals (init root (node_store np ms)) = GDone root' VNone /\
    splice_at root np (length (body_of h)) 0 new = Some root' /\
    estr root' = span_pre root np ++ estr_list (body_of h) ++ estr_list new ++ span_post root np.
Proof.
  intros G N Sp M.
  destruct (C05_append_local root np h new G N Sp) as [r [Hd [Hs [_ E2]]]].
  exists r. split; [|auto].
  rewrite (run_append root ms np h vals new G N M), Hd. reflexivity.
Qed.

(* ---- C14 *)
Theorem gen_C14_rename_cmd root ms np nm a b p s :
  get root np = Some (ECmd nm a b p) ->
  exists root',
    run (VNode 0) (M_set A_name) [VStr s] (init root (node_store np ms)) = GDone root' VNone /\
    estr root' = ctx_pre root np ++ (backslash :: s ++ estr_list a ++ estr_list b) ++ ctx_post root np.
Proof.
  intros G. destruct (rename_cmd_local root np nm a b p s G) as [r [Hd [_ E2]]].
  exists r. split; [|exact E2]. rewrite (run_set_name root ms np _ s G I), Hd. reflexivity.
Qed.
Theorem gen_C14_rename_env root ms np nm a b p s :
  get root np = Some (ENamed nm a b p) ->
  exists root',
    run (VNode 0) (M_set A_name) [VStr s] (init root (node_store np ms)) = GDone root' VNone /\
    estr root' = ctx_pre root np ++ (env_begin s ++ estr_list a ++ estr_list b ++ env_end s)
                   ++ ctx_post root np.
Proof.
  intros G. destruct (rename_env_local root np nm a b p s G) as [r [Hd [_ E2]]].
  exists r. split; [|exact E2]. rewrite (run_set_name root ms np _ s G I), Hd. reflexivity.
Qed.
Theorem gen_C14_set_string_cmd root ms np nm a0 b p s :
  get root np = Some (ECmd nm [a0] b p) -> is_node a0 = true ->
  exists root',
    run (VNode 0) (M_set A_string) [VStr s] (init root (node_store np ms)) = GDone root' VNone /\
    estr root' = span_pre root (np ++ [SArg 0]) ++ s ++ span_post root (np ++ [SArg 0]).
Proof.
  intros G Na. destruct (set_string_cmd_local root np nm a0 b p s G Na) as [r [Hd [_ E2]]].
  exists r. split; [|exact E2].
  rewrite (run_set_string_cmd root ms np nm [a0] b p s G), Hd; [reflexivity|].
  intros a1 H. inversion H; subst. exact Na.
Qed.
Theorem gen_C14_set_string_env root ms np h q x s :
  get root np = Some h -> is_env h = true -> cview h = [(q, x)] -> is_node x = false ->
  exists root',
    run (VNode 0) (M_set A_string) [VStr s] (init root (node_store np ms)) = GDone root' VNone /\
    estr root' = span_pre root np ++ s ++ span_post root np.
Proof.
  intros G E CV Nx. destruct (set_string_env_local root np h q x s G E CV Nx) as [r [Hd [_ E2]]].
  exists r. split; [|exact E2]. rewrite (run_set_string_env root ms np h s G E), Hd. reflexivity.
Qed.
Theorem gen_C14_set_args root ms np h idxs a' :
  get root np = Some h -> has_args h = true -> nodup_nat idxs = true ->
  select (args_of h) idxs = Some a' ->
  exists root',
    run (VNode 0) (M_set A_args) [VNewArgs (map (fun i => at_ (np ++ [SArg i])) idxs)]
        (init root (node_store np ms)) = GDone root' VNone /\
    estr root' = ctx_pre root np
                   ++ (head_of h ++ estr_list a' ++ estr_list (body_of h) ++ close_of h)
                   ++ ctx_post root np.
Proof.
  intros G HA ND Sel. destruct (set_args_local root np h idxs a' G HA ND Sel) as [r [Hd [_ E2]]].
  exists r. split; [|exact E2]. rewrite (run_set_args root ms np h idxs a' G HA ND Sel), Hd. reflexivity.
Qed.

(* ====================================================================== *)
(* examples: the hypotheses are satisfiable, the interpreter computes      *)
(* ====================================================================== *)

Definition gstr (g : gres) : option (option exn * str) :=
  match g with
  | GDone t _ => Some (None, estr t)
  | GExc e t => Some (Some e, estr t)
  | _ => None
  end.

(* \b inside the argument group of \a in  \a{\b}\c : found by identity in the group *)
Example ex_delete_in_argument :
  let root := parsed doc_arg in
  let hp := [SBody 0; SArg 0]%nat in
  (exists h x P, get root hp = Some h /\ nth_error (body_of h) 0 = Some x /\ arg_depth_ok hp = true /\
                 get root (nav_parent hp) = Some P /\ forallb is_node (args_of P) = true /\
                 is_texexpr x = true) /\
  run (VNode 0) M_delete [] (init root (target_store (hp ++ [SBody 0%nat]) (nav_parent hp) []))
  = of_tree root (delete root hp 0) /\
  gstr (run (VNode 0) M_delete [] (init root (target_store (hp ++ [SBody 0%nat]) (nav_parent hp) [])))
  = Some (None, [92; 97; 123; 125; 92; 99]%N).
Proof. vm_compute. split; [do 3 eexists; repeat split; reflexivity | split; reflexivity]. Qed.

(* the second of two textual twins in  \a{x} mid \a{x} end *)
Example ex_delete_second_twin :
  let root := parsed doc_twins in
  gstr (run (VNode 0) M_delete [] (init root (target_store [SBody 2%nat] [] []))) = Some (None, s_twins_deleted).
Proof. vm_compute. reflexivity. Qed.

(* an ill-targeted call that reaches the textual fall-back: env.remove(node) for the \b in
   the ARGUMENT of  \begin{e}{\b}\b\end{e}  removes the twin in the body *)
Definition doc_envtwin : str :=
  [92; 98; 101; 103; 105; 110; 123; 101; 125; 123; 92; 98; 125; 92; 98; 92; 101; 110; 100; 123; 101; 125]%N.
Example ex_remove_textual_fallback :
  let root := parsed doc_envtwin in
  let pp := [SBody 0]%nat in let thp := [SBody 0; SArg 0]%nat in
  (exists P x, get root pp = Some P /\ get root (thp ++ [SBody 0%nat]) = Some x /\ is_node P = true /\
               is_node x = true /\ pp <> thp) /\
  run (VNode 1) M_remove [VNode 0] (init root (target_store (thp ++ [SBody 0%nat]) pp []))
  = of_tree root (remove_via root pp thp 0) /\
  gstr (run (VNode 1) M_remove [VNode 0] (init root (target_store (thp ++ [SBody 0%nat]) pp [])))
  = Some (None, [92; 98; 101; 103; 105; 110; 123; 101; 125; 123; 92; 98; 125; 92; 101; 110; 100; 123; 101; 125]%N).
Proof.
  vm_compute. split; [do 2 eexists; repeat split; try reflexivity; discriminate | split; reflexivity].
Qed.

(* material: the str 'S' and a wrapper (entry 1 of the store) of a fresh \n *)
Definition ex_new_cmd : Tree.expr := ECmd [110]%N [] [] (-1).
Example ex_insert_material :
  let root := parsed doc_arg in
  let ms := [(ROut ex_new_cmd, PNone)] in
  let vals := [VStr s_S; VNode 1] in
  mats_fresh (init root (node_store [] ms)) vals /\
  mat_items (init root (node_store [] ms)) vals = Some [EStr s_S; ex_new_cmd] /\
  run (VNode 0) M_insert (VInt 1 :: vals) (init root (node_store [] ms))
  = of_tree root (insert root [] 1 [EStr s_S; ex_new_cmd]) /\
  gstr (run (VNode 0) M_insert (VInt 1 :: vals) (init root (node_store [] ms)))
  = Some (None, [92; 97; 123; 92; 98; 125; 83; 92; 110; 92; 99]%N).
Proof.
  vm_compute. split; [|repeat split; reflexivity].
  split; [exact I|]. split; [|exact I]. split; [eexists; split; reflexivity|]. intros [].
Qed.

(* Edit.Partial: replacing the only content of a command that is not \item removes it and
   then raises TypeError; the removal stays *)
Example ex_replace_partial :
  let root := ERoot [ECmd [102; 111; 111]%N [] [ECmd [99]%N [] [] 1] 0] in
  replace_with root [SBody 0%nat] 0 [EStr s_S] = Partial ETypeError (ERoot [ECmd [102; 111; 111]%N [] [] 0]) /\
  run (VNode 0) M_replace_with [VStr s_S] (init root (target_store [SBody 0; SBody 0]%nat [SBody 0]%nat []))
  = GExc TypeError (ERoot [ECmd [102; 111; 111]%N [] [] 0]).
Proof. vm_compute. split; reflexivity. Qed.

Example ex_str :
  run_str (parsed doc_env) = GDone (parsed doc_env) (VStr doc_env) /\
  run_str (parsed doc_args) = GDone (parsed doc_args) (VStr doc_args) /\
  run_str (parsed doc_item) = GDone (parsed doc_item) (VStr doc_item).
Proof. vm_compute. repeat split; reflexivity. Qed.

Example ex_setters :
  gstr (run (VNode 0) (M_set A_name) [VStr s_ren] (init (parsed doc_env) (node_store [SBody 0%nat] [])))
  = Some (None, s_renamed_env) /\
  gstr (run (VNode 0) (M_set A_string) [VStr s_new] (init (parsed doc_env) (node_store [SBody 1%nat] [])))
  = Some (None, s_cmd_string) /\
  gstr (run (VNode 0) (M_set A_args) [VNewArgs (map (fun i => at_ ([SBody 0%nat] ++ [SArg i])) [2; 0]%nat)]
            (init (parsed doc_args) (node_store [SBody 0%nat] [])))
  = Some (None, s_args_sel) /\
  (* an environment whose only text sits in its argument: the text stays (C14's refuted clause) *)
  gstr (run (VNode 0) (M_set A_string) [VStr s_S] (init (parsed doc_envarg) (node_store [SBody 0%nat] [])))
  = Some (None, s_envarg_S).
Proof. vm_compute. repeat split; reflexivity. Qed.

(* ---------------------------------------------------------------- refuted *)
(* Without `mats_fresh` the hand model's Edit.insert does not describe the code: the same
   wrapper passed twice.  The code asserts `not node.parent` for the second occurrence
   (the first has just been given a parent) and raises AssertionError before anything is
   inserted; Edit.insert, which only sees the list of expressions, inserts both.
   Replayed on the implementation:  d = TexSoup(r'\n').n.copy(); soup.insert(1, d, d)
   raises AssertionError and leaves str(soup) unchanged -- the translated source is right. *)
Lemma insert_same_wrapper_twice_refuted :
  exists root ms np i vals new,
    mat_items (init root (node_store np ms)) vals = Some new /\
    run (VNode 0) M_insert (VInt i :: vals) (init root (node_store np ms)) = GExc AssertionError root /\
    (exists t, insert root np i new = Done t /\ t <> root).
Proof.
  exists (parsed doc_arg), [(ROut ex_new_cmd, PNone)], [], 1, [VNode 1; VNode 1], [ex_new_cmd; ex_new_cmd].
  vm_compute. split; [reflexivity|]. split; [reflexivity|]. eexists. split; [reflexivity | discriminate].
Qed.

(* The guard `all arguments are TexCmd/TexEnv objects` (an invariant of TexArgs, which only
   accepts TexGroup / TexCmd) cannot be dropped: on a tree with a text in an argument list the
   hand model's holder search still answers, the translated code leaves the fragment
   (TexText._contents is not a raw list of the model).  Not reachable: no such tree can be
   built through TexArgs. *)
Lemma delete_text_argument_refuted :
  exists root pp thp ti,
    (exists t, delete_via root pp thp ti = Done t) /\
    run (VNode 0) M_delete [] (init root (target_store (thp ++ [SBody ti]) pp [])) = GUnsup.
Proof.
  exists (ERoot [ECmd [97]%N [EText (mkt [120]%N 0 TText)] [ECmd [98]%N [] [] 1] 0]),
         [SBody 0%nat], [SBody 0%nat], 0%nat.
  vm_compute. split; [eexists; reflexivity | reflexivity].
Qed.
