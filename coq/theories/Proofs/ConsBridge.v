(* Bridge from the token-level conservation theorem (ReaderCons.v) to strings:
     1. every token the tokenizer emits is well formed (`tok_wf`), so the
        first hygiene condition of `Hyp` is a theorem, not a hypothesis;
     2. the two remaining conditions are decidable (`hypb`);
     3. string-level corollaries `parse_conserves`, `parse_roundtrip`, and
        char-level readings of `Rel false` / `Rel true`;
     4. concrete documents on which every hypothesis holds.
   Facts about the generated tables are boolean checks evaluated on the
   tables themselves and lifted with forallb_forall. *)
From Coq Require Import List NArith ZArith Bool Lia.
From TexModel Require Import Base Tables Chars Tokenizer Tree Reader.
From TexProofs Require Import CatProofs TokProofs ReaderCons.
Import ListNotations.

(* ================================================================ part 1 *)

(* ---------------------------------------- characters carry their category *)

Definition catok (c : cchar) : Prop := ccat c = categorize_char (ch c).

Lemma categorize_from_catok p s : Forall catok (categorize_from p s).
Proof.
  revert p; induction s as [|x s IH]; intro p; simpl; constructor;
    [reflexivity | apply IH].
Qed.

(* a category other than the default is only ever assigned from the table *)
Lemma cat_listed x K :
  categorize_char x = K -> K <> COther ->
  exists vs, In (K, vs) Tables.category_table /\ mem_N x vs = true.
Proof.
  unfold categorize_char.
  destruct (lookup_cat Tables.category_table x) as [k|] eqn:E.
  - intros <- _. apply lookup_cat_some. exact E.
  - intros <- H. congruence.
Qed.

Definition cat_keys : list cc := map fst Tables.category_table.

(* every character listed under category K *)
Definition chars_of_cat (K : cc) : list N :=
  concat (map snd (filter (fun kv => cc_beq (fst kv) K) Tables.category_table)).

Lemma catok_listed c K :
  catok c -> ccat c = K -> K <> COther ->
  In K cat_keys /\ In (ch c) (chars_of_cat K).
Proof.
  intros C E Hne. unfold catok in C. rewrite E in C. symmetry in C.
  destruct (cat_listed _ _ C Hne) as (vs & Hin & Hm). split.
  - unfold cat_keys. apply in_map_iff. exists (K, vs). auto.
  - unfold chars_of_cat. apply in_concat. exists vs. split.
    + apply in_map_iff. exists (K, vs). split; [reflexivity|].
      apply filter_In. split; [exact Hin|]. simpl. apply cc_eqb_eq. reflexivity.
    + apply mem_N_In. exact Hm.
Qed.

(* ------------------------------------------------- tok_wf as a boolean *)

Definition all_gk : list groupkind := [GBrace; GBracket].
Definition all_mk : list mathkind := [MInline; MDisplay; MParen; MBracket].

Lemma all_gk_in k : In k all_gk.
Proof. destruct k; simpl; auto. Qed.
Lemma all_mk_in k : In k all_mk.
Proof. destruct k; simpl; auto. Qed.

Definition opt_is (o : option tc) (c : tc) : bool :=
  match o with Some x => tc_beq x c | None => false end.

Lemma opt_is_true o c : o = Some c -> opt_is o c = true.
Proof. intros ->. simpl. apply tc_eqb_eq. reflexivity. Qed.

Definition tok_wfb (s : str) (c : tc) : bool :=
  forallb (fun k => implb (opt_is (group_tok_begin k) c) (str_eqb s (group_begin k))) all_gk &&
  forallb (fun k => implb (opt_is (group_tok_end k) c) (str_eqb s (group_end k))) all_gk &&
  forallb (fun k => implb (opt_is (math_tok_begin k) c) (str_eqb s (math_begin k))) all_mk &&
  forallb (fun k => implb (opt_is (math_tok_end k) c) (str_eqb s (math_end k))) all_mk &&
  implb (tc_beq c TEscape) (str_eqb s [backslash]).

Lemma tok_wfb_sound t : tok_wfb (ttext t) (tcat t) = true -> tok_wf t.
Proof.
  unfold tok_wfb, tok_wf. intro H.
  apply andb_true_iff in H. destruct H as [H H5].
  apply andb_true_iff in H. destruct H as [H H4].
  apply andb_true_iff in H. destruct H as [H H3].
  apply andb_true_iff in H. destruct H as [H1 H2].
  rewrite forallb_forall in H1, H2, H3, H4.
  repeat split.
  - intros k Hk. specialize (H1 k (all_gk_in k)).
    rewrite (opt_is_true _ _ Hk) in H1. cbn [implb] in H1. apply str_eqb_eq. exact H1.
  - intros k Hk. specialize (H2 k (all_gk_in k)).
    rewrite (opt_is_true _ _ Hk) in H2. cbn [implb] in H2. apply str_eqb_eq. exact H2.
  - intros k Hk. specialize (H3 k (all_mk_in k)).
    rewrite (opt_is_true _ _ Hk) in H3. cbn [implb] in H3. apply str_eqb_eq. exact H3.
  - intros k Hk. specialize (H4 k (all_mk_in k)).
    rewrite (opt_is_true _ _ Hk) in H4. cbn [implb] in H4. apply str_eqb_eq. exact H4.
  - intro Hk. rewrite Hk in H5. cbn [tc_beq implb] in H5. apply str_eqb_eq. exact H5.
Qed.

(* the token categories that `tok_wf` constrains, computed from the class tables *)
Definition structural (c : tc) : bool :=
  tc_beq c TEscape
  || existsb (fun k => opt_is (group_tok_begin k) c || opt_is (group_tok_end k) c) all_gk
  || existsb (fun k => opt_is (math_tok_begin k) c || opt_is (math_tok_end k) c) all_mk.

(* for any other category `tok_wf` holds whatever the text: decided per
   category by evaluating both sides on the class tables *)
Lemma nonstructural_wfb c s : structural c = false -> tok_wfb s c = true.
Proof.
  destruct c; intro H; try (vm_compute in H; discriminate H); vm_compute; reflexivity.
Qed.

Lemma wf_of_cat s p c : structural c = false -> tok_wf (mkt s p c).
Proof. intro H. apply tok_wfb_sound. cbn [ttext tcat]. apply nonstructural_wfb. exact H. Qed.

(* ------------------------------------------------------ the eleven rules *)

Definition wf_res (r : rres) : Prop :=
  match r with RTok t _ => tok_wf t | _ => True end.

Lemma wf_escaped rest : wf_res (rule_escaped_symbols rest).
Proof.
  unfold rule_escaped_symbols. destruct rest as [|c0 [|c1 r2]]; simpl; auto;
    destruct (is_cat CEscape c0); simpl; auto.
  destruct (mem_cc (ccat c1) Tables.escaped_second_cats); simpl; auto.
  apply wf_of_cat. reflexivity.
Qed.

Lemma wf_comment prev rest : wf_res (rule_comment prev rest).
Proof.
  unfold rule_comment. destruct rest as [|c0 r1]; simpl; auto.
  destruct (is_cat CComment c0 && comment_allowed prev); simpl; auto.
  destruct (take_while _ r1) as [body r2]. simpl.
  apply wf_of_cat. reflexivity.
Qed.

Lemma wf_line_break rest : wf_res (rule_line_break rest).
Proof.
  unfold rule_line_break. destruct rest as [|c0 [|c1 r2]]; simpl; auto;
    destruct (is_cat CEscape c0); simpl; auto.
  destruct (is_cat CEscape c1); simpl; auto. apply wf_of_cat. reflexivity.
Qed.

Lemma wf_ignore rest : wf_res (rule_ignore rest).
Proof.
  unfold rule_ignore. destruct (take_while _ rest) as [sk r'].
  destruct sk; simpl; exact I.
Qed.

Lemma wf_spacers idx rest : wf_res (rule_spacers idx rest).
Proof.
  unfold rule_spacers.
  destruct (take_while (is_cat CSpacer) rest) as [s1 r1].
  set (er := match r1 with
             | c :: r' => if is_cat CEndOfLine c then ([c], r') else ([], r1)
             | [] => ([], r1) end).
  destruct er as [e r2].
  destruct (take_while (is_cat CSpacer) r2) as [s2 r3]. cbv zeta.
  assert (Hk : forall cons,
            wf_res (match cons with [] => RNone | _ => RTok (mk_tok cons idx TMergedSpacer) r3 end)).
  { intros [|c cons]; simpl; auto. unfold mk_tok. apply wf_of_cat. reflexivity. }
  destruct r3 as [|c r3'].
  - apply Hk.
  - destruct (mem_cc (ccat c) Tables.spacer_rollback_cats); [exact I | apply Hk].
Qed.

Lemma wf_punct points prevc rest : wf_res (rule_punctuation points prevc rest).
Proof.
  unfold rule_punctuation. destruct (prev_is_escape prevc); simpl; auto.
  destruct (find_point points (chars_of rest)) as [p|]; simpl; auto.
  destruct (firstn (length p) rest) as [|c0 b]; simpl; auto.
  apply wf_of_cat. reflexivity.
Qed.

Lemma wf_command_name prevc rest : wf_res (rule_command_name prevc rest).
Proof.
  unfold rule_command_name. destruct (prev_is_escape prevc); simpl; auto.
  destruct rest as [|c0 r1]; simpl; auto.
  destruct (is_cat CLetter c0); simpl; auto.
  destruct (take_while _ r1) as [more r2]. simpl. apply wf_of_cat. reflexivity.
Qed.

Lemma wf_string idx rest : wf_res (rule_string idx rest).
Proof.
  unfold rule_string. destruct (take_while _ rest) as [body r']. simpl.
  unfold mk_tok. apply wf_of_cat. reflexivity.
Qed.

(* single-character symbols: for every key K of the category table that the
   symbol map sends to a token category t, every character listed under K is
   the delimiter text the class tables give for t *)
Definition sym_check : bool :=
  forallb (fun K => match lookup_sym Tables.symbols_map K with
                    | Some t => forallb (fun x => tok_wfb [x] t) (chars_of_cat K)
                    | None => true
                    end) cat_keys.

Lemma sym_check_ok : sym_check = true.
Proof. vm_compute. reflexivity. Qed.

Lemma sym_other : lookup_sym Tables.symbols_map COther = None.
Proof. vm_compute. reflexivity. Qed.

Lemma wf_symbols rest : Forall catok rest -> wf_res (rule_symbols rest).
Proof.
  intro F. unfold rule_symbols. destruct rest as [|c0 r1]; simpl; auto.
  destruct (lookup_sym Tables.symbols_map (ccat c0)) as [t|] eqn:E; simpl; auto.
  inversion F as [|? ? C0 _]; subst.
  destruct (catok_listed c0 (ccat c0) C0 eq_refl) as [HK Hx].
  { intro H. rewrite H, sym_other in E. discriminate. }
  apply tok_wfb_sound. cbn [ttext tcat].
  pose proof sym_check_ok as Chk. unfold sym_check in Chk. rewrite forallb_forall in Chk.
  specialize (Chk _ HK). rewrite E in Chk. rewrite forallb_forall in Chk.
  apply Chk. exact Hx.
Qed.

(* $ and $$ *)
Definition msw_check : bool :=
  forallb (fun x => tok_wfb [x] TMathSwitch
                    && forallb (fun y => tok_wfb [x; y] TDisplayMathSwitch)
                               (chars_of_cat CMathSwitch))
          (chars_of_cat CMathSwitch).

Lemma msw_check_ok : msw_check = true.
Proof. vm_compute. reflexivity. Qed.

Lemma mathswitch_not_other : CMathSwitch <> COther.
Proof. discriminate. Qed.

Lemma wf_math_sym rest : Forall catok rest -> wf_res (rule_math_sym_switch rest).
Proof.
  intro F. unfold rule_math_sym_switch. destruct rest as [|c0 r1]; simpl; auto.
  destruct (is_cat CMathSwitch c0) eqn:E0; simpl; auto.
  inversion F as [|? ? C0 F1]; subst.
  unfold is_cat in E0. apply cc_eqb_eq in E0.
  destruct (catok_listed c0 _ C0 E0 mathswitch_not_other) as [_ Hx].
  pose proof msw_check_ok as Chk. unfold msw_check in Chk. rewrite forallb_forall in Chk.
  specialize (Chk _ Hx). apply andb_true_iff in Chk. destruct Chk as [Chk1 Chk2].
  assert (W1 : tok_wf (mkt [ch c0] (cpos c0) TMathSwitch)).
  { apply tok_wfb_sound. exact Chk1. }
  destruct r1 as [|c1 r2]; [exact W1|].
  destruct (is_cat CMathSwitch c1) eqn:E1; simpl; [|exact W1].
  inversion F1 as [|? ? C1 _]; subst.
  unfold is_cat in E1. apply cc_eqb_eq in E1.
  destruct (catok_listed c1 _ C1 E1 mathswitch_not_other) as [_ Hy].
  rewrite forallb_forall in Chk2.
  apply tok_wfb_sound. exact (Chk2 _ Hy).
Qed.

(* \[ \] \( \) *)
Definition asym_check : bool :=
  forallb (fun K1 =>
    forallb (fun K2 =>
      match lookup_asym Tables.asym_map K1 K2 with
      | Some t => forallb (fun x => forallb (fun y => tok_wfb [x; y] t) (chars_of_cat K2))
                          (chars_of_cat K1)
      | None => true
      end) cat_keys) cat_keys.

Lemma asym_check_ok : asym_check = true.
Proof. vm_compute. reflexivity. Qed.

Lemma asym_other_l b : lookup_asym Tables.asym_map COther b = None.
Proof. destruct b; vm_compute; reflexivity. Qed.
Lemma asym_other_r a : lookup_asym Tables.asym_map a COther = None.
Proof. destruct a; vm_compute; reflexivity. Qed.

Lemma wf_math_asym rest : Forall catok rest -> wf_res (rule_math_asym_switch rest).
Proof.
  intro F. unfold rule_math_asym_switch. destruct rest as [|c0 [|c1 r2]]; simpl; auto.
  destruct (lookup_asym Tables.asym_map (ccat c0) (ccat c1)) as [t|] eqn:E; simpl; auto.
  inversion F as [|? ? C0 F1]; subst. inversion F1 as [|? ? C1 _]; subst.
  destruct (catok_listed c0 (ccat c0) C0 eq_refl) as [HK0 Hx].
  { intro H. rewrite H, asym_other_l in E. discriminate. }
  destruct (catok_listed c1 (ccat c1) C1 eq_refl) as [HK1 Hy].
  { intro H. rewrite H, asym_other_r in E. discriminate. }
  pose proof asym_check_ok as Chk. unfold asym_check in Chk. rewrite forallb_forall in Chk.
  specialize (Chk _ HK0). rewrite forallb_forall in Chk. specialize (Chk _ HK1).
  rewrite E in Chk. rewrite forallb_forall in Chk. specialize (Chk _ Hx).
  rewrite forallb_forall in Chk.
  apply tok_wfb_sound. exact (Chk _ Hy).
Qed.

Lemma wf_run_rule r cx rest : Forall catok rest -> wf_res (run_rule r cx rest).
Proof.
  intro F. destruct r; cbn [run_rule].
  - apply wf_escaped.
  - apply wf_comment.
  - apply wf_math_sym. exact F.
  - apply wf_math_asym. exact F.
  - apply wf_line_break.
  - apply wf_ignore.
  - apply wf_spacers.
  - apply wf_symbols. exact F.
  - apply wf_punct.
  - apply wf_command_name.
  - apply wf_string.
Qed.

Lemma wf_run_rules rules cx rest : Forall catok rest -> wf_res (run_rules rules cx rest).
Proof.
  intro F. induction rules as [|r rs IH]; cbn [run_rules]; [exact I|].
  pose proof (wf_run_rule r cx rest F) as W.
  destruct (run_rule r cx rest); [exact IH | exact W | exact I | exact I].
Qed.

(* --------------------------------------------------------------- the loop *)

Lemma tokenize_loop_wf fuel : forall points idx pp pc prev rest toks e,
  Forall catok rest ->
  tokenize_loop fuel points idx pp pc prev rest = (toks, e) -> Forall tok_wf toks.
Proof.
  induction fuel as [|f IH]; intros points idx pp pc prev rest toks e F H.
  - simpl in H. inversion H. constructor.
  - destruct rest as [|c0 rest1]; [simpl in H; inversion H; constructor|].
    cbn [tokenize_loop] in H.
    pose proof (run_rules_progress (mkctx idx prev pp pc points) c0 rest1) as P.
    cbv zeta in P.
    pose proof (wf_run_rules Tables.rule_order (mkctx idx prev pp pc points) (c0 :: rest1) F) as W.
    destruct (run_rules Tables.rule_order (mkctx idx prev pp pc points) (c0 :: rest1))
      as [|t rest'|rest'|] eqn:E; try contradiction.
    + destruct P as (body & _ & Hsplit & _). cbv zeta in H.
      match type of H with context [tokenize_loop f ?a ?b ?c ?d ?g ?h] =>
        destruct (tokenize_loop f a b c d g h) as [ts e'] eqn:El end.
      inversion H; subst toks e'. constructor; [exact W|].
      eapply IH; [|exact El]. rewrite Hsplit in F. apply Forall_app in F. tauto.
    + destruct P as (sk & _ & Hsplit & _). cbv zeta in H.
      eapply IH; [|exact H]. rewrite Hsplit in F. apply Forall_app in F. tauto.
Qed.

(* every token the tokenizer produces carries its delimiter text *)
Theorem tokenize_wf : forall (s : str) toks e,
  tokens_of_string s = (toks, e) -> Forall tok_wf toks.
Proof.
  intros s toks e H. unfold tokens_of_string, tokenize, tokenize_with in H.
  eapply tokenize_loop_wf; [|exact H]. unfold categorize. apply categorize_from_catok.
Qed.

(* ================================================================ part 2 *)

(* the verbatim-scan condition at one suffix *)
Definition skip_okb (SK : list str) (rest : list token) : bool :=
  forallb (fun name =>
    implb (starts_with (texts (firstn (length (env_end name)) rest)) (env_end name))
          (str_eqb (texts (firstn 5 rest)) (env_end name))) SK.

(* ... at every suffix *)
Fixpoint hyp_skipb (SK : list str) (toks : list token) : bool :=
  skip_okb SK toks &&
  match toks with
  | [] => true
  | _ :: ts => hyp_skipb SK ts
  end.

Lemma hyp_skipb_suffix SK pre rest :
  hyp_skipb SK (pre ++ rest) = true -> skip_okb SK rest = true.
Proof.
  induction pre as [|t pre IH]; intro H.
  - simpl in H. destruct rest; simpl in H; apply andb_true_iff in H; tauto.
  - apply IH. change ((t :: pre) ++ rest) with (t :: (pre ++ rest)) in H.
    cbn [hyp_skipb] in H. apply andb_true_iff in H. tauto.
Qed.

Theorem hyp_skipb_sound SK toks : hyp_skipb SK toks = true -> hyp_skip SK toks.
Proof.
  intros H pre rest name E Hm Hs. subst toks.
  apply hyp_skipb_suffix in H. unfold skip_okb in H. rewrite forallb_forall in H.
  unfold mem_str in Hm. apply existsb_exists in Hm. destruct Hm as (n' & Hin & En).
  apply str_eqb_eq in En. subst n'.
  specialize (H name Hin). rewrite Hs in H. cbn [implb] in H.
  apply str_eqb_eq. exact H.
Qed.

Definition hypb (SK : list str) (toks : list token) : bool :=
  clean_names toks && hyp_skipb SK toks.

Theorem Hyp_of_tokenizer : forall s toks e SK,
  tokens_of_string s = (toks, e) -> hypb SK toks = true -> Hyp SK toks.
Proof.
  intros s toks e SK Ht Hb. unfold hypb in Hb. apply andb_true_iff in Hb.
  destruct Hb as [Hn Hs]. constructor.
  - eapply tokenize_wf. exact Ht.
  - exact Hn.
  - apply hyp_skipb_sound. exact Hs.
Qed.

(* ================================================================ part 3 *)

Theorem parse_conserves : forall (s : str) strict user t,
  parse s strict user = Ok t ->
  hypb (all_skip user) (fst (tokens_of_string s)) = true ->
  nobare t = true ->
  Rel (negb strict) (fst (tokens_of_string s)) (estr t).
Proof.
  intros s strict user t H Hb Hn. unfold parse in H.
  destruct (tokens_of_string s) as [toks e] eqn:E. cbn [fst] in *.
  destruct e; try discriminate H.
  apply parse_tokens_conserves with (user_skip := user); [|exact H|exact Hn].
  eapply Hyp_of_tokenizer; [exact E | exact Hb].
Qed.

Theorem parse_roundtrip : forall (s : str) user t,
  parse s true user = Ok t ->
  hypb (all_skip user) (fst (tokens_of_string s)) = true ->
  nobare t = true ->
  no_arg_spacer (fst (tokens_of_string s)) = true ->
  Forall (fun c => ign c = false) (categorize s) ->
  estr t = s.
Proof.
  intros s user t H Hb Hn Hsp Hnul.
  pose proof (parse_conserves s true user t H Hb Hn) as R. cbn [negb] in R.
  apply Rel_exact in R; [|exact Hsp]. rewrite R.
  destruct (tokens_of_string s) as [toks e] eqn:E. cbn [fst].
  unfold texts. eapply tokens_concat_exact; [exact E | exact Hnul].
Qed.

(* ------------------------- char-level reading of Rel (for C08 and C07) *)

(* `Kept toks kept`: kept is toks, in order, minus some MergedSpacer tokens
   each of which stands directly before a GroupBegin / BracketBegin token of
   toks.  Nothing is reordered, duplicated or invented. *)
Inductive Kept : list token -> list token -> Prop :=
| Kept_nil : Kept [] []
| Kept_keep t ts ks : Kept ts ks -> Kept (t :: ts) (t :: ks)
| Kept_drop sp t ts ks :
    is_tc TMergedSpacer sp = true -> opener t -> Kept (t :: ts) ks ->
    Kept (sp :: t :: ts) ks.

(* the plain order-preserving sub-list relation *)
Inductive Sub {A} : list A -> list A -> Prop :=
| Sub_nil : Sub [] []
| Sub_keep x l k : Sub l k -> Sub (x :: l) (x :: k)
| Sub_skip x l k : Sub l k -> Sub (x :: l) k.

Lemma Kept_Sub toks kept : Kept toks kept -> Sub toks kept.
Proof. induction 1; [constructor | apply Sub_keep; assumption | apply Sub_skip; assumption]. Qed.

Lemma Kept_refl toks : Kept toks toks.
Proof. induction toks; [constructor | apply Kept_keep; assumption]. Qed.

(* strict mode: the output is the concatenation of the kept tokens *)
Theorem Rel_subsequence_chars toks out :
  Rel false toks out -> exists kept, Kept toks kept /\ out = texts kept.
Proof.
  induction 1.
  - exists []. split; [constructor | reflexivity].
  - destruct IHRel as (ks & K & ->). exists (t :: ks). split; [apply Kept_keep; exact K | reflexivity].
  - destruct IHRel as (ks & K & ->). exists ks. split; [apply Kept_drop; assumption | reflexivity].
  - discriminate.
Qed.

(* and conversely: the reading is exact *)
Theorem Kept_Rel tol toks kept : Kept toks kept -> Rel tol toks (texts kept).
Proof.
  induction 1.
  - constructor.
  - change (texts (t :: ks)) with (ttext t ++ texts ks). apply Rel_keep. assumption.
  - apply Rel_drop; assumption.
Qed.

(* characters of the input that are missing from the output *)
Lemma Sub_texts_length (toks kept : list token) :
  Sub toks kept -> (length (texts kept) <= length (texts toks))%nat.
Proof.
  induction 1; unfold texts in *; simpl; try rewrite !app_length; lia.
Qed.

(* `Ins kept out`: out is the texts of kept, in order, with closer strings
   (`}`, `]`, `\end{name}`) inserted between (before, after) tokens *)
Inductive Ins : list token -> str -> Prop :=
| Ins_nil : Ins [] []
| Ins_tok t ks out : Ins ks out -> Ins (t :: ks) (ttext t ++ out)
| Ins_closer c ks out : closer c -> Ins ks out -> Ins ks (c ++ out).

Lemma Ins_texts ks : Ins ks (texts ks).
Proof.
  induction ks as [|t ks IH]; [constructor|].
  change (texts (t :: ks)) with (ttext t ++ texts ks). apply Ins_tok. exact IH.
Qed.

(* tolerant mode: only closers are inserted, only argument spacers deleted *)
Theorem Rel_true_only_inserts toks out :
  Rel true toks out -> exists kept, Kept toks kept /\ Ins kept out.
Proof.
  induction 1.
  - exists []. split; constructor.
  - destruct IHRel as (ks & K & I). exists (t :: ks).
    split; [apply Kept_keep; exact K | apply Ins_tok; exact I].
  - destruct IHRel as (ks & K & I). exists ks. split; [apply Kept_drop; assumption | exact I].
  - destruct IHRel as (ks & K & I). exists ks. split; [exact K | apply Ins_closer; assumption].
Qed.

Theorem Kept_Ins_Rel toks kept out : Kept toks kept -> Ins kept out -> Rel true toks out.
Proof.
  intros K I. revert toks K. induction I; intros toks K.
  - remember [] as ks eqn:Eks. induction K; try discriminate.
    + constructor.
    + apply Rel_drop; auto.
  - remember (t :: ks) as kk eqn:Ekk. induction K; try discriminate.
    + inversion Ekk; subst. apply Rel_keep. apply IHI. exact K.
    + apply Rel_drop; auto.
  - apply Rel_ins; [reflexivity | assumption | apply IHI; exact K].
Qed.

(* an Ins without closers is plain concatenation: the strict reading is the
   tolerant one with nothing inserted *)
Lemma Ins_length ks out : Ins ks out -> (length (texts ks) <= length out)%nat.
Proof.
  induction 1; unfold texts in *; simpl; try rewrite !app_length; try lia.
Qed.

(* ================================================================ part 4 *)
(* Non-vacuity.  The documents were first parsed with the real library
   (harness/impl.py, PYTHONHASHSEED=0): str(parse(doc1)) == doc1 and
   str(parse(doc2)) == doc2; str(parse(doc3)) == '\\a{x}' != doc3;
   str(parse(doc4, tolerance=1)) == '\\a{x}'. *)

(* the table checks of part 1 range over non-empty sets and discriminate *)
Example chars_of_cat_nonempty :
  chars_of_cat CMathSwitch <> [] /\ chars_of_cat CEscape <> [] /\
  chars_of_cat CGroupBegin <> [] /\ chars_of_cat CBracketEnd <> [] /\
  chars_of_cat CParenBegin <> [].
Proof. vm_compute. repeat split; discriminate. Qed.

Example tok_wfb_discriminates :
  tok_wfb (group_begin GBrace) TGroupBegin = true /\
  tok_wfb (group_begin GBracket) TGroupBegin = false /\
  tok_wfb (math_begin MParen) TMathGroupBegin = true /\
  tok_wfb (math_end MParen) TMathGroupBegin = false /\
  tok_wfb [] TEscape = false /\ structural TText = false /\ structural TBracketEnd = true.
Proof. vm_compute. repeat split; reflexivity. Qed.

(* `negb strict` spelled out, so that the examples below apply the theorems
   without any conversion on the (large) concrete terms *)
Lemma parse_conserves_strict (s : str) user t :
  parse s true user = Ok t ->
  hypb (all_skip user) (fst (tokens_of_string s)) = true -> nobare t = true ->
  Rel false (fst (tokens_of_string s)) (estr t).
Proof. exact (parse_conserves s true user t). Qed.
Lemma parse_conserves_tolerant (s : str) user t :
  parse s false user = Ok t ->
  hypb (all_skip user) (fst (tokens_of_string s)) = true -> nobare t = true ->
  Rel true (fst (tokens_of_string s)) (estr t).
Proof. exact (parse_conserves s false user t). Qed.

Lemma no_ign_of_check (s : str) :
  forallb (fun c => negb (ign c)) (categorize s) = true ->
  Forall (fun c => ign c = false) (categorize s).
Proof.
  intro H. rewrite forallb_forall in H. apply Forall_forall. intros c Hc.
  apply negb_true_iff. apply H. exact Hc.
Qed.

(* doc1 (310 characters) =
     '\\documentclass[12pt]{article}\n'
     '\\newcommand{\\foo}[1]{\\textbf{#1}}\n'
     '% a comment line\n'
     '\\begin{document}\n'
     '\\section[short]{Long title}\n'
     'Cost: 5\\% of $x^2+y$ and \\[ a+b=c \\]\n'
     '\\begin{tabular}{cc}a & b\\end{tabular}\n'
     '\\begin{itemize}\n'
     '\\item one\n'
     '\\item two\n'
     '\\end{itemize}\n'
     '\\begin{verbatim}\n'
     'raw ${ \\x %\n'
     '\\end{verbatim}\n'
     '\\end{document}\n' *)
Definition doc1 : str :=
  [92; 100; 111; 99; 117; 109; 101; 110; 116; 99; 108; 97; 115; 115; 91; 49; 50; 112; 116; 93;
   123; 97; 114; 116; 105; 99; 108; 101; 125; 10; 92; 110; 101; 119; 99; 111; 109; 109; 97; 110;
   100; 123; 92; 102; 111; 111; 125; 91; 49; 93; 123; 92; 116; 101; 120; 116; 98; 102; 123; 35;
   49; 125; 125; 10; 37; 32; 97; 32; 99; 111; 109; 109; 101; 110; 116; 32; 108; 105; 110; 101;
   10; 92; 98; 101; 103; 105; 110; 123; 100; 111; 99; 117; 109; 101; 110; 116; 125; 10; 92; 115;
   101; 99; 116; 105; 111; 110; 91; 115; 104; 111; 114; 116; 93; 123; 76; 111; 110; 103; 32;
   116; 105; 116; 108; 101; 125; 10; 67; 111; 115; 116; 58; 32; 53; 92; 37; 32; 111; 102; 32;
   36; 120; 94; 50; 43; 121; 36; 32; 97; 110; 100; 32; 92; 91; 32; 97; 43; 98; 61; 99; 32; 92;
   93; 10; 92; 98; 101; 103; 105; 110; 123; 116; 97; 98; 117; 108; 97; 114; 125; 123; 99; 99;
   125; 97; 32; 38; 32; 98; 92; 101; 110; 100; 123; 116; 97; 98; 117; 108; 97; 114; 125; 10; 92;
   98; 101; 103; 105; 110; 123; 105; 116; 101; 109; 105; 122; 101; 125; 10; 92; 105; 116; 101;
   109; 32; 111; 110; 101; 10; 92; 105; 116; 101; 109; 32; 116; 119; 111; 10; 92; 101; 110; 100;
   123; 105; 116; 101; 109; 105; 122; 101; 125; 10; 92; 98; 101; 103; 105; 110; 123; 118; 101;
   114; 98; 97; 116; 105; 109; 125; 10; 114; 97; 119; 32; 36; 123; 32; 92; 120; 32; 37; 10; 92;
   101; 110; 100; 123; 118; 101; 114; 98; 97; 116; 105; 109; 125; 10; 92; 101; 110; 100; 123;
   100; 111; 99; 117; 109; 101; 110; 116; 125; 10]%N.
Notation toks_doc1 := (fst (tokens_of_string doc1)).
Definition tree_doc1 : expr :=
  match parse doc1 true [] with Ok t => t | Err _ => ERoot [] end.

Example doc1_parses : parse doc1 true [] = Ok tree_doc1.
Proof. vm_compute. reflexivity. Qed.
Example doc1_size : length doc1 = 310%nat /\ (100 <=? length toks_doc1)%nat = true.
Proof. vm_compute. split; reflexivity. Qed.
Example doc1_hyp : hypb (all_skip []) toks_doc1 = true.
Proof. vm_compute. reflexivity. Qed.
Example doc1_nobare : nobare tree_doc1 = true.
Proof. vm_compute. reflexivity. Qed.
Example doc1_no_arg_spacer : no_arg_spacer toks_doc1 = true.
Proof. vm_compute. reflexivity. Qed.
Example doc1_no_nul : Forall (fun c => ign c = false) (categorize doc1).
Proof. apply no_ign_of_check. vm_compute. reflexivity. Qed.
(* by the theorems, not by recomputation *)
Example doc1_Hyp : Hyp (all_skip []) toks_doc1.
Proof.
  apply (Hyp_of_tokenizer doc1 toks_doc1 (snd (tokens_of_string doc1)));
    [destruct (tokens_of_string doc1); reflexivity | exact doc1_hyp].
Qed.
Example doc1_conserved : Rel false toks_doc1 (estr tree_doc1).
Proof. exact (parse_conserves_strict doc1 [] tree_doc1 doc1_parses doc1_hyp doc1_nobare). Qed.
Example doc1_roundtrip : estr tree_doc1 = doc1.
Proof.
  exact (parse_roundtrip doc1 [] tree_doc1 doc1_parses doc1_hyp doc1_nobare
           doc1_no_arg_spacer doc1_no_nul).
Qed.

(* doc2 (300 characters) =
     '\\title{On \\emph{things}}\\label{t}\n'
     '\\renewcommand{\\bar}[2]{#1\\&#2}\n'
     '\\begin{figure}[ht]\\caption[s]{A \\$ sign}% trailing\n'
     '\\end{figure}\n'
     'We have \\(p\\) and $$q_1$$ and \\#3.\n'
     '\\begin{enumerate}\\item x\\item y\\end{enumerate}\n'
     '\\begin{lstlisting}\n'
     'int a[2] = {0}; % not a comment\n'
     '\\end{lstlisting}\n'
     '\\cite[p.~3]{knuth}{}\n' *)
Definition doc2 : str :=
  [92; 116; 105; 116; 108; 101; 123; 79; 110; 32; 92; 101; 109; 112; 104; 123; 116; 104; 105;
   110; 103; 115; 125; 125; 92; 108; 97; 98; 101; 108; 123; 116; 125; 10; 92; 114; 101; 110;
   101; 119; 99; 111; 109; 109; 97; 110; 100; 123; 92; 98; 97; 114; 125; 91; 50; 93; 123; 35;
   49; 92; 38; 35; 50; 125; 10; 92; 98; 101; 103; 105; 110; 123; 102; 105; 103; 117; 114; 101;
   125; 91; 104; 116; 93; 92; 99; 97; 112; 116; 105; 111; 110; 91; 115; 93; 123; 65; 32; 92; 36;
   32; 115; 105; 103; 110; 125; 37; 32; 116; 114; 97; 105; 108; 105; 110; 103; 10; 92; 101; 110;
   100; 123; 102; 105; 103; 117; 114; 101; 125; 10; 87; 101; 32; 104; 97; 118; 101; 32; 92; 40;
   112; 92; 41; 32; 97; 110; 100; 32; 36; 36; 113; 95; 49; 36; 36; 32; 97; 110; 100; 32; 92; 35;
   51; 46; 10; 92; 98; 101; 103; 105; 110; 123; 101; 110; 117; 109; 101; 114; 97; 116; 101; 125;
   92; 105; 116; 101; 109; 32; 120; 92; 105; 116; 101; 109; 32; 121; 92; 101; 110; 100; 123;
   101; 110; 117; 109; 101; 114; 97; 116; 101; 125; 10; 92; 98; 101; 103; 105; 110; 123; 108;
   115; 116; 108; 105; 115; 116; 105; 110; 103; 125; 10; 105; 110; 116; 32; 97; 91; 50; 93; 32;
   61; 32; 123; 48; 125; 59; 32; 37; 32; 110; 111; 116; 32; 97; 32; 99; 111; 109; 109; 101; 110;
   116; 10; 92; 101; 110; 100; 123; 108; 115; 116; 108; 105; 115; 116; 105; 110; 103; 125; 10;
   92; 99; 105; 116; 101; 91; 112; 46; 126; 51; 93; 123; 107; 110; 117; 116; 104; 125; 123; 125;
   10]%N.
Notation toks_doc2 := (fst (tokens_of_string doc2)).
Definition tree_doc2 : expr :=
  match parse doc2 true [] with Ok t => t | Err _ => ERoot [] end.

Example doc2_parses : parse doc2 true [] = Ok tree_doc2.
Proof. vm_compute. reflexivity. Qed.
Example doc2_size : length doc2 = 300%nat /\ (100 <=? length toks_doc2)%nat = true.
Proof. vm_compute. split; reflexivity. Qed.
Example doc2_hyp : hypb (all_skip []) toks_doc2 = true.
Proof. vm_compute. reflexivity. Qed.
Example doc2_nobare : nobare tree_doc2 = true.
Proof. vm_compute. reflexivity. Qed.
Example doc2_no_arg_spacer : no_arg_spacer toks_doc2 = true.
Proof. vm_compute. reflexivity. Qed.
Example doc2_no_nul : Forall (fun c => ign c = false) (categorize doc2).
Proof. apply no_ign_of_check. vm_compute. reflexivity. Qed.
(* by the theorems, not by recomputation *)
Example doc2_Hyp : Hyp (all_skip []) toks_doc2.
Proof.
  apply (Hyp_of_tokenizer doc2 toks_doc2 (snd (tokens_of_string doc2)));
    [destruct (tokens_of_string doc2); reflexivity | exact doc2_hyp].
Qed.
Example doc2_conserved : Rel false toks_doc2 (estr tree_doc2).
Proof. exact (parse_conserves_strict doc2 [] tree_doc2 doc2_parses doc2_hyp doc2_nobare). Qed.
Example doc2_roundtrip : estr tree_doc2 = doc2.
Proof.
  exact (parse_roundtrip doc2 [] tree_doc2 doc2_parses doc2_hyp doc2_nobare
           doc2_no_arg_spacer doc2_no_nul).
Qed.

(* doc3 = '\\a {x}': the spacer before the argument is dropped; Rel false
   holds, equality does not *)
Definition doc3 : str := [92; 97; 32; 123; 120; 125]%N.
Notation toks_doc3 := (fst (tokens_of_string doc3)).
Definition tree_doc3 : expr :=
  match parse doc3 true [] with Ok t => t | Err _ => ERoot [] end.
Example doc3_parses : parse doc3 true [] = Ok tree_doc3.
Proof. vm_compute. reflexivity. Qed.
Example doc3_hyp : hypb (all_skip []) toks_doc3 = true.
Proof. vm_compute. reflexivity. Qed.
Example doc3_nobare : nobare tree_doc3 = true.
Proof. vm_compute. reflexivity. Qed.
Example doc3_conserved : Rel false toks_doc3 (estr tree_doc3).
Proof. exact (parse_conserves_strict doc3 [] tree_doc3 doc3_parses doc3_hyp doc3_nobare). Qed.
Example doc3_not_equal :
  no_arg_spacer toks_doc3 = false /\ estr tree_doc3 <> doc3 /\
  estr tree_doc3 = [92; 97; 123; 120; 125]%N.
Proof. vm_compute. repeat split. discriminate. Qed.
(* the char-level reading applies: one token (the spacer) is not kept *)
Example doc3_kept :
  exists kept, Kept toks_doc3 kept /\ estr tree_doc3 = texts kept.
Proof. exact (Rel_subsequence_chars _ _ doc3_conserved). Qed.

(* doc4 = '\\a{x' read with tolerance: the closer is inserted *)
Definition doc4 : str := [92; 97; 123; 120]%N.
Notation toks_doc4 := (fst (tokens_of_string doc4)).
Definition tree_doc4 : expr :=
  match parse doc4 false [] with Ok t => t | Err _ => ERoot [] end.
Example doc4_parses : parse doc4 false [] = Ok tree_doc4.
Proof. vm_compute. reflexivity. Qed.
Example doc4_hyp : hypb (all_skip []) toks_doc4 = true.
Proof. vm_compute. reflexivity. Qed.
Example doc4_nobare : nobare tree_doc4 = true.
Proof. vm_compute. reflexivity. Qed.
Example doc4_conserved : Rel true toks_doc4 (estr tree_doc4).
Proof. exact (parse_conserves_tolerant doc4 [] tree_doc4 doc4_parses doc4_hyp doc4_nobare). Qed.
Example doc4_closed : estr tree_doc4 = doc4 ++ group_end GBrace.
Proof. vm_compute. reflexivity. Qed.
Example doc4_only_inserts :
  exists kept, Kept toks_doc4 kept /\ Ins kept (estr tree_doc4).
Proof. exact (Rel_true_only_inserts _ _ doc4_conserved). Qed.

(* ----------------------------- string-level forms of the two readings *)

(* C08, strict: str(parse(s)) is the concatenation of the tokens of s minus
   argument spacers *)
Theorem parse_strict_kept (s : str) user t :
  parse s true user = Ok t ->
  hypb (all_skip user) (fst (tokens_of_string s)) = true -> nobare t = true ->
  exists kept, Kept (fst (tokens_of_string s)) kept /\ estr t = texts kept.
Proof.
  intros H Hb Hn. apply Rel_subsequence_chars.
  exact (parse_conserves_strict s user t H Hb Hn).
Qed.

(* C07, tolerant: additionally closers may be inserted *)
Theorem parse_tolerant_inserts (s : str) user t :
  parse s false user = Ok t ->
  hypb (all_skip user) (fst (tokens_of_string s)) = true -> nobare t = true ->
  exists kept, Kept (fst (tokens_of_string s)) kept /\ Ins kept (estr t).
Proof.
  intros H Hb Hn. apply Rel_true_only_inserts.
  exact (parse_conserves_tolerant s user t H Hb Hn).
Qed.

Example doc2_strict_kept :
  exists kept, Kept toks_doc2 kept /\ estr tree_doc2 = texts kept.
Proof. exact (parse_strict_kept doc2 [] tree_doc2 doc2_parses doc2_hyp doc2_nobare). Qed.
Example doc4_tolerant_inserts :
  exists kept, Kept toks_doc4 kept /\ Ins kept (estr tree_doc4).
Proof. exact (parse_tolerant_inserts doc4 [] tree_doc4 doc4_parses doc4_hyp doc4_nobare). Qed.

(* --------------------- no hypothesis of parse_roundtrip can be dropped *)
(* Each witness was replayed on the real library (harness/impl.py):
     str(parse('\\begin{ a }x\\end{a}')) == '\\begin{a}x\\end{a}'
     str(parse('\\a {x}'))               == '\\a{x}'
     str(parse('{\0a}'))                 == '{a}'                          *)

(* doc5 = '\\begin{ a }x\\end{a}': the padded environment name is stripped *)
Definition doc5 : str :=
  [92; 98; 101; 103; 105; 110; 123; 32; 97; 32; 125; 120; 92; 101; 110; 100; 123; 97; 125]%N.
(* doc6 = '{\0a}': the NUL at the start of a token is skipped *)
Definition doc6 : str := [123; 0; 97; 125]%N.

Definition all_but_hypb (s : str) (t : expr) : Prop :=
  parse s true [] = Ok t /\ nobare t = true /\
  no_arg_spacer (fst (tokens_of_string s)) = true /\
  forallb (fun c => negb (ign c)) (categorize s) = true.

Theorem roundtrip_needs_hypb :
  exists s t, all_but_hypb s t /\ hypb (all_skip []) (fst (tokens_of_string s)) = false /\
              estr t <> s.
Proof.
  exists doc5. eexists. unfold all_but_hypb.
  split; [split; [vm_compute; reflexivity|]|]; vm_compute; repeat split; discriminate.
Qed.

Theorem roundtrip_needs_no_arg_spacer :
  exists s t, parse s true [] = Ok t /\ nobare t = true /\
              hypb (all_skip []) (fst (tokens_of_string s)) = true /\
              forallb (fun c => negb (ign c)) (categorize s) = true /\
              no_arg_spacer (fst (tokens_of_string s)) = false /\ estr t <> s.
Proof.
  exists doc3. eexists.
  split; [vm_compute; reflexivity|]. vm_compute. repeat split. discriminate.
Qed.

Theorem roundtrip_needs_no_nul :
  exists s t, parse s true [] = Ok t /\ nobare t = true /\
              hypb (all_skip []) (fst (tokens_of_string s)) = true /\
              no_arg_spacer (fst (tokens_of_string s)) = true /\
              forallb (fun c => negb (ign c)) (categorize s) = false /\ estr t <> s.
Proof.
  exists doc6. eexists.
  split; [vm_compute; reflexivity|]. vm_compute. repeat split. discriminate.
Qed.
