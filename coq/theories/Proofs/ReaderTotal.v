(* TOT: with fuel 3*|toks| + c the reader never runs out of fuel, and its
   result is a tree or one of the three diagnostic errors: no StopIteration,
   no KeyError (DESIGN.md section 5, C06). *)
From Coq Require Import List NArith ZArith Bool Lia.
From TexModel Require Import Base Tables Chars Tokenizer Tree Reader.
From TexProofs Require Import ReaderLen.
Import ListNotations.

Definition diag {A} (r : res A) : Prop :=
  match r with
  | Ok _ => True
  | Err EOFError | Err TypeError | Err AssertionError => True
  | Err _ => False
  end.

Lemma diag_bind {A B} (r : res A) (k : A -> res B) :
  diag r -> (forall a, r = Ok a -> diag (k a)) -> diag (bind r k).
Proof. destruct r as [a|e]; simpl; auto. Qed.

(* ------------------------------------------------- facts read off tables *)

Lemma group_begin_brace c : is_tc TGroupBegin c = true -> group_kind_of_begin (tcat c) <> None.
Proof. unfold is_tc. intro H. apply tc_eqb_eq in H. rewrite H. vm_compute. discriminate. Qed.

Lemma group_begin_bracket c : is_tc TBracketBegin c = true -> group_kind_of_begin (tcat c) <> None.
Proof. unfold is_tc. intro H. apply tc_eqb_eq in H. rewrite H. vm_compute. discriminate. Qed.

Lemma end_has_no_signature name : str_eqb name s_end = true -> signature_of name = ((-1)%Z, (-1)%Z).
Proof. intro H. apply str_eqb_eq in H. subst. vm_compute. reflexivity. Qed.

Lemma read_skip_env_diag name args pos toks : diag (read_skip_env name args pos toks).
Proof.
  unfold read_skip_env. destruct (skip_scan _ _ _) as [b r].
  destruct toks; simpl; auto. destruct r; simpl; auto. destruct (starts_with _ _); simpl; auto.
Qed.

(* ------------------------- what a non-empty argument list says about toks *)

(* the token after an optional spacer *)
Definition head_after_spacer (toks : list token) : option token :=
  match snd (read_spacer toks) with c :: _ => Some c | [] => None end.

Definition opens_group (toks : list token) : Prop :=
  exists c, head_after_spacer toks = Some c /\ group_kind_of_begin (tcat c) <> None.

Lemma opt_nothing_or_group f args nopt strict m toks args' n' rest :
  read_arg_optional f args nopt strict m toks = Ok ((args', n'), rest) ->
  (args' = args /\ rest = toks) \/ opens_group toks.
Proof.
  destruct f as [|f]; [discriminate|]. simpl.
  destruct (nopt =? 0)%Z; [intro H; inversion H; auto|].
  destruct (read_spacer toks) as [b src1] eqn:Es.
  destruct src1 as [|c src2]; [intro H; inversion H; auto|].
  destruct (is_tc TBracketBegin c) eqn:Ec; [|intro H; inversion H; auto].
  intros _. right. exists c. unfold head_after_spacer. rewrite Es. simpl.
  split; [reflexivity | apply group_begin_bracket; exact Ec].
Qed.

Lemma req_nothing_or_group f args nreq strict m toks args' n' rest :
  (nreq < 0)%Z ->
  read_arg_required f args nreq strict m toks = Ok ((args', n'), rest) ->
  (args' = args /\ rest = toks) \/ opens_group toks.
Proof.
  intro Hn. destruct f as [|f]; [discriminate|]. simpl.
  destruct (nreq =? 0)%Z; [intro H; inversion H; auto|].
  destruct toks as [|t0 ts]; [intro H; inversion H; auto|].
  destruct (read_spacer (t0 :: ts)) as [b src1] eqn:Es.
  destruct src1 as [|c src2]; [intro H; inversion H; auto|].
  destruct (is_tc TGroupBegin c) eqn:Ec.
  - intros _. right. exists c. unfold head_after_spacer. rewrite Es. simpl.
    split; [reflexivity | apply group_begin_brace; exact Ec].
  - destruct (0 <? nreq)%Z eqn:E0; [lia|]. intro H; inversion H; auto.
Qed.

Lemma head_not_spacer t ts k :
  is_tc k t = true -> k <> TMergedSpacer -> read_spacer (t :: ts) = (false, t :: ts).
Proof.
  unfold read_spacer, is_tc. intros H Hk. apply tc_eqb_eq in H.
  destruct (tc_beq (tcat t) TMergedSpacer) eqn:E; [|reflexivity].
  apply tc_eqb_eq in E. congruence.
Qed.

Lemma args_nonempty_opens f strict m toks a0 args rest :
  read_args f (-1) (-1) strict m toks = Ok (a0 :: args, rest) -> opens_group toks.
Proof.
  destruct f as [|f]; [discriminate|]. simpl.
  intro H. apply bind_ok in H. destruct H as ([[args1 nopt1] src1] & H1 & H).
  apply opt_nothing_or_group in H1. destruct H1 as [[-> ->]|]; [|assumption].
  apply bind_ok in H. destruct H as ([[args2 nreq1] src2] & H2 & H).
  apply req_nothing_or_group in H2; [|lia]. destruct H2 as [[-> ->]|]; [|assumption].
  apply bind_ok in H. destruct H as ([[args3 n3] src3] & H3 & H).
  assert (O3 : (args3 = [] /\ src3 = toks) \/ opens_group toks).
  { destruct toks as [|t ts]; [inversion H3; auto|].
    destruct (is_tc TBracketBegin t) eqn:Et; [|inversion H3; auto].
    right. exists t. unfold head_after_spacer.
    rewrite (head_not_spacer t ts TBracketBegin Et) by discriminate. simpl.
    split; [reflexivity | apply group_begin_bracket; exact Et]. }
  destruct O3 as [[-> ->]|]; [|assumption].
  apply bind_ok in H. destruct H as ([[args4 n4] src4] & H4 & H).
  inversion H; subst.
  destruct toks as [|t ts]; [inversion H4|].
  destruct (is_tc TGroupBegin t) eqn:Et; [|inversion H4].
  exists t. unfold head_after_spacer.
  rewrite (head_not_spacer t ts TGroupBegin Et) by discriminate. simpl.
  split; [reflexivity | apply group_begin_brace; exact Et].
Qed.

Lemma skipn_1_2 {A} (t : A) l x r : skipn 1 (t :: l) = x :: r -> skipn 2 (t :: l) = r.
Proof. intro H. change (skipn 1 (t :: l)) with l in H. subst l. reflexivity. Qed.

(* the peek in read_env: `\end` followed by a non-empty argument list *)
Lemma end_peek_opens f strict m t l cname a0 cargs rest :
  read_command f (-1) (-1) 1 strict m (t :: l) = Ok ((cname, a0 :: cargs), rest) ->
  str_eqb cname s_end = true ->
  opens_group (skipn 2 (t :: l)).
Proof.
  destruct f as [|f]; [discriminate|]. cbn [read_command].
  destruct (length (t :: l) <? 1)%nat; [discriminate|].
  destruct (skipn 1 (t :: l)) as [|name src] eqn:Es; [intro H; inversion H|].
  rewrite (skipn_1_2 _ _ _ _ Es).
  replace ((-1 <? 0)%Z && (-1 <? 0)%Z) with true by reflexivity.
  destruct (signature_of (ttext name)) as [nr no] eqn:Esig.
  intros H He. apply bind_ok in H. destruct H as ([args src1] & Ha & H).
  inversion H; subst. rewrite (end_has_no_signature _ He) in Esig. inversion Esig; subst.
  eapply args_nonempty_opens; eassumption.
Qed.

(* ---------------------------------------------------------- the induction *)

Definition tot_expr f := forall skip strict m toks,
  toks <> [] -> (3 * length toks + 1 <= f)%nat -> diag (read_expr f skip strict m toks).
Definition tot_item f := forall acc toks,
  (3 * length toks + 2 <= f)%nat -> diag (read_item_loop f acc toks).
Definition tot_math f := forall k pos strict acc toks,
  (3 * length toks + 2 <= f)%nat -> diag (read_math_loop f k pos strict acc toks).
Definition tot_env f := forall name args pos skip strict m acc toks,
  (3 * length toks + 2 <= f)%nat -> diag (read_env_loop f name args pos skip strict m acc toks).
Definition tot_command f := forall nreq nopt sk strict m toks,
  (sk <= length toks)%nat -> (3 * length toks + 1 <= f)%nat ->
  diag (read_command f nreq nopt sk strict m toks).
Definition tot_args f := forall nreq nopt strict m toks,
  (3 * length toks + 2 <= f)%nat -> diag (read_args f nreq nopt strict m toks).
Definition tot_opt f := forall args nopt strict m toks,
  (3 * length toks + 1 <= f)%nat -> diag (read_arg_optional f args nopt strict m toks).
Definition tot_req f := forall args nreq strict m toks,
  (3 * length toks + 1 <= f)%nat -> diag (read_arg_required f args nreq strict m toks).
Definition tot_arg f := forall c strict m toks,
  group_kind_of_begin (tcat c) <> None ->
  (3 * length toks + 3 <= f)%nat -> diag (read_arg f c strict m toks).
Definition tot_argloop f := forall k pos strict m acc toks,
  (3 * length toks + 2 <= f)%nat -> diag (read_arg_loop f k pos strict m acc toks).

Definition tot_all f :=
  tot_expr f /\ tot_item f /\ tot_math f /\ tot_env f /\ tot_command f /\ tot_args f /\
  tot_opt f /\ tot_req f /\ tot_arg f /\ tot_argloop f.

Ltac len_facts f :=
  pose proof (len_all_holds f) as
      (?IHe & ?IHi & ?IHm & ?IHv & ?IHc & ?IHa & ?IHo & ?IHr & ?IHg & ?IHl).

Ltac side :=
  try (exact I); try discriminate; try (apply group_begin_brace; assumption);
  try (apply group_begin_bracket; assumption); try assumption;
  try (finish_len; fail); try (solve [peel_ctx; finish_len]).

Ltac destruct_innermost x :=
  match x with
  | context [match ?y with _ => _ end] => destruct_innermost y
  | _ => let E := fresh "E" in destruct x eqn:E
  end.

Arguments mem_str : simpl never.

(* one step on a goal  diag <reader body> *)
Ltac dstep :=
  match goal with
  | |- diag (Ok _) => exact I
  | |- diag (Err EOFError) => exact I
  | |- diag (Err TypeError) => exact I
  | |- diag (Err AssertionError) => exact I
  | |- diag (read_skip_env _ _ _ _) => apply read_skip_env_diag
  | |- diag (bind ?r ?k) =>
    apply diag_bind; [ | let a := fresh "a" in let Ea := fresh "Ea" in intros a Ea ]
  | IH : tot_expr ?f |- diag (read_expr ?f _ _ _ _) => apply IH; side
  | IH : tot_item ?f |- diag (read_item_loop ?f _ _) => apply IH; side
  | IH : tot_math ?f |- diag (read_math_loop ?f _ _ _ _ _) => apply IH; side
  | IH : tot_env ?f |- diag (read_env_loop ?f _ _ _ _ _ _ _ _) => apply IH; side
  | IH : tot_command ?f |- diag (read_command ?f _ _ _ _ _ _) => apply IH; side
  | IH : tot_args ?f |- diag (read_args ?f _ _ _ _ _) => apply IH; side
  | IH : tot_opt ?f |- diag (read_arg_optional ?f _ _ _ _ _) => apply IH; side
  | IH : tot_req ?f |- diag (read_arg_required ?f _ _ _ _ _) => apply IH; side
  | IH : tot_arg ?f |- diag (read_arg ?f _ _ _ _) => apply IH; side
  | IH : tot_argloop ?f |- diag (read_arg_loop ?f _ _ _ _ _ _) => apply IH; side
  | |- diag (match ?x with _ => _ end) => destruct_innermost x
  end.

Lemma tot_all_holds : forall f, tot_all f.
Proof.
  induction f as [|f IH].
  { unfold tot_all, tot_expr, tot_item, tot_math, tot_env, tot_command, tot_args, tot_opt,
      tot_req, tot_arg, tot_argloop.
    repeat match goal with |- _ /\ _ => split end; intros; lia. }
  destruct IH as (Te & Ti & Tm & Tv & Tc & Ta & To & Tr & Tg & Tl).
  len_facts f.
  unfold tot_all.
  repeat match goal with |- _ /\ _ => split end;
    [unfold tot_expr | unfold tot_item | unfold tot_math | unfold tot_env | unfold tot_command
     | unfold tot_args | unfold tot_opt | unfold tot_req | unfold tot_arg | unfold tot_argloop].
  - intros skip strict m toks Hne Hf. simpl. repeat dstep. all: try (exfalso; congruence).
  - intros acc toks Hf. simpl. repeat dstep. all: try (exfalso; congruence).
  - intros k pos strict acc toks Hf. simpl. repeat dstep. all: try (exfalso; congruence).
  - intros name args pos skip strict m acc toks Hf. simpl. repeat dstep.
    all: try (exfalso; congruence).
    (* the branch that closes the environment: the peek matched `\end` with a
       non-empty argument list, so a group opens after the optional spacer *)
    all: match goal with
         | Ea : read_command _ _ _ 1 _ _ _ = Ok (_, _ :: _, _), E3 : str_eqb _ s_end = true,
           Es : read_spacer (skipn 2 _) = _ |- _ =>
           pose proof (end_peek_opens _ _ _ _ _ _ _ _ _ Ea E3) as (c0 & Hc & Hk);
           unfold head_after_spacer in Hc; rewrite Es in Hc; simpl in Hc;
           try discriminate Hc; inversion Hc; subst; exact Hk
         end.
  - intros nreq nopt sk strict m toks Hsk Hf. simpl. repeat dstep.
    all: try (exfalso; congruence). all: try (exfalso; finish_len; fail).
  - intros nreq nopt strict m toks Hf. simpl. repeat dstep.
    all: try (exfalso; congruence). all: try (exfalso; finish_len; fail).
  - intros args nopt strict m toks Hf. simpl. repeat dstep.
    all: try (exfalso; congruence). all: try (exfalso; finish_len; fail).
  - intros args nreq strict m toks Hf. simpl. repeat dstep.
    all: try (exfalso; congruence). all: try (exfalso; finish_len; fail).
  - intros c strict m toks Hc Hf. simpl. repeat dstep.
    all: try (exfalso; congruence). all: try (exfalso; finish_len; fail).
  - intros k pos strict m acc toks Hf. simpl. repeat dstep.
    all: try (exfalso; congruence). all: try (exfalso; finish_len; fail).
Qed.

Lemma read_tex_loop_diag fuel efuel skip strict acc toks :
  (length toks < fuel)%nat -> (3 * length toks + 1 <= efuel)%nat ->
  diag (read_tex_loop fuel efuel skip strict acc toks).
Proof.
  revert acc toks; induction fuel as [|fu IH]; intros acc toks Hf He; [lia|].
  destruct toks as [|t ts]; [exact I|]. cbn [read_tex_loop].
  apply diag_bind.
  - apply (tot_all_holds efuel); [discriminate | exact He].
  - intros [e rest] Ee. apply (len_all_holds efuel) in Ee. apply IH; simpl in *; lia.
Qed.

Theorem parse_tokens_total toks strict user_skip : diag (parse_tokens toks strict user_skip).
Proof.
  unfold parse_tokens. apply diag_bind; [|intros; exact I].
  apply read_tex_loop_diag; unfold fuel_for; lia.
Qed.
