(* The navigation and search methods generated from the Python source
   (Model/ViewGen.v, written by harness/gen_views.py on every run) denote the
   hand-written functions of Model/Views.v.

   For each translated method M, every expression e whose argument lists hold
   only TexExprs (args_ok, what TexArgs guarantees), every name / parent /
   heap, and every call depth n with 2 * edepth e + c_M <= n:
       call n gen_v_cls k M self args None h = ODone (RVal (hand_M ...)) h'
   i.e. the interpreter of ViewDSL.v, run on the translated body, finishes
   inside the modelled fragment within the call depth with the value of the
   hand-written function.  `run_*` restate this for run_expr / run_node (call
   depth view_fuel e = 2 * edepth e + 8, empty heap).

   The proofs compute with the generated terms, so a change of a method body
   that changes the generated term makes the lemma named after the method
   fail.  (The translator normalises the usual behaviour-preserving rewrites
   away, see harness/gen_views.py; TexNode.find_all is proved for two texts,
   the __str__ methods and TexNode.__init__ by computation only, whatever
   their text.)

   TexNode.__init__ and the __str__ methods are translated as well:
   gen_N_init_ok / gen_str_*_ok prove that they are the interpreter's
   primitive reading of `TexNode(x)` and `str(x)`. *)
From Coq Require Import List NArith ZArith Bool Lia Arith Permutation.
From TexModel Require Import Base Tables Chars Tokenizer Tree Reader Views ViewDSL ViewGen.
From TexProofs Require Import ViewsProofs ConsTop StructProofs NodeProofs.
Import ListNotations.

Local Arguments call : simpl never.
Local Arguments for_loop : simpl never.
Local Arguments map_loop : simpl never.
Local Arguments filter_loop : simpl never.

(* ================================================================== *)
(* generic facts about the interpreter                                 *)

Lemma call_S n c k m self vs kw h :
  call (S n) c k m self vs kw h =
  match resolve c k m with
  | Some (k', d) =>
    match bind d vs kw h with
    | Some (en, h1) =>
      name_contents k' m self (finish d (exec_block c (call n c) self k' (m_body d) en h1 []))
    | None => OUnsup
    end
  | None => OUnsup
  end.
Proof. reflexivity. Qed.

Lemma for_loop_nil body x en h acc : for_loop body x [] en h acc = XNormal en h acc.
Proof. reflexivity. Qed.

Lemma for_loop_cons body x v l en h acc :
  for_loop body x (v :: l) en h acc =
  match body (set_var en x v) h acc with
  | XNormal en' h' acc' => for_loop body x l en' h' acc'
  | XBreak en' h' acc' => XNormal en' h' acc'
  | r => r
  end.
Proof. reflexivity. Qed.

(* a loop whose body, from any state satisfying the invariant, appends f v *)
Lemma for_loop_inv (body : env -> heap -> list value -> xres) (x : nat)
      (I : env -> heap -> Prop) (f : value -> list value) :
  forall l,
    (forall v en h acc, In v l -> I en h ->
       exists en' h', body (set_var en x v) h acc = XNormal en' h' (acc ++ f v) /\ I en' h') ->
    forall en h acc, I en h ->
      exists en' h', for_loop body x l en h acc = XNormal en' h' (acc ++ flat_map f l) /\ I en' h'.
Proof.
  induction l as [|v l IH]; intros Hbody en h acc HI.
  - exists en, h. rewrite for_loop_nil. cbn [flat_map]. rewrite app_nil_r. split; [reflexivity|exact HI].
  - destruct (Hbody v en h acc (or_introl eq_refl) HI) as (en1 & h1 & Hb & HI1).
    rewrite for_loop_cons, Hb.
    destruct (IH (fun v' en' h' acc' Hin => Hbody v' en' h' acc' (or_intror Hin)) en1 h1 (acc ++ f v) HI1)
      as (en2 & h2 & Hl & HI2).
    exists en2, h2. rewrite Hl. cbn [flat_map]. rewrite app_assoc. split; [reflexivity|exact HI2].
Qed.

Lemma map_loop_ok (ev : env -> heap -> eres) (x : nat) (g : value -> value) en h :
  forall l,
    (forall v, In v l -> ev (set_var en x v) h = EV (g v) h) ->
    map_loop ev x l en h = AV (map g l) h.
Proof.
  induction l as [|v l IH]; intro H; [reflexivity|].
  unfold map_loop; fold map_loop. rewrite (H v (or_introl eq_refl)).
  rewrite IH; [reflexivity|]. intros v' Hv'. apply H. right. exact Hv'.
Qed.

Lemma filter_loop_ok (ev : env -> heap -> eres) (x : nat) (g : value -> bool) en h :
  forall l,
    (forall v, In v l -> ev (set_var en x v) h = EV (VBool (g v)) h) ->
    filter_loop ev x l en h = AV (filter g l) h.
Proof.
  induction l as [|v l IH]; intro H; [reflexivity|].
  unfold filter_loop; fold filter_loop. rewrite (H v (or_introl eq_refl)). cbn [truthy].
  rewrite IH; [|intros v' Hv'; apply H; right; exact Hv'].
  cbn [filter]. destruct (g v); reflexivity.
Qed.

Lemma dict_eqb_refl d : dict_eqb d d = true.
Proof.
  induction d as [|[k v] d IH]; [reflexivity|]. cbn [dict_eqb]. rewrite str_eqb_refl, IH.
  assert (Hv : sval_eqb v v = true).
  { destruct v as [s|l]; cbn [sval_eqb]; [apply str_eqb_refl|].
    induction l as [|s l IHl]; [reflexivity|]. cbn [strs_eqb]. rewrite str_eqb_refl, IHl. reflexivity. }
  rewrite Hv. reflexivity.
Qed.

Lemma heap_eqb_refl h : heap_eqb h h = true.
Proof.
  induction h as [|d h IH]; [reflexivity|]. cbn [heap_eqb]. rewrite dict_eqb_refl, IH. reflexivity.
Qed.

Lemma retag_tagged p o : forall l i, retag p i (map (VExpr o) l) = Some (tagged p i l).
Proof.
  induction l as [|x l IH]; intro i; [reflexivity|].
  cbn [map retag tagged]. rewrite IH. reflexivity.
Qed.

Lemma tagged_none : forall l i, tagged None i l = map (VExpr None) l.
Proof. induction l as [|x l IH]; intro i; [reflexivity|]. cbn [tagged map option_map]. rewrite IH. reflexivity. Qed.

Lemma tagged_some q : forall l i, tagged (Some q) i l = map tagv (wrap_from q i l).
Proof.
  induction l as [|x l IH]; intro i; [reflexivity|].
  cbn [tagged wrap_from map option_map]. rewrite IH. reflexivity.
Qed.

Lemma is_infix_char ch s : is_infix [ch] s = mem_N ch s.
Proof.
  induction s as [|x s IH]; [reflexivity|].
  assert (Hs : starts_with s [] = true) by (destruct s; reflexivity).
  change (is_infix [ch] (x :: s)) with ((N.eqb x ch && starts_with s []) || is_infix [ch] s).
  rewrite Hs, IH, andb_true_r. unfold mem_N. cbn [existsb]. rewrite (N.eqb_sym x ch). reflexivity.
Qed.

(* ================================================================== *)
(* facts about the hand-written model                                  *)

Lemma args_ok_inner l :
  (fix all_ok (l : list expr) : bool :=
     match l with
     | [] => true
     | x :: l' => args_ok x && all_ok l'
     end) l = forallb args_ok l.
Proof. induction l as [|x l IH]; [reflexivity|]. cbn [forallb]. rewrite IH. reflexivity. Qed.

Lemma args_ok_eq e :
  args_ok e = match e with
              | EText _ | ERaw _ _ | EStr _ => true
              | ECmd _ a b _ | ENamed _ a b _ =>
                forallb is_texexpr a && forallb args_ok a && forallb args_ok b
              | EMath _ b _ | EGroup _ b _ | ERoot b => forallb args_ok b
              end.
Proof. destruct e; try reflexivity; cbn [args_ok]; rewrite ?args_ok_inner; reflexivity. Qed.

Lemma expr_all_split e :
  expr_all e = flat_map expr_contents (expr_args e) ++ raw_contents e.
Proof. destruct e; reflexivity. Qed.

(* what args_ok gives for one argument *)
Lemma args_ok_arg e a :
  args_ok e = true -> In a (expr_args e) ->
  is_texexpr a = true /\ args_ok a = true /\ edepth a < edepth e.
Proof.
  intros Hok Hin. rewrite args_ok_eq in Hok. rewrite (edepth_eq e).
  destruct e as [t|s p|s|n a0 b p|n a0 b p|k b p|k b p|b]; cbn [expr_args] in Hin; try destruct Hin.
  - apply andb_true_iff in Hok. destruct Hok as [Hok _]. apply andb_true_iff in Hok.
    destruct Hok as [Ht Ha]. rewrite forallb_forall in Ht, Ha.
    pose proof (maxdepth_in a a0 Hin). repeat split; [apply Ht|apply Ha|lia]; exact Hin.
  - apply andb_true_iff in Hok. destruct Hok as [Hok _]. apply andb_true_iff in Hok.
    destruct Hok as [Ht Ha]. rewrite forallb_forall in Ht, Ha.
    pose proof (maxdepth_in a a0 Hin). repeat split; [apply Ht|apply Ha|lia]; exact Hin.
Qed.

Lemma args_ok_body e x : args_ok e = true -> In x (raw_contents e) -> args_ok x = true.
Proof.
  intros Hok Hin. rewrite args_ok_eq in Hok.
  destruct e as [t|s p|s|n a0 b p|n a0 b p|k b p|k b p|b]; cbn [raw_contents] in Hin.
  - destruct Hin as [<-|[]]. reflexivity.
  - destruct Hin.
  - destruct Hin.
  - apply andb_true_iff in Hok. destruct Hok as [_ Hb]. rewrite forallb_forall in Hb. apply Hb, Hin.
  - apply andb_true_iff in Hok. destruct Hok as [_ Hb]. rewrite forallb_forall in Hb. apply Hb, Hin.
  - rewrite forallb_forall in Hok. apply Hok, Hin.
  - rewrite forallb_forall in Hok. apply Hok, Hin.
  - rewrite forallb_forall in Hok. apply Hok, Hin.
Qed.

Lemma args_ok_unwrap x : args_ok x = true -> args_ok (unwrap x) = true.
Proof. destruct x; intro H; try exact H; reflexivity. Qed.

(* every item of expr.contents is again args_ok *)
Lemma args_ok_contents : forall d e x,
  edepth e <= d -> args_ok e = true -> In x (expr_contents e) -> args_ok x = true.
Proof.
  induction d as [|d IH]; intros e x Hd Hok Hin.
  - rewrite expr_contents_eq, expr_all_split in Hin. apply clean_in in Hin.
    destruct Hin as [_ [y [Hy ->]]]. apply args_ok_unwrap. apply in_app_or in Hy. destruct Hy as [Hy|Hy].
    + apply in_flat_map in Hy. destruct Hy as [a [Ha _]].
      destruct (args_ok_arg e a Hok Ha) as (_ & _ & Hlt). lia.
    + exact (args_ok_body e y Hok Hy).
  - rewrite expr_contents_eq, expr_all_split in Hin. apply clean_in in Hin.
    destruct Hin as [_ [y [Hy ->]]]. apply args_ok_unwrap. apply in_app_or in Hy. destruct Hy as [Hy|Hy].
    + apply in_flat_map in Hy. destruct Hy as [a [Ha Hy]].
      destruct (args_ok_arg e a Hok Ha) as (_ & Hoka & Hlt).
      apply (IH a y); [lia|exact Hoka|exact Hy].
    + exact (args_ok_body e y Hok Hy).
Qed.

Lemma args_ok_item n x : args_ok (snd n) = true -> In x (contents n) -> args_ok (snd x) = true.
Proof.
  intros Hok Hin. apply contents_in in Hin. destruct Hin as [_ [_ Hin]].
  exact (args_ok_contents (edepth (snd n)) (snd n) (snd x) (le_n _) Hok Hin).
Qed.

(* ================================================================== *)
(* expression level: TexExpr.all / contents / children                 *)

Lemma res_E k m d :
  k <> KNode -> gen_v_cls KExpr m = Some d -> gen_v_cls KEnv m = None ->
  resolve gen_v_cls k m = Some (KExpr, d).
Proof.
  intros Hk Hd Hn. destruct k; [contradiction| |]; unfold resolve; rewrite ?Hn, Hd; reflexivity.
Qed.

Lemma kind_of_expr p e : is_texexpr e = true ->
  exists k, kind_of (VExpr p e) = Some k /\ k <> KNode.
Proof.
  intro H. cbn [kind_of]. destruct (is_env e).
  - exists KEnv. split; [reflexivity|discriminate].
  - rewrite H. exists KExpr. split; [reflexivity|discriminate].
Qed.

(* Stepping through a body.  cbn must never unfold exec_stmt / exec_block or
   see a TFilter / TMap: the closures `exec_block b`, `eval c` handed to the
   list iterators are partial applications of a mutual fixpoint, which cbn
   cannot fold back.  Statements are therefore stepped by the equations below
   (all by reflexivity); the closures appear under the names run_block /
   run_tm. *)
Definition run_block := exec_block.
Definition run_tm := eval.
Definition run_args := eval_args.

Section Steps.
Variable c : cls.
Variable f : callfn.
Variable s : value.
Variable k : kind.
Notation XB := (exec_block c f s k).
Notation XS := (exec_stmt c f s k).
Notation EV_ := (eval c f s k).

Lemma exec_nil en h acc : XB BNil en h acc = XNormal en h acc.
Proof. reflexivity. Qed.
Lemma exec_cons st b en h acc :
  XB (BCons st b) en h acc
  = match XS st en h acc with
    | XNormal en' h' acc' => XB b en' h' acc'
    | x => x
    end.
Proof. reflexivity. Qed.
Lemma exec_expr t en h acc : XS (SExpr t) en h acc = with_val (EV_ t en h) (fun _ h1 => XNormal en h1 acc).
Proof. reflexivity. Qed.
Lemma exec_assign x t en h acc :
  XS (SAssign x t) en h acc = with_val (EV_ t en h) (fun v h1 => XNormal (set_var en x v) h1 acc).
Proof. reflexivity. Qed.
Lemma exec_setparent x t en h acc :
  XS (SSetParent x t) en h acc
  = with_val (EV_ t en h) (fun v h1 =>
      match lookup en x, v with
      | Some (VNode p e _), VNode q _ _ => XNormal (set_var en x (VNode p e (PNode q))) h1 acc
      | _, _ => XUnsup
      end).
Proof. reflexivity. Qed.
Lemma exec_setitem x ky t en h acc :
  XS (SSetItem x ky t) en h acc
  = with_val (EV_ t en h) (fun v h1 =>
      match lookup en x, sval_of v with
      | Some (VDict a), Some sv =>
        match nth_error h1 a with
        | Some d => XNormal en (heap_set h1 a (dict_set d ky sv)) acc
        | None => XUnsup
        end
      | _, _ => XUnsup
      end).
Proof. reflexivity. Qed.
Lemma exec_return t en h acc : XS (SReturn t) en h acc = with_val (EV_ t en h) (fun v h1 => XReturn v h1 acc).
Proof. reflexivity. Qed.
Lemma exec_yield t en h acc :
  XS (SYield t) en h acc = with_val (EV_ t en h) (fun v h1 => XNormal en h1 (acc ++ [v])).
Proof. reflexivity. Qed.
Lemma exec_yieldfrom t en h acc :
  XS (SYieldFrom t) en h acc
  = with_val (EV_ t en h) (fun v h1 => match v with VList l => XNormal en h1 (acc ++ l) | _ => XUnsup end).
Proof. reflexivity. Qed.
Lemma exec_assert t en h acc :
  XS (SAssert t) en h acc
  = with_val (EV_ t en h) (fun v h1 =>
      match truthy v with
      | Some true => XNormal en h1 acc
      | Some false => XExc XAssertion h1
      | None => XUnsup
      end).
Proof. reflexivity. Qed.
Lemma exec_if cnd a b en h acc :
  XS (SIf cnd a b) en h acc
  = with_val (EV_ cnd en h) (fun v h1 =>
      match truthy v with
      | Some true => XB a en h1 acc
      | Some false => XB b en h1 acc
      | None => XUnsup
      end).
Proof. reflexivity. Qed.
Lemma exec_for x t b en h acc :
  XS (SFor x t b) en h acc
  = with_val (EV_ t en h) (fun v h1 =>
      match iter_of v with
      | Some l => for_loop (run_block c f s k b) x l en h1 acc
      | None => XUnsup
      end).
Proof. reflexivity. Qed.
Lemma exec_for2 x y t b en h acc :
  XS (SFor2 x y t b) en h acc
  = with_val (EV_ t en h) (fun v h1 =>
      match v with
      | VList l => for_loop2 (run_block c f s k b) x y l en h1 acc
      | _ => XUnsup
      end).
Proof. reflexivity. Qed.
Lemma exec_break en h acc : XS SBreak en h acc = XBreak en h acc.
Proof. reflexivity. Qed.
Lemma exec_try t e hd en h acc :
  XS (STryReturn t e hd) en h acc
  = match EV_ t en h with
    | EV v h1 => XReturn v h1 acc
    | EX e' h1 => if exn_eqb e e' then XB hd en h1 acc else XExc e' h1
    | EUnsup => XUnsup
    | EFuel => XFuel
    end.
Proof. reflexivity. Qed.
Lemma run_block_eq b : run_block c f s k b = XB b.
Proof. reflexivity. Qed.

Lemma eval_filter x cnd t1 en h :
  EV_ (TFilter x cnd t1) en h
  = match EV_ t1 en h with
    | EV (VList l) h1 =>
      of_ares (filter_loop (run_tm c f s k cnd) x l en h1) (fun vs h2 =>
        if heap_eqb h1 h2 then EV (VList vs) h2 else EUnsup)
    | EV _ _ => EUnsup
    | x => x
    end.
Proof. cbn [eval]. destruct (eval c f s k t1 en h) as [[] h1| | |]; reflexivity. Qed.
Lemma eval_map x b t1 en h :
  EV_ (TMap x b t1) en h
  = match EV_ t1 en h with
    | EV (VList l) h1 =>
      of_ares (map_loop (run_tm c f s k b) x l en h1) (fun vs h2 =>
        if heap_eqb h1 h2 then EV (VList vs) h2 else EUnsup)
    | EV _ _ => EUnsup
    | x => x
    end.
Proof. cbn [eval]. destruct (eval c f s k t1 en h) as [[] h1| | |]; reflexivity. Qed.
Lemma eval_chainstar xs st en h :
  EV_ (TChainStar xs st) en h
  = of_ares (eval_args c f s k xs en h) (fun vs h1 =>
      match run_tm c f s k st en h1 with
      | EV (VList ls) h2 => lift (option_map VList (concat_vals (vs ++ ls))) h2
      | EV _ _ => EUnsup
      | x => x
      end).
Proof. reflexivity. Qed.
Lemma eval_join sep x b t1 en h :
  EV_ (TJoin sep x b t1) en h
  = match EV_ t1 en h with
    | EV v h1 =>
      match iter_of v with
      | Some l =>
        of_ares (map_loop (run_tm c f s k b) x l en h1) (fun vs h2 =>
          if heap_eqb h1 h2 then lift (option_map VStr (join_strs sep vs)) h2 else EUnsup)
      | None => EUnsup
      end
    | x => x
    end.
Proof. cbn [eval]. destruct (eval c f s k t1 en h) as [v h1| | |]; reflexivity. Qed.
Lemma eval_format lits xs en h :
  EV_ (TFormat lits xs) en h
  = of_ares (run_args c f s k xs en h)
            (fun vs h1 => lift (option_map VStr (format_strs lits vs)) h1).
Proof. reflexivity. Qed.
Lemma run_args_nil en h : run_args c f s k TNil en h = AV [] h.
Proof. reflexivity. Qed.
Lemma run_args_cons t xs en h :
  run_args c f s k (TCons t xs) en h
  = match run_tm c f s k t en h with
    | EV v h1 =>
      match run_args c f s k xs en h1 with
      | AV vs h2 => AV (v :: vs) h2
      | x => x
      end
    | EX e h1 => AX e h1
    | EUnsup => AUnsup
    | EFuel => AFuel
    end.
Proof. reflexivity. Qed.
Lemma run_tm_app t en h : run_tm c f s k t en h = EV_ t en h.
Proof. reflexivity. Qed.
Lemma run_tm_eq t : run_tm c f s k t = EV_ t.
Proof. reflexivity. Qed.
End Steps.

Ltac ev :=
  cbn [blk eval eval_args tms_of with_val lookup nth_error lift lift_b
       of_outcome of_ares fst snd bind bind_params option_map
       m_params m_pnames m_kwargs m_nlocals m_gen m_tolist m_prop set_var repeat app kw_clash existsb
       iter_of truthy negb andb orb inst inst1 Bool.eqb
       gen_TexExpr_all gen_TexExpr_children gen_TexExpr_contents gen_TexExpr_match gen_TexEnv_match
       gen_TexNode_all gen_TexNode_children gen_TexNode_contents gen_TexNode_descendants
       gen_TexNode_priv_descendants gen_TexNode_text gen_TexNode_iter gen_TexNode_getitem
       gen_TexNode_match gen_TexNode_find_all gen_TexNode_find gen_TexNode_count
       gen_TexNode_getattr gen_TexNode_init
       gen_TexNode_str gen_TexEnv_str gen_TexCmd_str gen_TexText_str gen_TexArgs_str].

Ltac fin := cbn [finish name_contents m_gen m_tolist
       gen_TexExpr_all gen_TexExpr_children gen_TexExpr_contents gen_TexExpr_match gen_TexEnv_match
       gen_TexNode_all gen_TexNode_children gen_TexNode_contents gen_TexNode_descendants
       gen_TexNode_priv_descendants gen_TexNode_text gen_TexNode_iter gen_TexNode_getitem
       gen_TexNode_match gen_TexNode_find_all gen_TexNode_find gen_TexNode_count
       gen_TexNode_getattr].

Ltac st :=
  repeat first
    [ rewrite eval_filter | rewrite eval_map | rewrite eval_chainstar | rewrite eval_join
    | rewrite exec_cons | rewrite exec_nil | rewrite exec_expr | rewrite exec_assign
    | rewrite exec_setparent | rewrite exec_setitem | rewrite exec_return | rewrite exec_yield
    | rewrite exec_yieldfrom | rewrite exec_assert | rewrite exec_if | rewrite exec_for
    | rewrite exec_for2 | rewrite exec_try | rewrite exec_break
    | progress ev ].

Ltac evh := repeat progress (st; cbn [get_attr isspace_of str_of len_of is_strlike is_texexpr is_env
                                      estr unwrap is_blank]).

(* ---- the loop bodies, as the translator writes them *)
Definition all_b1 : block := blk [SYield (TVar 1)].
Definition all_b0 : block := blk [SFor 1 (TProp M_contents (TVar 0)) all_b1].
Definition all_b2 : block := blk [SYield (TVar 2)].

Lemma body_E_all :
  m_body gen_TexExpr_all
  = blk [SFor 0 (TAttr A_args TSelf) all_b0; SFor 2 (TAttr A_contents_ TSelf) all_b2].
Proof. reflexivity. Qed.

Definition cont_b : block :=
  blk [SIf (TIsInst (TVar 0) [CTexText]) (blk [SAssign 0 (TAttr A_text_ (TVar 0))]) (blk []);
       SIf (TOr (TNot (TAnd (TIsInst (TVar 0) [CStr]) (TIsSpace (TVar 0))))
                (TAttr A_preserve_whitespace TSelf))
           (blk [SYield (TVar 0)]) (blk [])].

Lemma body_E_contents :
  m_body gen_TexExpr_contents = blk [SFor 0 (TProp M_all TSelf) cont_b].
Proof. reflexivity. Qed.

Definition shape3 (en : env) : Prop := exists a b c, en = [a; b; c].
Definition shape2 (en : env) : Prop := exists a b, en = [a; b].
Definition shape1 (en : env) : Prop := exists a, en = [a].

(* `for x in l: yield x` *)
Lemma yield_loop3 c callf self k x l en h acc :
  x < 3 -> shape3 en ->
  exists en', for_loop (run_block c callf self k (blk [SYield (TVar x)])) x l en h acc
              = XNormal en' h (acc ++ l) /\ shape3 en'.
Proof.
  intros Hx Hen.
  destruct (for_loop_inv (run_block c callf self k (blk [SYield (TVar x)])) x
              (fun en' h' => shape3 en' /\ h' = h) (fun v => [v]) l) with (en := en) (h := h) (acc := acc)
    as (en' & h' & Hl & Hs & ->).
  - intros v en0 h0 acc0 _ [(a & b & d & ->) ->].
    exists (set_var [a; b; d] x v), h. split.
    + destruct x as [|[|[|x]]]; [reflexivity|reflexivity|reflexivity|lia].
    + split; [|reflexivity]. destruct x as [|[|[|x]]]; [| | |lia]; repeat eexists.
  - split; [exact Hen|reflexivity].
  - exists en'. rewrite Hl. split; [|exact Hs]. f_equal.
    f_equal. clear. induction l as [|v l IH]; [reflexivity|]. cbn [flat_map app]. rewrite IH. reflexivity.
Qed.

Lemma set_var_length : forall en x v, x < length en -> length (set_var en x v) = length en.
Proof.
  induction en as [|a en IH]; intros x v Hx; [cbn [length] in Hx; lia|].
  destruct x as [|x]; cbn [set_var length]; [reflexivity|].
  rewrite IH; [reflexivity|]. cbn [length] in Hx. lia.
Qed.

Lemma lookup_set_var : forall en x v, lookup (set_var en x v) x = Some v.
Proof.
  unfold lookup. intros en x; revert en.
  induction x as [|x IH]; intros en v; destruct en as [|a en]; cbn [set_var nth_error]; try reflexivity.
  - apply (IH []).
  - apply IH.
Qed.

(* `for x in l: yield x`, any environment that has slot x *)
Lemma yield_loop c callf self k x l : forall en h acc, x < length en ->
  exists en', for_loop (exec_block c callf self k (blk [SYield (TVar x)])) x l en h acc
              = XNormal en' h (acc ++ l) /\ length en' = length en.
Proof.
  induction l as [|v l IH]; intros en h acc Hx.
  - exists en. rewrite for_loop_nil, app_nil_r. split; reflexivity.
  - rewrite for_loop_cons.
    assert (Hb : exec_block c callf self k (blk [SYield (TVar x)]) (set_var en x v) h acc
                 = XNormal (set_var en x v) h (acc ++ [v])).
    { cbn [blk]. rewrite exec_cons, exec_yield.
      change (eval c callf self k (TVar x) (set_var en x v) h) with (lift (lookup (set_var en x v) x) h).
      rewrite lookup_set_var. cbn [lift with_val]. rewrite exec_nil. reflexivity. }
    rewrite Hb.
    destruct (IH (set_var en x v) h (acc ++ [v])) as (en' & Hl & Hlen);
      [rewrite set_var_length; assumption|].
    exists en'. rewrite Hl, <- app_assoc, set_var_length in *; try assumption. split; [reflexivity|exact Hlen].
Qed.

Lemma length2_shape (en : env) : length en = 2 -> shape2 en.
Proof. destruct en as [|a [|b [|c0 en]]]; intro H; try discriminate H. exists a, b. reflexivity. Qed.

(* one iteration of TexExpr.contents *)
Lemma cont_b_step c callf p e k o0 x h acc :
  is_texexpr e = true ->
  exec_block c callf (VExpr p e) k cont_b (set_var [o0] 0 (VExpr None x)) h acc
  = XNormal [Some (VExpr None (unwrap x))] h
            (acc ++ if is_blank x then [] else [VExpr None (unwrap x)]).
Proof.
  intro He. unfold cont_b.
  destruct x as [t|s q|s|n a b q|n a b q|m b q|m b q|b]; evh; try reflexivity.
  - destruct (str_isspace (ttext t)); evh; rewrite ?He; evh; rewrite ?app_nil_r; reflexivity.
  - destruct (str_isspace s); evh; rewrite ?He; evh; rewrite ?app_nil_r; reflexivity.
  - destruct (str_isspace s); evh; rewrite ?He; evh; rewrite ?app_nil_r; reflexivity.
Qed.

Lemma clean_vals l :
  flat_map (fun v => match v with
                     | VExpr _ x => if is_blank x then [] else [VExpr None (unwrap x)]
                     | _ => []
                     end) (map (VExpr None) l)
  = map (VExpr None) (clean l).
Proof.
  induction l as [|x l IH]; [reflexivity|].
  cbn [map flat_map]. rewrite IH, clean_cons, is_blank_unwrap, map_app.
  destruct (is_blank x); reflexivity.
Qed.

Lemma contents_vals l :
  flat_map (fun v => match v with
                     | VExpr _ a => map (VExpr None) (expr_contents a)
                     | _ => []
                     end) (map (VExpr None) l)
  = map (VExpr None) (flat_map expr_contents l).
Proof.
  induction l as [|x l IH]; [reflexivity|].
  cbn [map flat_map]. rewrite IH, map_app. reflexivity.
Qed.

Definition E_all_at (n : nat) : Prop :=
  forall e k p h, args_ok e = true -> is_texexpr e = true -> k <> KNode ->
    2 * edepth e + 1 <= n ->
    call n gen_v_cls k M_all (VExpr p e) [] None h
    = ODone (RVal (VList (map (VExpr None) (expr_all e)))) h.

Definition E_contents_at (n : nat) : Prop :=
  forall e k p h, args_ok e = true -> is_texexpr e = true -> k <> KNode ->
    2 * edepth e + 2 <= n ->
    call n gen_v_cls k M_contents (VExpr p e) [] None h
    = ODone (RVal (VList (tagged p 0 (expr_contents e)))) h.

Lemma gen_E_contents_step n : E_all_at n -> E_contents_at (S n).
Proof.
  intros IH e k p h Hok He Hk Hn.
  rewrite call_S, (res_E k M_contents gen_TexExpr_contents Hk eq_refl eq_refl), body_E_contents.
  destruct (kind_of_expr p e He) as (k0 & Hk0 & Hk0n).
  st. unfold call_on. rewrite Hk0.
  rewrite (res_E k0 M_all gen_TexExpr_all Hk0n eq_refl eq_refl). st.
  rewrite (IH e k0 p h Hok He Hk0n) by lia. st.
  destruct (for_loop_inv (run_block gen_v_cls (call n gen_v_cls) (VExpr p e) KExpr cont_b) 0
              (fun en' h' => shape1 en' /\ h' = h)
              (fun v => match v with
                        | VExpr _ x => if is_blank x then [] else [VExpr None (unwrap x)]
                        | _ => []
                        end)
              (map (VExpr None) (expr_all e))) with (en := [@None value]) (h := h) (acc := @nil value)
    as (en' & h' & Hl & _ & ->).
  - intros v en0 h0 acc0 Hv [(o0 & ->) ->].
    apply in_map_iff in Hv. destruct Hv as (x & <- & _). unfold run_block.
    rewrite (cont_b_step _ _ p e KExpr o0 x h acc0 He).
    eexists; eexists; split; [reflexivity|]. split; [repeat eexists|reflexivity].
  - split; [repeat eexists|reflexivity].
  - rewrite Hl. st. fin. rewrite clean_vals, retag_tagged, expr_contents_eq. reflexivity.
Qed.

Lemma gen_E_all_step n : E_contents_at n -> E_all_at (S n).
Proof.
  intros IH e k p h Hok He Hk Hn.
  rewrite call_S, (res_E k M_all gen_TexExpr_all Hk eq_refl eq_refl), body_E_all.
  st. cbn [get_attr]. rewrite He. st.
  (* the loop over the arguments *)
  destruct (for_loop_inv (run_block gen_v_cls (call n gen_v_cls) (VExpr p e) KExpr all_b0) 0
              (fun en' h' => shape3 en' /\ h' = h)
              (fun v => match v with
                        | VExpr _ a => map (VExpr None) (expr_contents a)
                        | _ => []
                        end)
              (map (VExpr None) (expr_args e))) with (en := [@None value; None; None]) (h := h) (acc := @nil value)
    as (en1 & h1 & Hl1 & Hs1 & ->).
  - intros v en0 h0 acc0 Hv [(o0 & o1 & o2 & ->) ->].
    apply in_map_iff in Hv. destruct Hv as (a & <- & Ha).
    destruct (args_ok_arg e a Hok Ha) as (Hta & Hoka & Hlt).
    destruct (kind_of_expr None a Hta) as (ka & Hka & Hkan).
    unfold run_block, all_b0. st. unfold call_on. rewrite Hka.
    rewrite (res_E ka M_contents gen_TexExpr_contents Hkan eq_refl eq_refl). st.
    rewrite (IH a ka None h Hoka Hta Hkan) by lia. st. rewrite tagged_none.
    destruct (yield_loop3 gen_v_cls (call n gen_v_cls) (VExpr p e) KExpr 1
                (map (VExpr None) (expr_contents a)) [Some (VExpr None a); o1; o2] h acc0)
      as (en' & Hl & Hs); [lia|repeat eexists|].
    unfold all_b1. rewrite Hl. exists en', h. split; [reflexivity|]. split; [exact Hs|reflexivity].
  - split; [repeat eexists|reflexivity].
  - rewrite Hl1. st. cbn [get_attr]. rewrite He. st.
    destruct (yield_loop3 gen_v_cls (call n gen_v_cls) (VExpr p e) KExpr 2
                (map (VExpr None) (raw_contents e)) en1 h
                (flat_map (fun v => match v with
                                    | VExpr _ a => map (VExpr None) (expr_contents a)
                                    | _ => []
                                    end) (map (VExpr None) (expr_args e))))
      as (en2 & Hl2 & _); [lia|exact Hs1|].
    unfold all_b2. rewrite Hl2. st. fin. rewrite contents_vals, expr_all_split, map_app. reflexivity.
Qed.

Lemma gen_E_all_contents : forall n, E_all_at n /\ E_contents_at n.
Proof.
  induction n as [|n [IHa IHc]].
  - split; intros e k p h _ _ _ Hn; lia.
  - split; [apply gen_E_all_step; exact IHc | apply gen_E_contents_step; exact IHa].
Qed.

Lemma gen_E_all_ok n : E_all_at n.
Proof. apply gen_E_all_contents. Qed.
Lemma gen_E_contents_ok n : E_contents_at n.
Proof. apply gen_E_all_contents. Qed.

(* ---- TexExpr.children *)

Definition val_is_node (v : value) : bool :=
  match v with
  | VExpr _ x => is_env_or_cmd x
  | _ => false
  end.

Lemma body_E_children :
  m_body gen_TexExpr_children
  = blk [SReturn (TFilter 0 (TIsInst (TVar 0) [CTexEnv; CTexCmd]) (TProp M_contents TSelf))].
Proof. reflexivity. Qed.

Lemma tagged_in p : forall l i v, In v (tagged p i l) -> exists o x, v = VExpr o x /\ In x l.
Proof.
  induction l as [|y l IH]; intros i v H; [destruct H|].
  cbn [tagged] in H. destruct H as [<-|H].
  - eexists; eexists; split; [reflexivity|left; reflexivity].
  - destruct (IH _ _ H) as (o & x & -> & Hx). exists o, x. split; [reflexivity|right; exact Hx].
Qed.

Lemma inst_env_or_cmd o x : inst (VExpr o x) [CTexEnv; CTexCmd] = Some (is_env_or_cmd x).
Proof. destruct x; reflexivity. Qed.

Definition E_children_at (n : nat) : Prop :=
  forall e k p h, args_ok e = true -> is_texexpr e = true -> k <> KNode ->
    2 * edepth e + 3 <= n ->
    call n gen_v_cls k M_children (VExpr p e) [] None h
    = ODone (RVal (VList (filter val_is_node (tagged p 0 (expr_contents e))))) h.

Lemma gen_E_children_ok n : E_children_at n.
Proof.
  intros e k p h Hok He Hk Hn. destruct n as [|n]; [lia|].
  rewrite call_S, (res_E k M_children gen_TexExpr_children Hk eq_refl eq_refl), body_E_children.
  destruct (kind_of_expr p e He) as (k0 & Hk0 & Hk0n).
  st. unfold call_on. rewrite Hk0.
  rewrite (res_E k0 M_contents gen_TexExpr_contents Hk0n eq_refl eq_refl). st.
  rewrite (gen_E_contents_ok n e k0 p h Hok He Hk0n) by lia. st.
  rewrite (filter_loop_ok _ 0 val_is_node).
  - st. rewrite heap_eqb_refl. st. fin. reflexivity.
  - intros v Hv. apply tagged_in in Hv. destruct Hv as (o & x & -> & _).
    unfold run_tm. st. destruct x; reflexivity.
Qed.

Lemma filter_map_comm {A B} (g : B -> bool) (f : A -> B) l :
  filter g (map f l) = map f (filter (fun x => g (f x)) l).
Proof.
  induction l as [|x l IH]; [reflexivity|]. cbn [map filter]. rewrite IH. destruct (g (f x)); reflexivity.
Qed.

Lemma children_tagged q e :
  filter val_is_node (tagged (Some q) 0 (expr_contents e)) = map tagv (children (q, e)).
Proof. rewrite tagged_some, filter_map_comm. reflexivity. Qed.

(* ================================================================== *)
(* node level                                                          *)

Lemma res_N m d : gen_v_cls KNode m = Some d -> resolve gen_v_cls KNode m = Some (KNode, d).
Proof. intro H. unfold resolve. rewrite H. reflexivity. Qed.

Lemma is_env_texexpr e : is_env e = true -> is_texexpr e = true.
Proof. destruct e; intro H; try discriminate H; reflexivity. Qed.

Lemma node_texexpr e : is_env_or_cmd e = true -> is_texexpr e = true.
Proof. destruct e; intro H; try discriminate H; reflexivity. Qed.

Lemma of_item_node it : is_texexpr (snd it) = true ->
  of_item it = VNode (Some (fst it)) (snd it) (PNode (Some (parent_path (fst it)))).
Proof. intro H. unfold of_item. rewrite H. reflexivity. Qed.

Lemma of_item_str it : is_texexpr (snd it) = false -> of_item it = VExpr (Some (fst it)) (snd it).
Proof. intro H. unfold of_item. rewrite H. reflexivity. Qed.

(* ---- TexNode.__init__: the translated constructor builds what the primitive
   TexNode(x) of the interpreter (TNewNode) builds: the wrapper with parent
   None for a TexExpr, AssertionError for a Token / str *)

Lemma gen_N_init_ok n p e h :
  new_node n gen_v_cls [VExpr p e] h
  = if is_texexpr e then ODone (RVal (VNode p e PNone)) h else ODone (RExc XAssertion) h.
Proof.
  unfold new_node. cbn [gen_v_cls]. ev. cbn [m_body gen_TexNode_init].
  destruct (is_texexpr e) eqn:He; do 4 (st; rewrite ?He); cbn [init_fields length m_params gen_TexNode_init lookup nth_error];
    reflexivity.
Qed.

Theorem gen_new_node_is_init c0 callf self k n x p e en h :
  lookup en x = Some (VExpr p e) ->
  eval c0 callf self k (TNewNode (TVar x)) en h = of_outcome (new_node n gen_v_cls [VExpr p e] h).
Proof.
  intro Hx. rewrite gen_N_init_ok. cbn [eval]. rewrite Hx. cbn [lift].
  destruct (is_texexpr e); reflexivity.
Qed.

(* ---- the __str__ methods: each translated body, run on an object of its
   class with Tree.estr as the meaning of the str() calls on the parts, returns
   Tree.estr of the object: the primitive reading of str() (ViewDSL.str_of) is
   the solution of the translated equations.  The proofs only compute (they do
   not mention the shape of the bodies), so an equivalent rewriting of a
   __str__ passes and a changed one fails here. *)

Lemma map_loop_str c f s k x l en h :
  map_loop (run_tm c f s k (TStrOf (TVar x))) x (map (VExpr None) l) en h
  = AV (map (fun e => VStr (estr e)) l) h.
Proof.
  rewrite (map_loop_ok _ x (fun v => match v with VExpr _ e => VStr (estr e) | _ => VNone end)).
  - rewrite map_map. reflexivity.
  - intros v Hv. apply in_map_iff in Hv. destruct Hv as (e & <- & _).
    unfold run_tm. cbn [eval]. rewrite lookup_set_var. reflexivity.
Qed.

Lemma join_estr l : join_strs [] (map (fun e => VStr (estr e)) l) = Some (estr_list l).
Proof.
  unfold estr_list. induction l as [|x l IH]; [reflexivity|].
  cbn [map join_strs concat]. destruct l as [|y l].
  - cbn [map concat]. rewrite app_nil_r. reflexivity.
  - cbn [map] in *. rewrite IH. reflexivity.
Qed.

Lemma is_nil_map {A B} (g : A -> B) l :
  match map g l with [] => false | _ :: _ => true end
  = match l with [] => false | _ :: _ => true end.
Proof. destruct l; reflexivity. Qed.

Ltac stf :=
  repeat first
    [ rewrite eval_join | rewrite eval_format | rewrite run_args_cons | rewrite run_args_nil
    | rewrite run_tm_app
    | rewrite exec_cons | rewrite exec_nil | rewrite exec_expr | rewrite exec_assign
    | rewrite exec_return | rewrite exec_assert | rewrite exec_if | rewrite exec_for
    | progress ev ].

Ltac strs :=
  repeat progress (stf; cbn [get_attr is_texexpr is_env raw_contents expr_args expr_name expr_begin expr_end
                             str_of format_strs val_eqb option_map lift_b];
                   rewrite ?map_loop_str, ?heap_eqb_refl, ?join_estr, ?is_nil_map).

Lemma gen_str_node_ok p e par h :
  run_plain gen_v_cls gen_TexNode_str (VNode p e par) h = ODone (RVal (VStr (estr e))) h.
Proof. unfold run_plain. ev. cbn [m_body gen_TexNode_str]. strs. fin. reflexivity. Qed.

Lemma gen_str_text_ok p t h :
  run_plain gen_v_cls gen_TexText_str (VExpr p (EText t)) h = ODone (RVal (VStr (estr (EText t)))) h.
Proof. unfold run_plain. ev. cbn [m_body gen_TexText_str]. strs. fin. reflexivity. Qed.

Lemma gen_str_args_ok l h :
  run_plain gen_v_cls gen_TexArgs_str (VArgs l) h = ODone (RVal (VStr (estr_list l))) h.
Proof. unfold run_plain. ev. cbn [m_body gen_TexArgs_str]. strs. fin. reflexivity. Qed.

Lemma gen_str_cmd_ok p n a b pos h :
  run_plain gen_v_cls gen_TexCmd_str (VExpr p (ECmd n a b pos)) h
  = ODone (RVal (VStr (estr (ECmd n a b pos)))) h.
Proof.
  unfold run_plain. ev. cbn [m_body gen_TexCmd_str].
  destruct b as [|x b]; strs; fin; cbn [estr estr_list map concat app]; rewrite ?app_nil_r; reflexivity.
Qed.

Lemma gen_str_env_ok p e h : is_env e = true ->
  run_plain gen_v_cls gen_TexEnv_str (VExpr p e) h = ODone (RVal (VStr (estr e))) h.
Proof.
  intro He. unfold run_plain. ev. cbn [m_body gen_TexEnv_str].
  destruct e as [t|s0 q|s0|n a b q|n a b q|k b q|k b q|b]; try discriminate He.
  - strs. cbn [env_begin s_begin_open app]. strs.
    destruct (str_eqb n [91; 116; 101; 120; 93]%N); strs; fin;
      cbn [estr estr_list app]; rewrite ?app_nil_r, <- ?app_assoc; reflexivity.
  - destruct k; strs; fin; cbn [estr estr_list app map concat]; rewrite ?app_nil_r; reflexivity.
  - destruct k; strs; fin; cbn [estr estr_list app map concat]; rewrite ?app_nil_r; reflexivity.
  - strs. fin. reflexivity.
Qed.

(* ---- TexNode.contents *)

Definition ncont_b : block :=
  blk [SIf (TIsInst (TVar 0) [CTexExpr])
           (blk [SAssign 1 (TNewNode (TVar 0)); SSetParent 1 TSelf; SYield (TVar 1)])
           (blk [SYield (TVar 0)])].

Lemma body_N_contents :
  m_body gen_TexNode_contents = blk [SFor 0 (TProp M_contents (TAttr A_expr TSelf)) ncont_b].
Proof. reflexivity. Qed.

Lemma ncont_b_step c callf q e par it o0 o1 h acc :
  parent_path (fst it) = q ->
  exists o1',
    exec_block c callf (VNode (Some q) e par) KNode ncont_b (set_var [o0; o1] 0 (tagv it)) h acc
    = XNormal [Some (tagv it); o1'] h (acc ++ [of_item it]).
Proof.
  intro Hp. unfold ncont_b, tagv, of_item. rewrite Hp.
  destruct (is_texexpr (snd it)) eqn:Ht; do 3 (st; rewrite ?Ht); eexists; reflexivity.
Qed.

Definition N_contents_at (n : nat) : Prop :=
  forall q e par h, args_ok e = true -> is_texexpr e = true ->
    2 * edepth e + 3 <= n ->
    call n gen_v_cls KNode M_contents (VNode (Some q) e par) [] None h
    = ODone (RVal (VList (map of_item (contents (q, e))))) h.

Lemma flat_map_single {A B} (f : A -> B) l : flat_map (fun x => [f x]) l = map f l.
Proof. induction l as [|x l IH]; [reflexivity|]. cbn [flat_map map app]. rewrite IH. reflexivity. Qed.

Lemma gen_N_contents_ok n : N_contents_at n.
Proof.
  intros q e par h Hok He Hn. destruct n as [|n]; [lia|].
  rewrite call_S, (res_N M_contents gen_TexNode_contents eq_refl), body_N_contents.
  destruct (kind_of_expr (Some q) e He) as (k0 & Hk0 & Hk0n).
  st. cbn [get_attr]. st. unfold call_on. rewrite Hk0.
  rewrite (res_E k0 M_contents gen_TexExpr_contents Hk0n eq_refl eq_refl). st.
  rewrite (gen_E_contents_ok n e k0 (Some q) h Hok He Hk0n) by lia. st.
  rewrite tagged_some. change (wrap_from q 0 (expr_contents e)) with (contents (q, e)).
  destruct (for_loop_inv (run_block gen_v_cls (call n gen_v_cls) (VNode (Some q) e par) KNode ncont_b) 0
              (fun en' h' => shape2 en' /\ h' = h)
              (fun v => match v with
                        | VExpr (Some pth) x => [of_item (pth, x)]
                        | _ => []
                        end)
              (map tagv (contents (q, e)))) with (en := [@None value; None]) (h := h) (acc := @nil value)
    as (en' & h' & Hl & _ & ->).
  - intros v en0 h0 acc0 Hv [(o0 & o1 & ->) ->].
    apply in_map_iff in Hv. destruct Hv as (it & <- & Hit).
    pose proof (parent_of_contents_item (q, e) it Hit) as Hp. cbn [fst] in Hp.
    destruct (ncont_b_step gen_v_cls (call n gen_v_cls) q e par it o0 o1 h acc0 Hp) as (o1' & Hb).
    unfold run_block. rewrite Hb. eexists; eexists; split.
    + unfold tagv. destruct it as [pth x]. reflexivity.
    + split; [repeat eexists|reflexivity].
  - split; [repeat eexists|reflexivity].
  - rewrite Hl. st. fin. do 3 f_equal.
    clear. induction (contents (q, e)) as [|[pth x] l IH]; [reflexivity|].
    cbn [map flat_map tagv fst snd app]. rewrite IH. reflexivity.
Qed.

(* ---- TexNode.children *)

Definition nchild_b : block :=
  blk [SAssign 1 (TNewNode (TVar 0)); SSetParent 1 TSelf; SYield (TVar 1)].

Lemma body_N_children :
  m_body gen_TexNode_children = blk [SFor 0 (TProp M_children (TAttr A_expr TSelf)) nchild_b].
Proof. reflexivity. Qed.

Lemma nchild_b_step c callf q e par it o0 o1 h acc :
  parent_path (fst it) = q -> is_texexpr (snd it) = true ->
  exists o1',
    exec_block c callf (VNode (Some q) e par) KNode nchild_b (set_var [o0; o1] 0 (tagv it)) h acc
    = XNormal [Some (tagv it); o1'] h (acc ++ [of_item it]).
Proof.
  intros Hp Ht. unfold nchild_b, tagv, of_item. rewrite Hp, Ht. do 3 (st; rewrite ?Ht).
  eexists. reflexivity.
Qed.

Definition N_children_at (n : nat) : Prop :=
  forall q e par h, args_ok e = true -> is_texexpr e = true ->
    2 * edepth e + 4 <= n ->
    call n gen_v_cls KNode M_children (VNode (Some q) e par) [] None h
    = ODone (RVal (VList (map of_item (children (q, e))))) h.

Lemma gen_N_children_ok n : N_children_at n.
Proof.
  intros q e par h Hok He Hn. destruct n as [|n]; [lia|].
  rewrite call_S, (res_N M_children gen_TexNode_children eq_refl), body_N_children.
  destruct (kind_of_expr (Some q) e He) as (k0 & Hk0 & Hk0n).
  st. cbn [get_attr]. st. unfold call_on. rewrite Hk0.
  rewrite (res_E k0 M_children gen_TexExpr_children Hk0n eq_refl eq_refl). st.
  rewrite (gen_E_children_ok n e k0 (Some q) h Hok He Hk0n) by lia. st.
  rewrite children_tagged.
  destruct (for_loop_inv (run_block gen_v_cls (call n gen_v_cls) (VNode (Some q) e par) KNode nchild_b) 0
              (fun en' h' => shape2 en' /\ h' = h)
              (fun v => match v with
                        | VExpr (Some pth) x => [of_item (pth, x)]
                        | _ => []
                        end)
              (map tagv (children (q, e)))) with (en := [@None value; None]) (h := h) (acc := @nil value)
    as (en' & h' & Hl & _ & ->).
  - intros v en0 h0 acc0 Hv [(o0 & o1 & ->) ->].
    apply in_map_iff in Hv. destruct Hv as (it & <- & Hit).
    apply children_in in Hit. destruct Hit as [Hit Hnode].
    pose proof (parent_of_contents_item (q, e) it Hit) as Hp. cbn [fst] in Hp.
    destruct (nchild_b_step gen_v_cls (call n gen_v_cls) q e par it o0 o1 h acc0 Hp
                (node_texexpr _ Hnode)) as (o1' & Hb).
    unfold run_block. rewrite Hb. eexists; eexists; split.
    + unfold tagv. destruct it as [pth x]. reflexivity.
    + split; [repeat eexists|reflexivity].
  - split; [repeat eexists|reflexivity].
  - rewrite Hl. st. fin. do 3 f_equal.
    clear. induction (children (q, e)) as [|[pth x] l IH]; [reflexivity|].
    cbn [map flat_map tagv fst snd app]. rewrite IH. reflexivity.
Qed.

(* ---- TexNode.all (raises AssertionError on the first item that is not a TexExpr) *)

Definition nall_b : block :=
  blk [SAssert (TIsInst (TVar 0) [CTexExpr]); SAssign 1 (TNewNode (TVar 0)); SSetParent 1 TSelf;
       SYield (TVar 1)].

Lemma body_N_all :
  m_body gen_TexNode_all = blk [SFor 0 (TProp M_all (TAttr A_expr TSelf)) nall_b].
Proof. reflexivity. Qed.

(* the wrapper TexNode.all yields for an element of expr.all *)
Definition all_node (q : path) (x : expr) : value := VNode None x (PNode (Some q)).

Lemma nall_loop c callf q e par h : forall l o0 o1 acc,
  match for_loop (run_block c callf (VNode (Some q) e par) KNode nall_b) 0
                 (map (VExpr None) l) [o0; o1] h acc with
  | XNormal _ h' acc' =>
    forallb is_texexpr l = true /\ h' = h /\ acc' = acc ++ map (all_node q) l
  | XExc x h' => forallb is_texexpr l = false /\ x = XAssertion /\ h' = h
  | _ => False
  end.
Proof.
  induction l as [|x l IH]; intros o0 o1 acc.
  - rewrite for_loop_nil. cbn [map forallb]. rewrite app_nil_r. repeat split.
  - cbn [map]. rewrite for_loop_cons. unfold run_block at 1, nall_b. st.
    cbn [forallb]. destruct (is_texexpr x) eqn:Ht; do 3 (st; rewrite ?Ht).
    + fold nall_b.
      change (exec_block c callf (VNode (Some q) e par) KNode nall_b)
        with (run_block c callf (VNode (Some q) e par) KNode nall_b).
      specialize (IH (Some (VExpr None x)) (Some (all_node q x)) (acc ++ [all_node q x])).
      unfold all_node at 1 2 in IH.
      destruct (for_loop _ _ _ _ _ _); try exact IH.
      destruct IH as (H1 & H2 & H3). repeat split; [exact H1|exact H2|].
      rewrite H3, <- app_assoc. reflexivity.
    + repeat split.
Qed.

Definition all_result (q : path) (e : expr) : rv :=
  if forallb is_texexpr (expr_all e)
  then RVal (VList (map (all_node q) (expr_all e)))
  else RExc XAssertion.

Definition N_all_at (n : nat) : Prop :=
  forall q e par h, args_ok e = true -> is_texexpr e = true ->
    2 * edepth e + 2 <= n ->
    call n gen_v_cls KNode M_all (VNode (Some q) e par) [] None h = ODone (all_result q e) h.

Lemma gen_N_all_ok n : N_all_at n.
Proof.
  intros q e par h Hok He Hn. destruct n as [|n]; [lia|].
  rewrite call_S, (res_N M_all gen_TexNode_all eq_refl), body_N_all.
  destruct (kind_of_expr (Some q) e He) as (k0 & Hk0 & Hk0n).
  st. cbn [get_attr]. st. unfold call_on. rewrite Hk0.
  rewrite (res_E k0 M_all gen_TexExpr_all Hk0n eq_refl eq_refl). st.
  rewrite (gen_E_all_ok n e k0 (Some q) h Hok He Hk0n) by lia. st.
  pose proof (nall_loop gen_v_cls (call n gen_v_cls) q e par h (expr_all e) None None []) as HL.
  unfold all_result.
  destruct (for_loop _ _ _ _ _ _); try contradiction.
  - destruct HL as (-> & -> & ->). st. fin. reflexivity.
  - destruct HL as (-> & -> & ->). st. fin. reflexivity.
Qed.

(* ---- TexNode.__iter__, __getitem__ *)

Definition N_iter_at (n : nat) : Prop :=
  forall q e par h, args_ok e = true -> is_texexpr e = true ->
    2 * edepth e + 4 <= n ->
    call n gen_v_cls KNode M_iter (VNode (Some q) e par) [] None h
    = ODone (RVal (VList (map of_item (node_iter (q, e))))) h.

Lemma gen_N_iter_ok n : N_iter_at n.
Proof.
  intros q e par h Hok He Hn. destruct n as [|n]; [lia|].
  rewrite call_S, (res_N M_iter gen_TexNode_iter eq_refl).
  change (m_body gen_TexNode_iter) with (blk [SReturn (TIter (TProp M_contents TSelf))]).
  st. unfold call_on. cbn [kind_of]. rewrite (res_N M_contents gen_TexNode_contents eq_refl). st.
  rewrite (gen_N_contents_ok n q e par h Hok He) by lia. st. fin. reflexivity.
Qed.

Definition getitem_result (n : item) (i : Z) : rv :=
  match node_getitem n i with
  | Some x => RVal (of_item x)
  | None => RExc XIndex
  end.

Lemma py_nth_map {A B} (g : A -> B) l i : py_nth (map g l) i = option_map g (py_nth l i).
Proof.
  unfold py_nth. rewrite map_length.
  destruct (if (i <? 0)%Z then (i + Z.of_nat (length l))%Z else i) eqn:E; cbn [Z.ltb Z.compare];
    try reflexivity; rewrite nth_error_map; reflexivity.
Qed.

Definition N_getitem_at (n : nat) : Prop :=
  forall q e par h i, args_ok e = true -> is_texexpr e = true ->
    2 * edepth e + 4 <= n ->
    call n gen_v_cls KNode M_getitem (VNode (Some q) e par) [VInt i] None h
    = ODone (getitem_result (q, e) i) h.

Lemma gen_N_getitem_ok n : N_getitem_at n.
Proof.
  intros q e par h i Hok He Hn. destruct n as [|n]; [lia|].
  rewrite call_S, (res_N M_getitem gen_TexNode_getitem eq_refl).
  change (m_body gen_TexNode_getitem)
    with (blk [SReturn (TIndex (TProp M_contents TSelf) (TVar 0))]).
  st. unfold call_on. cbn [kind_of]. rewrite (res_N M_contents gen_TexNode_contents eq_refl). st.
  rewrite (gen_N_contents_ok n q e par h Hok He) by lia. st.
  rewrite py_nth_map. unfold getitem_result.
  change (node_getitem (q, e) i) with (py_nth (contents (q, e)) i).
  destruct (py_nth (contents (q, e)) i); st; fin; reflexivity.
Qed.

(* ---- TexNode.descendants / __descendants *)

Lemma body_N_priv :
  m_body gen_TexNode_priv_descendants
  = blk [SReturn (TChainStar (tms_of [TProp M_contents TSelf])
                             (TMap 0 (TProp M_descendants (TVar 0)) (TProp M_children TSelf)))].
Proof. reflexivity. Qed.

Lemma concat_vals_map {A} (F : A -> list value) l :
  concat_vals (map (fun x => VList (F x)) l) = Some (flat_map F l).
Proof. induction l as [|x l IH]; [reflexivity|]. cbn [map concat_vals flat_map]. rewrite IH. reflexivity. Qed.

Definition desc_vals (n : item) : value := VList (map of_item (descendants n)).

Definition N_desc_at (n : nat) : Prop :=
  forall q e par h, args_ok e = true -> is_texexpr e = true ->
    2 * edepth e + 6 <= n ->
    call n gen_v_cls KNode M_descendants (VNode (Some q) e par) [] None h
    = ODone (RVal (desc_vals (q, e))) h.

Definition N_priv_at (n : nat) : Prop :=
  forall q e par h, args_ok e = true -> is_texexpr e = true ->
    2 * edepth e + 5 <= n ->
    call n gen_v_cls KNode M_priv_descendants (VNode (Some q) e par) [] None h
    = ODone (RVal (desc_vals (q, e))) h.

Lemma gen_N_desc_step n : N_priv_at n -> N_desc_at (S n).
Proof.
  intros IH q e par h Hok He Hn.
  rewrite call_S, (res_N M_descendants gen_TexNode_descendants eq_refl).
  change (m_body gen_TexNode_descendants) with (blk [SReturn (TCall M_priv_descendants TSelf (tms_of []))]).
  st. unfold call_on. cbn [kind_of].
  rewrite (res_N M_priv_descendants gen_TexNode_priv_descendants eq_refl). st.
  rewrite (IH q e par h Hok He) by lia. st. fin. reflexivity.
Qed.

Lemma gen_N_priv_step n : N_desc_at n -> N_priv_at (S n).
Proof.
  intros IH q e par h Hok He Hn.
  rewrite call_S, (res_N M_priv_descendants gen_TexNode_priv_descendants eq_refl), body_N_priv.
  st. unfold call_on. cbn [kind_of]. rewrite (res_N M_contents gen_TexNode_contents eq_refl). st.
  rewrite (gen_N_contents_ok n q e par h Hok He) by lia. st.
  rewrite run_tm_eq. st. unfold call_on. cbn [kind_of].
  rewrite (res_N M_children gen_TexNode_children eq_refl). st.
  rewrite (gen_N_children_ok n q e par h Hok He) by lia. st.
  rewrite (map_loop_ok _ 0 (fun v => match v with
                                     | VNode (Some pth) x _ => desc_vals (pth, x)
                                     | _ => VNone
                                     end)).
  - st. rewrite heap_eqb_refl. st. rewrite map_map.
    assert (Hm : map (fun c => match of_item c with
                               | VNode (Some pth) x _ => desc_vals (pth, x)
                               | _ => VNone
                               end) (children (q, e))
                 = map (fun c => VList (map of_item (descendants c))) (children (q, e))).
    { apply map_ext_in. intros [pth x] Hc. apply children_in in Hc. destruct Hc as [_ Hnode].
      cbn [snd] in Hnode. unfold of_item. cbn [snd fst]. rewrite (node_texexpr _ Hnode). reflexivity. }
    rewrite Hm. cbn [concat_vals]. rewrite concat_vals_map. st. fin.
    unfold desc_vals. rewrite (descendants_eq (q, e)), map_app, map_flat_map. reflexivity.
  - intros v Hv. apply in_map_iff in Hv. destruct Hv as ([pth x] & <- & Hc).
    pose proof (children_depth (q, e) (pth, x) Hc) as Hd. cbn [snd] in Hd.
    apply children_in in Hc. destruct Hc as [Hc Hnode]. cbn [snd] in Hnode.
    pose proof (args_ok_item (q, e) (pth, x) Hok Hc) as Hokx. cbn [snd] in Hokx.
    unfold run_tm, of_item. cbn [fst snd]. rewrite (node_texexpr _ Hnode). st.
    unfold call_on. cbn [kind_of]. rewrite (res_N M_descendants gen_TexNode_descendants eq_refl). st.
    rewrite (IH pth x _ h Hokx (node_texexpr _ Hnode)) by lia. reflexivity.
Qed.

Lemma gen_N_desc_priv : forall n, N_desc_at n /\ N_priv_at n.
Proof.
  induction n as [|n [IHd IHp]].
  - split; intros q e par h _ _ Hn; lia.
  - split; [apply gen_N_desc_step; exact IHp | apply gen_N_priv_step; exact IHd].
Qed.

Lemma gen_N_descendants_ok n : N_desc_at n.
Proof. apply gen_N_desc_priv. Qed.
Lemma gen_N_priv_descendants_ok n : N_priv_at n.
Proof. apply gen_N_desc_priv. Qed.

(* ---- TexNode.text *)

Definition text_b : block :=
  blk [SIf (TIsInst (TVar 0) [CStr])
           (blk [SYield (TVar 0)])
           (blk [SIf (THasattr (TVar 0) M_text)
                     (blk [SFor 1 (TProp M_text (TVar 0)) (blk [SYield (TVar 1)])]) (blk [])])].

Lemma body_N_text :
  m_body gen_TexNode_text = blk [SFor 0 (TProp M_contents TSelf) text_b].
Proof. reflexivity. Qed.

Definition text_vals (n : item) : list value := map of_item (text n).

Definition N_text_at (n : nat) : Prop :=
  forall q e par h, args_ok e = true -> is_texexpr e = true ->
    2 * edepth e + 4 <= n ->
    call n gen_v_cls KNode M_text (VNode (Some q) e par) [] None h
    = ODone (RVal (VList (text_vals (q, e)))) h.

Definition text_f1 (v : value) : list value :=
  match v with
  | VExpr _ _ => [v]
  | VNode (Some pth) x _ => text_vals (pth, x)
  | _ => []
  end.

Lemma flat_map_of_map {A B C} (f : B -> list C) (g : A -> B) l :
  flat_map f (map g l) = flat_map (fun x => f (g x)) l.
Proof. induction l as [|x l IH]; [reflexivity|]. cbn [map flat_map]. rewrite IH. reflexivity. Qed.

Lemma gen_N_text_step n : N_text_at n -> N_text_at (S n).
Proof.
  intros IH q e par h Hok He Hn.
  rewrite call_S, (res_N M_text gen_TexNode_text eq_refl), body_N_text.
  st. unfold call_on. cbn [kind_of]. rewrite (res_N M_contents gen_TexNode_contents eq_refl). st.
  rewrite (gen_N_contents_ok n q e par h Hok He) by lia. st.
  destruct (for_loop_inv (run_block gen_v_cls (call n gen_v_cls) (VNode (Some q) e par) KNode text_b) 0
              (fun en' h' => shape2 en' /\ h' = h) text_f1
              (map of_item (contents (q, e)))) with (en := [@None value; None]) (h := h) (acc := @nil value)
    as (en' & h' & Hl & _ & ->).
  - intros v en0 h0 acc0 Hv [(o0 & o1 & ->) ->].
    apply in_map_iff in Hv. destruct Hv as ([pth x] & <- & Hc).
    pose proof (args_ok_item (q, e) (pth, x) Hok Hc) as Hokx. cbn [snd] in Hokx.
    destruct (is_strlike x) eqn:Hs.
    + (* a Token / str *)
      pose proof Hc as Hc'. apply contents_in in Hc'. destruct Hc' as [_ [_ Hc']].
      apply contents_item_cases in Hc'. cbn [snd] in Hc'. destruct Hc' as [_ [Hnode|[_ Hnt]]].
      { destruct x; discriminate. }
      unfold run_block, text_b, of_item. cbn [fst snd]. rewrite Hnt. st. rewrite Hs. st.
      eexists; eexists; split; [reflexivity|]. split; [repeat eexists|reflexivity].
    + (* a node *)
      pose proof (not_strlike_node (q, e) (pth, x) Hc Hs) as Hch.
      pose proof (children_depth (q, e) (pth, x) Hch) as Hd. cbn [snd] in Hd.
      apply children_in in Hch. destruct Hch as [_ Hnode]. cbn [snd] in Hnode.
      unfold run_block, text_b, of_item. cbn [fst snd]. rewrite (node_texexpr _ Hnode). st.
      unfold has_attr. cbn [kind_of]. rewrite (res_N M_text gen_TexNode_text eq_refl). st.
      rewrite (IH pth x _ h Hokx (node_texexpr _ Hnode)) by lia. st.
      unfold call_on. cbn [kind_of]. rewrite (res_N M_text gen_TexNode_text eq_refl). st.
      rewrite (IH pth x _ h Hokx (node_texexpr _ Hnode)) by lia. st.
      match goal with
      | |- context [for_loop ?b 1 ?l ?EN h acc0] =>
        destruct (yield_loop gen_v_cls (call n gen_v_cls) (VNode (Some q) e par) KNode 1 l EN h acc0)
          as (en1 & Hy & Hlen); [cbn [length]; lia|];
        change (for_loop b 1 l EN h acc0)
          with (for_loop (exec_block gen_v_cls (call n gen_v_cls) (VNode (Some q) e par) KNode
                                     (blk [SYield (TVar 1)])) 1 l EN h acc0)
      end.
      rewrite Hy. st.
      eexists; eexists; split; [reflexivity|]. split; [apply length2_shape; exact Hlen|reflexivity].
  - split; [repeat eexists|reflexivity].
  - rewrite Hl. st. fin. do 3 f_equal. unfold text_vals. rewrite (text_eq (q, e)).
    rewrite map_flat_map, flat_map_of_map.
    apply flat_map_ext_in. intros [pth x] Hc.
    destruct (is_strlike x) eqn:Hs; cbn [snd]; rewrite Hs.
    + apply contents_in in Hc. destruct Hc as [_ [_ Hc]].
      apply contents_item_cases in Hc. cbn [snd] in Hc. destruct Hc as [_ [Hnode|[_ Hnt]]].
      { destruct x; discriminate. }
      cbn [map]. rewrite (of_item_str (pth, x) Hnt). reflexivity.
    + pose proof (not_strlike_node (q, e) (pth, x) Hc Hs) as Hch.
      apply children_in in Hch. destruct Hch as [_ Hnode]. cbn [snd] in Hnode.
      rewrite (of_item_node (pth, x) (node_texexpr _ Hnode)). reflexivity.
Qed.

Lemma gen_N_text_ok : forall n, N_text_at n.
Proof.
  induction n as [|n IH]; [intros q e par h _ _ Hn; lia|]. apply gen_N_text_step. exact IH.
Qed.

(* ================================================================== *)
(* __match__                                                           *)

Lemma heap_set_nth : forall h a d d', nth_error h a = Some d -> nth_error (heap_set h a d') a = Some d'.
Proof.
  induction h as [|x h IH]; intros a d d' H; [destruct a; discriminate H|].
  destruct a as [|a]; cbn [heap_set nth_error] in *; [reflexivity|]. exact (IH a d d' H).
Qed.

Lemma heap_set_same : forall h a d, nth_error h a = Some d -> heap_set h a d = h.
Proof.
  induction h as [|x h IH]; intros a d H; [reflexivity|].
  destruct a as [|a]; cbn [heap_set nth_error] in *; [injection H as ->; reflexivity|].
  rewrite (IH a d H). reflexivity.
Qed.

Lemma heap_set_set : forall h a d d', heap_set (heap_set h a d) a d' = heap_set h a d'.
Proof.
  induction h as [|x h IH]; intros a d d'; [reflexivity|].
  destruct a as [|a]; cbn [heap_set]; [reflexivity|]. rewrite IH. reflexivity.
Qed.

(* the dict shared by the __match__ calls of one find_all: empty, or
   {'name': q} once a str query has been through TexExpr.__match__ *)
Definition dict_ok (q : query) (d : dict) : Prop :=
  match q with
  | QName s => d = [] \/ d = [([110; 97; 109; 101]%N, SStr s)]
  | QList _ => d = []
  end.

Definition match_post (q : query) (h : heap) (a : nat) (b : bool) (o : outcome) : Prop :=
  exists d', dict_ok q d' /\ o = ODone (RVal (VBool b)) (heap_set h a d').

Definition match_b : block :=
  blk [SIf (TNe (TGetattr TSelf (TVar 2)) (TVar 3)) (blk [SReturn (TBool false)]) (blk [])].

Lemma body_E_match :
  m_body gen_TexExpr_match
  = blk [SIf (TOr (TIn (TStr [123]%N) (TVar 0)) (TIn (TStr [91]%N) (TVar 0)))
             (blk [SReturn (TEq (TStrOf TSelf) (TVar 0))]) (blk []);
         SIf (TIsInst (TVar 0) [CList])
             (blk [SIf (TNotIn (TAttr A_name TSelf) (TVar 0)) (blk [SReturn (TBool false)]) (blk [])])
             (blk [SSetItem 1 [110; 97; 109; 101]%N (TVar 0)]);
         SFor2 2 3 (TItems (TVar 1)) match_b;
         SReturn (TBool true)].
Proof. reflexivity. Qed.

Lemma res_E_match : resolve gen_v_cls KExpr M_match = Some (KExpr, gen_TexExpr_match).
Proof. reflexivity. Qed.
Lemma res_Env_match : resolve gen_v_cls KEnv M_match = Some (KEnv, gen_TexEnv_match).
Proof. reflexivity. Qed.

Lemma attr_of_str_name : attr_of_str [110; 97; 109; 101]%N = Some A_name.
Proof. reflexivity. Qed.

Ltac stv := repeat progress (st; cbn [val_in val_eqb in_vals sval_of str_of option_map]).

Lemma gen_E_match_ok n p e q a h d :
  is_texexpr e = true -> nth_error h a = Some d -> dict_ok q d ->
  match_post q h a (texexpr_match q e)
    (call (S n) gen_v_cls KExpr M_match (VExpr p e) [qval q; VDict a] None h).
Proof.
  intros He Hd Hok. unfold match_post.
  rewrite call_S.
  rewrite res_E_match.
  rewrite body_E_match.
  unfold texexpr_match, query_has_brace, c_lbrace, c_lbracket.
  destruct q as [s|l]; cbn [qval].
  - (* a str *)
    stv. rewrite !is_infix_char.
    destruct (mem_N 123 s) eqn:E1; stv.
    { exists d. split; [exact Hok|]. fin. rewrite (heap_set_same h a d Hd). reflexivity. }
    destruct (mem_N 91 s) eqn:E2; stv.
    { exists d. split; [exact Hok|]. fin. rewrite (heap_set_same h a d Hd). reflexivity. }
    rewrite Hd.
    assert (Hset : dict_set d [110; 97; 109; 101]%N (SStr s) = [([110; 97; 109; 101]%N, SStr s)])
      by (destruct Hok as [->| ->]; reflexivity).
    rewrite Hset. stv. rewrite (heap_set_nth h a d _ Hd). stv.
    cbn [items_of map fst snd value_of_sval for_loop2]. unfold run_block, match_b. stv.
    rewrite attr_of_str_name. cbn [get_attr]. rewrite He. stv.
    exists [([110; 97; 109; 101]%N, SStr s)]. split; [right; reflexivity|].
    destruct (str_eqb (expr_name e) s); stv.
    + rewrite heap_eqb_refl. stv. fin. reflexivity.
    + fin. reflexivity.
  - (* a list of str *)
    stv.
    destruct (mem_str [123%N] l) eqn:E1; stv.
    { exists d. split; [exact Hok|]. fin. rewrite (heap_set_same h a d Hd). reflexivity. }
    destruct (mem_str [91%N] l) eqn:E2; stv.
    { exists d. split; [exact Hok|]. fin. rewrite (heap_set_same h a d Hd). reflexivity. }
    cbn [get_attr]. rewrite He. stv.
    exists d. split; [exact Hok|]. rewrite (heap_set_same h a d Hd).
    destruct (mem_str (expr_name e) l); stv.
    + rewrite Hd. cbn [dict_ok] in Hok. subst d. cbn [items_of map for_loop2]. stv. fin. reflexivity.
    + fin. reflexivity.
Qed.

Lemma body_Env_match :
  m_body gen_TexEnv_match
  = blk [SIf (TIn (TVar 0)
                  (TTuple (tms_of [TAttr A_name TSelf;
                                   TAdd (TAttr A_begin TSelf) (TStrOf (TAttr A_args TSelf));
                                   TAttr A_begin TSelf; TAttr A_end TSelf])))
             (blk [SReturn (TBool true)]) (blk []);
         SReturn (TSuper M_match (tms_of [TVar 0; TVar 1]))].
Proof. reflexivity. Qed.

Lemma gen_Env_match_ok n p e q a h d :
  is_env e = true -> nth_error h a = Some d -> dict_ok q d ->
  match_post q h a (texenv_match q e)
    (call (S (S n)) gen_v_cls KEnv M_match (VExpr p e) [qval q; VDict a] None h).
Proof.
  intros Henv Hd Hok. pose proof (is_env_texexpr e Henv) as He.
  rewrite call_S.
  rewrite res_Env_match.
  rewrite body_Env_match. stv. cbn [get_attr]. rewrite He, Henv. stv.
  unfold texenv_match.
  destruct q as [s|l]; cbn [qval]; stv.
  - fold (expr_begin_args e).
    replace (str_eqb s (expr_name e) || str_eqb s (expr_begin_args e) || str_eqb s (expr_begin e)
             || str_eqb s (expr_end e))
      with (str_eqb s (expr_name e) || (str_eqb s (expr_begin_args e) || (str_eqb s (expr_begin e)
             || (str_eqb s (expr_end e) || false))))
      by (rewrite orb_false_r, !orb_assoc; reflexivity).
    unfold expr_begin_args, estr_list.
    destruct (str_eqb s (expr_name e) || (str_eqb s (expr_begin e ++ concat (map estr (expr_args e)))
              || (str_eqb s (expr_begin e) || (str_eqb s (expr_end e) || false)))); stv.
    + exists d. split; [exact Hok|]. fin. rewrite (heap_set_same h a d Hd). reflexivity.
    + rewrite res_E_match. stv.
      destruct (gen_E_match_ok n p e (QName s) a h d He Hd Hok) as (d' & Hok' & Hc).
      cbn [qval] in Hc. rewrite Hc. stv. fin. exists d'. split; [exact Hok'|reflexivity].
  - rewrite res_E_match. stv.
    destruct (gen_E_match_ok n p e (QList l) a h d He Hd Hok) as (d' & Hok' & Hc).
    cbn [qval] in Hc. rewrite Hc. stv. fin. exists d'. split; [exact Hok'|reflexivity].
Qed.

Lemma gen_N_match_ok n p e par q a h d :
  is_texexpr e = true -> nth_error h a = Some d -> dict_ok q d ->
  match_post q h a (match_item q e)
    (call (S (S (S n))) gen_v_cls KNode M_match (VNode p e par) [qval q; VDict a] None h).
Proof.
  intros He Hd Hok.
  rewrite call_S, (res_N M_match gen_TexNode_match eq_refl).
  change (m_body gen_TexNode_match)
    with (blk [SReturn (TCall M_match (TAttr A_expr TSelf) (tms_of [TVar 0; TVar 1]))]).
  stv. cbn [get_attr]. stv. unfold call_on. cbn [kind_of].
  destruct (is_env e) eqn:Henv.
  - rewrite res_Env_match. stv.
    destruct (gen_Env_match_ok n p e q a h d Henv Hd Hok) as (d' & Hok' & Hc).
    rewrite Hc. stv. fin. exists d'. split; [exact Hok'|].
    destruct e; try discriminate Henv; reflexivity.
  - rewrite He. rewrite res_E_match. stv.
    destruct (gen_E_match_ok (S n) p e q a h d He Hd Hok) as (d' & Hok' & Hc).
    rewrite Hc. stv. fin. exists d'. split; [exact Hok'|].
    destruct e; try discriminate Henv; try discriminate He; reflexivity.
Qed.

(* ================================================================== *)
(* find_all / find / count / __getattr__                               *)

(* TexNode.find_all is proved for two texts of the method (whichever of them the
   translator produced is used for C03gen_find_all; both proofs are checked on
   every run, they do not depend on the generated body):
     A  for d in self.__descendants():
            if hasattr(d, '__match__') and d.__match__(name, attrs): yield d
     B  the same with an optional `limit=None` keyword: a counter of the matches
        and `if limit is not None and n_found >= limit: break` at the head of
        the loop (with limit = None the test is False: never taken) *)

(* the body d of a TexNode method run with `call n gen_v_cls` for the calls it makes *)
Definition run_def (n : nat) (m : mname) (d : mdef) (self : value) (vs : list value)
           (kw : option dict) (h : heap) : outcome :=
  match bind d vs kw h with
  | Some (en, h1) =>
    name_contents KNode m self
      (finish d (exec_block gen_v_cls (call n gen_v_cls) self KNode (m_body d) en h1 []))
  | None => OUnsup
  end.

Lemma call_run_def n m d self vs kw h :
  gen_v_cls KNode m = Some d ->
  call (S n) gen_v_cls KNode m self vs kw h = run_def n m d self vs kw h.
Proof. intro H. rewrite call_S, (res_N m d H). reflexivity. Qed.

Definition fa_b : block :=
  blk [SIf (TAnd (THasattr (TVar 2) M_match) (TCall M_match (TVar 2) (tms_of [TVar 0; TVar 1])))
           (blk [SYield (TVar 2)]) (blk [])].

Definition fa_def_A : mdef :=
  mkM [Some VNone] [[110; 97; 109; 101]%N] true 1 true true false
      (blk [SFor 2 (TCall M_priv_descendants TSelf (tms_of [])) fa_b]).

Definition fa_b2 : block :=
  blk [SIf (TAnd (TNot (TIsNone (TVar 1))) (TCmp OGe (TVar 3) (TVar 1))) (blk [SBreak]) (blk []);
       SIf (TAnd (THasattr (TVar 4) M_match) (TCall M_match (TVar 4) (tms_of [TVar 0; TVar 2])))
           (blk [SYield (TVar 4); SAssign 3 (TAdd (TVar 3) (TInt 1))]) (blk [])].

Definition fa_def_B : mdef :=
  mkM [Some VNone; Some VNone] [[110; 97; 109; 101]%N; [108; 105; 109; 105; 116]%N] true 2 true true false
      (blk [SAssign 3 (TInt 0);
            SFor 4 (TCall M_priv_descendants TSelf (tms_of [])) fa_b2]).

Lemma match_item_texexpr q x : match_item q x = true -> is_texexpr x = true.
Proof. destruct x; intro H; try discriminate H; reflexivity. Qed.

Lemma not_texexpr_not_env x : is_texexpr x = false -> is_env x = false.
Proof. destruct x; intro H; try discriminate H; reflexivity. Qed.

Definition fa_f (q : query) (v : value) : list value :=
  match v with
  | VNode _ x _ => if match_item q x then [v] else []
  | _ => []
  end.

Lemma fa_f_filter q l :
  flat_map (fa_f q) (map of_item l) = map of_item (filter (fun it => match_item q (snd it)) l).
Proof.
  induction l as [|it l IH]; [reflexivity|].
  cbn [map flat_map filter]. rewrite IH. unfold of_item at 1.
  destruct (is_texexpr (snd it)) eqn:Ht; cbn [fa_f].
  - destruct (match_item q (snd it)); [|reflexivity].
    cbn [map app]. rewrite (of_item_node it Ht). reflexivity.
  - destruct (match_item q (snd it)) eqn:Hm; [|reflexivity].
    apply match_item_texexpr in Hm. rewrite Hm in Ht. discriminate Ht.
Qed.

Lemma nth_error_snoc {A} (l : list A) x : nth_error (l ++ [x]) (length l) = Some x.
Proof. rewrite nth_error_app2 by lia. rewrite Nat.sub_diag. reflexivity. Qed.

Lemma fa_shape_A_ok n q0 e par q h kw :
  args_ok e = true -> is_texexpr e = true -> 2 * edepth e + 5 <= n ->
  kw = None \/ kw = Some [] ->
  exists h',
    run_def n M_find_all fa_def_A (VNode (Some q0) e par) [qval q] kw h
    = ODone (RVal (VList (map of_item (find_all q (q0, e))))) h'.
Proof.
  intros Hok He Hn Hkw.
  assert (Hk : run_def n M_find_all fa_def_A (VNode (Some q0) e par) [qval q] kw h
               = run_def n M_find_all fa_def_A (VNode (Some q0) e par) [qval q] (Some []) h)
    by (destruct Hkw as [->| ->]; reflexivity).
  rewrite Hk. clear Hk Hkw kw.
  unfold run_def, fa_def_A. cbn [m_body].
  st. unfold call_on. cbn [kind_of].
  rewrite (res_N M_priv_descendants gen_TexNode_priv_descendants eq_refl). st.
  rewrite (gen_N_priv_descendants_ok n q0 e par _ Hok He) by lia. unfold desc_vals. st.
  set (a := length h).
  match goal with
  | |- context [for_loop ?b ?x ?l ?EN ?HH ?ACC] =>
    destruct (for_loop_inv b x
                (fun en' h' => (exists o, en' = [Some (qval q); Some (VDict a); o])
                               /\ exists d, nth_error h' a = Some d /\ dict_ok q d)
                (fa_f q) l) with (en := EN) (h := HH) (acc := ACC)
      as (en' & h' & Hl & _)
  end.
  - intros v en0 h0 acc0 Hv [(o & ->) (d & Hd & Hdok)].
    apply in_map_iff in Hv. destruct Hv as ([pth x] & <- & _).
    unfold run_block, fa_b, of_item. cbn [fst snd].
    destruct (is_texexpr x) eqn:Ht.
    + st. unfold has_attr. cbn [kind_of]. rewrite (res_N M_match gen_TexNode_match eq_refl). st.
      unfold call_on. cbn [kind_of]. rewrite (res_N M_match gen_TexNode_match eq_refl). st.
      replace n with (S (S (S (n - 3)))) by lia.
      destruct (gen_N_match_ok (n - 3) (Some pth) x (PNode (Some (parent_path pth))) q a h0 d Ht Hd Hdok)
        as (d' & Hdok' & Hc).
      rewrite Hc. st. cbn [fa_f].
      exists (if match_item q x
              then [Some (qval q); Some (VDict a);
                    Some (VNode (Some pth) x (PNode (Some (parent_path pth))))]
              else [Some (qval q); Some (VDict a);
                    Some (VNode (Some pth) x (PNode (Some (parent_path pth))))]),
             (heap_set h0 a d').
      split.
      * destruct (match_item q x); st; [reflexivity|rewrite app_nil_r; reflexivity].
      * split; [destruct (match_item q x); eexists; reflexivity|].
        exists d'. split; [exact (heap_set_nth h0 a d d' Hd)|exact Hdok'].
    + st. unfold has_attr. cbn [kind_of]. rewrite (not_texexpr_not_env x Ht), Ht. st.
      cbn [fa_f]. rewrite app_nil_r.
      eexists; eexists; split; [reflexivity|]. split; [eexists; reflexivity|].
      exists d. split; assumption.
  - split; [eexists; reflexivity|]. exists []. split; [apply nth_error_snoc|].
    destruct q; [left|]; reflexivity.
  - rewrite Hl. st. fin. rewrite fa_f_filter. exists h'. reflexivity.
Qed.

Lemma fa_shape_B_ok n q0 e par q h kw :
  args_ok e = true -> is_texexpr e = true -> 2 * edepth e + 5 <= n ->
  kw = None \/ kw = Some [] ->
  exists h',
    run_def n M_find_all fa_def_B (VNode (Some q0) e par) [qval q] kw h
    = ODone (RVal (VList (map of_item (find_all q (q0, e))))) h'.
Proof.
  intros Hok He Hn Hkw.
  assert (Hk : run_def n M_find_all fa_def_B (VNode (Some q0) e par) [qval q] kw h
               = run_def n M_find_all fa_def_B (VNode (Some q0) e par) [qval q] (Some []) h)
    by (destruct Hkw as [->| ->]; reflexivity).
  rewrite Hk. clear Hk Hkw kw.
  unfold run_def, fa_def_B. cbn [m_body].
  st. unfold call_on. cbn [kind_of].
  rewrite (res_N M_priv_descendants gen_TexNode_priv_descendants eq_refl). st.
  rewrite (gen_N_priv_descendants_ok n q0 e par _ Hok He) by lia. unfold desc_vals. st.
  set (a := length h).
  match goal with
  | |- context [for_loop ?b ?x ?l ?EN ?HH ?ACC] =>
    destruct (for_loop_inv b x
                (fun en' h' => (exists k o, en' = [Some (qval q); Some VNone; Some (VDict a); Some (VInt k); o])
                               /\ exists d, nth_error h' a = Some d /\ dict_ok q d)
                (fa_f q) l) with (en := EN) (h := HH) (acc := ACC)
      as (en' & h' & Hl & _)
  end.
  - intros v en0 h0 acc0 Hv [(k & o & ->) (d & Hd & Hdok)].
    apply in_map_iff in Hv. destruct Hv as ([pth x] & <- & _).
    unfold run_block, fa_b2, of_item. cbn [fst snd].
    destruct (is_texexpr x) eqn:Ht.
    + st. unfold has_attr. cbn [kind_of]. rewrite (res_N M_match gen_TexNode_match eq_refl). st.
      unfold call_on. cbn [kind_of]. rewrite (res_N M_match gen_TexNode_match eq_refl). st.
      replace n with (S (S (S (n - 3)))) by lia.
      destruct (gen_N_match_ok (n - 3) (Some pth) x (PNode (Some (parent_path pth))) q a h0 d Ht Hd Hdok)
        as (d' & Hdok' & Hc).
      rewrite Hc. st. cbn [fa_f].
      exists [Some (qval q); Some VNone; Some (VDict a);
              Some (VInt (if match_item q x then k + 1 else k));
              Some (VNode (Some pth) x (PNode (Some (parent_path pth))))],
             (heap_set h0 a d').
      split.
      * destruct (match_item q x); st; [reflexivity|rewrite app_nil_r; reflexivity].
      * split; [eexists; eexists; reflexivity|].
        exists d'. split; [exact (heap_set_nth h0 a d d' Hd)|exact Hdok'].
    + st. unfold has_attr. cbn [kind_of]. rewrite (not_texexpr_not_env x Ht), Ht. st.
      cbn [fa_f]. rewrite app_nil_r.
      eexists; eexists; split; [reflexivity|]. split; [eexists; eexists; reflexivity|].
      exists d. split; assumption.
  - split; [eexists; eexists; reflexivity|]. exists []. split; [apply nth_error_snoc|].
    destruct q; [left|]; reflexivity.
  - rewrite Hl. st. fin. rewrite fa_f_filter. exists h'. reflexivity.
Qed.

Lemma gen_N_find_all_ok n q0 e par q h kw :
  args_ok e = true -> is_texexpr e = true -> 2 * edepth e + 6 <= n ->
  kw = None \/ kw = Some [] ->
  exists h',
    call n gen_v_cls KNode M_find_all (VNode (Some q0) e par) [qval q] kw h
    = ODone (RVal (VList (map of_item (find_all q (q0, e))))) h'.
Proof.
  intros Hok He Hn Hkw. destruct n as [|n]; [lia|].
  rewrite (call_run_def n M_find_all gen_TexNode_find_all _ _ _ _ eq_refl).
  first [ change gen_TexNode_find_all with fa_def_A; apply fa_shape_A_ok
        | change gen_TexNode_find_all with fa_def_B; apply fa_shape_B_ok ];
    first [assumption | lia].
Qed.

Lemma body_N_find :
  m_body gen_TexNode_find
  = blk [STryReturn (TIndex (TCallKw M_find_all TSelf (tms_of [TVar 0]) (TVar 1)) (TInt 0%Z)) XIndex
                    (blk [SReturn TNone])].
Proof. reflexivity. Qed.

Lemma gen_N_find_ok n q0 e par q h :
  args_ok e = true -> is_texexpr e = true -> 2 * edepth e + 7 <= n ->
  exists h',
    call n gen_v_cls KNode M_find (VNode (Some q0) e par) [qval q] None h
    = ODone (RVal (of_opt_item (find q (q0, e)))) h'.
Proof.
  intros Hok He Hn. destruct n as [|n]; [lia|].
  rewrite call_S, (res_N M_find gen_TexNode_find eq_refl), body_N_find.
  st. rewrite nth_error_snoc. unfold call_on. cbn [kind_of].
  rewrite (res_N M_find_all gen_TexNode_find_all eq_refl). st.
  match goal with
  | |- context [call n gen_v_cls KNode M_find_all _ _ ?KW ?HH] =>
    destruct (gen_N_find_all_ok n q0 e par q HH KW Hok He ltac:(lia) ltac:(right; reflexivity))
      as (h' & Hc)
  end.
  rewrite Hc. st. unfold find.
  destruct (find_all q (q0, e)) as [|x r]; cbn [map py_nth length Z.of_nat Z.ltb Z.compare Z.to_nat nth_error];
    st; cbn [exn_eqb]; st; fin; exists h'; reflexivity.
Qed.

Definition N_count_result (q : query) (n : item) : value := VInt (Z.of_nat (count q n)).

Lemma gen_N_count_ok n q0 e par q h :
  args_ok e = true -> is_texexpr e = true -> 2 * edepth e + 7 <= n ->
  exists h',
    call n gen_v_cls KNode M_count (VNode (Some q0) e par) [qval q] None h
    = ODone (RVal (N_count_result q (q0, e))) h'.
Proof.
  intros Hok He Hn. destruct n as [|n]; [lia|].
  rewrite call_S, (res_N M_count gen_TexNode_count eq_refl).
  change (m_body gen_TexNode_count)
    with (blk [SReturn (TLen (TCallKw M_find_all TSelf (tms_of [TVar 0]) (TVar 1)))]).
  st. rewrite nth_error_snoc. unfold call_on. cbn [kind_of].
  rewrite (res_N M_find_all gen_TexNode_find_all eq_refl). st.
  match goal with
  | |- context [call n gen_v_cls KNode M_find_all _ _ ?KW ?HH] =>
    destruct (gen_N_find_all_ok n q0 e par q HH KW Hok He ltac:(lia) ltac:(right; reflexivity))
      as (h' & Hc)
  end.
  rewrite Hc. st. cbn [len_of option_map]. st. fin. rewrite map_length. exists h'. reflexivity.
Qed.

Lemma gen_N_getattr_ok n q0 e par a h :
  args_ok e = true -> is_texexpr e = true -> 2 * edepth e + 8 <= n ->
  exists h',
    call n gen_v_cls KNode M_getattr (VNode (Some q0) e par) [VStr a] None h
    = ODone (RVal (of_opt_item (find (QName a) (q0, e)))) h'.
Proof.
  intros Hok He Hn. destruct n as [|n]; [lia|].
  rewrite call_S, (res_N M_getattr gen_TexNode_getattr eq_refl).
  change (m_body gen_TexNode_getattr)
    with (blk [SReturn (TOr (TCall M_find TSelf (tms_of [TVar 0])) (TVar 1))]).
  st. unfold call_on. cbn [kind_of]. rewrite (res_N M_find gen_TexNode_find eq_refl). st.
  destruct (gen_N_find_ok n q0 e par (QName a) h Hok He ltac:(lia)) as (h' & Hc).
  cbn [qval] in Hc. rewrite Hc. st.
  destruct (find (QName a) (q0, e)) as [x|] eqn:Hf; cbn [of_opt_item].
  - assert (Ht : is_texexpr (snd x) = true).
    { unfold find in Hf. destruct (find_all (QName a) (q0, e)) as [|y r] eqn:Hfa; [discriminate Hf|].
      injection Hf as ->. assert (Hin : In x (find_all (QName a) (q0, e))) by (rewrite Hfa; left; reflexivity).
      unfold find_all in Hin. apply filter_In in Hin. destruct Hin as [_ Hm].
      exact (match_item_texexpr _ _ Hm). }
    rewrite (of_item_node x Ht). st. fin. exists h'. reflexivity.
  - st. fin. exists h'. reflexivity.
Qed.

(* ================================================================== *)
(* the guard: parsed trees satisfy args_ok                             *)

Lemma args_ok_of_arg_in e :
  (forall x, arg_in x e -> is_texexpr x = true) -> args_ok e = true.
Proof.
  induction e as [t|s p|s|n a b p IHa IHb|n a b p IHa IHb|k b p IHb|k b p IHb|b IHb]
    using expr_ind'; intro H; rewrite args_ok_eq; try reflexivity.
  - rewrite Forall_forall in IHa, IHb. rewrite !andb_true_iff. repeat split; apply forallb_forall; intros x Hx.
    + apply H. exists (ECmd n a b p). split; [apply sub_refl|exact Hx].
    + apply IHa; [exact Hx|]. intros y (q & Hq & Hy). apply H. exists q. split; [|exact Hy].
      eapply sub_step; [exact Hq|right; exact Hx].
    + apply IHb; [exact Hx|]. intros y (q & Hq & Hy). apply H. exists q. split; [|exact Hy].
      eapply sub_step; [exact Hq|left; exact Hx].
  - rewrite Forall_forall in IHa, IHb. rewrite !andb_true_iff. repeat split; apply forallb_forall; intros x Hx.
    + apply H. exists (ENamed n a b p). split; [apply sub_refl|exact Hx].
    + apply IHa; [exact Hx|]. intros y (q & Hq & Hy). apply H. exists q. split; [|exact Hy].
      eapply sub_step; [exact Hq|right; exact Hx].
    + apply IHb; [exact Hx|]. intros y (q & Hq & Hy). apply H. exists q. split; [|exact Hy].
      eapply sub_step; [exact Hq|left; exact Hx].
  - rewrite Forall_forall in IHb. apply forallb_forall. intros x Hx.
    apply IHb; [exact Hx|]. intros y (q & Hq & Hy). apply H. exists q. split; [|exact Hy].
    eapply sub_step; [exact Hq|left; exact Hx].
  - rewrite Forall_forall in IHb. apply forallb_forall. intros x Hx.
    apply IHb; [exact Hx|]. intros y (q & Hq & Hy). apply H. exists q. split; [|exact Hy].
    eapply sub_step; [exact Hq|left; exact Hx].
  - rewrite Forall_forall in IHb. apply forallb_forall. intros x Hx.
    apply IHb; [exact Hx|]. intros y (q & Hq & Hy). apply H. exists q. split; [|exact Hy].
    eapply sub_step; [exact Hq|left; exact Hx].
Qed.

(* every tree the reader produces satisfies the guard *)
Theorem parse_args_ok (s : str) strict user t :
  parse s strict user = Ok t -> args_ok t = true /\ is_texexpr t = true.
Proof.
  intro H. apply parse_unfold in H. destruct H as (toks & _ & H).
  split.
  - apply args_ok_of_arg_in. intros x Hx.
    apply parse_tokens_nodes in H. destruct H as [_ Ha]. specialize (Ha x Hx).
    destruct Ha as [(f & c & st0 & m & toks' & rest & pre & _ & _ & Hr)|[(c & _ & ->)|(n & c & _ & _ & ->)]];
      try reflexivity.
    apply arg_shape in Hr. destruct Hr as (k & body & _ & ->). reflexivity.
  - unfold parse_tokens in H. destruct (read_tex_loop _ _ _ _ _ _) as [body|]; [|discriminate H].
    cbn in H. inversion H. reflexivity.
Qed.

(* ================================================================== *)
(* the same, for run_expr / run_node (call depth view_fuel, empty heap) *)

Definition okn (n : item) : Prop := args_ok (snd n) = true /\ is_texexpr (snd n) = true.

Lemma run_E_all p e : args_ok e = true -> is_texexpr e = true ->
  run_expr gen_v_cls M_all p e [] = Some (RVal (VList (map (VExpr None) (expr_all e)))).
Proof.
  intros Hok He. unfold run_expr, view_fuel. destruct (kind_of_expr p e He) as (k & -> & Hk).
  rewrite (gen_E_all_ok _ e k p [] Hok He Hk) by lia. reflexivity.
Qed.

Lemma run_E_contents p e : args_ok e = true -> is_texexpr e = true ->
  run_expr gen_v_cls M_contents p e [] = Some (RVal (VList (tagged p 0 (expr_contents e)))).
Proof.
  intros Hok He. unfold run_expr, view_fuel. destruct (kind_of_expr p e He) as (k & -> & Hk).
  rewrite (gen_E_contents_ok _ e k p [] Hok He Hk) by lia. reflexivity.
Qed.

Lemma run_E_contents_named q e : args_ok e = true -> is_texexpr e = true ->
  run_expr gen_v_cls M_contents (Some q) e [] = Some (RVal (VList (map tagv (contents (q, e))))).
Proof. intros Hok He. rewrite (run_E_contents (Some q) e Hok He), tagged_some. reflexivity. Qed.

Lemma run_E_contents_anon e : args_ok e = true -> is_texexpr e = true ->
  run_expr gen_v_cls M_contents None e [] = Some (RVal (VList (map (VExpr None) (expr_contents e)))).
Proof. intros Hok He. rewrite (run_E_contents None e Hok He), tagged_none. reflexivity. Qed.

Lemma run_E_children p e : args_ok e = true -> is_texexpr e = true ->
  run_expr gen_v_cls M_children p e []
  = Some (RVal (VList (filter val_is_node (tagged p 0 (expr_contents e))))).
Proof.
  intros Hok He. unfold run_expr, view_fuel. destruct (kind_of_expr p e He) as (k & -> & Hk).
  rewrite (gen_E_children_ok _ e k p [] Hok He Hk) by lia. reflexivity.
Qed.

Lemma run_E_children_named q e : args_ok e = true -> is_texexpr e = true ->
  run_expr gen_v_cls M_children (Some q) e [] = Some (RVal (VList (map tagv (children (q, e))))).
Proof. intros Hok He. rewrite (run_E_children (Some q) e Hok He), children_tagged. reflexivity. Qed.

Lemma run_E_children_anon e : args_ok e = true -> is_texexpr e = true ->
  run_expr gen_v_cls M_children None e [] = Some (RVal (VList (map (VExpr None) (expr_children e)))).
Proof.
  intros Hok He. rewrite (run_E_children None e Hok He), tagged_none, filter_map_comm. reflexivity.
Qed.

Lemma run_N_contents par n : okn n ->
  run_node gen_v_cls M_contents par n [] = Some (RVal (VList (map of_item (contents n)))).
Proof.
  destruct n as [q e]. intros [Hok He]. unfold run_node, view_fuel. cbn [fst snd] in *.
  rewrite (gen_N_contents_ok _ q e par [] Hok He) by lia. reflexivity.
Qed.

Lemma run_N_children par n : okn n ->
  run_node gen_v_cls M_children par n [] = Some (RVal (VList (map of_item (children n)))).
Proof.
  destruct n as [q e]. intros [Hok He]. unfold run_node, view_fuel. cbn [fst snd] in *.
  rewrite (gen_N_children_ok _ q e par [] Hok He) by lia. reflexivity.
Qed.

Lemma run_N_all par n : okn n ->
  run_node gen_v_cls M_all par n [] = Some (all_result (fst n) (snd n)).
Proof.
  destruct n as [q e]. intros [Hok He]. unfold run_node, view_fuel. cbn [fst snd] in *.
  rewrite (gen_N_all_ok _ q e par [] Hok He) by lia. reflexivity.
Qed.

Lemma run_N_iter par n : okn n ->
  run_node gen_v_cls M_iter par n [] = Some (RVal (VList (map of_item (node_iter n)))).
Proof.
  destruct n as [q e]. intros [Hok He]. unfold run_node, view_fuel. cbn [fst snd] in *.
  rewrite (gen_N_iter_ok _ q e par [] Hok He) by lia. reflexivity.
Qed.

Lemma run_N_getitem par n i : okn n ->
  run_node gen_v_cls M_getitem par n [VInt i] = Some (getitem_result n i).
Proof.
  destruct n as [q e]. intros [Hok He]. unfold run_node, view_fuel. cbn [fst snd] in *.
  rewrite (gen_N_getitem_ok _ q e par [] i Hok He) by lia. reflexivity.
Qed.

Lemma run_N_descendants par n : okn n ->
  run_node gen_v_cls M_descendants par n [] = Some (RVal (VList (map of_item (descendants n)))).
Proof.
  destruct n as [q e]. intros [Hok He]. unfold run_node, view_fuel. cbn [fst snd] in *.
  rewrite (gen_N_descendants_ok _ q e par [] Hok He) by lia. reflexivity.
Qed.

Lemma run_N_priv_descendants par n : okn n ->
  run_node gen_v_cls M_priv_descendants par n [] = Some (RVal (VList (map of_item (descendants n)))).
Proof.
  destruct n as [q e]. intros [Hok He]. unfold run_node, view_fuel. cbn [fst snd] in *.
  rewrite (gen_N_priv_descendants_ok _ q e par [] Hok He) by lia. reflexivity.
Qed.

Lemma run_N_text par n : okn n ->
  run_node gen_v_cls M_text par n [] = Some (RVal (VList (map of_item (text n)))).
Proof.
  destruct n as [q e]. intros [Hok He]. unfold run_node, view_fuel. cbn [fst snd] in *.
  rewrite (gen_N_text_ok _ q e par [] Hok He) by lia. reflexivity.
Qed.

Lemma run_N_find_all par n q : okn n ->
  run_node gen_v_cls M_find_all par n [qval q] = Some (RVal (VList (map of_item (find_all q n)))).
Proof.
  destruct n as [q0 e]. intros [Hok He]. unfold run_node, view_fuel. cbn [fst snd] in *.
  destruct (gen_N_find_all_ok (2 * edepth e + 8) q0 e par q [] (@None dict) Hok He ltac:(lia) (or_introl eq_refl))
    as (h' & ->). reflexivity.
Qed.

Lemma run_N_find par n q : okn n ->
  run_node gen_v_cls M_find par n [qval q] = Some (RVal (of_opt_item (find q n))).
Proof.
  destruct n as [q0 e]. intros [Hok He]. unfold run_node, view_fuel. cbn [fst snd] in *.
  destruct (gen_N_find_ok (2 * edepth e + 8) q0 e par q [] Hok He ltac:(lia)) as (h' & ->). reflexivity.
Qed.

Lemma run_N_count par n q : okn n ->
  run_node gen_v_cls M_count par n [qval q] = Some (RVal (VInt (Z.of_nat (count q n)))).
Proof.
  destruct n as [q0 e]. intros [Hok He]. unfold run_node, view_fuel. cbn [fst snd] in *.
  destruct (gen_N_count_ok (2 * edepth e + 8) q0 e par q [] Hok He ltac:(lia)) as (h' & ->). reflexivity.
Qed.

Lemma run_N_getattr par n a : okn n ->
  run_node gen_v_cls M_getattr par n [VStr a] = Some (RVal (of_opt_item (find (QName a) n))).
Proof.
  destruct n as [q0 e]. intros [Hok He]. unfold run_node, view_fuel. cbn [fst snd] in *.
  destruct (gen_N_getattr_ok (2 * edepth e + 8) q0 e par a [] Hok He ltac:(lia)) as (h' & ->). reflexivity.
Qed.

Lemma run_N_find_all_name par n q : okn n ->
  run_node gen_v_cls M_find_all par n [VStr q] = Some (RVal (VList (map of_item (find_all (QName q) n)))).
Proof. exact (run_N_find_all par n (QName q)). Qed.
Lemma run_N_find_all_list par n l : okn n ->
  run_node gen_v_cls M_find_all par n [VStrs l] = Some (RVal (VList (map of_item (find_all (QList l) n)))).
Proof. exact (run_N_find_all par n (QList l)). Qed.
Lemma run_N_find_name par n q : okn n ->
  run_node gen_v_cls M_find par n [VStr q] = Some (RVal (of_opt_item (find (QName q) n))).
Proof. exact (run_N_find par n (QName q)). Qed.
Lemma run_N_count_name par n q : okn n ->
  run_node gen_v_cls M_count par n [VStr q] = Some (RVal (VInt (Z.of_nat (count (QName q) n)))).
Proof. exact (run_N_count par n (QName q)). Qed.

(* __match__: run with the shared dict d at address 0; the result and the dict afterwards *)
Lemma run_match_ok v q d :
  (exists p e par, v = VNode p e par /\ is_texexpr e = true) \/
  (exists p e, v = VExpr p e /\ is_texexpr e = true) ->
  dict_ok q d ->
  exists d', dict_ok q d' /\
    run_match gen_v_cls v q d
    = Some (VBool (match v with VNode _ e _ | VExpr _ e => match_item q e | _ => false end), d').
Proof.
  intros Hv Hd. unfold run_match.
  destruct Hv as [(p & e & par & -> & He)|(p & e & -> & He)].
  - cbn [kind_of].
    destruct (gen_N_match_ok 0 p e par q 0 [d] d He eq_refl Hd) as (d' & Hd' & ->).
    exists d'. split; [exact Hd'|reflexivity].
  - cbn [kind_of]. destruct (is_env e) eqn:Henv.
    + destruct (gen_Env_match_ok 1 p e q 0 [d] d Henv eq_refl Hd) as (d' & Hd' & ->).
      exists d'. split; [exact Hd'|]. destruct e; try discriminate Henv; reflexivity.
    + rewrite He. destruct (gen_E_match_ok 2 p e q 0 [d] d He eq_refl Hd) as (d' & Hd' & ->).
      exists d'. split; [exact Hd'|]. destruct e; try discriminate Henv; try discriminate He; reflexivity.
Qed.

(* ================================================================== *)
(* the C04 / C03 theorems hold of the translated source                *)

(* C04 (i): generated contents = generated all, TexText unwrapped, blanks dropped *)
Theorem gen_contents_is_all_minus_blank e : args_ok e = true -> is_texexpr e = true ->
  exists l,
    run_expr gen_v_cls M_all None e [] = Some (RVal (VList (map (VExpr None) l))) /\
    run_expr gen_v_cls M_contents None e []
    = Some (RVal (VList (map (VExpr None) (filter (fun x => negb (is_blank x)) (map unwrap l))))).
Proof.
  intros Hok He. exists (expr_all e). split; [apply run_E_all; assumption|].
  rewrite (run_E_contents_anon e Hok He), expr_contents_eq. reflexivity.
Qed.

(* C04 (ii): generated children = generated contents without the strings *)
Theorem gen_children_is_contents_minus_text par n : okn n ->
  exists l,
    run_node gen_v_cls M_contents par n [] = Some (RVal (VList (map of_item l))) /\
    run_node gen_v_cls M_children par n []
    = Some (RVal (VList (map of_item (filter (fun it => negb (is_strlike (snd it))) l)))).
Proof.
  intro Hn. exists (contents n). split; [apply run_N_contents; exact Hn|].
  rewrite (run_N_children par n Hn). destruct (children_is_contents_minus_text n) as [-> _]. reflexivity.
Qed.

(* C04 (iii): generated iteration and indexing follow generated contents *)
Theorem gen_iter_index_follow_contents par n : okn n ->
  exists l,
    run_node gen_v_cls M_contents par n [] = Some (RVal (VList (map of_item l))) /\
    run_node gen_v_cls M_iter par n [] = Some (RVal (VList (map of_item l))) /\
    (forall k x, nth_error l k = Some x ->
       run_node gen_v_cls M_getitem par n [VInt (Z.of_nat k)] = Some (RVal (of_item x)) /\
       run_node gen_v_cls M_getitem par n [VInt (Z.of_nat k - Z.of_nat (length l))]
       = Some (RVal (of_item x))).
Proof.
  intro Hn. exists (contents n). split; [apply run_N_contents; exact Hn|].
  split; [apply run_N_iter; exact Hn|].
  intros k x Hx. rewrite !(run_N_getitem par n _ Hn). unfold getitem_result.
  assert (Hk : k < length (contents n)) by (apply nth_error_Some; rewrite Hx; discriminate).
  destruct (iter_index_follow_contents n) as [_ H]. destruct (H k Hk) as [-> ->].
  rewrite Hx. split; reflexivity.
Qed.

(* C04 (iv): generated descendants = the transitive closure of contents, each node once *)
Theorem gen_descendants_closure par n : okn n ->
  exists l,
    run_node gen_v_cls M_descendants par n [] = Some (RVal (VList (map of_item l))) /\
    l = contents n ++ flat_map descendants (children n) /\
    (forall x, In x l <-> reach n x) /\ NoDup (map fst l).
Proof.
  intro Hn. exists (descendants n). split; [apply run_N_descendants; exact Hn|].
  split; [apply descendants_eq|]. split; [apply descendants_is_closure|apply descendants_nodup].
Qed.

(* C04 (v): generated text = the non-blank string leaves in document order *)
Theorem gen_text_is_leaves par n : okn n ->
  exists l,
    run_node gen_v_cls M_text par n [] = Some (RVal (VList (map of_item l))) /\
    map snd l = leaves (snd n) /\
    Permutation (map snd l) (filter is_strlike (map snd (descendants n))).
Proof.
  intro Hn. exists (text n). split; [apply run_N_text; exact Hn|].
  split; [apply text_is_leaves_in_order|apply text_perm_descendants].
Qed.

(* C04 (vi): node.all at the root *)
Theorem gen_root_all par b : forallb args_ok b = true ->
  run_node gen_v_cls M_all par ([], ERoot b) []
  = Some (if forallb is_texexpr b then RVal (VList (map (all_node []) b)) else RExc XAssertion).
Proof.
  intro Hb. rewrite run_N_all; [reflexivity|]. split; [|reflexivity].
  cbn [snd]. rewrite args_ok_eq. exact Hb.
Qed.

(* C04 (vii): the parent of a generated descendant wrapper is n or a generated
   descendant wrapper, the node it is a content item of *)
Theorem gen_parent_of_descendant par n : okn n ->
  exists l,
    run_node gen_v_cls M_descendants par n [] = Some (RVal (VList (map of_item l))) /\
    forall x, In x l -> is_texexpr (snd x) = true ->
      exists m, (m = n \/ (In m l /\ is_env_or_cmd (snd m) = true)) /\ In x (contents m) /\
                of_item x = VNode (Some (fst x)) (snd x) (PNode (Some (fst m))).
Proof.
  intro Hn. exists (descendants n). split; [apply run_N_descendants; exact Hn|].
  intros x Hx Ht. destruct (parent_of_view_item n x) as (_ & _ & _ & H).
  destruct (H Hx) as (m & Hm & Hc & Hp). exists m. split; [exact Hm|]. split; [exact Hc|].
  rewrite (of_item_node x Ht), Hp. reflexivity.
Qed.

(* C03: generated descendants = the structural walk, none missing, none twice *)
Theorem gen_descendants_complete par n : okn n ->
  exists l,
    run_node gen_v_cls M_descendants par n [] = Some (RVal (VList (map of_item l))) /\
    Permutation (map snd l) (walk (snd n)) /\ NoDup (map fst l).
Proof.
  intro Hn. exists (descendants n). split; [apply run_N_descendants; exact Hn|].
  apply descendants_complete_once.
Qed.

(* C03: an identifier query finds exactly the nodes named q among the generated descendants *)
Theorem gen_find_all_spec_partial par n q : okn n -> ident_query q = true ->
  exists l,
    run_node gen_v_cls M_descendants par n [] = Some (RVal (VList (map of_item l))) /\
    run_node gen_v_cls M_find_all par n [VStr q]
    = Some (RVal (VList (map of_item
         (filter (fun it => is_env_or_cmd (snd it) && str_eqb (expr_name (snd it)) q) l)))).
Proof.
  intros Hn Hq. exists (descendants n). split; [apply run_N_descendants; exact Hn|].
  rewrite (run_N_find_all_name par n q Hn), (find_all_spec_partial q n Hq). reflexivity.
Qed.

Theorem gen_list_query_exact par n l : okn n -> query_has_brace (QList l) = false ->
  exists ds,
    run_node gen_v_cls M_descendants par n [] = Some (RVal (VList (map of_item ds))) /\
    run_node gen_v_cls M_find_all par n [VStrs l]
    = Some (RVal (VList (map of_item
         (filter (fun it => is_env_or_cmd (snd it) && mem_str (expr_name (snd it)) l) ds)))).
Proof.
  intros Hn Hq. exists (descendants n). split; [apply run_N_descendants; exact Hn|].
  rewrite (run_N_find_all_list par n l Hn), (list_query_exact l n Hq). reflexivity.
Qed.

Theorem gen_full_expr_query_spec par n q : okn n -> query_has_brace (QName q) = true ->
  exists ds,
    run_node gen_v_cls M_descendants par n [] = Some (RVal (VList (map of_item ds))) /\
    run_node gen_v_cls M_find_all par n [VStr q]
    = Some (RVal (VList (map of_item
         (filter (fun it => is_env_or_cmd (snd it)
                            && (str_eqb (estr (snd it)) q
                                || (is_env (snd it) && mem_str q (env_openings (snd it))))) ds)))).
Proof.
  intros Hn Hq. exists (descendants n). split; [apply run_N_descendants; exact Hn|].
  rewrite (run_N_find_all_name par n q Hn), (full_expr_query_spec q n Hq). reflexivity.
Qed.

(* C03: find is the head of find_all, count its length, attribute access is find *)
Theorem gen_find_count_getattr par n q : okn n ->
  exists l,
    run_node gen_v_cls M_find_all par n [qval q] = Some (RVal (VList (map of_item l))) /\
    run_node gen_v_cls M_find par n [qval q] = Some (RVal (of_opt_item (hd_error l))) /\
    run_node gen_v_cls M_count par n [qval q] = Some (RVal (VInt (Z.of_nat (length l)))) /\
    (forall a, q = QName a ->
       run_node gen_v_cls M_getattr par n [VStr a] = Some (RVal (of_opt_item (hd_error l)))).
Proof.
  intro Hn. exists (find_all q n). split; [apply run_N_find_all; exact Hn|].
  split; [rewrite (run_N_find par n q Hn), find_is_head; reflexivity|].
  split; [rewrite (run_N_count par n q Hn), count_is_length; reflexivity|].
  intros a ->. rewrite (run_N_getattr par n a Hn), find_is_head. reflexivity.
Qed.

(* the hand model's getattr (with its guard on real attributes) is the generated __getattr__ *)
Theorem gen_getattr_is_model par n a : okn n -> is_real_attr a = false ->
  exists o, getattr a n = AFound o /\
            run_node gen_v_cls M_getattr par n [VStr a] = Some (RVal (of_opt_item o)).
Proof.
  intros Hn Ha. exists (find (QName a) n). split; [apply getattr_is_find; exact Ha|].
  apply run_N_getattr. exact Hn.
Qed.

Theorem gen_absent_name_empty par n q : okn n ->
  forallb (fun d => negb (mem_str q (names_of (snd d)))) (descendants n) = true ->
  run_node gen_v_cls M_find_all par n [VStr q] = Some (RVal (VList [])) /\
  run_node gen_v_cls M_find par n [VStr q] = Some (RVal VNone) /\
  run_node gen_v_cls M_count par n [VStr q] = Some (RVal (VInt 0)).
Proof.
  intros Hn Hq. destruct (absent_name_empty q n Hq) as (H1 & H2 & H3).
  rewrite (run_N_find_all_name par n q Hn), (run_N_find_name par n q Hn),
    (run_N_count_name par n q Hn), H1, H2, H3. repeat split.
Qed.

(* ================================================================== *)
(* the guard is needed                                                 *)

(* a command whose argument list holds a bare Token: the hand model says `no
   contents`, the translated body asks the Token for `.contents` (OUnsup: an
   AttributeError in Python).  Not constructible: TexArgs refuses it. *)
Definition ex_bad : expr := ECmd [97%N] [ERaw [120%N] 0%Z] [] 0%Z.

Lemma gen_contents_unguarded_refuted :
  exists e, is_texexpr e = true /\ args_ok e = false /\
            expr_contents e = [] /\ run_expr gen_v_cls M_contents None e [] = None.
Proof. exists ex_bad. vm_compute. repeat split. Qed.

(* ================================================================== *)
(* non-vacuity                                                         *)

Example ex_okn : okn ex_root.
Proof. split; vm_compute; reflexivity. Qed.

Example ex_parse_ok : args_ok ex_tree = true /\ is_texexpr ex_tree = true.
Proof. exact (parse_args_ok ex_doc true [] ex_tree ex_parses). Qed.

Example ex_run_descendants :
  run_node gen_v_cls M_descendants PNone ex_root [] = Some (RVal (VList (map of_item (descendants ex_root))))
  /\ length (descendants ex_root) = 17.
Proof. split; vm_compute; reflexivity. Qed.

Example ex_run_find_all :
  run_node gen_v_cls M_find_all PNone ex_root [VStr s_item']
  = Some (RVal (VList (map of_item (find_all (QName s_item') ex_root))))
  /\ length (find_all (QName s_item') ex_root) = 2 /\ ident_query s_item' = true.
Proof. repeat split; vm_compute; reflexivity. Qed.

Example ex_run_match :
  run_match gen_v_cls (VNode (Some [1]) (ENamed [105; 116]%N [] [] 0%Z) PNone) (QName [105; 116]%N) []
  = Some (VBool true, [])
  /\ run_match gen_v_cls (VNode (Some [1]) (ECmd [105; 116]%N [] [] 0%Z) PNone) (QName [105; 116]%N) []
     = Some (VBool true, [([110; 97; 109; 101]%N, SStr [105; 116]%N)]).
Proof. split; vm_compute; reflexivity. Qed.

Example ex_all_asserts :
  run_node gen_v_cls M_all PNone ([], EGroup GBrace [ERaw [120%N] 0%Z] 0%Z) [] = Some (RExc XAssertion).
Proof. vm_compute. reflexivity. Qed.

Example ex_new_node :
  new_node 0 gen_v_cls [VExpr (Some [1]) (ECmd [97%N] [] [] 0%Z)] []
  = ODone (RVal (VNode (Some [1]) (ECmd [97%N] [] [] 0%Z) PNone)) []
  /\ new_node 0 gen_v_cls [VExpr None (EStr [120%N])] [] = ODone (RExc XAssertion) []
  /\ lookup [Some (VExpr None (EStr [120%N]))] 0 = Some (VExpr None (EStr [120%N])).
Proof. repeat split; vm_compute; reflexivity. Qed.

Example ex_str_env :
  is_env (ENamed [105; 116]%N [EGroup GBrace [EStr [97%N]] 0%Z] [EStr [98%N]] 0%Z) = true
  /\ run_plain gen_v_cls gen_TexEnv_str
       (VExpr None (ENamed [105; 116]%N [EGroup GBrace [EStr [97%N]] 0%Z] [EStr [98%N]] 0%Z)) []
     = ODone (RVal (VStr (estr (ENamed [105; 116]%N [EGroup GBrace [EStr [97%N]] 0%Z] [EStr [98%N]] 0%Z)))) []
  /\ length (estr (ENamed [105; 116]%N [EGroup GBrace [EStr [97%N]] 0%Z] [EStr [98%N]] 0%Z)) = 22.
Proof. repeat split; vm_compute; reflexivity. Qed.

Example ex_getitem_index_error :
  run_node gen_v_cls M_getitem PNone ex_root [VInt 5] = Some (RExc XIndex)
  /\ node_getitem ex_root 5 = None.
Proof. split; vm_compute; reflexivity. Qed.

Example ex_absent : 
  forallb (fun d => negb (mem_str [122; 122]%N (names_of (snd d)))) (descendants ex_root) = true.
Proof. vm_compute. reflexivity. Qed.

Example ex_brace_queries :
  query_has_brace (QName s_refk) = true /\ query_has_brace (QList [s_ref; s_emph]) = false
  /\ is_real_attr s_emph = false.
Proof. repeat split; vm_compute; reflexivity. Qed.

(* ---- packaged forms used by Props/C04gen.v *)
Lemma run_E_views_named q e : args_ok e = true -> is_texexpr e = true ->
  run_expr gen_v_cls M_contents (Some q) e [] = Some (RVal (VList (map tagv (contents (q, e))))) /\
  run_expr gen_v_cls M_children (Some q) e [] = Some (RVal (VList (map tagv (children (q, e))))).
Proof. intros H1 H2. split; [apply run_E_contents_named|apply run_E_children_named]; assumption. Qed.

Lemma run_E_views_anon e : args_ok e = true -> is_texexpr e = true ->
  run_expr gen_v_cls M_all None e [] = Some (RVal (VList (map (VExpr None) (expr_all e)))) /\
  run_expr gen_v_cls M_contents None e [] = Some (RVal (VList (map (VExpr None) (expr_contents e)))) /\
  run_expr gen_v_cls M_children None e [] = Some (RVal (VList (map (VExpr None) (expr_children e)))).
Proof.
  intros H1 H2. split; [apply run_E_all|split; [apply run_E_contents_anon|apply run_E_children_anon]];
    assumption.
Qed.

Lemma gen_N_all_model n q e par h :
  args_ok e = true -> is_texexpr e = true -> 2 * edepth e + 2 <= n ->
  call n gen_v_cls KNode M_all (VNode (Some q) e par) [] None h
  = ODone (match node_all (q, e) with
           | Some l => RVal (VList (map (all_node q) l))
           | None => RExc XAssertion
           end) h.
Proof.
  intros H1 H2 H3. rewrite (gen_N_all_ok n q e par h H1 H2 H3).
  unfold all_result, node_all. cbn [snd]. destruct (forallb is_texexpr (expr_all e)); reflexivity.
Qed.
