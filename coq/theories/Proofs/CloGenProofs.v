(* The class CharToLineOffset generated from the Python source
   (Model/CloGen.v, written by harness/gen_clo.py on every run) computes
   Model/CLO.v's `clo`: constructing the object from ANY source and calling it
   with ANY int finishes inside the modelled fragment (ODone: no IndexError,
   the list handed to bisect_left is sorted, every local is bound) with the
   attributes and the pair of the hand-written model.  The proofs compute
   with the generated terms; a change of a method body that changes the
   generated term makes `gen_clo_init_ok` / `gen_clo_call_ok` fail. *)
From Coq Require Import List NArith ZArith Bool Lia Arith.
From TexModel Require Import CLO CloDSL CloGen.
From TexProofs Require Import CLOProofs.
Import ListNotations.
Open Scope Z_scope.

Local Arguments Z.add : simpl never.
Local Arguments Z.sub : simpl never.
Local Arguments Z.min : simpl never.
Local Arguments Z.of_nat : simpl never.
Local Arguments Z.to_nat : simpl never.
Local Arguments Z.eqb : simpl never.
Local Arguments Z.ltb : simpl never.
Local Arguments Z.leb : simpl never.
Local Arguments sorted_le : simpl never.
Local Arguments CloDSL.py_nth : simpl never.
Local Arguments bisect_left : simpl never.

(* the object CharToLineOffset(src) *)
Definition clo_obj (src : list N) : obj :=
  mkO (Some (VList (line_breaks src))) (Some (VInt (Z.of_nat (length src)))).

Lemma positions_lf s : forall k, positions_from s 10%N k = line_breaks_from s k.
Proof.
  induction s as [|c r IH]; intros k; [reflexivity|].
  cbn [positions_from line_breaks_from]. unfold is_lf. rewrite IH. reflexivity.
Qed.

Lemma gen_clo_init_ok src :
  run_def gen_clo_init [VSrc src] blank = ODone (clo_obj src) None.
Proof.
  unfold run_def, gen_clo_init. cbn. rewrite positions_lf. reflexivity.
Qed.

Lemma increasing_sorted l : increasing l -> sorted_le l = true.
Proof.
  induction 1 as [|x l Hx Hinc IH]; [reflexivity|].
  destruct l as [|y r]; [reflexivity|].
  change (sorted_le (x :: y :: r)) with ((x <=? y) && sorted_le (y :: r)).
  rewrite IH. inversion Hx as [|? ? Hxy _]; subst.
  assert (E : (x <=? y) = true) by (apply Z.leb_le; lia). rewrite E. reflexivity.
Qed.

Lemma bisect_le_length l x : (bisect_left l x <= length l)%nat.
Proof.
  induction l as [|y r IH]; [apply Nat.le_refl|].
  change (bisect_left (y :: r) x) with (if y <? x then S (bisect_left r x) else bisect_left r x).
  cbn [length]. destruct (y <? x); lia.
Qed.

Lemma py_nth_last l : l <> [] -> CloDSL.py_nth l (-1) = Some (py_last l).
Proof.
  intros Hne. unfold CloDSL.py_nth, py_last. cbv zeta.
  assert (Hlen : (0 < length l)%nat) by (destruct l; [congruence|cbn; lia]).
  change (-1 <? 0) with true. cbv iota.
  assert (E1 : (-1 + Z.of_nat (length l) <? 0) = false) by (apply Z.ltb_ge; lia).
  assert (E2 : (Z.of_nat (length l) <=? -1 + Z.of_nat (length l)) = false) by (apply Z.leb_gt; lia).
  rewrite E1, E2. cbn [orb].
  replace (Z.to_nat (-1 + Z.of_nat (length l))) with (length l - 1)%nat by lia.
  rewrite <- (nth_pred_length_last l 0 Hne).
  apply nth_error_nth'. lia.
Qed.

Lemma py_nth_in l k : 0 <= k < Z.of_nat (length l) ->
  CloDSL.py_nth l k = Some (CLO.py_nth l k).
Proof.
  intros Hk. unfold CloDSL.py_nth, CLO.py_nth. cbv zeta.
  assert (E0 : (k <? 0) = false) by (apply Z.ltb_ge; lia). rewrite E0, E0.
  assert (E2 : (Z.of_nat (length l) <=? k) = false) by (apply Z.leb_gt; lia).
  rewrite E2. cbn [orb]. apply nth_error_nth'. lia.
Qed.

(* The proof of gen_clo_call_ok does not follow the shape of the generated
   body: it evaluates the interpreter on whatever gen_clo_call is, splits on
   every integer comparison that the evaluation (or the hand-written clo)
   meets, discharges the two list accesses by py_nth_last / py_nth_in and
   closes each case by computation or linear arithmetic (min(a, b) = min(b, a)).  So it holds of every
   equivalent way of writing __call__ that the translator accepts (result
   variable or early returns, `0 == line_no`, named temporaries, ...), and
   still fails when the body computes something else. *)
Ltac clo_ev :=
  cbn [length Nat.eqb m_arity m_body map blk exec_block exec_stmt eval eval_cond get_field
       o_lbp o_len lookup nth_error set_var option_map int2 fst snd].

Ltac clo_split_eqb :=
  match goal with
  | |- context [Z.eqb ?a ?b] =>
    let E := fresh "E" in
    destruct (Z.eqb a b) eqn:E; [apply Z.eqb_eq in E | apply Z.eqb_neq in E]
  end.

Ltac clo_step lbp Hle :=
  first
  [ reflexivity
  | progress clo_ev
  | match goal with H : sorted_le _ = true |- _ => rewrite H end
  | match goal with
    | |- context [CloDSL.py_nth lbp (-1)] =>
      rewrite (py_nth_last lbp) by (intros Hnil; apply (f_equal (@length Z)) in Hnil; cbn [length] in Hnil; lia)
    | |- context [CloDSL.py_nth lbp ?k] => rewrite (py_nth_in lbp k) by lia
    end
  | clo_split_eqb
  | solve [repeat first [lia | progress f_equal]]
  | exfalso; lia ].

Lemma gen_clo_call_ok src pos :
  run_def gen_clo_call [VInt pos] (clo_obj src)
  = ODone (clo_obj src) (Some (VPair (fst (clo src pos)) (snd (clo src pos)))).
Proof.
  unfold run_def, gen_clo_call, clo_obj, clo. cbv zeta.
  set (lbp := line_breaks src).
  assert (Hs : sorted_le lbp = true) by (apply increasing_sorted, line_breaks_sorted).
  pose proof (bisect_le_length lbp pos) as Hle.
  repeat clo_step lbp Hle.
Qed.

Theorem run_clo_gen_ok src pos :
  run_clo_gen gen_clo_cls src pos
  = ODone (clo_obj src) (Some (VPair (fst (clo src pos)) (snd (clo src pos)))).
Proof.
  unfold run_clo_gen, gen_clo_cls. cbn [c_init c_call].
  rewrite gen_clo_init_ok. apply gen_clo_call_ok.
Qed.

(* hence the line/column clause of C13 holds of the translated source *)
Theorem run_clo_gen_spec src i : 0 <= i < Z.of_nat (length src) ->
  run_clo_gen gen_clo_cls src i
  = ODone (clo_obj src) (Some (VPair (fst (clo_spec src i)) (snd (clo_spec src i)))).
Proof. intros H. rewrite run_clo_gen_ok, (clo_correct src i H). reflexivity. Qed.

Example run_clo_gen_example :
  map (run_clo_gen gen_clo_cls ex_src) [5; 6; -3; 99]
  = map (fun r => ODone (clo_obj ex_src) (Some r)) [VPair 1 2; VPair 2 0; VPair 0 (-3); VPair 3 2].
Proof. vm_compute. reflexivity. Qed.

Example run_clo_gen_spec_hyp : 0 <= 5 < Z.of_nat (length ex_src).
Proof. cbn. lia. Qed.
