(* The class Token generated from the Python source (Model/TokenGen.v, written
   by harness/gen_token.py on every run) has the behaviour that the rest of the
   development ASSUMES of it (Model/TokenSpec.v), and the built-in readings of
   `Token` in the other interpreters (TokDSL, BufDSL, ReadDSL, GlueDSL, ViewDSL,
   EditDSL) are exactly these specification functions.

   Part 1  every translated def against its specification, for ALL arguments of
           the stated shape: `tokval s p c` is ANY token built from a plain str
           (p, c arbitrary values: the defs that only copy position / category
           never look at them); `tv t` is a token of the development's
           vocabulary (int position; category None / CC / TC).  The results say
           RV / RX: the call finishes inside the modelled fragment, within the
           call depth.
   Part 2  the specification functions are the functions the other interpreters
           build in (tok_add, join_tokens, new_token, truthy, py_eq, ...).
   Part 3  positions inside a token are true offsets (C13): what holds, and
           what does not (getslice_offset_refuted, replayed on the code).

   The proofs compute with the generated terms, so a change of a def that
   changes its generated term makes the lemma named after the def fail. *)
From Coq Require Import String.
From Coq Require Import List NArith ZArith Bool Lia Arith.
From TexModel Require Import Base Tables Chars Tokenizer Tree Reader TokenDSL TokenGen TokenSpec.
From TexModel Require TokDSL ReadDSL GlueDSL.
Import ListNotations.
Local Open Scope Z_scope.

Local Arguments gen_map : simpl never.
Local Arguments for_loop : simpl never.
Local Arguments call : simpl never.
Local Arguments py_index : simpl never.
Local Arguments py_slice : simpl never.
Local Arguments py_find : simpl never.
Local Arguments strip_side : simpl never.
Local Arguments Z.add : simpl never.
Local Arguments Z.sub : simpl never.
Local Arguments enum_int : simpl never.

Notation C := gen_token_cls.

(* ------------------------------------------------------------- the embedding *)

Definition catval (c : catv) : value :=
  match c with
  | KNone => VNone
  | KCC k => VEnum (ECC k)
  | KTC k => VEnum (ETC k)
  end.

(* a token of the development's vocabulary as a Token object *)
Definition tv (t : tokv) : value := tokval (v_text t) (VInt (v_pos t)) (catval (v_cat t)).

Definition optv (o : option Z) : value :=
  match o with
  | None => VNone
  | Some z => VInt z
  end.

Lemma call_S n c ce vs : call (S n) c ce vs = call_body c (call n c) ce vs.
Proof. reflexivity. Qed.

(* every CC / TC member is a non-zero int: `category or ...` keeps a given category *)
Lemma enum_nonzero e : (enum_int e =? 0) = false.
Proof. destruct e as [k|k]; destruct k; reflexivity. Qed.

(* ===================================================================== Part 1 *)

(* ------------------------------------------------------------------ __new__ *)

(* A1: Token(s, p, c) for a plain str s, at any call depth >= 1 *)
Lemma new_str_at n s p c :
  call (S n) C (CDirect M_new) [VCls; VStr s; p; c] = RV (tokval s p c).
Proof. reflexivity. Qed.

Lemma gen_new_str s p c : run_new C [VStr s; p; c] = RV (tokval s p c).
Proof. reflexivity. Qed.

(* the defaults: Token(s, p), Token(s), Token() *)
Lemma gen_new_defaults s p :
  run_new C [VStr s; p] = RV (tokval s p VNone) /\
  run_new C [VStr s] = RV (tokval s VNone VNone) /\
  run_new C [] = RV (tokval [] VNone VNone).
Proof. repeat split; reflexivity. Qed.

(* A2: Token(t, p', c') for a Token t: t's text AND position; p' is ignored *)
Lemma gen_new_tok_nocat s p c p' :
  run_new C [tokval s p c; p'; VNone] = RV (tokval s p c) /\
  run_new C [tokval s p c; p'] = RV (tokval s p c) /\
  run_new C [tokval s p c] = RV (tokval s p c).
Proof. repeat split; reflexivity. Qed.

Lemma gen_new_tok_cat s p c p' e :
  run_new C [tokval s p c; p'; VEnum e] = RV (tokval s p (VEnum e)).
Proof.
  unfold run_new, call_depth. cbv -[enum_int Z.eqb].
  rewrite enum_nonzero. reflexivity.
Qed.

Lemma gen_new_tok t p' c : run_new C [tv t; p'; catval c] = RV (tv (new_of_tok t c)).
Proof.
  destruct c as [|k|k].
  - exact (proj1 (gen_new_tok_nocat (v_text t) (VInt (v_pos t)) (catval (v_cat t)) p')).
  - apply (gen_new_tok_cat (v_text t) (VInt (v_pos t)) (catval (v_cat t)) p' (ECC k)).
  - apply (gen_new_tok_cat (v_text t) (VInt (v_pos t)) (catval (v_cat t)) p' (ETC k)).
Qed.

Lemma gen_new_of_str s p c : run_new C [VStr s; VInt p; catval c] = RV (tv (new_of_str s p c)).
Proof. reflexivity. Qed.

(* A12: the object the constructor returns IS (as a str) its text *)
Lemma gen_new_payload_is_text vs pay t p c :
  (exists s p0 c0, vs = [VStr s; p0; c0]) \/ (exists s p0 c0 p' c', vs = [tokval s p0 c0; p'; c'] /\ (c' = VNone \/ exists e, c' = VEnum e)) ->
  run_new C vs = RV (VTok pay t p c) -> t = Some (VStr pay).
Proof.
  intros [(s & p0 & c0 & ->)|(s & p0 & c0 & p' & c' & -> & Hc)] H.
  - rewrite gen_new_str in H. inversion H; subst. reflexivity.
  - destruct Hc as [->|[e ->]].
    + rewrite (proj1 (gen_new_tok_nocat s p0 c0 p')) in H. inversion H; subst. reflexivity.
    + rewrite gen_new_tok_cat in H. inversion H; subst. reflexivity.
Qed.

(* A8 *)
Lemma gen_empty_ok : run_empty C = RV (tv tok_empty).
Proof. reflexivity. Qed.

(* --------------------------------------------- __add__ __iadd__ __radd__ *)

(* A3: position and category of the LEFT operand, whatever they are *)
Lemma gen_add_tok s1 p1 c1 s2 p2 c2 :
  run_meth C M_add (tokval s1 p1 c1) [tokval s2 p2 c2] = RV (tokval (s1 ++ s2) p1 c1).
Proof. reflexivity. Qed.

Lemma gen_add_str s1 p1 c1 s2 :
  run_meth C M_add (tokval s1 p1 c1) [VStr s2] = RV (tokval (s1 ++ s2) p1 c1).
Proof. reflexivity. Qed.

Lemma gen_add_nonstr s1 p1 c1 z :
  run_meth C M_add (tokval s1 p1 c1) [VNone] = RX TypeError /\
  run_meth C M_add (tokval s1 p1 c1) [VInt z] = RX TypeError.
Proof. split; reflexivity. Qed.

Lemma gen_iadd_tok s1 p1 c1 s2 p2 c2 :
  run_meth C M_iadd (tokval s1 p1 c1) [tokval s2 p2 c2] = RV (tokval (s1 ++ s2) p1 c1).
Proof. reflexivity. Qed.

Lemma gen_iadd_str s1 p1 c1 s2 :
  run_meth C M_iadd (tokval s1 p1 c1) [VStr s2] = RV (tokval (s1 ++ s2) p1 c1).
Proof. reflexivity. Qed.

Lemma gen_iadd_nonstr s1 p1 c1 z :
  run_meth C M_iadd (tokval s1 p1 c1) [VNone] = RX TypeError /\
  run_meth C M_iadd (tokval s1 p1 c1) [VInt z] = RX TypeError.
Proof. split; reflexivity. Qed.

(* in the vocabulary of the development *)
Lemma gen_add_ok a b :
  run_meth C M_add (tv a) [tv b] = RV (tv (tok_add a b)) /\
  run_meth C M_iadd (tv a) [tv b] = RV (tv (tok_add a b)).
Proof. split; reflexivity. Qed.

Lemma gen_add_str_ok a s :
  run_meth C M_add (tv a) [VStr s] = RV (tv (tok_add_str a s)) /\
  run_meth C M_iadd (tv a) [VStr s] = RV (tv (tok_add_str a s)).
Proof. split; reflexivity. Qed.

(* A4: s + tok *)
Lemma gen_radd_str s0 s p c :
  run_meth C M_radd (tokval s (VInt p) c) [VStr s0]
  = RV (tokval (s0 ++ s) (VInt (p - Z.of_nat (length s0))) c).
Proof. reflexivity. Qed.

Lemma gen_radd_ok s0 a : run_meth C M_radd (tv a) [VStr s0] = RV (tv (tok_radd s0 a)).
Proof. reflexivity. Qed.

(* a token without a position cannot be right-added to; None / int + tok is a TypeError *)
Lemma gen_radd_errors s c s0 p z :
  run_meth C M_radd (tokval s VNone c) [VStr s0] = RX TypeError /\
  run_meth C M_radd (tokval s p c) [VNone] = RX TypeError /\
  run_meth C M_radd (tokval s p c) [VInt z] = RX TypeError.
Proof. repeat split; reflexivity. Qed.

(* the operator + as the interpreter dispatches it *)
Lemma run_add_ok a b s :
  run_add C (tv a) (tv b) = RV (tv (tok_add a b)) /\
  run_add C (tv a) (VStr s) = RV (tv (tok_add_str a s)) /\
  run_add C (VStr s) (tv a) = RV (tv (tok_radd s a)).
Proof. repeat split; reflexivity. Qed.

(* ---------------------------------------------------- __eq__ __bool__ ... *)

(* A5: text only -- positions and categories are arbitrary and different *)
Lemma gen_eq_tok s1 p1 c1 s2 p2 c2 :
  run_meth C M_eq (tokval s1 p1 c1) [tokval s2 p2 c2] = RV (VBool (str_eqb s1 s2)).
Proof. reflexivity. Qed.

Lemma gen_eq_str s1 p1 c1 s2 :
  run_meth C M_eq (tokval s1 p1 c1) [VStr s2] = RV (VBool (str_eqb s1 s2)).
Proof. reflexivity. Qed.

Lemma gen_eq_other s1 p1 c1 z e b :
  run_meth C M_eq (tokval s1 p1 c1) [VNone] = RV (VBool false) /\
  run_meth C M_eq (tokval s1 p1 c1) [VInt z] = RV (VBool false) /\
  run_meth C M_eq (tokval s1 p1 c1) [VEnum e] = RV (VBool false) /\
  run_meth C M_eq (tokval s1 p1 c1) [VBool b] = RV (VBool false).
Proof. repeat split; reflexivity. Qed.

(* Token.__eq__(tok, x) is tok.text == x for every x that is not a Token *)
Lemma gen_eq_delegates s p c x :
  isinst KToken x = Some false ->
  run_meth C M_eq (tokval s p c) [x] = run_eq C (VStr s) x.
Proof. intros H. destruct x; try discriminate H; reflexivity. Qed.

Lemma gen_eq_ok a b s :
  run_meth C M_eq (tv a) [tv b] = RV (VBool (tok_eq a b)) /\
  run_meth C M_eq (tv a) [VStr s] = RV (VBool (tok_eq_str a s)).
Proof. split; reflexivity. Qed.

(* the operator ==, both ways round *)
Lemma run_eq_ok a b s :
  run_eq C (tv a) (tv b) = RV (VBool (tok_eq a b)) /\
  run_eq C (tv a) (VStr s) = RV (VBool (tok_eq_str a s)) /\
  run_eq C (VStr s) (tv a) = RV (VBool (tok_eq_str a s)) /\
  run_eq C (tv a) VNone = RV (VBool false) /\
  run_eq C VNone (tv a) = RV (VBool false).
Proof. repeat split; reflexivity. Qed.

(* A6 *)
Lemma gen_bool_tok s p c : run_meth C M_bool (tokval s p c) [] = RV (VBool (nonempty s)).
Proof. reflexivity. Qed.

Lemma nonempty_tok_bool a : nonempty (v_text a) = tok_bool a.
Proof. unfold tok_bool. destruct (v_text a); reflexivity. Qed.

Lemma gen_bool_ok a :
  run_meth C M_bool (tv a) [] = RV (VBool (tok_bool a)) /\
  run_truthy C (tv a) = RV (VBool (tok_bool a)).
Proof. rewrite <- nonempty_tok_bool. split; reflexivity. Qed.

(* hash(tok) == hash(tok.text); with gen_eq_*: equal tokens hash equally *)
Lemma gen_hash_tok s p c : run_meth C M_hash (tokval s p c) [] = RV (VHash s).
Proof. reflexivity. Qed.

Lemma gen_repr_tok s p c : run_meth C M_repr (tokval s p c) [] = RV (VRepr s).
Proof. reflexivity. Qed.

(* A9 *)
Lemma gen_str_tok s p c :
  run_meth C M_str (tokval s p c) [] = RV (VStr s) /\ run_str C (tokval s p c) = RV (VStr s).
Proof. split; reflexivity. Qed.

Lemma gen_str_ok a : run_str C (tv a) = RV (VStr (tok_str a)).
Proof. reflexivity. Qed.

(* A10: __getattr__ asks the wrapped str *)
Lemma gen_getattr_tok s p c a :
  run_meth C M_getattr (tokval s p c) [VStr a]
  = match str_has a with
    | Some true => RV (VBound s a)
    | Some false => RX AttributeError
    | None => RU
    end.
Proof.
  unfold run_meth, call_depth. cbv -[str_has].
  destruct (str_has a) as [[|]|]; reflexivity.
Qed.

(* hasattr(tok, '__match__') is False; tok.text / .position / .category exist *)
Lemma gen_attr_lookup s p c :
  run_getattr C (tokval s p c) (py "__match__"%string) = RX AttributeError /\
  run_getattr C (tokval s p c) (py "text"%string) = RV (VStr s) /\
  run_getattr C (tokval s p c) (py "position"%string) = RV p /\
  run_getattr C (tokval s p c) (py "category"%string) = RV c.
Proof. repeat split; reflexivity. Qed.

(* --------------------------------------------------------------- __contains__ *)

Lemma is_sub_occurs_from x : forall s k, 0 <= k -> (0 <=? find_from k s x) = occurs x s.
Proof.
  induction s as [|c s IH]; intros k Hk.
  - cbn [find_from occurs]. destruct (starts_with [] x); cbn [orb].
    + apply Z.leb_le. exact Hk.
    + reflexivity.
  - cbn [find_from occurs]. destruct (starts_with (c :: s) x); cbn [orb].
    + apply Z.leb_le. exact Hk.
    + apply IH. lia.
Qed.

Lemma is_sub_occurs x s : is_sub x s = occurs x s.
Proof. unfold is_sub, py_find. apply is_sub_occurs_from. lia. Qed.

Lemma gen_contains_tok s p c x px cx y :
  run_meth C M_contains (tokval s p c) [VStr x] = RV (VBool (is_sub x s)) /\
  run_meth C M_contains (tokval s p c) [tokval y px cx] = RV (VBool (is_sub y s)) /\
  run_meth C M_contains (tokval s p c) [VNone] = RX TypeError.
Proof. repeat split; reflexivity. Qed.

Lemma gen_contains_ok a x b :
  run_meth C M_contains (tv a) [VStr x] = RV (VBool (tok_contains a x)) /\
  run_meth C M_contains (tv a) [tv b] = RV (VBool (tok_contains a (v_text b))) /\
  run_in C (VStr x) (tv a) = RV (VBool (tok_contains a x)) /\
  run_in C (tv b) (tv a) = RV (VBool (tok_contains a (v_text b))).
Proof. unfold tok_contains. rewrite <- !is_sub_occurs. repeat split; reflexivity. Qed.

(* ------------------------------------------------------------------- join *)

Lemma gen_map_texts (f : value -> res) ts :
  (forall t, f (tv t) = RV (VStr (v_text t))) ->
  gen_map f (map tv ts) = GV (map (fun t => VStr (v_text t)) ts) None.
Proof.
  intros Hf. induction ts as [|t r IH]; [reflexivity|].
  cbn [map]. unfold gen_map; fold gen_map. rewrite Hf, IH. reflexivity.
Qed.

Lemma all_payloads_texts ts :
  all_payloads (map (fun t : tokv => VStr (v_text t)) ts) = Some (map v_text ts).
Proof.
  induction ts as [|t r IH]; [reflexivity|].
  cbn [map all_payloads payload]. rewrite IH. reflexivity.
Qed.

Lemma join_with_texts g l : join_with g l = join_texts g l.
Proof.
  induction l as [|s r IH]; [reflexivity|]. destruct r as [|s' r']; [reflexivity|].
  change (join_with g (s :: s' :: r')) with (s ++ g ++ join_with g (s' :: r')).
  rewrite IH. reflexivity.
Qed.

Lemma py_index_0 {A} (x : A) l : py_index (x :: l) 0 = Some x.
Proof.
  unfold py_index. cbv zeta. change (0 <? 0) with false. cbv iota.
  assert (E : (Z.of_nat (length (x :: l)) <=? 0) = false) by (apply Z.leb_gt; cbn [length]; lia).
  rewrite E. reflexivity.
Qed.

(* A7, non-empty list or tuple, any glue str *)
Lemma gen_join_cons_list g t r :
  run_meth C M_join VCls [VList (map tv (t :: r)); VStr g] = RV (tv (tok_join g (t :: r))).
Proof.
  unfold run_meth, call_depth. rewrite call_S. cbn.
  change (tv t :: map tv r) with (map tv (t :: r)).
  rewrite gen_map_texts by (intro; reflexivity). cbn.
  rewrite all_payloads_texts, join_with_texts. cbn.
  rewrite !py_index_0. cbn. rewrite new_str_at. reflexivity.
Qed.

Lemma gen_join_cons_tuple g t r :
  run_meth C M_join VCls [VTuple (map tv (t :: r)); VStr g] = RV (tv (tok_join g (t :: r))).
Proof.
  unfold run_meth, call_depth. rewrite call_S. cbn.
  change (tv t :: map tv r) with (map tv (t :: r)).
  rewrite gen_map_texts by (intro; reflexivity). cbn.
  rewrite all_payloads_texts, join_with_texts. cbn.
  rewrite !py_index_0. cbn. rewrite new_str_at. reflexivity.
Qed.

(* A7 / A8, the empty list or tuple: the shared Token.Empty *)
Lemma gen_join_nil g :
  run_meth C M_join VCls [VList []; VStr g] = RV (tv tok_empty) /\
  run_meth C M_join VCls [VTuple []; VStr g] = RV (tv tok_empty) /\
  run_meth C M_join VCls [VList []] = RV (tv tok_empty).
Proof. repeat split; reflexivity. Qed.

Lemma gen_join_ok g ts :
  run_meth C M_join VCls [VList (map tv ts); VStr g] = RV (tv (tok_join g ts)) /\
  run_meth C M_join VCls [VTuple (map tv ts); VStr g] = RV (tv (tok_join g ts)).
Proof.
  destruct ts as [|t r].
  - split; [exact (proj1 (gen_join_nil g))|exact (proj1 (proj2 (gen_join_nil g)))].
  - split; [apply gen_join_cons_list|apply gen_join_cons_tuple].
Qed.

(* the default glue '' (what Buffer calls: self.__join(queue[a:b])) *)
Lemma gen_join_default ts :
  run_meth C M_join VCls [VList (map tv ts)] = RV (tv (tok_join [] ts)).
Proof.
  destruct ts as [|t r]; [reflexivity|].
  rewrite <- (proj1 (gen_join_ok [] (t :: r))). reflexivity.
Qed.

(* a generator is not accepted: len() *)
Lemma gen_join_iterator l e : run_meth C M_join VCls [VIter l e] = RX TypeError.
Proof. reflexivity. Qed.

(* ---------------------------------------------------------------- __iter__ *)

Definition iter_body : block :=
  blk [SYield (ECallCls (args_of [EVar 2%nat;
         EAdd (EAttr (EVar 0%nat) a_position) (EVar 1%nat); EAttr (EVar 0%nat) a_category]))].

Lemma set2 h (rest : env) x y :
  exists rest', set_var (set_var (h :: rest) 1 x) 2 y = h :: Some x :: Some y :: rest'.
Proof.
  destruct rest as [|a [|b r]]; cbn; eexists; reflexivity.
Qed.

Lemma for_loop_cons xs body v l pend en ys :
  for_loop xs body (v :: l) pend en ys
  = match bind_targets en xs v with
    | Some en1 =>
      match body en1 ys with
      | XNormal en2 ys2 => for_loop xs body l pend en2 ys2
      | x => x
      end
    | None => XU
    end.
Proof. reflexivity. Qed.

(* one round of the loop body: yield Token(c, self.position + i, self.category) *)
Lemma iter_body_step n a k c rest ys :
  exec_block (call (S n) C) iter_body (Some (tv a) :: Some (VInt k) :: Some (VStr [c]) :: rest) ys
  = XNormal (Some (tv a) :: Some (VInt k) :: Some (VStr [c]) :: rest)
            (ys ++ [tv (mkv [c] (v_pos a + k) (v_cat a))]).
Proof. reflexivity. Qed.

Lemma iter_loop n a : forall s k rest ys,
  exists rest',
    for_loop [1%nat; 2%nat] (exec_block (call (S n) C) iter_body)
             (enum_from k (map (fun c => VStr [c]) s)) None (Some (tv a) :: rest) ys
    = XNormal (Some (tv a) :: rest') (ys ++ map tv (tok_iter_from a k s)).
Proof.
  induction s as [|c s IH]; intros k rest ys.
  - exists rest. cbn [map enum_from tok_iter_from]. rewrite app_nil_r. reflexivity.
  - cbn [map enum_from tok_iter_from]. rewrite for_loop_cons.
    cbn [bind_targets set_vars].
    destruct (set2 (Some (tv a)) rest (VInt k) (VStr [c])) as [rest1 E1]. rewrite E1.
    rewrite iter_body_step.
    destruct (IH (k + 1) (Some (VInt k) :: Some (VStr [c]) :: rest1)
                 (ys ++ [tv (mkv [c] (v_pos a + k) (v_cat a))])) as [rest' E2].
    rewrite E2. exists rest'. rewrite <- app_assoc. reflexivity.
Qed.

Lemma priv_iter_at n a :
  call (S (S n)) C (CBound M_priv_iter (tv a)) [] = RV (VIter (map tv (tok_iter a)) None).
Proof.
  assert (E0 : call (S (S n)) C (CBound M_priv_iter (tv a)) []
               = finish true
                   match for_loop [1%nat; 2%nat] (exec_block (call (S n) C) iter_body)
                                  (enum_from 0 (map (fun c => VStr [c]) (v_text a))) None
                                  [Some (tv a)] [] with
                   | XNormal en' ys' => XNormal en' ys'
                   | x => x
                   end) by reflexivity.
  rewrite E0. destruct (iter_loop n a (v_text a) 0 [] []) as [rest' E]. rewrite E. reflexivity.
Qed.

Lemma gen_priv_iter_ok a :
  run_meth C M_priv_iter (tv a) [] = RV (VIter (map tv (tok_iter a)) None).
Proof. apply priv_iter_at. Qed.

Lemma gen_iter_ok a :
  run_meth C M_iter (tv a) [] = RV (VIter (map tv (tok_iter a)) None) /\
  run_iter C (tv a) = RV (VIter (map tv (tok_iter a)) None).
Proof.
  assert (H : run_meth C M_iter (tv a) [] = RV (VIter (map tv (tok_iter a)) None)).
  { unfold run_meth, call_depth. rewrite call_S. cbn.
    fold (tokval (v_text a) (VInt (v_pos a)) (catval (v_cat a))). fold (tv a).
    rewrite priv_iter_at. reflexivity. }
  split; [exact H|]. unfold run_iter, iterate, tv, tokval.
  fold (tokval (v_text a) (VInt (v_pos a)) (catval (v_cat a))). fold (tv a).
  unfold run_meth in H. rewrite H. reflexivity.
Qed.

(* a token without a position: the generator raises when it is resumed *)
Lemma gen_iter_no_position c s cat :
  run_meth C M_iter (tokval (c :: s) VNone cat) [] = RV (VIter [] (Some TypeError)).
Proof. reflexivity. Qed.

(* -------------------------------------------------------------- __getitem__ *)

Lemma py_index_spec {A} (l : list A) k :
  py_index l k =
  let n := Z.of_nat (length l) in
  let k' := if k <? 0 then n + k else k in
  if (0 <=? k') && (k' <? n) then nth_error l (Z.to_nat k') else None.
Proof.
  unfold py_index. cbv zeta.
  replace (k + Z.of_nat (length l)) with (Z.of_nat (length l) + k) by lia.
  set (k' := if k <? 0 then Z.of_nat (length l) + k else k).
  destruct (k' <? 0) eqn:E1; destruct (0 <=? k') eqn:E2;
    destruct (Z.of_nat (length l) <=? k') eqn:E3; destruct (k' <? Z.of_nat (length l)) eqn:E4;
    cbn [orb andb]; try reflexivity;
    try apply Z.ltb_lt in E1; try apply Z.ltb_ge in E1; try apply Z.leb_le in E2; try apply Z.leb_gt in E2;
    try apply Z.leb_le in E3; try apply Z.leb_gt in E3; try apply Z.ltb_lt in E4; try apply Z.ltb_ge in E4; lia.
Qed.

(* tok[k], k an int: the character at k (counted from the end when negative)
   at position + that index; IndexError out of range *)
Lemma gen_getitem_int a k :
  run_meth C M_getitem (tv a) [VInt k]
  = match tok_getitem a k with
    | Some r => RV (tv r)
    | None => RX IndexError
    end.
Proof.
  unfold tok_getitem. cbv zeta.
  pose proof (py_index_spec (v_text a) k) as Hs. cbv zeta in Hs.
  unfold run_meth, call_depth. rewrite call_S. cbn.
  destruct (k <? 0) eqn:Ek; cbn; rewrite Hs;
    (destruct ((0 <=? _) && (_ <? _)); [|reflexivity]);
    (destruct (nth_error (v_text a) _) as [c|]; [|reflexivity]);
    cbn; rewrite new_str_at; reflexivity.
Qed.

Lemma clip_idx_spec n o dflt :
  0 <= n -> 0 <= dflt <= n ->
  clip_idx n o dflt = match o with None => dflt | Some z => clip n (from_end n z) end.
Proof.
  intros Hn Hd. destruct o as [z|]; [|reflexivity].
  unfold clip_idx, clip, from_end.
  replace (z + n) with (n + z) by lia.
  set (k' := if z <? 0 then n + z else z).
  destruct (k' <? 0) eqn:E1.
  - apply Z.ltb_lt in E1. lia.
  - apply Z.ltb_ge in E1. destruct (n <? k') eqn:E2.
    + apply Z.ltb_lt in E2. lia.
    + apply Z.ltb_ge in E2. lia.
Qed.

Lemma py_slice_spec s lo hi : py_slice s lo hi = str_slice s lo hi.
Proof.
  unfold py_slice, str_slice. cbv zeta.
  rewrite (clip_idx_spec _ lo 0), (clip_idx_spec _ hi (Z.of_nat (length s))) by lia.
  reflexivity.
Qed.

(* tok[lo:hi] *)
Lemma gen_getitem_slice a lo hi :
  run_meth C M_getitem (tv a) [VSlice (optv lo) (optv hi) VNone] = RV (tv (tok_getslice a lo hi)).
Proof.
  unfold tok_getslice. cbv zeta. rewrite <- py_slice_spec.
  unfold run_meth, call_depth. rewrite call_S.
  destruct lo as [z|]; destruct hi as [h|]; cbn;
    try (unfold from_end; destruct (z <? 0) eqn:Ez; cbn);
    rewrite new_str_at; reflexivity.
Qed.

(* anything that is neither an int nor a slice: no attribute `start` *)
Lemma gen_getitem_other a s :
  run_meth C M_getitem (tv a) [VNone] = RX AttributeError /\
  run_meth C M_getitem (tv a) [VStr s] = RX AttributeError.
Proof. split; reflexivity. Qed.

(* ------------------------------------------------------ strip lstrip rstrip *)

Lemma lstrip_by_ws s : lstrip_by is_ws s = lstrip s.
Proof. induction s as [|c s IH]; [reflexivity|]. cbn. rewrite IH. reflexivity. Qed.

Lemma strip_by_ws s : strip_by is_ws s = strip s.
Proof. unfold strip_by, rstrip_by, strip. rewrite !lstrip_by_ws. reflexivity. Qed.

Lemma rstrip_by_ws s : rstrip_by is_ws s = rstrip s.
Proof. unfold rstrip_by, rstrip. rewrite lstrip_by_ws. reflexivity. Qed.

Lemma starts_with_nil s : starts_with s [] = true.
Proof. destruct s; reflexivity. Qed.

Lemma starts_with_app a b : starts_with (a ++ b) a = true.
Proof.
  induction a as [|x a IH]; [apply starts_with_nil|].
  cbn. rewrite N.eqb_refl, IH. reflexivity.
Qed.

Lemma lstrip_suffix s : exists w, s = w ++ lstrip s.
Proof.
  induction s as [|c s [w IH]]; [exists []; reflexivity|].
  cbn [lstrip]. destruct (is_ws c).
  - exists (c :: w). cbn. rewrite <- IH. reflexivity.
  - exists []. reflexivity.
Qed.

(* the result of rstrip is a prefix *)
Lemma rstrip_prefix s : starts_with s (rstrip s) = true.
Proof.
  unfold rstrip. destruct (lstrip_suffix (rev s)) as [w Hw].
  assert (E : s = rev (lstrip (rev s)) ++ rev w).
  { rewrite <- rev_app_distr, <- Hw, rev_involutive. reflexivity. }
  rewrite E at 1. apply starts_with_app.
Qed.

Lemma find_prefix r : forall s k, starts_with s r = true -> find_from k s r = k.
Proof. intros s k H. destruct s; cbn [find_from]; rewrite H; reflexivity. Qed.

Lemma lstrip_head c s' s : lstrip s = c :: s' -> is_ws c = false.
Proof.
  induction s as [|x s IH]; [discriminate|].
  cbn [lstrip]. destruct (is_ws x) eqn:E.
  - exact IH.
  - intros H. inversion H; subst. exact E.
Qed.

Lemma length_lstrip s : (length (lstrip s) <= length s)%nat.
Proof. induction s as [|c s IH]; [apply Nat.le_refl|]. cbn [lstrip]. destruct (is_ws c); cbn; lia. Qed.

(* text.find(r) for a non-empty prefix r of lstrip(text) that starts with a
   non-blank: the number of leading blanks *)
Lemma find_after_ws c r : is_ws c = false ->
  forall s k, starts_with (lstrip s) (c :: r) = true ->
  find_from k s (c :: r) = k + lead_ws s.
Proof.
  intros Hc. induction s as [|x s IH]; intros k H.
  - cbn in H. discriminate.
  - unfold lead_ws. cbn [lstrip] in *. destruct (is_ws x) eqn:Ex.
    + cbn [find_from].
      assert (Hne : starts_with (x :: s) (c :: r) = false).
      { cbn. destruct (N.eqb x c) eqn:E; [|reflexivity].
        apply N.eqb_eq in E. subst. congruence. }
      rewrite Hne, (IH (k + 1) H). unfold lead_ws.
      pose proof (length_lstrip s). cbn [length]. lia.
    + rewrite (find_prefix _ _ _ H). cbn [length]. lia.
Qed.

Lemma find_stripped s r : starts_with (lstrip s) r = true ->
  (forall c r', r = c :: r' -> is_ws c = false) ->
  py_find s r = strip_offset s r.
Proof.
  intros H Hc. unfold py_find, strip_offset. destruct r as [|c r'].
  - apply find_prefix, starts_with_nil.
  - rewrite (find_after_ws c r' (Hc c r' eq_refl) s 0 H). lia.
Qed.

Lemma find_lstrip s : py_find s (lstrip s) = strip_offset s (lstrip s).
Proof.
  apply find_stripped.
  - rewrite <- (app_nil_r (lstrip s)) at 1. apply starts_with_app.
  - intros c r' E. exact (lstrip_head c r' s E).
Qed.

Lemma find_strip s : py_find s (strip s) = strip_offset s (strip s).
Proof.
  change (strip s) with (rstrip (lstrip s)).
  apply find_stripped.
  - apply rstrip_prefix.
  - intros c r' E. pose proof (rstrip_prefix (lstrip s)) as Hp. rewrite E in Hp.
    destruct (lstrip s) as [|x l] eqn:El; [discriminate|].
    cbn in Hp. apply andb_true_iff in Hp as [Hx _]. apply N.eqb_eq in Hx. subst x.
    exact (lstrip_head c l s El).
Qed.

Lemma find_rstrip s : py_find s (rstrip s) = 0.
Proof. apply find_prefix, rstrip_prefix. Qed.

(* no argument, or None: Python whitespace.  A11 *)
Lemma gen_strip_ok a :
  run_meth C M_strip (tv a) [] = RV (tv (tok_strip a)) /\
  run_meth C M_strip (tv a) [VNone] = RV (tv (tok_strip a)).
Proof.
  unfold tok_strip. cbv zeta. rewrite <- find_strip, <- strip_by_ws.
  split; reflexivity.
Qed.

Lemma gen_lstrip_ok a :
  run_meth C M_lstrip (tv a) [] = RV (tv (tok_lstrip a)) /\
  run_meth C M_lstrip (tv a) [VNone] = RV (tv (tok_lstrip a)).
Proof.
  unfold tok_lstrip. cbv zeta. rewrite <- find_lstrip, <- lstrip_by_ws.
  split; reflexivity.
Qed.

Lemma gen_rstrip_ok a :
  run_meth C M_rstrip (tv a) [] = RV (tv (tok_rstrip a)) /\
  run_meth C M_rstrip (tv a) [VNone] = RV (tv (tok_rstrip a)).
Proof.
  assert (E : forall vs, vs = [] \/ vs = [VNone] ->
            run_meth C M_rstrip (tv a) vs
            = RV (tokval (rstrip_by is_ws (v_text a))
                         (VInt (v_pos a + py_find (v_text a) (rstrip_by is_ws (v_text a))))
                         (catval (v_cat a))))
    by (intros vs [-> | ->]; reflexivity).
  rewrite rstrip_by_ws, find_rstrip, Z.add_0_r in E.
  split; apply E; [left|right]; reflexivity.
Qed.

(* a set of characters (a str or a Token): the text is stripped of them, the
   position moves by text.find(result); wrong arguments are TypeErrors *)
Definition strip_meth (sd : side) : meth :=
  match sd with SBoth => M_strip | SLeft => M_lstrip | SRight => M_rstrip end.

Lemma gen_strip_chars sd s p c cs :
  let r := strip_side sd (fun x => mem_N x cs) s in
  run_meth C (strip_meth sd) (tokval s (VInt p) c) [VStr cs] = RV (tokval r (VInt (p + py_find s r)) c).
Proof. destruct sd; reflexivity. Qed.

Lemma gen_strip_bad_args sd s p c z x y :
  run_meth C (strip_meth sd) (tokval s p c) [VInt z] = RX TypeError /\
  run_meth C (strip_meth sd) (tokval s p c) [VStr x; VStr y] = RX TypeError.
Proof. destruct sd; split; reflexivity. Qed.

(* ===================================================================== Part 2
   The specification functions ARE what the other interpreters build in. *)

(* ---- TokDSL (token rules) *)

(* a += b *)
Lemma tokdsl_tok_add a b : TokDSL.tok_add a b = tok_add a b.
Proof. reflexivity. Qed.

Lemma join_texts_chars cs : join_texts [] (map (fun c => [ch c]) cs) = chars_of cs.
Proof.
  induction cs as [|c r IH]; [reflexivity|]. destruct r as [|c' r']; [reflexivity|].
  change (join_texts [] (map (fun c => [ch c]) (c :: c' :: r')))
    with ([ch c] ++ [] ++ join_texts [] (map (fun c => [ch c]) (c' :: r'))).
  rewrite IH. reflexivity.
Qed.

(* text.forward(n), n >= 1: Token.join of the n characters *)
Lemma tokdsl_forward c a :
  tok_join [] (map of_cchar (c :: a)) = mkv (chars_of (c :: a)) (cpos c) (KCC (ccat c)).
Proof.
  unfold tok_join. cbn [map of_cchar TokDSL.v_pos TokDSL.v_cat]. f_equal.
  rewrite map_map. cbn [of_cchar TokDSL.v_text].
  apply (join_texts_chars (c :: a)).
Qed.

(* SNewToken / SWrapForward *)
Lemma tokdsl_new p k t :
  new_of_str [] p (match k with Some x => KTC x | None => KNone end)
  = mkv [] p (match k with Some x => KTC x | None => KNone end) /\
  new_of_tok t KNone = t.
Proof. split; [reflexivity|]. destruct t; reflexivity. Qed.

(* ---- ReadDSL (reader) *)

Definition read_val (t : tokv) : option ReadDSL.value :=
  match v_cat t with
  | KNone => Some (ReadDSL.VTok (v_text t) (v_pos t) None)
  | KTC k => Some (ReadDSL.VTok (v_text t) (v_pos t) (Some k))
  | KCC _ => None
  end.

Lemma join_texts_concat l : join_texts [] l = concat l.
Proof.
  induction l as [|s r IH]; [reflexivity|]. destruct r as [|s' r'].
  - cbn. rewrite app_nil_r. reflexivity.
  - change (join_texts [] (s :: s' :: r')) with (s ++ [] ++ join_texts [] (s' :: r')).
    rewrite IH. reflexivity.
Qed.

(* peek((a, b)) / forward / backward: Token.join of tokens, Token.Empty for none *)
Lemma readdsl_join_tokens ts :
  read_val (tok_join [] (map of_token ts)) = Some (ReadDSL.join_tokens ts).
Proof.
  destruct ts as [|t r]; [reflexivity|].
  unfold tok_join, ReadDSL.join_tokens, read_val. cbn [map of_token TokDSL.v_pos TokDSL.v_cat TokDSL.v_text].
  rewrite join_texts_concat, map_map. reflexivity.
Qed.

Lemma readdsl_tok_val t : read_val (of_token t) = Some (ReadDSL.tok_val t).
Proof. reflexivity. Qed.

(* Token(text, pos) *)
Lemma readdsl_new s p : read_val (new_of_str s p KNone) = Some (ReadDSL.VTok s p None).
Proof. reflexivity. Qed.

(* forward_until: Token('', start) += forward(1) += ... keeps start and None *)
Lemma fold_add_texts ts : forall t0,
  fold_left tok_add ts t0 = mkv (v_text t0 ++ concat (map v_text ts)) (v_pos t0) (v_cat t0).
Proof.
  induction ts as [|t r IH]; intros t0.
  - cbn. rewrite app_nil_r. destruct t0; reflexivity.
  - cbn [fold_left map concat]. rewrite IH. unfold tok_add. cbn. rewrite app_assoc. reflexivity.
Qed.

Lemma readdsl_forward_until start ts :
  read_val (fold_left tok_add (map of_token ts) (new_of_str [] start KNone))
  = Some (ReadDSL.VTok (texts ts) start None).
Proof.
  rewrite fold_add_texts. unfold read_val, texts. cbn. rewrite map_map. reflexivity.
Qed.

Lemma readdsl_truthy_eq a b va vb s :
  read_val a = Some va -> read_val b = Some vb ->
  ReadDSL.truthy va = Some (tok_bool a) /\
  ReadDSL.py_eq va vb = Some (tok_eq a b) /\
  ReadDSL.py_eq va (ReadDSL.VStr s) = Some (tok_eq_str a s) /\
  ReadDSL.py_eq (ReadDSL.VStr s) va = Some (str_eqb s (v_text a)) /\
  ReadDSL.py_eq va ReadDSL.VNone = Some false /\
  ReadDSL.text_of va = Some (tok_str a).
Proof.
  unfold read_val. intros Ha Hb.
  destruct a as [sa pa ca]; destruct b as [sb pb cb]; cbn in *.
  destruct ca; destruct cb; inversion Ha; inversion Hb; subst;
    repeat split; try reflexivity; unfold tok_bool; cbn; destruct sa; reflexivity.
Qed.

(* ---- GlueDSL (categorize, next_token, tokenize, read) *)

Definition glue_cat (c : catv) : option GlueDSL.value :=
  match c with
  | KNone => Some GlueDSL.VNone
  | KCC k => Some (GlueDSL.VCat k)
  | KTC _ => None
  end.

(* Token(t, p, c) *)
Lemma gluedsl_new_token t p c gc s z :
  glue_cat c = Some gc ->
  GlueDSL.new_token (GlueDSL.VTok t) p gc = GlueDSL.EV (GlueDSL.VTok (new_of_tok t c)) /\
  GlueDSL.new_token (GlueDSL.VStr s) (GlueDSL.VInt z) gc = GlueDSL.EV (GlueDSL.VTok (new_of_str s z c)).
Proof.
  intros H. destruct c as [|k|k]; inversion H; subst.
  - split; [|reflexivity]. destruct t; reflexivity.
  - split; [|reflexivity]. unfold GlueDSL.new_token.
    assert (E : N.eqb (Tables.cc_value k) 0 = false) by (destruct k; reflexivity).
    rewrite E. reflexivity.
Qed.

Lemma gluedsl_truthy_eq a b s :
  GlueDSL.truthy (GlueDSL.VTok a) = Some (tok_bool a) /\
  GlueDSL.py_eq (GlueDSL.VTok a) (GlueDSL.VTok b) = Some (tok_eq a b) /\
  GlueDSL.py_eq (GlueDSL.VTok a) (GlueDSL.VStr s) = Some (tok_eq_str a s) /\
  GlueDSL.py_eq (GlueDSL.VStr s) (GlueDSL.VTok a) = Some (str_eqb s (v_text a)) /\
  GlueDSL.py_eq (GlueDSL.VTok a) GlueDSL.VNone = Some false /\
  GlueDSL.py_eq GlueDSL.VNone (GlueDSL.VTok a) = Some false.
Proof.
  repeat split; reflexivity.
Qed.

(* Buffer(str): Token(c, index) for each character *)
Lemma gluedsl_str_tokens s : forall p k,
  GlueDSL.str_tokens (p + k) s = map GlueDSL.VTok (tok_iter_from (mkv [] p KNone) k s).
Proof.
  induction s as [|c s IH]; intros p k; [reflexivity|].
  cbn [GlueDSL.str_tokens tok_iter_from map TokDSL.v_pos TokDSL.v_cat]. f_equal.
  replace (p + k + 1) with (p + (k + 1)) by lia. apply IH.
Qed.

(* ---- BufDSL (Buffer): positions are not part of its values; every + is the
   concatenation of the texts, Token(tok, i) keeps the text, join concatenates *)
Lemma bufdsl_texts a b s ts p' c :
  v_text (tok_add a b) = v_text a ++ v_text b /\
  v_text (tok_add_str a s) = v_text a ++ s /\
  v_text (tok_radd s a) = s ++ v_text a /\
  v_text (new_of_tok a c) = v_text a /\
  v_text (new_of_str s p' c) = s /\
  v_text (tok_join [] ts) = concat (map v_text ts).
Proof.
  repeat split. destruct ts as [|t r]; [reflexivity|].
  unfold tok_join. cbn [TokDSL.v_text]. apply join_texts_concat.
Qed.

(* ===================================================================== Part 3
   positions inside a token (C13) *)

Lemma firstn_skipn_nth {A} (l : list A) n x :
  nth_error l n = Some x -> firstn 1 (skipn n l) = [x].
Proof.
  revert n. induction l as [|y l IH]; intros [|n] H; try discriminate.
  - inversion H; subst. reflexivity.
  - cbn. apply IH. exact H.
Qed.

Lemma getitem_true_offset a k r : tok_getitem a k = Some r -> occurs_at a r.
Proof.
  unfold tok_getitem, occurs_at. cbv zeta.
  set (k' := if k <? 0 then _ else _).
  destruct ((0 <=? k') && (k' <? Z.of_nat (length (v_text a)))) eqn:E; [|discriminate].
  apply andb_true_iff in E as [E1 E2]. apply Z.leb_le in E1.
  destruct (nth_error (v_text a) (Z.to_nat k')) as [c|] eqn:En; [|discriminate].
  intros H. inversion H; subst r. cbn [TokDSL.v_pos TokDSL.v_text length].
  replace (v_pos a + k' - v_pos a) with k' by lia. split; [exact E1|].
  apply firstn_skipn_nth. exact En.
Qed.

Lemma iter_true_offset a : Forall (occurs_at a) (tok_iter a).
Proof.
  unfold tok_iter.
  assert (G : forall s k pre, 0 <= k -> v_text a = pre ++ s -> Z.of_nat (length pre) = k ->
             Forall (occurs_at a) (tok_iter_from a k s)).
  { induction s as [|c s IH]; intros k pre Hk Ht Hl; [constructor|].
    cbn [tok_iter_from]. constructor.
    - unfold occurs_at. cbn [TokDSL.v_pos TokDSL.v_text length].
      replace (v_pos a + k - v_pos a) with k by lia. split; [exact Hk|].
      rewrite Ht. rewrite <- Hl, Nat2Z.id.
      rewrite skipn_app, skipn_all, Nat.sub_diag. reflexivity.
    - apply (IH (k + 1) (pre ++ [c])); [lia| |].
      + rewrite <- app_assoc. exact Ht.
      + rewrite app_length. cbn. lia. }
  apply (G (v_text a) 0 []); [lia|reflexivity|reflexivity].
Qed.

Lemma lead_ws_skip s : skipn (Z.to_nat (lead_ws s)) s = lstrip s.
Proof.
  unfold lead_ws. rewrite Nat2Z.id.
  destruct (lstrip_suffix s) as [w Hw].
  assert (El : (length s - length (lstrip s))%nat = length w).
  { rewrite Hw at 1. rewrite app_length. lia. }
  rewrite El. rewrite Hw at 1. rewrite skipn_app, skipn_all, Nat.sub_diag. reflexivity.
Qed.

Lemma starts_with_firstn r : forall s, starts_with s r = true -> firstn (length r) s = r.
Proof.
  induction r as [|c r IH]; intros s H; [reflexivity|].
  destruct s as [|x s]; [discriminate|]. cbn in H.
  apply andb_true_iff in H as [H1 H2]. apply N.eqb_eq in H1. subst.
  cbn. rewrite (IH s H2). reflexivity.
Qed.

Lemma lead_ws_nonneg s : 0 <= lead_ws s.
Proof. unfold lead_ws. lia. Qed.

(* strip / lstrip / rstrip: the result stands at its recorded position *)
Lemma strip_true_offset a :
  occurs_at a (tok_strip a) /\ occurs_at a (tok_lstrip a) /\ occurs_at a (tok_rstrip a).
Proof.
  unfold occurs_at, tok_strip, tok_lstrip, tok_rstrip. cbv zeta.
  cbn [TokDSL.v_pos TokDSL.v_text].
  repeat split.
  - unfold strip_offset. destruct (strip (v_text a)); [lia|]. pose proof (lead_ws_nonneg (v_text a)). lia.
  - unfold strip_offset. destruct (strip (v_text a)) as [|c r] eqn:E; [reflexivity|].
    replace (v_pos a + lead_ws (v_text a) - v_pos a) with (lead_ws (v_text a)) by lia.
    rewrite lead_ws_skip, <- E. apply starts_with_firstn.
    change (strip (v_text a)) with (rstrip (lstrip (v_text a))). apply rstrip_prefix.
  - unfold strip_offset. destruct (lstrip (v_text a)); [lia|]. pose proof (lead_ws_nonneg (v_text a)). lia.
  - unfold strip_offset. destruct (lstrip (v_text a)) as [|c r] eqn:E; [reflexivity|].
    replace (v_pos a + lead_ws (v_text a) - v_pos a) with (lead_ws (v_text a)) by lia.
    rewrite lead_ws_skip, E. apply firstn_all.
  - lia.
  - replace (v_pos a - v_pos a) with 0 by lia. cbn [Z.to_nat skipn].
    apply starts_with_firstn, rstrip_prefix.
Qed.

(* s + tok: the old text stands at its old offset inside the new token *)
Lemma radd_true_offset s a : occurs_at (tok_radd s a) a.
Proof.
  unfold occurs_at, tok_radd. cbn [TokDSL.v_pos TokDSL.v_text].
  replace (v_pos a - (v_pos a - Z.of_nat (length s))) with (Z.of_nat (length s)) by lia.
  split; [lia|]. rewrite Nat2Z.id, skipn_app, skipn_all, Nat.sub_diag. cbn. apply firstn_all.
Qed.

Lemma firstn_min_length {A} n (l : list A) : firstn (Nat.min n (length l)) l = firstn n l.
Proof.
  destruct (le_lt_dec n (length l)) as [H|H].
  - rewrite Nat.min_l by exact H. reflexivity.
  - rewrite Nat.min_r by lia. rewrite firstn_all, firstn_all2 by lia. reflexivity.
Qed.

(* tok[lo:hi] with lo inside the text (-len <= lo <= len, or omitted): true offset *)
Lemma getslice_true_offset a lo hi :
  (match lo with None => True | Some z => - Z.of_nat (length (v_text a)) <= z <= Z.of_nat (length (v_text a)) end) ->
  occurs_at a (tok_getslice a lo hi).
Proof.
  intros Hlo. unfold occurs_at, tok_getslice, str_slice. cbv zeta. cbn [TokDSL.v_pos TokDSL.v_text].
  set (n := Z.of_nat (length (v_text a))) in *.
  set (st := match lo with None => 0 | Some z => from_end n z end).
  assert (Hst : 0 <= st <= n /\ match lo with None => 0 | Some z => clip n (from_end n z) end = st).
  { subst st. destruct lo as [z|]; [|lia]. unfold from_end, clip in *.
    destruct (z <? 0) eqn:E; [apply Z.ltb_lt in E|apply Z.ltb_ge in E]; lia. }
  destruct Hst as [Hr Hc]. rewrite Hc.
  replace (v_pos a + st - v_pos a) with st by lia. split; [lia|].
  rewrite firstn_length. apply firstn_min_length.
Qed.

(* ... but a start before the beginning of the text is NOT clipped: the
   recorded position lies before the token (replayed on the real code:
   Token('asdf', 2)[-10:] is 'asdf' at position -4) *)
Lemma getslice_offset_refuted :
  exists a lo hi, ~ occurs_at a (tok_getslice a lo hi) /\
    run_meth C M_getitem (tv a) [VSlice (optv lo) (optv hi) VNone]
    = RV (tokval [97; 115; 100; 102]%N (VInt (-4)) VNone).
Proof.
  exists (mkv [97; 115; 100; 102]%N 2 KNone), (Some (-10)), None. split.
  - unfold occurs_at. cbn. intros [H _]. lia.
  - reflexivity.
Qed.

(* ------------------------------------------------------------------ examples *)

Definition ex_tok : tokv := mkv [32; 97; 98; 32]%N 10 (KTC TText).      (* ' ab ' at 10 *)

Example ex_strip :
  run_meth C M_strip (tv ex_tok) [] = RV (tv (mkv [97; 98]%N 11 (KTC TText))) /\
  run_meth C M_rstrip (tv ex_tok) [] = RV (tv (mkv [32; 97; 98]%N 10 (KTC TText))) /\
  run_meth C M_getitem (tv ex_tok) [VInt (-2)] = RV (tv (mkv [98]%N 12 (KTC TText))) /\
  run_meth C M_getitem (tv ex_tok) [VInt 4] = RX IndexError /\
  run_meth C M_getitem (tv ex_tok) [VSlice (VInt 1) (VInt 3) VNone] = RV (tv (mkv [97; 98]%N 11 (KTC TText))) /\
  run_add C (VStr [120]%N) (tv ex_tok) = RV (tv (mkv [120; 32; 97; 98; 32]%N 9 (KTC TText))) /\
  run_meth C M_join VCls [VList [tv ex_tok; tv (mkv [99]%N 14 KNone)]]
    = RV (tv (mkv [32; 97; 98; 32; 99]%N 10 (KTC TText))).
Proof. vm_compute. repeat split; reflexivity. Qed.

Example ex_getitem_some : tok_getitem ex_tok (-2) = Some (mkv [98]%N 12 (KTC TText)).
Proof. reflexivity. Qed.

Example ex_slice_guard :
  match Some (-3) with None => True | Some z => - Z.of_nat (length (v_text ex_tok)) <= z <= Z.of_nat (length (v_text ex_tok)) end.
Proof. cbn. lia. Qed.

Example ex_eq_delegates_hyp : isinst KToken (VStr [97]%N) = Some false.
Proof. reflexivity. Qed.

Example ex_read_val : read_val (of_token (mkt [97]%N 3 TText)) = Some (ReadDSL.VTok [97]%N 3 (Some TText))
  /\ glue_cat (KCC CLetter) = Some (GlueDSL.VCat CLetter).
Proof. split; reflexivity. Qed.

Example ex_payload_hyp :
  run_new C [VStr [97]%N; VInt 1; VNone] = RV (VTok [97]%N (Some (VStr [97]%N)) (Some (VInt 1)) (Some VNone)).
Proof. reflexivity. Qed.
