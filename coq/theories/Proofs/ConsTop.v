(* String-level consequences of CP (ReaderCons.v) and TOK (TokProofs.v). *)
From Coq Require Import List NArith ZArith Bool Lia.
From TexModel Require Import Base Tables Chars Tokenizer Tree Reader.
From TexProofs Require Import TokProofs ReaderLen ReaderCons.
Import ListNotations.

Lemma parse_unfold (s : str) strict user t :
  parse s strict user = Ok t ->
  exists toks, tokens_of_string s = (toks, TEnd) /\ parse_tokens toks strict user = Ok t.
Proof.
  unfold parse. destruct (tokens_of_string s) as [toks e]. destruct e; try discriminate. eauto.
Qed.

Theorem parse_conserves_hyp (s : str) strict user t toks :
  tokens_of_string s = (toks, TEnd) -> parse s strict user = Ok t ->
  Hyp (all_skip user) toks -> nobare t = true ->
  Rel (negb strict) toks (estr t).
Proof.
  intros Et H Hy Hn. apply parse_unfold in H. destruct H as (toks' & Et' & H).
  rewrite Et in Et'. inversion Et'; subst toks'.
  eapply parse_tokens_conserves; eassumption.
Qed.

Theorem parse_roundtrip_hyp (s : str) user t toks :
  tokens_of_string s = (toks, TEnd) -> parse s true user = Ok t ->
  Hyp (all_skip user) toks -> nobare t = true -> no_arg_spacer toks = true ->
  Forall (fun c => ign c = false) (categorize s) ->
  estr t = s.
Proof.
  intros Et H Hy Hn Hs Hi. pose proof H as H0.
  apply parse_unfold in H. destruct H as (toks' & Et' & H).
  rewrite Et in Et'. inversion Et'; subst toks'.
  rewrite (parse_tokens_roundtrip toks user t Hy H Hn Hs).
  eapply tokens_concat_exact; eassumption.
Qed.

(* under the round-trip conditions the output is a fixed point of the parser *)
Theorem parse_fixed_point_hyp (s : str) user t toks :
  tokens_of_string s = (toks, TEnd) -> parse s true user = Ok t ->
  Hyp (all_skip user) toks -> nobare t = true -> no_arg_spacer toks = true ->
  Forall (fun c => ign c = false) (categorize s) ->
  parse (estr t) true user = Ok t /\ (forall t', parse (estr t) true user = Ok t' -> estr t' = estr t).
Proof.
  intros Et H Hy Hn Hs Hi.
  pose proof (parse_roundtrip_hyp s user t toks Et H Hy Hn Hs Hi) as E.
  rewrite E. split; [exact H|]. intros t' H'. rewrite H in H'. inversion H' as [Ht]. subst t'. exact E.
Qed.
