(* Every reader function returns a suffix no longer than what it was given,
   and read_expr consumes at least one token: the termination measure of the
   recursive-descent reader. *)
From Coq Require Import List NArith ZArith Bool Lia.
From TexModel Require Import Base Tables Chars Tokenizer Tree Reader.
Import ListNotations.

Lemma bind_ok {A B} (r : res A) (k : A -> res B) b :
  bind r k = Ok b -> exists a, r = Ok a /\ k a = Ok b.
Proof. destruct r; simpl; [eauto | discriminate]. Qed.

Lemma read_spacer_len toks b src : read_spacer toks = (b, src) ->
  (length src <= length toks)%nat.
Proof.
  unfold read_spacer. destruct toks as [|t r]; [intro H; inversion H; auto|].
  destruct (is_tc TMergedSpacer t); intro H; inversion H; subst; simpl; lia.
Qed.

Lemma skipn_cons_len {A} n (l : list A) x r :
  skipn n l = x :: r -> (S (length r) = length l - n)%nat.
Proof. intro H. pose proof (skipn_length n l) as L. rewrite H in L. simpl in L. lia. Qed.

Lemma skip_scan_len target acc toks body rest :
  skip_scan target acc toks = (body, rest) -> (length rest <= length toks)%nat.
Proof.
  revert acc; induction toks as [|t r IH]; intros acc H; simpl in H.
  - inversion H; auto.
  - destruct (starts_with _ _); [inversion H; subst; auto|].
    apply IH in H. simpl. lia.
Qed.

Lemma read_skip_env_len name args pos toks e rest :
  read_skip_env name args pos toks = Ok (e, rest) -> (length rest <= length toks)%nat.
Proof.
  unfold read_skip_env. destruct (skip_scan (env_end name) [] toks) as [body r] eqn:E.
  apply skip_scan_len in E.
  destruct toks as [|t0 ts]; [discriminate|]. destruct r as [|r0 rs]; [discriminate|].
  destruct (starts_with _ _); [|discriminate]. intro H; inversion H; subst.
  pose proof (skipn_length 5 (r0 :: rs)) as L. simpl length in *. lia.
Qed.

Definition len_expr f := forall skip strict m toks e rest,
  read_expr f skip strict m toks = Ok (e, rest) -> (length rest < length toks)%nat.
Definition len_item f := forall acc toks es rest,
  read_item_loop f acc toks = Ok (es, rest) -> (length rest <= length toks)%nat.
Definition len_math f := forall k pos strict acc toks e rest,
  read_math_loop f k pos strict acc toks = Ok (e, rest) -> (length rest <= length toks)%nat.
Definition len_env f := forall name args pos skip strict m acc toks e rest,
  read_env_loop f name args pos skip strict m acc toks = Ok (e, rest) ->
  (length rest <= length toks)%nat.
Definition len_command f := forall nreq nopt sk strict m toks name args rest,
  read_command f nreq nopt sk strict m toks = Ok ((name, args), rest) ->
  (length rest <= length toks - sk)%nat /\ (skipn sk toks <> [] -> length rest < length toks - sk)%nat.
Definition len_args f := forall nreq nopt strict m toks args rest,
  read_args f nreq nopt strict m toks = Ok (args, rest) -> (length rest <= length toks)%nat.
Definition len_opt f := forall args nopt strict m toks args' n' rest,
  read_arg_optional f args nopt strict m toks = Ok ((args', n'), rest) ->
  (length rest <= length toks)%nat.
Definition len_req f := forall args nreq strict m toks args' n' rest,
  read_arg_required f args nreq strict m toks = Ok ((args', n'), rest) ->
  (length rest <= length toks)%nat.
Definition len_arg f := forall c strict m toks e rest,
  read_arg f c strict m toks = Ok (e, rest) -> (length rest <= length toks)%nat.
Definition len_argloop f := forall k pos strict m acc toks e rest,
  read_arg_loop f k pos strict m acc toks = Ok (e, rest) -> (length rest <= length toks)%nat.

Definition len_all f :=
  len_expr f /\ len_item f /\ len_math f /\ len_env f /\ len_command f /\ len_args f /\
  len_opt f /\ len_req f /\ len_arg f /\ len_argloop f.

(* turn every successful call in the context into its length fact *)
Ltac use_len :=
  repeat match goal with
  | IH : len_expr ?f, H : read_expr ?f _ _ _ _ = Ok _ |- _ => apply IH in H
  | IH : len_item ?f, H : read_item_loop ?f _ _ = Ok _ |- _ => apply IH in H
  | IH : len_math ?f, H : read_math_loop ?f _ _ _ _ _ = Ok _ |- _ => apply IH in H
  | IH : len_env ?f, H : read_env_loop ?f _ _ _ _ _ _ _ _ = Ok _ |- _ => apply IH in H
  | IH : len_command ?f, H : read_command ?f _ _ _ _ _ _ = Ok _ |- _ => apply IH in H; destruct H
  | IH : len_args ?f, H : read_args ?f _ _ _ _ _ = Ok _ |- _ => apply IH in H
  | IH : len_opt ?f, H : read_arg_optional ?f _ _ _ _ _ = Ok _ |- _ => apply IH in H
  | IH : len_req ?f, H : read_arg_required ?f _ _ _ _ _ = Ok _ |- _ => apply IH in H
  | IH : len_arg ?f, H : read_arg ?f _ _ _ _ = Ok _ |- _ => apply IH in H
  | IH : len_argloop ?f, H : read_arg_loop ?f _ _ _ _ _ _ = Ok _ |- _ => apply IH in H
  | H : read_spacer _ = (_, _) |- _ => apply read_spacer_len in H
  | H : skipn _ _ = _ :: _ |- _ => apply skipn_cons_len in H
  | H : read_skip_env _ _ _ _ = Ok _ |- _ => apply read_skip_env_len in H
  end.

(* peel one construct off a hypothesis of the form  <reader body> = Ok _ *)
Ltac peel H :=
  match type of H with
  | Ok _ = Ok _ => inversion H; subst; clear H
  | Err _ = Ok _ => discriminate H
  | bind ?r ?k = Ok _ =>
    let a := fresh "a" in let E := fresh "E" in
    destruct r as [a|?] eqn:E; [cbn [bind] in H | discriminate H]
  | context [match ?x with _ => _ end] =>
    match x with
    | context [match _ with _ => _ end] => fail 1
    | _ => let E := fresh "E" in destruct x eqn:E
    end
  end.

Ltac peel_ctx :=
  repeat match goal with
         | H' : bind _ _ = Ok _ |- _ => peel H'
         | H' : match _ with _ => _ end = Ok _ |- _ => peel H'
         | H' : Ok _ = Ok _ |- _ => peel H'
         | H' : Err _ = Ok _ |- _ => discriminate H'
         end.

Ltac peel_all H :=
  repeat (peel H);
  repeat match goal with
         | H' : bind _ _ = Ok _ |- _ => peel H'
         | H' : match _ with _ => _ end = Ok _ |- _ => peel H'
         | H' : Ok _ = Ok _ |- _ => peel H'
         | H' : Err _ = Ok _ |- _ => discriminate H'
         end.

Arguments read_spacer : simpl never.
Arguments mem_str : simpl never.
Arguments skipn : simpl never.
Arguments read_skip_env : simpl never.

Ltac finish_len :=
  use_len;
  repeat match goal with
         | H : context [length (skipn ?n ?l)] |- _ => rewrite (skipn_length n l) in H
         end;
  repeat match goal with
         | H : (_ <? _)%nat = false |- _ => apply Nat.ltb_ge in H
         | H : (_ <? _)%nat = true |- _ => apply Nat.ltb_lt in H
         end;
  simpl length in *; try lia.

Lemma len_all_holds : forall f, len_all f.
Proof.
  induction f as [|f IH].
  { unfold len_all, len_expr, len_item, len_math, len_env, len_command, len_args, len_opt,
      len_req, len_arg, len_argloop.
    repeat split; intros; simpl in *; discriminate. }
  destruct IH as (IHe & IHi & IHm & IHv & IHc & IHa & IHo & IHr & IHg & IHl).
  unfold len_all.
  repeat match goal with |- _ /\ _ => split end;
    [unfold len_expr | unfold len_item | unfold len_math | unfold len_env | unfold len_command
     | unfold len_args | unfold len_opt | unfold len_req | unfold len_arg | unfold len_argloop].
  - (* read_expr *)
    intros skip strict m toks e rest H. simpl in H.
    peel_all H; finish_len.
  - (* read_item_loop *)
    intros acc toks es rest H. simpl in H.
    peel_all H; finish_len.
  - intros k pos strict acc toks e rest H. simpl in H.
    peel_all H; finish_len.
  - intros name args pos skip strict m acc toks e rest H. simpl in H.
    peel_all H; finish_len.
  - intros nreq nopt sk strict m toks name args rest H. simpl in H.
    peel_all H; (split; [|intro Hne; try congruence]); finish_len.
  - intros nreq nopt strict m toks args rest H. simpl in H.
    peel_all H; finish_len.
  - intros args nopt strict m toks args' n' rest H. simpl in H.
    peel_all H; finish_len.
  - intros args nreq strict m toks args' n' rest H. simpl in H.
    peel_all H; finish_len.
  - intros c strict m toks e rest H. simpl in H.
    peel_all H; finish_len.
  - intros k pos strict m acc toks e rest H. simpl in H.
    peel_all H; finish_len.
Qed.
