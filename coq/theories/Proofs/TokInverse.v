(* TOKINV: the tokenizer's inverse on well-shaped token sequences
   (DESIGN.md section 5).

   Stage 1  definitions: shape, followc / pre_tok / follow, follows_ok,
            start_quirk (the index-0 quirk of peek(-1)), first_ok, repos.
   Stage 2  tokinv: shaped + follow + first-token condition  ==>
            tokens_of_string (texts toks) = (repos 0 toks, TEnd).
   Stage 3  tokens_shaped: the converse for tokenizer outputs; retokenize_id;
            drop_spacer(s)_retokenize.

   All texts are NUL/DEL-free (no character of a Tables.ignore_cats category):
   this is part of `shape`.  Every fact about a generated table is obtained by
   computation on the table. *)
From Coq Require Import List NArith ZArith Bool Lia Arith Permutation.
From TexModel Require Import Base Tables Chars Tokenizer.
From TexProofs Require Import TokProofs TokFacts.
Import ListNotations.

Local Notation points := Tables.punctuation_commands.

(* ====================================================================== *)
(* Stage 1: definitions                                                    *)
(* ====================================================================== *)

Definition catc (c : N) : cc := categorize_char c.
Definition is_c (k : cc) (c : N) : bool := cc_beq (catc c) k.
Definition clean_c (c : N) : bool := negb (mem_cc (catc c) Tables.ignore_cats).
Definition text_c (c : N) : bool := negb (mem_cc (catc c) Tables.string_stop_cats).
Definition rollback_c (c : N) : bool := mem_cc (catc c) Tables.spacer_rollback_cats.
Definition ls_c (c : N) : bool := is_c CLetter c || N.eqb c star.
Definition noeol_c (c : N) : bool := negb (is_c CEndOfLine c).
Definition esc2_c (c : N) : bool := mem_cc (catc c) Tables.escaped_second_cats.
Definition asym_c (c : N) : bool :=
  match lookup_asym Tables.asym_map CEscape (catc c) with Some _ => true | None => false end.

(* blank* (eol blank* )? is what rule 7 consumes *)
Fixpoint drop_blanks (s : str) : str :=
  match s with
  | c :: s' => if is_c CSpacer c then drop_blanks s' else s
  | [] => []
  end.
Definition drop_eol (s : str) : str :=
  match s with
  | c :: s' => if is_c CEndOfLine c then s' else s
  | [] => []
  end.
Definition after_spacers (s : str) : str := drop_blanks (drop_eol (drop_blanks s)).
Definition starts_blank (s : str) : bool :=
  match s with c :: _ => is_c CSpacer c || is_c CEndOfLine c | [] => false end.
Definition starts_letter (s : str) : bool :=
  match s with c :: _ => is_c CLetter c | [] => false end.
Definition has_eol (s : str) : bool := existsb (is_c CEndOfLine) s.

(* the lexical shape of a token of category k, read off the rule that emits it *)
Definition shape_cat (k : tc) (s : str) : bool :=
  match k with
  | TText =>
    (* rule 11: no stop character; and rule 7 did not claim its beginning:
       either it does not start with a blank/eol, or the run
       blank* (eol blank* )? it starts with is followed, inside the text, by a
       Letter/Other character (the roll-back of rule 7) *)
    forallb text_c s &&
    match after_spacers s with
    | [] => false
    | c :: _ => rollback_c c || negb (starts_blank s)
    end
  | TMergedSpacer =>
    match s with [] => false | _ :: _ => match after_spacers s with [] => true | _ :: _ => false end end
  | TComment =>
    match s with c0 :: b => is_c CComment c0 && forallb noeol_c b | [] => false end
  | TEscapedComment =>
    match s with [c0; c1] => is_c CEscape c0 && esc2_c c1 | _ => false end
  | TEscape | TGroupBegin | TGroupEnd | TBracketBegin | TBracketEnd =>
    match s with
    | [c] => match lookup_sym Tables.symbols_map (catc c) with
             | Some k' => tc_beq k' k | None => false end
    | _ => false
    end
  | TMathSwitch => match s with [c] => is_c CMathSwitch c | _ => false end
  | TDisplayMathSwitch =>
    match s with [c0; c1] => is_c CMathSwitch c0 && is_c CMathSwitch c1 | _ => false end
  | TMathGroupBegin | TMathGroupEnd | TDisplayMathGroupBegin | TDisplayMathGroupEnd =>
    match s with
    | [c0; c1] => match lookup_asym Tables.asym_map (catc c0) (catc c1) with
                  | Some k' => tc_beq k' k | None => false end
    | _ => false
    end
  | TCommandName =>
    match s with c0 :: m => is_c CLetter c0 && forallb ls_c m | [] => false end
  | TPunctuationCommandName => mem_str s points
  | TLineBreak | TParenBegin | TParenEnd | TSizeCommand | TSpacer => false
  end.

Definition shape (t : token) : bool :=
  forallb clean_c (ttext t) && shape_cat (tcat t) (ttext t).

Definition nc_not (P : N -> bool) (o : option N) : bool :=
  match o with Some c => negb (P c) | None => true end.

(* maximal munch: what the characters after token t may be.  `rest` is the
   whole remaining input: for a CommandName the look-ahead of rule 9 reaches
   beyond the next token ("\left" + "\" + "langle"). *)
Definition followc (t : token) (rest : str) : bool :=
  let h := hd_error rest in
  match tcat t with
  | TText => nc_not text_c h
  | TMergedSpacer =>
    nc_not rollback_c h && nc_not (is_c CSpacer) h &&
    (has_eol (ttext t) || nc_not (is_c CEndOfLine) h)
  | TComment => nc_not noeol_c h
  | TMathSwitch => nc_not (is_c CMathSwitch) h
  | TEscape => nc_not esc2_c h && nc_not asym_c h
  | TCommandName =>
    nc_not ls_c h &&
    match find_point points (ttext t ++ rest) with None => true | Some _ => false end
  | _ => true
  end.

(* the classification of a token that starts with a letter depends on
   whether the character before it is an escape (rules 9 and 10) *)
Definition pre_tok (esc : bool) (t : token) : bool :=
  match tcat t with
  | TCommandName | TPunctuationCommandName => esc
  | TText => negb (esc && starts_letter (ttext t))
  | _ => true
  end.
Definition pre_ok (esc : bool) (nxt : list token) : bool :=
  match nxt with [] => true | n :: _ => pre_tok esc n end.

Definition ends_esc (t : token) : bool := is_c CEscape (last (ttext t) 0%N).

Definition texts (toks : list token) : str := concat (map ttext toks).

Definition follow (t : token) (nxt : list token) : bool :=
  followc t (texts nxt) && pre_ok (ends_esc t) nxt.

Fixpoint follows_ok (toks : list token) : bool :=
  match toks with
  | [] => true
  | t :: r => follow t r && follows_ok r
  end.

(* the index-0 quirk: at buffer index 0, peek(-1) is the last MATERIALISED
   character.  It changes the first token exactly when the input starts with
   a letter, then an escape, and the character at index
   min(len, 1 + max point length) - 1 is an escape too: the letter becomes a
   CommandName ("a\" -> CommandName "a", Escape "\"). *)
Definition nth_is (P : N -> bool) (o : option N) : bool :=
  match o with Some c => P c | None => false end.

Definition start_quirk (s : str) : bool :=
  match s with
  | c0 :: c1 :: _ =>
    is_c CLetter c0 && is_c CEscape c1 &&
    nth_is (is_c CEscape) (nth_error s (Nat.min (length s) (S (max_point_len points)) - 1))
  | _ => false
  end.

Definition first_ok (toks : list token) : bool :=
  pre_ok false toks && negb (start_quirk (texts toks)).

Fixpoint repos (p : Z) (toks : list token) : list token :=
  match toks with
  | [] => []
  | t :: r => mkt (ttext t) p (tcat t) :: repos (p + Z.of_nat (length (ttext t)))%Z r
  end.

Definition clean (s : str) : bool := forallb clean_c s.
