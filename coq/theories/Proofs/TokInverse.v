(* TOKINV: the tokenizer's inverse on well-shaped token sequences
   (DESIGN.md section 5).

   Stage 1  definitions: shape, followc / pre_tok / follow, follows_ok,
            start_quirk (the index-0 quirk of peek(-1)), first_ok, repos.
   Stage 2  tokinv: shaped + follow + first-token condition  ==>
            tokens_of_string (texts toks) = (repos 0 toks, TEnd).
   Stage 3  tokens_shaped: the converse for tokenizer outputs; retokenize_id;
            drop_spacer(s)_retokenize (with the three side conditions the
            proof forces, each with a refutation replayed on the code).
   Stage 4  insert_retokenize / insert_closer_retokenize: stability under
            inserted closers ("}", "]", "\end{name}": tolerant mode).
   Also     no_linebreak_token, escape_follow_is_letter, start_quirk_first_token.

   All texts are NUL/DEL-free (no character of a Tables.ignore_cats category):
   this is part of `shape`.  Every fact about a generated table is obtained by
   computation on the table. *)
From Coq Require Import List NArith ZArith Bool Lia Arith Permutation.
From TexModel Require Import Base Tables Chars Tokenizer.
From TexProofs Require Import TokProofs TokFacts.
Import ListNotations.

Local Notation points := Tables.punctuation_commands.

(* ====================================================================== *)
(* Stage 1: definitions                                                    *)
(* ====================================================================== *)

Notation catc := categorize_char (only parsing).
Definition is_c (k : cc) (c : N) : bool := cc_beq (catc c) k.
Definition clean_c (c : N) : bool := negb (mem_cc (catc c) Tables.ignore_cats).
Definition text_c (c : N) : bool := negb (mem_cc (catc c) Tables.string_stop_cats).
Definition rollback_c (c : N) : bool := mem_cc (catc c) Tables.spacer_rollback_cats.
Definition ls_c (c : N) : bool := is_c CLetter c || N.eqb c star.
Definition noeol_c (c : N) : bool := negb (is_c CEndOfLine c).
Definition esc2_c (c : N) : bool := mem_cc (catc c) Tables.escaped_second_cats.
Definition asym_c (c : N) : bool :=
  match lookup_asym Tables.asym_map CEscape (catc c) with Some _ => true | None => false end.

(* blank* (eol blank* )? is what rule 7 consumes *)
Fixpoint drop_blanks (s : str) : str :=
  match s with
  | c :: s' => if is_c CSpacer c then drop_blanks s' else s
  | [] => []
  end.
Definition drop_eol (s : str) : str :=
  match s with
  | c :: s' => if is_c CEndOfLine c then s' else s
  | [] => []
  end.
Definition after_spacers (s : str) : str := drop_blanks (drop_eol (drop_blanks s)).
Definition starts_blank (s : str) : bool :=
  match s with c :: _ => is_c CSpacer c || is_c CEndOfLine c | [] => false end.
Definition starts_letter (s : str) : bool :=
  match s with c :: _ => is_c CLetter c | [] => false end.
Definition has_eol (s : str) : bool := existsb (is_c CEndOfLine) s.

(* the lexical shape of a token of category k, read off the rule that emits it *)
Definition shape_cat (k : tc) (s : str) : bool :=
  match k with
  | TText =>
    (* rule 11: no stop character; and rule 7 did not claim its beginning:
       either it does not start with a blank/eol, or the run
       blank* (eol blank* )? it starts with is followed, inside the text, by a
       Letter/Other character (the roll-back of rule 7) *)
    forallb text_c s &&
    match after_spacers s with
    | [] => false
    | c :: _ => rollback_c c || negb (starts_blank s)
    end
  | TMergedSpacer =>
    match s with [] => false | _ :: _ => match after_spacers s with [] => true | _ :: _ => false end end
  | TComment =>
    match s with c0 :: b => is_c CComment c0 && forallb noeol_c b | [] => false end
  | TEscapedComment =>
    match s with [c0; c1] => is_c CEscape c0 && esc2_c c1 | _ => false end
  | TEscape | TGroupBegin | TGroupEnd | TBracketBegin | TBracketEnd =>
    match s with
    | [c] => match lookup_sym Tables.symbols_map (catc c) with
             | Some k' => tc_beq k' k | None => false end
    | _ => false
    end
  | TMathSwitch => match s with [c] => is_c CMathSwitch c | _ => false end
  | TDisplayMathSwitch =>
    match s with [c0; c1] => is_c CMathSwitch c0 && is_c CMathSwitch c1 | _ => false end
  | TMathGroupBegin | TMathGroupEnd | TDisplayMathGroupBegin | TDisplayMathGroupEnd =>
    match s with
    | [c0; c1] => match lookup_asym Tables.asym_map (catc c0) (catc c1) with
                  | Some k' => tc_beq k' k | None => false end
    | _ => false
    end
  | TCommandName =>
    match s with c0 :: m => is_c CLetter c0 && forallb ls_c m | [] => false end
  | TPunctuationCommandName => mem_str s points
  | TLineBreak | TParenBegin | TParenEnd | TSizeCommand | TSpacer => false
  end.

Definition shape (t : token) : bool :=
  forallb clean_c (ttext t) && shape_cat (tcat t) (ttext t).

Definition nc_not (P : N -> bool) (o : option N) : bool :=
  match o with Some c => negb (P c) | None => true end.

(* maximal munch: what the characters after token t may be.  `rest` is the
   whole remaining input: for a CommandName the look-ahead of rule 9 reaches
   beyond the next token ("\left" + "\" + "langle"). *)
Definition followc (t : token) (rest : str) : bool :=
  let h := hd_error rest in
  match tcat t with
  | TText => nc_not text_c h
  | TMergedSpacer =>
    nc_not rollback_c h && nc_not (is_c CSpacer) h &&
    (has_eol (ttext t) || nc_not (is_c CEndOfLine) h)
  | TComment => nc_not noeol_c h
  | TMathSwitch => nc_not (is_c CMathSwitch) h
  | TEscape => nc_not esc2_c h && nc_not asym_c h
  | TCommandName =>
    nc_not ls_c h &&
    match find_point points (ttext t ++ rest) with None => true | Some _ => false end
  | _ => true
  end.

(* the classification of a token that starts with a letter depends on
   whether the character before it is an escape (rules 9 and 10) *)
Definition pre_tok (esc : bool) (t : token) : bool :=
  match tcat t with
  | TCommandName | TPunctuationCommandName => esc
  | TText => negb (esc && starts_letter (ttext t))
  | _ => true
  end.
Definition pre_ok (esc : bool) (nxt : list token) : bool :=
  match nxt with [] => true | n :: _ => pre_tok esc n end.

Definition ends_esc (t : token) : bool := is_c CEscape (last (ttext t) 0%N).

Definition texts (toks : list token) : str := concat (map ttext toks).

Definition follow (t : token) (nxt : list token) : bool :=
  followc t (texts nxt) && pre_ok (ends_esc t) nxt.

Fixpoint follows_ok (toks : list token) : bool :=
  match toks with
  | [] => true
  | t :: r => follow t r && follows_ok r
  end.

(* the index-0 quirk: at buffer index 0, peek(-1) is the last MATERIALISED
   character.  It changes the first token exactly when the input starts with
   a letter, then an escape, and the character at index
   min(len, 1 + max point length) - 1 is an escape too: the letter becomes a
   CommandName ("a\" -> CommandName "a", Escape "\"). *)
Definition nth_is (P : N -> bool) (o : option N) : bool :=
  match o with Some c => P c | None => false end.

Definition start_quirk (s : str) : bool :=
  match s with
  | c0 :: c1 :: _ =>
    is_c CLetter c0 && is_c CEscape c1 &&
    nth_is (is_c CEscape) (nth_error s (Nat.min (length s) (S (max_point_len points)) - 1))
  | _ => false
  end.

Definition first_ok (toks : list token) : bool :=
  pre_ok false toks && negb (start_quirk (texts toks)).

Fixpoint repos (p : Z) (toks : list token) : list token :=
  match toks with
  | [] => []
  | t :: r => mkt (ttext t) p (tcat t) :: repos (p + Z.of_nat (length (ttext t)))%Z r
  end.

Definition clean (s : str) : bool := forallb clean_c s.

(* ====================================================================== *)
(* Stage 2: helpers                                                        *)
(* ====================================================================== *)

Local Notation cf := categorize_from.

Lemma cf_app p a b : cf p (a ++ b) = cf p a ++ cf (p + Z.of_nat (length a))%Z b.
Proof. apply categorize_from_app. Qed.

Lemma cf_Forall (q : cchar -> bool) (pb : N -> bool) :
  (forall c pos, q (mkc c pos (catc c)) = pb c) ->
  forall x p, forallb pb x = true -> Forall (fun c => q c = true) (cf p x).
Proof.
  intros Hq x. induction x as [|a x IH]; intros p H; cbn [categorize_from]; constructor.
  - rewrite Hq. cbn [forallb] in H. apply andb_true_iff in H. tauto.
  - apply IH. cbn [forallb] in H. apply andb_true_iff in H. tauto.
Qed.

Lemma cf_head_stop (q : cchar -> bool) (pb : N -> bool) :
  (forall c pos, q (mkc c pos (catc c)) = pb c) ->
  forall rest p, nc_not pb (hd_error rest) = true ->
  match cf p rest with c :: _ => q c = false | [] => True end.
Proof.
  intros Hq rest p H. destruct rest as [|c r]; cbn [categorize_from]; [exact I|].
  rewrite Hq. cbn [hd_error nc_not] in H. apply negb_true_iff in H. exact H.
Qed.

Lemma tw_cf (q : cchar -> bool) (pb : N -> bool) :
  (forall c pos, q (mkc c pos (catc c)) = pb c) ->
  forall x p rest, forallb pb x = true -> nc_not pb (hd_error rest) = true ->
  take_while q (cf p (x ++ rest)) = (cf p x, cf (p + Z.of_nat (length x))%Z rest).
Proof.
  intros Hq x p rest Hx Hr. rewrite cf_app. apply take_while_split.
  - eapply cf_Forall; eassumption.
  - eapply cf_head_stop; eassumption.
Qed.

Lemma chars_of_cf p s : chars_of (cf p s) = s.
Proof. apply chars_of_categorize_from. Qed.

Lemma cf_length p s : length (cf p s) = length s.
Proof. apply categorize_from_length. Qed.

Lemma mk_tok_cf p x idx k : x <> [] -> mk_tok (cf p x) idx k = mkt x p k.
Proof.
  intro H. destruct x as [|c x]; [congruence|]. unfold mk_tok. rewrite chars_of_cf. reflexivity.
Qed.

Lemma last_cf_cat x : forall q c p, ccat (last (cf q x) (mkc c p (catc c))) = catc (last x c).
Proof.
  induction x as [|a x IH]; intros q c p; [reflexivity|].
  cbn [categorize_from]. rewrite !last_cons. apply IH.
Qed.

(* boolean facts about categories, by case analysis on the category *)
Lemma is_c_true k c : is_c k c = true <-> catc c = k.
Proof. unfold is_c. apply cc_eqb_eq. Qed.

Lemma is_c_false k c : catc c <> k -> is_c k c = false.
Proof. intro H. destruct (is_c k c) eqn:E; [|reflexivity]. apply is_c_true in E. contradiction. Qed.

Lemma text_c_cats c : text_c c = true ->
  catc c <> CEscape /\ catc c <> CComment /\ catc c <> CMathSwitch /\
  lookup_sym Tables.symbols_map (catc c) = None.
Proof.
  unfold text_c. destruct (catc c); intro H; vm_compute in H; try discriminate H;
    repeat split; try discriminate; reflexivity.
Qed.

Lemma blank_text_clean c : is_c CSpacer c || is_c CEndOfLine c = true ->
  text_c c = true /\ clean_c c = true /\ catc c <> CLetter.
Proof.
  unfold is_c, text_c, clean_c. destruct (catc c); intro H; vm_compute in H; try discriminate H;
    repeat split; discriminate.
Qed.

Lemma rollback_text c : rollback_c c = true -> text_c c = true /\ starts_blank [c] = false.
Proof.
  unfold rollback_c, text_c, starts_blank, is_c. destruct (catc c); intro H; vm_compute in H;
    try discriminate H; split; reflexivity.
Qed.

Lemma esc2_not_escape c : esc2_c c = false -> catc c <> CEscape.
Proof. unfold esc2_c. destruct (catc c); intro H; vm_compute in H; try discriminate H; discriminate. Qed.

(* ---------------------------------------------------- rule-level helpers *)

Lemma rules_1_6_none cx c0 r :
  ccat c0 <> CEscape -> ccat c0 <> CComment -> ccat c0 <> CMathSwitch ->
  mem_cc (ccat c0) Tables.ignore_cats = false ->
  run_rules Tables.rule_order cx (c0 :: r) =
  run_rules [R_spacers; R_symbols; R_punctuation_command_name; R_command_name; R_string]
            cx (c0 :: r).
Proof.
  intros H1 H2 H3 H4. unfold Tables.rule_order.
  rewrite run_rules_cons_none by (cbn [run_rule]; apply escaped_none_first; exact H1).
  rewrite run_rules_cons_none by (cbn [run_rule]; apply comment_none; exact H2).
  rewrite run_rules_cons_none by (cbn [run_rule]; apply math_sym_none; exact H3).
  rewrite run_rules_cons_none by (cbn [run_rule]; apply math_asym_none; exact H1).
  rewrite run_rules_cons_none by (cbn [run_rule]; apply line_break_none; exact H1).
  rewrite run_rules_cons_none by (cbn [run_rule]; apply ignore_none; exact H4).
  reflexivity.
Qed.

Lemma find_point_nonletter c0 s : catc c0 <> CLetter -> find_point points (c0 :: s) = None.
Proof.
  intro H. destruct (find_point points (c0 :: s)) as [q|] eqn:E; [|reflexivity].
  exfalso. apply find_point_in in E. destruct E as [Iq Fq].
  destruct (points_start_letter q Iq) as (c & q' & Eq & Hc). subst q.
  cbn [length firstn] in Fq. inversion Fq; subst. contradiction.
Qed.

Lemma punct_none_nonletter prevc c p r :
  catc c <> CLetter -> rule_punctuation points prevc (cf p (c :: r)) = RNone.
Proof.
  intro H. unfold rule_punctuation. destruct (prev_is_escape prevc); [|reflexivity].
  rewrite chars_of_cf, (find_point_nonletter c r H). reflexivity.
Qed.

Lemma cmd_none_nonletter prevc c0 r : ccat c0 <> CLetter -> rule_command_name prevc (c0 :: r) = RNone.
Proof.
  intro H. unfold rule_command_name. destruct (prev_is_escape prevc); [|reflexivity].
  rewrite (is_cat_false _ _ H). reflexivity.
Qed.

Lemma punct_none_find prevc cs :
  find_point points (chars_of cs) = None -> rule_punctuation points prevc cs = RNone.
Proof.
  intro H. unfold rule_punctuation. destruct (prev_is_escape prevc); [|reflexivity].
  rewrite H. reflexivity.
Qed.

(* rule 7 on  s1 e s2 r3 *)
Lemma spacers_spec idx s1 e s2 r3 :
  Forall (fun c => is_cat CSpacer c = true) s1 ->
  Forall (fun c => is_cat CSpacer c = true) s2 ->
  match r3 with c :: _ => is_cat CSpacer c = false | [] => True end ->
  (e = [] /\ s2 = [] /\ match r3 with c :: _ => is_cat CEndOfLine c = false | [] => True end) \/
  (exists c, e = [c] /\ is_cat CEndOfLine c = true) ->
  rule_spacers idx (s1 ++ e ++ s2 ++ r3) =
  let emit := match s1 ++ e ++ s2 with
              | [] => RNone
              | _ :: _ => RTok (mk_tok (s1 ++ e ++ s2) idx TMergedSpacer) r3
              end in
  match r3 with
  | c :: _ => if mem_cc (ccat c) Tables.spacer_rollback_cats then RNone else emit
  | [] => emit
  end.
Proof.
  intros F1 F2 H3 He. unfold rule_spacers.
  assert (Hhead : match e ++ s2 ++ r3 with c :: _ => is_cat CSpacer c = false | [] => True end).
  { destruct He as [(E1 & E2 & E3) | (c & E1 & E2)]; subst; cbn [app]; [exact H3|].
    apply is_cat_true in E2. apply is_cat_false. rewrite E2. discriminate. }
  rewrite (take_while_split (is_cat CSpacer) s1 (e ++ s2 ++ r3) F1 Hhead).
  destruct He as [(E1 & E2 & E3) | (c & E1 & E2)]; subst; cbn [app].
  - destruct r3 as [|c r3']; cbn [take_while].
    + rewrite !app_nil_r. reflexivity.
    + rewrite E3. cbn [take_while]. rewrite H3. rewrite !app_nil_r. cbn [app]. reflexivity.
  - rewrite E2. rewrite (take_while_split (is_cat CSpacer) s2 r3 F2 H3). reflexivity.
Qed.

(* string-level decomposition  s = blank* (eol blank* )? ++ after_spacers s *)
Lemma drop_blanks_decomp s : exists b,
  s = b ++ drop_blanks s /\ forallb (is_c CSpacer) b = true /\
  nc_not (is_c CSpacer) (hd_error (drop_blanks s)) = true.
Proof.
  induction s as [|c s IH]; cbn [drop_blanks].
  - exists []. repeat split.
  - destruct (is_c CSpacer c) eqn:E.
    + destruct IH as (b & H1 & H2 & H3). exists (c :: b). cbn [app forallb].
      rewrite E, H2, <- H1. repeat split. exact H3.
    + exists []. cbn [app forallb hd_error nc_not]. rewrite E. repeat split.
Qed.

Lemma drop_blanks_id s : nc_not (is_c CSpacer) (hd_error s) = true -> drop_blanks s = s.
Proof.
  destruct s as [|c s]; [reflexivity|]. cbn [hd_error nc_not drop_blanks].
  intro H. apply negb_true_iff in H. rewrite H. reflexivity.
Qed.

Lemma after_spacers_decomp s : exists b1 e b2,
  s = b1 ++ e ++ b2 ++ after_spacers s /\
  forallb (is_c CSpacer) b1 = true /\ forallb (is_c CSpacer) b2 = true /\
  nc_not (is_c CSpacer) (hd_error (after_spacers s)) = true /\
  ((e = [] /\ b2 = [] /\ nc_not (is_c CEndOfLine) (hd_error (after_spacers s)) = true) \/
   (exists c, e = [c] /\ is_c CEndOfLine c = true)).
Proof.
  unfold after_spacers. destruct (drop_blanks_decomp s) as (b1 & H1 & H2 & H3).
  destruct (drop_blanks s) as [|c s1] eqn:Ed.
  - exists b1, [], []. cbn [drop_eol drop_blanks app hd_error nc_not]. repeat split; auto.
  - cbn [drop_eol]. destruct (is_c CEndOfLine c) eqn:Ee.
    + destruct (drop_blanks_decomp s1) as (b2 & G1 & G2 & G3).
      exists b1, [c], b2. cbn [app]. rewrite <- G1. repeat split; auto. right. eauto.
    + rewrite (drop_blanks_id (c :: s1) H3).
      exists b1, [], []. cbn [app hd_error nc_not]. rewrite Ee. repeat split; auto.
Qed.

Lemma forallb_app {A} (f : A -> bool) a b : forallb f (a ++ b) = forallb f a && forallb f b.
Proof. induction a as [|x a IH]; cbn [app forallb]; [reflexivity|]. rewrite IH, andb_assoc. reflexivity. Qed.

Lemma blanks_no_eol b : forallb (is_c CSpacer) b = true -> has_eol b = false.
Proof.
  unfold has_eol. induction b as [|c b IH]; cbn [forallb existsb]; [reflexivity|].
  intro H. apply andb_true_iff in H. destruct H as [H1 H2]. rewrite (IH H2), orb_false_r.
  apply is_c_true in H1. apply is_c_false. rewrite H1. discriminate.
Qed.

Lemma is_cat_cf k c pos : is_cat k (mkc c pos (catc c)) = is_c k c.
Proof. reflexivity. Qed.

(* ====================================================================== *)
(* Stage 2: one lemma per token kind -- "the round emits exactly t"        *)
(* ====================================================================== *)

(* what the round needs to know about peek(-1): only for a letter *)
Definition ctx_ok (esc : bool) (pp pc : option cchar) (s : str) : Prop :=
  starts_letter s = true ->
  (prev_is_escape pp = esc /\ prev_is_escape pc = esc) \/
  (esc = false /\ find_point points s = None /\ prev_is_escape pc = false).

Lemma asym_none_lookup c0 c1 r :
  lookup_asym Tables.asym_map (ccat c0) (ccat c1) = None ->
  rule_math_asym_switch (c0 :: c1 :: r) = RNone.
Proof. intro H. unfold rule_math_asym_switch. rewrite H. reflexivity. Qed.

Lemma line_break_none_second c0 c1 r :
  ccat c1 <> CEscape -> rule_line_break (c0 :: c1 :: r) = RNone.
Proof.
  intro H. unfold rule_line_break. destruct (is_cat CEscape c0); [|reflexivity].
  rewrite (is_cat_false _ _ H). reflexivity.
Qed.

(* rule 8: { } [ ] and the lone escape *)
Lemma round_symbols cx c k p rest :
  lookup_sym Tables.symbols_map (catc c) = Some k ->
  (catc c = CEscape ->
   nc_not esc2_c (hd_error rest) = true /\ nc_not asym_c (hd_error rest) = true) ->
  run_rules Tables.rule_order cx (cf p (c :: rest)) = RTok (mkt [c] p k) (cf (p + 1)%Z rest).
Proof.
  intros Hk Hesc. cbn [categorize_from].
  set (c0 := mkc c p (catc c)). set (tl := cf (p + 1)%Z rest) in *.
  assert (Hfire : rule_symbols (c0 :: tl) = RTok (mkt [c] p k) tl).
  { unfold rule_symbols. cbn [ccat c0]. rewrite Hk. reflexivity. }
  destruct (cc_eq_dec (catc c) CEscape) as [E|NE].
  - specialize (Hesc E). destruct Hesc as [H2 Ha].
    assert (Hign : mem_cc (ccat c0) Tables.ignore_cats = false) by (cbn [ccat c0]; rewrite E; reflexivity).
    unfold Tables.rule_order.
    destruct rest as [|c1 rest'].
    + subst tl. cbn [categorize_from] in *.
      rewrite run_rules_cons_none
        by (cbn [run_rule]; unfold rule_escaped_symbols; destruct (is_cat CEscape c0); reflexivity).
      rewrite run_rules_cons_none by (cbn [run_rule]; apply comment_none; cbn [ccat c0]; rewrite E; discriminate).
      rewrite run_rules_cons_none by (cbn [run_rule]; apply math_sym_none; cbn [ccat c0]; rewrite E; discriminate).
      rewrite run_rules_cons_none by (cbn [run_rule]; reflexivity).
      rewrite run_rules_cons_none
        by (cbn [run_rule]; unfold rule_line_break; destruct (is_cat CEscape c0); reflexivity).
      rewrite run_rules_cons_none by (cbn [run_rule]; apply ignore_none; exact Hign).
      rewrite run_rules_cons_none
        by (cbn [run_rule]; apply spacers_none; cbn [ccat c0]; rewrite E; discriminate).
      apply run_rules_cons_tok. cbn [run_rule]. exact Hfire.
    + subst tl. cbn [categorize_from] in *. cbn [hd_error nc_not] in H2, Ha.
      apply negb_true_iff in H2. apply negb_true_iff in Ha.
      set (c1' := mkc c1 (p + 1)%Z (catc c1)) in *.
      rewrite run_rules_cons_none by (cbn [run_rule]; apply escaped_none_second; exact H2).
      rewrite run_rules_cons_none by (cbn [run_rule]; apply comment_none; cbn [ccat c0]; rewrite E; discriminate).
      rewrite run_rules_cons_none by (cbn [run_rule]; apply math_sym_none; cbn [ccat c0]; rewrite E; discriminate).
      rewrite run_rules_cons_none.
      2:{ cbn [run_rule]. apply asym_none_lookup. cbn [ccat c0 c1']. rewrite E.
          unfold asym_c in Ha. destruct (lookup_asym Tables.asym_map CEscape (catc c1)); [discriminate Ha|reflexivity]. }
      rewrite run_rules_cons_none
        by (cbn [run_rule]; apply line_break_none_second; apply esc2_not_escape; exact H2).
      rewrite run_rules_cons_none by (cbn [run_rule]; apply ignore_none; exact Hign).
      rewrite run_rules_cons_none
        by (cbn [run_rule]; apply spacers_none; cbn [ccat c0]; rewrite E; discriminate).
      apply run_rules_cons_tok. cbn [run_rule]. exact Hfire.
  - assert (Hc : catc c <> CComment /\ catc c <> CMathSwitch /\
                 mem_cc (catc c) Tables.ignore_cats = false /\
                 catc c <> CSpacer /\ catc c <> CEndOfLine).
    { destruct (catc c); try congruence; vm_compute in Hk; try discriminate Hk;
        repeat split; discriminate. }
    destruct Hc as (N2 & N3 & N4 & N5 & N6).
    rewrite rules_1_6_none; try assumption.
    rewrite run_rules_cons_none by (cbn [run_rule]; apply spacers_none; assumption).
    apply run_rules_cons_tok. cbn [run_rule]. exact Hfire.
Qed.

Lemma cf_spacer_split p b1 e b2 :
  forallb (is_c CSpacer) b1 = true -> forallb (is_c CSpacer) b2 = true ->
  (e = [] /\ b2 = []) \/ (exists c, e = [c] /\ is_c CEndOfLine c = true) ->
  exists S1 E S2, cf p (b1 ++ e ++ b2) = S1 ++ E ++ S2 /\
    Forall (fun c => is_cat CSpacer c = true) S1 /\
    Forall (fun c => is_cat CSpacer c = true) S2 /\
    ((E = [] /\ S2 = [] /\ e = [] /\ b2 = []) \/ (exists c, E = [c] /\ is_cat CEndOfLine c = true)).
Proof.
  intros F1 F2 Hd. rewrite !cf_app.
  eexists _, _, _. split; [reflexivity|]. split; [|split].
  - apply (cf_Forall (is_cat CSpacer) (is_c CSpacer)); [intros; reflexivity | exact F1].
  - apply (cf_Forall (is_cat CSpacer) (is_c CSpacer)); [intros; reflexivity | exact F2].
  - destruct Hd as [(D1 & D2) | (c' & D1 & D2)]; subst e.
    + subst b2. left. repeat split.
    + right. cbn [categorize_from]. eexists. split; [reflexivity|]. exact D2.
Qed.

(* rule 7 emits a MergedSpacer *)
Lemma round_spacer cx x rest p :
  cx_idx cx = p ->
  shape_cat TMergedSpacer x = true ->
  nc_not rollback_c (hd_error rest) = true -> nc_not (is_c CSpacer) (hd_error rest) = true ->
  has_eol x || nc_not (is_c CEndOfLine) (hd_error rest) = true ->
  run_rules Tables.rule_order cx (cf p (x ++ rest)) =
  RTok (mkt x p TMergedSpacer) (cf (p + Z.of_nat (length x))%Z rest).
Proof.
  intros Hidx Hs Hrb Hsp He. cbn [shape_cat] in Hs.
  destruct x as [|c x'] eqn:Ex; [discriminate Hs|]. rewrite <- Ex in *.
  destruct (after_spacers x) as [|? ?] eqn:Ea; [|discriminate Hs].
  assert (Hb : is_c CSpacer c || is_c CEndOfLine c = true).
  { destruct (is_c CSpacer c) eqn:E1; [reflexivity|]. destruct (is_c CEndOfLine c) eqn:E2; [reflexivity|].
    exfalso. rewrite Ex in Ea. unfold after_spacers in Ea. cbn [drop_blanks drop_eol] in Ea.
    rewrite E1 in Ea. cbn [drop_eol] in Ea. rewrite E2 in Ea. cbn [drop_blanks] in Ea.
    rewrite E1 in Ea. discriminate Ea. }
  destruct (after_spacers_decomp x) as (b1 & e & b2 & Hx & F1 & F2 & _ & Hd).
  rewrite Ea, app_nil_r in Hx.
  assert (Hne : x <> []) by (rewrite Ex; discriminate).
  assert (Hc0 : forall r, cf p (x ++ r) = mkc c p (catc c) :: cf (p + 1)%Z (x' ++ r))
    by (intro r; rewrite Ex; reflexivity).
  rewrite Hc0.
  assert (Hcat : catc c = CSpacer \/ catc c = CEndOfLine).
  { apply orb_true_iff in Hb. destruct Hb as [Hb|Hb]; apply is_c_true in Hb; auto. }
  rewrite rules_1_6_none;
    try (cbn [ccat]; destruct Hcat as [Hcat|Hcat]; rewrite Hcat; (discriminate || reflexivity)).
  rewrite <- Hc0. apply run_rules_cons_tok. cbn [run_rule]. rewrite Hidx.
  rewrite cf_app. rewrite <- (mk_tok_cf p x p TMergedSpacer Hne).
  set (tl := cf (p + Z.of_nat (length x))%Z rest).
  assert (Htl1 : match tl with c :: _ => is_cat CSpacer c = false | [] => True end).
  { apply (cf_head_stop (is_cat CSpacer) (is_c CSpacer)); [intros; reflexivity | exact Hsp]. }
  assert (Htl2 : match tl with c :: _ => mem_cc (ccat c) Tables.spacer_rollback_cats = false | [] => True end).
  { apply (cf_head_stop (fun c => mem_cc (ccat c) Tables.spacer_rollback_cats) rollback_c);
      [intros; reflexivity | exact Hrb]. }
  assert (Hsplit : exists S1 E S2, cf p x = S1 ++ E ++ S2 /\
            Forall (fun c => is_cat CSpacer c = true) S1 /\
            Forall (fun c => is_cat CSpacer c = true) S2 /\
            ((E = [] /\ S2 = [] /\ e = [] /\ b2 = []) \/ (exists c, E = [c] /\ is_cat CEndOfLine c = true))).
  { rewrite Hx. apply cf_spacer_split; try assumption.
    destruct Hd as [(D1 & D2 & _) | D]; [left; split; assumption | right; exact D]. }
  destruct Hsplit as (S1 & E & S2 & Hcf & G1 & G2 & G3).
  rewrite Hcf. rewrite <- !app_assoc.
  rewrite (spacers_spec p S1 E S2 tl G1 G2 Htl1).
  - cbv zeta. rewrite !app_assoc. rewrite <- app_assoc. rewrite <- Hcf.
    assert (Hnn : exists a l, cf p x = a :: l) by (rewrite Ex; cbn [categorize_from]; eauto).
    destruct Hnn as (a & l & Hal).
    destruct tl as [|t0 tl'].
    + rewrite Hal. rewrite <- Hal. reflexivity.
    + rewrite Htl2. rewrite Hal. rewrite <- Hal. reflexivity.
  - destruct G3 as [(A1 & A2 & A3 & A4) | G3]; [left | right; exact G3].
    repeat split; auto. subst e b2. rewrite app_nil_r in Hx. cbn [app] in Hx.
    assert (Hno : has_eol x = false) by (rewrite Hx; apply blanks_no_eol; exact F1).
    rewrite Hno in He. cbn [orb] in He.
    apply (cf_head_stop (is_cat CEndOfLine) (is_c CEndOfLine)); [intros; reflexivity | exact He].
Qed.

(* rule 7 returns None at the beginning of a Text *)
Lemma spacers_text idx p x rest :
  match after_spacers x with
  | [] => false
  | c :: _ => rollback_c c || negb (starts_blank x)
  end = true ->
  rule_spacers idx (cf p (x ++ rest)) = RNone.
Proof.
  intro H. destruct (after_spacers x) as [|c tl] eqn:Ea; [discriminate H|].
  destruct (rollback_c c) eqn:Erb.
  - destruct (after_spacers_decomp x) as (b1 & e & b2 & Hx & F1 & F2 & H3 & Hd).
    rewrite Ea in *. rewrite Hx. rewrite <- !app_assoc. rewrite !cf_app.
    rewrite (spacers_spec idx).
    + cbn [app categorize_from]. cbn [ccat]. unfold rollback_c in Erb. rewrite Erb. reflexivity.
    + apply (cf_Forall (is_cat CSpacer) (is_c CSpacer)); [intros; reflexivity | exact F1].
    + apply (cf_Forall (is_cat CSpacer) (is_c CSpacer)); [intros; reflexivity | exact F2].
    + cbn [app categorize_from]. rewrite is_cat_cf. cbn [hd_error nc_not] in H3.
      apply negb_true_iff in H3. exact H3.
    + destruct Hd as [(D1 & D2 & D3) | (c' & D1 & D2)].
      * left. subst e b2. repeat split. cbn [app categorize_from]. rewrite is_cat_cf.
        cbn [hd_error nc_not] in D3. apply negb_true_iff in D3. exact D3.
      * right. subst e. cbn [categorize_from]. eexists. split; [reflexivity|]. exact D2.
  - cbn [orb] in H. destruct x as [|c' x']; [discriminate Ea|].
    cbn [starts_blank] in H. apply negb_true_iff, orb_false_iff in H. destruct H as [H1 H2].
    cbn [app categorize_from]. apply spacers_none; cbn [ccat]; intro E; apply is_c_true in E; congruence.
Qed.

(* rule 11 emits a Text *)
Lemma round_text cx x rest p esc :
  shape_cat TText x = true -> forallb clean_c x = true ->
  nc_not text_c (hd_error rest) = true ->
  negb (esc && starts_letter x) = true ->
  cx_points cx = points ->
  ctx_ok esc (cx_prevc_punct cx) (cx_prevc_cmd cx) (x ++ rest) ->
  run_rules Tables.rule_order cx (cf p (x ++ rest)) =
  RTok (mkt x p TText) (cf (p + Z.of_nat (length x))%Z rest).
Proof.
  intros Hs Hcl Hr Hpre Hpts Hctx. cbn [shape_cat] in Hs. apply andb_true_iff in Hs.
  destruct Hs as [Ht Hsp].
  destruct x as [|c x'] eqn:Ex.
  { cbn in Hsp. discriminate Hsp. }
  rewrite <- Ex in *.
  assert (Hne : x <> []) by (rewrite Ex; discriminate).
  assert (Hc0 : cf p (x ++ rest) = mkc c p (catc c) :: cf (p + 1)%Z (x' ++ rest))
    by (rewrite Ex; reflexivity).
  assert (Htc : text_c c = true).
  { rewrite Ex in Ht. cbn [forallb] in Ht. apply andb_true_iff in Ht. tauto. }
  assert (Hcc : clean_c c = true).
  { rewrite Ex in Hcl. cbn [forallb] in Hcl. apply andb_true_iff in Hcl. tauto. }
  destruct (text_c_cats c Htc) as (N1 & N2 & N3 & N8).
  rewrite Hc0.
  rewrite rules_1_6_none; try (cbn [ccat]; assumption).
  2:{ cbn [ccat]. unfold clean_c in Hcc. apply negb_true_iff in Hcc. exact Hcc. }
  rewrite <- Hc0.
  rewrite run_rules_cons_none by (cbn [run_rule]; apply spacers_text; exact Hsp).
  rewrite Hc0.
  rewrite run_rules_cons_none by (cbn [run_rule]; apply symbols_none; cbn [ccat]; exact N8).
  rewrite <- Hc0.
  assert (H910 : rule_punctuation (cx_points cx) (cx_prevc_punct cx) (cf p (x ++ rest)) = RNone /\
                 rule_command_name (cx_prevc_cmd cx) (cf p (x ++ rest)) = RNone).
  { rewrite Hpts. destruct (is_c CLetter c) eqn:El.
    - assert (Hsl : starts_letter (x ++ rest) = true) by (rewrite Ex; cbn [app starts_letter]; exact El).
      assert (Hesc : esc = false).
      { destruct esc; [|reflexivity]. rewrite Ex in Hpre. cbn [starts_letter andb] in Hpre.
        rewrite El in Hpre. discriminate Hpre. }
      subst esc. destruct (Hctx Hsl) as [[A B] | (_ & A & B)].
      + unfold rule_punctuation, rule_command_name. rewrite A, B. split; reflexivity.
      + split.
        * apply punct_none_find. rewrite chars_of_cf. exact A.
        * unfold rule_command_name. rewrite B. reflexivity.
    - assert (NL : catc c <> CLetter) by (intro E; apply is_c_true in E; congruence).
      split.
      + rewrite Ex. cbn [app]. apply punct_none_nonletter. exact NL.
      + rewrite Hc0. apply cmd_none_nonletter. cbn [ccat]. exact NL. }
  destruct H910 as [H9 H10].
  rewrite run_rules_cons_none by (cbn [run_rule]; exact H9).
  rewrite run_rules_cons_none by (cbn [run_rule]; exact H10).
  apply run_rules_cons_tok. cbn [run_rule]. unfold rule_string.
  rewrite (tw_cf (fun c => negb (mem_cc (ccat c) Tables.string_stop_cats)) text_c);
    [ | intros; reflexivity | exact Ht | exact Hr ].
  rewrite mk_tok_cf by exact Hne. reflexivity.
Qed.

(* rule 2 emits a Comment *)
Lemma round_comment cx c b rest p :
  is_c CComment c = true -> forallb noeol_c b = true ->
  nc_not noeol_c (hd_error rest) = true ->
  run_rules Tables.rule_order cx (cf p ((c :: b) ++ rest)) =
  RTok (mkt (c :: b) p TComment) (cf (p + Z.of_nat (length (c :: b)))%Z rest).
Proof.
  intros Hc Hb Hr. cbn [app categorize_from].
  rewrite comment_round by (cbn [ccat]; apply is_c_true; exact Hc).
  rewrite (tw_cf (fun c => negb (is_cat CEndOfLine c)) noeol_c);
    [ | intros; reflexivity | exact Hb | exact Hr ].
  rewrite chars_of_cf. cbn [ch cpos].
  replace (p + 1 + Z.of_nat (length b))%Z with (p + Z.of_nat (length (c :: b)))%Z
    by (cbn [length]; lia).
  reflexivity.
Qed.

(* rule 10 emits a CommandName *)
Lemma round_cmd cx c m rest p :
  is_c CLetter c = true -> forallb ls_c m = true -> nc_not ls_c (hd_error rest) = true ->
  find_point points ((c :: m) ++ rest) = None ->
  cx_points cx = points -> prev_is_escape (cx_prevc_cmd cx) = true ->
  run_rules Tables.rule_order cx (cf p ((c :: m) ++ rest)) =
  RTok (mkt (c :: m) p TCommandName) (cf (p + Z.of_nat (length (c :: m)))%Z rest).
Proof.
  intros Hc Hm Hr Hfp Hpts Hec.
  assert (Hchars : chars_of (cf p ((c :: m) ++ rest)) = (c :: m) ++ rest) by apply chars_of_cf.
  cbn [app categorize_from] in *.
  rewrite letter_rules_none by (cbn [ccat]; apply is_c_true; exact Hc).
  rewrite run_rules_cons_none
    by (cbn [run_rule]; rewrite Hpts; apply punct_none_find; rewrite Hchars; exact Hfp).
  apply run_rules_cons_tok. cbn [run_rule]. unfold rule_command_name. rewrite Hec.
  rewrite is_cat_cf, Hc.
  rewrite (tw_cf (fun c => is_cat CLetter c || N.eqb (ch c) star) ls_c);
    [ | intros; reflexivity | exact Hm | exact Hr ].
  rewrite chars_of_cf. cbn [ch cpos].
  replace (p + 1 + Z.of_nat (length m))%Z with (p + Z.of_nat (length (c :: m)))%Z
    by (cbn [length]; lia).
  reflexivity.
Qed.

Lemma mem_str_In s l : mem_str s l = true -> In s l.
Proof.
  unfold mem_str. intro H. apply existsb_exists in H. destruct H as (x & Hx & E).
  apply str_eqb_eq in E. subst. exact Hx.
Qed.

Lemma In_mem_str s l : In s l -> mem_str s l = true.
Proof.
  intro H. unfold mem_str. apply existsb_exists. exists s. split; [exact H | apply str_eqb_refl].
Qed.

Lemma firstn_app_exact {A} (a b : list A) : firstn (length a) (a ++ b) = a.
Proof. rewrite firstn_app, Nat.sub_diag, firstn_all. cbn [firstn]. apply app_nil_r. Qed.

Lemma skipn_app_exact {A} (a b : list A) : skipn (length a) (a ++ b) = b.
Proof. rewrite skipn_app, Nat.sub_diag, skipn_all. reflexivity. Qed.

(* rule 9 emits a PunctuationCommandName *)
Lemma round_punct cx x rest p :
  mem_str x points = true -> cx_points cx = points ->
  prev_is_escape (cx_prevc_punct cx) = true ->
  run_rules Tables.rule_order cx (cf p (x ++ rest)) =
  RTok (mkt x p TPunctuationCommandName) (cf (p + Z.of_nat (length x))%Z rest).
Proof.
  intros Hx Hpts Hep. apply mem_str_In in Hx.
  destruct (points_start_letter x Hx) as (c & x' & Ex & Hc).
  assert (Hc0 : cf p (x ++ rest) = mkc c p (catc c) :: cf (p + 1)%Z (x' ++ rest))
    by (rewrite Ex; reflexivity).
  destruct (punctuation_command_one_token cx (mkc c p (catc c)) (cf (p + 1)%Z (x' ++ rest)) x)
    as (H1 & _ & _).
  - rewrite Hpts. apply Permutation_refl.
  - exact Hep.
  - reflexivity.
  - exact Hx.
  - rewrite <- Hc0, chars_of_cf. apply firstn_app_exact.
  - rewrite <- Hc0 in H1. rewrite H1. cbn [cpos]. f_equal.
    rewrite cf_app. rewrite <- (cf_length p x) at 1. apply skipn_app_exact.
Qed.

Lemma shape_nonempty t : shape t = true -> ttext t <> [].
Proof.
  unfold shape. intro H. apply andb_true_iff in H. destruct H as [_ H].
  destruct (ttext t) as [|c x]; [|discriminate].
  destruct (tcat t); cbn in H; discriminate H.
Qed.

(* the round on  ttext t ++ rest  emits exactly t *)
Theorem round_emit esc t rest p prev pp pc :
  shape t = true -> followc t rest = true -> pre_tok esc t = true ->
  ctx_ok esc pp pc (ttext t ++ rest) ->
  run_rules Tables.rule_order (mkctx p prev pp pc points) (cf p (ttext t ++ rest)) =
  RTok (mkt (ttext t) p (tcat t)) (cf (p + Z.of_nat (length (ttext t)))%Z rest).
Proof.
  intros Hs Hf Hpre Hctx. set (cx := mkctx p prev pp pc points).
  unfold shape in Hs. apply andb_true_iff in Hs. destruct Hs as [Hcl Hs].
  destruct t as [x q k]. cbn [ttext tcat] in *. unfold followc in Hf. cbn [ttext tcat] in Hf.
  unfold pre_tok in Hpre. cbn [ttext tcat] in Hpre.
  destruct k; try (cbn in Hs; discriminate Hs).
  - (* TEscape *)
    cbn [shape_cat] in Hs. destruct x as [|c [|? ?]]; try discriminate Hs.
    destruct (lookup_sym Tables.symbols_map (catc c)) as [k'|] eqn:Ek; [|discriminate Hs].
    apply tc_eqb_eq in Hs. subst k'. apply andb_true_iff in Hf.
    cbn [app length]. apply round_symbols; [exact Ek | intros _; exact Hf].
  - (* TGroupBegin *)
    cbn [shape_cat] in Hs. destruct x as [|c [|? ?]]; try discriminate Hs.
    destruct (lookup_sym Tables.symbols_map (catc c)) as [k'|] eqn:Ek; [|discriminate Hs].
    apply tc_eqb_eq in Hs. subst k'.
    cbn [app length]. apply round_symbols; [exact Ek|].
    intro E. rewrite E in Ek. vm_compute in Ek. discriminate Ek.
  - (* TGroupEnd *)
    cbn [shape_cat] in Hs. destruct x as [|c [|? ?]]; try discriminate Hs.
    destruct (lookup_sym Tables.symbols_map (catc c)) as [k'|] eqn:Ek; [|discriminate Hs].
    apply tc_eqb_eq in Hs. subst k'.
    cbn [app length]. apply round_symbols; [exact Ek|].
    intro E. rewrite E in Ek. vm_compute in Ek. discriminate Ek.
  - (* TComment *)
    cbn [shape_cat] in Hs. destruct x as [|c b]; [discriminate Hs|].
    apply andb_true_iff in Hs. destruct Hs as [Hc Hb].
    apply round_comment; assumption.
  - (* TMergedSpacer *)
    apply andb_true_iff in Hf. destruct Hf as [Hf He]. apply andb_true_iff in Hf.
    destruct Hf as [Hrb Hsp]. apply round_spacer; try assumption. reflexivity.
  - (* TEscapedComment *)
    cbn [shape_cat] in Hs. destruct x as [|c0 [|c1 [|? ?]]]; try discriminate Hs.
    apply andb_true_iff in Hs. destruct Hs as [H0 H1].
    rewrite cf_app. cbn [categorize_from app].
    rewrite escaped_round; [reflexivity | cbn [ccat]; apply is_c_true; exact H0 | exact H1].
  - (* TMathSwitch *)
    cbn [shape_cat] in Hs. destruct x as [|c [|? ?]]; try discriminate Hs.
    rewrite cf_app. cbn [categorize_from app].
    rewrite single_switch_token; [reflexivity | cbn [ccat]; apply is_c_true; exact Hs|].
    unfold not_switch_next.
    pose proof (cf_head_stop (is_cat CMathSwitch) (is_c CMathSwitch)
                  ltac:(intros; reflexivity) rest (p + Z.of_nat (length [c]))%Z Hf) as G.
    destruct (cf (p + Z.of_nat (length [c]))%Z rest) as [|c1 r]; [exact I|].
    intro E. apply is_cat_true in E. congruence.
  - (* TDisplayMathSwitch *)
    cbn [shape_cat] in Hs. destruct x as [|c0 [|c1 [|? ?]]]; try discriminate Hs.
    apply andb_true_iff in Hs. destruct Hs as [H0 H1].
    rewrite cf_app. cbn [categorize_from app].
    rewrite display_switch_token; [reflexivity | |]; cbn [ccat]; apply is_c_true; assumption.
  - (* TMathGroupBegin *)
    cbn [shape_cat] in Hs. destruct x as [|c0 [|c1 [|? ?]]]; try discriminate Hs.
    destruct (lookup_asym Tables.asym_map (catc c0) (catc c1)) as [k'|] eqn:Ek; [|discriminate Hs].
    apply tc_eqb_eq in Hs. subst k'.
    assert (E0 : catc c0 = CEscape).
    { destruct (cc_eq_dec (catc c0) CEscape) as [E|NE]; [exact E|].
      rewrite (asym_key_escape _ _ NE) in Ek. discriminate Ek. }
    rewrite cf_app. cbn [categorize_from app].
    rewrite (asym_round _ _ _ _ TMathGroupBegin); [reflexivity | exact E0 |].
    cbn [ccat]. rewrite <- E0. exact Ek.
  - (* TMathGroupEnd *)
    cbn [shape_cat] in Hs. destruct x as [|c0 [|c1 [|? ?]]]; try discriminate Hs.
    destruct (lookup_asym Tables.asym_map (catc c0) (catc c1)) as [k'|] eqn:Ek; [|discriminate Hs].
    apply tc_eqb_eq in Hs. subst k'.
    assert (E0 : catc c0 = CEscape).
    { destruct (cc_eq_dec (catc c0) CEscape) as [E|NE]; [exact E|].
      rewrite (asym_key_escape _ _ NE) in Ek. discriminate Ek. }
    rewrite cf_app. cbn [categorize_from app].
    rewrite (asym_round _ _ _ _ TMathGroupEnd); [reflexivity | exact E0 |].
    cbn [ccat]. rewrite <- E0. exact Ek.
  - (* TDisplayMathGroupBegin *)
    cbn [shape_cat] in Hs. destruct x as [|c0 [|c1 [|? ?]]]; try discriminate Hs.
    destruct (lookup_asym Tables.asym_map (catc c0) (catc c1)) as [k'|] eqn:Ek; [|discriminate Hs].
    apply tc_eqb_eq in Hs. subst k'.
    assert (E0 : catc c0 = CEscape).
    { destruct (cc_eq_dec (catc c0) CEscape) as [E|NE]; [exact E|].
      rewrite (asym_key_escape _ _ NE) in Ek. discriminate Ek. }
    rewrite cf_app. cbn [categorize_from app].
    rewrite (asym_round _ _ _ _ TDisplayMathGroupBegin); [reflexivity | exact E0 |].
    cbn [ccat]. rewrite <- E0. exact Ek.
  - (* TDisplayMathGroupEnd *)
    cbn [shape_cat] in Hs. destruct x as [|c0 [|c1 [|? ?]]]; try discriminate Hs.
    destruct (lookup_asym Tables.asym_map (catc c0) (catc c1)) as [k'|] eqn:Ek; [|discriminate Hs].
    apply tc_eqb_eq in Hs. subst k'.
    assert (E0 : catc c0 = CEscape).
    { destruct (cc_eq_dec (catc c0) CEscape) as [E|NE]; [exact E|].
      rewrite (asym_key_escape _ _ NE) in Ek. discriminate Ek. }
    rewrite cf_app. cbn [categorize_from app].
    rewrite (asym_round _ _ _ _ TDisplayMathGroupEnd); [reflexivity | exact E0 |].
    cbn [ccat]. rewrite <- E0. exact Ek.
  - (* TCommandName *)
    cbn [shape_cat] in Hs. destruct x as [|c m]; [discriminate Hs|].
    apply andb_true_iff in Hs. destruct Hs as [Hc Hm].
    apply andb_true_iff in Hf. destruct Hf as [Hr Hfp].
    subst esc.
    assert (Hsl : starts_letter ((c :: m) ++ rest) = true) by (cbn [app starts_letter]; exact Hc).
    destruct (Hctx Hsl) as [[A B] | (F & _)]; [|discriminate F].
    apply round_cmd; try assumption; try reflexivity.
    destruct (find_point points ((c :: m) ++ rest)); [discriminate Hfp | reflexivity].
  - (* TText *)
    apply (round_text cx x rest p esc); try assumption. reflexivity.
  - (* TBracketBegin *)
    cbn [shape_cat] in Hs. destruct x as [|c [|? ?]]; try discriminate Hs.
    destruct (lookup_sym Tables.symbols_map (catc c)) as [k'|] eqn:Ek; [|discriminate Hs].
    apply tc_eqb_eq in Hs. subst k'.
    cbn [app length]. apply round_symbols; [exact Ek|].
    intro E. rewrite E in Ek. vm_compute in Ek. discriminate Ek.
  - (* TBracketEnd *)
    cbn [shape_cat] in Hs. destruct x as [|c [|? ?]]; try discriminate Hs.
    destruct (lookup_sym Tables.symbols_map (catc c)) as [k'|] eqn:Ek; [|discriminate Hs].
    apply tc_eqb_eq in Hs. subst k'.
    cbn [app length]. apply round_symbols; [exact Ek|].
    intro E. rewrite E in Ek. vm_compute in Ek. discriminate Ek.
  - (* TPunctuationCommandName *)
    cbn [shape_cat] in Hs. subst esc.
    assert (Hsl : starts_letter (x ++ rest) = true).
    { destruct (points_start_letter x (mem_str_In _ _ Hs)) as (c & x' & Ex & Hc). subst x.
      cbn [app starts_letter]. apply is_c_true. exact Hc. }
    destruct (Hctx Hsl) as [[A B] | (F & _)]; [|discriminate F].
    apply round_punct; try assumption; reflexivity.
Qed.

(* ====================================================================== *)
(* Stage 2: the loop and the theorem                                       *)
(* ====================================================================== *)

Lemma texts_cons t r : texts (t :: r) = ttext t ++ texts r.
Proof. reflexivity. Qed.

Lemma texts_app a b : texts (a ++ b) = texts a ++ texts b.
Proof. unfold texts. rewrite map_app, concat_app. reflexivity. Qed.

Lemma loop_step f pts idx pp pc prev rest t rest' :
  rest <> [] ->
  run_rules Tables.rule_order (mkctx idx prev pp pc pts) rest = RTok t rest' ->
  tokenize_loop (S f) pts idx pp pc prev rest =
  let lc := last_consumed rest rest' in
  let (ts, e) := tokenize_loop f pts (idx + Z.of_nat (length rest - length rest'))%Z
                               lc lc (Some t) rest' in
  (t :: ts, e).
Proof.
  intros Hne H. destruct rest as [|c0 r]; [congruence|]. apply loop_step_tok. exact H.
Qed.

(* the state after a round that consumed x *)
Lemma consumed_cf p x rest :
  length (cf p (x ++ rest)) - length (cf (p + Z.of_nat (length x))%Z rest) = length x.
Proof. rewrite !cf_length, app_length. lia. Qed.

Lemma last_consumed_cf p x rest :
  x <> [] ->
  prev_is_escape (last_consumed (cf p (x ++ rest)) (cf (p + Z.of_nat (length x))%Z rest)) =
  is_c CEscape (last x 0%N).
Proof.
  intro H. destruct x as [|c x']; [congruence|].
  rewrite cf_app. cbn [categorize_from app].
  rewrite last_consumed_body. unfold prev_is_escape, is_cat.
  rewrite last_cf_cat. rewrite last_cons. reflexivity.
Qed.

Lemma ctx_ok_same esc pp pc s :
  prev_is_escape pp = esc -> prev_is_escape pc = esc -> ctx_ok esc pp pc s.
Proof. intros A B _. left. split; assumption. Qed.

Theorem loop_tokinv toks : forall fuel idx pp pc prev esc,
  Forall (fun t => shape t = true) toks -> follows_ok toks = true -> pre_ok esc toks = true ->
  ctx_ok esc pp pc (texts toks) -> (length (texts toks) < fuel)%nat ->
  tokenize_loop fuel points idx pp pc prev (cf idx (texts toks)) = (repos idx toks, TEnd).
Proof.
  induction toks as [|t r IH]; intros fuel idx pp pc prev esc Hsh Hfo Hpre Hctx Hfuel.
  - destruct fuel as [|f]; [cbn in Hfuel; lia|]. reflexivity.
  - destruct fuel as [|f]; [lia|].
    inversion Hsh as [|? ? Hst Hsr]; subst.
    cbn [follows_ok] in Hfo. apply andb_true_iff in Hfo. destruct Hfo as [Hft Hfr].
    unfold follow in Hft. apply andb_true_iff in Hft. destruct Hft as [Hfc Hnext].
    cbn [pre_ok] in Hpre.
    pose proof (shape_nonempty t Hst) as Hne.
    rewrite texts_cons in *.
    assert (Hne' : cf idx (ttext t ++ texts r) <> []).
    { destruct (ttext t); [congruence | discriminate]. }
    rewrite (loop_step f points idx pp pc prev _ _ _ Hne'
               (round_emit esc t (texts r) idx prev pp pc Hst Hfc Hpre Hctx)).
    cbv zeta. rewrite consumed_cf.
    rewrite (IH f (idx + Z.of_nat (length (ttext t)))%Z _ _ (Some (mkt (ttext t) idx (tcat t)))
                (ends_esc t) Hsr Hfr Hnext).
    + reflexivity.
    + apply ctx_ok_same; apply last_consumed_cf; exact Hne.
    + rewrite app_length in Hfuel. destruct (ttext t); [congruence|]. cbn [length] in Hfuel. lia.
Qed.

(* ---------------------------------------------------------------- start *)

Definition second_not_escape_b (q : str) : bool :=
  match q with _ :: c1 :: _ => negb (is_c CEscape c1) | _ => false end.

Lemma points_second_not_escape_b : forallb second_not_escape_b points = true.
Proof. vm_compute. reflexivity. Qed.

(* no sizing command matches an input whose second character is an escape *)
Lemma find_point_second_escape c0 c1 s :
  is_c CEscape c1 = true -> find_point points (c0 :: c1 :: s) = None.
Proof.
  intro H. destruct (find_point points (c0 :: c1 :: s)) as [q|] eqn:E; [|reflexivity].
  exfalso. apply find_point_in in E. destruct E as [Iq Fq].
  pose proof points_second_not_escape_b as B. rewrite forallb_forall in B. specialize (B q Iq).
  destruct q as [|a [|b q']]; try discriminate B. cbn [second_not_escape_b] in B.
  cbn [length firstn] in Fq. inversion Fq; subst. rewrite H in B. discriminate B.
Qed.

Lemma nth_error_cf s : forall p i,
  nth_error (cf p s) i =
  match nth_error s i with Some c => Some (mkc c (p + Z.of_nat i)%Z (catc c)) | None => None end.
Proof.
  induction s as [|a s IH]; intros p i; destruct i as [|i]; cbn [categorize_from nth_error]; try reflexivity.
  - rewrite Z.add_0_r. reflexivity.
  - rewrite IH. destruct (nth_error s i); [|reflexivity]. do 2 f_equal. lia.
Qed.

Lemma start_ctx_ok s :
  start_quirk s = false ->
  ctx_ok false (start_prev_punct (categorize s)) (start_prev_cmd points (categorize s)) s.
Proof.
  intros Hq Hsl. unfold categorize.
  destruct s as [|c0 [|c1 s']].
  - discriminate Hsl.
  - left. cbn [starts_letter] in Hsl. apply is_c_true in Hsl.
    unfold start_prev_cmd. cbn [categorize_from start_prev_punct].
    assert (E : prev_is_escape (Some (mkc c0 0%Z (catc c0))) = false).
    { unfold prev_is_escape. apply is_cat_false. cbn [ccat]. rewrite Hsl. discriminate. }
    rewrite E. split; first [reflexivity | exact E].
  - cbn [starts_letter] in Hsl. unfold start_prev_cmd.
    cbn [categorize_from start_prev_punct].
    change (prev_is_escape (Some (mkc c1 (0 + 1)%Z (catc c1)))) with (is_c CEscape c1).
    destruct (is_c CEscape c1) eqn:E1.
    + right. split; [reflexivity|]. split; [apply find_point_second_escape; exact E1|].
      unfold start_quirk in Hq. rewrite Hsl, E1 in Hq. cbn [andb] in Hq.
      change (mkc c0 0%Z (catc c0) :: mkc c1 (0 + 1)%Z (catc c1) :: cf (0 + 1 + 1)%Z s')
        with (cf 0%Z (c0 :: c1 :: s')).
      rewrite cf_length, nth_error_cf.
      destruct (nth_error (c0 :: c1 :: s')
                  (Nat.min (length (c0 :: c1 :: s')) (S (max_point_len points)) - 1)) as [c|];
        [|reflexivity].
      cbn [nth_is] in Hq. unfold prev_is_escape. rewrite is_cat_cf. exact Hq.
    + left. change (prev_is_escape (Some (mkc c1 (0 + 1)%Z (catc c1)))) with (is_c CEscape c1).
      rewrite E1. split; reflexivity.
Qed.

(* TOKINV *)
Theorem tokinv toks :
  Forall (fun t => shape t = true) toks -> follows_ok toks = true -> first_ok toks = true ->
  tokens_of_string (texts toks) = (repos 0 toks, TEnd).
Proof.
  intros Hsh Hfo Hfirst. unfold first_ok in Hfirst. apply andb_true_iff in Hfirst.
  destruct Hfirst as [Hpre Hq]. apply negb_true_iff in Hq.
  unfold tokens_of_string, tokenize, tokenize_with.
  unfold categorize at 4.
  apply (loop_tokinv toks _ 0%Z _ _ None false Hsh Hfo Hpre).
  - apply start_ctx_ok. exact Hq.
  - unfold categorize. rewrite cf_length. lia.
Qed.

Fixpoint offsets_ok (p : Z) (toks : list token) : Prop :=
  match toks with
  | [] => True
  | t :: r => tpos t = p /\ offsets_ok (p + Z.of_nat (length (ttext t)))%Z r
  end.

Lemma repos_id toks : forall p, offsets_ok p toks -> repos p toks = toks.
Proof.
  induction toks as [|t r IH]; intros p H; [reflexivity|].
  cbn [offsets_ok] in H. destruct H as [H1 H2]. cbn [repos]. rewrite (IH _ H2).
  destruct t as [x q k]. cbn [ttext tpos tcat] in *. subst q. reflexivity.
Qed.

Corollary tokinv_exact toks :
  Forall (fun t => shape t = true) toks -> follows_ok toks = true -> first_ok toks = true ->
  offsets_ok 0 toks ->
  tokens_of_string (texts toks) = (toks, TEnd).
Proof. intros A B C D. rewrite (tokinv toks A B C), (repos_id toks 0%Z D). reflexivity. Qed.

(* the quirk is real: when start_quirk holds the first token is a CommandName
   (which no shaped sequence can start with) *)
Lemma star_not_escape c : is_c CEscape c = true -> N.eqb c star = false.
Proof.
  intro H. destruct (N.eqb c star) eqn:E; [|reflexivity]. apply N.eqb_eq in E. subst c.
  vm_compute in H. discriminate H.
Qed.

Theorem start_quirk_first_token s :
  start_quirk s = true ->
  exists c0 r e, hd_error s = Some c0 /\
    tokens_of_string s = (mkt [c0] 0%Z TCommandName :: r, e).
Proof.
  intro Hq. destruct s as [|c0 [|c1 s']]; try discriminate Hq.
  unfold start_quirk in Hq. apply andb_true_iff in Hq. destruct Hq as [Hq H3].
  apply andb_true_iff in Hq. destruct Hq as [H0 H1].
  unfold tokens_of_string, tokenize, tokenize_with.
  set (cs := categorize (c0 :: c1 :: s')).
  assert (Hcs : cs = mkc c0 0%Z (catc c0) :: cf (0 + 1)%Z (c1 :: s')) by reflexivity.
  assert (Hpc : prev_is_escape (start_prev_cmd points cs) = true).
  { unfold start_prev_cmd. rewrite Hcs at 1. cbn [categorize_from start_prev_punct].
    change (prev_is_escape (Some (mkc c1 (0 + 1)%Z (catc c1)))) with (is_c CEscape c1).
    rewrite H1. unfold cs, categorize. rewrite cf_length, nth_error_cf.
    destruct (nth_error (c0 :: c1 :: s')
                (Nat.min (length (c0 :: c1 :: s')) (S (max_point_len points)) - 1)) as [c|];
      [|discriminate H3].
    cbn [nth_is] in H3. unfold prev_is_escape. rewrite is_cat_cf. exact H3. }
  assert (Hround : run_rules Tables.rule_order
             (mkctx 0%Z None (start_prev_punct cs) (start_prev_cmd points cs) points) cs =
             RTok (mkt [c0] 0%Z TCommandName) (cf (0 + 1)%Z (c1 :: s'))).
  { rewrite Hcs at 3. rewrite letter_rules_none by (cbn [ccat]; apply is_c_true; exact H0).
    rewrite run_rules_cons_none.
    2:{ cbn [run_rule cx_points cx_prevc_punct]. apply punct_none_find.
        rewrite <- Hcs. unfold cs, categorize. rewrite chars_of_cf.
        apply find_point_second_escape. exact H1. }
    apply run_rules_cons_tok. cbn [run_rule cx_prevc_cmd]. unfold rule_command_name.
    rewrite Hpc. rewrite is_cat_cf, H0. cbn [categorize_from take_while].
    rewrite is_cat_cf. cbn [ch].
    assert (E : is_c CLetter c1 = false).
    { apply is_c_true in H1. apply is_c_false. rewrite H1. discriminate. }
    rewrite E, (star_not_escape c1 H1). reflexivity. }
  assert (Hne : cs <> []) by (rewrite Hcs; discriminate).
  pose proof (loop_step (length cs) points 0%Z _ _ None cs _ _ Hne Hround) as L.
  cbv zeta in L.
  destruct (tokenize_loop (length cs) points _ _ _ _ _) as [ts e] in L.
  exists c0, ts, e. split; [reflexivity | exact L].
Qed.

(* ====================================================================== *)
(* Stage 3: every clean string has a shaped tokenisation, hence the        *)
(* tokenizer's output is shaped                                            *)
(* ====================================================================== *)

Lemma span_exists (pb : N -> bool) s : exists a b,
  s = a ++ b /\ forallb pb a = true /\ nc_not pb (hd_error b) = true.
Proof.
  induction s as [|c s IH].
  - exists [], []. repeat split.
  - destruct (pb c) eqn:E.
    + destruct IH as (a & b & H1 & H2 & H3). exists (c :: a), b. cbn [app forallb].
      rewrite E, H2, <- H1. repeat split. exact H3.
    + exists [], (c :: s). cbn [app forallb hd_error nc_not]. rewrite E. repeat split.
Qed.

Lemma drop_blanks_all b y :
  forallb (is_c CSpacer) b = true -> drop_blanks (b ++ y) = drop_blanks y.
Proof.
  induction b as [|c b IH]; intro H; [reflexivity|]. cbn [forallb] in H.
  apply andb_true_iff in H. destruct H as [H1 H2]. cbn [app drop_blanks]. rewrite H1. apply IH, H2.
Qed.

Lemma after_spacers_of_decomp b1 e b2 y :
  forallb (is_c CSpacer) b1 = true -> forallb (is_c CSpacer) b2 = true ->
  nc_not (is_c CSpacer) (hd_error y) = true ->
  (e = [] /\ b2 = [] /\ nc_not (is_c CEndOfLine) (hd_error y) = true) \/
  (exists c, e = [c] /\ is_c CEndOfLine c = true) ->
  after_spacers (b1 ++ e ++ b2 ++ y) = y.
Proof.
  intros F1 F2 Hy Hd. unfold after_spacers. rewrite (drop_blanks_all b1 _ F1).
  destruct Hd as [(D1 & D2 & D3) | (c & D1 & D2)]; subst.
  - cbn [app]. rewrite (drop_blanks_id y Hy).
    destruct y as [|c y']; [reflexivity|]. cbn [drop_eol]. cbn [hd_error nc_not] in D3.
    apply negb_true_iff in D3. rewrite D3. apply drop_blanks_id. exact Hy.
  - assert (Hc : is_c CSpacer c = false).
    { apply is_c_true in D2. apply is_c_false. rewrite D2. discriminate. }
    cbn [app drop_blanks]. rewrite Hc. cbn [drop_eol]. rewrite D2.
    rewrite (drop_blanks_all b2 _ F2). apply drop_blanks_id. exact Hy.
Qed.

Lemma after_spacers_nonblank x : starts_blank x = false -> after_spacers x = x.
Proof.
  destruct x as [|c x]; [reflexivity|]. cbn [starts_blank]. intro H.
  apply orb_false_iff in H. destruct H as [H1 H2].
  unfold after_spacers. cbn [drop_blanks]. rewrite H1. cbn [drop_eol]. rewrite H2.
  cbn [drop_blanks]. rewrite H1. reflexivity.
Qed.

Lemma forallb_blank_text b : forallb (is_c CSpacer) b = true -> forallb text_c b = true.
Proof.
  induction b as [|c b IH]; cbn [forallb]; [reflexivity|]. intro H.
  apply andb_true_iff in H. destruct H as [H1 H2]. rewrite (IH H2), andb_true_r.
  apply blank_text_clean. rewrite H1. reflexivity.
Qed.

Lemma has_eol_app a b : has_eol (a ++ b) = has_eol a || has_eol b.
Proof. unfold has_eol. apply existsb_app. Qed.

(* a Text token, given its first character and that rule 7 does not claim it *)
Lemma text_token_exists esc c s' :
  clean (c :: s') = true -> text_c c = true -> starts_blank [c] = false ->
  negb (esc && is_c CLetter c) = true ->
  exists x k rest, c :: s' = x ++ rest /\ shape (mkt x 0%Z k) = true /\
    followc (mkt x 0%Z k) rest = true /\ pre_tok esc (mkt x 0%Z k) = true.
Proof.
  intros Hcl Ht Hb Hpre.
  destruct (span_exists text_c s') as (body & rest & Hs & Hbody & Hrest).
  exists (c :: body), TText, rest. split; [cbn [app]; rewrite Hs; reflexivity|].
  assert (Hclx : forallb clean_c (c :: body) = true).
  { unfold clean in Hcl. rewrite Hs in Hcl. change (c :: body ++ rest) with ((c :: body) ++ rest) in Hcl.
    rewrite forallb_app in Hcl. apply andb_true_iff in Hcl. tauto. }
  split; [|split].
  - unfold shape. cbn [ttext tcat]. rewrite Hclx. cbn [andb shape_cat forallb].
    rewrite Ht, Hbody. cbn [andb].
    rewrite after_spacers_nonblank by exact Hb.
    change (starts_blank (c :: body)) with (starts_blank [c]). rewrite Hb. apply orb_true_r.
  - unfold followc. cbn [tcat]. exact Hrest.
  - unfold pre_tok. cbn [tcat ttext starts_letter]. exact Hpre.
Qed.

Lemma firstn_clean n s : clean s = true -> forallb clean_c (firstn n s) = true.
Proof.
  revert n. induction s as [|c s IH]; intros n H; destruct n; try reflexivity.
  cbn [firstn forallb]. unfold clean in H. cbn [forallb] in H. apply andb_true_iff in H.
  destruct H as [H1 H2]. rewrite H1. apply IH. exact H2.
Qed.

Theorem next_token_exists esc s :
  s <> [] -> clean s = true ->
  exists x k rest, s = x ++ rest /\ shape (mkt x 0%Z k) = true /\
    followc (mkt x 0%Z k) rest = true /\ pre_tok esc (mkt x 0%Z k) = true.
Proof.
  intros Hne Hcl. destruct s as [|c s']; [congruence|]. clear Hne.
  assert (Hcc : clean_c c = true /\ clean s' = true).
  { unfold clean in Hcl. cbn [forallb] in Hcl. apply andb_true_iff in Hcl. exact Hcl. }
  destruct Hcc as [Hcc Hcs'].
  destruct (is_c CEscape c) eqn:Eesc.
  { (* escape *)
    apply is_c_true in Eesc.
    assert (Hsym : lookup_sym Tables.symbols_map (catc c) = Some TEscape) by (rewrite Eesc; reflexivity).
    destruct s' as [|c1 s''].
    - exists [c], TEscape, []. split; [reflexivity|]. split; [|split; reflexivity].
      unfold shape. cbn [ttext tcat forallb shape_cat]. rewrite Hcc, Hsym. reflexivity.
    - assert (Hc1 : clean_c c1 = true).
      { unfold clean in Hcs'. cbn [forallb] in Hcs'. apply andb_true_iff in Hcs'. tauto. }
      destruct (esc2_c c1) eqn:E2.
      + exists [c; c1], TEscapedComment, s''. split; [reflexivity|]. split; [|split; reflexivity].
        unfold shape. cbn [ttext tcat forallb shape_cat]. rewrite Hcc, Hc1, E2.
        rewrite (proj2 (is_c_true _ _) Eesc). reflexivity.
      + destruct (lookup_asym Tables.asym_map CEscape (catc c1)) as [k|] eqn:Ea.
        * exists [c; c1], k, s''. split; [reflexivity|].
          assert (Hk : shape_cat k [c; c1] = true /\ followc (mkt [c; c1] 0%Z k) s'' = true /\
                       pre_tok esc (mkt [c; c1] 0%Z k) = true).
          { destruct (catc c1) eqn:E1; vm_compute in Ea; try discriminate Ea;
              inversion Ea; subst k; cbn [shape_cat]; rewrite Eesc, E1;
              repeat split; reflexivity. }
          destruct Hk as (K1 & K2 & K3). split; [|split; assumption].
          unfold shape. cbn [ttext tcat forallb]. rewrite Hcc, Hc1, K1. reflexivity.
        * exists [c], TEscape, (c1 :: s''). split; [reflexivity|]. split; [|split; [|reflexivity]].
          -- unfold shape. cbn [ttext tcat forallb shape_cat]. rewrite Hcc, Hsym. reflexivity.
          -- unfold followc. cbn [tcat hd_error nc_not]. rewrite E2. unfold asym_c. rewrite Ea.
             reflexivity. }
  destruct (is_c CComment c) eqn:Ecom.
  { destruct (span_exists noeol_c s') as (b & rest & Hs & Hb & Hrest).
    exists (c :: b), TComment, rest. split; [cbn [app]; rewrite Hs; reflexivity|].
    split; [|split; [|reflexivity]].
    - unfold shape. cbn [ttext tcat shape_cat]. rewrite Ecom, Hb.
      rewrite Hs in Hcl. change (c :: b ++ rest) with ((c :: b) ++ rest) in Hcl.
      unfold clean in Hcl. rewrite forallb_app in Hcl. apply andb_true_iff in Hcl.
      destruct Hcl as [Hcl _]. rewrite Hcl. reflexivity.
    - unfold followc. cbn [tcat]. exact Hrest. }
  destruct (is_c CMathSwitch c) eqn:Ems.
  { destruct s' as [|c1 s''].
    - exists [c], TMathSwitch, []. split; [reflexivity|]. split; [|split; reflexivity].
      unfold shape. cbn [ttext tcat forallb shape_cat]. rewrite Hcc, Ems. reflexivity.
    - assert (Hc1 : clean_c c1 = true).
      { unfold clean in Hcs'. cbn [forallb] in Hcs'. apply andb_true_iff in Hcs'. tauto. }
      destruct (is_c CMathSwitch c1) eqn:E1.
      + exists [c; c1], TDisplayMathSwitch, s''. split; [reflexivity|]. split; [|split; reflexivity].
        unfold shape. cbn [ttext tcat forallb shape_cat]. rewrite Hcc, Hc1, Ems, E1. reflexivity.
      + exists [c], TMathSwitch, (c1 :: s''). split; [reflexivity|]. split; [|split; [|reflexivity]].
        * unfold shape. cbn [ttext tcat forallb shape_cat]. rewrite Hcc, Ems. reflexivity.
        * unfold followc. cbn [tcat hd_error nc_not]. rewrite E1. reflexivity. }
  destruct (lookup_sym Tables.symbols_map (catc c)) as [k|] eqn:Esym.
  { exists [c], k, s'. split; [reflexivity|].
    assert (Hk : shape_cat k [c] = true /\ followc (mkt [c] 0%Z k) s' = true /\
                 pre_tok esc (mkt [c] 0%Z k) = true).
    { unfold is_c in Eesc.
      destruct (catc c) eqn:Ec; vm_compute in Esym; try discriminate Esym;
        try (vm_compute in Eesc; discriminate Eesc);
        inversion Esym; subst k; cbn [shape_cat]; rewrite Ec; repeat split; reflexivity. }
    destruct Hk as (K1 & K2 & K3). split; [|split; assumption].
    unfold shape. cbn [ttext tcat forallb]. rewrite Hcc, K1. reflexivity. }
  destruct (starts_blank [c]) eqn:Eb.
  { (* blank or end of line: MergedSpacer, or a Text after the roll-back *)
    destruct (after_spacers_decomp (c :: s')) as (b1 & e & b2 & Hx & F1 & F2 & H3 & Hd).
    set (r3 := after_spacers (c :: s')) in *.
    assert (Hblank : is_c CSpacer c || is_c CEndOfLine c = true) by exact Eb.
    assert (Hde : forallb text_c e = true /\ (e = [] \/ has_eol e = true)).
    { destruct Hd as [(D1 & _) | (c' & D1 & D2)]; subst e; [split; [reflexivity | left; reflexivity]|].
      split; [|right; unfold has_eol; cbn [existsb]; rewrite D2; reflexivity].
      cbn [forallb]. rewrite andb_true_r. apply blank_text_clean. rewrite D2. apply orb_true_r. }
    destruct Hde as [Hte Hee].
    destruct (match r3 with c' :: _ => rollback_c c' | [] => false end) eqn:Erb.
    - destruct r3 as [|c' tl] eqn:Er3; [discriminate Erb|].
      destruct (span_exists text_c tl) as (body & rest & Htl & Hbody & Hrest).
      exists (b1 ++ e ++ b2 ++ c' :: body), TText, rest.
      assert (Hsplit : c :: s' = (b1 ++ e ++ b2 ++ c' :: body) ++ rest).
      { rewrite Hx at 1. rewrite Htl. rewrite <- !app_assoc. reflexivity. }
      split; [exact Hsplit|].
      assert (Hxc : exists y, b1 ++ e ++ b2 ++ c' :: body = c :: y).
      { destruct (b1 ++ e ++ b2 ++ c' :: body) as [|a y] eqn:E.
        - exfalso. destruct b1; [|discriminate E]. destruct e; [|discriminate E].
          destruct b2; discriminate E.
        - cbn [app] in Hsplit. inversion Hsplit; subst. eauto. }
      destruct Hxc as (y & Hy).
      split; [|split].
      + unfold shape. cbn [ttext tcat shape_cat].
        rewrite Hsplit in Hcl. unfold clean in Hcl. rewrite forallb_app in Hcl.
        apply andb_true_iff in Hcl. destruct Hcl as [Hcl _]. rewrite Hcl. cbn [andb].
        rewrite !forallb_app. cbn [forallb].
        rewrite (forallb_blank_text b1 F1), (forallb_blank_text b2 F2), Hte, Hbody.
        rewrite (proj1 (rollback_text c' Erb)). cbn [andb].
        rewrite (after_spacers_of_decomp b1 e b2 (c' :: body) F1 F2).
        * rewrite Erb. reflexivity.
        * exact H3.
        * exact Hd.
      + unfold followc. cbn [tcat]. exact Hrest.
      + unfold pre_tok. cbn [tcat ttext]. rewrite Hy. cbn [starts_letter].
        rewrite (is_c_false CLetter c); [rewrite andb_false_r; reflexivity|].
        apply blank_text_clean. exact Hblank.
    - exists (b1 ++ e ++ b2), TMergedSpacer, r3.
      split; [rewrite <- !app_assoc; exact Hx|].
      assert (Hxne : b1 ++ e ++ b2 <> []).
      { intro E. destruct b1; [|discriminate E]. destruct e as [|? ?] eqn:Ee; [|discriminate E].
        destruct b2; [|discriminate E]. cbn [app] in Hx.
        rewrite <- Hx in H3. cbn [hd_error nc_not] in H3. apply negb_true_iff in H3.
        destruct Hd as [(_ & _ & D3) | (c' & D1 & _)]; [|discriminate D1].
        rewrite <- Hx in D3. cbn [hd_error nc_not] in D3. apply negb_true_iff in D3.
        rewrite H3, D3 in Hblank. discriminate Hblank. }
      split; [|split; [|reflexivity]].
      + unfold shape. cbn [ttext tcat shape_cat].
        assert (Hclx : forallb clean_c (b1 ++ e ++ b2) = true).
        { rewrite Hx in Hcl. unfold clean in Hcl. rewrite !app_assoc in Hcl.
          rewrite forallb_app in Hcl. apply andb_true_iff in Hcl. destruct Hcl as [Hcl _].
          rewrite <- app_assoc in Hcl. exact Hcl. }
        rewrite Hclx. cbn [andb].
        destruct (b1 ++ e ++ b2) as [|a y] eqn:E; [congruence|]. rewrite <- E.
        replace (b1 ++ e ++ b2) with (b1 ++ e ++ b2 ++ []) by (rewrite app_nil_r; reflexivity).
        rewrite (after_spacers_of_decomp b1 e b2 [] F1 F2); [reflexivity | reflexivity |].
        destruct Hd as [(D1 & D2 & _) | D]; [left; repeat split; assumption | right; exact D].
      + unfold followc. cbn [tcat ttext].
        assert (R1 : nc_not rollback_c (hd_error r3) = true).
        { destruct r3 as [|c' tl]; [reflexivity|]. cbn [hd_error nc_not]. rewrite Erb. reflexivity. }
        rewrite R1, H3. cbn [andb].
        destruct Hd as [(_ & _ & D3) | (c' & D1 & D2)].
        * rewrite D3. apply orb_true_r.
        * subst e. rewrite !has_eol_app. unfold has_eol at 2. cbn [existsb]. rewrite D2.
          cbn [orb]. rewrite orb_true_r. reflexivity. }
  (* not a blank *)
  assert (Htc : text_c c = true).
  { unfold text_c, clean_c, is_c, starts_blank, is_c in *.
    destruct (catc c); try reflexivity; vm_compute in Esym; try discriminate Esym;
      vm_compute in Ecom; try discriminate Ecom; vm_compute in Ems; discriminate Ems. }
  destruct (esc && is_c CLetter c) eqn:Ecmd.
  2:{ apply text_token_exists; try assumption. rewrite Ecmd. reflexivity. }
  apply andb_true_iff in Ecmd. destruct Ecmd as [Hesc Hl]. subst esc.
  destruct (find_point points (c :: s')) as [q|] eqn:Efp.
  - apply find_point_in in Efp. destruct Efp as [Iq Fq].
    exists q, TPunctuationCommandName, (skipn (length q) (c :: s')).
    split; [rewrite <- Fq at 1; symmetry; apply firstn_skipn|].
    split; [|split; reflexivity].
    unfold shape. cbn [ttext tcat shape_cat]. rewrite (In_mem_str _ _ Iq), andb_true_r.
    rewrite <- Fq. apply firstn_clean. exact Hcl.
  - destruct (span_exists ls_c s') as (m & rest & Hs & Hm & Hrest).
    exists (c :: m), TCommandName, rest. split; [cbn [app]; rewrite Hs; reflexivity|].
    split; [|split; [|reflexivity]].
    + unfold shape. cbn [ttext tcat shape_cat]. rewrite Hl, Hm.
      rewrite Hs in Hcl. change (c :: m ++ rest) with ((c :: m) ++ rest) in Hcl.
      unfold clean in Hcl. rewrite forallb_app in Hcl. apply andb_true_iff in Hcl.
      destruct Hcl as [Hcl _]. rewrite Hcl. reflexivity.
    + unfold followc. cbn [tcat ttext]. rewrite Hrest. cbn [andb app]. rewrite <- Hs, Efp. reflexivity.
Qed.

Definition shaped (toks : list token) : Prop := Forall (fun t => shape t = true) toks.

(* every clean string is the concatenation of a shaped sequence *)
Lemma chain_exists n : forall s esc, (length s <= n)%nat -> clean s = true ->
  exists toks, texts toks = s /\ shaped toks /\ follows_ok toks = true /\ pre_ok esc toks = true.
Proof.
  induction n as [|n IH]; intros s esc Hlen Hcl.
  - destruct s; [|cbn in Hlen; lia]. exists []. repeat split. constructor.
  - destruct s as [|c s'] eqn:Es.
    { exists []. repeat split. constructor. }
    rewrite <- Es in *.
    destruct (next_token_exists esc s ltac:(rewrite Es; discriminate) Hcl)
      as (x & k & rest & Hs & Hsh & Hfc & Hpre).
    pose proof (shape_nonempty _ Hsh) as Hne. cbn [ttext] in Hne.
    assert (Hclr : clean rest = true).
    { rewrite Hs in Hcl. unfold clean in *. rewrite forallb_app in Hcl.
      apply andb_true_iff in Hcl. tauto. }
    destruct (IH rest (ends_esc (mkt x 0%Z k))) as (r & R1 & R2 & R3 & R4).
    + rewrite Hs, app_length in Hlen. destruct x; [congruence|]. cbn [length] in Hlen. lia.
    + exact Hclr.
    + exists (mkt x 0%Z k :: r). split; [rewrite texts_cons, R1; cbn [ttext]; symmetry; exact Hs|].
      split; [constructor; assumption|]. split; [|exact Hpre].
      cbn [follows_ok]. unfold follow. rewrite R1, Hfc, R4, R3. reflexivity.
Qed.

Lemma repos_texts toks : forall p, texts (repos p toks) = texts toks.
Proof.
  induction toks as [|t r IH]; intro p; [reflexivity|].
  cbn [repos]. rewrite !texts_cons, IH. reflexivity.
Qed.

Lemma shape_pos x p q k : shape (mkt x p k) = shape (mkt x q k).
Proof. reflexivity. Qed.

Lemma repos_shaped toks : forall p, shaped toks -> shaped (repos p toks).
Proof.
  induction toks as [|t r IH]; intros p H; [constructor|].
  inversion H; subst. cbn [repos]. constructor; [|apply IH; assumption].
  destruct t as [x q k]. exact H2.
Qed.

Lemma repos_pre_ok esc toks p : pre_ok esc (repos p toks) = pre_ok esc toks.
Proof. destruct toks as [|t r]; reflexivity. Qed.

Lemma repos_follows_ok toks : forall p, follows_ok (repos p toks) = follows_ok toks.
Proof.
  induction toks as [|t r IH]; intro p; [reflexivity|].
  cbn [repos follows_ok]. rewrite IH. f_equal.
  unfold follow. rewrite repos_texts, repos_pre_ok. reflexivity.
Qed.

Lemma repos_offsets toks : forall p, offsets_ok p (repos p toks).
Proof. induction toks as [|t r IH]; intro p; cbn [repos offsets_ok]; auto. Qed.

Lemma clean_ign s : clean s = true -> Forall (fun c => ign c = false) (categorize s).
Proof.
  unfold categorize. generalize 0%Z. induction s as [|c s IH]; intros p H; cbn [categorize_from]; constructor.
  - unfold clean in H. cbn [forallb] in H. apply andb_true_iff in H. destruct H as [H _].
    unfold clean_c in H. apply negb_true_iff in H. exact H.
  - apply IH. unfold clean in *. cbn [forallb] in H. apply andb_true_iff in H. tauto.
Qed.

(* TOKINV, converse: the output of the tokenizer on a NUL/DEL-free string
   that does not trigger the index-0 quirk is shaped, satisfies the follow
   conditions, and carries consecutive offsets *)
Theorem tokens_shaped s :
  clean s = true -> start_quirk s = false ->
  exists toks, tokens_of_string s = (toks, TEnd) /\ texts toks = s /\
    shaped toks /\ follows_ok toks = true /\ first_ok toks = true /\ offsets_ok 0 toks.
Proof.
  intros Hcl Hq.
  destruct (chain_exists (length s) s false (le_n _) Hcl) as (toks & T1 & T2 & T3 & T4).
  assert (Hfirst : first_ok toks = true).
  { unfold first_ok. rewrite T4, T1, Hq. reflexivity. }
  exists (repos 0 toks). split; [rewrite <- T1; apply tokinv; assumption|].
  split; [rewrite repos_texts; exact T1|]. split; [apply repos_shaped; exact T2|].
  split; [rewrite repos_follows_ok; exact T3|]. split; [|apply repos_offsets].
  unfold first_ok. rewrite repos_pre_ok, repos_texts. exact Hfirst.
Qed.

(* without the quirk hypothesis the statement is false *)
Theorem tokens_shaped_refuted :
  exists s, clean s = true /\ forallb shape (fst (tokens_of_string s)) = true /\
            first_ok (fst (tokens_of_string s)) = false.
Proof. exists [97; 92]%N. vm_compute. repeat split. Qed.

(* re-tokenising the concatenated token texts gives the same tokens; this
   needs neither shape nor the quirk hypothesis *)
Theorem retokenize_id s :
  clean s = true ->
  tokens_of_string (texts (fst (tokens_of_string s))) = tokens_of_string s.
Proof.
  intro Hcl. destruct (tokens_of_string s) as [toks e] eqn:E. cbn [fst].
  unfold texts. rewrite (tokens_concat_exact s toks e E (clean_ign s Hcl)). exact E.
Qed.

(* ====================================================================== *)
(* Stage 3: deleting an argument spacer from the text deletes exactly      *)
(* that token                                                              *)
(* ====================================================================== *)

Definition open_tok (o : token) : Prop := tcat o = TGroupBegin \/ tcat o = TBracketBegin.

(* what the token before the deleted spacer must satisfy: a Comment would
   swallow the opening character, and a sizing prefix ("\left {") would fuse
   with it into a PunctuationCommandName *)
Definition last_tok_ok (l : token) (rest : str) : bool :=
  match tcat l with
  | TComment => false
  | TCommandName =>
    match find_point points (ttext l ++ rest) with None => true | Some _ => false end
  | _ => true
  end.

Fixpoint last_ok (a : list token) (rest : str) : bool :=
  match a with
  | [] => true
  | [l] => last_tok_ok l rest
  | _ :: a' => last_ok a' rest
  end.

Fixpoint drop_ls (s : str) : str :=
  match s with c :: s' => if ls_c c then drop_ls s' else s | [] => [] end.

(* table fact: after its letters every sizing command has a delimiter, and an
   opening brace/bracket occurs in it only as its first character or directly
   after an escape that is its first character *)
Definition open_c (c : N) : bool := is_c CGroupBegin c || is_c CBracketBegin c.
Definition delim_ok_b (q : str) : bool :=
  match drop_ls q with
  | [] => false
  | d0 :: tl => forallb (fun d => negb (open_c d)) tl ||
                (is_c CEscape d0 && match tl with [_] => true | _ => false end)
  end.

Lemma points_delim_ok_b : forallb delim_ok_b points = true.
Proof. vm_compute. reflexivity. Qed.

Lemma open_tok_char o : shape o = true -> open_tok o ->
  exists d, ttext o = [d] /\ open_c d = true.
Proof.
  unfold shape. intros H Ho. apply andb_true_iff in H. destruct H as [_ H].
  assert (G : match ttext o with
              | [c] => match lookup_sym Tables.symbols_map (catc c) with
                       | Some k' => tc_beq k' (tcat o) | None => false end
              | _ => false end = true).
  { destruct Ho as [Ho|Ho]; rewrite Ho in H |- *; exact H. }
  destruct (ttext o) as [|d [|? ?]]; try discriminate G. exists d. split; [reflexivity|].
  destruct (lookup_sym Tables.symbols_map (catc d)) as [k'|] eqn:E; [|discriminate G].
  apply tc_eqb_eq in G. subst k'. unfold open_c, is_c.
  destruct Ho as [Ho|Ho]; rewrite Ho in E; destruct (catc d); vm_compute in E; try discriminate E;
    reflexivity.
Qed.

Lemma open_char_facts d : open_c d = true ->
  text_c d = false /\ rollback_c d = false /\ is_c CSpacer d = false /\
  is_c CEndOfLine d = false /\ is_c CMathSwitch d = false /\ ls_c d = false.
Proof.
  unfold open_c, text_c, rollback_c, ls_c, is_c. intro H.
  assert (Hs : N.eqb d star = true -> False).
  { intro E. apply N.eqb_eq in E. subst d. vm_compute in H. discriminate H. }
  destruct (N.eqb d star); [exfalso; apply Hs; reflexivity|].
  destruct (catc d); vm_compute in H; try discriminate H; repeat split; reflexivity.
Qed.

Lemma spacer_starts_blank sp : shape sp = true -> tcat sp = TMergedSpacer ->
  exists c x, ttext sp = c :: x /\ esc2_c c = true.
Proof.
  unfold shape. intros H Hk. apply andb_true_iff in H. destruct H as [_ H]. rewrite Hk in H.
  cbn [shape_cat] in H. destruct (ttext sp) as [|c x] eqn:Ex; [discriminate H|].
  exists c, x. split; [reflexivity|].
  destruct (after_spacers (c :: x)) eqn:Ea; [|discriminate H].
  unfold after_spacers in Ea. cbn [drop_blanks] in Ea.
  unfold esc2_c. unfold is_c in Ea.
  destruct (catc c) eqn:Ec; try reflexivity; exfalso;
    cbn [cc_beq] in Ea; cbn [drop_eol] in Ea; unfold is_c in Ea; rewrite Ec in Ea;
    cbn [cc_beq drop_blanks] in Ea; unfold is_c in Ea; rewrite Ec in Ea; cbn [cc_beq] in Ea;
    discriminate Ea.
Qed.

Lemma follow_last_drop l sp o b :
  shape sp = true -> shape o = true -> tcat sp = TMergedSpacer -> open_tok o ->
  follow l (sp :: o :: b) = true -> last_tok_ok l (texts (o :: b)) = true ->
  follow l (o :: b) = true.
Proof.
  intros Hsp Hso Hk Ho Hf Hl.
  destruct (open_tok_char o Hso Ho) as (d & Ed & Hd).
  destruct (open_char_facts d Hd) as (D1 & D2 & D3 & D4 & D5 & D6).
  destruct (spacer_starts_blank sp Hsp Hk) as (c & x & Ec & Hc).
  unfold follow in *. apply andb_true_iff in Hf. destruct Hf as [Hfc _].
  apply andb_true_iff. split.
  2:{ cbn [pre_ok]. unfold pre_tok. destruct Ho as [Ho|Ho]; rewrite Ho; reflexivity. }
  rewrite texts_cons, Ed in *. rewrite texts_cons, Ec in Hfc. cbn [app] in *.
  unfold followc in *. unfold last_tok_ok in Hl. cbn [hd_error nc_not] in *.
  destruct (tcat l); try reflexivity.
  - (* TEscape: cannot stand before a spacer *)
    rewrite Hc in Hfc. discriminate Hfc.
  - discriminate Hl.
  - rewrite D2, D3, D4. cbn [negb andb]. apply orb_true_r.
  - rewrite D5. reflexivity.
  - rewrite D6. cbn [negb andb]. exact Hl.
  - rewrite D1. reflexivity.
Qed.

(* a sizing command that matches after the deletion but not before it must
   reach across the deleted spacer *)
Lemma prefix_beyond (X : str) : forall D T1 T2,
  firstn (length D) (X ++ T1) = D -> firstn (length D) (X ++ T2) <> D ->
  exists D2, D = X ++ D2 /\ D2 <> [] /\ firstn (length D2) T1 = D2.
Proof.
  induction X as [|x X IH]; intros D T1 T2 H1 H2.
  - cbn [app] in *. exists D. split; [reflexivity|]. split; [|exact H1].
    intro E. subst D. apply H2. reflexivity.
  - destruct D as [|d D]; [exfalso; apply H2; reflexivity|].
    cbn [app length firstn] in H1, H2. injection H1 as E1 E2. subst d.
    destruct (IH D T1 T2 E2) as (D2 & A & B & C).
    + intro E. apply H2. rewrite E. reflexivity.
    + exists D2. split; [cbn [app]; f_equal; exact A|]. split; assumption.
Qed.

Lemma ls_prefix_split cmd : forall q W,
  forallb ls_c cmd = true -> nc_not ls_c (hd_error W) = true ->
  firstn (length q) (cmd ++ W) = q -> drop_ls q <> [] ->
  q = cmd ++ drop_ls q /\ firstn (length (drop_ls q)) W = drop_ls q.
Proof.
  induction cmd as [|c cmd IH]; intros q W Hc HW Hq Hd.
  - cbn [app] in *. destruct q as [|w q']; [cbn in Hd; congruence|].
    destruct W as [|w0 W']; [discriminate Hq|]. cbn [length firstn] in Hq.
    injection Hq as E1 E2. subst w0. cbn [hd_error nc_not] in HW. apply negb_true_iff in HW.
    cbn [drop_ls]. rewrite HW. split; [reflexivity|]. cbn [length firstn]. rewrite E2. reflexivity.
  - destruct q as [|a q']; [cbn in Hd; congruence|].
    cbn [app length firstn] in Hq. injection Hq as E1 E2. subst a.
    cbn [forallb] in Hc. apply andb_true_iff in Hc. destruct Hc as [Hc1 Hc2].
    cbn [drop_ls] in *. rewrite Hc1 in *.
    destruct (IH q' W Hc2 HW E2 Hd) as [A B]. split; [cbn [app]; f_equal; exact A | exact B].
Qed.

Lemma shape_single_escape k e :
  is_c CEscape e = true -> shape_cat k [e] = true -> k = TEscape.
Proof.
  intros He H. apply is_c_true in He.
  assert (F1 : is_c CSpacer e = false) by (unfold is_c; rewrite He; reflexivity).
  assert (F2 : is_c CEndOfLine e = false) by (unfold is_c; rewrite He; reflexivity).
  assert (F3 : text_c e = false) by (unfold text_c; rewrite He; reflexivity).
  assert (F4 : is_c CComment e = false) by (unfold is_c; rewrite He; reflexivity).
  assert (F5 : is_c CMathSwitch e = false) by (unfold is_c; rewrite He; reflexivity).
  assert (F6 : is_c CLetter e = false) by (unfold is_c; rewrite He; reflexivity).
  assert (F7 : after_spacers [e] = [e]).
  { unfold after_spacers. cbn [drop_blanks]. rewrite F1. cbn [drop_eol]. rewrite F2.
    cbn [drop_blanks]. rewrite F1. reflexivity. }
  destruct (tc_eq_dec k TPunctuationCommandName) as [Ep|Np].
  { (* every sizing command has at least two characters *)
    exfalso. subst k. cbn [shape_cat] in H.
    apply mem_str_In in H. pose proof points_second_not_escape_b as B.
    rewrite forallb_forall in B. specialize (B _ H). discriminate B. }
  destruct k; try reflexivity; try congruence; exfalso; cbn [shape_cat forallb] in H;
    first [ discriminate H
          | rewrite He in H; vm_compute in H; discriminate H
          | rewrite F7 in H; discriminate H
          | rewrite F3 in H; discriminate H
          | rewrite F4 in H; discriminate H
          | rewrite F5 in H; discriminate H
          | rewrite F6 in H; discriminate H ].
Qed.

Lemma texts_nil_shaped a : shaped a -> texts a = [] -> a = [].
Proof.
  intros Hs H. destruct a as [|u a']; [reflexivity|]. exfalso.
  inversion Hs; subst. apply (shape_nonempty u); [assumption|].
  rewrite texts_cons in H. apply app_eq_nil in H. tauto.
Qed.

Lemma shaped_app a b : shaped (a ++ b) <-> shaped a /\ shaped b.
Proof. unfold shaped. apply Forall_app. Qed.

Lemma texts_hd_cons t r : ttext t <> [] -> hd_error (texts (t :: r)) = hd_error (ttext t).
Proof. intro H. rewrite texts_cons. destruct (ttext t); [congruence | reflexivity]. Qed.

(* a CommandName further to the left is not affected *)
Lemma cmd_find_stable t t' a' sp o b :
  shaped (t :: t' :: a' ++ sp :: o :: b) ->
  follows_ok (t :: t' :: a' ++ sp :: o :: b) = true ->
  tcat t = TCommandName -> tcat sp = TMergedSpacer -> open_tok o ->
  find_point points (ttext t ++ texts (t' :: a' ++ o :: b)) = None.
Proof.
  intros Hsh Hfo Hk Hsk Ho.
  inversion Hsh as [|? ? Hst Hsh1]; subst. inversion Hsh1 as [|? ? Hst' Hsh2]; subst.
  apply shaped_app in Hsh2. destruct Hsh2 as [Hsa Hsh3].
  inversion Hsh3 as [|? ? Hssp Hsh4]; subst. inversion Hsh4 as [|? ? Hso Hsb]; subst.
  destruct (open_tok_char o Hso Ho) as (d & Ed & Hd).
  destruct (spacer_starts_blank sp Hssp Hsk) as (cb & xb & Eb & Hcb).
  pose proof (shape_nonempty t' Hst') as Hne'.
  cbn [follows_ok] in Hfo. apply andb_true_iff in Hfo. destruct Hfo as [Hft Hfo1].
  unfold follow in Hft. apply andb_true_iff in Hft. destruct Hft as [Hfc _].
  unfold followc in Hfc. rewrite Hk in Hfc. apply andb_true_iff in Hfc. destruct Hfc as [Hls Hnone].
  destruct (find_point points (ttext t ++ texts (t' :: a' ++ sp :: o :: b))) eqn:Ew; [discriminate Hnone|].
  clear Hnone.
  destruct (find_point points (ttext t ++ texts (t' :: a' ++ o :: b))) as [q|] eqn:Ew'; [|reflexivity].
  exfalso. apply find_point_in in Ew'. destruct Ew' as [Iq Fq].
  pose proof (find_point_none _ _ Ew q Iq) as Nq.
  (* the command name is all letters/stars *)
  assert (Hcmd : forallb ls_c (ttext t) = true).
  { unfold shape in Hst. apply andb_true_iff in Hst. destruct Hst as [_ Hst]. rewrite Hk in Hst.
    cbn [shape_cat] in Hst. destruct (ttext t) as [|c m]; [discriminate Hst|].
    apply andb_true_iff in Hst. destruct Hst as [H1 H2]. cbn [forallb]. unfold ls_c at 1.
    rewrite H1, H2. reflexivity. }
  pose proof points_delim_ok_b as B. rewrite forallb_forall in B. specialize (B q Iq).
  unfold delim_ok_b in B.
  assert (Hdq : drop_ls q <> []) by (destruct (drop_ls q); [discriminate B | discriminate]).
  assert (Hhd : hd_error (texts (t' :: a' ++ o :: b)) = hd_error (texts (t' :: a' ++ sp :: o :: b))).
  { rewrite !texts_hd_cons by exact Hne'. reflexivity. }
  rewrite <- Hhd in Hls.
  destruct (ls_prefix_split (ttext t) q _ Hcmd Hls Fq Hdq) as [Eq FD].
  set (D := drop_ls q) in *.
  set (X := texts (t' :: a')).
  assert (EW' : texts (t' :: a' ++ o :: b) = X ++ texts (o :: b)).
  { change (t' :: a' ++ o :: b) with ((t' :: a') ++ o :: b). apply texts_app. }
  assert (EW : texts (t' :: a' ++ sp :: o :: b) = X ++ ttext sp ++ texts (o :: b)).
  { change (t' :: a' ++ sp :: o :: b) with ((t' :: a') ++ sp :: o :: b).
    rewrite texts_app, texts_cons. reflexivity. }
  rewrite EW' in FD. rewrite EW in Nq.
  assert (ND : firstn (length D) (X ++ ttext sp ++ texts (o :: b)) <> D).
  { intro E. apply Nq. rewrite Eq at 1. rewrite app_length, firstn_app_2, E. symmetry. exact Eq. }
  destruct (prefix_beyond X D _ _ FD ND) as (D2 & ED & ND2 & FD2).
  rewrite texts_cons, Ed in FD2. destruct D2 as [|d' D2']; [congruence|].
  cbn [app length firstn] in FD2. injection FD2 as E1 E2. subst d'.
  (* X is not empty *)
  assert (HX : exists x0 X', X = x0 :: X').
  { unfold X. rewrite texts_cons. destruct (ttext t') as [|x0 y]; [congruence|]. cbn [app]. eauto. }
  destruct HX as (x0 & X' & EX). rewrite EX in ED. cbn [app] in ED. rewrite ED in B.
  assert (Hopen : forallb (fun d0 => negb (open_c d0)) (X' ++ d :: D2') = false).
  { rewrite forallb_app. cbn [forallb]. rewrite Hd. cbn [negb andb]. apply andb_false_r. }
  rewrite Hopen in B. cbn [orb] in B. apply andb_true_iff in B. destruct B as [B0 B1].
  destruct X' as [|? ?]; [|destruct X'; discriminate B1].
  (* so X = [escape]: a lone Escape token before the spacer -- impossible *)
  unfold X in EX. rewrite texts_cons in EX.
  destruct (ttext t') as [|y0 y] eqn:Et'; [congruence|].
  cbn [app] in EX. injection EX as E0 E1'. subst y0.
  apply app_eq_nil in E1'. destruct E1' as [Ey Ea']. subst y.
  apply texts_nil_shaped in Ea'; [|exact Hsa]. subst a'.
  assert (Hk' : tcat t' = TEscape).
  { unfold shape in Hst'. apply andb_true_iff in Hst'. destruct Hst' as [_ Hst'].
    rewrite Et' in Hst'. apply (shape_single_escape _ x0 B0 Hst'). }
  cbn [app follows_ok] in Hfo1. apply andb_true_iff in Hfo1. destruct Hfo1 as [Hft' _].
  unfold follow in Hft'. apply andb_true_iff in Hft'. destruct Hft' as [Hfc' _].
  unfold followc in Hfc'. rewrite Hk', texts_cons, Eb in Hfc'. cbn [app hd_error nc_not] in Hfc'.
  rewrite Hcb in Hfc'. discriminate Hfc'.
Qed.

(* deleting one argument spacer keeps shape and follow *)
Lemma drop_spacer_chain sp o b : forall a,
  shaped (a ++ sp :: o :: b) -> follows_ok (a ++ sp :: o :: b) = true ->
  tcat sp = TMergedSpacer -> open_tok o -> last_ok a (texts (o :: b)) = true ->
  shaped (a ++ o :: b) /\ follows_ok (a ++ o :: b) = true.
Proof.
  induction a as [|t a IH]; intros Hsh Hfo Hk Ho Hl.
  - cbn [app] in *. inversion Hsh; subst. split; [assumption|].
    cbn [follows_ok] in Hfo. apply andb_true_iff in Hfo. tauto.
  - cbn [app] in Hsh, Hfo. inversion Hsh as [|? ? Hst Hsh']; subst.
    pose proof Hfo as Hfo0.
    cbn [follows_ok] in Hfo. apply andb_true_iff in Hfo. destruct Hfo as [Hft Hfo'].
    assert (Hl' : last_ok a (texts (o :: b)) = true).
    { destruct a as [|t' a']; [reflexivity|]. exact Hl. }
    destruct (IH Hsh' Hfo' Hk Ho Hl') as [IH1 IH2].
    split; [cbn [app]; constructor; assumption|].
    cbn [app follows_ok]. rewrite IH2, andb_true_r.
    destruct a as [|t' a'].
    + cbn [app] in *. inversion Hsh' as [|? ? Hssp Hsh'']; subst. inversion Hsh'' as [|? ? Hso ?]; subst.
      apply (follow_last_drop t sp o b Hssp Hso Hk Ho Hft). exact Hl.
    + cbn [app] in *. inversion Hsh' as [|? ? Hst' ?]; subst.
      pose proof (shape_nonempty t' Hst') as Hne'.
      unfold follow in *. apply andb_true_iff in Hft. destruct Hft as [Hfc Hpre].
      cbn [pre_ok] in *. rewrite Hpre, andb_true_r.
      unfold followc in *. rewrite !texts_hd_cons by exact Hne'.
      rewrite !texts_hd_cons in Hfc by exact Hne'.
      destruct (tcat t) eqn:Ek; cbv beta iota in Hfc |- *;
        match goal with |- context [find_point] => idtac | _ => exact Hfc end.
      apply andb_true_iff in Hfc. destruct Hfc as [Hls _]. rewrite Hls. cbn [andb].
      rewrite (cmd_find_stable t t' a' sp o b Hsh Hfo0 Ek Hk Ho). reflexivity.
Qed.

(* a CommandName that is not the letter part of a sizing command never fuses
   with what follows: a simple sufficient condition for last_ok *)
Fixpoint take_ls (s : str) : str :=
  match s with c :: s' => if ls_c c then c :: take_ls s' else [] | [] => [] end.

Definition sizing_prefixes : list str := map take_ls points.

Lemma take_ls_app cmd D :
  forallb ls_c cmd = true -> nc_not ls_c (hd_error D) = true -> take_ls (cmd ++ D) = cmd.
Proof.
  induction cmd as [|c cmd IH]; intros H HD.
  - cbn [app]. destruct D as [|d D']; [reflexivity|]. cbn [hd_error nc_not] in HD.
    apply negb_true_iff in HD. cbn [take_ls]. rewrite HD. reflexivity.
  - cbn [forallb] in H. apply andb_true_iff in H. destruct H as [H1 H2].
    cbn [app take_ls]. rewrite H1, (IH H2 HD). reflexivity.
Qed.

Lemma drop_ls_head s : nc_not ls_c (hd_error (drop_ls s)) = true.
Proof.
  induction s as [|c s IH]; [reflexivity|]. cbn [drop_ls].
  destruct (ls_c c) eqn:E; [exact IH|]. cbn [hd_error nc_not]. rewrite E. reflexivity.
Qed.

Theorem cmd_not_sizing_ok l rest :
  shape l = true -> tcat l = TCommandName -> nc_not ls_c (hd_error rest) = true ->
  mem_str (ttext l) sizing_prefixes = false ->
  last_tok_ok l rest = true.
Proof.
  intros Hs Hk Hr Hm. unfold last_tok_ok. rewrite Hk.
  destruct (find_point points (ttext l ++ rest)) as [q|] eqn:E; [|reflexivity].
  exfalso. apply find_point_in in E. destruct E as [Iq Fq].
  assert (Hcmd : forallb ls_c (ttext l) = true).
  { unfold shape in Hs. apply andb_true_iff in Hs. destruct Hs as [_ Hs]. rewrite Hk in Hs.
    cbn [shape_cat] in Hs. destruct (ttext l) as [|c m]; [discriminate Hs|].
    apply andb_true_iff in Hs. destruct Hs as [H1 H2]. cbn [forallb]. unfold ls_c at 1.
    rewrite H1, H2. reflexivity. }
  pose proof points_delim_ok_b as B. rewrite forallb_forall in B. specialize (B q Iq).
  unfold delim_ok_b in B.
  assert (Hdq : drop_ls q <> []) by (destruct (drop_ls q); [discriminate B | discriminate]).
  destruct (ls_prefix_split (ttext l) q rest Hcmd Hr Fq Hdq) as [Eq _].
  assert (Hin : In (ttext l) sizing_prefixes).
  { unfold sizing_prefixes. apply in_map_iff. exists q. split; [|exact Iq].
    rewrite Eq. apply take_ls_app; [exact Hcmd | apply drop_ls_head]. }
  apply In_mem_str in Hin. congruence.
Qed.

Lemma pre_ok_drop a sp o b :
  open_tok o -> pre_ok false (a ++ sp :: o :: b) = true -> pre_ok false (a ++ o :: b) = true.
Proof.
  intros Ho H. destruct a as [|t a]; [|exact H]. cbn [app pre_ok]. unfold pre_tok.
  destruct Ho as [Ho|Ho]; rewrite Ho; reflexivity.
Qed.

(* deleting an argument spacer from the text deletes exactly that token *)
Theorem drop_spacer_retokenize a sp o b :
  shaped (a ++ sp :: o :: b) -> follows_ok (a ++ sp :: o :: b) = true ->
  first_ok (a ++ sp :: o :: b) = true ->
  tcat sp = TMergedSpacer -> open_tok o -> last_ok a (texts (o :: b)) = true ->
  start_quirk (texts (a ++ o :: b)) = false ->
  shaped (a ++ o :: b) /\ follows_ok (a ++ o :: b) = true /\ first_ok (a ++ o :: b) = true /\
  tokens_of_string (texts (a ++ o :: b)) = (repos 0 (a ++ o :: b), TEnd).
Proof.
  intros Hsh Hfo Hfirst Hk Ho Hl Hq.
  destruct (drop_spacer_chain sp o b a Hsh Hfo Hk Ho Hl) as [S1 S2].
  assert (S3 : first_ok (a ++ o :: b) = true).
  { unfold first_ok in *. apply andb_true_iff in Hfirst. destruct Hfirst as [Hpre _].
    rewrite (pre_ok_drop a sp o b Ho Hpre), Hq. reflexivity. }
  repeat split; try assumption. apply tokinv; assumption.
Qed.

(* the same for a token list that the tokenizer produced *)
Theorem drop_spacer_retokenize_output s e a sp o b :
  clean s = true -> start_quirk s = false ->
  tokens_of_string s = (a ++ sp :: o :: b, e) ->
  tcat sp = TMergedSpacer -> open_tok o -> last_ok a (texts (o :: b)) = true ->
  start_quirk (texts (a ++ o :: b)) = false ->
  tokens_of_string (texts (a ++ o :: b)) = (repos 0 (a ++ o :: b), TEnd).
Proof.
  intros Hcl Hq E Hk Ho Hl Hq'.
  destruct (tokens_shaped s Hcl Hq) as (toks & E' & _ & T2 & T3 & T4 & _).
  rewrite E in E'. injection E' as E1 E2. subst toks.
  apply (drop_spacer_retokenize a sp o b); assumption.
Qed.

(* any set of argument spacers, deleted one after the other *)
Inductive DropSp : list token -> list token -> Prop :=
| DS_done l : DropSp l l
| DS_step a sp o b l' :
    tcat sp = TMergedSpacer -> open_tok o -> last_ok a (texts (o :: b)) = true ->
    DropSp (a ++ o :: b) l' -> DropSp (a ++ sp :: o :: b) l'.

Theorem drop_spacers_retokenize l l' :
  DropSp l l' -> shaped l -> follows_ok l = true -> first_ok l = true ->
  start_quirk (texts l') = false ->
  shaped l' /\ follows_ok l' = true /\ first_ok l' = true /\
  tokens_of_string (texts l') = (repos 0 l', TEnd).
Proof.
  intros D Hsh Hfo Hfirst Hq.
  assert (Hpre : pre_ok false l = true).
  { unfold first_ok in Hfirst. apply andb_true_iff in Hfirst. tauto. }
  clear Hfirst.
  assert (G : shaped l' /\ follows_ok l' = true /\ pre_ok false l' = true).
  { induction D as [l | a sp o b l' Hk Ho Hl D IH]; [repeat split; assumption|].
    destruct (drop_spacer_chain sp o b a Hsh Hfo Hk Ho Hl) as [S1 S2].
    apply IH; try assumption. apply (pre_ok_drop a sp o b Ho Hpre). }
  destruct G as (G1 & G2 & G3).
  assert (G4 : first_ok l' = true) by (unfold first_ok; rewrite G3, Hq; reflexivity).
  repeat split; try assumption. apply tokinv; assumption.
Qed.

(* ---- the side conditions are needed: refutations, replayed on the code *)

(* "\left {": the sizing prefix fuses with the brace *)
Theorem drop_spacer_sizing_refuted :
  exists s a sp o b,
    clean s = true /\ start_quirk s = false /\
    tokens_of_string s = (a ++ sp :: o :: b, TEnd) /\
    tcat sp = TMergedSpacer /\ tcat o = TGroupBegin /\
    start_quirk (texts (a ++ o :: b)) = false /\
    map ttext (fst (tokens_of_string (texts (a ++ o :: b)))) <> map ttext (a ++ o :: b).
Proof.
  exists [92; 108; 101; 102; 116; 32; 123]%N,
         [mkt [92]%N 0%Z TEscape; mkt [108; 101; 102; 116]%N 1%Z TCommandName],
         (mkt [32]%N 5%Z TMergedSpacer), (mkt [123]%N 6%Z TGroupBegin), [].
  vm_compute. repeat split; discriminate.
Qed.

(* "%c" eol "{": the comment swallows the brace *)
Theorem drop_spacer_comment_refuted :
  exists s a sp o b,
    clean s = true /\ start_quirk s = false /\
    tokens_of_string s = (a ++ sp :: o :: b, TEnd) /\
    tcat sp = TMergedSpacer /\ tcat o = TGroupBegin /\
    start_quirk (texts (a ++ o :: b)) = false /\
    map ttext (fst (tokens_of_string (texts (a ++ o :: b)))) <> map ttext (a ++ o :: b).
Proof.
  exists [37; 99; 10; 123]%N, [mkt [37; 99]%N 0%Z TComment],
         (mkt [10]%N 2%Z TMergedSpacer), (mkt [123]%N 3%Z TGroupBegin), [].
  vm_compute. repeat split; discriminate.
Qed.

(* "a\b {cccccccccc\x": the deletion moves an escape to index 14, which
   switches on the index-0 quirk: the first token becomes a CommandName *)
Theorem drop_spacer_quirk_refuted :
  exists s a sp o b,
    clean s = true /\ start_quirk s = false /\
    tokens_of_string s = (a ++ sp :: o :: b, TEnd) /\
    tcat sp = TMergedSpacer /\ tcat o = TGroupBegin /\
    last_ok a (texts (o :: b)) = true /\
    map tcat (fst (tokens_of_string (texts (a ++ o :: b)))) <> map tcat (a ++ o :: b).
Proof.
  exists [97; 92; 98; 32; 123; 99; 99; 99; 99; 99; 99; 99; 99; 99; 99; 92; 120]%N,
         [mkt [97]%N 0%Z TText; mkt [92]%N 1%Z TEscape; mkt [98]%N 2%Z TCommandName],
         (mkt [32]%N 3%Z TMergedSpacer), (mkt [123]%N 4%Z TGroupBegin),
         [mkt [99; 99; 99; 99; 99; 99; 99; 99; 99; 99]%N 5%Z TText; mkt [92]%N 15%Z TEscape;
          mkt [120]%N 16%Z TCommandName].
  vm_compute. repeat split; discriminate.
Qed.

(* ====================================================================== *)
(* non-vacuity                                                             *)
(* ====================================================================== *)

Lemma forallb_Forall {A} (f : A -> bool) l : forallb f l = true -> Forall (fun x => f x = true) l.
Proof. intro H. apply Forall_forall. apply forallb_forall. exact H. Qed.

(* the document (150 characters): commands, arguments after a blank and after
   a line break, inline/display math, a comment, escaped symbols, a sizing
   command, an item with an optional argument *)
Definition example_doc : str := [92; 115; 101; 99; 116; 105; 111; 110; 123; 73; 110; 116; 114; 111; 125; 32; 116; 101; 120; 116; 32; 92; 116; 101; 120; 116; 98; 102; 32; 123; 98; 111; 108; 100; 125; 10; 92; 99; 105; 116; 101; 10; 91; 112; 46; 32; 51; 93; 123; 107; 101; 121; 125; 32; 36; 120; 94; 50; 36; 32; 97; 110; 100; 32; 36; 36; 121; 36; 36; 32; 37; 32; 97; 32; 99; 111; 109; 109; 101; 110; 116; 10; 92; 91; 32; 92; 108; 101; 102; 116; 40; 32; 97; 32; 92; 114; 105; 103; 104; 116; 41; 32; 92; 93; 32; 92; 37; 32; 92; 38; 32; 92; 123; 32; 92; 92; 32; 109; 111; 114; 101; 32; 92; 105; 116; 101; 109; 91; 97; 93; 32; 98; 32; 32; 123; 99; 125; 32; 92; 40; 122; 92; 41; 32; 101; 110; 100; 46; 46; 46]%N.

Example example_doc_props :
  length example_doc = 150 /\ clean example_doc = true /\ start_quirk example_doc = false /\
  length (fst (tokens_of_string example_doc)) = 65.
Proof. vm_compute. repeat split. Qed.

(* the hypotheses of tokinv hold of the tokenizer's output on the document *)
Example example_doc_shaped :
  let toks := fst (tokens_of_string example_doc) in
  forallb shape toks = true /\ follows_ok toks = true /\ first_ok toks = true /\
  texts toks = example_doc.
Proof. vm_compute. repeat split. Qed.

(* tokinv applied to it *)
Example example_doc_tokinv :
  let toks := fst (tokens_of_string example_doc) in
  tokens_of_string (texts toks) = (repos 0 toks, TEnd).
Proof.
  cbv zeta. apply tokinv.
  - apply forallb_Forall. vm_compute. reflexivity.
  - vm_compute. reflexivity.
  - vm_compute. reflexivity.
Qed.

(* "\frac {a}" eol "{b}": both argument spacers deleted *)
Example example_drop_spacers :
  let s := [92; 102; 114; 97; 99; 32; 123; 97; 125; 10; 123; 98; 125]%N in
  let toks := fst (tokens_of_string s) in
  exists l', DropSp toks l' /\ texts l' = [92; 102; 114; 97; 99; 123; 97; 125; 123; 98; 125]%N /\
             shaped toks /\ follows_ok toks = true /\ first_ok toks = true /\
             start_quirk (texts l') = false /\
             tokens_of_string (texts l') = (repos 0 l', TEnd).
Proof.
  cbv zeta.
  set (l' := [mkt [92]%N 0%Z TEscape; mkt [102; 114; 97; 99]%N 1%Z TCommandName;
              mkt [123]%N 6%Z TGroupBegin; mkt [97]%N 7%Z TText; mkt [125]%N 8%Z TGroupEnd;
              mkt [123]%N 10%Z TGroupBegin; mkt [98]%N 11%Z TText; mkt [125]%N 12%Z TGroupEnd]).
  assert (D : DropSp (fst (tokens_of_string [92; 102; 114; 97; 99; 32; 123; 97; 125; 10; 123; 98; 125]%N)) l').
  { vm_compute fst.
    apply (DS_step [mkt [92]%N 0%Z TEscape; mkt [102; 114; 97; 99]%N 1%Z TCommandName]
                   (mkt [32]%N 5%Z TMergedSpacer) (mkt [123]%N 6%Z TGroupBegin));
      [reflexivity | left; reflexivity | vm_compute; reflexivity |].
    apply (DS_step [mkt [92]%N 0%Z TEscape; mkt [102; 114; 97; 99]%N 1%Z TCommandName;
                    mkt [123]%N 6%Z TGroupBegin; mkt [97]%N 7%Z TText; mkt [125]%N 8%Z TGroupEnd]
                   (mkt [10]%N 9%Z TMergedSpacer) (mkt [123]%N 10%Z TGroupBegin));
      [reflexivity | left; reflexivity | vm_compute; reflexivity |].
    apply DS_done. }
  assert (H1 : shaped (fst (tokens_of_string [92; 102; 114; 97; 99; 32; 123; 97; 125; 10; 123; 98; 125]%N))) by (apply forallb_Forall; vm_compute; reflexivity).
  assert (H2 : follows_ok (fst (tokens_of_string [92; 102; 114; 97; 99; 32; 123; 97; 125; 10; 123; 98; 125]%N)) = true) by (vm_compute; reflexivity).
  assert (H3 : first_ok (fst (tokens_of_string [92; 102; 114; 97; 99; 32; 123; 97; 125; 10; 123; 98; 125]%N)) = true) by (vm_compute; reflexivity).
  assert (H4 : start_quirk (texts l') = false) by (vm_compute; reflexivity).
  exists l'. split; [exact D|]. split; [vm_compute; reflexivity|].
  split; [exact H1|]. split; [exact H2|]. split; [exact H3|]. split; [exact H4|].
  apply (drop_spacers_retokenize _ l' D H1 H2 H3 H4).
Qed.

(* cmd_not_sizing_ok: "textbf" is not the letter part of a sizing command *)
Example example_not_sizing :
  mem_str [116; 101; 120; 116; 98; 102]%N sizing_prefixes = false /\
  mem_str [108; 101; 102; 116]%N sizing_prefixes = true.
Proof. vm_compute. split; reflexivity. Qed.

(* start_quirk_first_token: "a\" *)
Example example_quirk : start_quirk [97; 92]%N = true.
Proof. vm_compute. reflexivity. Qed.

(* ====================================================================== *)
(* TLineBreak is never produced: rule 5 is shadowed by rule 1              *)
(* (any input, NUL/DEL included)                                           *)
(* ====================================================================== *)

Lemma lookup_asym_not_lb a b : lookup_asym Tables.asym_map a b <> Some TLineBreak.
Proof. destruct a; destruct b; vm_compute; discriminate. Qed.

Lemma lookup_sym_not_lb a : lookup_sym Tables.symbols_map a <> Some TLineBreak.
Proof. destruct a; vm_compute; discriminate. Qed.

Lemma line_break_shadowed rest :
  rule_escaped_symbols rest = RNone ->
  match rule_line_break rest with RTok _ _ => False | _ => True end.
Proof.
  unfold rule_escaped_symbols, rule_line_break.
  destruct rest as [|c0 [|c1 r]]; try (intros _; destruct (is_cat CEscape c0); exact I).
  - intros _. exact I.
  - destruct (is_cat CEscape c0); [|intros _; exact I].
    destruct (is_cat CEscape c1) eqn:E1; [|intros _; exact I].
    apply is_cat_true in E1. rewrite E1. vm_compute. discriminate.
Qed.

Lemma run_rules_no_linebreak cx rest t rest' :
  run_rules Tables.rule_order cx rest = RTok t rest' -> tcat t <> TLineBreak.
Proof.
  unfold Tables.rule_order. cbn [run_rules run_rule].
  destruct (rule_escaped_symbols rest) as [|t1 r1|r1|] eqn:E1; try discriminate.
  2:{ intro H. inversion H; subst. unfold rule_escaped_symbols in E1.
      destruct rest as [|c0 [|c1 r]]; try discriminate E1;
        destruct (is_cat CEscape c0); try discriminate E1.
      destruct (mem_cc (ccat c1) Tables.escaped_second_cats); inversion E1. discriminate. }
  destruct (rule_comment (cx_prev cx) rest) as [|t2 r2|r2|] eqn:E2; try discriminate.
  2:{ intro H. inversion H; subst. unfold rule_comment in E2.
      destruct rest as [|c0 r]; try discriminate E2.
      destruct (is_cat CComment c0 && comment_allowed (cx_prev cx)); try discriminate E2.
      destruct (take_while _ r). inversion E2. discriminate. }
  destruct (rule_math_sym_switch rest) as [|t3 r3|r3|] eqn:E3; try discriminate.
  2:{ intro H. inversion H; subst. unfold rule_math_sym_switch in E3.
      destruct rest as [|c0 [|c1 r]]; try discriminate E3;
        destruct (is_cat CMathSwitch c0); try discriminate E3.
      - inversion E3. discriminate.
      - destruct (is_cat CMathSwitch c1); inversion E3; discriminate. }
  destruct (rule_math_asym_switch rest) as [|t4 r4|r4|] eqn:E4; try discriminate.
  2:{ intro H. inversion H; subst. unfold rule_math_asym_switch in E4.
      destruct rest as [|c0 [|c1 r]]; try discriminate E4.
      destruct (lookup_asym Tables.asym_map (ccat c0) (ccat c1)) as [k|] eqn:Ek; try discriminate E4.
      inversion E4. cbn [tcat]. intro F. subst k. exact (lookup_asym_not_lb _ _ Ek). }
  pose proof (line_break_shadowed rest E1) as S5.
  destruct (rule_line_break rest) as [|t5 r5|r5|] eqn:E5; try discriminate; try contradiction.
  destruct (rule_ignore rest) as [|t6 r6|r6|] eqn:E6; try discriminate.
  2:{ unfold rule_ignore in E6. destruct (take_while _ rest) as [sk r']. destruct sk; discriminate E6. }
  destruct (rule_spacers (cx_idx cx) rest) as [|t7 r7|r7|] eqn:E7; try discriminate.
  2:{ intro H. inversion H; subst. unfold rule_spacers in E7.
      destruct (take_while (is_cat CSpacer) rest) as [s1 r1].
      destruct (match r1 with
                | c :: r' => if is_cat CEndOfLine c then ([c], r') else ([], r1)
                | [] => ([], r1) end) as [e r2].
      destruct (take_while (is_cat CSpacer) r2) as [s2 r3].
      destruct r3 as [|c r3'].
      - destruct (s1 ++ e ++ s2); inversion E7. discriminate.
      - destruct (mem_cc (ccat c) Tables.spacer_rollback_cats); try discriminate E7.
        destruct (s1 ++ e ++ s2); inversion E7. discriminate. }
  destruct (rule_symbols rest) as [|t8 r8|r8|] eqn:E8; try discriminate.
  2:{ intro H. inversion H; subst. unfold rule_symbols in E8.
      destruct rest as [|c0 r]; try discriminate E8.
      destruct (lookup_sym Tables.symbols_map (ccat c0)) as [k|] eqn:Ek; try discriminate E8.
      inversion E8. cbn [tcat]. intro F. subst k. exact (lookup_sym_not_lb _ Ek). }
  destruct (rule_punctuation (cx_points cx) (cx_prevc_punct cx) rest) as [|t9 r9|r9|] eqn:E9;
    try discriminate.
  2:{ intro H. inversion H; subst. unfold rule_punctuation in E9.
      destruct (prev_is_escape (cx_prevc_punct cx)); try discriminate E9.
      destruct (find_point (cx_points cx) (chars_of rest)) as [q|]; try discriminate E9.
      destruct (firstn (length q) rest); inversion E9. discriminate. }
  destruct (rule_command_name (cx_prevc_cmd cx) rest) as [|t10 r10|r10|] eqn:E10; try discriminate.
  2:{ intro H. inversion H; subst. unfold rule_command_name in E10.
      destruct (prev_is_escape (cx_prevc_cmd cx)); try discriminate E10.
      destruct rest as [|c0 r]; try discriminate E10.
      destruct (is_cat CLetter c0); try discriminate E10.
      destruct (take_while _ r). inversion E10. discriminate. }
  unfold rule_string. destruct (take_while _ rest). intro H. inversion H. discriminate.
Qed.

Lemma loop_no_linebreak fuel : forall pts idx pp pc prev rest,
  Forall (fun t => tcat t <> TLineBreak) (fst (tokenize_loop fuel pts idx pp pc prev rest)).
Proof.
  induction fuel as [|f IH]; intros pts idx pp pc prev rest; cbn [tokenize_loop]; [constructor|].
  destruct rest as [|c0 r]; [constructor|].
  destruct (run_rules Tables.rule_order (mkctx idx prev pp pc pts) (c0 :: r)) as [|t rest'|rest'|] eqn:E;
    try constructor.
  - specialize (IH pts (idx + Z.of_nat (length (c0 :: r) - length rest'))%Z
                   (last_consumed (c0 :: r) rest') (last_consumed (c0 :: r) rest') (Some t) rest').
    destruct (tokenize_loop f pts _ _ _ _ rest') as [ts e]. cbn [fst] in *.
    constructor; [eapply run_rules_no_linebreak; exact E | exact IH].
  - apply IH.
Qed.

Theorem no_linebreak_token s : Forall (fun t => tcat t <> TLineBreak) (fst (tokens_of_string s)).
Proof. unfold tokens_of_string, tokenize, tokenize_with. apply loop_no_linebreak. Qed.

(* "\\" is an EscapedComment token *)
Example example_no_linebreak :
  map (fun t => (ttext t, tcat t)) (fst (tokens_of_string [92; 92; 97]%N)) =
  [([92; 92]%N, TEscapedComment); ([97]%N, TCommandName)].
Proof. vm_compute. reflexivity. Qed.

(* ====================================================================== *)
(* what may follow a lone Escape token: on NUL/DEL-free input, a letter     *)
(* (or the end of the input) -- so the next token is a CommandName or a     *)
(* PunctuationCommandName                                                  *)
(* ====================================================================== *)

Lemma lookup_cat_in tbl c k : lookup_cat tbl c = Some k -> In k (map fst tbl).
Proof.
  induction tbl as [|[k' vs] tbl IH]; cbn [lookup_cat map fst]; [discriminate|].
  destruct (mem_N c vs); [intro H; inversion H; left; reflexivity | intro H; right; apply IH, H].
Qed.

Lemma categorize_char_in c : In (categorize_char c) (COther :: map fst Tables.category_table).
Proof.
  unfold categorize_char. destruct (lookup_cat Tables.category_table c) as [k|] eqn:E.
  - right. eapply lookup_cat_in. exact E.
  - left. reflexivity.
Qed.

Theorem escape_follow_is_letter c :
  clean_c c = true ->
  nc_not esc2_c (Some c) && nc_not asym_c (Some c) = is_c CLetter c.
Proof.
  intro Hcl. pose proof (categorize_char_in c) as Hin.
  unfold nc_not, esc2_c, asym_c, is_c, clean_c in *.
  destruct (categorize_char c); try reflexivity; try (vm_compute in Hcl; discriminate Hcl);
    exfalso; vm_compute in Hin;
    repeat (destruct Hin as [Hin|Hin]; [discriminate Hin|]); exact Hin.
Qed.

Corollary escape_followed_by_command t n r :
  shape t = true -> shape n = true -> tcat t = TEscape -> follow t (n :: r) = true ->
  tcat n = TCommandName \/ tcat n = TPunctuationCommandName.
Proof.
  intros Hst Hsn Hk Hf. unfold follow in Hf. apply andb_true_iff in Hf. destruct Hf as [Hfc Hpre].
  pose proof (shape_nonempty n Hsn) as Hne.
  unfold followc in Hfc. rewrite Hk in Hfc. rewrite texts_hd_cons in Hfc by exact Hne.
  destruct (ttext n) as [|c x] eqn:En; [congruence|]. cbn [hd_error] in Hfc.
  assert (Hcl : clean_c c = true).
  { unfold shape in Hsn. apply andb_true_iff in Hsn. destruct Hsn as [H _]. rewrite En in H.
    cbn [forallb] in H. apply andb_true_iff in H. tauto. }
  rewrite (escape_follow_is_letter c Hcl) in Hfc.
  (* t ends with an escape *)
  assert (He : ends_esc t = true).
  { unfold shape in Hst. apply andb_true_iff in Hst. destruct Hst as [_ H]. rewrite Hk in H.
    cbn [shape_cat] in H. unfold ends_esc. destruct (ttext t) as [|e [|? ?]]; try discriminate H.
    cbn [last]. unfold is_c.
    destruct (categorize_char e); vm_compute in H; try discriminate H; reflexivity. }
  rewrite He in Hpre. cbn [pre_ok] in Hpre. unfold pre_tok in Hpre.
  unfold shape in Hsn. apply andb_true_iff in Hsn. destruct Hsn as [_ Hsn].
  rewrite En in *. apply is_c_true in Hfc.
  destruct (tcat n); try (left; reflexivity); try (right; reflexivity); exfalso;
    try discriminate Hpre; cbn [shape_cat] in Hsn; try discriminate Hsn.
  - (* TEscape *) destruct x; [|discriminate Hsn]. rewrite Hfc in Hsn. vm_compute in Hsn. discriminate Hsn.
  - destruct x; [|discriminate Hsn]. rewrite Hfc in Hsn. vm_compute in Hsn. discriminate Hsn.
  - destruct x; [|discriminate Hsn]. rewrite Hfc in Hsn. vm_compute in Hsn. discriminate Hsn.
  - unfold is_c in Hsn. rewrite Hfc in Hsn. discriminate Hsn.
  - (* TMergedSpacer *)
    unfold after_spacers in Hsn. cbn [drop_blanks] in Hsn. unfold is_c in Hsn. rewrite Hfc in Hsn.
    cbn [cc_beq drop_eol] in Hsn. unfold is_c in Hsn. rewrite Hfc in Hsn.
    cbn [cc_beq drop_blanks] in Hsn. unfold is_c in Hsn. rewrite Hfc in Hsn. discriminate Hsn.
  - destruct x as [|? [|? ?]]; try discriminate Hsn. unfold is_c in Hsn. rewrite Hfc in Hsn. discriminate Hsn.
  - destruct x; [|discriminate Hsn]. unfold is_c in Hsn. rewrite Hfc in Hsn. discriminate Hsn.
  - destruct x as [|? [|? ?]]; try discriminate Hsn. unfold is_c in Hsn. rewrite Hfc in Hsn. discriminate Hsn.
  - destruct x as [|c1 [|? ?]]; try discriminate Hsn. rewrite Hfc in Hsn.
    rewrite asym_key_escape in Hsn by discriminate. discriminate Hsn.
  - destruct x as [|c1 [|? ?]]; try discriminate Hsn. rewrite Hfc in Hsn.
    rewrite asym_key_escape in Hsn by discriminate. discriminate Hsn.
  - destruct x as [|c1 [|? ?]]; try discriminate Hsn. rewrite Hfc in Hsn.
    rewrite asym_key_escape in Hsn by discriminate. discriminate Hsn.
  - destruct x as [|c1 [|? ?]]; try discriminate Hsn. rewrite Hfc in Hsn.
    rewrite asym_key_escape in Hsn by discriminate. discriminate Hsn.
  - (* TText starting with a letter after an escape *)
    cbn [starts_letter andb negb] in Hpre. unfold is_c in Hpre. rewrite Hfc in Hpre. discriminate Hpre.
  - destruct x; [|discriminate Hsn]. rewrite Hfc in Hsn. vm_compute in Hsn. discriminate Hsn.
  - destruct x; [|discriminate Hsn]. rewrite Hfc in Hsn. vm_compute in Hsn. discriminate Hsn.
Qed.

(* ====================================================================== *)
(* Stage 4: stability under inserted closers (what the tolerant mode       *)
(* serialises: "}", "]", "\end{name}" inserted between two tokens or at    *)
(* the end)                                                                *)
(* ====================================================================== *)

(* first character of an inserted sequence: a closing brace/bracket or an escape *)
Definition ins_c (c : N) : bool := is_c CGroupEnd c || is_c CBracketEnd c || is_c CEscape c.

(* table fact: in the delimiter of a sizing command such a character occurs
   only first, or second after an escape *)
Definition delim_ins_ok_b (q : str) : bool :=
  match drop_ls q with
  | [] => false
  | d0 :: tl => forallb (fun d => negb (ins_c d)) tl ||
                (is_c CEscape d0 && match tl with [_] => true | _ => false end)
  end.

Lemma points_delim_ins_ok_b : forallb delim_ins_ok_b points = true.
Proof. vm_compute. reflexivity. Qed.

(* the token before the insertion point: a Comment would swallow the inserted
   text, a lone Escape would fuse with it ("\" + "}"), a sizing prefix would
   fuse with it ("\left" + "}") *)
Definition ins_last_tok_ok (l : token) (rest : str) : bool :=
  match tcat l with
  | TComment | TEscape => false
  | TCommandName =>
    match find_point points (ttext l ++ rest) with None => true | Some _ => false end
  | _ => true
  end.

Fixpoint ins_last_ok (a : list token) (rest : str) : bool :=
  match a with
  | [] => true
  | [l] => ins_last_tok_ok l rest
  | _ :: a' => ins_last_ok a' rest
  end.

Lemma ins_char_facts d : ins_c d = true ->
  text_c d = false /\ rollback_c d = false /\ is_c CSpacer d = false /\
  is_c CEndOfLine d = false /\ is_c CMathSwitch d = false /\ ls_c d = false.
Proof.
  unfold ins_c, text_c, rollback_c, ls_c, is_c. intro H.
  assert (Hs : N.eqb d star = true -> False).
  { intro E. apply N.eqb_eq in E. subst d. vm_compute in H. discriminate H. }
  destruct (N.eqb d star); [exfalso; apply Hs; reflexivity|].
  destruct (categorize_char d); vm_compute in H; try discriminate H; repeat split; reflexivity.
Qed.

Lemma follow_last_ins l ins b d x0 :
  texts ins = d :: x0 -> ins_c d = true -> (forall e, pre_ok e ins = true) ->
  follow l b = true -> ins_last_tok_ok l (texts (ins ++ b)) = true ->
  follow l (ins ++ b) = true.
Proof.
  intros Ei Hd Hpre Hf Hl.
  destruct (ins_char_facts d Hd) as (D1 & D2 & D3 & D4 & D5 & D6).
  unfold follow in *. apply andb_true_iff in Hf. destruct Hf as [Hfc _].
  apply andb_true_iff. split.
  2:{ destruct ins as [|i0 ins']; [discriminate Ei|]. cbn [app pre_ok]. apply (Hpre (ends_esc l)). }
  rewrite texts_app, Ei in *. cbn [app] in *.
  unfold followc in *. unfold ins_last_tok_ok in Hl. cbn [hd_error nc_not] in *.
  destruct (tcat l); try reflexivity; try discriminate Hl.
  - rewrite D2, D3, D4. cbn [negb andb]. apply orb_true_r.
  - rewrite D5. reflexivity.
  - rewrite D6. cbn [negb andb]. exact Hl.
  - rewrite D1. reflexivity.
Qed.

Lemma cmd_find_stable_ins t t' a' ins b d x0 :
  shaped (t :: t' :: a' ++ b) -> follows_ok (t :: t' :: a' ++ b) = true ->
  tcat t = TCommandName -> texts ins = d :: x0 -> ins_c d = true ->
  ins_last_ok (t :: t' :: a') (texts (ins ++ b)) = true ->
  find_point points (ttext t ++ texts (t' :: a' ++ ins ++ b)) = None.
Proof.
  intros Hsh Hfo Hk Ei Hd Hl.
  inversion Hsh as [|? ? Hst Hsh1]; subst. inversion Hsh1 as [|? ? Hst' Hsh2]; subst.
  apply shaped_app in Hsh2. destruct Hsh2 as [Hsa Hsb].
  pose proof (shape_nonempty t' Hst') as Hne'.
  cbn [follows_ok] in Hfo. apply andb_true_iff in Hfo. destruct Hfo as [Hft _].
  unfold follow in Hft. apply andb_true_iff in Hft. destruct Hft as [Hfc _].
  unfold followc in Hfc. rewrite Hk in Hfc. apply andb_true_iff in Hfc. destruct Hfc as [Hls Hnone].
  destruct (find_point points (ttext t ++ texts (t' :: a' ++ b))) eqn:Ew; [discriminate Hnone|].
  clear Hnone.
  destruct (find_point points (ttext t ++ texts (t' :: a' ++ ins ++ b))) as [q|] eqn:Ew'; [|reflexivity].
  exfalso. apply find_point_in in Ew'. destruct Ew' as [Iq Fq].
  pose proof (find_point_none _ _ Ew q Iq) as Nq.
  assert (Hcmd : forallb ls_c (ttext t) = true).
  { unfold shape in Hst. apply andb_true_iff in Hst. destruct Hst as [_ Hst]. rewrite Hk in Hst.
    cbn [shape_cat] in Hst. destruct (ttext t) as [|c m]; [discriminate Hst|].
    apply andb_true_iff in Hst. destruct Hst as [H1 H2]. cbn [forallb]. unfold ls_c at 1.
    rewrite H1, H2. reflexivity. }
  pose proof points_delim_ins_ok_b as B. rewrite forallb_forall in B. specialize (B q Iq).
  unfold delim_ins_ok_b in B.
  assert (Hdq : drop_ls q <> []) by (destruct (drop_ls q); [discriminate B | discriminate]).
  assert (Hhd : hd_error (texts (t' :: a' ++ ins ++ b)) = hd_error (texts (t' :: a' ++ b))).
  { rewrite !texts_hd_cons by exact Hne'. reflexivity. }
  rewrite <- Hhd in Hls.
  destruct (ls_prefix_split (ttext t) q _ Hcmd Hls Fq Hdq) as [Eq FD].
  set (D := drop_ls q) in *.
  set (X := texts (t' :: a')).
  assert (EW' : texts (t' :: a' ++ ins ++ b) = X ++ texts (ins ++ b)).
  { change (t' :: a' ++ ins ++ b) with ((t' :: a') ++ ins ++ b). apply texts_app. }
  assert (EW : texts (t' :: a' ++ b) = X ++ texts b).
  { change (t' :: a' ++ b) with ((t' :: a') ++ b). apply texts_app. }
  rewrite EW' in FD. rewrite EW in Nq.
  assert (ND : firstn (length D) (X ++ texts b) <> D).
  { intro E. apply Nq. rewrite Eq at 1. rewrite app_length, firstn_app_2, E. symmetry. exact Eq. }
  destruct (prefix_beyond X D _ _ FD ND) as (D2 & ED & ND2 & FD2).
  rewrite texts_app, Ei in FD2. destruct D2 as [|d' D2']; [congruence|].
  cbn [app length firstn] in FD2. injection FD2 as E1 E2. subst d'.
  assert (HX : exists x1 X', X = x1 :: X').
  { unfold X. rewrite texts_cons. destruct (ttext t') as [|x1 y]; [congruence|]. cbn [app]. eauto. }
  destruct HX as (x1 & X' & EX). rewrite EX in ED. cbn [app] in ED. rewrite ED in B.
  assert (Hopen : forallb (fun d0 => negb (ins_c d0)) (X' ++ d :: D2') = false).
  { rewrite forallb_app. cbn [forallb]. rewrite Hd. cbn [negb andb]. apply andb_false_r. }
  rewrite Hopen in B. cbn [orb] in B. apply andb_true_iff in B. destruct B as [B0 B1].
  destruct X' as [|? ?]; [|destruct X'; discriminate B1].
  (* X = [escape]: the token before the insertion point is a lone Escape *)
  unfold X in EX. rewrite texts_cons in EX.
  destruct (ttext t') as [|y0 y] eqn:Et'; [congruence|].
  cbn [app] in EX. injection EX as E0 E1'. subst y0.
  apply app_eq_nil in E1'. destruct E1' as [Ey Ea']. subst y.
  apply texts_nil_shaped in Ea'; [|exact Hsa]. subst a'.
  assert (Hk' : tcat t' = TEscape).
  { unfold shape in Hst'. apply andb_true_iff in Hst'. destruct Hst' as [_ Hst'].
    rewrite Et' in Hst'. apply (shape_single_escape _ x1 B0 Hst'). }
  cbn [ins_last_ok] in Hl. unfold ins_last_tok_ok in Hl. rewrite Hk' in Hl. discriminate Hl.
Qed.

Lemma insert_chain ins b d x0 : forall a,
  shaped (a ++ b) -> follows_ok (a ++ b) = true ->
  shaped ins -> follows_ok (ins ++ b) = true ->
  texts ins = d :: x0 -> ins_c d = true -> (forall e, pre_ok e ins = true) ->
  ins_last_ok a (texts (ins ++ b)) = true ->
  shaped (a ++ ins ++ b) /\ follows_ok (a ++ ins ++ b) = true.
Proof.
  induction a as [|t a IH]; intros Hsh Hfo Hsi Hfi Ei Hd Hpre Hl.
  - cbn [app] in *. split; [apply shaped_app; split; assumption | exact Hfi].
  - cbn [app] in Hsh, Hfo. inversion Hsh as [|? ? Hst Hsh']; subst.
    pose proof Hfo as Hfo0.
    cbn [follows_ok] in Hfo. apply andb_true_iff in Hfo. destruct Hfo as [Hft Hfo'].
    assert (Hl' : ins_last_ok a (texts (ins ++ b)) = true).
    { destruct a as [|t' a']; [reflexivity|]. exact Hl. }
    destruct (IH Hsh' Hfo' Hsi Hfi Ei Hd Hpre Hl') as [IH1 IH2].
    split; [cbn [app]; constructor; assumption|].
    cbn [app follows_ok]. rewrite IH2, andb_true_r.
    destruct a as [|t' a'].
    + cbn [app] in *. apply (follow_last_ins t ins b d x0 Ei Hd Hpre Hft). exact Hl.
    + cbn [app] in *. inversion Hsh' as [|? ? Hst' ?]; subst.
      pose proof (shape_nonempty t' Hst') as Hne'.
      unfold follow in *. apply andb_true_iff in Hft. destruct Hft as [Hfc Hpre'].
      cbn [pre_ok] in *. rewrite Hpre', andb_true_r.
      unfold followc in *. rewrite !texts_hd_cons by exact Hne'.
      rewrite !texts_hd_cons in Hfc by exact Hne'.
      destruct (tcat t) eqn:Ek; cbv beta iota in Hfc |- *;
        match goal with |- context [find_point] => idtac | _ => exact Hfc end.
      apply andb_true_iff in Hfc. destruct Hfc as [Hls _]. rewrite Hls. cbn [andb].
      rewrite (cmd_find_stable_ins t t' a' ins b d x0 Hsh Hfo0 Ek Ei Hd Hl). reflexivity.
Qed.

(* inserting a shaped sequence that starts with "}", "]" or an escape between
   two tokens (or at the end: b = []) inserts exactly these tokens *)
Theorem insert_retokenize a ins b d x0 :
  shaped (a ++ b) -> follows_ok (a ++ b) = true -> first_ok (a ++ b) = true ->
  shaped ins -> follows_ok (ins ++ b) = true ->
  texts ins = d :: x0 -> ins_c d = true -> (forall e, pre_ok e ins = true) ->
  ins_last_ok a (texts (ins ++ b)) = true ->
  start_quirk (texts (a ++ ins ++ b)) = false ->
  shaped (a ++ ins ++ b) /\ follows_ok (a ++ ins ++ b) = true /\
  first_ok (a ++ ins ++ b) = true /\
  tokens_of_string (texts (a ++ ins ++ b)) = (repos 0 (a ++ ins ++ b), TEnd).
Proof.
  intros Hsh Hfo Hfirst Hsi Hfi Ei Hd Hpre Hl Hq.
  destruct (insert_chain ins b d x0 a Hsh Hfo Hsi Hfi Ei Hd Hpre Hl) as [S1 S2].
  assert (S3 : first_ok (a ++ ins ++ b) = true).
  { unfold first_ok in *. apply andb_true_iff in Hfirst. destruct Hfirst as [Hp _].
    rewrite Hq. cbn [negb]. rewrite andb_true_r.
    destruct a as [|t a']; [cbn [app]|exact Hp].
    destruct ins as [|i0 ins']; [discriminate Ei|]. apply (Hpre false). }
  repeat split; try assumption. apply tokinv; assumption.
Qed.

(* the single-token case: one closing brace or bracket *)
Theorem insert_closer_retokenize a c b :
  shaped (a ++ b) -> follows_ok (a ++ b) = true -> first_ok (a ++ b) = true ->
  shape c = true -> tcat c = TGroupEnd \/ tcat c = TBracketEnd ->
  pre_ok false b = true ->
  ins_last_ok a (texts (c :: b)) = true ->
  start_quirk (texts (a ++ c :: b)) = false ->
  tokens_of_string (texts (a ++ c :: b)) = (repos 0 (a ++ c :: b), TEnd).
Proof.
  intros Hsh Hfo Hfirst Hsc Hk Hpb Hl Hq.
  assert (Hc : exists d, ttext c = [d] /\ ins_c d = true).
  { unfold shape in Hsc. apply andb_true_iff in Hsc. destruct Hsc as [_ H].
    assert (G : match ttext c with
                | [x] => match lookup_sym Tables.symbols_map (categorize_char x) with
                         | Some k' => tc_beq k' (tcat c) | None => false end
                | _ => false end = true).
    { destruct Hk as [Hk|Hk]; rewrite Hk in H |- *; exact H. }
    destruct (ttext c) as [|d [|? ?]]; try discriminate G. exists d. split; [reflexivity|].
    destruct (lookup_sym Tables.symbols_map (categorize_char d)) as [k'|] eqn:E; [|discriminate G].
    apply tc_eqb_eq in G. subst k'. unfold ins_c, is_c.
    destruct Hk as [Hk|Hk]; rewrite Hk in E; destruct (categorize_char d); vm_compute in E;
      try discriminate E; reflexivity. }
  destruct Hc as (d & Ed & Hd).
  assert (Hends : ends_esc c = false).
  { unfold ends_esc. rewrite Ed. cbn [last]. unfold ins_c, is_c in *.
    destruct Hk as [Hk|Hk]; unfold shape in Hsc; apply andb_true_iff in Hsc;
      destruct Hsc as [_ H]; rewrite Hk, Ed in H; cbn [shape_cat] in H;
      destruct (categorize_char d); vm_compute in H; try discriminate H; reflexivity. }
  assert (Hsb : shaped b) by (apply shaped_app in Hsh; tauto).
  assert (Hfb : follows_ok b = true).
  { clear - Hfo. induction a as [|t a IH]; [exact Hfo|]. cbn [app follows_ok] in Hfo.
    apply andb_true_iff in Hfo. apply IH. tauto. }
  change (a ++ c :: b) with (a ++ [c] ++ b) in *.
  apply (insert_retokenize a [c] b d []); try assumption.
  - constructor; [exact Hsc | constructor].
  - cbn [app follows_ok]. rewrite Hfb, andb_true_r. unfold follow. rewrite Hends, Hpb, andb_true_r.
    unfold followc. destruct Hk as [Hk|Hk]; rewrite Hk; reflexivity.
  - unfold texts. cbn [map concat]. rewrite Ed. reflexivity.
  - intro e. cbn [pre_ok]. unfold pre_tok. destruct Hk as [Hk|Hk]; rewrite Hk; reflexivity.
Qed.

(* the side conditions are needed *)
Theorem insert_closer_refuted :
  exists a c,
    shaped a /\ follows_ok a = true /\ first_ok a = true /\ shape c = true /\
    tcat c = TGroupEnd /\ start_quirk (texts (a ++ [c])) = false /\
    map ttext (fst (tokens_of_string (texts (a ++ [c])))) <> map ttext (a ++ [c]).
Proof.
  (* "{\left" + "}" *)
  exists [mkt [123]%N 0%Z TGroupBegin; mkt [92]%N 1%Z TEscape;
          mkt [108; 101; 102; 116]%N 2%Z TCommandName], (mkt [125]%N 6%Z TGroupEnd).
  split; [apply forallb_Forall; vm_compute; reflexivity|].
  vm_compute. repeat split; discriminate.
Qed.

(* "\begin{a}{x" closed by the tolerant mode: "}" and "\end{a}" appended *)
Example example_insert :
  let a := fst (tokens_of_string [92; 98; 101; 103; 105; 110; 123; 97; 125; 123; 120]%N) in
  let ins := fst (tokens_of_string [125; 92; 101; 110; 100; 123; 97; 125]%N) in
  shaped a /\ follows_ok a = true /\ first_ok a = true /\
  ins_last_ok a (texts (ins ++ [])) = true /\
  tokens_of_string (texts (a ++ ins ++ [])) = (repos 0 (a ++ ins ++ []), TEnd) /\
  texts (a ++ ins ++ []) = [92; 98; 101; 103; 105; 110; 123; 97; 125; 123; 120; 125; 92; 101; 110; 100; 123; 97; 125]%N.
Proof.
  cbv zeta.
  set (a := fst (tokens_of_string [92; 98; 101; 103; 105; 110; 123; 97; 125; 123; 120]%N)).
  set (ins := fst (tokens_of_string [125; 92; 101; 110; 100; 123; 97; 125]%N)).
  assert (H1 : shaped a) by (apply forallb_Forall; vm_compute; reflexivity).
  assert (H2 : follows_ok a = true) by (vm_compute; reflexivity).
  assert (H3 : first_ok a = true) by (vm_compute; reflexivity).
  assert (H4 : shaped ins) by (apply forallb_Forall; vm_compute; reflexivity).
  assert (H5 : follows_ok (ins ++ []) = true) by (vm_compute; reflexivity).
  assert (H6 : ins_last_ok a (texts (ins ++ [])) = true) by (vm_compute; reflexivity).
  assert (H7 : start_quirk (texts (a ++ ins ++ [])) = false) by (vm_compute; reflexivity).
  split; [exact H1|]. split; [exact H2|]. split; [exact H3|]. split; [exact H6|].
  split; [|vm_compute; reflexivity].
  apply (insert_retokenize a ins [] 125%N [92; 101; 110; 100; 123; 97; 125]%N);
    first [ assumption | vm_compute; reflexivity
          | intro e; destruct e; vm_compute; reflexivity ].
Qed.
